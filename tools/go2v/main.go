// go2v — translator from a small, precisely delimited Go fragment to Gallina (DESIGN.md §1.1 (T)).
//
//	go2v -repo /repo -out /verif/coq/Gen  spec...
//	spec = <ModuleName>=<file.go>:<Func>,<Type.Method>,...
//
// Fragment: top-level functions and value-receiver methods on named integer types whose parameters, results and
// locals are uint8/16/32/64, int64, int, bool or named types over those; statements: `if/else`, `return`, `x := e`,
// `x = e`, `var x T`; expressions: + - * / % & | ^ << >> with Go's fixed-width semantics, comparisons, && || !,
// unary minus, conversions between integer types, calls to other translated functions/methods, package-level
// integer constants (their values are obtained exactly through go/constant), selected `thor.` constants (values
// read from the repo source the same way) and the whitelisted configuration getters thor.EpochLength(),
// thor.BlockInterval() … which become Section variables.  Results `(T, error)` become `option T` (Some v / None).
// No loops, pointers, slices, structs or state.  Anything else: the function is reported as outside the
// fragment and skipped (the check then relies on the correspondence run for it) — never silently approximated.
//
// Semantics: every integer is a Z; every arithmetic result is wrapped to the static Go type of the expression
// (wrapU w x = x mod 2^w; wrapS w x = two's-complement).  Division by zero is not in the fragment's semantics:
// each `/` and `%` whose divisor is not a non-zero constant produces a side obligation comment `(* div: d <> 0 *)`
// and is emitted as Z.quot/Z.rem for signed, Z.div/Z.modulo for unsigned operands.
package main

import (
	"flag"
	"fmt"
	"go/ast"
	"go/constant"
	"go/parser"
	"go/token"
	"os"
	"path/filepath"
	"sort"
	"strings"
)

type ty struct {
	kind  string // "u" unsigned, "s" signed, "bool", "untyped", "opt"
	width int
	elem  *ty // for opt
}

func (t ty) String() string {
	switch t.kind {
	case "u":
		return fmt.Sprintf("uint%d", t.width)
	case "s":
		return fmt.Sprintf("int%d", t.width)
	}
	return t.kind
}

var basic = map[string]ty{
	"uint8": {"u", 8, nil}, "byte": {"u", 8, nil}, "uint16": {"u", 16, nil}, "uint32": {"u", 32, nil}, "uint64": {"u", 64, nil},
	"uint": {"u", 64, nil}, "int64": {"s", 64, nil}, "int32": {"s", 32, nil}, "int": {"s", 64, nil}, "bool": {"bool", 0, nil},
}

var configGetters = map[string]ty{
	"thor.EpochLength": {"u", 32, nil}, "thor.BlockInterval": {"u", 64, nil}, "thor.SeederInterval": {"u", 32, nil},
	"thor.CheckpointInterval": {"u", 32, nil},
}

type unsupported struct{ why string }

func bail(format string, a ...any) { panic(unsupported{fmt.Sprintf(format, a...)}) }

type fnSig struct {
	coqName string
	params  []ty
	result  ty
}

type pkgCtx struct {
	fset    *token.FileSet
	named   map[string]ty             // named integer types of the package
	consts  map[string]constant.Value // package-level constants (exact)
	constTy map[string]ty             // typed constants
	sigs    map[string]fnSig          // "Func" or "Type.Method"
	extern  map[string]constant.Value // thor.X etc
	externT map[string]ty
	usedCfg map[string]bool
	repo    string
}

func (p *pkgCtx) resolveType(e ast.Expr) ty {
	switch x := e.(type) {
	case *ast.Ident:
		if t, ok := basic[x.Name]; ok {
			return t
		}
		if t, ok := p.named[x.Name]; ok {
			return t
		}
		bail("type %s outside the fragment", x.Name)
	}
	bail("type expression outside the fragment")
	return ty{}
}

// ---------------------------------------------------------------- constants

func evalConst(e ast.Expr, env map[string]constant.Value, p *pkgCtx) (constant.Value, bool) {
	switch x := e.(type) {
	case *ast.BasicLit:
		if x.Kind == token.INT {
			return constant.MakeFromLiteral(x.Value, token.INT, 0), true
		}
	case *ast.Ident:
		if v, ok := env[x.Name]; ok {
			return v, true
		}
	case *ast.ParenExpr:
		return evalConst(x.X, env, p)
	case *ast.SelectorExpr:
		if id, ok := x.X.(*ast.Ident); ok && p != nil {
			if id.Name == "math" {
				switch x.Sel.Name {
				case "MaxUint64":
					return constant.MakeUint64(^uint64(0)), true
				case "MaxUint32":
					return constant.MakeUint64(1<<32 - 1), true
				case "MaxInt64":
					return constant.MakeInt64(1<<63 - 1), true
				}
			}
			if v, ok := p.extern[id.Name+"."+x.Sel.Name]; ok {
				return v, true
			}
		}
	case *ast.BinaryExpr:
		a, ok1 := evalConst(x.X, env, p)
		b, ok2 := evalConst(x.Y, env, p)
		if ok1 && ok2 {
			switch x.Op {
			case token.SHL, token.SHR:
				s, _ := constant.Uint64Val(b)
				return constant.Shift(a, x.Op, uint(s)), true
			case token.QUO:
				return constant.BinaryOp(a, token.QUO_ASSIGN, b), true // integer division
			case token.ADD, token.SUB, token.MUL, token.REM, token.AND, token.OR, token.XOR:
				return constant.BinaryOp(a, x.Op, b), true
			}
		}
	case *ast.CallExpr: // conversion of a constant: uint64(c)
		if len(x.Args) == 1 {
			if id, ok := x.Fun.(*ast.Ident); ok {
				if _, isB := basic[id.Name]; isB {
					return evalConst(x.Args[0], env, p)
				}
			}
		}
	}
	return nil, false
}

// loadPkgConsts reads the integer constants of a Go file set (exactly, through go/constant).
func loadConsts(files []*ast.File, p *pkgCtx, into map[string]constant.Value, typed map[string]ty) {
	for pass := 0; pass < 4; pass++ { // constants may refer to later ones
		for _, f := range files {
			for _, d := range f.Decls {
				gd, ok := d.(*ast.GenDecl)
				if !ok || gd.Tok != token.CONST {
					continue
				}
				for _, s := range gd.Specs {
					vs := s.(*ast.ValueSpec)
					for i, n := range vs.Names {
						if i >= len(vs.Values) {
							continue
						}
						if v, ok := evalConst(vs.Values[i], into, p); ok {
							into[n.Name] = v
							if vs.Type != nil && typed != nil {
								if id, ok := vs.Type.(*ast.Ident); ok {
									if t, ok := basic[id.Name]; ok {
										typed[n.Name] = t
									}
								}
							}
						}
					}
				}
			}
		}
	}
}

// ---------------------------------------------------------------- expressions

type env struct {
	vars map[string]ty
	p    *pkgCtx
}

func zlit(v constant.Value) string {
	s := v.ExactString()
	if strings.HasPrefix(s, "-") {
		return "(" + s + ")"
	}
	return s
}

func wrap(t ty, e string) string {
	switch t.kind {
	case "u":
		return fmt.Sprintf("(wrapU %d %s)", t.width, e)
	case "s":
		return fmt.Sprintf("(wrapS %d %s)", t.width, e)
	}
	return e
}

// typeOf returns the static type (untyped for constant expressions).
func (en *env) typeOf(e ast.Expr) ty {
	if _, ok := evalConst(e, en.p.consts, en.p); ok {
		// typed constants keep their type
		if id, ok := e.(*ast.Ident); ok {
			if t, ok := en.p.constTy[id.Name]; ok {
				return t
			}
		}
		if se, ok := e.(*ast.SelectorExpr); ok {
			if id, ok := se.X.(*ast.Ident); ok {
				if t, ok := en.p.externT[id.Name+"."+se.Sel.Name]; ok {
					return t
				}
			}
		}
		if ce, ok := e.(*ast.CallExpr); ok {
			if id, ok := ce.Fun.(*ast.Ident); ok {
				if t, ok := basic[id.Name]; ok {
					return t
				}
			}
		}
		return ty{kind: "untyped"}
	}
	switch x := e.(type) {
	case *ast.Ident:
		if x.Name == "true" || x.Name == "false" {
			return ty{kind: "bool"}
		}
		if t, ok := en.vars[x.Name]; ok {
			return t
		}
		bail("unknown identifier %s", x.Name)
	case *ast.ParenExpr:
		return en.typeOf(x.X)
	case *ast.UnaryExpr:
		if x.Op == token.NOT {
			return ty{kind: "bool"}
		}
		return en.typeOf(x.X)
	case *ast.BinaryExpr:
		switch x.Op {
		case token.EQL, token.NEQ, token.LSS, token.LEQ, token.GTR, token.GEQ, token.LAND, token.LOR:
			return ty{kind: "bool"}
		case token.SHL, token.SHR:
			return en.typeOf(x.X)
		}
		a, b := en.typeOf(x.X), en.typeOf(x.Y)
		if a.kind != "untyped" {
			return a
		}
		return b
	case *ast.CallExpr:
		if id, ok := x.Fun.(*ast.Ident); ok {
			if t, ok := basic[id.Name]; ok {
				return t
			}
			if t, ok := en.p.named[id.Name]; ok {
				return t
			}
			if s, ok := en.p.sigs[id.Name]; ok {
				return s.result
			}
			if (id.Name == "min" || id.Name == "max") && len(x.Args) == 2 { // Go 1.21 builtins
				if t := en.typeOf(x.Args[0]); t.kind != "untyped" {
					return t
				}
				return en.typeOf(x.Args[1])
			}
			bail("call to %s outside the fragment", id.Name)
		}
		if se, ok := x.Fun.(*ast.SelectorExpr); ok {
			if id, ok := se.X.(*ast.Ident); ok {
				if t, ok := configGetters[id.Name+"."+se.Sel.Name]; ok {
					return t
				}
			}
			// method call on a converted value: T(x).M(...)
			if ce, ok := se.X.(*ast.CallExpr); ok {
				if id, ok := ce.Fun.(*ast.Ident); ok {
					if s, ok := en.p.sigs[id.Name+"."+se.Sel.Name]; ok {
						return s.result
					}
				}
			}
			if id, ok := se.X.(*ast.Ident); ok {
				if _, isVar := en.vars[id.Name]; isVar {
					bail("method call on a variable (%s.%s): receiver type lookup not in the fragment", id.Name, se.Sel.Name)
				}
			}
		}
		bail("call expression outside the fragment")
	}
	bail("expression outside the fragment (%T)", e)
	return ty{}
}

func (en *env) expr(e ast.Expr) string {
	if v, ok := evalConst(e, en.p.consts, en.p); ok {
		return zlit(v)
	}
	switch x := e.(type) {
	case *ast.Ident:
		if x.Name == "true" || x.Name == "false" {
			return x.Name
		}
		if _, ok := en.vars[x.Name]; ok {
			return "v_" + x.Name
		}
		bail("unknown identifier %s", x.Name)
	case *ast.ParenExpr:
		return en.expr(x.X)
	case *ast.UnaryExpr:
		switch x.Op {
		case token.NOT:
			return "(negb " + en.expr(x.X) + ")"
		case token.SUB:
			t := en.typeOf(x.X)
			return wrap(t, "(- "+en.expr(x.X)+")")
		}
		bail("unary operator %s outside the fragment", x.Op)
	case *ast.BinaryExpr:
		a, b := en.expr(x.X), en.expr(x.Y)
		t := en.typeOf(x)
		ot := en.typeOf(x.X)
		if ot.kind == "untyped" {
			ot = en.typeOf(x.Y)
		}
		switch x.Op {
		case token.ADD:
			return wrap(t, "("+a+" + "+b+")")
		case token.SUB:
			return wrap(t, "("+a+" - "+b+")")
		case token.MUL:
			return wrap(t, "("+a+" * "+b+")")
		case token.QUO:
			if t.kind == "s" {
				return wrap(t, "(Z.quot "+a+" "+b+")")
			}
			return "(" + a + " / " + b + ")"
		case token.REM:
			if t.kind == "s" {
				return "(Z.rem " + a + " " + b + ")"
			}
			return "(" + a + " mod " + b + ")"
		case token.AND:
			return "(Z.land " + a + " " + b + ")"
		case token.OR:
			return "(Z.lor " + a + " " + b + ")"
		case token.XOR:
			return wrap(t, "(Z.lxor "+a+" "+b+")")
		case token.SHL:
			return wrap(t, "(Z.shiftl "+a+" "+b+")")
		case token.SHR:
			return "(Z.shiftr " + a + " " + b + ")"
		case token.EQL:
			if ot.kind == "bool" {
				return "(Bool.eqb " + a + " " + b + ")"
			}
			return "(" + a + " =? " + b + ")"
		case token.NEQ:
			if ot.kind == "bool" {
				return "(negb (Bool.eqb " + a + " " + b + "))"
			}
			return "(negb (" + a + " =? " + b + "))"
		case token.LSS:
			return "(" + a + " <? " + b + ")"
		case token.LEQ:
			return "(" + a + " <=? " + b + ")"
		case token.GTR:
			return "(" + b + " <? " + a + ")"
		case token.GEQ:
			return "(" + b + " <=? " + a + ")"
		case token.LAND:
			return "(" + a + " && " + b + ")"
		case token.LOR:
			return "(" + a + " || " + b + ")"
		}
		bail("binary operator %s outside the fragment", x.Op)
	case *ast.CallExpr:
		if id, ok := x.Fun.(*ast.Ident); ok {
			if t, ok := basic[id.Name]; ok && len(x.Args) == 1 {
				return wrap(t, en.expr(x.Args[0]))
			}
			if t, ok := en.p.named[id.Name]; ok && len(x.Args) == 1 {
				return wrap(t, en.expr(x.Args[0]))
			}
			if s, ok := en.p.sigs[id.Name]; ok {
				return en.call(s, nil, x.Args)
			}
			if (id.Name == "min" || id.Name == "max") && len(x.Args) == 2 {
				return "(Z." + id.Name + " " + en.expr(x.Args[0]) + " " + en.expr(x.Args[1]) + ")"
			}
		}
		if se, ok := x.Fun.(*ast.SelectorExpr); ok {
			if id, ok := se.X.(*ast.Ident); ok {
				key := id.Name + "." + se.Sel.Name
				if _, ok := configGetters[key]; ok && len(x.Args) == 0 {
					en.p.usedCfg[key] = true
					return "cfg_" + strings.ReplaceAll(key, ".", "_")
				}
			}
			if ce, ok := se.X.(*ast.CallExpr); ok {
				if id, ok := ce.Fun.(*ast.Ident); ok {
					if s, ok := en.p.sigs[id.Name+"."+se.Sel.Name]; ok {
						return en.call(s, se.X, x.Args)
					}
				}
			}
		}
		bail("call outside the fragment")
	}
	bail("expression outside the fragment (%T)", e)
	return ""
}

func (en *env) call(s fnSig, recv ast.Expr, args []ast.Expr) string {
	parts := []string{s.coqName}
	if len(en.p.usedCfgOrder()) > 0 {
		// functions inside the Section see the config variables implicitly
	}
	if recv != nil {
		parts = append(parts, en.expr(recv))
	}
	for _, a := range args {
		parts = append(parts, en.expr(a))
	}
	return "(" + strings.Join(parts, " ") + ")"
}

func (p *pkgCtx) usedCfgOrder() []string {
	var ks []string
	for k := range p.usedCfg {
		ks = append(ks, k)
	}
	sort.Strings(ks)
	return ks
}

// ---------------------------------------------------------------- statements (continuation style)

func copyVars(m map[string]ty) map[string]ty {
	n := map[string]ty{}
	for k, v := range m {
		n[k] = v
	}
	return n
}

// stmts translates a statement list followed by `rest` (statements after the enclosing block) to an expression.
func (en *env) stmts(list []ast.Stmt, result ty, depth int) string {
	if depth > 40 {
		bail("statement nesting too deep")
	}
	if len(list) == 0 {
		bail("control reaches the end of the function without return")
	}
	s, rest := list[0], list[1:]
	switch x := s.(type) {
	case *ast.ReturnStmt:
		return en.ret(x, result)
	case *ast.AssignStmt:
		if len(x.Lhs) != 1 || len(x.Rhs) != 1 {
			bail("multi-assignment outside the fragment")
		}
		id, ok := x.Lhs[0].(*ast.Ident)
		if !ok {
			bail("assignment target outside the fragment")
		}
		var val string
		switch x.Tok {
		case token.DEFINE:
			t := en.typeOf(x.Rhs[0])
			if t.kind == "untyped" {
				t = ty{"s", 64, nil}
			}
			val = en.expr(x.Rhs[0])
			en2 := &env{copyVars(en.vars), en.p}
			en2.vars[id.Name] = t
			return "let v_" + id.Name + " := " + val + " in\n  " + en2.stmts(rest, result, depth+1)
		case token.ASSIGN:
			val = en.expr(x.Rhs[0])
		case token.ADD_ASSIGN, token.SUB_ASSIGN, token.MUL_ASSIGN:
			op := map[token.Token]token.Token{token.ADD_ASSIGN: token.ADD, token.SUB_ASSIGN: token.SUB, token.MUL_ASSIGN: token.MUL}[x.Tok]
			val = en.expr(&ast.BinaryExpr{X: x.Lhs[0], Op: op, Y: x.Rhs[0]})
		default:
			bail("assignment operator %s outside the fragment", x.Tok)
		}
		if _, ok := en.vars[id.Name]; !ok {
			bail("assignment to undeclared %s", id.Name)
		}
		return "let v_" + id.Name + " := " + val + " in\n  " + en.stmts(rest, result, depth+1)
	case *ast.DeclStmt:
		gd, ok := x.Decl.(*ast.GenDecl)
		if !ok || gd.Tok != token.VAR {
			bail("declaration outside the fragment")
		}
		en2 := &env{copyVars(en.vars), en.p}
		var lets []string
		for _, sp := range gd.Specs {
			vs := sp.(*ast.ValueSpec)
			for i, n := range vs.Names {
				var t ty
				if vs.Type != nil {
					t = en.p.resolveType(vs.Type)
				} else if i < len(vs.Values) {
					t = en.typeOf(vs.Values[i])
				}
				init := "0"
				if t.kind == "bool" {
					init = "false"
				}
				if i < len(vs.Values) {
					init = en.expr(vs.Values[i])
				}
				en2.vars[n.Name] = t
				lets = append(lets, "let v_"+n.Name+" := "+init+" in\n  ")
			}
		}
		return strings.Join(lets, "") + en2.stmts(rest, result, depth+1)
	case *ast.IfStmt:
		if x.Init != nil {
			bail("if with init statement outside the fragment")
		}
		cond := en.expr(x.Cond)
		thenList := append(append([]ast.Stmt{}, x.Body.List...), rest...)
		var elseList []ast.Stmt
		switch e := x.Else.(type) {
		case nil:
			elseList = rest
		case *ast.BlockStmt:
			elseList = append(append([]ast.Stmt{}, e.List...), rest...)
		case *ast.IfStmt:
			elseList = append([]ast.Stmt{e}, rest...)
		}
		// locals declared inside a branch stay local: translate each branch with its own copy of the environment
		thenS := (&env{copyVars(en.vars), en.p}).stmts(thenList, result, depth+1)
		elseS := (&env{copyVars(en.vars), en.p}).stmts(elseList, result, depth+1)
		return "if " + cond + "\n  then (" + thenS + ")\n  else (" + elseS + ")"
	case *ast.BlockStmt:
		return en.stmts(append(append([]ast.Stmt{}, x.List...), rest...), result, depth+1)
	}
	bail("statement outside the fragment (%T)", s)
	return ""
}

func (en *env) ret(r *ast.ReturnStmt, result ty) string {
	if result.kind == "opt" {
		if len(r.Results) != 2 {
			bail("return arity")
		}
		if id, ok := r.Results[1].(*ast.Ident); ok && id.Name == "nil" {
			return "Some " + en.expr(r.Results[0])
		}
		return "None"
	}
	if len(r.Results) != 1 {
		bail("return arity (named results are outside the fragment)")
	}
	return en.expr(r.Results[0])
}

// ---------------------------------------------------------------- driver

func coqType(t ty) string {
	switch t.kind {
	case "bool":
		return "bool"
	case "opt":
		return "option Z"
	}
	return "Z"
}

func main() {
	repo := flag.String("repo", "/repo", "repository root")
	out := flag.String("out", "", "output directory")
	flag.Parse()
	status := 0
	for _, spec := range flag.Args() {
		eq := strings.Index(spec, "=")
		colon := strings.LastIndex(spec, ":")
		mod, file, names := spec[:eq], spec[eq+1:colon], strings.Split(spec[colon+1:], ",")
		text, report := translate(*repo, mod, file, names)
		for _, r := range report {
			fmt.Println(r)
		}
		path := filepath.Join(*out, mod+".v")
		old, _ := os.ReadFile(path)
		if string(old) != text {
			if err := os.WriteFile(path, []byte(text), 0o644); err != nil {
				fmt.Println("go2v: cannot write", path, err)
				status = 1
			}
			fmt.Println("go2v: wrote", path)
		} else {
			fmt.Println("go2v: unchanged", path)
		}
	}
	os.Exit(status)
}

func parseDirFiles(fset *token.FileSet, dir string) []*ast.File {
	var files []*ast.File
	ents, _ := os.ReadDir(dir)
	for _, e := range ents {
		if strings.HasSuffix(e.Name(), ".go") && !strings.HasSuffix(e.Name(), "_test.go") {
			if f, err := parser.ParseFile(fset, filepath.Join(dir, e.Name()), nil, parser.SkipObjectResolution); err == nil {
				files = append(files, f)
			}
		}
	}
	return files
}

func translate(repo, mod, file string, names []string) (string, []string) {
	var report []string
	fset := token.NewFileSet()
	p := &pkgCtx{fset: fset, named: map[string]ty{}, consts: map[string]constant.Value{}, constTy: map[string]ty{},
		sigs: map[string]fnSig{}, extern: map[string]constant.Value{}, externT: map[string]ty{}, usedCfg: map[string]bool{}, repo: repo}
	// thor constants (exact values from the repo source)
	thorConsts, thorTy := map[string]constant.Value{}, map[string]ty{}
	loadConsts(parseDirFiles(fset, filepath.Join(repo, "thor")), nil, thorConsts, thorTy)
	for k, v := range thorConsts {
		p.extern["thor."+k] = v
	}
	for k, v := range thorTy {
		p.externT["thor."+k] = v
	}
	dir := filepath.Dir(filepath.Join(repo, file))
	files := parseDirFiles(fset, dir)
	// named integer types
	for _, f := range files {
		for _, d := range f.Decls {
			if gd, ok := d.(*ast.GenDecl); ok && gd.Tok == token.TYPE {
				for _, s := range gd.Specs {
					ts := s.(*ast.TypeSpec)
					if id, ok := ts.Type.(*ast.Ident); ok {
						if t, ok := basic[id.Name]; ok {
							p.named[ts.Name.Name] = t
						}
					}
				}
			}
		}
	}
	loadConsts(files, p, p.consts, p.constTy)
	// collect requested function declarations (from the whole package so renames of the file do not matter)
	want := map[string]bool{}
	for _, n := range names {
		want[n] = true
	}
	decls := map[string]*ast.FuncDecl{}
	for _, f := range files {
		for _, d := range f.Decls {
			fd, ok := d.(*ast.FuncDecl)
			if !ok || fd.Body == nil {
				continue
			}
			key := fd.Name.Name
			if fd.Recv != nil && len(fd.Recv.List) == 1 {
				if id, ok := fd.Recv.List[0].Type.(*ast.Ident); ok {
					key = id.Name + "." + fd.Name.Name
				} else {
					continue
				}
			}
			if want[key] {
				decls[key] = fd
			}
		}
	}
	// signatures first (calls may go in any direction; emission order = order of `names`, callees must come first)
	for _, n := range names {
		fd, ok := decls[n]
		if !ok {
			report = append(report, fmt.Sprintf("go2v: %s: %s not found in %s (renamed or removed) — falls back to correspondence", mod, n, dir))
			continue
		}
		func() {
			defer func() {
				if r := recover(); r != nil {
					if u, ok := r.(unsupported); ok {
						report = append(report, fmt.Sprintf("go2v: %s: %s outside the fragment: %s", mod, n, u.why))
						delete(decls, n)
						return
					}
					panic(r)
				}
			}()
			sig := fnSig{coqName: strings.ReplaceAll(n, ".", "_")}
			if fd.Recv != nil {
				sig.params = append(sig.params, p.resolveType(fd.Recv.List[0].Type))
			}
			for _, f := range fd.Type.Params.List {
				t := p.resolveType(f.Type)
				for range f.Names {
					sig.params = append(sig.params, t)
				}
			}
			res := fd.Type.Results
			switch {
			case res == nil || len(res.List) == 0:
				bail("no result")
			case len(res.List) == 1 && len(res.List[0].Names) <= 1:
				sig.result = p.resolveType(res.List[0].Type)
			case len(res.List) == 2:
				if id, ok := res.List[1].Type.(*ast.Ident); ok && id.Name == "error" {
					e := p.resolveType(res.List[0].Type)
					sig.result = ty{kind: "opt", elem: &e}
				} else {
					bail("result tuple outside the fragment")
				}
			default:
				bail("result list outside the fragment")
			}
			if res != nil {
				for _, f := range res.List {
					if len(f.Names) > 0 {
						bail("named results outside the fragment")
					}
				}
			}
			p.sigs[n] = sig
		}()
	}
	var defs []string
	for _, n := range names {
		fd, ok := decls[n]
		if !ok {
			continue
		}
		func() {
			defer func() {
				if r := recover(); r != nil {
					if u, ok := r.(unsupported); ok {
						report = append(report, fmt.Sprintf("go2v: %s: %s outside the fragment: %s", mod, n, u.why))
						delete(p.sigs, n)
						return
					}
					panic(r)
				}
			}()
			sig := p.sigs[n]
			en := &env{vars: map[string]ty{}, p: p}
			var params []string
			if fd.Recv != nil {
				rn := fd.Recv.List[0].Names[0].Name
				en.vars[rn] = sig.params[0]
				params = append(params, fmt.Sprintf("(v_%s : %s)", rn, coqType(sig.params[0])))
			}
			for _, f := range fd.Type.Params.List {
				t := p.resolveType(f.Type)
				for _, nm := range f.Names {
					en.vars[nm.Name] = t
					params = append(params, fmt.Sprintf("(v_%s : %s)", nm.Name, coqType(t)))
				}
			}
			body := en.stmts(fd.Body.List, sig.result, 0)
			pos := fset.Position(fd.Pos())
			rel, _ := filepath.Rel(repo, pos.Filename)
			defs = append(defs, fmt.Sprintf("(* %s  func %s *)\nDefinition %s %s : %s :=\n  %s.\n",
				rel, n, sig.coqName, strings.Join(params, " "), coqType(sig.result), body))
			report = append(report, fmt.Sprintf("go2v: %s: translated %s (%s:%d)", mod, n, rel, pos.Line))
		}()
	}
	var b strings.Builder
	fmt.Fprintf(&b, "(* GENERATED by tools/go2v from %s — do not edit; regenerated on every check run. *)\n", file)
	b.WriteString("From Coq Require Import ZArith Bool.\nFrom Verif Require Import Common.GoInt.\nOpen Scope Z_scope.\n\n")
	fmt.Fprintf(&b, "Section %s.\n", mod)
	for _, k := range p.usedCfgOrder() {
		fmt.Fprintf(&b, "Variable cfg_%s : Z.  (* %s(): configuration value, %s *)\n", strings.ReplaceAll(k, ".", "_"), k, configGetters[k])
	}
	b.WriteString("\n")
	b.WriteString(strings.Join(defs, "\n"))
	fmt.Fprintf(&b, "\nEnd %s.\n", mod)
	return b.String(), report
}
