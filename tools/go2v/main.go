// go2v — translator from a small, precisely delimited Go fragment to Gallina (DESIGN.md §1.1 (T)).
//
//	go2v -repo /repo -out /verif/coq/Gen  spec...
//	spec  = <ModuleName>=<group>(;<group>)*          (one generated file coq/Gen/<ModuleName>.v)
//	group = <file.go>:<Func>,<Type.Method>,...       (functions of the package of <file.go>; callees before callers)
//
// Fragment: top-level functions and methods (value or pointer receiver) whose parameters, results and locals are
// uint8/16/32/64, int64, int, bool, named types (or aliases) over those, or — parameters and receivers only —
// STRUCT types of the same or of an imported in-repo package (`v *Validation`, `val *validation.Validation`), read-only.
// A struct parameter is translated as a group of parameters, one per field the function (transitively, through the
// methods it calls with the same struct) reads, in declaration order: `v_<param>_<Field> : Z`; the fields that are read
// must be integers / bools / named integer types, or optional integers `*uint32` (-> `option Z`).  A function that reads
// a field of another type, or assigns to a field, is outside the fragment.
// Statements: `if/else`, `return`, `x := e`, `x = e`, `x op= e`, `var x T`, and the error-propagation idiom
//
//	a, err := f(...)                 match f ... with
//	if err != nil { return z, err }    | None => None | Some v_a => <rest> end
//
// (the check must follow the call immediately; anything else done with an error value is outside the fragment).
// Expressions: + - * / % & | ^ << >> with Go's fixed-width semantics, comparisons, && || !, unary minus, conversions
// between integer types, calls to other translated functions/methods (same module; a struct argument must be a plain
// struct parameter of the caller and is passed as the callee's field group), package-level integer constants incl.
// typed constants and `iota` blocks of the package or of an imported in-repo package (values obtained exactly through
// go/constant), and the whitelisted configuration getters thor.EpochLength(), thor.BlockInterval(),
// thor.CooldownPeriod() … which become Section variables.  Optional integers: `p == nil`, `p != nil`, and `*p` where p
// is known to be non-nil at that point (`p != nil && …*p…`, `p == nil || …*p…`, the branches of `if p == nil` /
// `if p != nil`): translated by a `match` that binds the value, so no default value is ever invented for nil.
// Results `(T, error)` become `option T`: `return v, nil` is `Some v`; `return z, errors.New(..)` / `fmt.Errorf(..)` /
// a package-level `Err…` variable / the err of the idiom above is `None`.
// No loops, slices, maps, struct values or results, field updates, or state.  Anything else: the function is reported as
// outside the fragment and skipped (the check then relies on the pinned translation + the correspondence run for it) —
// never silently approximated.
//
// Semantics: every integer is a Z; every arithmetic result is wrapped to the static Go type of the expression
// (wrapU w x = x mod 2^w; wrapS w x = two's-complement).  Division by zero is not in the fragment's semantics
// (Go panics; Coq's x/0 = 0, x mod 0 = x): lemmas over a generated `/` or `%` whose divisor is not a non-zero constant
// carry the hypothesis d <> 0, and the cross-check does not evaluate such inputs.  Signed operands use Z.quot/Z.rem.
// The output is a pure function of the tree (no positions, no map-order dependence).
package main

import (
	"flag"
	"fmt"
	"go/ast"
	"go/constant"
	"go/parser"
	"go/token"
	"os"
	"path/filepath"
	"sort"
	"strings"
)

type ty struct {
	kind  string // "u" unsigned, "s" signed, "bool", "untyped", "opt" ((T, error) result), "ptr" (*intT), "struct"
	width int
	elem  *ty         // for opt, ptr
	st    *structInfo // for struct
}

func (t ty) String() string {
	switch t.kind {
	case "u":
		return fmt.Sprintf("uint%d", t.width)
	case "s":
		return fmt.Sprintf("int%d", t.width)
	case "ptr":
		return "*" + t.elem.String()
	case "struct":
		return t.st.name
	}
	return t.kind
}

func (t ty) isInt() bool { return t.kind == "u" || t.kind == "s" }

var basic = map[string]ty{
	"uint8": {"u", 8, nil, nil}, "byte": {"u", 8, nil, nil}, "uint16": {"u", 16, nil, nil}, "uint32": {"u", 32, nil, nil}, "uint64": {"u", 64, nil, nil},
	"uint": {"u", 64, nil, nil}, "int64": {"s", 64, nil, nil}, "int32": {"s", 32, nil, nil}, "int": {"s", 64, nil, nil}, "bool": {"bool", 0, nil, nil},
}

var configGetters = map[string]ty{
	"thor.EpochLength": {"u", 32, nil, nil}, "thor.BlockInterval": {"u", 64, nil, nil}, "thor.SeederInterval": {"u", 32, nil, nil},
	"thor.CheckpointInterval": {"u", 32, nil, nil}, "thor.CooldownPeriod": {"u", 32, nil, nil},
}

type unsupported struct{ why string }

func bail(format string, a ...any) { panic(unsupported{fmt.Sprintf(format, a...)}) }

type field struct {
	name string
	t    ty
	ok   bool
	why  string
}

type structInfo struct {
	pkg    *pkgInfo
	name   string
	fields []field
}

func (s *structInfo) field(name string) *field {
	for i := range s.fields {
		if s.fields[i].name == name {
			return &s.fields[i]
		}
	}
	return nil
}

type param struct {
	name string
	t    ty
}

type fnSig struct {
	key     string // "<pkg dir>:<Func | Type.Method>"
	coqName string
	params  []param // receiver first
	result  ty
	use     map[string]map[string]bool // struct parameter -> fields read (transitively)
}

// usedFields: the fields of struct parameter i that the function reads, in declaration order.
func (s *fnSig) usedFields(i int) []field {
	var fs []field
	pa := s.params[i]
	for _, f := range pa.t.st.fields {
		if s.use[pa.name][f.name] {
			fs = append(fs, f)
		}
	}
	return fs
}

type module struct {
	repo    string
	modPath string // module path of the repo (go.mod)
	fset    *token.FileSet
	pkgs    map[string]*pkgInfo
	sigs    map[string]*fnSig
	usedCfg map[string]bool
	changed bool // a use set grew during this round
}

type pkgInfo struct {
	m       *module
	dir     string // relative to the repo
	files   []*ast.File
	named   map[string]ty             // named integer types / aliases of the package
	consts  map[string]constant.Value // package-level constants (exact)
	constTy map[string]ty             // typed constants
	structs map[string]*structInfo
	imports map[string]string // local name -> in-repo package dir
}

func (m *module) pkg(dir string) *pkgInfo {
	if p, ok := m.pkgs[dir]; ok {
		return p
	}
	p := &pkgInfo{m: m, dir: dir, named: map[string]ty{}, consts: map[string]constant.Value{}, constTy: map[string]ty{},
		structs: map[string]*structInfo{}, imports: map[string]string{}}
	m.pkgs[dir] = p
	p.files = parseDirFiles(m.fset, filepath.Join(m.repo, dir))
	for _, f := range p.files {
		for _, im := range f.Imports {
			path := strings.Trim(im.Path.Value, "\"")
			if !strings.HasPrefix(path, m.modPath+"/") {
				continue
			}
			rel := strings.TrimPrefix(path, m.modPath+"/")
			name := filepath.Base(rel)
			if im.Name != nil {
				name = im.Name.Name
			}
			p.imports[name] = rel
		}
	}
	// named integer types (defined or alias)
	for _, f := range p.files {
		for _, d := range f.Decls {
			if gd, ok := d.(*ast.GenDecl); ok && gd.Tok == token.TYPE {
				for _, s := range gd.Specs {
					ts := s.(*ast.TypeSpec)
					if id, ok := ts.Type.(*ast.Ident); ok {
						if t, ok := basic[id.Name]; ok {
							p.named[ts.Name.Name] = t
						}
					}
				}
			}
		}
	}
	// struct types: the fields with a type inside the fragment are usable, the others only if never read
	for _, f := range p.files {
		for _, d := range f.Decls {
			if gd, ok := d.(*ast.GenDecl); ok && gd.Tok == token.TYPE {
				for _, s := range gd.Specs {
					ts := s.(*ast.TypeSpec)
					stt, ok := ts.Type.(*ast.StructType)
					if !ok || ts.TypeParams != nil {
						continue
					}
					si := &structInfo{pkg: p, name: ts.Name.Name}
					for _, fl := range stt.Fields.List {
						t, why := p.fieldType(fl.Type)
						for _, n := range fl.Names { // embedded fields have no names: not readable in the fragment
							si.fields = append(si.fields, field{name: n.Name, t: t, ok: why == "", why: why})
						}
					}
					p.structs[ts.Name.Name] = si
				}
			}
		}
	}
	loadConsts(p)
	return p
}

func (p *pkgInfo) imp(name string) *pkgInfo {
	if dir, ok := p.imports[name]; ok {
		return p.m.pkg(dir)
	}
	return nil
}

// intType resolves an integer / bool type expression (basic, named, pkg.Named); ok=false otherwise.
func (p *pkgInfo) intType(e ast.Expr) (ty, bool) {
	switch x := e.(type) {
	case *ast.Ident:
		if t, ok := basic[x.Name]; ok {
			return t, true
		}
		if t, ok := p.named[x.Name]; ok {
			return t, true
		}
	case *ast.SelectorExpr:
		if id, ok := x.X.(*ast.Ident); ok {
			if q := p.imp(id.Name); q != nil {
				if t, ok := q.named[x.Sel.Name]; ok {
					return t, true
				}
			}
		}
	case *ast.ParenExpr:
		return p.intType(x.X)
	}
	return ty{}, false
}

func (p *pkgInfo) fieldType(e ast.Expr) (ty, string) {
	if t, ok := p.intType(e); ok {
		return t, ""
	}
	if st, ok := e.(*ast.StarExpr); ok {
		if t, ok := p.intType(st.X); ok && t.isInt() {
			return ty{kind: "ptr", elem: &t}, ""
		}
	}
	return ty{}, "its type is neither an integer, a bool nor an optional integer"
}

// structType resolves T, *T, pkg.T, *pkg.T to a struct of this or an imported in-repo package.
func (p *pkgInfo) structType(e ast.Expr) *structInfo {
	if st, ok := e.(*ast.StarExpr); ok {
		e = st.X
	}
	switch x := e.(type) {
	case *ast.Ident:
		return p.structs[x.Name]
	case *ast.SelectorExpr:
		if id, ok := x.X.(*ast.Ident); ok {
			if q := p.imp(id.Name); q != nil {
				return q.structs[x.Sel.Name]
			}
		}
	}
	return nil
}

// resolveType: the type of a local, a result or a non-struct parameter.
func (p *pkgInfo) resolveType(e ast.Expr) ty {
	if t, ok := p.intType(e); ok {
		return t
	}
	if id, ok := e.(*ast.Ident); ok {
		bail("type %s outside the fragment", id.Name)
	}
	bail("type expression outside the fragment")
	return ty{}
}

// paramType: as resolveType, plus struct types and optional integers.
func (p *pkgInfo) paramType(e ast.Expr) ty {
	if t, ok := p.intType(e); ok {
		return t
	}
	if si := p.structType(e); si != nil {
		return ty{kind: "struct", st: si}
	}
	if st, ok := e.(*ast.StarExpr); ok {
		if t, ok := p.intType(st.X); ok && t.isInt() {
			return ty{kind: "ptr", elem: &t}
		}
	}
	return p.resolveType(e)
}

// ---------------------------------------------------------------- constants

func evalConst(e ast.Expr, env map[string]constant.Value, p *pkgInfo) (constant.Value, bool) {
	switch x := e.(type) {
	case *ast.BasicLit:
		if x.Kind == token.INT {
			return constant.MakeFromLiteral(x.Value, token.INT, 0), true
		}
	case *ast.Ident:
		if v, ok := env[x.Name]; ok {
			return v, true
		}
	case *ast.ParenExpr:
		return evalConst(x.X, env, p)
	case *ast.SelectorExpr:
		if id, ok := x.X.(*ast.Ident); ok && p != nil {
			if id.Name == "math" {
				switch x.Sel.Name {
				case "MaxUint64":
					return constant.MakeUint64(^uint64(0)), true
				case "MaxUint32":
					return constant.MakeUint64(1<<32 - 1), true
				case "MaxInt64":
					return constant.MakeInt64(1<<63 - 1), true
				}
			}
			if q := p.imp(id.Name); q != nil {
				if v, ok := q.consts[x.Sel.Name]; ok {
					return v, true
				}
			}
		}
	case *ast.BinaryExpr:
		a, ok1 := evalConst(x.X, env, p)
		b, ok2 := evalConst(x.Y, env, p)
		if ok1 && ok2 {
			switch x.Op {
			case token.SHL, token.SHR:
				s, _ := constant.Uint64Val(b)
				return constant.Shift(a, x.Op, uint(s)), true
			case token.QUO:
				return constant.BinaryOp(a, token.QUO_ASSIGN, b), true // integer division
			case token.ADD, token.SUB, token.MUL, token.REM, token.AND, token.OR, token.XOR:
				return constant.BinaryOp(a, x.Op, b), true
			}
		}
	case *ast.CallExpr: // conversion of a constant: uint64(c), Status(c)
		if len(x.Args) == 1 && p != nil {
			if _, isT := p.intType(x.Fun); isT {
				return evalConst(x.Args[0], env, p)
			}
		}
	}
	return nil, false
}

// constTypeOf: the declared type of a constant declaration (`const c T = …`, `c = T(…)`), if any.
func constTypeOf(p *pkgInfo, typ ast.Expr, val ast.Expr) (ty, bool) {
	if typ != nil {
		return p.intType(typ)
	}
	if ce, ok := val.(*ast.CallExpr); ok && len(ce.Args) == 1 {
		return p.intType(ce.Fun)
	}
	return ty{}, false
}

// loadConsts reads the integer constants of a package (exactly, through go/constant), incl. iota blocks with
// implicit repetition of the previous expression.
func loadConsts(p *pkgInfo) {
	for pass := 0; pass < 4; pass++ { // constants may refer to later ones
		for _, f := range p.files {
			for _, d := range f.Decls {
				gd, ok := d.(*ast.GenDecl)
				if !ok || gd.Tok != token.CONST {
					continue
				}
				var prevVals []ast.Expr
				var prevType ast.Expr
				for iota, s := range gd.Specs {
					vs := s.(*ast.ValueSpec)
					vals, typ := vs.Values, vs.Type
					if len(vals) == 0 {
						vals, typ = prevVals, prevType
					} else {
						prevVals, prevType = vals, typ
					}
					for i, n := range vs.Names {
						if i >= len(vals) || n.Name == "_" {
							continue
						}
						_, shadow := p.consts["iota"]
						if !shadow {
							p.consts["iota"] = constant.MakeInt64(int64(iota))
						}
						v, ok := evalConst(vals[i], p.consts, p)
						if !shadow {
							delete(p.consts, "iota")
						}
						if ok {
							p.consts[n.Name] = v
							if t, ok := constTypeOf(p, typ, vals[i]); ok {
								p.constTy[n.Name] = t
							}
						}
					}
				}
			}
		}
	}
}

// ---------------------------------------------------------------- expressions

type env struct {
	vars  map[string]ty
	p     *pkgInfo
	fn    *fnSig
	deref map[string]string // Coq name of an optional integer known to be non-nil here -> name bound to its value
	errs  map[string]bool   // error variables known to be non-nil here
}

func (en *env) clone() *env {
	n := &env{vars: map[string]ty{}, p: en.p, fn: en.fn, deref: map[string]string{}, errs: map[string]bool{}}
	for k, v := range en.vars {
		n.vars[k] = v
	}
	for k, v := range en.deref {
		n.deref[k] = v
	}
	for k, v := range en.errs {
		n.errs[k] = v
	}
	return n
}

func zlit(v constant.Value) string {
	s := v.ExactString()
	if strings.HasPrefix(s, "-") {
		return "(" + s + ")"
	}
	return s
}

func wrap(t ty, e string) string {
	switch t.kind {
	case "u":
		return fmt.Sprintf("(wrapU %d %s)", t.width, e)
	case "s":
		return fmt.Sprintf("(wrapS %d %s)", t.width, e)
	}
	return e
}

// mentionsVar: does the expression mention a local variable / parameter (then it is not a constant expression, even if
// a package constant of the same name exists)?
func (en *env) mentionsVar(e ast.Expr) bool {
	found := false
	var walk func(n ast.Expr)
	walk = func(n ast.Expr) {
		switch x := n.(type) {
		case *ast.Ident:
			if _, ok := en.vars[x.Name]; ok {
				found = true
			}
		case *ast.ParenExpr:
			walk(x.X)
		case *ast.SelectorExpr:
			walk(x.X)
		case *ast.BinaryExpr:
			walk(x.X)
			walk(x.Y)
		case *ast.UnaryExpr:
			walk(x.X)
		case *ast.StarExpr:
			walk(x.X)
		case *ast.CallExpr:
			for _, a := range x.Args {
				walk(a)
			}
		}
	}
	walk(e)
	return found
}

func (en *env) constOf(e ast.Expr) (constant.Value, bool) {
	if en.mentionsVar(e) {
		return nil, false
	}
	return evalConst(e, en.p.consts, en.p)
}

func unparen(e ast.Expr) ast.Expr {
	for {
		pe, ok := e.(*ast.ParenExpr)
		if !ok {
			return e
		}
		e = pe.X
	}
}

func isNil(e ast.Expr) bool {
	id, ok := unparen(e).(*ast.Ident)
	return ok && id.Name == "nil"
}

// structField: e = X.F with X a struct parameter: records the read and returns the Coq name and the field.
func (en *env) structField(e ast.Expr) (string, *field, bool) {
	se, ok := unparen(e).(*ast.SelectorExpr)
	if !ok {
		return "", nil, false
	}
	id, ok := se.X.(*ast.Ident)
	if !ok {
		return "", nil, false
	}
	t, ok := en.vars[id.Name]
	if !ok || t.kind != "struct" {
		return "", nil, false
	}
	f := t.st.field(se.Sel.Name)
	if f == nil {
		return "", nil, false // a method value or an embedded field's member
	}
	if !f.ok {
		bail("field %s.%s is read but %s", t.st.name, f.name, f.why)
	}
	en.useField(id.Name, f.name)
	return "v_" + id.Name + "_" + f.name, f, true
}

func (en *env) useField(param, fld string) {
	u := en.fn.use[param]
	if u == nil {
		u = map[string]bool{}
		en.fn.use[param] = u
	}
	if !u[fld] {
		u[fld] = true
		en.p.m.changed = true
	}
}

// ptrName: e is an optional integer (a `*uintN` field of a struct parameter, or such a parameter): its Coq name.
func (en *env) ptrName(e ast.Expr) (string, ty, bool) {
	e = unparen(e)
	if id, ok := e.(*ast.Ident); ok {
		if t, ok := en.vars[id.Name]; ok && t.kind == "ptr" {
			return "v_" + id.Name, t, true
		}
		return "", ty{}, false
	}
	if name, f, ok := en.structField(e); ok && f.t.kind == "ptr" {
		return name, f.t, true
	}
	return "", ty{}, false
}

// nilCheck: e is `p == nil` / `p != nil` (either order) on an optional integer.
func (en *env) nilCheck(e ast.Expr) (name string, isNeq bool, ok bool) {
	be, isB := unparen(e).(*ast.BinaryExpr)
	if !isB || (be.Op != token.EQL && be.Op != token.NEQ) {
		return "", false, false
	}
	x, y := be.X, be.Y
	if isNil(x) {
		x, y = y, x
	}
	if !isNil(y) {
		return "", false, false
	}
	n, _, isP := en.ptrName(x)
	if !isP {
		bail("comparison with nil of something that is not an optional integer")
	}
	return n, be.Op == token.NEQ, true
}

func derefName(ptr string) string { return "d_" + strings.TrimPrefix(ptr, "v_") }

// callee resolution ------------------------------------------------------------------

type callKind int

const (
	callNone   callKind = iota
	callConv            // T(x)
	callSig             // translated function / method
	callCfg             // configuration getter
	callMinMax          // Go 1.21 builtins
)

type callInfo struct {
	kind callKind
	t    ty       // result type (conv: target type)
	sig  *fnSig   // callSig
	recv ast.Expr // callSig on a method: receiver expression
	cfg  string   // callCfg
	name string   // callMinMax
	why  string   // callNone: reason
}

func (en *env) liveSig(p *pkgInfo, key string) *fnSig { return p.m.sigs[p.dir+":"+key] }

func (en *env) resolveCall(x *ast.CallExpr) callInfo {
	if t, ok := en.p.intType(x.Fun); ok && len(x.Args) == 1 {
		if id, isId := unparen(x.Fun).(*ast.Ident); !isId || en.vars[id.Name].kind == "" {
			return callInfo{kind: callConv, t: t}
		}
	}
	switch f := x.Fun.(type) {
	case *ast.Ident:
		if s := en.liveSig(en.p, f.Name); s != nil {
			return callInfo{kind: callSig, sig: s, t: s.result}
		}
		if (f.Name == "min" || f.Name == "max") && len(x.Args) == 2 {
			t := en.typeOf(x.Args[0])
			if t.kind == "untyped" {
				t = en.typeOf(x.Args[1])
			}
			return callInfo{kind: callMinMax, name: f.Name, t: t}
		}
		return callInfo{why: fmt.Sprintf("call to %s outside the fragment", f.Name)}
	case *ast.SelectorExpr:
		if id, ok := f.X.(*ast.Ident); ok {
			if vt, isVar := en.vars[id.Name]; isVar {
				if vt.kind == "struct" {
					if s := en.liveSig(vt.st.pkg, vt.st.name+"."+f.Sel.Name); s != nil {
						return callInfo{kind: callSig, sig: s, recv: f.X, t: s.result}
					}
					return callInfo{why: fmt.Sprintf("call to method %s.%s which is not translated", vt.st.name, f.Sel.Name)}
				}
				return callInfo{why: fmt.Sprintf("method call on a variable (%s.%s): receiver type lookup not in the fragment", id.Name, f.Sel.Name)}
			}
			key := id.Name + "." + f.Sel.Name
			if t, ok := configGetters[key]; ok && len(x.Args) == 0 && en.p.imp(id.Name) != nil {
				return callInfo{kind: callCfg, cfg: key, t: t}
			}
			if q := en.p.imp(id.Name); q != nil {
				if s := en.liveSig(q, f.Sel.Name); s != nil {
					return callInfo{kind: callSig, sig: s, t: s.result}
				}
			}
		}
		// method call on a converted value: T(x).M(...)
		if ce, ok := f.X.(*ast.CallExpr); ok {
			if id, ok := ce.Fun.(*ast.Ident); ok {
				if s := en.liveSig(en.p, id.Name+"."+f.Sel.Name); s != nil {
					return callInfo{kind: callSig, sig: s, recv: f.X, t: s.result}
				}
			}
		}
	}
	return callInfo{why: "call expression outside the fragment"}
}

// typeOf returns the static type (untyped for constant expressions).
func (en *env) typeOf(e ast.Expr) ty {
	if _, ok := en.constOf(e); ok {
		// typed constants keep their type
		if id, ok := e.(*ast.Ident); ok {
			if t, ok := en.p.constTy[id.Name]; ok {
				return t
			}
		}
		if se, ok := e.(*ast.SelectorExpr); ok {
			if id, ok := se.X.(*ast.Ident); ok {
				if q := en.p.imp(id.Name); q != nil {
					if t, ok := q.constTy[se.Sel.Name]; ok {
						return t
					}
				}
			}
		}
		if ce, ok := e.(*ast.CallExpr); ok {
			if t, ok := en.p.intType(ce.Fun); ok {
				return t
			}
		}
		return ty{kind: "untyped"}
	}
	switch x := e.(type) {
	case *ast.Ident:
		if x.Name == "true" || x.Name == "false" {
			return ty{kind: "bool"}
		}
		if t, ok := en.vars[x.Name]; ok {
			return t
		}
		bail("unknown identifier %s", x.Name)
	case *ast.ParenExpr:
		return en.typeOf(x.X)
	case *ast.SelectorExpr:
		if _, f, ok := en.structField(x); ok {
			return f.t
		}
		bail("selector expression outside the fragment")
	case *ast.StarExpr:
		if _, t, ok := en.ptrName(x.X); ok {
			return *t.elem
		}
		bail("dereference outside the fragment")
	case *ast.UnaryExpr:
		if x.Op == token.NOT {
			return ty{kind: "bool"}
		}
		return en.typeOf(x.X)
	case *ast.BinaryExpr:
		switch x.Op {
		case token.EQL, token.NEQ, token.LSS, token.LEQ, token.GTR, token.GEQ, token.LAND, token.LOR:
			return ty{kind: "bool"}
		case token.SHL, token.SHR:
			return en.typeOf(x.X)
		}
		a, b := en.typeOf(x.X), en.typeOf(x.Y)
		if a.kind != "untyped" {
			return a
		}
		return b
	case *ast.CallExpr:
		ci := en.resolveCall(x)
		if ci.kind == callNone {
			bail("%s", ci.why)
		}
		return ci.t
	}
	bail("expression outside the fragment (%T)", e)
	return ty{}
}

// chain flattens a left-nested && (or ||) chain into its operands.
func chain(e ast.Expr, op token.Token) []ast.Expr {
	if be, ok := unparen(e).(*ast.BinaryExpr); ok && be.Op == op {
		return append(chain(be.X, op), chain(be.Y, op)...)
	}
	return []ast.Expr{e}
}

// guarded translates a && / || chain that contains nil checks of optional integers: the operands to the right of
// `p != nil &&` (resp. `p == nil ||`) see the value of p.
func (en *env) guarded(ops []ast.Expr, op token.Token) string {
	if len(ops) == 1 {
		return en.expr(ops[0])
	}
	if name, isNeq, ok := en.nilCheck(ops[0]); ok {
		if _, known := en.deref[name]; !known {
			en2 := en.clone()
			en2.deref[name] = derefName(name)
			if op == token.LAND && isNeq {
				return "(match " + name + " with Some " + derefName(name) + " => " + en2.guarded(ops[1:], op) + " | None => false end)"
			}
			if op == token.LOR && !isNeq {
				return "(match " + name + " with None => true | Some " + derefName(name) + " => " + en2.guarded(ops[1:], op) + " end)"
			}
		}
	}
	sym := " && "
	if op == token.LOR {
		sym = " || "
	}
	return "(" + en.expr(ops[0]) + sym + en.guarded(ops[1:], op) + ")"
}

func (en *env) hasNilCheck(ops []ast.Expr) bool {
	for _, o := range ops {
		if be, ok := unparen(o).(*ast.BinaryExpr); ok && (be.Op == token.EQL || be.Op == token.NEQ) && (isNil(be.X) || isNil(be.Y)) {
			return true
		}
	}
	return false
}

func (en *env) expr(e ast.Expr) string {
	if v, ok := en.constOf(e); ok {
		return zlit(v)
	}
	switch x := e.(type) {
	case *ast.Ident:
		if x.Name == "true" || x.Name == "false" {
			return x.Name
		}
		if t, ok := en.vars[x.Name]; ok {
			if t.kind == "struct" {
				bail("struct value %s used as a whole", x.Name)
			}
			return "v_" + x.Name
		}
		bail("unknown identifier %s", x.Name)
	case *ast.ParenExpr:
		return en.expr(x.X)
	case *ast.SelectorExpr:
		if name, _, ok := en.structField(x); ok {
			return name
		}
		bail("selector expression outside the fragment")
	case *ast.StarExpr:
		name, _, ok := en.ptrName(x.X)
		if !ok {
			bail("dereference outside the fragment")
		}
		if d, ok := en.deref[name]; ok {
			return d
		}
		bail("dereference of an optional integer that is not known to be non-nil at this point")
	case *ast.UnaryExpr:
		switch x.Op {
		case token.NOT:
			return "(negb " + en.expr(x.X) + ")"
		case token.SUB:
			t := en.typeOf(x.X)
			return wrap(t, "(- "+en.expr(x.X)+")")
		}
		bail("unary operator %s outside the fragment", x.Op)
	case *ast.BinaryExpr:
		if x.Op == token.LAND || x.Op == token.LOR {
			if ops := chain(x, x.Op); en.hasNilCheck(ops) {
				return en.guarded(ops, x.Op)
			}
		}
		if name, isNeq, ok := en.nilCheck(x); ok {
			if isNeq {
				return "(match " + name + " with Some _ => true | None => false end)"
			}
			return "(match " + name + " with Some _ => false | None => true end)"
		}
		a, b := en.expr(x.X), en.expr(x.Y)
		t := en.typeOf(x)
		ot := en.typeOf(x.X)
		if ot.kind == "untyped" {
			ot = en.typeOf(x.Y)
		}
		if ot.kind == "ptr" || ot.kind == "struct" || ot.kind == "opt" {
			bail("operator %s on a value that is not an integer or a bool", x.Op)
		}
		switch x.Op {
		case token.ADD:
			return wrap(t, "("+a+" + "+b+")")
		case token.SUB:
			return wrap(t, "("+a+" - "+b+")")
		case token.MUL:
			return wrap(t, "("+a+" * "+b+")")
		case token.QUO:
			if t.kind == "s" {
				return wrap(t, "(Z.quot "+a+" "+b+")")
			}
			return "(" + a + " / " + b + ")"
		case token.REM:
			if t.kind == "s" {
				return "(Z.rem " + a + " " + b + ")"
			}
			return "(" + a + " mod " + b + ")"
		case token.AND:
			return "(Z.land " + a + " " + b + ")"
		case token.OR:
			return "(Z.lor " + a + " " + b + ")"
		case token.XOR:
			return wrap(t, "(Z.lxor "+a+" "+b+")")
		case token.SHL:
			return wrap(t, "(Z.shiftl "+a+" "+b+")")
		case token.SHR:
			return "(Z.shiftr " + a + " " + b + ")"
		case token.EQL:
			if ot.kind == "bool" {
				return "(Bool.eqb " + a + " " + b + ")"
			}
			return "(" + a + " =? " + b + ")"
		case token.NEQ:
			if ot.kind == "bool" {
				return "(negb (Bool.eqb " + a + " " + b + "))"
			}
			return "(negb (" + a + " =? " + b + "))"
		case token.LSS:
			return "(" + a + " <? " + b + ")"
		case token.LEQ:
			return "(" + a + " <=? " + b + ")"
		case token.GTR:
			return "(" + b + " <? " + a + ")"
		case token.GEQ:
			return "(" + b + " <=? " + a + ")"
		case token.LAND:
			return "(" + a + " && " + b + ")"
		case token.LOR:
			return "(" + a + " || " + b + ")"
		}
		bail("binary operator %s outside the fragment", x.Op)
	case *ast.CallExpr:
		ci := en.resolveCall(x)
		switch ci.kind {
		case callConv:
			return wrap(ci.t, en.expr(x.Args[0]))
		case callSig:
			if ci.sig.result.kind == "opt" {
				bail("result of %s (value, error) used without the error check idiom", ci.sig.coqName)
			}
			return en.call(ci.sig, ci.recv, x.Args)
		case callMinMax:
			return "(Z." + ci.name + " " + en.expr(x.Args[0]) + " " + en.expr(x.Args[1]) + ")"
		case callCfg:
			en.p.m.usedCfg[ci.cfg] = true
			return "cfg_" + strings.ReplaceAll(ci.cfg, ".", "_")
		}
		bail("%s", ci.why)
	}
	bail("expression outside the fragment (%T)", e)
	return ""
}

func (en *env) call(s *fnSig, recv ast.Expr, args []ast.Expr) string {
	parts := []string{s.coqName}
	actuals := args
	if recv != nil {
		actuals = append([]ast.Expr{recv}, args...)
	}
	if len(actuals) != len(s.params) {
		bail("call of %s with %d arguments for %d parameters (variadic / multi-value calls are outside the fragment)", s.coqName, len(actuals), len(s.params))
	}
	for i, a := range actuals {
		pt := s.params[i].t
		if pt.kind != "struct" {
			parts = append(parts, en.expr(a))
			continue
		}
		id, ok := unparen(a).(*ast.Ident)
		if !ok {
			bail("struct argument of %s is not a plain struct parameter of the caller", s.coqName)
		}
		at, ok := en.vars[id.Name]
		if !ok || at.kind != "struct" || at.st != pt.st {
			bail("struct argument %s of %s is not a parameter of type %s", id.Name, s.coqName, pt.st.name)
		}
		for _, f := range s.usedFields(i) {
			en.useField(id.Name, f.name)
			parts = append(parts, "v_"+id.Name+"_"+f.name)
		}
	}
	return "(" + strings.Join(parts, " ") + ")"
}

func (m *module) usedCfgOrder() []string {
	var ks []string
	for k := range m.usedCfg {
		ks = append(ks, k)
	}
	sort.Strings(ks)
	return ks
}

// ---------------------------------------------------------------- statements (continuation style)

// errBind: `a, err := f(...)` immediately followed by `if err != nil { return z, <error> }`.
func (en *env) errBind(x *ast.AssignStmt, rest []ast.Stmt, result ty, depth int) string {
	call, ok := unparen(x.Rhs[0]).(*ast.CallExpr)
	if !ok {
		bail("multi-assignment outside the fragment")
	}
	ci := en.resolveCall(call)
	if ci.kind == callNone {
		bail("%s", ci.why)
	}
	if ci.kind != callSig || ci.sig.result.kind != "opt" {
		bail("multi-assignment from something that is not a translated (value, error) function")
	}
	vid, ok1 := x.Lhs[0].(*ast.Ident)
	eid, ok2 := x.Lhs[1].(*ast.Ident)
	if !ok1 || !ok2 || eid.Name == "_" {
		bail("assignment target outside the fragment (the error result must be bound and checked)")
	}
	if x.Tok != token.DEFINE && x.Tok != token.ASSIGN {
		bail("assignment operator %s outside the fragment", x.Tok)
	}
	if result.kind != "opt" {
		bail("error propagation in a function without an error result")
	}
	if len(rest) == 0 {
		bail("error result of %s is not checked immediately", ci.sig.coqName)
	}
	ifs, ok := rest[0].(*ast.IfStmt)
	if !ok || ifs.Init != nil || ifs.Else != nil {
		bail("error result of %s is not checked immediately by `if %s != nil { return … }`", ci.sig.coqName, eid.Name)
	}
	cond, ok := unparen(ifs.Cond).(*ast.BinaryExpr)
	if !ok || cond.Op != token.NEQ {
		bail("error result of %s is not checked immediately by `if %s != nil { return … }`", ci.sig.coqName, eid.Name)
	}
	cx, cy := cond.X, cond.Y
	if isNil(cx) {
		cx, cy = cy, cx
	}
	cid, ok := unparen(cx).(*ast.Ident)
	if !ok || cid.Name != eid.Name || !isNil(cy) {
		bail("error result of %s is not checked immediately by `if %s != nil { return … }`", ci.sig.coqName, eid.Name)
	}
	if len(ifs.Body.List) != 1 {
		bail("the error branch does more than return the error")
	}
	rs, ok := ifs.Body.List[0].(*ast.ReturnStmt)
	if !ok {
		bail("the error branch does more than return the error")
	}
	enErr := en.clone()
	enErr.errs[eid.Name] = true
	if enErr.ret(rs, result) != "None" {
		bail("the error branch does not return an error")
	}
	en2 := en.clone()
	bname := "_"
	if vid.Name != "_" {
		if x.Tok == token.ASSIGN {
			if _, ok := en.vars[vid.Name]; !ok {
				bail("assignment to undeclared %s", vid.Name)
			}
		}
		en2.vars[vid.Name] = *ci.sig.result.elem
		bname = "v_" + vid.Name
	}
	return "match " + en.call(ci.sig, ci.recv, call.Args) + " with\n  | None => None\n  | Some " + bname + " =>\n  " +
		en2.stmts(rest[1:], result, depth+1) + "\n  end"
}

// stmts translates a statement list followed by `rest` (statements after the enclosing block) to an expression.
func (en *env) stmts(list []ast.Stmt, result ty, depth int) string {
	if depth > 40 {
		bail("statement nesting too deep")
	}
	if len(list) == 0 {
		bail("control reaches the end of the function without return")
	}
	s, rest := list[0], list[1:]
	switch x := s.(type) {
	case *ast.ReturnStmt:
		return en.ret(x, result)
	case *ast.AssignStmt:
		if len(x.Lhs) == 2 && len(x.Rhs) == 1 {
			return en.errBind(x, rest, result, depth)
		}
		if len(x.Lhs) != 1 || len(x.Rhs) != 1 {
			bail("multi-assignment outside the fragment")
		}
		id, ok := x.Lhs[0].(*ast.Ident)
		if !ok {
			bail("assignment target outside the fragment")
		}
		var val string
		switch x.Tok {
		case token.DEFINE:
			t := en.typeOf(x.Rhs[0])
			if t.kind == "untyped" {
				t = ty{"s", 64, nil, nil}
			}
			if t.kind == "ptr" || t.kind == "struct" || t.kind == "opt" {
				bail("local variable %s of a type that is not an integer or a bool", id.Name)
			}
			val = en.expr(x.Rhs[0])
			en2 := en.clone()
			en2.vars[id.Name] = t
			return "let v_" + id.Name + " := " + val + " in\n  " + en2.stmts(rest, result, depth+1)
		case token.ASSIGN:
			val = en.expr(x.Rhs[0])
		case token.ADD_ASSIGN, token.SUB_ASSIGN, token.MUL_ASSIGN:
			op := map[token.Token]token.Token{token.ADD_ASSIGN: token.ADD, token.SUB_ASSIGN: token.SUB, token.MUL_ASSIGN: token.MUL}[x.Tok]
			val = en.expr(&ast.BinaryExpr{X: x.Lhs[0], Op: op, Y: x.Rhs[0]})
		default:
			bail("assignment operator %s outside the fragment", x.Tok)
		}
		if t, ok := en.vars[id.Name]; !ok {
			bail("assignment to undeclared %s", id.Name)
		} else if !t.isInt() && t.kind != "bool" {
			bail("assignment to %s, which is not an integer or a bool", id.Name)
		}
		return "let v_" + id.Name + " := " + val + " in\n  " + en.stmts(rest, result, depth+1)
	case *ast.DeclStmt:
		gd, ok := x.Decl.(*ast.GenDecl)
		if !ok || gd.Tok != token.VAR {
			bail("declaration outside the fragment")
		}
		en2 := en.clone()
		var lets []string
		for _, sp := range gd.Specs {
			vs := sp.(*ast.ValueSpec)
			for i, n := range vs.Names {
				var t ty
				if vs.Type != nil {
					t = en.p.resolveType(vs.Type)
				} else if i < len(vs.Values) {
					t = en.typeOf(vs.Values[i])
					if !t.isInt() && t.kind != "bool" && t.kind != "untyped" {
						bail("local variable %s of a type that is not an integer or a bool", n.Name)
					}
				}
				init := "0"
				if t.kind == "bool" {
					init = "false"
				}
				if i < len(vs.Values) {
					init = en.expr(vs.Values[i])
				}
				en2.vars[n.Name] = t
				lets = append(lets, "let v_"+n.Name+" := "+init+" in\n  ")
			}
		}
		return strings.Join(lets, "") + en2.stmts(rest, result, depth+1)
	case *ast.IfStmt:
		if x.Init != nil {
			bail("if with init statement outside the fragment")
		}
		thenList := append(append([]ast.Stmt{}, x.Body.List...), rest...)
		var elseList []ast.Stmt
		switch e := x.Else.(type) {
		case nil:
			elseList = rest
		case *ast.BlockStmt:
			elseList = append(append([]ast.Stmt{}, e.List...), rest...)
		case *ast.IfStmt:
			elseList = append([]ast.Stmt{e}, rest...)
		}
		// `if p == nil` / `if p != nil` on an optional integer: a match that binds the value in the non-nil branch
		if name, isNeq, ok := en.nilCheck(x.Cond); ok {
			if _, known := en.deref[name]; !known {
				some, none := en.clone(), en.clone()
				some.deref[name] = derefName(name)
				someList, noneList := thenList, elseList
				if !isNeq {
					someList, noneList = elseList, thenList
				}
				noneS := none.stmts(noneList, result, depth+1)
				someS := some.stmts(someList, result, depth+1)
				return "match " + name + " with\n  | None => (" + noneS + ")\n  | Some " + derefName(name) + " => (" + someS + ")\n  end"
			}
		}
		cond := en.expr(x.Cond)
		// locals declared inside a branch stay local: translate each branch with its own copy of the environment
		thenS := en.clone().stmts(thenList, result, depth+1)
		elseS := en.clone().stmts(elseList, result, depth+1)
		return "if " + cond + "\n  then (" + thenS + ")\n  else (" + elseS + ")"
	case *ast.BlockStmt:
		return en.stmts(append(append([]ast.Stmt{}, x.List...), rest...), result, depth+1)
	}
	bail("statement outside the fragment (%T)", s)
	return ""
}

// isError: the expression is an error value that is certainly non-nil.
func (en *env) isError(e ast.Expr) bool {
	switch x := unparen(e).(type) {
	case *ast.CallExpr:
		if se, ok := x.Fun.(*ast.SelectorExpr); ok {
			if id, ok := se.X.(*ast.Ident); ok {
				k := id.Name + "." + se.Sel.Name
				return k == "errors.New" || k == "fmt.Errorf" || k == "errors.Errorf" || k == "errors.Wrap" || k == "errors.WithMessage"
			}
		}
	case *ast.Ident:
		if en.errs[x.Name] {
			return true
		}
		if _, isVar := en.vars[x.Name]; !isVar && (strings.HasPrefix(x.Name, "Err") || (strings.HasPrefix(x.Name, "err") && x.Name != "err")) {
			return true // package-level error variable (ErrMaxTryReached, errNotFound …)
		}
	case *ast.SelectorExpr:
		if _, ok := x.X.(*ast.Ident); ok && strings.HasPrefix(x.Sel.Name, "Err") {
			return true
		}
	}
	return false
}

func (en *env) ret(r *ast.ReturnStmt, result ty) string {
	if result.kind == "opt" {
		if len(r.Results) != 2 {
			bail("return arity")
		}
		if isNil(r.Results[1]) {
			return "Some " + en.expr(r.Results[0])
		}
		if en.isError(r.Results[1]) {
			return "None"
		}
		bail("returned error value is not known to be non-nil")
	}
	if len(r.Results) != 1 {
		bail("return arity (named results are outside the fragment)")
	}
	return en.expr(r.Results[0])
}

// ---------------------------------------------------------------- driver

func coqType(t ty) string {
	switch t.kind {
	case "bool":
		return "bool"
	case "opt":
		return "option " + coqType(*t.elem)
	case "ptr":
		return "option Z"
	}
	return "Z"
}

type group struct {
	file  string
	names []string
}

func main() {
	repo := flag.String("repo", "/repo", "repository root")
	out := flag.String("out", "", "output directory")
	flag.Parse()
	status := 0
	for _, spec := range flag.Args() {
		eq := strings.Index(spec, "=")
		mod := spec[:eq]
		var groups []group
		for _, g := range strings.Split(spec[eq+1:], ";") {
			colon := strings.LastIndex(g, ":")
			groups = append(groups, group{g[:colon], strings.Split(g[colon+1:], ",")})
		}
		text, report := translate(*repo, mod, groups)
		for _, r := range report {
			fmt.Println(r)
		}
		path := filepath.Join(*out, mod+".v")
		old, _ := os.ReadFile(path)
		if string(old) != text {
			if err := os.WriteFile(path, []byte(text), 0o644); err != nil {
				fmt.Println("go2v: cannot write", path, err)
				status = 1
			}
			fmt.Println("go2v: wrote", path)
		} else {
			fmt.Println("go2v: unchanged", path)
		}
	}
	os.Exit(status)
}

func parseDirFiles(fset *token.FileSet, dir string) []*ast.File {
	var files []*ast.File
	ents, _ := os.ReadDir(dir)
	for _, e := range ents {
		if strings.HasSuffix(e.Name(), ".go") && !strings.HasSuffix(e.Name(), "_test.go") {
			if f, err := parser.ParseFile(fset, filepath.Join(dir, e.Name()), nil, parser.SkipObjectResolution); err == nil {
				files = append(files, f)
			}
		}
	}
	return files
}

func modulePath(repo string) string {
	b, _ := os.ReadFile(filepath.Join(repo, "go.mod"))
	for _, l := range strings.Split(string(b), "\n") {
		if strings.HasPrefix(l, "module ") {
			return strings.TrimSpace(strings.TrimPrefix(l, "module "))
		}
	}
	return "github.com/vechain/thor/v2"
}

type target struct {
	p    *pkgInfo
	name string // Func | Type.Method
	fd   *ast.FuncDecl
	sig  *fnSig
	dead string // reason, once outside the fragment
	def  string
	pos  string
}

func recvTypeName(e ast.Expr) (string, bool) {
	if st, ok := e.(*ast.StarExpr); ok {
		e = st.X
	}
	id, ok := e.(*ast.Ident)
	if !ok {
		return "", false
	}
	return id.Name, true
}

func translate(repo, mod string, groups []group) (string, []string) {
	var report []string
	m := &module{repo: repo, modPath: modulePath(repo), fset: token.NewFileSet(), pkgs: map[string]*pkgInfo{}, sigs: map[string]*fnSig{},
		usedCfg: map[string]bool{}}
	var targets []*target
	coqNames := map[string]bool{}
	for _, g := range groups {
		p := m.pkg(filepath.Dir(g.file))
		// collect requested function declarations (from the whole package so renames of the file do not matter)
		decls := map[string]*ast.FuncDecl{}
		for _, f := range p.files {
			for _, d := range f.Decls {
				fd, ok := d.(*ast.FuncDecl)
				if !ok || fd.Body == nil {
					continue
				}
				key := fd.Name.Name
				if fd.Recv != nil && len(fd.Recv.List) == 1 {
					tn, ok := recvTypeName(fd.Recv.List[0].Type)
					if !ok {
						continue
					}
					key = tn + "." + fd.Name.Name
				}
				decls[key] = fd
			}
		}
		for _, n := range g.names {
			fd, ok := decls[n]
			if !ok {
				report = append(report, fmt.Sprintf("go2v: %s: %s not found in %s (renamed or removed) — falls back to correspondence", mod, n, filepath.Join(repo, p.dir)))
				continue
			}
			targets = append(targets, &target{p: p, name: n, fd: fd})
		}
	}
	guard := func(t *target, f func()) {
		defer func() {
			if r := recover(); r != nil {
				if u, ok := r.(unsupported); ok {
					t.dead = u.why
					delete(m.sigs, t.p.dir+":"+t.name)
					return
				}
				panic(r)
			}
		}()
		f()
	}
	// signatures first (calls may go in any direction; emission order = order of the spec, callees must come first)
	for _, t := range targets {
		guard(t, func() {
			fd, p := t.fd, t.p
			sig := &fnSig{key: p.dir + ":" + t.name, coqName: strings.ReplaceAll(t.name, ".", "_"), use: map[string]map[string]bool{}}
			if coqNames[sig.coqName] {
				bail("name %s occurs twice in the module", sig.coqName)
			}
			addParam := func(names []*ast.Ident, typ ast.Expr, isRecv bool) {
				pt := p.paramType(typ)
				if isRecv && len(names) == 0 {
					names = []*ast.Ident{{Name: "_recv"}}
				}
				if len(names) == 0 {
					bail("unnamed parameter")
				}
				for _, nm := range names {
					sig.params = append(sig.params, param{nm.Name, pt})
				}
			}
			if fd.Recv != nil {
				addParam(fd.Recv.List[0].Names, fd.Recv.List[0].Type, true)
			}
			for _, f := range fd.Type.Params.List {
				if _, isEll := f.Type.(*ast.Ellipsis); isEll {
					bail("variadic parameter")
				}
				addParam(f.Names, f.Type, false)
			}
			res := fd.Type.Results
			switch {
			case res == nil || len(res.List) == 0:
				bail("no result")
			case len(res.List) == 1 && len(res.List[0].Names) <= 1:
				sig.result = p.resolveType(res.List[0].Type)
			case len(res.List) == 2:
				if id, ok := res.List[1].Type.(*ast.Ident); ok && id.Name == "error" {
					e := p.resolveType(res.List[0].Type)
					sig.result = ty{kind: "opt", elem: &e}
				} else {
					bail("result tuple outside the fragment")
				}
			default:
				bail("result list outside the fragment")
			}
			for _, f := range res.List {
				if len(f.Names) > 0 {
					bail("named results outside the fragment")
				}
			}
			coqNames[sig.coqName] = true
			t.sig = sig
			m.sigs[sig.key] = sig
		})
	}
	// bodies, repeated until the sets of fields read through callees and the set of translatable functions are stable
	for round := 0; round < 12; round++ {
		m.changed = false
		m.usedCfg = map[string]bool{}
		for _, t := range targets {
			if t.dead != "" {
				continue
			}
			guard(t, func() {
				en := &env{vars: map[string]ty{}, p: t.p, fn: t.sig, deref: map[string]string{}, errs: map[string]bool{}}
				for _, pa := range t.sig.params {
					en.vars[pa.name] = pa.t
				}
				body := en.stmts(t.fd.Body.List, t.sig.result, 0)
				var params []string
				for i, pa := range t.sig.params {
					if pa.t.kind == "struct" {
						for _, f := range t.sig.usedFields(i) {
							params = append(params, fmt.Sprintf("(v_%s_%s : %s)", pa.name, f.name, coqType(f.t)))
						}
						continue
					}
					params = append(params, fmt.Sprintf("(v_%s : %s)", pa.name, coqType(pa.t)))
				}
				pos := m.fset.Position(t.fd.Pos())
				rel, _ := filepath.Rel(repo, pos.Filename)
				sep := " "
				if len(params) == 0 {
					sep = ""
				}
				t.def = fmt.Sprintf("(* %s  func %s *)\nDefinition %s %s%s: %s :=\n  %s.\n",
					rel, t.name, t.sig.coqName, strings.Join(params, " "), sep, coqType(t.sig.result), body)
				t.pos = fmt.Sprintf("%s:%d", rel, pos.Line)
			})
			if t.dead != "" {
				m.changed = true // its callers must be looked at again
			}
		}
		if !m.changed {
			break
		}
	}
	var defs []string
	for _, t := range targets {
		if t.dead != "" {
			report = append(report, fmt.Sprintf("go2v: %s: %s outside the fragment: %s", mod, t.name, t.dead))
			continue
		}
		defs = append(defs, t.def)
		report = append(report, fmt.Sprintf("go2v: %s: translated %s (%s)", mod, t.name, t.pos))
	}
	var files []string
	for _, g := range groups {
		files = append(files, g.file)
	}
	var b strings.Builder
	fmt.Fprintf(&b, "(* GENERATED by tools/go2v from %s — do not edit; regenerated on every check run. *)\n", strings.Join(files, ", "))
	b.WriteString("From Coq Require Import ZArith Bool.\nFrom Verif Require Import Common.GoInt.\nOpen Scope Z_scope.\n\n")
	fmt.Fprintf(&b, "Section %s.\n", mod)
	for _, k := range m.usedCfgOrder() {
		fmt.Fprintf(&b, "Variable cfg_%s : Z.  (* %s(): configuration value, %s *)\n", strings.ReplaceAll(k, ".", "_"), k, configGetters[k])
	}
	b.WriteString("\n")
	b.WriteString(strings.Join(defs, "\n"))
	fmt.Fprintf(&b, "\nEnd %s.\n", mod)
	return b.String(), report
}
