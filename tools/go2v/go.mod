module verif/go2v

go 1.23
