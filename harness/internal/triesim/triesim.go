// Package triesim holds what the C06 and C12 drivers share: an independent reference Merkle-Patricia
// hasher over a sorted key/value list (the specification of "canonical MPT root"), shape/leaf extraction
// from real tries through the public NodeIterator, an in-memory trie node database, and a mem-backed
// MuxDB with real caches.
package triesim

import (
	"bytes"
	"fmt"
	"sort"
	"strings"

	"github.com/syndtr/goleveldb/leveldb"
	"github.com/syndtr/goleveldb/leveldb/storage"

	"github.com/vechain/thor/v2/muxdb"
	"github.com/vechain/thor/v2/muxdb/engine"
	"github.com/vechain/thor/v2/thor"
	"github.com/vechain/thor/v2/trie"
)

// ---------------------------------------------------------------- reference MPT hasher
//
// Written from the Merkle-Patricia definition (yellow paper appendix D, with Blake2b as the hash), not from
// /repo/trie: keys are nibble strings, a node is the RLP of [hp(path,leaf), value] (leaf),
// [hp(path,ext), ref(child)] (extension) or the 17-item branch; ref(x) = x if len(rlp x) < 32 else hash(rlp x);
// the root is always hashed; the empty trie hashes rlp("").

type KV struct {
	Key []byte // nibbles, no terminator
	Val []byte
}

func rlpString(b []byte) []byte {
	if len(b) == 1 && b[0] < 0x80 {
		return []byte{b[0]}
	}
	return append(rlpHeader(0x80, len(b)), b...)
}

func rlpHeader(base byte, n int) []byte {
	if n < 56 {
		return []byte{base + byte(n)}
	}
	var lenBytes []byte
	for x := n; x > 0; x >>= 8 {
		lenBytes = append([]byte{byte(x)}, lenBytes...)
	}
	return append([]byte{base + 55 + byte(len(lenBytes))}, lenBytes...)
}

func rlpList(items ...[]byte) []byte {
	var body []byte
	for _, it := range items {
		body = append(body, it...)
	}
	return append(rlpHeader(0xc0, len(body)), body...)
}

// hex-prefix encoding
func hp(nibbles []byte, leaf bool) []byte {
	flag := byte(0)
	if leaf {
		flag = 2
	}
	var out []byte
	if len(nibbles)%2 == 1 {
		out = append(out, (flag+1)<<4|nibbles[0])
		nibbles = nibbles[1:]
	} else {
		out = append(out, flag<<4)
	}
	for i := 0; i < len(nibbles); i += 2 {
		out = append(out, nibbles[i]<<4|nibbles[i+1])
	}
	return out
}

func ref(enc []byte) []byte {
	if len(enc) < 32 {
		return enc
	}
	return rlpString(thor.Blake2b(enc).Bytes())
}

// node returns the RLP of the node for kvs (sorted, distinct keys) below depth.
func node(kvs []KV, depth int) []byte {
	if len(kvs) == 1 {
		return rlpList(rlpString(hp(kvs[0].Key[depth:], true)), rlpString(kvs[0].Val))
	}
	// common prefix beyond depth
	first, last := kvs[0].Key, kvs[len(kvs)-1].Key
	cp := 0
	for depth+cp < len(first) && depth+cp < len(last) && first[depth+cp] == last[depth+cp] {
		cp++
	}
	if cp > 0 {
		return rlpList(rlpString(hp(first[depth:depth+cp], false)), ref(node(kvs, depth+cp)))
	}
	items := make([][]byte, 17)
	rest := kvs
	if len(rest[0].Key) == depth { // a key ends here
		items[16] = rlpString(rest[0].Val)
		rest = rest[1:]
	} else {
		items[16] = rlpString(nil)
	}
	for i := 0; i < 16; i++ {
		n := 0
		for n < len(rest) && rest[n].Key[depth] == byte(i) {
			n++
		}
		if n == 0 {
			items[i] = rlpString(nil)
		} else {
			items[i] = ref(node(rest[:n], depth+1))
		}
		rest = rest[n:]
	}
	return rlpList(items...)
}

// RefRoot is the canonical MPT root of the key/value set (keys as nibble strings; empty values are not allowed).
func RefRoot(kvs []KV) thor.Bytes32 {
	if len(kvs) == 0 {
		return thor.Blake2b(rlpString(nil))
	}
	s := append([]KV(nil), kvs...)
	sort.Slice(s, func(i, j int) bool { return bytes.Compare(s[i].Key, s[j].Key) < 0 })
	return thor.Blake2b(node(s, 0))
}

// Nibbles converts key bytes to nibbles.
func Nibbles(key []byte) []byte {
	out := make([]byte, 0, len(key)*2)
	for _, b := range key {
		out = append(out, b>>4, b&15)
	}
	return out
}

// ---------------------------------------------------------------- shapes through the public iterator

const nibChars = "0123456789abcdeft"

// PathString renders a hex path (terminator 16 as 't').
func PathString(p []byte) string {
	var b strings.Builder
	for _, x := range p {
		b.WriteByte(nibChars[x])
	}
	return b.String()
}

// ParsePath is the inverse of PathString without the terminator.
func ParsePath(s string) []byte {
	out := make([]byte, 0, len(s))
	for _, c := range s {
		if c == 't' {
			break
		}
		out = append(out, byte(strings.IndexRune(nibChars, c)))
	}
	return out
}

type Leaf struct {
	Key  string // nibble string with trailing 't'
	Val  []byte
	Meta []byte
}

// Shape walks a trie pre-order: node paths ("/" prefix, "L" suffix on leaves) and leaves.
func Shape(it trie.NodeIterator) (paths []string, leaves []Leaf, err error) {
	for it.Next(true) {
		p := PathString(it.Path())
		if l := it.Leaf(); l != nil {
			paths = append(paths, "/"+p+"L")
			leaves = append(leaves, Leaf{Key: p, Val: append([]byte(nil), l.Value...), Meta: append([]byte(nil), l.Meta...)})
		} else {
			paths = append(paths, "/"+p)
		}
	}
	return paths, leaves, it.Error()
}

// LeavesRoot is the reference root of the leaves read from a trie.
func LeavesRoot(leaves []Leaf) thor.Bytes32 {
	kvs := make([]KV, len(leaves))
	for i, l := range leaves {
		kvs[i] = KV{Key: ParsePath(l.Key), Val: l.Val}
	}
	return RefRoot(kvs)
}

// ---------------------------------------------------------------- in-memory node database for bare trie.Trie

type MemDB struct{ M map[string][]byte }

func NewMemDB() *MemDB { return &MemDB{M: map[string][]byte{}} }
func key(path []byte, ver trie.Version) string {
	return fmt.Sprintf("%x/%d.%d", path, ver.Major, ver.Minor)
}
func (d *MemDB) Get(path []byte, ver trie.Version) ([]byte, error) {
	if v, ok := d.M[key(path, ver)]; ok {
		return v, nil
	}
	return nil, fmt.Errorf("not found")
}
func (d *MemDB) Put(path []byte, ver trie.Version, value []byte) error {
	d.M[key(path, ver)] = append([]byte(nil), value...)
	return nil
}

// ---------------------------------------------------------------- MuxDB over memory with real caches

// NewCachedMem builds a MuxDB over an in-memory LevelDB with the real node/root caches (hook muxdb.NewWithEngine).
func NewCachedMem(cacheMB int, ttl uint16, histFactor, dedupedFactor uint32) *muxdb.MuxDB {
	ldb, err := leveldb.Open(storage.NewMemStorage(), nil)
	if err != nil {
		panic(err)
	}
	return muxdb.NewWithEngine(engine.NewLevelEngine(ldb), &muxdb.Options{
		TrieNodeCacheSizeMB:        cacheMB,
		TrieCachedNodeTTL:          ttl,
		TrieHistPartitionFactor:    histFactor,
		TrieDedupedPartitionFactor: dedupedFactor,
	})
}
