package triesim

// storeview.go — observation of the muxdb node store for the C12 store correspondence: a recording key-value engine
// (which trie keys a real commit / pruner round puts and deletes), parsing of hist / deduped node keys
// (muxdb/backend.go AppendHistNodeKey / AppendDedupedNodeKey) and decoding of stored node blobs (trie/node.go encode)
// into the text form the C12 oracle reads.  Parsing and printing only.

import (
	"context"
	"encoding/binary"
	"errors"
	"fmt"
	"math"
	"strings"
	"sync"

	"github.com/vechain/thor/v2/kv"
	"github.com/vechain/thor/v2/muxdb/engine"
	"github.com/vechain/thor/v2/trie"
)

// WriteOp is one put or delete that reached the engine.
type WriteOp struct {
	Key []byte
	Val []byte
	Del bool
}

// RecEngine wraps a real engine and records every put / delete (single, through a Bulk, through DeleteRange) in order.
type RecEngine struct {
	engine.Engine
	mu  sync.Mutex
	ops []WriteOp
}

func NewRecEngine() *RecEngine { return &RecEngine{Engine: MemEngine()} }

// Drain returns the operations recorded since the previous call.
func (e *RecEngine) Drain() []WriteOp {
	e.mu.Lock()
	defer e.mu.Unlock()
	ops := e.ops
	e.ops = nil
	return ops
}

func (e *RecEngine) rec(key, val []byte, del bool) {
	e.mu.Lock()
	e.ops = append(e.ops, WriteOp{Key: append([]byte(nil), key...), Val: append([]byte(nil), val...), Del: del})
	e.mu.Unlock()
}

func (e *RecEngine) Put(key, val []byte) error {
	e.rec(key, val, false)
	return e.Engine.Put(key, val)
}
func (e *RecEngine) Delete(key []byte) error {
	e.rec(key, nil, true)
	return e.Engine.Delete(key)
}

type recBulk struct {
	kv.Bulk
	e *RecEngine
}

func (b recBulk) Put(key, val []byte) error { b.e.rec(key, val, false); return b.Bulk.Put(key, val) }
func (b recBulk) Delete(key []byte) error   { b.e.rec(key, nil, true); return b.Bulk.Delete(key) }

func (e *RecEngine) Bulk() kv.Bulk { return recBulk{e.Engine.Bulk(), e} }

func (e *RecEngine) DeleteRange(ctx context.Context, r kv.Range) error {
	it := e.Engine.Iterate(r)
	for it.Next() {
		e.rec(it.Key(), nil, true)
	}
	it.Release()
	return e.Engine.DeleteRange(ctx, r)
}

// NodeKey is a parsed trie node key.
type NodeKey struct {
	Hist   bool
	HasPtn bool
	Ptn    uint32
	Name   string
	Path   []byte
	Ver    trie.Version // hist keys only
}

const (
	spaceHist    = 0
	spaceDeduped = 1
)

func parseName(b []byte) (string, []byte, error) {
	if len(b) == 0 {
		return "", nil, errors.New("no name")
	}
	switch b[0] {
	case 'a', 'i':
		return string(b[:1]), b[1:], nil
	case 's': // "s" + storage id = 4-byte major, uvarint minor, uvarint creation count (state.go)
		if len(b) < 5 {
			return "", nil, errors.New("short storage name")
		}
		n := 5
		for i := 0; i < 2; i++ {
			_, k := binary.Uvarint(b[n:])
			if k <= 0 {
				return "", nil, errors.New("bad storage id")
			}
			n += k
		}
		return string(b[:n]), b[n:], nil
	}
	return "", nil, fmt.Errorf("unknown trie name byte %x", b[0])
}

func parsePath(b []byte) ([]byte, []byte, error) {
	var path []byte
	for {
		if len(b) < 2 {
			return nil, nil, errors.New("short path")
		}
		b0, b1 := b[0], b[1]
		b = b[2:]
		switch {
		case b1 == 0 && b0 == 0:
			return path, b, nil
		case b1 == 1:
			return append(path, b0), b, nil
		case b1&0x0f == 2 && b0&0x10 != 0:
			path = append(path, b0&0x0f, b1>>4)
		case b1&0x0f == 2:
			return append(path, b0, b1>>4), b, nil
		default:
			return nil, nil, fmt.Errorf("bad path bytes %x %x", b0, b1)
		}
	}
}

// ParseNodeKey parses a key of the hist or deduped trie-node space; ok=false for keys of other spaces.
func ParseNodeKey(key []byte, histFactor, dedupedFactor uint32) (nk NodeKey, ok bool, err error) {
	if len(key) == 0 || (key[0] != spaceHist && key[0] != spaceDeduped) {
		return nk, false, nil
	}
	nk.Hist = key[0] == spaceHist
	b := key[1:]
	factor := dedupedFactor
	if nk.Hist {
		factor = histFactor
	}
	if factor != math.MaxUint32 {
		if len(b) < 4 {
			return nk, true, errors.New("short partition")
		}
		nk.HasPtn, nk.Ptn = true, binary.BigEndian.Uint32(b)
		b = b[4:]
	}
	if nk.Name, b, err = parseName(b); err != nil {
		return nk, true, err
	}
	if nk.Path, b, err = parsePath(b); err != nil {
		return nk, true, err
	}
	if !nk.Hist {
		if len(b) != 0 {
			return nk, true, errors.New("trailing bytes in deduped key")
		}
		return nk, true, nil
	}
	var mod uint32
	switch {
	case histFactor > 1<<24:
		mod, b = binary.BigEndian.Uint32(b), b[4:]
	case histFactor > 1<<16:
		mod, b = uint32(b[0])<<16|uint32(b[1])<<8|uint32(b[2]), b[3:]
	case histFactor > 1<<8:
		mod, b = uint32(b[0])<<8|uint32(b[1]), b[2:]
	case histFactor > 1:
		mod, b = uint32(b[0]), b[1:]
	}
	nk.Ver.Major = nk.Ptn*histFactor + mod
	if len(b) > 0 {
		m, k := binary.Uvarint(b)
		if k <= 0 || k != len(b) {
			return nk, true, errors.New("bad minor version")
		}
		nk.Ver.Minor = uint32(m)
	}
	return nk, true, nil
}

// ---- stored node blobs (trie/node.go): tag = kind | attrs<<3

const (
	kindEmpty = iota
	kindFull
	kindShort
	kindRef
	kindValue
)
const (
	attrHasHash = 1 << iota
	attrHasMajor
	attrHasMinor
	attrHasMeta
)

func vpString(b []byte) ([]byte, []byte, error) {
	n, k := binary.Uvarint(b)
	if k <= 0 || uint64(len(b)-k) < n {
		return nil, nil, errors.New("bad vp string")
	}
	return b[k : k+int(n)], b[k+int(n):], nil
}

func hexDash(b []byte) string {
	if len(b) == 0 {
		return "-"
	}
	return fmt.Sprintf("%x", b)
}

func decodeValueText(b []byte, attrs byte) (string, []byte, error) {
	val, b, err := vpString(b)
	if err != nil {
		return "", nil, err
	}
	var meta []byte
	if attrs&attrHasMeta != 0 {
		if meta, b, err = vpString(b); err != nil {
			return "", nil, err
		}
	}
	return "V" + hexDash(val) + "~" + hexDash(meta), b, nil
}

func decodeRefText(b []byte, attrs byte) (string, []byte, error) {
	var major, minor uint32
	if attrs&attrHasHash != 0 {
		if len(b) < 32 {
			return "", nil, errors.New("short ref hash")
		}
		b = b[32:]
	}
	if attrs&attrHasMajor != 0 {
		major, b = binary.BigEndian.Uint32(b), b[4:]
	}
	if attrs&attrHasMinor != 0 {
		minor, b = binary.BigEndian.Uint32(b), b[4:]
	}
	return fmt.Sprintf("R%x.%x", major, minor), b, nil
}

func decodeNodeText(b []byte) (string, []byte, error) {
	if len(b) == 0 {
		return "", nil, errors.New("empty blob")
	}
	tag := b[0]
	b = b[1:]
	kind, attrs := tag&7, tag>>3
	switch kind {
	case kindEmpty:
		return "N", b, nil
	case kindFull:
		parts := make([]string, 17)
		for i := range parts {
			var err error
			if parts[i], b, err = decodeNodeText(b); err != nil {
				return "", nil, err
			}
		}
		return "F(" + strings.Join(parts, ",") + ")", b, nil
	case kindShort:
		ck, rest, err := vpString(b)
		if err != nil || len(ck) == 0 {
			return "", nil, errors.New("bad short key")
		}
		b = rest
		// compact -> hex (encoding.go): flag nibble: bit 1 = terminator, bit 0 = odd
		var sb strings.Builder
		term := ck[0]&0x20 != 0
		if ck[0]&0x10 != 0 {
			fmt.Fprintf(&sb, "%x", ck[0]&0x0f)
		}
		for _, c := range ck[1:] {
			fmt.Fprintf(&sb, "%x%x", c>>4, c&0x0f)
		}
		var child string
		if term {
			sb.WriteByte('t')
			child, b, err = decodeValueText(b, attrs)
		} else {
			child, b, err = decodeNodeText(b)
		}
		if err != nil {
			return "", nil, err
		}
		return "S" + sb.String() + "(" + child + ")", b, nil
	case kindRef:
		return decodeRefText(b, attrs)
	case kindValue:
		return decodeValueText(b, attrs)
	}
	return "", nil, fmt.Errorf("bad node kind %d", kind)
}

// BlobText renders a stored node blob in the oracle's blob syntax.
func BlobText(blob []byte) (string, error) {
	s, rest, err := decodeNodeText(blob)
	if err != nil {
		return "", err
	}
	if len(rest) != 0 {
		return "", errors.New("trailing bytes in blob")
	}
	return s, nil
}

// PathTok renders a node path for the oracle ("-" when empty).
func PathTok(p []byte) string {
	if len(p) == 0 {
		return "-"
	}
	return PathString(p)
}
