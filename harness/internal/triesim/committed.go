package triesim

import (
	"bytes"
	"fmt"
	"math/big"
	"strings"

	"github.com/ethereum/go-ethereum/rlp"
	"github.com/syndtr/goleveldb/leveldb"
	"github.com/syndtr/goleveldb/leveldb/storage"

	"github.com/vechain/thor/v2/muxdb"
	"github.com/vechain/thor/v2/muxdb/engine"
	"github.com/vechain/thor/v2/state"
	"github.com/vechain/thor/v2/thor"
	"github.com/vechain/thor/v2/trie"
)

// Committed is everything a committed state root resolves to, read through the public API
// (muxdb.Trie.NodeIterator on the account trie and on every storage trie reached through it).
type Committed struct {
	Root     thor.Bytes32
	AccPaths []string
	Accts    []Acct
	Err      string
}
type Acct struct {
	Key     string // nibble path with 't'
	Acc     state.Account
	Meta    *state.AccountMetadata
	SLeaves []Leaf
	SPaths  []string
}

func hexOrDash(b []byte) string {
	if len(b) == 0 {
		return "-"
	}
	return fmt.Sprintf("%x", b)
}
func bigHex(x *big.Int) string {
	s := strings.TrimLeft(fmt.Sprintf("%x", x.Bytes()), "0")
	if s == "" {
		return "0"
	}
	return s
}

func ReadCommitted(db *muxdb.MuxDB, root trie.Root) (co *Committed) {
	co = &Committed{Root: root.Hash}
	defer func() {
		if r := recover(); r != nil {
			co.Err = fmt.Sprint("panic: ", r)
		}
	}()
	t := db.NewTrie(muxdb.AccountTrieName, root)
	paths, leaves, err := Shape(t.NodeIterator(nil, 0))
	if err != nil {
		co.Err = "iterate accounts: " + err.Error()
		return co
	}
	co.AccPaths = paths
	for _, l := range leaves {
		ao := Acct{Key: l.Key}
		if err := rlp.DecodeBytes(l.Val, &ao.Acc); err != nil {
			co.Err = "decode account: " + err.Error()
			return co
		}
		if len(l.Meta) > 0 {
			ao.Meta = &state.AccountMetadata{}
			if err := rlp.DecodeBytes(l.Meta, ao.Meta); err != nil {
				co.Err = "decode meta: " + err.Error()
				return co
			}
		}
		if len(ao.Acc.StorageRoot) > 0 {
			if ao.Meta == nil {
				co.Err = "account with storage root has no metadata"
				return co
			}
			st := db.NewTrie(state.StorageTrieName(ao.Meta.StorageID), trie.Root{
				Hash: thor.BytesToBytes32(ao.Acc.StorageRoot),
				Ver:  trie.Version{Major: ao.Meta.StorageMajorVer, Minor: ao.Meta.StorageMinorVer}})
			sp, sl, err := Shape(st.NodeIterator(nil, 0))
			if err != nil {
				co.Err = "iterate storage: " + err.Error()
				return co
			}
			ao.SPaths, ao.SLeaves = sp, sl
		}
		co.Accts = append(co.Accts, ao)
	}
	return co
}

// Text is the canonical rendering (the same the oracle prints for a commit).
func (co *Committed) Text() string {
	var parts []string
	for _, a := range co.Accts {
		m := "M-"
		if a.Meta != nil {
			m = fmt.Sprintf("M%x/%x/%x", a.Meta.StorageID, a.Meta.StorageMajorVer, a.Meta.StorageMinorVer)
		}
		s := "S-"
		if len(a.Acc.StorageRoot) > 0 {
			var ls []string
			for _, l := range a.SLeaves {
				ls = append(ls, l.Key+"="+hexOrDash(l.Val)+"~"+hexOrDash(l.Meta))
			}
			s = "S[" + strings.Join(ls, ",") + "]P[" + strings.Join(a.SPaths, ",") + "]"
		}
		parts = append(parts, fmt.Sprintf("%s:%s,%s,%x,%s,%s,%s,%s", a.Key, bigHex(a.Acc.Balance), bigHex(a.Acc.Energy), a.Acc.BlockTime,
			hexOrDash(a.Acc.Master), hexOrDash(a.Acc.CodeHash), m, s))
	}
	return strings.TrimSpace("C " + strings.Join(parts, " ") + " @ " + strings.Join(co.AccPaths, ","))
}

// Property: hashed by the reference hasher from the leaves read back, the tries give the committed roots.
func (co *Committed) Property() string {
	if co.Err != "" {
		return "committed state unreadable: " + co.Err
	}
	var kvs []KV
	for _, a := range co.Accts {
		if len(a.Acc.StorageRoot) > 0 {
			if r := LeavesRoot(a.SLeaves); !bytes.Equal(r[:], a.Acc.StorageRoot) {
				return fmt.Sprintf("storage root != reference root of content: account %s has %x, content hashes to %x", a.Key, a.Acc.StorageRoot, r[:])
			}
		}
		v, _ := rlp.EncodeToBytes(&a.Acc)
		kvs = append(kvs, KV{Key: ParsePath(a.Key), Val: v})
	}
	if r := RefRoot(kvs); r != co.Root {
		return fmt.Sprintf("state root != reference root of content: %x vs %x", co.Root[:], r[:])
	}
	return ""
}

// MemEngine is an in-memory LevelDB engine that outlives the MuxDB wrapped around it (restart = new MuxDB, same engine).
func MemEngine() engine.Engine {
	ldb, err := leveldb.Open(storage.NewMemStorage(), nil)
	if err != nil {
		panic(err)
	}
	return engine.NewLevelEngine(ldb)
}
