// Package txsim is the shared part of the C07 / C08 correspondence drivers: it builds a world (devnet genesis with a
// custom fork config, generated contracts / balances / credit plans), generates transactions, runs them through the REAL
// runtime.Runtime with a vm tracer attached, walks the whole account trie before and after, and renders the case as a line
// for the extracted Coq model (oracle/c07, oracle/c08).  It contains no model of the runtime: only observation.
package txsim

import (
	"crypto/ecdsa"
	"encoding/hex"
	"fmt"
	"math"
	"math/big"
	"sort"
	"strings"

	"github.com/ethereum/go-ethereum/common"
	"github.com/ethereum/go-ethereum/rlp"

	"github.com/vechain/thor/v2/builtin"
	"github.com/vechain/thor/v2/chain"
	"github.com/vechain/thor/v2/genesis"
	"github.com/vechain/thor/v2/muxdb"
	"github.com/vechain/thor/v2/runtime"
	"github.com/vechain/thor/v2/state"
	"github.com/vechain/thor/v2/thor"
	"github.com/vechain/thor/v2/trie"
	"github.com/vechain/thor/v2/tx"
	"github.com/vechain/thor/v2/vm"
	"github.com/vechain/thor/v2/xenv"

	"verif/harness/internal/hx"
)

// ---------------------------------------------------------------- case description (JSON, self-contained, replayable)

type ClauseSpec struct {
	To    string `json:"to"` // hex address, "" = contract creation
	Value string `json:"value"`
	Data  string `json:"data"`
}

type TxSpec struct {
	Dynamic   bool         `json:"dynamic"`
	Gas       uint64       `json:"gas"`
	Coef      uint8        `json:"coef"`
	MaxFee    string       `json:"max_fee"`
	MaxPrio   string       `json:"max_prio"`
	Origin    int          `json:"origin"`    // dev account index
	Delegator int          `json:"delegator"` // dev account index, -1 none
	RefKind   int          `json:"ref_kind"`  // 0: number 0 no prefix match, 1: genesis id prefix (proved work counts), 2: ref number 1 (lookup error when < block number)
	Nonce     uint64       `json:"nonce"`
	BadSig    bool         `json:"bad_sig"`
	Clauses   []ClauseSpec `json:"clauses"`
	// block-flow features (zero values = defaults)
	Exp         uint32 `json:"expiration,omitempty"`    // 0 = never expires
	BadChainTag bool   `json:"bad_chain_tag,omitempty"`
	Dep         int    `json:"depends_on,omitempty"`    // 0 none; k>0 = k-th transaction built in this world; -1 = an unknown id
	FutureRef   uint32 `json:"future_ref,omitempty"`    // block-ref number (overrides ref_kind) when > 0
}

type Setup struct {
	Galactica   uint32            `json:"galactica"`
	Number      uint32            `json:"number"`
	TimeDelta   uint64            `json:"time_delta"` // block time = genesis time + delta
	GasLimit    uint64            `json:"gas_limit"`
	BaseFee     string            `json:"base_fee"` // used when number >= galactica
	Benef       string            `json:"beneficiary"`
	Balances    map[string]string `json:"balances"` // extra VET given to contracts (hex addr -> decimal)
	Energies    map[string]string `json:"energies"`
	PoorOrigin  int               `json:"poor_origin"` // dev account whose energy is set to a small amount, -1 none
	PoorEnergy  string            `json:"poor_energy"`
	CreditTo    string            `json:"credit_to"` // contract with a credit plan ("" none)
	Credit      string            `json:"credit"`
	Recovery    string            `json:"recovery"`
	CreditUsers []int             `json:"credit_users"`
	Sponsor     int               `json:"sponsor"` // dev account index sponsoring CreditTo, -1 none
	SponsorSel  bool              `json:"sponsor_selected"`
	SponsorEnergy string           `json:"sponsor_energy,omitempty"` // "" = untouched (rich); else the sponsor's whole VTHO (its VET is moved away: no growth)
	PoS         bool              `json:"pos,omitempty"` // world built on a chain where HAYABUSA (block 2) is active and PoS has taken over (block 4)
}

type Case struct {
	Setup Setup    `json:"setup"`
	Txs   []TxSpec `json:"txs"`
}

// ---------------------------------------------------------------- generated contracts (fixed addresses)

func fixedAddr(i byte) thor.Address {
	var a thor.Address
	a[0] = 0xc0
	a[19] = i
	return a
}

var (
	AddrSelfDestructSelf = fixedAddr(1) // ADDRESS SELFDESTRUCT
	AddrSelfDestructTo   = fixedAddr(2) // SELFDESTRUCT(calldata[0:32])
	AddrRevert           = fixedAddr(3)
	AddrLoop             = fixedAddr(4) // runs out of gas
	AddrInvalid          = fixedAddr(5)
	AddrStore            = fixedAddr(6) // toggles slot 0 (refund when clearing)
	AddrForward          = fixedAddr(7) // CALL(calldata[0:32], callvalue, calldata[32:]) ignoring failure
	AddrForwardStrict    = fixedAddr(8) // same, REVERT when the inner call fails
	AddrStore2           = fixedAddr(9)
	AddrPlain            = fixedAddr(10) // no code
	AddrCallThenRevert   = fixedAddr(11) // CALL(calldata[0:32], callvalue, calldata[32:]) then REVERT: the callee's effects are rolled back
	AddrSelfDestructCaller = fixedAddr(12) // CALLER SELFDESTRUCT
)

var Codes = map[thor.Address]string{
	AddrSelfDestructSelf: "30ff",
	AddrSelfDestructTo:   "600035ff",
	AddrRevert:           "60006000fd",
	AddrLoop:             "5b600056",
	AddrInvalid:          "fe",
	AddrStore:            "600054156" + "00d57600060005500" + "5b600160005500",
	AddrStore2:           "600054156" + "00d57600060005500" + "5b600160005500",
	AddrForward:          "366020900380602060003760006000916000346000355af100",
	AddrCallThenRevert:   "366020900380602060003760006000916000346000355af1" + "60006000fd",
	AddrSelfDestructCaller: "33ff",
	AddrForwardStrict:    "366020900380602060003760006000916000346000355af1602057600060" + "00fd5b00",
}

var InitCodes = []string{
	"6130ff60005260026" + "01ef3", // returns runtime 30ff
	"60006000fd",                  // reverts
	"30ff",                        // self-destructs to self during creation
	"600160005560016000f3",        // writes storage, returns 1 byte of zero runtime
	"fe",
}

func ContractAddrs() []thor.Address {
	l := make([]thor.Address, 0, len(Codes)+1)
	for a := range Codes {
		l = append(l, a)
	}
	l = append(l, AddrPlain)
	sort.Slice(l, func(i, j int) bool { return string(l[i][:]) < string(l[j][:]) })
	return l
}

func big10(s string) *big.Int {
	if s == "" {
		return new(big.Int)
	}
	b, ok := new(big.Int).SetString(s, 10)
	if !ok {
		hx.Fatal("bad decimal %q", s)
	}
	return b
}
func parseAddr(s string) thor.Address {
	a, err := thor.ParseAddress("0x" + strings.TrimPrefix(s, "0x"))
	if err != nil {
		hx.Fatal("bad address %q", s)
	}
	return a
}
func AddrHex(a thor.Address) string { return hex.EncodeToString(a[:]) }
func Word(a thor.Address) string    { return strings.Repeat("00", 12) + AddrHex(a) }

// ---------------------------------------------------------------- world

type World struct {
	DB      *muxdb.MuxDB
	Repo    *chain.Repository
	Fork    *thor.ForkConfig
	Genesis thor.Bytes32
	GenTime uint64
	Root    trie.Root
	ver     uint32
	Known   map[thor.Bytes32]thor.Address // secure key -> address, for every address the harness has seen
	Setup   *Setup
	// block-flow mode (shadow execution next to a real packer.Flow): explicit block context, chain head, version minor
	Ctx   *xenv.BlockContext
	Head  thor.Bytes32
	minor uint32
	TxIDs []thor.Bytes32 // ids of the transactions built so far (DependsOn refers to them)
	closer func()
}

func (w *World) head() thor.Bytes32 {
	if w.Head != (thor.Bytes32{}) {
		return w.Head
	}
	return w.Genesis
}

// stopTime reads the energy growth stop time from a state (MaxUint64 before HAYABUSA).
func (w *World) stopTime(root trie.Root, T uint64) uint64 {
	ts, err := builtin.Energy.Native(state.New(w.DB, root), T).GetEnergyGrowthStopTime()
	if err != nil {
		hx.Fatal("stop time: %v", err)
	}
	return ts
}

// Close releases the in-memory leveldb instance behind the world (its goroutines keep it alive otherwise).
func (w *World) Close() {
	if w.closer != nil {
		w.closer()
	}
	w.DB.Close()
}

func (w *World) Know(a thor.Address) { w.Known[thor.Blake2b(a[:])] = a }

func DevKey(i int) *ecdsa.PrivateKey { return genesis.DevAccounts()[i%len(genesis.DevAccounts())].PrivateKey }
func DevAddr(i int) thor.Address      { return genesis.DevAccounts()[i%len(genesis.DevAccounts())].Address }

// genesis.NewDevnetWithConfig computes the genesis id on a throw-away in-memory database that is never closed: build the
// genesis object once per fork height and reuse it (Build can be applied to any number of databases).
var genesisCache = map[uint32]*genesis.Genesis{}

func genesisFor(fc thor.ForkConfig) *genesis.Genesis {
	if g, ok := genesisCache[fc.GALACTICA]; ok {
		return g
	}
	cfg := fc
	g := genesis.NewDevnetWithConfig(genesis.DevConfig{ForkConfig: &cfg})
	genesisCache[fc.GALACTICA] = g
	return g
}

func NewWorld(s *Setup) *World {
	if s.PoS {
		return newPoSWorld(s)
	}
	hayabusaTP := uint32(math.MaxUint32)
	thor.SetConfig(thor.Config{HayabusaTP: &hayabusaTP})
	fc := thor.SoloFork
	fc.HAYABUSA = math.MaxUint32
	fc.GALACTICA = s.Galactica
	db := muxdb.NewMem()
	g := genesisFor(fc)
	b0, _, _, err := g.Build(state.NewStater(db))
	if err != nil {
		hx.Fatal("genesis: %v", err)
	}
	repo, err := chain.NewRepository(db, b0)
	if err != nil {
		hx.Fatal("repo: %v", err)
	}
	w := &World{DB: db, Repo: repo, Fork: &fc, Genesis: b0.Header().ID(), GenTime: b0.Header().Timestamp(),
		Root: trie.Root{Hash: b0.Header().StateRoot()}, Known: map[thor.Bytes32]thor.Address{}, Setup: s}
	w.knowBasics()
	st := state.New(db, w.Root)
	w.applyGenerated(st, w.GenTime)
	w.commit(st)
	if s.Number == s.Galactica {
		// runtime.New installs builtin / precompile code at the fork block: do it once so that it is part of the pre-state
		st := state.New(db, w.Root)
		ctx, _ := w.blockCtx()
		runtime.New(repo.NewChain(w.Genesis), st, ctx, w.Fork)
		w.commit(st)
	}
	return w
}

func (w *World) knowBasics() {
	s := w.Setup
	for _, a := range genesis.DevAccounts() {
		w.Know(a.Address)
	}
	for _, a := range ContractAddrs() {
		w.Know(a)
	}
	for _, a := range []thor.Address{builtin.Energy.Address, builtin.Params.Address, builtin.Prototype.Address, builtin.Authority.Address,
		builtin.Executor.Address, builtin.Extension.Address, builtin.Staker.Address, {}} {
		w.Know(a)
	}
	for i := 1; i < 16; i++ {
		w.Know(thor.BytesToAddress([]byte{byte(i)}))
	}
	w.Know(parseAddr(s.Benef))
}

// applyGenerated writes the generated part of the state (contracts, funds, credit plans) directly: these are the generated
// *states* of the quantifier.
func (w *World) applyGenerated(st *state.State, t0 uint64) {
	s := w.Setup
	// generated state: contracts, funds, credit plans — written directly (these are the generated *states* of the quantifier)
	for a, code := range Codes {
		b, _ := hex.DecodeString(code)
		if err := st.SetCode(a, b); err != nil {
			hx.Fatal("%v", err)
		}
	}
	st.SetStorage(AddrStore, thor.Bytes32{}, thor.BytesToBytes32([]byte{1}))
	for a, v := range s.Balances {
		addr := parseAddr(a)
		w.Know(addr)
		// keep the VET total meaningful: move from dev account 9
		from := DevAddr(9)
		fb, _ := st.GetBalance(from)
		amt := big10(v)
		if fb.Cmp(amt) < 0 {
			continue
		}
		tb, _ := st.GetBalance(addr)
		st.SetBalance(from, new(big.Int).Sub(fb, amt))
		st.SetBalance(addr, new(big.Int).Add(tb, amt))
	}
	for a, v := range s.Energies {
		addr := parseAddr(a)
		w.Know(addr)
		st.SetEnergy(addr, big10(v), t0)
	}
	if s.PoorOrigin >= 0 {
		st.SetEnergy(DevAddr(s.PoorOrigin), big10(s.PoorEnergy), t0)
		bal, _ := st.GetBalance(DevAddr(s.PoorOrigin))
		st.SetBalance(DevAddr(9), new(big.Int).Add(func() *big.Int { b, _ := st.GetBalance(DevAddr(9)); return b }(), bal))
		st.SetBalance(DevAddr(s.PoorOrigin), new(big.Int)) // no growth either
	}
	if s.Sponsor >= 0 && s.SponsorEnergy != "" {
		sp := DevAddr(s.Sponsor)
		bal, _ := st.GetBalance(sp)
		b9, _ := st.GetBalance(DevAddr(9))
		st.SetBalance(DevAddr(9), new(big.Int).Add(b9, bal))
		st.SetBalance(sp, new(big.Int))
		st.SetEnergy(sp, big10(s.SponsorEnergy), t0)
	}
	if s.CreditTo != "" {
		bind := builtin.Prototype.Native(st).Bind(parseAddr(s.CreditTo))
		bind.SetCreditPlan(big10(s.Credit), big10(s.Recovery))
		for _, u := range s.CreditUsers {
			bind.AddUser(DevAddr(u), t0)
		}
		if s.Sponsor >= 0 {
			bind.Sponsor(DevAddr(s.Sponsor), true)
			if s.SponsorSel {
				bind.SelectSponsor(DevAddr(s.Sponsor))
			}
		}
	}
}

func (w *World) commit(st *state.State) {
	w.ver++
	ver := trie.Version{Major: w.ver, Minor: w.minor}
	stg, err := st.Stage(ver)
	if err != nil {
		hx.Fatal("stage: %v", err)
	}
	root, err := stg.Commit()
	if err != nil {
		hx.Fatal("commit: %v", err)
	}
	w.Root = trie.Root{Hash: root, Ver: ver}
}

// ---------------------------------------------------------------- full account-trie walk

type Leaf struct {
	Key       thor.Bytes32
	Bal, Eng  *big.Int
	BT        uint64
	Rest      string // master | codehash | storageroot (hex) — everything else in the leaf
	EnergyAtT *big.Int
}

type Walk struct {
	Leaves map[thor.Bytes32]*Leaf
	SumBal *big.Int
	SumEng *big.Int // at the block time T
}

func (w *World) WalkAt(root trie.Root, T, stop uint64) *Walk {
	tr := w.DB.NewTrie(muxdb.AccountTrieName, root)
	it := tr.NodeIterator(nil, 0)
	res := &Walk{Leaves: map[thor.Bytes32]*Leaf{}, SumBal: new(big.Int), SumEng: new(big.Int)}
	for it.Next(true) {
		leaf := it.Leaf()
		if leaf == nil {
			continue
		}
		var acc state.Account
		if err := rlp.DecodeBytes(leaf.Value, &acc); err != nil {
			hx.Fatal("account leaf: %v", err)
		}
		k := thor.BytesToBytes32(it.LeafKey())
		l := &Leaf{Key: k, Bal: acc.Balance, Eng: acc.Energy, BT: acc.BlockTime,
			Rest: hex.EncodeToString(acc.Master) + "|" + hex.EncodeToString(acc.CodeHash) + "|" + hex.EncodeToString(acc.StorageRoot)}
		l.EnergyAtT = acc.CalcEnergy(T, stop)
		res.Leaves[k] = l
		res.SumBal.Add(res.SumBal, l.Bal)
		res.SumEng.Add(res.SumEng, l.EnergyAtT)
	}
	if err := it.Error(); err != nil {
		hx.Fatal("trie walk: %v", err)
	}
	return res
}

// ---------------------------------------------------------------- tracer (public vm.Logger hooks only)

type ClauseObs struct {
	GasIn   uint64 // CaptureClauseStart
	Rest    uint64 // CaptureClauseEnd (after the refund was applied)
	RawUsed uint64 // CaptureEnd gasUsed of the top frame
	Refund  uint64 // StateDB refund counter at CaptureEnd
	Err     bool
	ErrText string
	Ended   bool
}

type Suicide struct{ Contract, To thor.Address }

type tracer struct {
	w        *World
	clauses  []*ClauseObs
	cur      *ClauseObs
	env      *vm.EVM
	suicides []Suicide
}

func (t *tracer) CaptureClauseStart(gasLimit uint64) {
	t.cur = &ClauseObs{GasIn: gasLimit}
	t.clauses = append(t.clauses, t.cur)
}
func (t *tracer) CaptureClauseEnd(restGas uint64) {
	if t.cur != nil {
		t.cur.Rest = restGas
	}
}
func (t *tracer) CaptureStart(env *vm.EVM, from common.Address, to common.Address, create bool, input []byte, gas uint64, value *big.Int) {
	t.env = env
	t.w.Know(thor.Address(to))
	t.w.Know(thor.Address(from))
}
func (t *tracer) CaptureEnd(output []byte, gasUsed uint64, err error) {
	if t.cur != nil {
		t.cur.RawUsed = gasUsed
		t.cur.Err = err != nil
		if err != nil {
			t.cur.ErrText = err.Error()
		}
		if t.env != nil {
			t.cur.Refund = t.env.StateDB.GetRefund()
		}
		t.cur.Ended = true
	}
}
func (t *tracer) CaptureEnter(typ vm.OpCode, from common.Address, to common.Address, input []byte, gas uint64, value *big.Int) {
	t.w.Know(thor.Address(to))
	t.w.Know(thor.Address(from))
	if typ == vm.SELFDESTRUCT {
		t.suicides = append(t.suicides, Suicide{thor.Address(from), thor.Address(to)})
	}
}
func (t *tracer) CaptureExit(output []byte, gasUsed uint64, err error) {}
func (t *tracer) CaptureState(pc uint64, op vm.OpCode, gas, cost uint64, memory *vm.Memory, stack *vm.Stack, contract *vm.Contract, rData []byte, depth int, err error) {
}
func (t *tracer) CaptureFault(pc uint64, op vm.OpCode, gas, cost uint64, memory *vm.Memory, stack *vm.Stack, contract *vm.Contract, depth int, err error) {
}

// ---------------------------------------------------------------- building the transaction

func (w *World) BuildTx(s *TxSpec) *tx.Transaction {
	typ := tx.TypeLegacy
	if s.Dynamic {
		typ = tx.TypeDynamicFee
	}
	exp, tag := uint32(math.MaxUint32), w.Repo.ChainTag()
	if s.Exp > 0 {
		exp = s.Exp
	}
	if s.BadChainTag {
		tag ^= 0x55
	}
	b := tx.NewBuilder(typ).ChainTag(tag).Gas(s.Gas).Nonce(s.Nonce).Expiration(exp)
	switch {
	case s.Dep > 0 && s.Dep <= len(w.TxIDs):
		id := w.TxIDs[s.Dep-1]
		b.DependsOn(&id)
	case s.Dep != 0:
		id := thor.Blake2b([]byte{byte(s.Nonce), byte(s.Nonce >> 8), 0xdd})
		b.DependsOn(&id)
	}
	if s.Dynamic {
		b.MaxFeePerGas(big10(s.MaxFee)).MaxPriorityFeePerGas(big10(s.MaxPrio))
	} else {
		b.GasPriceCoef(s.Coef)
	}
	switch s.RefKind {
	case 1:
		b.BlockRef(tx.NewBlockRefFromID(w.Genesis))
	case 2:
		b.BlockRef(tx.NewBlockRef(1))
	default:
		b.BlockRef(tx.NewBlockRef(0))
	}
	if s.FutureRef > 0 {
		b.BlockRef(tx.NewBlockRef(s.FutureRef))
	}
	for _, c := range s.Clauses {
		var to *thor.Address
		if c.To != "" {
			a := parseAddr(c.To)
			to = &a
			w.Know(a)
		}
		data, err := hex.DecodeString(c.Data)
		if err != nil {
			hx.Fatal("bad data hex")
		}
		b.Clause(tx.NewClause(to).WithValue(big10(c.Value)).WithData(data))
	}
	if s.Delegator >= 0 {
		var f tx.Features
		f.SetDelegated(true)
		b.Features(f)
	}
	t := b.Build()
	if s.Delegator >= 0 {
		t = tx.MustSignDelegated(t, DevKey(s.Origin), DevKey(s.Delegator))
	} else {
		t = tx.MustSign(t, DevKey(s.Origin))
	}
	if s.BadSig {
		sig := append([]byte{}, t.Signature()...)
		sig[64] = 9 // invalid recovery id
		t = t.WithSignature(sig)
	}
	return t
}

// ---------------------------------------------------------------- one observed execution

type Obs struct {
	Spec      *TxSpec
	Tx        *tx.Transaction
	T, Stop   uint64
	Number    uint32
	BaseFee   *big.Int // nil before GALACTICA
	Benef     thor.Address
	BGP       *big.Int
	Ratio     *big.Int
	Origin    thor.Address
	SigOK     bool
	Delegator *thor.Address
	DelegOK   bool
	PWCtx     *big.Int
	PWFin     *big.Int
	CtxErr    bool
	Credit    *big.Int
	SponsorA  thor.Address
	IsSponsor bool
	IsUser    bool
	CommonTo  *thor.Address
	Intrinsic uint64
	IntrErr   bool

	Pre, Post   *Walk
	PreRoot     thor.Bytes32
	PostRoot    thor.Bytes32 // state exactly as the runtime left it
	BurnedPre   *big.Int     // energy.TotalBurned = totalSub - totalAdd
	BurnedPost  *big.Int
	Receipt     *tx.Receipt
	Err         error
	Panic       string
	Clauses     []*ClauseObs
	Suicides    []Suicide
	CreditAfter *big.Int
	Views       []thor.Address // addresses reported by the model for this tx
	setup       *Setup
	preRoot     trie.Root
	GasLimit    uint64
	Skipped     bool
	AdoptRevertChanged bool // after checkpoint / failed ExecuteTransaction / RevertTo (packer Adopt) the state root differs
}

func (w *World) blockCtx() (*xenv.BlockContext, uint64) {
	if w.Ctx != nil {
		c := *w.Ctx
		return &c, math.MaxUint64
	}
	s := w.Setup
	ctx := &xenv.BlockContext{Beneficiary: parseAddr(s.Benef), Number: s.Number, Time: w.GenTime + s.TimeDelta, GasLimit: s.GasLimit}
	if s.Number >= s.Galactica {
		ctx.BaseFee = big10(s.BaseFee)
	}
	return ctx, math.MaxUint64
}

// Exec runs one transaction on the current world state and advances the world to the state the runtime left behind.
func (w *World) Exec(spec *TxSpec) *Obs {
	o := w.Prepare(spec, w.BuildTx(spec))
	w.Run(o)
	return o
}

// Prepare gathers the model's inputs that are hashes / signatures / database reads on the current state (no execution).
func (w *World) Prepare(spec *TxSpec, trx *tx.Transaction) *Obs {
	ctx, stop := w.blockCtx()
	o := &Obs{setup: w.Setup, Spec: spec, T: ctx.Time, Stop: stop, Number: ctx.Number, BaseFee: ctx.BaseFee, Benef: ctx.Beneficiary, GasLimit: ctx.GasLimit}
	o.Tx = trx
	ch := w.Repo.NewChain(w.head())
	st := state.New(w.DB, w.Root)
	// inputs of the model that are hashes / signatures / database reads (computed by the real code)
	var err error
	if o.Origin, err = trx.Origin(); err == nil {
		o.SigOK = true
		w.Know(o.Origin)
	}
	if d, err := trx.Delegator(); err == nil { // independent of the origin's recovery (Flow.Adopt checks it on its own)
		o.DelegOK = true
		if d != nil && o.SigOK {
			o.Delegator = d
			w.Know(*d)
		}
	}
	if ig, err := trx.IntrinsicGas(); err == nil {
		o.Intrinsic = ig
	} else {
		o.IntrErr = true
	}
	o.BGP, _ = builtin.Params.Native(st).Get(thor.KeyLegacyTxBaseGasPrice)
	o.Ratio, _ = builtin.Params.Native(st).Get(thor.KeyRewardRatio)
	o.PWCtx, o.PWFin = new(big.Int), new(big.Int)
	if o.SigOK {
		if pw, err := trx.ProvedWork(ctx.Number, ch.GetBlockID); err != nil {
			o.CtxErr = true
		} else {
			o.PWCtx = pw
		}
		if pw, err := trx.ProvedWork(ctx.Number-1, ch.GetBlockID); err == nil {
			o.PWFin = pw
		}
	}
	o.Credit = new(big.Int)
	if o.SigOK {
		if rs, err := runtime.ResolveTransaction(trx); err == nil {
			if ct := rs.CommonTo(); ct != nil {
				o.CommonTo = ct
				bind := builtin.Prototype.Native(st).Bind(*ct)
				o.Credit, _ = bind.UserCredit(o.Origin, ctx.Time)
				o.SponsorA, _ = bind.CurrentSponsor()
				o.IsSponsor, _ = bind.IsSponsor(o.SponsorA)
				o.IsUser, _ = bind.IsUser(o.Origin)
				w.Know(o.SponsorA)
			}
		}
	}
	o.BurnedPre, _ = builtin.Energy.Native(st, ctx.Time).TotalBurned()
	o.PreRoot = w.Root.Hash
	o.preRoot = w.Root
	return o
}

// Skip: the transaction is not executed (rejected by the flow before execution); the observation is "nothing happened".
func (w *World) Skip(o *Obs) {
	o.Stop = w.stopTime(w.Root, o.T)
	o.Pre = w.WalkAt(o.preRoot, o.T, o.Stop)
	o.Post, o.PostRoot, o.BurnedPost = o.Pre, o.PreRoot, o.BurnedPre
	o.Skipped = true
}

// Run executes the prepared transaction on the current world state and advances the world to the state the runtime left behind.
func (w *World) Run(o *Obs) {
	ctx, _ := w.blockCtx()
	spec, trx, preRoot := o.Spec, o.Tx, o.preRoot
	ch := w.Repo.NewChain(w.head())
	// the real thing (fresh state object so the reads of Prepare cannot interfere)
	st := state.New(w.DB, w.Root)
	tr := &tracer{w: w}
	rt := runtime.New(ch, st, ctx, w.Fork)
	rt.SetVMConfig(vm.Config{Tracer: tr})
	func() {
		defer func() {
			if r := recover(); r != nil {
				o.Panic = fmt.Sprint(r)
			}
		}()
		o.Receipt, o.Err = rt.ExecuteTransaction(trx)
	}()
	o.Clauses, o.Suicides = tr.clauses, tr.suicides
	if o.Receipt != nil {
		for _, out := range o.Receipt.Outputs {
			for _, tf := range out.Transfers {
				w.Know(tf.Sender)
				w.Know(tf.Recipient)
			}
			for _, ev := range out.Events {
				w.Know(ev.Address)
				for _, tp := range ev.Topics {
					w.Know(thor.BytesToAddress(tp[12:]))
				}
			}
		}
	}
	for ci := range spec.Clauses {
		for k := uint32(0); k < 4; k++ {
			w.Know(thor.CreateContractAddress(trx.ID(), uint32(ci), k))
		}
	}
	if o.Err != nil || o.Panic != "" {
		if failed, before, after := w.ExecWithAdoptRevert(spec); failed && before != after {
			o.AdoptRevertChanged = true
		}
	}
	w.commit(st)
	o.PostRoot = w.Root.Hash
	stop := w.stopTime(w.Root, ctx.Time) // at the HAYABUSA block runtime.New stops the growth at T: same energy at T either way
	o.Stop = stop
	o.Pre = w.WalkAt(preRoot, ctx.Time, stop)
	o.Post = w.WalkAt(w.Root, ctx.Time, stop)
	st2 := state.New(w.DB, w.Root)
	o.BurnedPost, _ = builtin.Energy.Native(st2, ctx.Time).TotalBurned()
	if o.CommonTo != nil && o.SigOK {
		o.CreditAfter, _ = builtin.Prototype.Native(st2).Bind(*o.CommonTo).UserCredit(o.Origin, ctx.Time)
	}
}

// RevertLikeAdopt: the packer wraps ExecuteTransaction in checkpoint / RevertTo; returns the root after doing the same.
func (w *World) ExecWithAdoptRevert(spec *TxSpec) (failed bool, rootBefore, rootAfter thor.Bytes32) {
	ctx, _ := w.blockCtx()
	st := state.New(w.DB, w.Root)
	rt := runtime.New(w.Repo.NewChain(w.head()), st, ctx, w.Fork)
	cp := st.NewCheckpoint()
	var err error
	func() {
		defer func() {
			if r := recover(); r != nil {
				err = fmt.Errorf("panic: %v", r)
			}
		}()
		_, err = rt.ExecuteTransaction(w.BuildTx(spec))
	}()
	if err == nil {
		return false, w.Root.Hash, thor.Bytes32{}
	}
	st.RevertTo(cp)
	stg, e := st.Stage(trie.Version{Major: w.ver + 1000000})
	if e != nil {
		hx.Fatal("stage: %v", e)
	}
	return true, w.Root.Hash, stg.Hash()
}

// ---------------------------------------------------------------- rendering for the oracle

func hexBig(b *big.Int) string {
	if b == nil {
		return "0"
	}
	if b.Sign() < 0 {
		return "-" + new(big.Int).Neg(b).Text(16)
	}
	return b.Text(16)
}
func addrN(a thor.Address) string { return hx.HexN(a[:]) }

var energyTransferID = func() thor.Bytes32 {
	ev, ok := builtin.Energy.ABI.EventByName("Transfer")
	if !ok {
		panic("no Transfer event")
	}
	return ev.ID()
}()

// ViewAddrs: every address the harness knows (sorted) — the model reports (balance, energy at T) for each.
func (w *World) ViewAddrs() []thor.Address {
	l := make([]thor.Address, 0, len(w.Known))
	for _, a := range w.Known {
		l = append(l, a)
	}
	sort.Slice(l, func(i, j int) bool { return string(l[i][:]) < string(l[j][:]) })
	return l
}

// clauseOps renders the ledger operations of clause i visible in the receipt (transfers, energy Transfer events); a
// transfer / event whose sender is a contract that executed SELFDESTRUCT with itself as beneficiary is the self-destruct.
func (o *Obs) clauseOps(i int) []string {
	if o.Receipt == nil || o.Receipt.Reverted || i >= len(o.Receipt.Outputs) {
		return nil
	}
	self := map[thor.Address]bool{}
	for _, s := range o.Suicides {
		if s.Contract == s.To {
			self[s.Contract] = true
		}
	}
	var ops []string
	done := map[thor.Address]bool{}
	out := o.Receipt.Outputs[i]
	atTransfer := map[thor.Address]bool{}
	for _, tf := range out.Transfers {
		if tf.Sender == tf.Recipient && self[tf.Sender] {
			atTransfer[tf.Sender] = true
		}
	}
	for _, ev := range out.Events {
		if ev.Address == builtin.Energy.Address && len(ev.Topics) == 3 && ev.Topics[0] == energyTransferID {
			from, to := thor.BytesToAddress(ev.Topics[1][12:]), thor.BytesToAddress(ev.Topics[2][12:])
			if from == to && self[from] {
				if !done[from] && !atTransfer[from] {
					ops = append(ops, "x "+addrN(from)+" "+addrN(to))
					done[from] = true
				}
				continue
			}
			ops = append(ops, "m "+addrN(from)+" "+addrN(to)+" "+hexBig(new(big.Int).SetBytes(ev.Data)))
		}
	}
	for _, tf := range out.Transfers {
		if tf.Sender == tf.Recipient && self[tf.Sender] {
			if !done[tf.Sender] {
				ops = append(ops, "x "+addrN(tf.Sender)+" "+addrN(tf.Recipient))
				done[tf.Sender] = true
			}
			continue
		}
		ops = append(ops, "t "+addrN(tf.Sender)+" "+addrN(tf.Recipient)+" "+hexBig(tf.Amount))
	}
	return ops
}

// HasSelfDestructToSelf: some clause of an applied tx executed SELFDESTRUCT with beneficiary = the contract itself and the
// receipt shows the matching self-transfer (VET or VTHO).
func (o *Obs) HasSelfDestructToSelf() bool {
	for i := range o.Clauses {
		for _, op := range o.clauseOps(i) {
			if strings.HasPrefix(op, "x ") {
				return true
			}
		}
	}
	return false
}

func b01(b bool) string { return hx.B(b) }

func (w *World) OracleLine(o *Obs) string { return "TX |" + w.oracleSections(o) }

func (w *World) oracleSections(o *Obs) string {
	var sb strings.Builder
	s := w.Setup
	o.Views = w.ViewAddrs()
	bf := "-"
	if o.BaseFee != nil {
		bf = hexBig(o.BaseFee)
	}
	fmt.Fprintf(&sb, " %x %x %x %x %x %s %s %s %s %x |", o.T, o.Stop, o.Number, w.Fork.GALACTICA, o.GasLimit, bf, hexBig(o.BGP), hexBig(o.Ratio),
		addrN(o.Benef), thor.BlockInterval())
	_ = s
	deleg := "-"
	if o.Delegator != nil {
		deleg = addrN(*o.Delegator)
	}
	fmt.Fprintf(&sb, " %s %x %x %s %s %s %s %s %s %x %s %s %s |", b01(o.Spec.Dynamic), o.Spec.Gas, o.Spec.Coef, hexBig(o.Tx.MaxFeePerGas()),
		hexBig(o.Tx.MaxPriorityFeePerGas()), addrN(o.Origin), b01(o.SigOK), deleg, b01(o.DelegOK), o.Tx.BlockRef().Number(),
		hexBig(o.PWCtx), hexBig(o.PWFin), b01(o.CtxErr))
	for _, c := range o.Tx.Clauses() {
		to := "-"
		if c.To() != nil {
			to = addrN(*c.To())
		}
		z, nz := 0, 0
		for _, b := range c.Data() {
			if b == 0 {
				z++
			} else {
				nz++
			}
		}
		fmt.Fprintf(&sb, " %s %x %x %s", to, z, nz, hexBig(c.Value()))
	}
	fmt.Fprintf(&sb, " | %s %s %s %s |", hexBig(o.Credit), addrN(o.SponsorA), b01(o.IsSponsor), b01(o.IsUser))
	// pre-state ledger: total-add/sub are only observable as burned = sub - add: give the model add = 0, sub = burned
	fmt.Fprintf(&sb, " 0 %s", hexBig(o.BurnedPre))
	for _, a := range o.Views {
		if l, ok := o.Pre.Leaves[thor.Blake2b(a[:])]; ok {
			fmt.Fprintf(&sb, " %s %s %s %x", addrN(a), hexBig(l.Bal), hexBig(l.Eng), l.BT)
		}
	}
	sb.WriteString(" |")
	for i, c := range o.Clauses {
		if !c.Ended {
			break
		}
		if i > 0 {
			sb.WriteString(" ;")
		}
		left := c.GasIn - c.RawUsed
		fmt.Fprintf(&sb, " %x %x %s", left, c.Refund, b01(c.Err))
		for _, op := range o.clauseOps(i) {
			sb.WriteString(" " + op)
		}
	}
	sb.WriteString(" |")
	for _, a := range o.Views {
		sb.WriteString(" " + addrN(a))
	}
	return sb.String()
}

// ErrClass maps the runtime's error to the model's class (class, not text).
func (o *Obs) ErrClass() string {
	if o.Panic != "" {
		return "panic"
	}
	if o.Err == nil {
		return ""
	}
	e := o.Err.Error()
	switch {
	case !o.SigOK:
		return "origin"
	case strings.Contains(e, "intrinsic gas exceeds provided gas"):
		return "gas-below-intrinsic"
	case strings.Contains(e, "intrinsic gas overflow"):
		return "intrinsic-overflow"
	case o.SigOK && !o.DelegOK:
		return "delegator"
	case strings.Contains(e, "negative value"):
		return "negative-value"
	case strings.Contains(e, "tx value too large"):
		return "value-too-large"
	case strings.Contains(e, "ee per gas") || strings.Contains(e, "maxFeePerGas"):
		return "fee-field"
	case strings.Contains(e, "exceeds block gas limit"):
		return "block-gas-limit"
	case strings.Contains(e, "less than block base fee"):
		return "price-below-basefee"
	case strings.Contains(e, "insufficient energy"):
		return "insufficient-energy"
	case o.CtxErr:
		return "context"
	}
	return "other:" + e
}

// ---------------------------------------------------------------- parsed model answer

type Answer struct {
	Failed   bool
	Err      string
	GasUsed  *big.Int
	Paid     *big.Int
	Reward   *big.Int
	Reverted bool
	NOut     int
	Payer    string
	Price    *big.Int
	Credit   string
	Log      [][3]*big.Int
	Views    map[thor.Address][2]*big.Int
	Burned   *big.Int // tsub - tadd
	FlowUsed *big.Int // AD lines: the flow's gas used after this adoption
	Raw      string
}

func bigHex(s string) *big.Int {
	neg := strings.HasPrefix(s, "-")
	b, ok := new(big.Int).SetString(strings.TrimPrefix(s, "-"), 16)
	if !ok {
		hx.Fatal("bad hex from oracle: %q", s)
	}
	if neg {
		b.Neg(b)
	}
	return b
}

func (o *Obs) ParseAnswer(ans string) *Answer {
	a := &Answer{Raw: ans, Views: map[thor.Address][2]*big.Int{}}
	if strings.HasPrefix(ans, "ERR") {
		hx.Fatal("oracle: %s", ans)
	}
	secs := strings.Split(ans, "|")
	head := strings.Fields(secs[0])
	var views, tail []string
	if head[0] == "F" || head[0] == "R" {
		a.Failed, a.Err = true, head[1]
		views, tail = strings.Fields(secs[1]), strings.Fields(secs[2])
	} else {
		a.GasUsed, a.Paid, a.Reward = bigHex(head[1]), bigHex(head[2]), bigHex(head[3])
		a.Reverted = head[4] == "1"
		fmt.Sscanf(head[5], "%d", &a.NOut)
		a.Payer, a.Price, a.Credit = head[6], bigHex(head[7]), head[8]
		lg := strings.Fields(secs[1])
		for i := 0; i+2 < len(lg); i += 3 {
			a.Log = append(a.Log, [3]*big.Int{bigHex(lg[i]), bigHex(lg[i+1]), bigHex(lg[i+2])})
		}
		views, tail = strings.Fields(secs[2]), strings.Fields(secs[3])
		if head[0] == "A" && len(secs) > 4 {
			a.FlowUsed = bigHex(strings.TrimSpace(secs[4]))
		}
	}
	addrs := o.Views
	if len(views) != 2*len(addrs) {
		hx.Fatal("oracle answered %d view numbers for %d addresses", len(views), len(addrs))
	}
	for i, ad := range addrs {
		a.Views[ad] = [2]*big.Int{bigHex(views[2*i]), bigHex(views[2*i+1])}
	}
	a.Burned = new(big.Int).Sub(bigHex(tail[1]), bigHex(tail[0]))
	return a
}

// ---------------------------------------------------------------- generation

func dec(x uint64) string { return new(big.Int).SetUint64(x).String() }

var e18 = new(big.Int).Exp(big.NewInt(10), big.NewInt(18), nil)

func vet(r *hx.Rand) string {
	switch r.Intn(5) {
	case 0:
		return "0"
	case 1:
		return dec(uint64(1 + r.Intn(1000)))
	case 2:
		return new(big.Int).Mul(big.NewInt(int64(1+r.Intn(5000))), e18).String()
	default:
		return new(big.Int).Mul(big.NewInt(int64(1+r.Intn(1000))), big.NewInt(1e15)).String()
	}
}

func GenSetup(r *hx.Rand) Setup {
	s := Setup{Galactica: 5, GasLimit: 10_000_000, PoorOrigin: -1, Sponsor: -1, Balances: map[string]string{}, Energies: map[string]string{}}
	switch r.Intn(5) {
	case 0, 1:
		s.Number = uint32(1 + r.Intn(4)) // before GALACTICA
	case 2:
		s.Number = 5
	default:
		s.Number = uint32(6 + r.Intn(20))
	}
	if r.Chance(1, 12) {
		s.Number = uint32(40 + r.Intn(100)) // beyond MaxTxWorkDelay
	}
	s.TimeDelta = uint64(10 * (1 + r.Intn(100000)))
	if r.Chance(1, 12) {
		s.GasLimit = uint64(21000 + r.Intn(200000))
	}
	s.BaseFee = new(big.Int).Add(big.NewInt(thor.InitialBaseFee), new(big.Int).Mul(big.NewInt(int64(r.Intn(1000))), big.NewInt(1e10))).String()
	if r.Chance(1, 4) {
		s.BaseFee = dec(thor.InitialBaseFee)
	}
	switch r.Intn(4) {
	case 0:
		s.Benef = AddrHex(DevAddr(r.Intn(10))) // may coincide with origin / payer
	case 1:
		s.Benef = AddrHex(ContractAddrs()[r.Intn(len(ContractAddrs()))])
	default:
		s.Benef = hx.Hex(r.Bytes(20))
	}
	for _, a := range ContractAddrs() {
		if r.Chance(1, 2) {
			s.Balances[AddrHex(a)] = vet(r)
		}
		if r.Chance(1, 2) {
			s.Energies[AddrHex(a)] = vet(r)
		}
	}
	if r.Chance(1, 6) {
		s.PoorOrigin = r.Intn(4)
		s.PoorEnergy = new(big.Int).Mul(big.NewInt(int64(r.Intn(3000))), big.NewInt(1e14)).String()
	}
	if r.Chance(1, 2) {
		cs := []thor.Address{AddrStore, AddrStore2, AddrForward, AddrRevert, AddrSelfDestructTo, AddrPlain}
		s.CreditTo = AddrHex(cs[r.Intn(len(cs))])
		s.Credit = new(big.Int).Mul(big.NewInt(int64(r.Intn(4000))), big.NewInt(1e15)).String()
		if r.Chance(2, 3) {
			s.Credit = new(big.Int).Mul(big.NewInt(int64(1+r.Intn(5000))), e18).String()
		}
		s.Recovery = dec(uint64(r.Intn(1_000_000_000)))
		for i := 0; i < 4; i++ {
			if r.Chance(2, 3) {
				s.CreditUsers = append(s.CreditUsers, i)
			}
		}
		if r.Chance(1, 2) {
			s.Sponsor = 4 + r.Intn(3)
			s.SponsorSel = r.Chance(3, 4)
			if r.Chance(1, 3) {
				// a sponsor that cannot (always) afford the prepayment: the contract or the origin pays instead
				s.SponsorEnergy = new(big.Int).Mul(big.NewInt(int64(r.Intn(400))), big.NewInt(1e16)).String()
			}
		}
		if r.Chance(3, 4) {
			s.Energies[s.CreditTo] = new(big.Int).Mul(big.NewInt(int64(1+r.Intn(5000))), e18).String()
		}
	}
	return s
}

func energyTransferData(to thor.Address, amt *big.Int) string {
	m, _ := builtin.Energy.ABI.MethodByName("transfer")
	d, err := m.EncodeInput(to, amt)
	if err != nil {
		hx.Fatal("abi: %v", err)
	}
	return hex.EncodeToString(d)
}

func anyTarget(r *hx.Rand) thor.Address {
	if r.Chance(1, 3) {
		return DevAddr(r.Intn(10))
	}
	if r.Chance(3, 4) {
		ok := []thor.Address{AddrSelfDestructTo, AddrStore, AddrStore2, AddrForward, AddrForwardStrict, AddrPlain, AddrSelfDestructSelf}
		return ok[r.Intn(len(ok))]
	}
	cs := ContractAddrs()
	return cs[r.Intn(len(cs))]
}

func GenClause(r *hx.Rand, s *Setup, mild bool, origin int) ClauseSpec {
	val := "0"
	if r.Chance(1, 2) {
		val = vet(r)
	}
	kind := r.Intn(12)
	if mild && kind == 9 {
		kind = 8
	}
	if s.PoS && r.Chance(1, 4) {
		return stakerClause(r)
	}
	switch kind {
	case 0: // plain transfer
		if r.Chance(1, 5) {
			return ClauseSpec{To: s.Benef, Value: val}
		}
		return ClauseSpec{To: AddrHex(anyTarget(r)), Value: val}
	case 1: // creation
		return ClauseSpec{To: "", Value: val, Data: InitCodes[r.Intn(len(InitCodes))]}
	case 2: // energy builtin: transfer
		amt := new(big.Int).Mul(big.NewInt(int64(r.Intn(2000))), big.NewInt(1e16))
		return ClauseSpec{To: AddrHex(builtin.Energy.Address), Value: "0", Data: energyTransferData(anyTarget(r), amt)}
	case 3: // nested: forwarder -> target (value forwarded)
		f := []thor.Address{AddrForward, AddrForwardStrict}[r.Intn(2)]
		return ClauseSpec{To: AddrHex(f), Value: val, Data: Word(anyTarget(r))}
	case 4: // nested twice: forwarder -> forwarder -> target
		f := []thor.Address{AddrForward, AddrForwardStrict}[r.Intn(2)]
		g := []thor.Address{AddrForward, AddrForwardStrict}[r.Intn(2)]
		return ClauseSpec{To: AddrHex(f), Value: val, Data: Word(g) + Word(anyTarget(r))}
	case 5: // contract spends its own energy through the builtin
		amt := new(big.Int).Mul(big.NewInt(int64(r.Intn(200))), big.NewInt(1e15))
		return ClauseSpec{To: AddrHex(AddrForward), Value: "0", Data: Word(builtin.Energy.Address) + energyTransferData(anyTarget(r), amt)}
	case 6: // self-destruct to a chosen beneficiary (sometimes itself, sometimes the block beneficiary)
		b := anyTarget(r)
		switch r.Intn(8) {
		case 0, 1:
			b = parseAddr(s.Benef) // touched in this block (earlier rewards)
		case 2, 3:
			b = DevAddr(origin) // touched in this block when it pays its own gas
		case 4:
			b = thor.BytesToAddress(r.Bytes(20)) // brand-new, no VET
		}
		switch r.Intn(6) {
		case 0: // the self-destruct happens inside a frame that reverts afterwards; the outer frame swallows the failure
			return ClauseSpec{To: AddrHex(AddrForward), Value: val, Data: Word(AddrCallThenRevert) + Word(AddrSelfDestructTo) + Word(b)}
		case 1: // ... or the clause itself fails
			return ClauseSpec{To: AddrHex(AddrCallThenRevert), Value: val, Data: Word(AddrSelfDestructTo) + Word(b)}
		case 2: // selfdestruct(msg.sender) called directly by the origin
			return ClauseSpec{To: AddrHex(AddrSelfDestructCaller), Value: val}
		}
		if r.Chance(1, 5) {
			b = AddrSelfDestructTo
		}
		if r.Chance(1, 2) {
			return ClauseSpec{To: AddrHex(AddrForward), Value: val, Data: Word(AddrSelfDestructTo) + Word(b)}
		}
		return ClauseSpec{To: AddrHex(AddrSelfDestructTo), Value: val, Data: Word(b)}
	case 7:
		if r.Chance(1, 3) {
			return ClauseSpec{To: AddrHex(AddrSelfDestructSelf), Value: val}
		}
		return ClauseSpec{To: AddrHex(AddrStore), Value: "0"}
	case 8:
		return ClauseSpec{To: AddrHex([]thor.Address{AddrStore, AddrStore2}[r.Intn(2)]), Value: "0", Data: hex.EncodeToString(r.Bytes(r.Intn(40)))}
	case 9:
		return ClauseSpec{To: AddrHex([]thor.Address{AddrRevert, AddrLoop, AddrInvalid}[r.Intn(3)]), Value: val}
	default:
		if s.CreditTo != "" {
			return ClauseSpec{To: s.CreditTo, Value: "0", Data: Word(anyTarget(r))}
		}
		return ClauseSpec{To: AddrHex(anyTarget(r)), Value: val, Data: hex.EncodeToString(r.Bytes(r.Intn(70)))}
	}
}

func GenTx(r *hx.Rand, s *Setup, w *World) TxSpec {
	t := TxSpec{Origin: r.Intn(4), Delegator: -1, Nonce: r.Uint64()}
	if s.PoorOrigin >= 0 && r.Chance(2, 3) {
		t.Origin = s.PoorOrigin
	}
	post := s.Number >= s.Galactica
	t.Dynamic = post && r.Chance(1, 2)
	if !post && r.Chance(1, 40) {
		t.Dynamic = true // typed tx before the fork: the runtime panics on the nil base fee (consensus/packer reject it earlier)
	}
	n := []int{0, 1, 1, 1, 2, 2, 3, 3, 4, 6}[r.Intn(10)]
	sameTo := s.CreditTo != "" && r.Chance(1, 2)
	if sameTo && r.Chance(3, 4) && len(s.CreditUsers) > 0 {
		t.Origin = s.CreditUsers[r.Intn(len(s.CreditUsers))]
	}
	mild := r.Chance(1, 2)
	for i := 0; i < n; i++ {
		c := GenClause(r, s, mild, t.Origin)
		if sameTo {
			c.To = s.CreditTo
			if r.Chance(1, 2) {
				c.Value = "0"
			}
		}
		t.Clauses = append(t.Clauses, c)
	}
	t.Coef = uint8(r.Intn(256))
	bf := big10(s.BaseFee)
	switch r.Intn(6) {
	case 0:
		t.MaxFee = bf.String()
		t.MaxPrio = "0"
	case 1:
		t.MaxFee = new(big.Int).Sub(bf, big.NewInt(int64(1+r.Intn(1000)))).String() // below the base fee
		t.MaxPrio = "0"
	case 2:
		t.MaxFee = new(big.Int).Mul(bf, big.NewInt(int64(1+r.Intn(5)))).String()
		t.MaxPrio = t.MaxFee
	case 3:
		t.MaxFee = new(big.Int).Add(bf, big.NewInt(int64(r.Intn(1e9)))).String()
		t.MaxPrio = dec(uint64(r.Intn(2e9)))
	default:
		t.MaxFee = new(big.Int).Mul(bf, big.NewInt(int64(2+r.Intn(100)))).String()
		t.MaxPrio = new(big.Int).Mul(big.NewInt(int64(r.Intn(1000))), big.NewInt(1e10)).String()
	}
	if r.Chance(1, 50) {
		t.MaxPrio = new(big.Int).Add(big10(t.MaxFee), big.NewInt(1)).String() // fee-field error
	}
	if r.Chance(1, 4) {
		t.Delegator = 4 + r.Intn(4)
	}
	t.RefKind = []int{0, 0, 0, 1, 1, 1, 1, 2}[r.Intn(8)]
	t.BadSig = r.Chance(1, 60)
	// gas: from the intrinsic gas upward (and a little below)
	probe := t
	probe.Gas = 1
	ig, err := w.BuildTx(&probe).IntrinsicGas()
	if err != nil {
		ig = 21000
	}
	switch r.Intn(16) {
	case 0:
		t.Gas = ig
	case 1, 2:
		t.Gas = ig + uint64(r.Intn(3000))
	case 3:
		t.Gas = ig - uint64(1+r.Intn(100))
	case 4:
		t.Gas = s.GasLimit + uint64(r.Intn(2)) // at / over the block limit
	default:
		t.Gas = ig + uint64(r.Intn(400000))
	}
	if t.RefKind == 1 && !t.Dynamic && r.Chance(1, 2) {
		// search a nonce with some proved work (hash, computed by the real code)
		best, bestW := t.Nonce, new(big.Int)
		probe = t
		trx := w.BuildTx(&probe)
		eval := trx.EvaluateWork(DevAddr(t.Origin))
		for i := 0; i < 3000; i++ {
			nn := r.Uint64()
			if wk := eval(nn); wk.Cmp(bestW) > 0 {
				best, bestW = nn, wk
			}
		}
		t.Nonce = best
	}
	return t
}

// GenSetupPoS: the same generated state on top of a chain where HAYABUSA is active (energy growth stopped at block 2) and
// PoS has taken over; GALACTICA before / at / after the HAYABUSA height or never.
func GenSetupPoS(r *hx.Rand) Setup {
	s := GenSetup(r)
	s.PoS = true
	s.Galactica = []uint32{1, 2, 3, 5, 1000}[r.Intn(5)]
	s.Number = uint32(6 + r.Intn(25))
	s.TimeDelta = uint64(60 + 10*r.Intn(100000))
	s.GasLimit = 40_000_000
	return s
}

func GenCase(r *hx.Rand) *Case {
	c := &Case{Setup: GenSetup(r)}
	if r.Chance(1, 6) {
		c.Setup = GenSetupPoS(r)
	}
	w := NewWorld(&c.Setup)
	defer w.Close()
	n := 1 + r.Intn(4)
	for i := 0; i < n; i++ {
		c.Txs = append(c.Txs, GenTx(r, &c.Setup, w))
	}
	return c
}
