package txsim

import (
	"encoding/json"
	"fmt"
	"os"
	"path/filepath"
	"sort"

	"verif/harness/internal/hx"
)

type item struct {
	c    *Case
	k    int // tx index inside the case
	o    *Obs
	line string
}

func runCase(c *Case) []item {
	w := NewWorld(&c.Setup)
	defer w.Close()
	var items []item
	for k := range c.Txs {
		o := w.Exec(&c.Txs[k])
		items = append(items, item{c, k, o, w.OracleLine(o)})
	}
	return items
}

func prefix(c *Case, k int) *Case { return &Case{Setup: c.Setup, Txs: append([]TxSpec{}, c.Txs[:k+1]...)} }

// classes already reported (and shrunk) in this run
var reported = map[string]bool{}

func property(prop string, o *Obs) *Failure {
	if prop == "C07" {
		return o.PropertyC07()
	}
	return o.PropertyC08()
}

// evalCase re-runs a (shrunk) case; returns the first property failure, else the first model/impl disagreement.
func evalCase(ctx *hx.Ctx, prop string, c *Case) (*Failure, []Diff) {
	items := runCase(c)
	lines := make([]string, len(items))
	for i, it := range items {
		lines[i] = it.line
	}
	for _, it := range items {
		if f := property(prop, it.o); f != nil {
			return f, nil
		}
	}
	ans, err := hx.AskAll(ctx.Oracle, lines)
	if err != nil {
		hx.Fatal("oracle: %v", err)
	}
	for i, it := range items {
		if d := it.o.Correspond(it.o.ParseAnswer(ans[i]), true); len(d) > 0 {
			return nil, d
		}
	}
	return nil, nil
}

// shrink: delta-debug txs and clauses while the same kind of failure persists.
func shrink(ctx *hx.Ctx, prop string, c *Case, class string, isProp bool) *Case {
	same := func(x *Case) bool {
		f, d := evalCase(ctx, prop, x)
		if isProp {
			return f != nil && f.Class == class
		}
		return f == nil && len(d) > 0 && d[0].Field == class
	}
	cur := c
	for changed := true; changed; {
		changed = false
		for i := 0; i < len(cur.Txs)-1; i++ { // drop earlier txs
			x := &Case{Setup: cur.Setup, Txs: append(append([]TxSpec{}, cur.Txs[:i]...), cur.Txs[i+1:]...)}
			if same(x) {
				cur, changed = x, true
				break
			}
		}
		if changed {
			continue
		}
		last := len(cur.Txs) - 1
		for j := 0; j < len(cur.Txs[last].Clauses) && len(cur.Txs[last].Clauses) > 1; j++ {
			x := &Case{Setup: cur.Setup, Txs: append([]TxSpec{}, cur.Txs...)}
			t := x.Txs[last]
			t.Clauses = append(append([]ClauseSpec{}, t.Clauses[:j]...), t.Clauses[j+1:]...)
			x.Txs[last] = t
			if same(x) {
				cur, changed = x, true
				break
			}
		}
	}
	return cur
}

func describe(o *Obs) string {
	s := "legacy"
	if o.Spec.Dynamic {
		s = "dynamic"
	}
	return s
}

// RunCases executes the cases, asks the model, evaluates the property predicates and the correspondence.
func RunCases(ctx *hx.Ctx, prop string, cases []*Case) {
	if len(cases) == 0 {
		return
	}
	var items []item
	for _, c := range cases {
		items = append(items, runCase(c)...)
	}
	lines := make([]string, len(items))
	for i, it := range items {
		lines[i] = it.line
	}
	ans, err := hx.AskAll(ctx.Oracle, lines)
	if err != nil {
		hx.Fatal("oracle: %v", err)
	}
	for i, it := range items {
		o := it.o
		canon, _ := json.Marshal(prefix(it.c, it.k))
		nontrivial := o.applied() && len(o.Clauses) >= 2
		ctx.Cov.Case(string(canon), nontrivial, nil)
		cov(ctx, o)
		if f := property(prop, o); f != nil {
			// one report (and one shrink) per class per run: hx keeps the first
			if !reported[f.Class] {
				reported[f.Class] = true
				sc := shrink(ctx, prop, prefix(it.c, it.k), f.Class, true)
				ctx.Violation(f.Class, f.Summary, sc, true)
			}
			continue
		}
		a := o.ParseAnswer(ans[i])
		if d := o.Correspond(a, true); len(d) > 0 {
			// the model and the implementation disagree although the property's own predicates hold on this case:
			// look for a direct failure on shrunk variants, else report the correspondence that no longer checks
			if reported["correspondence:"+d[0].Field] {
				continue
			}
			reported["correspondence:"+d[0].Field] = true
			sc := shrink(ctx, prop, prefix(it.c, it.k), d[0].Field, false)
			if f, _ := evalCase(ctx, prop, sc); f != nil {
				ctx.Violation(f.Class, f.Summary, sc, true)
			} else {
				ctx.Violation("correspondence:"+d[0].Field, "correspondence TxExec/Ledger model ~ runtime.Runtime no longer checks (theorems of Properties/"+prop+
					".v are about the model): "+d[0].Detail, sc, false)
			}
		}
	}
}

func cov(ctx *hx.Ctx, o *Obs) {
	ctx.Cov.Count("tx=" + describe(o))
	if o.Stop != ^uint64(0) {
		ctx.Cov.Count("fork=hayabusa-active(energy-growth-stopped,pos)")
	}
	if o.BaseFee != nil {
		ctx.Cov.Count("fork=post-galactica")
	} else {
		ctx.Cov.Count("fork=pre-galactica")
	}
	ctx.Cov.Count(fmt.Sprintf("clauses=%d", len(o.Spec.Clauses)))
	switch {
	case o.Panic != "":
		ctx.Cov.Count("outcome=panic")
	case !o.applied():
		ctx.Cov.Count("outcome=not-started:" + o.ErrClass())
	case o.Receipt.Reverted:
		ctx.Cov.Count("outcome=reverted")
		ctx.Cov.Count(fmt.Sprintf("reverted-after-clauses=%d", len(o.Clauses)-1))
	default:
		ctx.Cov.Count("outcome=applied")
	}
	if o.applied() {
		p := o.Receipt.GasPayer
		switch {
		case o.Delegator != nil && p == *o.Delegator:
			ctx.Cov.Count("payer=delegator")
		case p == o.Origin:
			ctx.Cov.Count("payer=origin")
		case o.CommonTo != nil && p == *o.CommonTo:
			ctx.Cov.Count("payer=contract-credit")
		default:
			ctx.Cov.Count("payer=sponsor")
		}
		ref := false
		for _, c := range o.Clauses {
			if c.Rest > c.GasIn-c.RawUsed {
				ref = true
			}
		}
		if ref {
			ctx.Cov.Count("refund-applied")
		}
		if len(o.Suicides) > 0 {
			ctx.Cov.Count("selfdestruct-executed")
		}
		if o.HasSelfDestructToSelf() {
			ctx.Cov.Count("selfdestruct-to-self-applied")
		}
		nt, ne := 0, 0
		for _, out := range o.Receipt.Outputs {
			nt += len(out.Transfers)
			ne += len(out.Events)
		}
		ctx.Cov.Bucket("transfers", nt)
		ctx.Cov.Bucket("events", ne)
		if o.PWFin.Sign() > 0 || o.PWCtx.Sign() > 0 {
			ctx.Cov.Count("proved-work>0")
		}
	}
}

// Corpus: replay files kept under corpus/<prop>/ are run first (transaction cases and block-chain cases).
func CorpusFiles(dir string) []string {
	files, _ := filepath.Glob(filepath.Join(dir, "*.json"))
	sort.Strings(files)
	return files
}

func LoadCorpusAll(dir string) (txs []*Case, chains []*ChainCase) {
	for _, f := range CorpusFiles(dir) {
		raw, err := os.ReadFile(f)
		if err != nil {
			continue
		}
		if cc := LoadChainReplay(raw); cc != nil {
			chains = append(chains, cc)
		} else if c := LoadReplay(f); c != nil {
			txs = append(txs, c)
		}
	}
	return
}

func LoadReplay(path string) *Case {
	b, err := os.ReadFile(path)
	if err != nil {
		hx.Fatal("%v", err)
	}
	var doc struct {
		Replay *Case `json:"replay"`
	}
	if err := json.Unmarshal(b, &doc); err != nil || doc.Replay == nil || len(doc.Replay.Txs) == 0 {
		return nil
	}
	return doc.Replay
}

const Rule = "cases = fresh devnet world (custom ForkConfig, GALACTICA at block 5; block number before / at / after the fork; generated contract " +
	"balances, energies, a credit plan with users and an optional sponsor, an optional energy-poor origin) x 1-4 transactions executed in sequence; " +
	"tx = legacy or dynamic-fee, 0-6 clauses (transfers, creations, calls into generated contracts that revert / loop out of gas / hit an invalid " +
	"opcode / self-destruct to another account or to themselves / nest through forwarders / call the energy builtin / clear storage for a refund), " +
	"payer in {origin, VIP-191 delegator, sponsor, contract credit}, gas from below the intrinsic gas upward and at the block limit, block-ref with and " +
	"without proved work or with a failing lookup; evaluation = one transaction; non-trivial = applied with at least 2 clauses started; distinct = hash of setup + tx prefix"

const ChainRule = "; 1/6 of the worlds sit on the repo's integration chain at block 5 (HAYABUSA active since block 2: energy growth stopped; PoS active since block 4)" +
	"; chains = (a) the same generated state carried by block 1, then 2-5 blocks of 0-5 generated transactions (also expired, wrong chain tag, future block-ref, duplicates, " +
	"dependencies on adopted / reverted / rejected / unknown txs, gas hogs) packed by the real packer.Flow (Schedule / Adopt / Pack) across the GALACTICA height with the Adopt " +
	"differential (shadow runtime + extracted adopt_full stepped per tx); (b) 5-8 blocks from genesis on the integration chain across HAYABUSA (2), staking (3) and the PoS " +
	"take-over (4), GALACTICA at 1..6 or never, with staker calls among the transactions; block-level predicates (header gas used = sum of receipts <= limit; totals and every " +
	"leaf's funds before / after each block incl. the staking reward; growth stop; header base fee = recurrence on the parent; consensus accepts PoS blocks) evaluated on the implementation"

var Assumptions = []string{
	"what a clause does inside the EVM is observed (gas left, refund counter, VM error through the public vm tracer; transfers / energy events from the receipt), not modelled (C10)",
	"signature recovery, proved-work hash, prototype credit / sponsor lookups, params (base gas price, reward ratio) are computed by the real code and passed to the model as data",
	"typed transactions before GALACTICA (nil base fee) are outside the input domain: consensus and packer reject them before the runtime",
	"PoS worlds: Schedule itself updates the staker, so the Adopt differential runs on PoA chains only",
}
