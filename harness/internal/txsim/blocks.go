package txsim

import (
	"encoding/json"
	"fmt"
	"math/big"
	"strings"

	"github.com/vechain/thor/v2/block"
	"github.com/vechain/thor/v2/builtin"
	"github.com/vechain/thor/v2/consensus"
	"github.com/vechain/thor/v2/consensus/upgrade/galactica"
	"github.com/vechain/thor/v2/packer"
	"github.com/vechain/thor/v2/state"
	"github.com/vechain/thor/v2/test/testchain"
	"github.com/vechain/thor/v2/thor"
	"github.com/vechain/thor/v2/trie"
	"github.com/vechain/thor/v2/tx"
	"github.com/vechain/thor/v2/xenv"

	"verif/harness/internal/hx"
)

// ChainCase: a generated state carried by block 1, then blocks packed by the REAL packer.Flow (Schedule / Adopt / Pack)
// across the GALACTICA height (3).  Block-level statements of C07 / C08 are evaluated directly on headers, receipts and
// full account-trie walks before and after each block.
type ChainCase struct {
	Setup  Setup      `json:"setup"`
	Blocks [][]TxSpec `json:"blocks"`
	Chain  bool       `json:"chain"` // marks the replay kind
}

func GenChain(r *hx.Rand) *ChainCase {
	c := &ChainCase{Setup: GenSetup(r), Chain: true}
	c.Setup.Galactica, c.Setup.Number, c.Setup.GasLimit = 3, 1, 10_000_000
	if c.Setup.PoorOrigin == 0 {
		c.Setup.PoorOrigin = 1 // dev account 0 is the authority's endorsor: it must keep its VET
	}
	w := NewWorld(&c.Setup)
	defer w.Close()
	nb := 2 + r.Intn(4)
	total := 0
	for b := 0; b < nb; b++ {
		s := c.Setup
		s.Number = uint32(2 + b)
		var txs []TxSpec
		for i := r.Intn(6); i > 0; i-- {
			t := GenTx(r, &s, w)
			if t.RefKind == 1 {
				t.RefKind = 0
			}
			total++
			switch r.Intn(14) {
			case 0:
				t.Exp = uint32(1 + r.Intn(4)) // may be expired at this height
			case 1:
				t.BadChainTag = true
			case 2, 3:
				if total > 1 {
					t.Dep = 1 + r.Intn(total-1) // an earlier tx (adopted, reverted, rejected or in a previous block)
				}
			case 4:
				t.Dep = -1 // unknown dependency
			case 5:
				t.FutureRef = s.Number + uint32(r.Intn(3)) // at / after this height
			case 6:
				if len(txs) > 0 {
					t = txs[r.Intn(len(txs))] // the same tx again: known
					t.Dep = 0
				}
			case 7:
				// gas hog: burns (almost) the whole block gas limit
				t.Clauses = []ClauseSpec{{To: AddrHex(AddrLoop), Value: "0"}}
				t.Gas = s.GasLimit - uint64(r.Intn(40000))
				t.Delegator, t.BadSig, t.Dep = -1, false, 0
				if t.Dynamic {
					t.MaxFee = new(big.Int).Mul(big10(s.BaseFee), big.NewInt(3)).String()
				}
			}
			txs = append(txs, t)
		}
		c.Blocks = append(c.Blocks, txs)
	}
	return c
}

// GenChainPoS: blocks 1..N on the repo's integration chain: HAYABUSA at block 2 (growth stops there), the dev accounts stake at
// block 3 (the case's own transactions), PoS takes over at block 4 and pays the staking reward from then on; GALACTICA before /
// at / after each of these heights or never.
func GenChainPoS(r *hx.Rand) *ChainCase {
	c := &ChainCase{Setup: GenSetupPoS(r), Chain: true}
	c.Setup.Galactica = []uint32{1, 2, 3, 4, 5, 6, 1000}[r.Intn(7)]
	c.Setup.Balances, c.Setup.Energies, c.Setup.PoorOrigin, c.Setup.CreditTo, c.Setup.Sponsor = map[string]string{}, map[string]string{}, -1, "", -1
	if r.Chance(1, 2) {
		c.Setup.Benef = AddrHex(DevAddr(r.Intn(10)))
	}
	ch, fc := NewPoSChain(c.Setup.Galactica)
	s0 := c.Setup
	w := &World{DB: ch.Database(), Repo: ch.Repo(), Fork: fc, Genesis: ch.GenesisBlock().Header().ID(), Known: map[thor.Bytes32]thor.Address{}, Setup: &s0,
		closer: func() { ch.LogDB().Close() }}
	defer w.Close()
	nb := 5 + r.Intn(4)
	withDelegations := r.Chance(1, 2)
	if withDelegations {
		nb += 3
	}
	for b := 0; b < nb; b++ {
		s := c.Setup
		s.Number = uint32(1 + b)
		s.BaseFee = dec(thor.InitialBaseFee)
		var txs []TxSpec
		if s.Number == 3 {
			txs = append(txs, StakeSpecs()...)
			if withDelegations {
				txs = append(txs, DelegatorSetupSpec())
			}
		}
		if withDelegations && s.Number >= 4 {
			for i := r.Intn(3); i > 0; i-- {
				txs = append(txs, DelegationSpec(r))
			}
		}
		for i := r.Intn(5); i > 0; i-- {
			t := GenTx(r, &s, w)
			if t.RefKind != 0 {
				t.RefKind = 0
			}
			t.BadSig = false
			txs = append(txs, t)
		}
		c.Blocks = append(c.Blocks, txs)
	}
	return c
}

// RunChain returns the first block-level property failure (nil if none) and the number of blocks / txs adopted.
func RunChain(ctx *hx.Ctx, prop string, c *ChainCase, count bool, orc *hx.OracleProc) *Failure {
	cnt := func(k string, n int) {
		if count {
			ctx.Cov.Add(k, n)
		}
	}
	s := c.Setup
	var w *World
	var posChain *testchain.Chain
	benef := parseAddr(s.Benef)
	var p *packer.Packer
	signer := DevKey(0)
	if s.PoS {
		// the repo's integration chain from genesis: PoA blocks 1.., HAYABUSA at 2, validators staked by the case's own txs, PoS from 4
		var fc *thor.ForkConfig
		posChain, fc = NewPoSChain(s.Galactica)
		w = &World{DB: posChain.Database(), Repo: posChain.Repo(), Fork: fc, Genesis: posChain.GenesisBlock().Header().ID(),
			GenTime: posChain.GenesisBlock().Header().Timestamp(), Root: trie.Root{Hash: posChain.GenesisBlock().Header().StateRoot()},
			Known: map[thor.Bytes32]thor.Address{}, Setup: &s, closer: func() { posChain.LogDB().Close() }}
		w.knowBasics()
		orc = nil // Schedule itself updates the staker (SyncPOS, SetOnline): no shadow execution next to the flow in PoS worlds
	} else {
		w = NewWorld(&s)
		gen, err := w.Repo.GetBlockSummary(w.Genesis)
		if err != nil {
			hx.Fatal("%v", err)
		}
		b1 := new(block.Builder).ParentID(w.Genesis).Timestamp(gen.Header.Timestamp() + thor.BlockInterval()).GasLimit(gen.Header.GasLimit()).
			StateRoot(w.Root.Hash).TotalScore(1).Build()
		if err := w.Repo.AddBlock(b1, nil, 0, true); err != nil {
			hx.Fatal("add block 1: %v", err)
		}
		w.Fork.VIP214, w.Fork.FINALITY = ^uint32(0), ^uint32(0) // plain PoA v1 scheduling and signatures (block 1 is unsigned)
		p = packer.New(w.Repo, state.NewStater(w.DB), DevAddr(0), &benef, w.Fork, 0)
	}
	defer w.Close()
	dsOrc := dsOracle
	var lines []string
	var want []string
	var pending *Failure // first model/implementation disagreement; a direct property failure found later takes precedence
	disagree := func(f *Failure) {
		if pending == nil {
			pending = f
		}
		orc = nil
	}
	for _, specs := range c.Blocks {
		parent := w.Repo.BestBlockSummary()
		var shadowReceipts tx.Receipts
		if s.PoS {
			v, found := posChain.NextValidator()
			if !found {
				hx.Fatal("no validator can pack on top of block %d", parent.Header.Number())
			}
			signer = v.PrivateKey
			p = packer.New(w.Repo, posChain.Stater(), v.Address, &benef, w.Fork, 0)
		}
		flow, err := p.Schedule(parent, parent.Header.Timestamp()+1)
		if err != nil {
			hx.Fatal("schedule: %v", err)
		}
		adopted := 0
		// shadow execution next to the flow: same parent state, same block context, tracer attached; the extracted Adopt model
		// (adopt_full) is stepped on every transaction with the flow state (gas used, processed ids) threaded from ITS answers
		w.Root, w.Head, w.minor, w.ver = parent.Root(), parent.Header.ID(), 1, 1000*(parent.Header.Number()+1)
		w.Ctx = &xenv.BlockContext{Beneficiary: benef, Signer: DevAddr(0), Number: flow.Number(), Time: flow.When(),
			GasLimit: parent.Header.GasLimit(), TotalScore: flow.TotalScore(), BaseFee: galactica.CalcBaseFee(parent.Header, w.Fork)}
		chainView := w.Repo.NewChain(parent.Header.ID())
		modelUsed := new(big.Int)
		var modelProcessed []string
		for i := range specs {
			trx := w.BuildTx(&specs[i])
			w.TxIDs = append(w.TxIDs, trx.ID())
			o := w.Prepare(&specs[i], trx)
			err := func() (err error) {
				defer func() {
					if r := recover(); r != nil {
						err = fmt.Errorf("panic: %v", r)
					}
				}()
				return flow.Adopt(trx)
			}()
			class := adoptClass(err)
			if err == nil {
				adopted++
				w.Run(o)
			} else {
				cnt("block-tx-rejected:"+class, 1)
				w.Skip(o)
			}
			if orc == nil || class == "panic" {
				continue
			}
			// inputs of adopt_full that are lookups / hashes
			ai := []string{b01(o.SigOK && thor.IsOriginBlocked(o.Origin)), b01(o.Delegator != nil && thor.IsOriginBlocked(*o.Delegator)),
				b01(trx.TestFeatures(tx.DelegationFeature) == nil), b01(trx.ChainTag() == w.Repo.ChainTag()), fmt.Sprintf("%x", trx.Expiration()),
				hx.HexN(trx.ID().Bytes())}
			if dep := trx.DependsOn(); dep != nil {
				ai = append(ai, hx.HexN(dep.Bytes()))
				if meta, err := chainView.GetTransactionMeta(*dep); err == nil {
					ai = append(ai, "?", b01(meta.Reverted))
				} else {
					ai = append(ai, "?", "-")
				}
			} else {
				ai = append(ai, "-", "?", "-")
			}
			has, _ := chainView.HasTransaction(trx.ID(), trx.BlockRef().Number())
			ai[7] = b01(has)
			line := "AD |" + w.oracleSections(o) + fmt.Sprintf(" | %x 0 %s %s | %s", w.Fork.BLOCKLIST, modelUsed.Text(16), strings.Join(modelProcessed, " "), strings.Join(ai, " "))
			ans, aerr := orc.Ask(line)
			if aerr != nil {
				hx.Fatal("oracle: %v", aerr)
			}
			if strings.HasPrefix(ans, "ERR") {
				disagree(&Failure{"correspondence:adopt-outcome", fmt.Sprintf("block %d tx %d: impl=%s, model cannot follow: %s", flow.Number(), i, orNil(class, "adopted"), ans)})
				continue
			}
			a := o.ParseAnswer(ans)
			if a.Failed != (err != nil) || (a.Failed && a.Err != class) {
				m := "adopted"
				if a.Failed {
					m = a.Err
				}
				disagree(&Failure{"correspondence:adopt-outcome", fmt.Sprintf("block %d tx %d: packer.Flow.Adopt=%s model adopt_full=%s", flow.Number(), i, orNil(class, "adopted"), m)})
				continue
			}
			if !a.Failed {
				// the shadow run stands for the flow's own execution of this tx: receipts are compared after Pack
				if d := o.Correspond(a, true); len(d) > 0 {
					disagree(&Failure{"correspondence:adopt-" + d[0].Field, fmt.Sprintf("block %d tx %d: %s", flow.Number(), i, d[0].Detail)})
					continue
				}
				modelUsed = a.FlowUsed
				modelProcessed = append([]string{hx.HexN(trx.ID().Bytes()), b01(a.Reverted)}, modelProcessed...)
				shadowReceipts = append(shadowReceipts, o.Receipt)
			}
		}
		blk, stage, receipts, err := flow.Pack(signer, 0, false)
		if err != nil {
			hx.Fatal("pack: %v", err)
		}
		if s.PoS {
			// the packed block must pass the consensus validator (as testchain.MintBlock requires)
			if _, _, err := consensus.New(w.Repo, posChain.Stater(), w.Fork).Process(parent, blk, flow.When(), 0); err != nil {
				return &Failure{"correspondence:consensus-rejects-packed-block", fmt.Sprintf("block %d packed by packer.Flow is rejected by consensus: %v", blk.Header().Number(), err)}
			}
		}
		if _, err := stage.Commit(); err != nil {
			hx.Fatal("commit: %v", err)
		}
		if err := w.Repo.AddBlock(blk, receipts, 0, true); err != nil {
			hx.Fatal("add block: %v", err)
		}
		h := blk.Header()
		if orc != nil {
			if modelUsed.Cmp(new(big.Int).SetUint64(h.GasUsed())) != 0 {
				disagree(&Failure{"correspondence:adopt-block-gas", fmt.Sprintf("block %d: header gasUsed=%d, adopt_full fold=%s", h.Number(), h.GasUsed(), modelUsed)})
			} else if len(shadowReceipts) != len(receipts) || (len(receipts) > 0 && shadowReceipts.RootHash() != receipts.RootHash()) {
				disagree(&Failure{"correspondence:adopt-receipts", fmt.Sprintf("block %d: the flow's receipts differ from the shadow execution the model was checked against", h.Number())})
			} else if adopted > 0 && w.Root.Hash != h.StateRoot() {
				disagree(&Failure{"correspondence:adopt-state-root", fmt.Sprintf("block %d: packed state root differs from the shadow execution's", h.Number())})
			}
		}
		cnt("blocks-packed", 1)
		cnt("block-txs-adopted", adopted)
		T := h.Timestamp()
		postRoot := trie.Root{Hash: h.StateRoot(), Ver: trie.Version{Major: h.Number()}}
		stop := w.stopTime(postRoot, T) // growth stops AT the HAYABUSA block's time: energy at T is the same with either stop time
		pre := w.WalkAt(parent.Root(), T, stop)
		post := w.WalkAt(postRoot, T, stop)
		if stop != ^uint64(0) {
			cnt("blocks-with-energy-growth-stopped", 1)
		}
		if stop <= T {
			// growth has stopped: the same state evaluated much later holds the same total VTHO
			if later := w.WalkAt(postRoot, T+8640000, stop); later.SumEng.Cmp(post.SumEng) != 0 {
				return &Failure{"energy-grows-after-hayabusa", fmt.Sprintf("block %d: total VTHO of the same state is %s at the block time and %s 100 days later although growth stopped at %d",
					h.Number(), post.SumEng, later.SumEng, stop)}
			}
		}
		benef := h.Beneficiary() // a validator may have set its own beneficiary in the staker contract
		// staking reward (PoS active): energy.DistributeRewards issues CalculateRewards(staker) to the beneficiary (and the
		// delegator contract); the split is the Ledger model's `distribute`
		staking := new(big.Int)
		extra := map[thor.Address]*big.Int{}
		if s.PoS {
			postSt := state.New(w.DB, postRoot)
			stk := builtin.Staker.Native(postSt)
			if active, _ := stk.IsPoSActive(); active {
				cnt("blocks-pos-active", 1)
				eng := builtin.Energy.Native(postSt, T)
				if staking, err = eng.CalculateRewards(stk); err != nil {
					hx.Fatal("calculate rewards: %v", err)
				}
				sig, _ := h.Signer()
				hasDeleg, _ := stk.HasDelegations(sig)
				if hasDeleg {
					cnt("blocks-with-delegator-split", 1)
				}
				perc, _ := builtin.Params.Native(postSt).Get(thor.KeyValidatorRewardPercentage)
				dv, _ := builtin.Params.Native(postSt).Get(thor.KeyDelegatorContractAddress)
				deleg := thor.BytesToAddress(dv.Bytes())
				ans, aerr := dsOrc(ctx, fmt.Sprintf("DS %x %x %s %s %s %s %s", T, stop, addrN(benef), addrN(deleg), hexBig(staking), hexBig(perc), b01(hasDeleg)))
				if aerr != nil {
					hx.Fatal("oracle: %v", aerr)
				}
				f := strings.Fields(ans) // benefShare delegShare issued
				if len(f) != 3 {
					hx.Fatal("oracle DS answer: %q", ans)
				}
				extra[benef] = bigHex(f[0])
				if deleg != benef {
					extra[deleg] = bigHex(f[1])
				}
				// the issued counter: total supply (grown initial supply + issued) moves by exactly the reward
				preSup, _ := builtin.Energy.Native(state.New(w.DB, parent.Root()), T).TotalSupply()
				postSup, _ := eng.TotalSupply()
				if d := new(big.Int).Sub(postSup, preSup); stop <= parent.Header.Timestamp() && d.Cmp(staking) != 0 {
					return &Failure{"issued-not-staking-reward", fmt.Sprintf("block %d: energy total supply moved by %s, staking reward is %s", h.Number(), d, staking)}
				}
			}
		}
		// C07: block gas used = sum of receipts <= limit; every receipt within its tx's bounds
		var sumGas uint64
		sumPaid, sumReward := new(big.Int), new(big.Int)
		selfDestructSelf := false
		txs := blk.Transactions()
		if len(txs) != len(receipts) {
			return &Failure{"block-receipts-count", "receipts != transactions"}
		}
		for i, rc := range receipts {
			sumGas += rc.GasUsed
			sumPaid.Add(sumPaid, rc.Paid)
			sumReward.Add(sumReward, rc.Reward)
			ig, _ := txs[i].IntrinsicGas()
			if rc.GasUsed < ig || rc.GasUsed > txs[i].Gas() {
				return &Failure{"gas-used-out-of-bounds", fmt.Sprintf("block %d tx %d: gasUsed=%d intrinsic=%d gas=%d", h.Number(), i, rc.GasUsed, ig, txs[i].Gas())}
			}
			if rc.Reverted && len(rc.Outputs) != 0 {
				return &Failure{"reverted-with-outputs", "reverted tx has outputs"}
			}
			if h.BaseFee() != nil && rc.Paid.Cmp(new(big.Int).Mul(new(big.Int).SetUint64(rc.GasUsed), h.BaseFee())) < 0 {
				return &Failure{"price-below-basefee", "paid < gasUsed x block base fee"}
			}
			for _, out := range rc.Outputs {
				for _, tf := range out.Transfers {
					if tf.Sender == tf.Recipient && isSelfDestructor(pre, tf.Sender) {
						selfDestructSelf = true
					}
				}
				for _, ev := range out.Events {
					if ev.Address == builtin.Energy.Address && len(ev.Topics) == 3 && ev.Topics[1] == ev.Topics[2] &&
						isSelfDestructor(pre, thor.BytesToAddress(ev.Topics[1][12:])) {
						selfDestructSelf = true
					}
				}
			}
		}
		cls := func(c string) string {
			if selfDestructSelf {
				return "selfdestruct-beneficiary-self"
			}
			return c
		}
		if prop == "C07" {
			if h.GasUsed() != sumGas {
				return &Failure{"block-gas-not-sum", fmt.Sprintf("header gasUsed=%d, sum of receipts=%d", h.GasUsed(), sumGas)}
			}
			if h.GasUsed() > h.GasLimit() {
				return &Failure{"block-gas-over-limit", fmt.Sprintf("gasUsed=%d > limit=%d", h.GasUsed(), h.GasLimit())}
			}
			// rejected transactions change nothing, adopted ones only what their receipts show: every leaf's funds are explained
			if f := ExplainLeavesExtra(pre, post, receipts, benef, extra); f != nil && !selfDestructSelf {
				f.Class = "block-funds-not-explained-by-receipts:" + f.Class
				f.Summary = fmt.Sprintf("block %d: %s", h.Number(), f.Summary)
				return f
			}
			continue
		}
		// C08: totals over ALL account leaves
		if pre.SumBal.Cmp(post.SumBal) != 0 {
			return &Failure{cls("vet-total-changed"), fmt.Sprintf("block %d: total VET changed by %s", h.Number(), new(big.Int).Sub(post.SumBal, pre.SumBal))}
		}
		wantEng := new(big.Int).Add(pre.SumEng, sumReward)
		wantEng.Sub(wantEng, sumPaid)
		wantEng.Add(wantEng, staking)
		if wantEng.Cmp(post.SumEng) != 0 {
			return &Failure{cls("vtho-total-delta"), fmt.Sprintf("block %d: total VTHO at block time changed by %s, expected sum(reward)-sum(paid)+staking reward = %s", h.Number(),
				new(big.Int).Sub(post.SumEng, pre.SumEng), new(big.Int).Sub(wantEng, pre.SumEng))}
		}
		if f := ExplainLeavesExtra(pre, post, receipts, benef, extra); f != nil {
			f.Class = cls(f.Class)
			f.Summary = fmt.Sprintf("block %d: %s", h.Number(), f.Summary)
			return f
		}
		// base fee of the packed header = the recurrence on the parent header (and the model's)
		exp := galactica.CalcBaseFee(parent.Header, w.Fork)
		if (exp == nil) != (h.BaseFee() == nil) || (exp != nil && exp.Cmp(h.BaseFee()) != 0) {
			return &Failure{"basefee:header", "packed header's base fee is not CalcBaseFee(parent)"}
		}
		if exp != nil && parent.Header.BaseFee() != nil {
			pb := parent.Header.BaseFee()
			if exp.Cmp(big.NewInt(thor.InitialBaseFee)) < 0 || new(big.Int).Abs(new(big.Int).Sub(exp, pb)).Cmp(new(big.Int).Div(pb, big.NewInt(8))) > 0 {
				return &Failure{"basefee:bounds", "packed chain: base fee moved by more than 1/8 or fell below the floor"}
			}
		}
		pbf := "0"
		if parent.Header.BaseFee() != nil {
			pbf = parent.Header.BaseFee().Text(16)
		}
		lines = append(lines, fmt.Sprintf("BF %x %x %x %x %s", w.Fork.GALACTICA, parent.Header.Number(), parent.Header.GasLimit(), parent.Header.GasUsed(), pbf))
		if exp == nil {
			want = append(want, "none")
		} else {
			want = append(want, "fee "+exp.Text(16))
		}
	}
	if len(lines) > 0 {
		ans, err := hx.AskAll(ctx.Oracle, lines)
		if err != nil {
			hx.Fatal("oracle: %v", err)
		}
		for i := range ans {
			if ans[i] != want[i] {
				return &Failure{"correspondence:basefee-chain", "model=" + ans[i] + " impl=" + want[i]}
			}
		}
	}
	return pending
}

func orNil(s, d string) string {
	if s == "" {
		return d
	}
	return s
}

// adoptClass: the class of Flow.Adopt's answer through the packer's public classifiers (sentinel text for the two it lacks).
func adoptClass(err error) string {
	switch {
	case err == nil:
		return ""
	case packer.IsGasLimitReached(err):
		return "gas-limit-reached"
	case packer.IsTxNotAdoptableNow(err):
		return "not-adoptable-now"
	case packer.IsBadTx(err):
		return "bad-tx"
	case err.Error() == "known tx":
		return "known-tx"
	case err.Error() == "tx not adoptable forever":
		return "not-adoptable-forever"
	case strings.HasPrefix(err.Error(), "panic:"):
		return "panic"
	}
	return "other"
}

func isSelfDestructor(pre *Walk, a thor.Address) bool {
	if a == AddrSelfDestructSelf || a == AddrSelfDestructTo {
		return true
	}
	_, existed := pre.Leaves[thor.Blake2b(a[:])]
	return !existed // created (and destroyed) inside the block
}

func RunChains(ctx *hx.Ctx, prop string, cases []*ChainCase) {
	if len(cases) == 0 {
		return
	}
	orc, err := hx.StartOracle(ctx.Oracle)
	if err != nil {
		hx.Fatal("oracle: %v", err)
	}
	defer orc.Close()
	for _, c := range cases {
		canon, _ := json.Marshal(c)
		ntx := 0
		for _, b := range c.Blocks {
			ntx += len(b)
		}
		ctx.Cov.Case("chain:"+string(canon), ntx >= 2, nil)
		if f := RunChain(ctx, prop, c, true, orc); f != nil {
			if reported["chain:"+f.Class] {
				continue
			}
			reported["chain:"+f.Class] = true
			// shrink: drop whole blocks from the end, then single txs
			cur := c
			for changed := true; changed; {
				changed = false
				for b := range cur.Blocks {
					for i := range cur.Blocks[b] {
						x := &ChainCase{Setup: cur.Setup, Chain: true}
						for bb := range cur.Blocks {
							l := append([]TxSpec{}, cur.Blocks[bb]...)
							if bb == b {
								l = append(l[:i], l[i+1:]...)
							}
							x.Blocks = append(x.Blocks, l)
						}
						if g := RunChain(ctx, prop, x, false, orc); g != nil && g.Class == f.Class {
							cur, changed = x, true
							break
						}
					}
					if changed {
						break
					}
				}
			}
			found := len(f.Class) < 15 || f.Class[:15] != "correspondence:"
			ctx.Violation(f.Class, f.Summary, cur, found)
		}
	}
}

func LoadChainReplay(raw []byte) *ChainCase {
	var doc struct {
		Replay *ChainCase `json:"replay"`
	}
	if json.Unmarshal(raw, &doc) != nil || doc.Replay == nil || !doc.Replay.Chain {
		return nil
	}
	return doc.Replay
}


// dsOracle asks the extracted ledger model for the split of a staking reward (one-shot oracle call).
func dsOracle(ctx *hx.Ctx, line string) (string, error) {
	ans, err := hx.AskAll(ctx.Oracle, []string{line})
	if err != nil {
		return "", err
	}
	return ans[0], nil
}
