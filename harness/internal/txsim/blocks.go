package txsim

import (
	"encoding/json"
	"fmt"
	"math/big"

	"github.com/vechain/thor/v2/block"
	"github.com/vechain/thor/v2/builtin"
	"github.com/vechain/thor/v2/consensus/upgrade/galactica"
	"github.com/vechain/thor/v2/packer"
	"github.com/vechain/thor/v2/state"
	"github.com/vechain/thor/v2/thor"
	"github.com/vechain/thor/v2/trie"
	"github.com/vechain/thor/v2/tx"

	"verif/harness/internal/hx"
)

// ChainCase: a generated state carried by block 1, then blocks packed by the REAL packer.Flow (Schedule / Adopt / Pack)
// across the GALACTICA height (3).  Block-level statements of C07 / C08 are evaluated directly on headers, receipts and
// full account-trie walks before and after each block.
type ChainCase struct {
	Setup  Setup      `json:"setup"`
	Blocks [][]TxSpec `json:"blocks"`
	Chain  bool       `json:"chain"` // marks the replay kind
}

func GenChain(r *hx.Rand) *ChainCase {
	c := &ChainCase{Setup: GenSetup(r), Chain: true}
	c.Setup.Galactica, c.Setup.Number, c.Setup.GasLimit = 3, 1, 10_000_000
	if c.Setup.PoorOrigin == 0 {
		c.Setup.PoorOrigin = 1 // dev account 0 is the authority's endorsor: it must keep its VET
	}
	w := NewWorld(&c.Setup)
	defer w.Close()
	nb := 2 + r.Intn(4)
	for b := 0; b < nb; b++ {
		s := c.Setup
		s.Number = uint32(2 + b)
		var txs []TxSpec
		for i := r.Intn(6); i > 0; i-- {
			t := GenTx(r, &s, w)
			if t.RefKind == 1 {
				t.RefKind = 0
			}
			txs = append(txs, t)
		}
		c.Blocks = append(c.Blocks, txs)
	}
	return c
}

// RunChain returns the first block-level property failure (nil if none) and the number of blocks / txs adopted.
func RunChain(ctx *hx.Ctx, prop string, c *ChainCase, count bool) *Failure {
	cnt := func(k string, n int) {
		if count {
			ctx.Cov.Add(k, n)
		}
	}
	s := c.Setup
	w := NewWorld(&s)
	defer w.Close()
	gen, err := w.Repo.GetBlockSummary(w.Genesis)
	if err != nil {
		hx.Fatal("%v", err)
	}
	b1 := new(block.Builder).ParentID(w.Genesis).Timestamp(gen.Header.Timestamp() + thor.BlockInterval()).GasLimit(gen.Header.GasLimit()).
		StateRoot(w.Root.Hash).TotalScore(1).Build()
	if err := w.Repo.AddBlock(b1, nil, 0, true); err != nil {
		hx.Fatal("add block 1: %v", err)
	}
	benef := parseAddr(s.Benef)
	w.Fork.VIP214, w.Fork.FINALITY = ^uint32(0), ^uint32(0) // plain PoA v1 scheduling and signatures (block 1 is unsigned)
	p := packer.New(w.Repo, state.NewStater(w.DB), DevAddr(0), &benef, w.Fork, 0)
	var lines []string
	var want []string
	for _, specs := range c.Blocks {
		parent := w.Repo.BestBlockSummary()
		flow, err := p.Schedule(parent, parent.Header.Timestamp()+1)
		if err != nil {
			hx.Fatal("schedule: %v", err)
		}
		adopted := 0
		for i := range specs {
			trx := w.BuildTx(&specs[i])
			err := func() (err error) {
				defer func() {
					if r := recover(); r != nil {
						err = fmt.Errorf("panic: %v", r)
					}
				}()
				return flow.Adopt(trx)
			}()
			if err == nil {
				adopted++
			} else {
				cnt("block-tx-rejected", 1)
			}
		}
		blk, stage, receipts, err := flow.Pack(DevKey(0), 0, false)
		if err != nil {
			hx.Fatal("pack: %v", err)
		}
		if _, err := stage.Commit(); err != nil {
			hx.Fatal("commit: %v", err)
		}
		if err := w.Repo.AddBlock(blk, receipts, 0, true); err != nil {
			hx.Fatal("add block: %v", err)
		}
		h := blk.Header()
		cnt("blocks-packed", 1)
		cnt("block-txs-adopted", adopted)
		T := h.Timestamp()
		pre := w.WalkAt(parent.Root(), T, ^uint64(0))
		post := w.WalkAt(trie.Root{Hash: h.StateRoot(), Ver: trie.Version{Major: h.Number()}}, T, ^uint64(0))
		// C07: block gas used = sum of receipts <= limit; every receipt within its tx's bounds
		var sumGas uint64
		sumPaid, sumReward := new(big.Int), new(big.Int)
		selfDestructSelf := false
		txs := blk.Transactions()
		if len(txs) != len(receipts) {
			return &Failure{"block-receipts-count", "receipts != transactions"}
		}
		for i, rc := range receipts {
			sumGas += rc.GasUsed
			sumPaid.Add(sumPaid, rc.Paid)
			sumReward.Add(sumReward, rc.Reward)
			ig, _ := txs[i].IntrinsicGas()
			if rc.GasUsed < ig || rc.GasUsed > txs[i].Gas() {
				return &Failure{"gas-used-out-of-bounds", fmt.Sprintf("block %d tx %d: gasUsed=%d intrinsic=%d gas=%d", h.Number(), i, rc.GasUsed, ig, txs[i].Gas())}
			}
			if rc.Reverted && len(rc.Outputs) != 0 {
				return &Failure{"reverted-with-outputs", "reverted tx has outputs"}
			}
			if h.BaseFee() != nil && rc.Paid.Cmp(new(big.Int).Mul(new(big.Int).SetUint64(rc.GasUsed), h.BaseFee())) < 0 {
				return &Failure{"price-below-basefee", "paid < gasUsed x block base fee"}
			}
			for _, out := range rc.Outputs {
				for _, tf := range out.Transfers {
					if tf.Sender == tf.Recipient && isSelfDestructor(pre, tf.Sender) {
						selfDestructSelf = true
					}
				}
				for _, ev := range out.Events {
					if ev.Address == builtin.Energy.Address && len(ev.Topics) == 3 && ev.Topics[1] == ev.Topics[2] &&
						isSelfDestructor(pre, thor.BytesToAddress(ev.Topics[1][12:])) {
						selfDestructSelf = true
					}
				}
			}
		}
		cls := func(c string) string {
			if selfDestructSelf {
				return "selfdestruct-beneficiary-self"
			}
			return c
		}
		if prop == "C07" {
			if h.GasUsed() != sumGas {
				return &Failure{"block-gas-not-sum", fmt.Sprintf("header gasUsed=%d, sum of receipts=%d", h.GasUsed(), sumGas)}
			}
			if h.GasUsed() > h.GasLimit() {
				return &Failure{"block-gas-over-limit", fmt.Sprintf("gasUsed=%d > limit=%d", h.GasUsed(), h.GasLimit())}
			}
			continue
		}
		// C08: totals over ALL account leaves
		if pre.SumBal.Cmp(post.SumBal) != 0 {
			return &Failure{cls("vet-total-changed"), fmt.Sprintf("block %d: total VET changed by %s", h.Number(), new(big.Int).Sub(post.SumBal, pre.SumBal))}
		}
		wantEng := new(big.Int).Add(pre.SumEng, sumReward)
		wantEng.Sub(wantEng, sumPaid)
		if wantEng.Cmp(post.SumEng) != 0 {
			return &Failure{cls("vtho-total-delta"), fmt.Sprintf("block %d: total VTHO at block time changed by %s, expected sum(reward)-sum(paid) = %s", h.Number(),
				new(big.Int).Sub(post.SumEng, pre.SumEng), new(big.Int).Sub(sumReward, sumPaid))}
		}
		// base fee of the packed header = the recurrence on the parent header (and the model's)
		exp := galactica.CalcBaseFee(parent.Header, w.Fork)
		if (exp == nil) != (h.BaseFee() == nil) || (exp != nil && exp.Cmp(h.BaseFee()) != 0) {
			return &Failure{"basefee:header", "packed header's base fee is not CalcBaseFee(parent)"}
		}
		if exp != nil && parent.Header.BaseFee() != nil {
			pb := parent.Header.BaseFee()
			if exp.Cmp(big.NewInt(thor.InitialBaseFee)) < 0 || new(big.Int).Abs(new(big.Int).Sub(exp, pb)).Cmp(new(big.Int).Div(pb, big.NewInt(8))) > 0 {
				return &Failure{"basefee:bounds", "packed chain: base fee moved by more than 1/8 or fell below the floor"}
			}
		}
		pbf := "0"
		if parent.Header.BaseFee() != nil {
			pbf = parent.Header.BaseFee().Text(16)
		}
		lines = append(lines, fmt.Sprintf("BF %x %x %x %x %s", w.Fork.GALACTICA, parent.Header.Number(), parent.Header.GasLimit(), parent.Header.GasUsed(), pbf))
		if exp == nil {
			want = append(want, "none")
		} else {
			want = append(want, "fee "+exp.Text(16))
		}
	}
	if len(lines) > 0 {
		ans, err := hx.AskAll(ctx.Oracle, lines)
		if err != nil {
			hx.Fatal("oracle: %v", err)
		}
		for i := range ans {
			if ans[i] != want[i] {
				return &Failure{"correspondence:basefee-chain", "model=" + ans[i] + " impl=" + want[i]}
			}
		}
	}
	return nil
}

func isSelfDestructor(pre *Walk, a thor.Address) bool {
	if a == AddrSelfDestructSelf || a == AddrSelfDestructTo {
		return true
	}
	_, existed := pre.Leaves[thor.Blake2b(a[:])]
	return !existed // created (and destroyed) inside the block
}

func RunChains(ctx *hx.Ctx, prop string, cases []*ChainCase) {
	for _, c := range cases {
		canon, _ := json.Marshal(c)
		ntx := 0
		for _, b := range c.Blocks {
			ntx += len(b)
		}
		ctx.Cov.Case("chain:"+string(canon), ntx >= 2, nil)
		if f := RunChain(ctx, prop, c, true); f != nil {
			// shrink: drop whole blocks from the end, then single txs
			cur := c
			for changed := true; changed; {
				changed = false
				for b := range cur.Blocks {
					for i := range cur.Blocks[b] {
						x := &ChainCase{Setup: cur.Setup, Chain: true}
						for bb := range cur.Blocks {
							l := append([]TxSpec{}, cur.Blocks[bb]...)
							if bb == b {
								l = append(l[:i], l[i+1:]...)
							}
							x.Blocks = append(x.Blocks, l)
						}
						if g := RunChain(ctx, prop, x, false); g != nil && g.Class == f.Class {
							cur, changed = x, true
							break
						}
					}
					if changed {
						break
					}
				}
			}
			found := len(f.Class) < 15 || f.Class[:15] != "correspondence:"
			ctx.Violation(f.Class, f.Summary, cur, found)
		}
	}
}

func LoadChainReplay(raw []byte) *ChainCase {
	var doc struct {
		Replay *ChainCase `json:"replay"`
	}
	if json.Unmarshal(raw, &doc) != nil || doc.Replay == nil || !doc.Replay.Chain {
		return nil
	}
	return doc.Replay
}

var _ = tx.TypeLegacy
