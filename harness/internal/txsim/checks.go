package txsim

import (
	"fmt"
	"math/big"
	"sort"

	"github.com/vechain/thor/v2/builtin"
	"github.com/vechain/thor/v2/thor"
	"github.com/vechain/thor/v2/tx"
)

// Diff is one disagreement between the extracted model and the implementation.
type Diff struct{ Field, Detail string }

func (o *Obs) applied() bool { return o.Receipt != nil && o.Err == nil && o.Panic == "" }

// Correspond compares the model's answer with the observation (receipt fields, clause-boundary gas, error class,
// per-account balance / energy-at-block-time for every known address, burned total, user credit).
func (o *Obs) Correspond(a *Answer, ledger bool) []Diff {
	var d []Diff
	add := func(f, format string, args ...any) { d = append(d, Diff{f, fmt.Sprintf(format, args...)}) }
	if !o.applied() {
		if !a.Failed {
			add("outcome", "implementation fails to start (%s) but the model executes", o.ErrClass())
			return d
		}
		if a.Err != o.ErrClass() {
			add("error-class", "impl=%s model=%s", o.ErrClass(), a.Err)
		}
	} else {
		if a.Failed {
			add("outcome", "implementation executes but the model fails to start (%s)", a.Err)
			return d
		}
		rc := o.Receipt
		if a.GasUsed.Cmp(new(big.Int).SetUint64(rc.GasUsed)) != 0 {
			add("gas-used", "impl=%d model=%s", rc.GasUsed, a.GasUsed)
		}
		if a.Paid.Cmp(rc.Paid) != 0 {
			add("paid", "impl=%s model=%s", rc.Paid, a.Paid)
		}
		if a.Reward.Cmp(rc.Reward) != 0 {
			add("reward", "impl=%s model=%s", rc.Reward, a.Reward)
		}
		if a.Reverted != rc.Reverted {
			add("reverted", "impl=%v model=%v", rc.Reverted, a.Reverted)
		}
		if a.NOut != len(rc.Outputs) {
			add("outputs", "impl=%d model=%d", len(rc.Outputs), a.NOut)
		}
		if a.Payer != addrN(rc.GasPayer) {
			add("payer", "impl=%s model=%s", addrN(rc.GasPayer), a.Payer)
		}
		if len(a.Log) != len(o.Clauses) {
			add("clause-count", "impl executed %d clauses, model %d", len(o.Clauses), len(a.Log))
		} else {
			for i, c := range o.Clauses {
				left := c.GasIn - c.RawUsed
				if a.Log[i][0].Cmp(new(big.Int).SetUint64(c.GasIn)) != 0 {
					add("clause-gas", "clause %d starts with gas impl=%d model=%s", i, c.GasIn, a.Log[i][0])
					break
				}
				if a.Log[i][2].Cmp(new(big.Int).SetUint64(c.Rest-left)) != 0 {
					add("clause-refund", "clause %d applied refund impl=%d model=%s", i, c.Rest-left, a.Log[i][2])
					break
				}
			}
		}
		if a.Credit != "-" && o.CreditAfter != nil && bigHex(a.Credit).Cmp(o.CreditAfter) != 0 {
			// UserCredit caps at the plan's credit; the written value is below the cap by construction
			add("credit", "impl=%s model=%s", o.CreditAfter, bigHex(a.Credit))
		}
	}
	if ledger {
		for _, ad := range o.Views {
			v := a.Views[ad]
			bal, eng := new(big.Int), new(big.Int)
			if l, ok := o.Post.Leaves[thor.Blake2b(ad[:])]; ok {
				bal, eng = l.Bal, l.EnergyAtT
			}
			if v[0].Cmp(bal) != 0 {
				add("balance", "VET of %s impl=%s model=%s", ad, bal, v[0])
				break
			}
			if v[1].Cmp(eng) != 0 {
				add("energy", "VTHO of %s at block time impl=%s model=%s", ad, eng, v[1])
				break
			}
		}
		known := map[thor.Bytes32]bool{}
		for _, ad := range o.Views {
			known[thor.Blake2b(ad[:])] = true
		}
		for k, l := range o.Post.Leaves {
			if known[k] {
				continue
			}
			p, ok := o.Pre.Leaves[k]
			if !ok || p.Bal.Cmp(l.Bal) != 0 || p.EnergyAtT.Cmp(l.EnergyAtT) != 0 {
				add("unattributed-funds", "account leaf %x changed funds with no ledger operation visible in the receipt", k[:6])
				break
			}
		}
		if o.BurnedPost != nil && a.Burned.Cmp(o.BurnedPost) != 0 {
			add("total-burned", "impl=%s model=%s", o.BurnedPost, a.Burned)
		}
	}
	return d
}

// ---------------------------------------------------------------- the properties' own predicates on the implementation

type Failure struct{ Class, Summary string }

func (o *Obs) price() *big.Int {
	return o.Tx.EffectiveGasPrice(o.BaseFee, o.BGP)
}

// PropertyC07 evaluates C07 directly on the receipt, the tracer's clause-boundary gas and the two trie walks.
func (o *Obs) PropertyC07() *Failure {
	if o.Panic != "" {
		if o.Spec.Dynamic && o.BaseFee == nil {
			return nil // typed tx before GALACTICA: rejected by consensus / packer before the runtime (stated input restriction)
		}
		return &Failure{"panic", "ExecuteTransaction panicked: " + o.Panic}
	}
	if !o.applied() {
		// a transaction that cannot start changes nothing (the tx-context failure is undone by the packer's revert: checked by the caller)
		if o.AdoptRevertChanged {
			return &Failure{"adopt-revert-incomplete", "checkpoint / failed ExecuteTransaction / RevertTo (packer Adopt) does not restore the state root"}
		}
		if !o.CtxErr && o.PostRoot != o.PreRoot {
			return &Failure{"not-started-state-changed", fmt.Sprintf("tx failed to start (%s) but the state root changed", o.ErrClass())}
		}
		return nil
	}
	rc := o.Receipt
	if rc.GasUsed < o.Intrinsic || rc.GasUsed > o.Spec.Gas {
		return &Failure{"gas-used-out-of-bounds", fmt.Sprintf("gasUsed=%d intrinsic=%d gas=%d", rc.GasUsed, o.Intrinsic, o.Spec.Gas)}
	}
	if o.Spec.Gas > o.GasLimit {
		return &Failure{"tx-gas-over-block-limit", "executed a tx whose gas exceeds the block gas limit"}
	}
	var consumed, refunded uint64
	for i, c := range o.Clauses {
		left := c.GasIn - c.RawUsed
		if c.RawUsed > c.GasIn || c.Rest < left {
			return &Failure{"clause-gas-inconsistent", fmt.Sprintf("clause %d: in=%d used=%d rest=%d", i, c.GasIn, c.RawUsed, c.Rest)}
		}
		if ref := c.Rest - left; ref > c.RawUsed/2 {
			return &Failure{"refund-over-half", fmt.Sprintf("clause %d consumed %d gas, refund applied %d", i, c.RawUsed, ref)}
		}
		consumed += c.RawUsed
		refunded += c.Rest - left
	}
	if rc.GasUsed != o.Intrinsic+consumed-refunded {
		return &Failure{"gas-used-not-sum", fmt.Sprintf("gasUsed=%d but intrinsic+consumed-refunded=%d", rc.GasUsed, o.Intrinsic+consumed-refunded)}
	}
	want := new(big.Int).Mul(new(big.Int).SetUint64(rc.GasUsed), o.price())
	if rc.Paid.Cmp(want) != 0 {
		return &Failure{"paid-not-gas-times-price", fmt.Sprintf("paid=%s gasUsed*price=%s", rc.Paid, want)}
	}
	if !rc.Reverted {
		if len(rc.Outputs) != len(o.Spec.Clauses) {
			return &Failure{"outputs-incomplete", "not reverted but outputs != clauses"}
		}
		for _, c := range o.Clauses {
			if c.Err {
				return &Failure{"failed-clause-not-reverted", "a clause failed with a VM error but the tx is not marked reverted"}
			}
		}
		return nil
	}
	// reverted: outputs empty; every account leaf as before except payer / beneficiary energy and the bookkeeping contracts
	if len(rc.Outputs) != 0 {
		return &Failure{"reverted-with-outputs", "reverted tx has outputs"}
	}
	allowed := map[thor.Bytes32]string{
		thor.Blake2b(rc.GasPayer[:]):               "payer",
		thor.Blake2b(o.Benef[:]):                   "beneficiary",
		thor.Blake2b(builtin.Energy.Address[:]):    "energy",
		thor.Blake2b(builtin.Prototype.Address[:]): "prototype",
	}
	keys := map[thor.Bytes32]bool{}
	for k := range o.Pre.Leaves {
		keys[k] = true
	}
	for k := range o.Post.Leaves {
		keys[k] = true
	}
	zero := new(big.Int)
	for k := range keys {
		p, q := o.Pre.Leaves[k], o.Post.Leaves[k]
		role := allowed[k]
		if role == "" {
			if p == nil || q == nil || p.Bal.Cmp(q.Bal) != 0 || p.Eng.Cmp(q.Eng) != 0 || p.BT != q.BT || p.Rest != q.Rest {
				return &Failure{"reverted-state-differs", fmt.Sprintf("reverted tx left account leaf %x modified", k[:6])}
			}
			continue
		}
		pb, qb, pe, qe, pr, qr := zero, zero, zero, zero, "||", "||"
		if p != nil {
			pb, pe, pr = p.Bal, p.EnergyAtT, p.Rest
		}
		if q != nil {
			qb, qe, qr = q.Bal, q.EnergyAtT, q.Rest
		}
		if pb.Cmp(qb) != 0 {
			return &Failure{"reverted-state-differs", "reverted tx changed the VET balance of the " + role}
		}
		if (role == "payer" || role == "beneficiary") && pr != qr {
			return &Failure{"reverted-state-differs", "reverted tx changed code/storage/master of the " + role}
		}
		wantDelta := new(big.Int)
		if k == thor.Blake2b(rc.GasPayer[:]) {
			wantDelta.Sub(wantDelta, rc.Paid)
		}
		if k == thor.Blake2b(o.Benef[:]) {
			wantDelta.Add(wantDelta, rc.Reward)
		}
		if new(big.Int).Sub(qe, pe).Cmp(wantDelta) != 0 {
			return &Failure{"reverted-energy-delta", fmt.Sprintf("reverted tx: energy of the %s changed by %s, expected %s", role, new(big.Int).Sub(qe, pe), wantDelta)}
		}
	}
	return nil
}

func (o *Obs) w() *Setup { return o.setup }

// PropertyC08 evaluates the conservation laws directly on the two full trie walks and the receipt.
func (o *Obs) PropertyC08() *Failure {
	if o.Panic != "" {
		return nil
	}
	selfClass := func(c string) string {
		if o.HasSelfDestructToSelf() {
			return "selfdestruct-beneficiary-self"
		}
		return c
	}
	if o.Pre.SumBal.Cmp(o.Post.SumBal) != 0 {
		return &Failure{selfClass("vet-total-changed"), fmt.Sprintf("total VET over all accounts changed by %s", new(big.Int).Sub(o.Post.SumBal, o.Pre.SumBal))}
	}
	want := new(big.Int).Set(o.Pre.SumEng)
	if o.applied() {
		want.Add(want, o.Receipt.Reward)
		want.Sub(want, o.Receipt.Paid)
	} else if o.CtxErr {
		return nil // debit left by the runtime, undone by the packer's revert (C07 checks the revert)
	}
	if want.Cmp(o.Post.SumEng) != 0 {
		return &Failure{selfClass("vtho-total-delta"), fmt.Sprintf("total VTHO at block time changed by %s, expected reward - paid = %s",
			new(big.Int).Sub(o.Post.SumEng, o.Pre.SumEng), new(big.Int).Sub(want, o.Pre.SumEng))}
	}
	if o.applied() {
		rc := o.Receipt
		if o.BaseFee != nil {
			floor := new(big.Int).Mul(new(big.Int).SetUint64(rc.GasUsed), o.BaseFee)
			if rc.Paid.Cmp(floor) < 0 {
				return &Failure{"price-below-basefee", fmt.Sprintf("paid %s < gasUsed x baseFee %s", rc.Paid, floor)}
			}
		}
		if rc.GasUsed > 0 && new(big.Int).Mod(rc.Paid, new(big.Int).SetUint64(rc.GasUsed)).Sign() != 0 {
			return &Failure{"paid-not-multiple-of-gas", "paid is not gasUsed times a price"}
		}
	}
	var rcs tx.Receipts
	if o.applied() {
		rcs = tx.Receipts{o.Receipt}
	}
	if f := ExplainLeaves(o.Pre, o.Post, rcs, o.Benef); f != nil {
		f.Class = selfClass(f.Class)
		return f
	}
	return nil
}

// ExplainLeaves: from the receipts alone — exactly each payer is charged its gasUsed x price, exactly the beneficiary receives the
// rewards, and no other account's VET / VTHO (at block time) moves except through the transfers / energy Transfer events the
// receipts show.  Every leaf of both walks is checked (known address or not).
func ExplainLeaves(pre, post *Walk, rcs tx.Receipts, benef thor.Address) *Failure {
	return ExplainLeavesExtra(pre, post, rcs, benef, nil)
}

// ExplainLeavesExtra: as ExplainLeaves, with additional expected VTHO credits (the staking reward's shares).
func ExplainLeavesExtra(pre, post *Walk, rcs tx.Receipts, benef thor.Address, extra map[thor.Address]*big.Int) *Failure {
	expE, expB := map[thor.Bytes32]*big.Int{}, map[thor.Bytes32]*big.Int{}
	bump := func(m map[thor.Bytes32]*big.Int, a thor.Address, d *big.Int, sign int) {
		k := thor.Blake2b(a[:])
		if m[k] == nil {
			m[k] = new(big.Int)
		}
		if sign > 0 {
			m[k].Add(m[k], d)
		} else {
			m[k].Sub(m[k], d)
		}
	}
	for a, v := range extra {
		bump(expE, a, v, +1)
	}
	payers := map[thor.Bytes32]thor.Address{}
	for _, rc := range rcs {
		payers[thor.Blake2b(rc.GasPayer[:])] = rc.GasPayer
		bump(expE, rc.GasPayer, rc.Paid, -1)
		bump(expE, benef, rc.Reward, +1)
		for _, out := range rc.Outputs {
			for _, tf := range out.Transfers {
				bump(expB, tf.Sender, tf.Amount, -1)
				bump(expB, tf.Recipient, tf.Amount, +1)
			}
			for _, ev := range out.Events {
				if ev.Address == builtin.Energy.Address && len(ev.Topics) == 3 && ev.Topics[0] == energyTransferID {
					amt := new(big.Int).SetBytes(ev.Data)
					bump(expE, thor.BytesToAddress(ev.Topics[1][12:]), amt, -1)
					bump(expE, thor.BytesToAddress(ev.Topics[2][12:]), amt, +1)
				}
			}
		}
	}
	keys := map[thor.Bytes32]bool{}
	for k := range pre.Leaves {
		keys[k] = true
	}
	for k := range post.Leaves {
		keys[k] = true
	}
	zero := new(big.Int)
	sorted := make([]thor.Bytes32, 0, len(keys))
	for k := range keys {
		sorted = append(sorted, k)
	}
	sort.Slice(sorted, func(i, j int) bool { return string(sorted[i][:]) < string(sorted[j][:]) })
	for _, k := range sorted {
		pe, qe, pb, qb := zero, zero, zero, zero
		if p := pre.Leaves[k]; p != nil {
			pe, pb = p.EnergyAtT, p.Bal
		}
		if q := post.Leaves[k]; q != nil {
			qe, qb = q.EnergyAtT, q.Bal
		}
		we, wb := expE[k], expB[k]
		if we == nil {
			we = zero
		}
		if wb == nil {
			wb = zero
		}
		if d := new(big.Int).Sub(qe, pe); d.Cmp(we) != 0 {
			if a, ok := payers[k]; ok {
				return &Failure{"payer-not-charged-gas-times-price", fmt.Sprintf("gas payer %s: VTHO changed by %s, the receipts imply %s (paid = gasUsed x price)", a, d, we)}
			}
			return &Failure{"vtho-moved-without-ledger-op", fmt.Sprintf("account leaf %x: VTHO at block time changed by %s, the receipts (paid / reward / energy transfers) imply %s", k[:6], d, we)}
		}
		if d := new(big.Int).Sub(qb, pb); d.Cmp(wb) != 0 {
			return &Failure{"vet-moved-without-transfer", fmt.Sprintf("account leaf %x: VET changed by %s, the receipts' transfers imply %s", k[:6], d, wb)}
		}
	}
	return nil
}
