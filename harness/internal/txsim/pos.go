package txsim

import (
	"encoding/hex"
	"fmt"
	"math"
	"math/big"

	"github.com/vechain/thor/v2/builtin"
	"github.com/vechain/thor/v2/builtin/staker"
	"github.com/vechain/thor/v2/genesis"
	"github.com/vechain/thor/v2/state"
	"github.com/vechain/thor/v2/test/testchain"
	"github.com/vechain/thor/v2/thor"

	"verif/harness/internal/hx"
)

// PoS worlds: the repo's own integration test chain (test/testchain: custom genesis with the 10 dev accounts as authorities,
// HAYABUSA at block 2 — staker deployed and energy growth stopped —, all dev accounts staked at block 3, PoS active from
// block 4), built deterministically (fixed launch time).

const posLaunchTime = 1_700_000_000
const PosHayabusa = 2

var posGenesisCache = map[uint32]*genesis.Genesis{}

func posFork(galactica uint32) *thor.ForkConfig {
	fc := thor.SoloFork
	fc.HAYABUSA = PosHayabusa
	fc.GALACTICA = galactica
	fc.BLOCKLIST = math.MaxUint32
	return &fc
}

// NewPoSChain creates the chain at genesis (nothing minted yet).
func NewPoSChain(galactica uint32) (*testchain.Chain, *thor.ForkConfig) {
	fc := posFork(galactica)
	g, ok := posGenesisCache[galactica]
	if !ok {
		cfg := genesis.SoloConfig
		cfg.EpochLength = 1
		var err error
		// genesis construction computes the id on a throw-away database that is never closed: once per fork height
		g, err = testchain.CreateGenesis(genesis.DevConfig{ForkConfig: fc, Config: &cfg, LaunchTime: posLaunchTime}, 10, 2, 2)
		if err != nil {
			hx.Fatal("pos genesis: %v", err)
		}
		posGenesisCache[galactica] = g
	} else {
		// CreateGenesis applies the staking-period configuration as a side effect; re-apply it for a cached genesis
		tp := uint32(2)
		thor.SetConfig(thor.Config{LowStakingPeriod: 2, MediumStakingPeriod: 4, HighStakingPeriod: 6, CooldownPeriod: 2, EvictionCheckInterval: 2, EpochLength: 2, HayabusaTP: &tp})
	}
	ch, err := testchain.NewIntegrationTestChainWithGenesis(g, fc, 2)
	if err != nil {
		hx.Fatal("pos chain: %v", err)
	}
	return ch, fc
}

// StakeSpecs: every dev account adds itself as a validator (what testchain.AddValidators sends), as replayable specs.
func StakeSpecs() []TxSpec {
	m, ok := builtin.Staker.ABI.MethodByName("addValidation")
	if !ok {
		hx.Fatal("no addValidation")
	}
	var out []TxSpec
	for i := range genesis.DevAccounts() {
		data, err := m.EncodeInput(DevAddr(i), thor.LowStakingPeriod())
		if err != nil {
			hx.Fatal("abi: %v", err)
		}
		out = append(out, TxSpec{Gas: 2_000_000, Coef: 255, Origin: i, Delegator: -1, Nonce: uint64(7000 + i), MaxFee: "0", MaxPrio: "0",
			Clauses: []ClauseSpec{{To: AddrHex(builtin.Staker.Address), Value: staker.MinStake.String(), Data: hex.EncodeToString(data)}}})
	}
	return out
}

// DelegationSpecs: the executor (dev account 0) names dev account 8 as the delegator contract; dev account 8 then delegates to
// validators.  Once a delegation is locked, DistributeRewards splits the staking reward between the proposer and that address.
func DelegatorSetupSpec() TxSpec {
	m, _ := builtin.Params.ABI.MethodByName("set")
	data, err := m.EncodeInput(thor.KeyDelegatorContractAddress, new(big.Int).SetBytes(DevAddr(8).Bytes()))
	if err != nil {
		hx.Fatal("abi: %v", err)
	}
	return TxSpec{Gas: 500_000, Coef: 255, Origin: 0, Delegator: -1, Nonce: 7100, MaxFee: "0", MaxPrio: "0",
		Clauses: []ClauseSpec{{To: AddrHex(builtin.Params.Address), Value: "0", Data: hex.EncodeToString(data)}}}
}

func DelegationSpec(r *hx.Rand) TxSpec {
	m, _ := builtin.Staker.ABI.MethodByName("addDelegation")
	data, err := m.EncodeInput(DevAddr(r.Intn(10)), uint8(100+r.Intn(100)))
	if err != nil {
		hx.Fatal("abi: %v", err)
	}
	stake := new(big.Int).Mul(big.NewInt(int64(10000+r.Intn(100000))), new(big.Int).Exp(big.NewInt(10), big.NewInt(18), nil))
	return TxSpec{Gas: 2_000_000, Coef: 255, Origin: 8, Delegator: -1, Nonce: r.Uint64(), MaxFee: "0", MaxPrio: "0",
		Clauses: []ClauseSpec{{To: AddrHex(builtin.Staker.Address), Value: stake.String(), Data: hex.EncodeToString(data)}}}
}

func newPoSWorld(s *Setup) *World {
	ch, fc := NewPoSChain(s.Galactica)
	for i := 1; i <= 5; i++ {
		var err error
		if i == 3 {
			err = ch.AddValidators()
		} else {
			err = ch.MintBlock()
		}
		if err != nil {
			hx.Fatal("pos world block %d: %v", i, err)
		}
	}
	best := ch.Repo().BestBlockSummary()
	w := &World{DB: ch.Database(), Repo: ch.Repo(), Fork: fc, Genesis: ch.GenesisBlock().Header().ID(), GenTime: ch.GenesisBlock().Header().Timestamp(),
		Root: best.Root(), Head: best.Header.ID(), Known: map[thor.Bytes32]thor.Address{}, Setup: s, ver: 100, minor: 1, closer: func() { ch.LogDB().Close() }}
	if active, _ := builtin.Staker.Native(state.New(w.DB, w.Root)).IsPoSActive(); !active {
		hx.Fatal("PoS is not active at block 5 of the integration chain")
	}
	w.knowBasics()
	st := state.New(w.DB, w.Root)
	w.applyGenerated(st, best.Header.Timestamp())
	w.commit(st)
	return w
}

// stakerClause: staking deposits / withdrawals / exits against the real staker contract (many revert: wrong caller, wrong period)
func stakerClause(r *hx.Rand) ClauseSpec {
	enc := func(name string, args ...any) string {
		m, ok := builtin.Staker.ABI.MethodByName(name)
		if !ok {
			hx.Fatal("staker abi: no %s", name)
		}
		d, err := m.EncodeInput(args...)
		if err != nil {
			hx.Fatal("staker abi %s: %v", name, err)
		}
		return hex.EncodeToString(d)
	}
	v := DevAddr(r.Intn(5))
	stake := new(big.Int).Mul(big.NewInt(int64(1+r.Intn(1000))), new(big.Int).Exp(big.NewInt(10), big.NewInt(18), nil))
	to := AddrHex(builtin.Staker.Address)
	switch r.Intn(6) {
	case 0:
		return ClauseSpec{To: to, Value: stake.String(), Data: enc("increaseStake", v)}
	case 1:
		return ClauseSpec{To: to, Value: "0", Data: enc("decreaseStake", v, stake)}
	case 2:
		return ClauseSpec{To: to, Value: "0", Data: enc("withdrawStake", v)}
	case 3:
		return ClauseSpec{To: to, Value: "0", Data: enc("signalExit", v)}
	case 4:
		return ClauseSpec{To: to, Value: "0", Data: enc("setBeneficiary", v, DevAddr(r.Intn(10)))}
	default:
		return ClauseSpec{To: to, Value: staker.MinStake.String(), Data: enc("addValidation", v, thor.LowStakingPeriod())}
	}
}

var _ = fmt.Sprint
var _ = big.NewInt
