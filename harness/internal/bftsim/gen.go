package bftsim

import (
	"verif/harness/internal/hx"
)

// GenNet generates a multi-node history: validators 0..n-1; the first n-f of them run an honest node each (they only
// propose on their own best block with the COM bit their engine computes); the last f are Byzantine (any parent, any
// COM bit, equivocation). Delivery is random: immediate, delayed, duplicated, withheld; nodes restart now and then.
// drawFinality: FINALITY fork height of a run: mostly 0; otherwise aligned (L, 2L) or unaligned (L/2, L+1, 2L-1) with the
// epoch length.
func drawFinality(r *hx.Rand, L uint32) uint32 {
	if !r.Chance(2, 5) {
		return 0
	}
	return []uint32{L, 2 * L, L / 2, L + 1, 2*L - 1}[r.Intn(5)]
}

func GenNet(r *hx.Rand, thorough bool) *Script {
	n := []int{4, 4, 4, 5, 6, 7}[r.Intn(6)]
	f := (n - 1) / 3
	if r.Chance(1, 4) {
		f = 0
	}
	L := uint32([]int{3, 4, 4, 5, 6, 8}[r.Intn(6)])
	sc := &Script{Cfg: Config{N: n, L: L, MBP: uint64(n), F: drawFinality(r, L)}}
	honest := n - f
	for i := 0; i < honest; i++ {
		sc.Nodes = append(sc.Nodes, i)
	}
	slots := int(L) * r.Range(3, 7)
	if thorough {
		slots = int(L) * r.Range(4, 12)
	}
	pDeliver := r.Range(50, 100) // percent: immediate delivery of a fresh block to a node
	pByzCom := r.Range(0, 100)
	constScore := r.Chance(1, 2) // every block scores n: ties are decided by chain length (fewer equal-quality switches)
	next := 1
	var made []int                       // names of all blocks made so far (besides genesis)
	pending := map[int][]int{}           // node -> block names not yet delivered
	have := make([]map[int]bool, honest) // optimistic bookkeeping (only steers generation)
	for i := range have {
		have[i] = map[int]bool{0: true}
	}
	deliver := func(node, name int) {
		sc.Ops = append(sc.Ops, Op{Kind: "deliver", Node: node, Block: name})
		have[node][name] = true
	}
	for s := 0; s < slots; s++ {
		v := r.Intn(n)
		name := next
		next++
		if v < honest {
			score := uint64(r.Range(1, n))
			if constScore {
				score = uint64(n)
			}
			sc.Ops = append(sc.Ops, Op{Kind: "propose", Node: v, Name: name, Score: score, Salt: uint64(r.Intn(3))})
			have[v][name] = true
		} else {
			parent := 0
			if len(made) > 0 {
				k := len(made) - 1 - r.Intn(min(len(made), 1+r.Intn(int(L)+2)))
				parent = made[k]
			}
			sc.Ops = append(sc.Ops, Op{Kind: "byz", Signer: v, Parent: parent, Name: name, Com: r.Intn(100) < pByzCom,
				Score: uint64(r.Range(1, n)), Salt: uint64(r.Intn(3))})
		}
		made = append(made, name)
		for node := 0; node < honest; node++ {
			if node == v {
				continue
			}
			if r.Intn(100) < pDeliver {
				// flush what the node is missing first (parent-before-child order = creation order), then the new block
				for _, p := range pending[node] {
					deliver(node, p)
				}
				pending[node] = nil
				deliver(node, name)
			} else {
				pending[node] = append(pending[node], name)
			}
		}
		if r.Chance(1, 12) { // duplicate / out-of-order delivery
			node := r.Intn(honest)
			deliver(node, made[r.Intn(len(made))])
		}
		if r.Chance(1, 25) {
			sc.Ops = append(sc.Ops, Op{Kind: "restart", Node: r.Intn(honest)})
		}
	}
	for node := 0; node < honest; node++ {
		if r.Chance(2, 3) {
			for _, p := range pending[node] {
				deliver(node, p)
			}
		}
	}
	return sc
}

// GenTree generates a block tree (made by "byz" ops: any signer may sign anywhere, ties in score, epochs with and
// without 2/3 participation, late forks inside old epochs) and imports it into `nodes` nodes in independent
// parent-before-child orders with duplicates and restarts. Node 0's master also proposes a few blocks itself.
func GenTree(r *hx.Rand, thorough bool) *Script {
	n := []int{3, 4, 4, 5, 7}[r.Intn(5)]
	L := uint32([]int{3, 4, 4, 5, 6}[r.Intn(5)])
	mbp := uint64(n)
	if r.Chance(1, 5) {
		mbp = uint64(r.Range(1, n+2))
	}
	sc := &Script{Cfg: Config{N: n, L: L, MBP: mbp, F: drawFinality(r, L)}, Nodes: []int{0, 1}}
	size := int(L) * r.Range(3, 8)
	if thorough {
		size = int(L) * r.Range(4, 14)
	}
	type tb struct{ name, num, parent int }
	blocks := []tb{{0, 0, -1}}
	pCom := r.Range(30, 100)
	pFork := r.Range(2, 25)
	signerSpread := r.Range(1, n) // how many distinct signers take part
	tip := 0
	for i := 1; i <= size; i++ {
		parent := tip
		if r.Intn(100) < pFork {
			// fork from an earlier block: mostly near the tip, sometimes deep (late fork inside an old epoch)
			back := r.Intn(int(L) + 1)
			if r.Chance(1, 3) {
				back = r.Intn(len(blocks))
			}
			k := len(blocks) - 1 - back
			if k < 0 {
				k = 0
			}
			parent = k
		}
		p := blocks[parent]
		score := uint64(r.Range(1, 3))
		sc.Ops = append(sc.Ops, Op{Kind: "byz", Signer: r.Intn(signerSpread + 1) % n, Parent: p.name, Name: i, Com: r.Intn(100) < pCom, Score: score, Salt: uint64(r.Intn(2))})
		blocks = append(blocks, tb{i, p.num + 1, parent})
		if parent == tip || r.Chance(2, 3) {
			tip = len(blocks) - 1
		}
	}
	// delivery orders: node 0 in creation order (a valid parent-before-child order) with noise; node 1 in a random
	// topological order
	for _, b := range blocks[1:] {
		sc.Ops = append(sc.Ops, Op{Kind: "deliver", Node: 0, Block: b.name})
		if r.Chance(1, 15) {
			sc.Ops = append(sc.Ops, Op{Kind: "deliver", Node: 0, Block: blocks[1+r.Intn(len(blocks)-1)].name})
		}
		if r.Chance(1, 30) {
			sc.Ops = append(sc.Ops, Op{Kind: "restart", Node: 0})
		}
		if r.Chance(1, 40) {
			sc.Ops = append(sc.Ops, Op{Kind: "propose", Node: 0, Name: 1000 + b.name, Score: uint64(r.Range(1, 3))})
		}
	}
	done := map[int]bool{0: true}
	left := len(blocks) - 1
	for left > 0 {
		var ready []int
		for i := 1; i < len(blocks); i++ {
			if !done[i] && done[blocks[i].parent] {
				ready = append(ready, i)
			}
		}
		// bias: sometimes depth-first (follow one branch to its end), sometimes breadth-first
		pick := ready[r.Intn(len(ready))]
		if r.Chance(1, 2) {
			pick = ready[len(ready)-1]
		}
		done[pick] = true
		left--
		sc.Ops = append(sc.Ops, Op{Kind: "deliver", Node: 1, Block: blocks[pick].name})
		if r.Chance(1, 30) {
			sc.Ops = append(sc.Ops, Op{Kind: "restart", Node: 1})
		}
	}
	return sc
}

// GenHonest generates a history in which every validator is honest and every block reaches every node before the
// next one is proposed (the liveness clause of C03); proposers are picked at random, some validators may stay silent
// for whole epochs (so epochs with and without 2/3 participation both occur).
func GenHonest(r *hx.Rand, thorough bool) *Script {
	n := []int{4, 4, 5, 6, 7, 9}[r.Intn(6)]
	L := uint32([]int{3, 4, 5, 6, 8}[r.Intn(5)])
	sc := &Script{Cfg: Config{N: n, L: L, MBP: uint64(n), F: drawFinality(r, L)}}
	for i := 0; i < n; i++ {
		sc.Nodes = append(sc.Nodes, i)
	}
	epochs := r.Range(3, 7)
	if thorough {
		epochs = r.Range(4, 12)
	}
	name := 1
	for e := 0; e < epochs; e++ {
		active := n
		if r.Chance(1, 3) {
			active = r.Range(1, n) // a quiet epoch: only `active` validators propose
		}
		first := r.Intn(n)
		start := 0
		if e == 0 {
			start = 1
		}
		for k := start; k < int(L); k++ {
			v := (first + r.Intn(active)) % n
			sc.Ops = append(sc.Ops, Op{Kind: "propose", Node: v, Name: name, Score: uint64(active)})
			for node := 0; node < n; node++ {
				if node != v {
					sc.Ops = append(sc.Ops, Op{Kind: "deliver", Node: node, Block: name})
				}
			}
			name++
		}
		if r.Chance(1, 6) {
			sc.Ops = append(sc.Ops, Op{Kind: "restart", Node: r.Intn(n)})
		}
	}
	return sc
}
