package bftsim

import (
	"bytes"
	"fmt"
	"sort"

	"github.com/vechain/thor/v2/block"
	"github.com/vechain/thor/v2/thor"

	"verif/harness/internal/hx"
)

// Failure is a property predicate that failed on the implementation (class is stable, detail is free text).
type Failure struct{ Class, Detail string }

// Ancestor reports whether a is b or an ancestor of b, using only the sim's global block table (not any node).
func (s *Sim) Ancestor(a, b thor.Bytes32) bool {
	na := block.Number(a)
	cur := b
	for {
		if cur == a {
			return true
		}
		if block.Number(cur) <= na {
			return false
		}
		blk, ok := s.Blocks[cur]
		if !ok {
			return false
		}
		cur = blk.Header().ParentID()
	}
}

// Conflict: neither is an ancestor of the other.
func (s *Sim) Conflict(a, b thor.Bytes32) bool { return !s.Ancestor(a, b) && !s.Ancestor(b, a) }

// Stored returns the ids of all blocks the node has stored (sorted).
func (n *Node) Stored() []thor.Bytes32 {
	var out []thor.Bytes32
	for id := range n.Sim.Blocks {
		if _, err := n.Repo.GetBlockSummary(id); err == nil {
			out = append(out, id)
		}
	}
	sort.Slice(out, func(i, j int) bool { return bytes.Compare(out[i][:], out[j][:]) < 0 })
	return out
}

type BState struct {
	Q    uint32
	J, C bool
}

// ScratchState computes the state of a stored block with a brand-new engine (no cached justifier, no cached state):
// "recomputed from scratch from the definitions".
func (n *Node) ScratchState(id thor.Bytes32) BState {
	sum, err := n.Repo.GetBlockSummary(id)
	if err != nil {
		hx.Fatal("scratch state: %v", err)
	}
	q, j, c, err := n.FreshEngine().VerifState(sum)
	if err != nil {
		hx.Fatal("scratch VerifState: %v", err)
	}
	return BState{q, j, c}
}

// CheckNode evaluates the single-node predicates of C03/C04 on a node after a run:
//   - the engine's (cached, incrementally built) state of every stored block equals the from-scratch state;
//   - the best block is the maximum of the stored blocks under (quality, total score, smaller id).
func (n *Node) CheckNode() *Failure {
	stored := n.Stored()
	var bestID thor.Bytes32
	var bestQ uint32
	var bestScore uint64
	first := true
	for _, id := range stored {
		sum, _ := n.Repo.GetBlockSummary(id)
		q, j, c, err := n.Engine.VerifState(sum)
		if err != nil {
			hx.Fatal("VerifState: %v", err)
		}
		sc := n.ScratchState(id)
		if (BState{q, j, c}) != sc {
			return &Failure{"incremental-tally-differs-from-scratch", fmt.Sprintf("block %s: engine state (q=%d j=%v c=%v), recomputed from the checkpoint (q=%d j=%v c=%v)",
				id.String()[:14], q, j, c, sc.Q, sc.J, sc.C)}
		}
		score := sum.Header.TotalScore()
		better := first || sc.Q > bestQ || (sc.Q == bestQ && (score > bestScore || (score == bestScore && bytes.Compare(id[:], bestID[:]) < 0)))
		if better {
			bestID, bestQ, bestScore, first = id, sc.Q, score, false
		}
	}
	// before the FINALITY fork the node compares by BetterThan alone (block_exec.go), so "maximum of (quality, score, id)"
	// is the claim for FINALITY = 0 only
	if got := n.Repo.BestBlockSummary().Header.ID(); got != bestID && n.Sim.Cfg.F == 0 {
		return &Failure{"best-not-max-of-order", fmt.Sprintf("best block %s is not the maximum %s of (quality, total score, smaller id) over the %d stored blocks",
			got.String()[:14], bestID.String()[:14], len(stored))}
	}
	return nil
}

// CheckRun evaluates the history predicates on the observations of a run:
//   - an accepted block (descending from finalized) whose CommitBlock failed;
//   - a node's finalized checkpoint moving to a block that does not descend from the previous one;
//   - (safety = the script keeps fewer than a third of the validators Byzantine) two honest nodes holding conflicting
//     finalized checkpoints at any two moments — evaluated on runs inside the fork-choice premise only (no honest
//     proposal moves, at equal quality, to a head that does not extend the proposer's last vote: Run.TieSwitches == 0;
//     see Bft/Safety.v bft_safety_under_premise_statement); without `safety` a proposal on a best block that does not descend
//     from finalized is not counted as non-monotone either (only imports are: Accepts guards them).
func (r *Run) CheckRun(sc *Script, safety bool) *Failure {
	lastFin := map[int]thor.Bytes32{}
	var allFin []thor.Bytes32
	var finNode []int
	k := 0
	for i, op := range sc.Ops {
		if k >= len(r.ObsOp) || r.ObsOp[k] != i {
			continue
		}
		o := r.Obs[k]
		k++
		if o.Code >= CodeCommitErr && o.Code < CodeNoVote {
			return &Failure{fmt.Sprintf("commitblock-error-on-accepted-block:%d", o.Code-CodeCommitErr),
				fmt.Sprintf("op %d (%s node %d): CommitBlock failed (class %d) on a block whose parent the engine accepts", i, op.Kind, op.Node, o.Code-CodeCommitErr)}
		}
		// "finalized / justified CHECKPOINT": both are first blocks of an epoch (whatever the FINALITY fork height is: the
		// search for them starts at getCheckPoint(FINALITY))
		if num := block.Number(o.Finalized); num%r.Sim.Cfg.L != 0 {
			return &Failure{"finalized-not-at-checkpoint", fmt.Sprintf("op %d: node %d reports finalized #%d, not the first block of an epoch (epoch length %d, FINALITY %d)",
				i, op.Node, num, r.Sim.Cfg.L, r.Sim.Cfg.F)}
		}
		if num := block.Number(o.Justified); o.JustErr == "" && num%r.Sim.Cfg.L != 0 {
			return &Failure{"justified-not-at-checkpoint", fmt.Sprintf("op %d: node %d reports justified #%d, not the first block of an epoch (epoch length %d, FINALITY %d)",
				i, op.Node, num, r.Sim.Cfg.L, r.Sim.Cfg.F)}
		}
		if prev, ok := lastFin[op.Node]; ok && prev != o.Finalized && !r.Sim.Ancestor(prev, o.Finalized) && (safety || op.Kind != "propose") {
			// an own proposal (proposeAndCommit has no Accepts test) on a best block off the finalized branch is the known
			// single-node consequence of F4 (F17); every other non-monotone move of finalized - by an import, or by a proposal
			// whose parent does descend from finalized - keeps the plain class
			if op.Kind == "propose" && !r.Sim.Ancestor(prev, o.Best) {
				return &Failure{F17Class, fmt.Sprintf("op %d: node %d's own proposal (on a best block that does not descend from its finalized #%d) moved finalized to #%d",
					i, op.Node, block.Number(prev), block.Number(o.Finalized))}
			}
			return &Failure{"finalized-not-monotone", fmt.Sprintf("op %d: node %d finalized moved from #%d to #%d which does not descend from it",
				i, op.Node, block.Number(prev), block.Number(o.Finalized))}
		}
		if prev, ok := lastFin[op.Node]; !ok || prev != o.Finalized {
			allFin = append(allFin, o.Finalized)
			finNode = append(finNode, op.Node)
		}
		lastFin[op.Node] = o.Finalized
	}
	for i := range allFin {
		for j := i + 1; j < len(allFin); j++ {
			if safety && r.TieSwitches == 0 && finNode[i] != finNode[j] && r.Sim.Conflict(allFin[i], allFin[j]) {
				return &Failure{"conflicting-finalized", fmt.Sprintf("node %d finalized #%d and node %d finalized #%d: neither is on the other's chain",
					finNode[i], block.Number(allFin[i]), finNode[j], block.Number(allFin[j]))}
			}
		}
	}
	return nil
}

// CheckLiveness evaluates C03's third sentence on node 0 after an all-honest, timely-delivery run: walking the best
// chain, every epoch whose distinct signers exceed two thirds of max-block-proposers is justified; if the chain
// already held a justified epoch when the epoch began it is also committed, and importing its last block moved
// finalized to the checkpoint of the previous justified epoch.
func (r *Run) CheckLiveness() *Failure {
	if r.Sim.Cfg.F != 0 {
		return nil // epochs before / around the fork height are not counted by the engine: the theorem is for FINALITY = 0
	}
	n := r.Nodes[0]
	L := r.Sim.Cfg.L
	best := n.Repo.BestBlockSummary().Header
	ch := n.Repo.NewChain(best.ID())
	var prevQ uint32
	for e := uint32(0); (e+1)*L-1 <= best.Number(); e++ {
		signers := map[thor.Address]bool{}
		for num := e * L; num < (e+1)*L; num++ {
			if num == 0 {
				continue
			}
			id, err := ch.GetBlockID(num)
			if err != nil {
				hx.Fatal("liveness: %v", err)
			}
			s, _ := r.Sim.Blocks[id].Header().Signer()
			signers[s] = true
		}
		sp, _ := ch.GetBlockID((e+1)*L - 1)
		st := n.ScratchState(sp)
		quorum := uint64(len(signers)) > r.Sim.Cfg.MBP*2/3
		if quorum && !st.J {
			return &Failure{"liveness:epoch-not-justified", fmt.Sprintf("epoch %d has %d distinct signers (> %d) but is not justified", e, len(signers), r.Sim.Cfg.MBP*2/3)}
		}
		if quorum && prevQ >= 1 && !st.C {
			return &Failure{"liveness:epoch-not-committed", fmt.Sprintf("epoch %d has %d distinct honest signers and the chain already held a justified epoch (quality %d) but it is not committed", e, len(signers), prevQ)}
		}
		prevQ = st.Q
	}
	return nil
}
