// Package bftsim is the engine-level node simulator shared by the C03/C04 drivers (and reusable by C13/C20/C01/C02):
// n nodes, each with its own in-memory muxdb, real chain.Repository and real bft.Engine, fed with really signed
// blocks whose parent / signer / COM bit / total score are chosen by the caller.  The import path replays
// cmd/thor/node/block_exec.go (known-block and parent-missing guards, bft.Accepts, state commit, bft.Select,
// repo.AddBlock, bft.CommitBlock) without consensus validation and without executing transactions: a block's state is
// its parent's state re-staged under the block's own trie version, which is all bft.Engine reads (max block
// proposers, staker status).
package bftsim

import (
	"fmt"
	"math/big"
	"strings"

	"github.com/ethereum/go-ethereum/crypto"

	"github.com/vechain/thor/v2/bft"
	"github.com/vechain/thor/v2/block"
	"github.com/vechain/thor/v2/chain"
	"github.com/vechain/thor/v2/genesis"
	"github.com/vechain/thor/v2/muxdb"
	"github.com/vechain/thor/v2/state"
	"github.com/vechain/thor/v2/thor"
	"github.com/vechain/thor/v2/trie"

	"verif/harness/internal/hx"
)

// Result codes of Import/Propose (same numbering as Bft/Model.v).
const (
	CodeOK            = 0
	CodeKnown         = 1
	CodeParentMissing = 2
	CodeRejected      = 3
	CodeCommitErr     = 100 // + class of the CommitBlock error
	CodeNoVote        = 200 // proposal abandoned: ShouldVote returned an error
)

type Config struct {
	N   int    // validators (<= 10: the dev accounts)
	L   uint32 // epoch length
	MBP uint64 // max block proposers parameter (PoA threshold base); usually = N
	F   uint32 `json:"F,omitempty"` // forkConfig.FINALITY: the height from which the engine counts votes (0 = from genesis)
}

type Sim struct {
	Cfg      Config
	Accounts []genesis.DevAccount
	FC       *thor.ForkConfig
	gene     *genesis.CustomGenesis
	Genesis  *block.Block
	Blocks   map[thor.Bytes32]*block.Block // every block ever made in this sim
}

func NewSim(cfg Config) *Sim {
	thor.SetConfig(thor.Config{EpochLength: cfg.L})
	fc := thor.NoFork
	fc.FINALITY = cfg.F
	s := &Sim{Cfg: cfg, Accounts: genesis.DevAccounts()[:cfg.N], FC: &fc, Blocks: map[thor.Bytes32]*block.Block{}}
	bal, _ := new(big.Int).SetString("1000000000000000000000000000", 10)
	var auth []genesis.Authority
	var accounts []genesis.Account
	for _, acc := range s.Accounts {
		auth = append(auth, genesis.Authority{MasterAddress: acc.Address, EndorsorAddress: acc.Address, Identity: thor.BytesToBytes32([]byte("master"))})
		accounts = append(accounts, genesis.Account{Address: acc.Address, Balance: (*genesis.HexOrDecimal256)(bal), Energy: (*genesis.HexOrDecimal256)(bal)})
	}
	mbp := cfg.MBP
	s.gene = &genesis.CustomGenesis{LaunchTime: 1526400000, GasLimit: thor.InitialGasLimit, ForkConfig: s.FC, Authority: auth,
		Accounts: accounts, Params: genesis.Params{MaxBlockProposers: &mbp}}
	return s
}

type Node struct {
	Sim    *Sim
	Master int
	DB     *muxdb.MuxDB
	Repo   *chain.Repository
	Stater *state.Stater
	Engine *bft.Engine
}

// genesis.NewCustomNet builds the genesis once into a throw-away in-memory database (to compute its id) that it never
// closes; the builder only depends on (N, MBP), so it is cached for the whole process.
var builders = map[[2]uint64]*genesis.Genesis{}

func (s *Sim) builder() *genesis.Genesis {
	key := [2]uint64{uint64(s.Cfg.N), s.Cfg.MBP}
	if b, ok := builders[key]; ok {
		return b
	}
	b, err := genesis.NewCustomNet(s.gene)
	if err != nil {
		hx.Fatal("genesis: %v", err)
	}
	builders[key] = b
	return b
}

func (s *Sim) NewNode(master int) *Node {
	db := muxdb.NewMem()
	builder := s.builder()
	stater := state.NewStater(db)
	gen, _, _, err := builder.Build(stater)
	if err != nil {
		hx.Fatal("genesis build: %v", err)
	}
	if s.Genesis == nil {
		s.Genesis = gen
		s.Blocks[gen.Header().ID()] = gen
	}
	repo, err := chain.NewRepository(db, gen)
	if err != nil {
		hx.Fatal("repository: %v", err)
	}
	n := &Node{Sim: s, Master: master, DB: db, Repo: repo, Stater: stater}
	n.newEngine()
	return n
}

func (n *Node) newEngine() {
	eng, err := bft.NewEngine(n.Repo, n.DB, n.Sim.FC, n.Sim.Accounts[n.Master].Address)
	if err != nil {
		hx.Fatal("engine: %v", err)
	}
	n.Engine = eng
}

// Restart re-creates Repository and Engine over the same database (what a process restart does).
func (n *Node) Restart() {
	repo, err := chain.NewRepository(n.DB, n.Sim.Genesis)
	if err != nil {
		hx.Fatal("repository reopen: %v", err)
	}
	n.Repo = repo
	n.newEngine()
}

// FreshEngine returns a new engine (cold caches, casts not initialised) over the node's current database.
func (n *Node) FreshEngine() *bft.Engine {
	eng, err := bft.NewEngine(n.Repo, n.DB, n.Sim.FC, n.Sim.Accounts[n.Master].Address)
	if err != nil {
		hx.Fatal("engine: %v", err)
	}
	return eng
}

// MakeBlock builds and signs a block (any parent, any signer, any COM bit, any total score): the caller decides
// whether it is an honest proposal or a Byzantine one. salt distinguishes equivocating siblings.
// The header carries a base fee (the post-GALACTICA header format): only then is the extension (alpha, COM, base fee)
// part of the signing hash and hence of the block id. A header WITHOUT base fee does not bind its COM bit to its id
// (block/header.go signingFields): two such blocks differing only in the COM bit share one id, a node stores whichever
// arrives first, and "the set of blocks" is no longer determined by the ids (this made two nodes "storing the same
// ids" hold different tallies in the thorough tier before the simulator switched to the current header format).
func (s *Sim) MakeBlock(parent *block.Header, signer int, com bool, totalScore uint64, salt uint64) *block.Block {
	builder := new(block.Builder).
		ParentID(parent.ID()).
		Timestamp(parent.Timestamp() + 10 + salt).
		TotalScore(totalScore).
		GasLimit(parent.GasLimit()).
		StateRoot(parent.StateRoot()).
		ReceiptsRoot(parent.ReceiptsRoot()).
		BaseFee(big.NewInt(thor.InitialBaseFee))
	if com {
		builder.COM()
	}
	b := builder.Build()
	sig, err := crypto.Sign(b.Header().SigningHash().Bytes(), s.Accounts[signer].PrivateKey)
	if err != nil {
		hx.Fatal("sign: %v", err)
	}
	b = b.WithSignature(sig)
	s.Blocks[b.Header().ID()] = b
	return b
}

// ErrClass maps a bft error to a stable class number (Bft/Model.v's res codes); 0 = nil.
func ErrClass(err error) int {
	if err == nil {
		return 0
	}
	m := err.Error()
	switch {
	case strings.Contains(m, "headID precedes finalized"):
		return 1
	case strings.Contains(m, "failed find the block by quality"):
		return 2
	case strings.Contains(m, "failed to find the block by quality"):
		return 3
	case strings.Contains(m, "not found"):
		return 4
	}
	return 8
}

// addAndCommit: commit state, Select, AddBlock, CommitBlock — node.commitBlock.
func (n *Node) addAndCommit(b *block.Block, parent *chain.BlockSummary, conflicts uint32, packing bool) (int, error) {
	h := b.Header()
	st := n.Stater.NewState(parent.Root())
	stage, err := st.Stage(trie.Version{Major: h.Number(), Minor: conflicts})
	if err != nil {
		return 0, err
	}
	if _, err := stage.Commit(); err != nil {
		return 0, err
	}
	// node.commitBlock: the engine decides the best block only when both blocks are at or after fork FINALITY, and
	// CommitBlock is called only for blocks at or after it
	F := n.Sim.FC.FINALITY
	prevBest := n.Repo.BestBlockSummary().Header
	var becomeBest bool
	if h.Number() >= F && prevBest.Number() >= F {
		becomeBest, err = n.Engine.Select(h, conflicts)
		if err != nil {
			return 0, fmt.Errorf("bft select: %w", err)
		}
	} else {
		becomeBest = h.BetterThan(prevBest)
	}
	if err := n.Repo.AddBlock(b, nil, conflicts, becomeBest); err != nil {
		return 0, fmt.Errorf("add block: %w", err)
	}
	if h.Number() >= F {
		if err := n.Engine.CommitBlock(h, conflicts, packing); err != nil {
			return CodeCommitErr + ErrClass(err), nil
		}
	}
	return CodeOK, nil
}

// Import replays node.executeAndCommitBlock for a received block. A non-nil error is a harness-level failure
// (Select / AddBlock / state errors), not a modelled outcome.
func (n *Node) Import(b *block.Block) (int, error) {
	h := b.Header()
	if _, err := n.Repo.GetBlockSummary(h.ID()); err == nil {
		return CodeKnown, nil
	} else if !n.Repo.IsNotFound(err) {
		return 0, err
	}
	parent, err := n.Repo.GetBlockSummary(h.ParentID())
	if err != nil {
		if n.Repo.IsNotFound(err) {
			return CodeParentMissing, nil
		}
		return 0, err
	}
	ok, err := n.Engine.Accepts(h.ParentID())
	if err != nil {
		return 0, fmt.Errorf("bft accepts: %w", err)
	}
	if !ok {
		return CodeRejected, nil
	}
	conflicts, err := n.Repo.ScanConflicts(h.Number())
	if err != nil {
		return 0, err
	}
	return n.addAndCommit(b, parent, conflicts, false)
}

// Vote is the canonical form of a (bool, error) answer of ShouldVote: "1", "0" or "E<class>".
func Vote(v bool, err error) string {
	if err != nil {
		return fmt.Sprintf("E%d", ErrClass(err))
	}
	return hx.B(v)
}

// Propose replays node.proposeAndCommit for the node's master on the given parent (the honest caller passes the
// node's best block): COM bit = the engine's ShouldVote(parent); then Select/AddBlock/CommitBlock(isPacking).
// Returns the block, the result code and the canonical ShouldVote answer.
func (n *Node) Propose(parentID thor.Bytes32, totalScore uint64, salt uint64) (*block.Block, int, string, error) {
	parent, err := n.Repo.GetBlockSummary(parentID)
	if err != nil {
		return nil, 0, "", err
	}
	// packer_loop.go: ShouldVote is asked only for a block at or after fork FINALITY
	var v bool
	if parent.Header.Number()+1 >= n.Sim.FC.FINALITY {
		var verr error
		v, verr = n.Engine.ShouldVote(parentID)
		if verr != nil {
			return nil, CodeNoVote, Vote(v, verr), nil // proposeAndCommit returns "get vote" error: no block
		}
	}
	b := n.Sim.MakeBlock(parent.Header, n.Master, v, totalScore, salt)
	conflicts, err := n.Repo.ScanConflicts(b.Header().Number())
	if err != nil {
		return nil, 0, "", err
	}
	code, err := n.addAndCommit(b, parent, conflicts, true)
	return b, code, Vote(v, nil), err
}

// Obs is what is compared with the model after every event.
type Obs struct {
	Code      int
	Pre       string // ShouldVote(parent) of a proposal, "0" otherwise
	Best      thor.Bytes32
	Finalized thor.Bytes32
	Justified thor.Bytes32
	JustErr   string // "" or E<class> when Justified() failed
	Vote      string // ShouldVote(best)
	Q         uint32
	J, C      bool
}

// Observe reads the node's public state after an event (Justified, then ShouldVote(best), then the engine's state of
// block b if it is stored) — the same order as Bft/Model.v `observe`.
func (n *Node) Observe(code int, pre string, b *block.Block) Obs {
	o := Obs{Code: code, Pre: pre}
	best := n.Repo.BestBlockSummary()
	o.Best = best.Header.ID()
	j, err := n.Engine.Justified()
	if err != nil {
		o.JustErr = fmt.Sprintf("E%d", ErrClass(err))
	} else {
		o.Justified = j
	}
	o.Vote = Vote(n.Engine.ShouldVote(o.Best))
	o.Finalized = n.Engine.Finalized()
	if b != nil {
		if sum, err := n.Repo.GetBlockSummary(b.Header().ID()); err == nil {
			q, jj, c, err := n.Engine.VerifState(sum)
			if err != nil {
				hx.Fatal("VerifState: %v", err)
			}
			o.Q, o.J, o.C = q, jj, c
		}
	}
	return o
}

// SignerIndex returns the validator index that signed the header (-1 if none of the sim's validators).
func (s *Sim) SignerIndex(h *block.Header) int {
	a, err := h.Signer()
	if err != nil {
		return -1
	}
	for i, acc := range s.Accounts {
		if acc.Address == a {
			return i
		}
	}
	return -1
}

