package bftsim

import (
	"bytes"
	"fmt"
	"sort"
	"strings"

	"github.com/vechain/thor/v2/block"
	"github.com/vechain/thor/v2/thor"

	"verif/harness/internal/hx"
)

// Op is one step of a replayable script. Blocks are referred to by the Name given by the op that creates them
// (0 is the genesis block), so ops can be removed by the shrinker without renumbering.
//
//	propose: Node proposes on its current best block (COM bit = its engine's ShouldVote), total score = parent's + Score
//	byz:     a block signed by Signer on block Parent with the given COM bit is made (delivered to nobody yet)
//	deliver: block Block is imported by Node
//	restart: Node re-creates its repository and engine on the same database
type Op struct {
	Kind   string `json:"op"`
	Node   int    `json:"node,omitempty"`
	Signer int    `json:"signer,omitempty"`
	Parent int    `json:"parent,omitempty"`
	Block  int    `json:"block,omitempty"`
	Name   int    `json:"name,omitempty"`
	Com    bool   `json:"com,omitempty"`
	Score  uint64 `json:"score,omitempty"`
	Salt   uint64 `json:"salt,omitempty"`
}

type Script struct {
	Cfg   Config `json:"cfg"`
	Nodes []int  `json:"node_masters"` // master (validator index) of each node
	Ops   []Op   `json:"ops"`
}

// Run is an executed script: the real nodes, what was observed after every event, and the oracle's input.
type Run struct {
	Sim    *Sim
	Nodes  []*Node
	Named  map[int]*block.Block
	NameOf map[thor.Bytes32]int
	events []simEvent
	Obs    []Obs
	ObsOp  []int // index of the op behind each observation
	Errs   []string
	// TieSwitches counts honest proposals that leave the proposer's previous own block's chain for a head of the
	// same (not higher) quality — runs with such a proposal are outside the fork-choice premise of bft_safety_partial.
	TieSwitches int
	lastOwn     map[int]thor.Bytes32
}

func Exec(sc *Script) *Run {
	sim := NewSim(sc.Cfg)
	r := &Run{Sim: sim, Named: map[int]*block.Block{}, NameOf: map[thor.Bytes32]int{}, lastOwn: map[int]thor.Bytes32{}}
	for _, m := range sc.Nodes {
		r.Nodes = append(r.Nodes, sim.NewNode(m))
	}
	r.Named[0] = sim.Genesis
	r.NameOf[sim.Genesis.Header().ID()] = 0
	for i, op := range sc.Ops {
		r.exec(i, op)
	}
	return r
}

// Close releases the nodes' in-memory databases (each holds goroutines and buffers).
func (r *Run) Close() {
	for _, n := range r.Nodes {
		n.DB.Close()
	}
}

func (r *Run) name(b *block.Block, name int) {
	r.Named[name] = b
	r.NameOf[b.Header().ID()] = name
}

func (r *Run) exec(i int, op Op) {
	switch op.Kind {
	case "propose":
		if op.Node >= len(r.Nodes) {
			return
		}
		n := r.Nodes[op.Node]
		best := n.Repo.BestBlockSummary().Header
		if last, ok := r.lastOwn[op.Node]; ok && !r.Sim.Ancestor(last, best.ID()) && n.ScratchState(last).Q >= n.ScratchState(best.ID()).Q {
			r.TieSwitches++
		}
		b, code, pre, err := n.Propose(best.ID(), best.TotalScore()+op.Score, op.Salt)
		if err != nil {
			r.Errs = append(r.Errs, fmt.Sprintf("op %d propose: %v", i, err))
			return
		}
		if b == nil {
			r.events = append(r.events, simEvent{kind: "P", node: op.Node, parent: best.ID()})
		} else {
			r.name(b, op.Name)
			r.lastOwn[op.Node] = b.Header().ID()
			r.events = append(r.events, simEvent{kind: "P", node: op.Node, blk: b})
		}
		r.Obs = append(r.Obs, n.Observe(code, pre, b))
		r.ObsOp = append(r.ObsOp, i)
	case "byz":
		p, ok := r.Named[op.Parent]
		if !ok || op.Signer >= r.Sim.Cfg.N {
			return
		}
		b := r.Sim.MakeBlock(p.Header(), op.Signer, op.Com, p.Header().TotalScore()+op.Score, op.Salt)
		if _, dup := r.NameOf[b.Header().ID()]; dup {
			return
		}
		r.name(b, op.Name)
	case "deliver":
		b, ok := r.Named[op.Block]
		if !ok || op.Node >= len(r.Nodes) || op.Block == 0 {
			return
		}
		n := r.Nodes[op.Node]
		code, err := n.Import(b)
		if err != nil {
			r.Errs = append(r.Errs, fmt.Sprintf("op %d deliver: %v", i, err))
			return
		}
		r.events = append(r.events, simEvent{kind: "I", node: op.Node, blk: b})
		r.Obs = append(r.Obs, n.Observe(code, "0", b))
		r.ObsOp = append(r.ObsOp, i)
	case "restart":
		if op.Node >= len(r.Nodes) {
			return
		}
		n := r.Nodes[op.Node]
		n.Restart()
		r.events = append(r.events, simEvent{kind: "R", node: op.Node})
		r.Obs = append(r.Obs, n.Observe(0, "0", nil))
		r.ObsOp = append(r.ObsOp, i)
	}
}

type simEvent struct {
	kind   string
	node   int
	blk    *block.Block
	parent thor.Bytes32 // abandoned proposal: the intended parent
}

// idMap compresses the 32-byte ids of the run into small numbers for the oracle: number * 2^32 + rank, where rank
// (>= 1) is the position of the id among all ids of the run in byte order. The map is injective, preserves the byte
// order of ids and the embedded block number — the only things the model uses ids for.
func (r *Run) idMap() map[thor.Bytes32]uint64 {
	ids := make([]thor.Bytes32, 0, len(r.Sim.Blocks))
	for id := range r.Sim.Blocks {
		ids = append(ids, id)
	}
	sort.Slice(ids, func(i, j int) bool { return bytes.Compare(ids[i][:], ids[j][:]) < 0 })
	m := make(map[thor.Bytes32]uint64, len(ids))
	for i, id := range ids {
		m[id] = uint64(block.Number(id))<<32 | uint64(i+1)
	}
	return m
}

func (r *Run) blockLine(m map[thor.Bytes32]uint64, b *block.Block) string {
	h := b.Header()
	signer := 0 // validators are handed to the model as index+1 (0 = nobody: the genesis block)
	if h.Number() > 0 {
		signer = r.Sim.SignerIndex(h) + 1
	}
	return fmt.Sprintf("%x %x %x %s %x", m[h.ID()], m[h.ParentID()], signer, hx.B(h.COM()), h.TotalScore())
}

// OracleLine renders the whole run for the extracted model:
// RUN guard L mbp pos total finality | signer weight .. | genesis block | master .. | event ; event ; ..
func (r *Run) OracleLine(guard bool) string {
	m := r.idMap()
	var b strings.Builder
	fmt.Fprintf(&b, "RUN %s %x %x 0 0 %x | | %s |", hx.B(guard), r.Sim.Cfg.L, r.Sim.Cfg.MBP, r.Sim.Cfg.F, r.blockLine(m, r.Sim.Genesis))
	for _, n := range r.Nodes {
		fmt.Fprintf(&b, " %x", n.Master+1)
	}
	b.WriteString(" |")
	for i, e := range r.events {
		if i > 0 {
			b.WriteString(" ;")
		}
		switch {
		case e.kind == "R":
			fmt.Fprintf(&b, " R %x", e.node)
		case e.blk == nil:
			fmt.Fprintf(&b, " P %x 0 %x 0 0 0", e.node, m[e.parent])
		default:
			fmt.Fprintf(&b, " %s %x %s", e.kind, e.node, r.blockLine(m, e.blk))
		}
	}
	return b.String()
}

// Expected is the implementation's side of the comparison, one observation per event.
func (r *Run) Expected() []string {
	m := r.idMap()
	out := make([]string, len(r.Obs))
	for i := range r.Obs {
		o := &r.Obs[i]
		just := o.JustErr
		if just == "" {
			just = fmt.Sprintf("%x", m[o.Justified])
		}
		out[i] = fmt.Sprintf("%x %s %x %x %s %s %x %s %s", o.Code, o.Pre, m[o.Best], m[o.Finalized], just, o.Vote, o.Q, hx.B(o.J), hx.B(o.C))
	}
	return out
}

var obsFields = []string{"result-code", "should-vote-parent", "best", "finalized", "justified", "should-vote-best", "quality", "justified-flag", "committed-flag"}

// Diff compares the oracle's answer with the observations: index of the first differing event and the field name.
func (r *Run) Diff(answer string) (int, string, string, string) {
	got := strings.Split(answer, ";")
	want := r.Expected()
	for i := range want {
		if i >= len(got) {
			return i, "shape", want[i], ""
		}
		g := strings.Join(strings.Fields(got[i]), " ")
		if g != want[i] {
			wf, gf := strings.Fields(want[i]), strings.Fields(g)
			for k := range wf {
				if k >= len(gf) || wf[k] != gf[k] {
					return i, obsFields[k], want[i], g
				}
			}
			return i, "shape", want[i], g
		}
	}
	if len(got) != len(want) && !(len(want) == 0 && strings.TrimSpace(answer) == "") {
		return len(want), "shape", "", ""
	}
	return -1, "", "", ""
}
