package bftsim

import (
	"encoding/json"
	"fmt"
	"strings"
	"sync"

	"github.com/vechain/thor/v2/block"

	"verif/harness/internal/hx"
)

// ModelGuard selects the CommitBlock variant the model runs: true = with the guard "nothing to finalize unless the
// committed epoch's checkpoint is after finalized" (the code after the F1 repair).
const ModelGuard = true

// Case is a replayable correspondence case.
type Case struct {
	Kind   string  `json:"kind"` // "script"
	Safety bool    `json:"safety"`
	Honest bool    `json:"honest,omitempty"` // all validators honest, timely delivery: the liveness predicate applies
	Label  string  `json:"label,omitempty"`
	Script *Script `json:"script"`
}

type outcome struct {
	fail     *Failure // property predicate failed on the implementation
	disagree string   // model/implementation disagreement (field name), "" if none
	detail   string
	harness  string // harness-level error
}

func evalScript(ctx *hx.Ctx, c *Case) (*Run, outcome) {
	r := Exec(c.Script)
	defer r.Close()
	var o outcome
	if len(r.Errs) > 0 {
		o.harness = strings.Join(r.Errs, "; ")
	}
	if f := r.CheckRun(c.Script, c.Safety); f != nil {
		o.fail = f
		return r, o
	}
	for _, n := range r.Nodes {
		if f := n.CheckNode(); f != nil {
			o.fail = f
			return r, o
		}
	}
	if f := r.CheckSameSet(); f != nil {
		o.fail = f
		return r, o
	}
	if c.Honest {
		if f := r.CheckLiveness(); f != nil {
			o.fail = f
			return r, o
		}
	}
	ans, err := hx.AskAll(ctx.Oracle, []string{r.OracleLine(ModelGuard)})
	if err != nil {
		hx.Fatal("oracle: %v", err)
	}
	if i, field, want, got := r.Diff(ans[0]); i >= 0 {
		o.disagree = field
		o.detail = fmt.Sprintf("event %d (op %d): impl=[%s] model=[%s]", i, r.opOf(i), want, got)
	}
	return r, o
}

func (r *Run) opOf(ev int) int {
	if ev < len(r.ObsOp) {
		return r.ObsOp[ev]
	}
	return -1
}

// shrink removes ops while `bad` still holds (delta debugging, one op at a time from the end, then pairs).
func shrink(c *Case, bad func(*Case) bool) *Case {
	cur := c
	budget := 120 // evaluations per shrink; the process-wide budget bounds the total time spent shrinking
	for changed := true; changed && budget > 0 && shrinkBudget > 0; {
		changed = false
		for chunk := len(cur.Script.Ops) / 2; chunk >= 1; chunk /= 2 {
			for i := len(cur.Script.Ops) - chunk; i >= 0; i -= chunk {
				if i+chunk > len(cur.Script.Ops) {
					continue
				}
				x := *cur
				xs := *cur.Script
				xs.Ops = append(append([]Op{}, cur.Script.Ops[:i]...), cur.Script.Ops[i+chunk:]...)
				x.Script = &xs
				budget--
				shrinkBudget--
				if budget <= 0 || shrinkBudget <= 0 {
					return cur
				}
				if bad(&x) {
					cur = &x
					changed = true
				}
			}
		}
	}
	return cur
}

// AskParallel runs the oracle over the lines in `shards` processes.
func AskParallel(oracle string, lines []string, shards int) []string {
	if shards > len(lines) {
		shards = len(lines)
	}
	if shards <= 1 {
		ans, err := hx.AskAll(oracle, lines)
		if err != nil {
			hx.Fatal("oracle: %v", err)
		}
		return ans
	}
	out := make([]string, len(lines))
	var wg sync.WaitGroup
	var failed error
	var mu sync.Mutex
	for s := 0; s < shards; s++ {
		wg.Add(1)
		go func(s int) {
			defer wg.Done()
			var idx []int
			var part []string
			for i := s; i < len(lines); i += shards {
				idx = append(idx, i)
				part = append(part, lines[i])
			}
			ans, err := hx.AskAll(oracle, part)
			if err != nil {
				mu.Lock()
				failed = err
				mu.Unlock()
				return
			}
			for k, i := range idx {
				out[i] = ans[k]
			}
		}(s)
	}
	wg.Wait()
	if failed != nil {
		hx.Fatal("oracle: %v", failed)
	}
	return out
}

// RunCases executes the cases on the real engines (sequentially: the epoch length is process-global configuration),
// evaluates the property predicates, asks the model about all of them in parallel, diffs; anything that fails is
// re-run alone, shrunk and reported. nontrivial(run, script) classifies a case for the coverage count.
func RunCases(ctx *hx.Ctx, cases []*Case, nontrivial func(*Run, *Script) bool) {
	type pend struct {
		c    *Case
		want []string
		fail bool
	}
	var ps []pend
	var lines []string
	for _, c := range cases {
		r := Exec(c.Script)
		canon, _ := json.Marshal(c.Script)
		nt := nontrivial != nil && nontrivial(r, c.Script)
		var sample any
		if nt {
			sample = map[string]any{"label": c.Label, "cfg": c.Script.Cfg, "ops": len(c.Script.Ops), "events": len(r.Obs), "blocks": len(r.Sim.Blocks),
				"max_finalized_number": r.MaxFinalized()}
		}
		ctx.Cov.Case(string(canon), nt, sample)
		r.account(ctx, c)
		p := pend{c: c, want: r.Expected()}
		if len(r.Errs) > 0 || r.CheckRun(c.Script, c.Safety) != nil || r.CheckSameSet() != nil || (c.Honest && r.CheckLiveness() != nil) {
			p.fail = true
		}
		for _, n := range r.Nodes {
			if !p.fail && n.CheckNode() != nil {
				p.fail = true
			}
		}
		ps = append(ps, p)
		lines = append(lines, r.OracleLine(ModelGuard))
		r.Close()
	}
	ans := AskParallel(ctx.Oracle, lines, 16)
	for i, p := range ps {
		bad := p.fail
		if !bad {
			got := strings.Split(ans[i], ";")
			if len(got) != len(p.want) && !(len(p.want) == 0 && strings.TrimSpace(ans[i]) == "") {
				bad = true
			}
			for k := range p.want {
				if !bad && strings.Join(strings.Fields(got[k]), " ") != p.want[k] {
					bad = true
				}
			}
		}
		if bad {
			reportCase(ctx, p.c)
		}
	}
}

// reportCase re-runs one failing case, shrinks it and reports it.
func reportCase(ctx *hx.Ctx, c *Case) {
	_, o := evalScript(ctx, c)
	if o.harness != "" {
		ctx.Violation("harness:"+c.Label, "the simulator could not run the real engine on this script (Select/AddBlock/state error): "+o.harness, c, false)
		return
	}
	if o.fail != nil {
		cls := o.fail.Class
		if reported["property:"+cls] {
			return
		}
		sc := shrink(c, func(x *Case) bool { _, ox := evalScript(ctx, x); return ox.fail != nil && ox.fail.Class == cls })
		_, os := evalScript(ctx, sc)
		ctx.Violation("property:"+cls, os.fail.Detail, sc, true)
		reported["property:"+cls] = true
		return
	}
	if o.disagree != "" {
		if reported["correspondence:"+o.disagree] {
			return
		}
		// model and implementation disagree although the direct predicates hold here: look for a direct failure on
		// shrunk variants, otherwise report the broken correspondence with the smallest disagreeing script.
		var direct *Case
		sc := shrink(c, func(x *Case) bool {
			_, ox := evalScript(ctx, x)
			if ox.fail != nil && direct == nil {
				direct = x
			}
			return ox.disagree != ""
		})
		if direct != nil {
			_, od := evalScript(ctx, direct)
			ctx.Violation("property:"+od.fail.Class, od.fail.Detail, direct, true)
			return
		}
		_, os := evalScript(ctx, sc)
		ctx.Violation("correspondence:"+os.disagree, "correspondence Bft.Model ~ bft.Engine no longer checks (the theorems are about the model): "+os.detail, sc, false)
		reported["correspondence:"+os.disagree] = true
	}
}

var shrinkBudget = 600

// classes already reported in this process (one shrink + report per class is enough)
var reported = map[string]bool{}

func (r *Run) account(ctx *hx.Ctx, c *Case) {
	ctx.Cov.Count("cases:" + c.Label)
	ctx.Cov.Add("events", len(r.Obs))
	ctx.Cov.Bucket("blocks-per-case", len(r.Sim.Blocks))
	ctx.Cov.Count(fmt.Sprintf("n=%d", c.Script.Cfg.N))
	ctx.Cov.Count(fmt.Sprintf("L=%d", c.Script.Cfg.L))
	switch F, L := c.Script.Cfg.F, c.Script.Cfg.L; {
	case F == 0:
		ctx.Cov.Count("finality-fork:0")
	case F%L == 0:
		ctx.Cov.Count("finality-fork:aligned")
	default:
		ctx.Cov.Count("finality-fork:unaligned")
	}
	for _, o := range r.Obs {
		switch {
		case o.Code == CodeOK:
			ctx.Cov.Count("result:ok")
		case o.Code == CodeKnown:
			ctx.Cov.Count("result:known")
		case o.Code == CodeParentMissing:
			ctx.Cov.Count("result:parent-missing")
		case o.Code == CodeRejected:
			ctx.Cov.Count("result:bft-rejected")
		case o.Code == CodeNoVote:
			ctx.Cov.Count("result:vote-error")
		default:
			ctx.Cov.Count("result:commit-error")
		}
		if o.C {
			ctx.Cov.Count("block-state:committed")
		} else if o.J {
			ctx.Cov.Count("block-state:justified")
		}
		if o.Vote == "1" {
			ctx.Cov.Count("should-vote:COM")
		}
		if o.JustErr != "" {
			ctx.Cov.Count("justified:error")
		}
	}
	for _, n := range r.Nodes {
		if n.Engine.Finalized() != r.Sim.Genesis.Header().ID() {
			ctx.Cov.Count("nodes-with-finality")
		}
	}
	if r.TieSwitches > 0 {
		ctx.Cov.Count("runs-outside-fork-choice-premise(tie-switch)")
		if f := r.conflictIgnoringPremise(c.Script); f {
			ctx.Cov.Count("engine-level-conflicting-finality-outside-premise")
		}
	}
}

// MaxFinalized is the highest finalized block number any node reached during the run.
func (r *Run) MaxFinalized() uint32 {
	var m uint32
	for _, o := range r.Obs {
		if x := block.Number(o.Finalized); x > m {
			m = x
		}
	}
	return m
}

// CheckSameSet: two nodes that stored the same set of blocks, none of whose imports was refused, and whose finalizing
// blocks all lie on one chain must report the same best block, finalized and justified checkpoints.
func (r *Run) CheckSameSet() *Failure {
	for i := 0; i < len(r.Nodes); i++ {
		for j := i + 1; j < len(r.Nodes); j++ {
			a, b := r.Nodes[i], r.Nodes[j]
			sa, sb := a.Stored(), b.Stored()
			if len(sa) != len(sb) {
				continue
			}
			same := true
			for k := range sa {
				if sa[k] != sb[k] {
					same = false
				}
			}
			if !same {
				continue
			}
			if ba, bb := a.Repo.BestBlockSummary().Header.ID(), b.Repo.BestBlockSummary().Header.ID(); ba != bb {
				return &Failure{"same-blocks-different-best", fmt.Sprintf("nodes %d and %d store the same %d blocks but report best %s / %s", i, j, len(sa), ba.String()[:14], bb.String()[:14])}
			}
			if !r.finalizersOnOneChain(a) {
				continue
			}
			if fa, fb := a.Engine.Finalized(), b.Engine.Finalized(); fa != fb {
				return &Failure{"same-blocks-different-finalized", fmt.Sprintf("nodes %d and %d store the same %d blocks (all finalizing blocks on one chain) but finalized %s / %s", i, j, len(sa), fa.String()[:14], fb.String()[:14])}
			}
			ja, ea := a.Engine.Justified()
			jb, eb := b.Engine.Justified()
			if (ea == nil) != (eb == nil) || (ea == nil && ja != jb) {
				return &Failure{"same-blocks-different-justified", fmt.Sprintf("nodes %d and %d store the same %d blocks but justified %s (%v) / %s (%v)", i, j, len(sa), ja.String()[:14], ea, jb.String()[:14], eb)}
			}
		}
	}
	return nil
}

// finalizersOnOneChain: the stored store-point blocks that are committed with quality > 1 are pairwise non-conflicting.
func (r *Run) finalizersOnOneChain(n *Node) bool {
	L := r.Sim.Cfg.L
	var fins [][32]byte
	for _, id := range n.Stored() {
		sum, _ := n.Repo.GetBlockSummary(id)
		if num := sum.Header.Number(); num%L != L-1 {
			continue
		}
		st := n.ScratchState(id)
		if st.C && st.Q > 1 {
			fins = append(fins, id)
		}
	}
	for i := range fins {
		for j := i + 1; j < len(fins); j++ {
			if r.Sim.Conflict(fins[i], fins[j]) {
				return false
			}
		}
	}
	return true
}

// conflictIgnoringPremise: do two nodes hold conflicting finalized checkpoints at the end of the run (reported as
// coverage only for runs outside the fork-choice premise, e.g. the scripted F4 history).
func (r *Run) conflictIgnoringPremise(sc *Script) bool {
	for i := range r.Nodes {
		for j := i + 1; j < len(r.Nodes); j++ {
			if r.Sim.Conflict(r.Nodes[i].Engine.Finalized(), r.Nodes[j].Engine.Finalized()) {
				return true
			}
		}
	}
	return false
}
