package bftsim

// Node-level replay of the F4 history (DESIGN §5-F4) with NOTHING chosen as data except clocks, delivery order, the
// Byzantine validator's choices (parent, slot, COM bit) and the validator keys:
//   * every block is produced by the real packer.Packer (Schedule / Pack) on the producing node's own repository and
//     state: timestamp, slot ownership, proposer activity updates and TotalScore come from scheduler.PoASchedulerV2;
//   * every delivery runs the real consensus.Consensus.Process on the receiving node's own repository/state with the
//     receiving node's clock (future-block rule included), then the import path of cmd/thor/node/block_exec.go
//     (bft.Accepts, state commit, bft.Select, repo.AddBlock, bft.CommitBlock);
//   * an honest validator proposes only on its own Repository.BestBlockSummary(), with the COM bit its own
//     bft.Engine.ShouldVote returns, at the slot its own packer schedules for its clock.
// The validator keys are searched (deterministically from a counter) so that the Blake2b(seed, number, address) order
// of the PoA scheduler at parent heights 0..6 is the one the history needs (probability about 1/20000 per key set:
// an adversary does not choose it, but nothing prevents it either).

import (
	"crypto/ecdsa"
	"crypto/sha256"
	"encoding/binary"
	"fmt"
	"math/big"

	"github.com/ethereum/go-ethereum/crypto"

	"github.com/vechain/thor/v2/bft"
	"github.com/vechain/thor/v2/block"
	"github.com/vechain/thor/v2/chain"
	"github.com/vechain/thor/v2/consensus"
	"github.com/vechain/thor/v2/genesis"
	"github.com/vechain/thor/v2/muxdb"
	"github.com/vechain/thor/v2/packer"
	"github.com/vechain/thor/v2/state"
	"github.com/vechain/thor/v2/thor"
)

const f4T = 10 // block interval (thor default)

// F17Class: the single-node consequence (an honest node's own proposal off its finalized branch moves finalized to a
// conflicting checkpoint).
const F17Class = "finalized-not-monotone:own-proposal-off-finalized-branch"

// F4Class identifies the finding in known_findings.json.
const F4Class = "safety:conflicting-finality:own-vote-left-quality-window"

type RealNode struct {
	Name   string
	Master int // index into keys; -1: observer
	DB     *muxdb.MuxDB
	Repo   *chain.Repository
	Stater *state.Stater
	Engine *bft.Engine
	Cons   *consensus.Consensus
	Clock  uint64
	Fins   []thor.Bytes32 // every finalized value the node ever held
}

type RealWorld struct {
	FC      *thor.ForkConfig
	Keys    []genesis.DevAccount
	Genesis *block.Block
	Nodes   []*RealNode
	Blocks  map[string]*block.Block
	Log     []string
	t0      uint64
}

func f4key(counter uint64) genesis.DevAccount {
	var b [8]byte
	binary.BigEndian.PutUint64(b[:], counter)
	h := sha256.Sum256(append([]byte("verif-f4-key"), b[:]...))
	k, err := crypto.ToECDSA(h[:])
	if err != nil {
		return f4key(counter + 1<<40)
	}
	return genesis.DevAccount{Address: thor.Address(crypto.PubkeyToAddress(k.PublicKey)), PrivateKey: k}
}

// rank of an address in the scheduler's order for a block on a parent of the given number (seed is nil below
// 2*SeederInterval)
func f4rank(parentNum uint32, a thor.Address) string {
	var num [4]byte
	binary.BigEndian.PutUint32(num[:], parentNum)
	h := thor.Blake2b(nil, num[:], a.Bytes())
	return string(h.Bytes())
}

// F4Keys searches four validator keys (v1,v2,v3 honest, v4 Byzantine) with the needed hash orders:
// height 0: v1 first; 1: v2 first; 2: v3 first; 3: v3 then v1 first; 4: v2 before v1 and v4; 5, 6: v4 before v1 and v2.
func F4Keys() []genesis.DevAccount {
	const pool = 96
	ks := make([]genesis.DevAccount, pool)
	rk := make([][7]string, pool)
	for i := range ks {
		ks[i] = f4key(uint64(i))
		for h := 0; h < 7; h++ {
			rk[i][h] = f4rank(uint32(h), ks[i].Address)
		}
	}
	lt := func(a, b, h int) bool { return rk[a][h] < rk[b][h] }
	for v3 := 0; v3 < pool; v3++ {
		for v1 := 0; v1 < pool; v1++ {
			if v1 == v3 || !lt(v3, v1, 3) || !lt(v3, v1, 2) || !lt(v1, v3, 0) {
				continue
			}
			for v2 := 0; v2 < pool; v2++ {
				if v2 == v1 || v2 == v3 || !lt(v1, v2, 0) || !lt(v2, v1, 1) || !lt(v2, v3, 1) || !lt(v3, v2, 2) || !lt(v1, v2, 3) || !lt(v2, v1, 4) {
					continue
				}
				for v4 := 0; v4 < pool; v4++ {
					if v4 == v1 || v4 == v2 || v4 == v3 {
						continue
					}
					if lt(v1, v4, 0) && lt(v2, v4, 1) && lt(v3, v4, 2) && lt(v1, v4, 3) && lt(v2, v4, 4) &&
						lt(v4, v1, 5) && lt(v4, v2, 5) && lt(v4, v1, 6) && lt(v4, v2, 6) {
						return []genesis.DevAccount{ks[v1], ks[v2], ks[v3], ks[v4]}
					}
				}
			}
		}
	}
	return nil
}

func NewRealWorld(keys []genesis.DevAccount, L uint32, observers int) (*RealWorld, error) {
	thor.SetConfig(thor.Config{EpochLength: L, BlockInterval: f4T})
	fc := thor.ForkConfig{VIP191: 0, ETH_CONST: 0, BLOCKLIST: 0, ETH_IST: 0, VIP214: 0, FINALITY: 0,
		GALACTICA: ^uint32(0), HAYABUSA: ^uint32(0)}
	w := &RealWorld{FC: &fc, Keys: keys, Blocks: map[string]*block.Block{}, t0: 1526400000}
	bal, _ := new(big.Int).SetString("1000000000000000000000000000", 10)
	var auth []genesis.Authority
	var accounts []genesis.Account
	for _, acc := range keys {
		auth = append(auth, genesis.Authority{MasterAddress: acc.Address, EndorsorAddress: acc.Address, Identity: thor.BytesToBytes32([]byte("master"))})
		accounts = append(accounts, genesis.Account{Address: acc.Address, Balance: (*genesis.HexOrDecimal256)(bal), Energy: (*genesis.HexOrDecimal256)(bal)})
	}
	mbp := uint64(len(keys))
	gene := &genesis.CustomGenesis{LaunchTime: w.t0, GasLimit: thor.InitialGasLimit, ForkConfig: &fc, Authority: auth,
		Accounts: accounts, Params: genesis.Params{MaxBlockProposers: &mbp}}
	builder, err := genesis.NewCustomNet(gene)
	if err != nil {
		return nil, err
	}
	for i := 0; i < len(keys)+observers; i++ {
		db := muxdb.NewMem()
		stater := state.NewStater(db)
		gen, _, _, err := builder.Build(stater)
		if err != nil {
			return nil, err
		}
		w.Genesis = gen
		repo, err := chain.NewRepository(db, gen)
		if err != nil {
			return nil, err
		}
		master, name := i, fmt.Sprintf("v%d", i+1)
		addr := thor.Address{}
		if i < len(keys) {
			addr = keys[i].Address
		} else {
			master, name = -1, fmt.Sprintf("obs%d", i-len(keys))
		}
		eng, err := bft.NewEngine(repo, db, &fc, addr)
		if err != nil {
			return nil, err
		}
		w.Nodes = append(w.Nodes, &RealNode{Name: name, Master: master, DB: db, Repo: repo, Stater: stater, Engine: eng,
			Cons: consensus.New(repo, stater, &fc), Clock: w.t0, Fins: []thor.Bytes32{eng.Finalized()}})
	}
	w.Blocks["g"] = w.Genesis
	return w, nil
}

func (w *RealWorld) Close() {
	for _, n := range w.Nodes {
		n.DB.Close()
	}
}

func (w *RealWorld) logf(f string, a ...any) { w.Log = append(w.Log, fmt.Sprintf(f, a...)) }

func (n *RealNode) noteFin() {
	if f := n.Engine.Finalized(); f != n.Fins[len(n.Fins)-1] {
		n.Fins = append(n.Fins, f)
	}
}

// Deliver = node.executeAndCommitBlock at the node's clock `at` (slot units after genesis; never moves the clock back).
func (w *RealWorld) Deliver(n *RealNode, name string, at uint64) error {
	b := w.Blocks[name]
	if b == nil {
		return fmt.Errorf("deliver %s: no such block", name)
	}
	if t := w.t0 + at*f4T; t > n.Clock {
		n.Clock = t
	}
	h := b.Header()
	if _, err := n.Repo.GetBlockSummary(h.ID()); err == nil {
		return nil
	}
	parent, err := n.Repo.GetBlockSummary(h.ParentID())
	if err != nil {
		return fmt.Errorf("%s deliver %s: parent: %w", n.Name, name, err)
	}
	ok, err := n.Engine.Accepts(h.ParentID())
	if err != nil {
		return err
	}
	if !ok {
		w.logf("%s refuses %s (not a descendant of finalized)", n.Name, name)
		return nil
	}
	conflicts, err := n.Repo.ScanConflicts(h.Number())
	if err != nil {
		return err
	}
	stage, receipts, err := n.Cons.Process(parent, b, n.Clock, conflicts)
	if err != nil {
		return fmt.Errorf("%s deliver %s: consensus rejects: %w", n.Name, name, err)
	}
	if _, err := stage.Commit(); err != nil {
		return err
	}
	best, err := n.Engine.Select(h, conflicts)
	if err != nil {
		return err
	}
	if err := n.Repo.AddBlock(b, receipts, conflicts, best); err != nil {
		return err
	}
	if err := n.Engine.CommitBlock(h, conflicts, false); err != nil {
		return fmt.Errorf("%s deliver %s: CommitBlock: %w", n.Name, name, err)
	}
	n.noteFin()
	return nil
}

// Pack = node.proposeAndCommit: the node's master packs on `parent` (honest: its best block; "" means best) at its
// clock; vote nil = the engine's ShouldVote (honest), else the given COM bit (Byzantine).
func (w *RealWorld) Pack(n *RealNode, name, parentName string, at uint64, vote *bool) (*block.Block, error) {
	if t := w.t0 + at*f4T; t > n.Clock {
		n.Clock = t
	}
	parent := n.Repo.BestBlockSummary()
	if parentName != "" {
		p, err := n.Repo.GetBlockSummary(w.Blocks[parentName].Header().ID())
		if err != nil {
			return nil, fmt.Errorf("%s pack %s: parent %s: %w", n.Name, name, parentName, err)
		}
		parent = p
	}
	com, err := n.Engine.ShouldVote(parent.Header.ID()) // proposeAndCommit always asks (this also creates the votes record)
	if vote != nil {
		com = *vote // Byzantine: ignores the answer
	} else if err != nil {
		return nil, fmt.Errorf("%s pack %s: ShouldVote: %w", n.Name, name, err)
	}
	key := w.Keys[n.Master]
	p := packer.New(n.Repo, n.Stater, key.Address, nil, w.FC, 0)
	flow, err := p.Schedule(parent, n.Clock)
	if err != nil {
		return nil, fmt.Errorf("%s pack %s: schedule: %w", n.Name, name, err)
	}
	if flow.When() > n.Clock {
		n.Clock = flow.When() // the packer loop waits for its slot
	}
	conflicts, err := n.Repo.ScanConflicts(parent.Header.Number() + 1)
	if err != nil {
		return nil, err
	}
	b, stage, receipts, err := flow.Pack(key.PrivateKey, conflicts, com)
	if err != nil {
		return nil, fmt.Errorf("%s pack %s: %w", n.Name, name, err)
	}
	if _, err := stage.Commit(); err != nil {
		return nil, err
	}
	h := b.Header()
	best, err := n.Engine.Select(h, conflicts)
	if err != nil {
		return nil, err
	}
	if err := n.Repo.AddBlock(b, receipts, conflicts, best); err != nil {
		return nil, err
	}
	if err := n.Engine.CommitBlock(h, conflicts, true); err != nil {
		return nil, fmt.Errorf("%s pack %s: CommitBlock: %w", n.Name, name, err)
	}
	n.noteFin()
	w.Blocks[name] = b
	w.logf("%-4s by %s on %-4s slot %3d score +%d total %3d com %v best %v", name, n.Name, w.nameOf(parent.Header.ID()),
		(h.Timestamp()-w.t0)/f4T, h.TotalScore()-parent.Header.TotalScore(), h.TotalScore(), h.COM(), best)
	return b, nil
}

func (w *RealWorld) nameOf(id thor.Bytes32) string {
	for k, b := range w.Blocks {
		if b.Header().ID() == id {
			return k
		}
	}
	return id.String()[:10]
}

// ancestor-or-equal on the union of all blocks
func (w *RealWorld) onChain(a, b thor.Bytes32) bool {
	byID := map[thor.Bytes32]*block.Block{}
	for _, x := range w.Blocks {
		byID[x.Header().ID()] = x
	}
	for cur := b; ; {
		if cur == a {
			return true
		}
		x := byID[cur]
		if x == nil || x.Header().Number() == 0 {
			return false
		}
		cur = x.Header().ParentID()
	}
}

type F4RealResult struct {
	NonMonotone bool   // one honest node's finalized moved to a block that does not descend from its previous finalized
	MonoNode    string // that node, and the two checkpoints
	MonoFrom    string
	MonoTo      string
	Conflict    bool
	A, B        string // names of two conflicting finalized checkpoints held by honest nodes
	NodeA       string
	NodeB       string
	Log         []string
	HonestOnBest bool
}

// F4Real runs the history. Clocks are in slots after genesis.
func F4Real() (*F4RealResult, error) { return f4Real(false) }

// F4RealOwnProposal: the same history until 18Y; then v1 (whose best block is 18Y) receives 10X and 11X - it finalizes 4X by
// import while its best block stays on Y (higher quality) - and packs the store point 19Y itself: proposeAndCommit has no
// Accepts test, CommitBlock finalizes 12Y, which conflicts with 4X. One honest node, one Byzantine validator of four.
func F4RealOwnProposal() (*F4RealResult, error) { return f4Real(true) }

func f4Real(ownProposal bool) (*F4RealResult, error) {
	keys := F4Keys()
	if keys == nil {
		return nil, fmt.Errorf("no key set with the needed scheduler orders in the pool")
	}
	w, err := NewRealWorld(keys, 4, 0)
	if err != nil {
		return nil, err
	}
	defer w.Close()
	v1, v2, v3, v4 := w.Nodes[0], w.Nodes[1], w.Nodes[2], w.Nodes[3]
	yes, no := true, false
	var firstErr error
	// honest proposal: always on the node's own best block, own ShouldVote; `want` is only checked, never forced
	honest := func(n *RealNode, name, want string, at uint64) {
		if firstErr != nil {
			return
		}
		if got := w.nameOf(n.Repo.BestBlockSummary().Header.ID()); got != want {
			firstErr = fmt.Errorf("%s's best block before %s is %s, the history needs %s", n.Name, name, got, want)
			return
		}
		if _, err := w.Pack(n, name, "", at, nil); err != nil {
			firstErr = err
			return
		}
		// the Byzantine node sees everything at once (except 11X: its own repository would finalize 4X and refuse branch Y;
		// a Byzantine validator is not bound by its own engine, this only spares a second repository for it)
		if name == "11X" {
			return
		}
		if err := w.Deliver(v4, name, (w.Blocks[name].Header().Timestamp()-w.t0)/f4T); err != nil {
			firstErr = err
		}
	}
	byz := func(name, parent string, at uint64, com *bool) {
		if firstErr != nil {
			return
		}
		if _, err := w.Pack(v4, name, parent, at, com); err != nil {
			firstErr = err
		}
	}
	deliver := func(n *RealNode, at uint64, names ...string) {
		for _, b := range names {
			if firstErr != nil {
				return
			}
			if err := w.Deliver(n, b, at); err != nil {
				firstErr = err
			}
		}
	}
	// common prefix 1,2,3 (every proposer first in its order: nobody is marked inactive)
	honest(v1, "1", "g", 1)
	deliver(v2, 1, "1")
	deliver(v3, 1, "1")
	honest(v2, "2", "1", 2)
	deliver(v1, 2, "2")
	deliver(v3, 2, "2")
	honest(v3, "3", "2", 3)
	deliver(v1, 3, "3")
	deliver(v2, 3, "3")
	// 4X by v3 in the first slot; 4Y by v1 in the second slot (has not received 4X): score +3
	honest(v3, "4X", "3", 4)
	honest(v1, "4Y", "3", 5)
	deliver(v2, 5, "4Y")
	honest(v2, "5Y", "4Y", 6)
	byz("6Y", "5Y", 7, &no)
	byz("7Y", "6Y", 8, &no)
	// v1 receives 4X late (slot 9): better score than its own 4Y at equal quality -> builds 5X a round late (+1)
	deliver(v1, 9, "4X")
	honest(v1, "5X", "4X", 9)
	byz("6X", "5X", 17, &no)
	deliver(v3, 22, "5X", "6X")
	honest(v3, "7X", "6X", 22)
	honest(v3, "8X", "7X", 26)
	deliver(v1, 30, "6X", "7X", "8X")
	honest(v1, "9X", "8X", 30)
	byz("10X", "9X", 36, &yes)
	deliver(v2, 42, "4X", "5X", "6X", "7X", "8X", "9X", "10X")
	honest(v2, "11X", "10X", 42) // epoch 2 of X commits -> v2 finalizes 4X
	// v1 receives 5Y..7Y: same quality as its X head 9X, higher total score -> moves to Y
	deliver(v1, 44, "5Y", "6Y", "7Y")
	honest(v1, "8Y", "7Y", 44)
	deliver(v3, 48, "4Y", "5Y", "6Y", "7Y", "8Y", "9X")
	honest(v3, "9Y", "8Y", 48)
	byz("10Y", "9Y", 52, &no)
	byz("11Y", "10Y", 54, &no)
	deliver(v1, 56, "9Y", "10Y", "11Y")
	honest(v1, "12Y", "11Y", 56)
	deliver(v3, 60, "10Y", "11Y", "12Y")
	honest(v3, "13Y", "12Y", 60)
	byz("14Y", "13Y", 64, &no)
	byz("15Y", "14Y", 66, &no)
	deliver(v1, 68, "13Y", "14Y", "15Y")
	honest(v1, "16Y", "15Y", 68)
	deliver(v3, 72, "14Y", "15Y", "16Y")
	honest(v3, "17Y", "16Y", 72)
	byz("18Y", "17Y", 76, &yes)
	if ownProposal {
		deliver(v1, 80, "17Y", "18Y")
		deliver(v1, 81, "10X", "11X")
		honest(v1, "19Y'", "18Y", 82)
	} else {
		byz("19Y", "18Y", 78, &yes)
		deliver(v1, 80, "17Y", "18Y", "19Y")
		deliver(v3, 80, "18Y", "19Y")
	}
	res := &F4RealResult{Log: w.Log, HonestOnBest: firstErr == nil}
	if firstErr != nil {
		return res, firstErr
	}
	for i, a := range w.Nodes[:3] {
		for _, b := range w.Nodes[i+1 : 3] {
			for _, fa := range a.Fins {
				for _, fb := range b.Fins {
					if !w.onChain(fa, fb) && !w.onChain(fb, fa) {
						res.Conflict, res.A, res.B, res.NodeA, res.NodeB = true, w.nameOf(fa), w.nameOf(fb), a.Name, b.Name
					}
				}
			}
		}
	}
	for _, n := range w.Nodes[:3] {
		for k := 1; k < len(n.Fins); k++ {
			if !w.onChain(n.Fins[k-1], n.Fins[k]) {
				res.NonMonotone, res.MonoNode, res.MonoFrom, res.MonoTo = true, n.Name, w.nameOf(n.Fins[k-1]), w.nameOf(n.Fins[k])
			}
		}
	}
	for _, n := range w.Nodes[:3] {
		var fs []string
		for _, f := range n.Fins {
			fs = append(fs, w.nameOf(f))
		}
		res.Log = append(res.Log, fmt.Sprintf("%s finalized: %v", n.Name, fs))
	}
	return res, nil
}

var _ = ecdsa.PrivateKey{}
