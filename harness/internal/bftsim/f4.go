package bftsim

// F4Script is the history of DESIGN §5-F4 as a replayable script: n = 4, epoch length 4, validator 3 Byzantine, honest
// validators 0,1,2 (v1,v2,v3) run nodes 0,1,2 and only ever propose on their own best block with the COM bit their
// engine computes. Block names: 1..3 common prefix, 100+num on branch Y, 200+num on branch X. The per-block score
// increments (all within 1..n) are data of the script: they make Y win the two quality ties at which v1 and v3
// move from X to Y. Expected end: node 1 (v2) finalizes 4X, nodes 0 and 2 finalize 12Y.
func F4Script() *Script {
	sc := &Script{Cfg: Config{N: 4, L: 4, MBP: 4}, Nodes: []int{0, 1, 2}}
	add := func(op Op) { sc.Ops = append(sc.Ops, op) }
	propose := func(node, name int, score uint64) { add(Op{Kind: "propose", Node: node, Name: name, Score: score}) }
	byz := func(parent, name int, com bool, score uint64) {
		add(Op{Kind: "byz", Signer: 3, Parent: parent, Name: name, Com: com, Score: score})
	}
	deliver := func(node int, names ...int) {
		for _, b := range names {
			add(Op{Kind: "deliver", Node: node, Block: b})
		}
	}
	propose(0, 1, 4)
	deliver(1, 1)
	deliver(2, 1)
	propose(1, 2, 4)
	deliver(0, 2)
	deliver(2, 2)
	propose(2, 3, 4)
	deliver(0, 3)
	deliver(1, 3)
	// branch Y starts: 4Y by v1, 5Y by v2, 6Y 7Y by the Byzantine validator (epoch 1 justified on Y)
	propose(0, 104, 1)
	deliver(1, 104)
	propose(1, 105, 4)
	byz(105, 106, false, 4)
	byz(106, 107, false, 4)
	// branch X: 4X by v3 (has not seen Y), 5X by v1 (4X beats its own 4Y on score), 6X Byzantine, 7X 8X by v3, 9X by v1
	propose(2, 204, 4)
	deliver(0, 204)
	propose(0, 205, 1)
	byz(205, 206, false, 1)
	deliver(2, 205, 206)
	propose(2, 207, 1)
	propose(2, 208, 1)
	deliver(0, 206, 207, 208)
	propose(0, 209, 1)
	byz(209, 210, true, 1)
	// v2 receives X up to 10X (quality 3) and votes COM on it: its only earlier vote (5Y, quality 1) left the window
	deliver(1, 204, 205, 206, 207, 208, 209, 210)
	propose(1, 211, 1) // 11X: epoch 2 on X committed -> v2 finalizes 4X
	// v1 now receives Y up to 7Y: same quality as its X head, higher score -> moves to Y
	deliver(0, 105, 106, 107)
	propose(0, 108, 4)
	deliver(2, 104, 105, 106, 107, 108, 209)
	propose(2, 109, 4)
	byz(109, 110, false, 4)
	byz(110, 111, false, 4)
	deliver(0, 109, 110, 111)
	propose(0, 112, 4)
	deliver(2, 110, 111, 112)
	propose(2, 113, 4)
	byz(113, 114, false, 4)
	byz(114, 115, false, 4)
	deliver(0, 113, 114, 115)
	propose(0, 116, 4)
	deliver(2, 114, 115, 116)
	propose(2, 117, 4)
	byz(117, 118, true, 4)
	byz(118, 119, true, 4)
	deliver(0, 117, 118, 119)
	deliver(2, 118, 119)
	return sc
}
