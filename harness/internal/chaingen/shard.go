package chaingen

import (
	"bufio"
	"bytes"
	"flag"
	"fmt"
	"os"
	"os/exec"
	"path/filepath"
	"sync"

	"verif/harness/internal/hx"
)

// Sharding of a tier over worker sub-processes.  Every chain builds its own genesis through genesis.NewCustomNet, whose
// Builder.ComputeID opens an in-memory leveldb that the repo never closes (a few MiB each, kept alive by its goroutines):
// thousands of chains in one process exhaust memory.  A worker runs a slice [from,to) of the tier's cases and exits,
// which returns that memory; shards also run in parallel.
var (
	ShardFrom = flag.Int("shard-from", -1, "worker mode: first case index of the shard")
	ShardTo   = flag.Int("shard-to", -1, "worker mode: end (exclusive) of the shard")
)

func IsWorker() bool { return *ShardFrom >= 0 && *ShardTo >= 0 }
func InShard(i int) bool {
	return !IsWorker() || (i >= *ShardFrom && i < *ShardTo)
}

// RunShards runs cases [0,n) in workers of `size` cases, `par` at a time, merges their results into ctx and relays
// their VIOLATION / KNOWN-FINDING lines once.  No new shard is started after a violation.
func RunShards(ctx *hx.Ctx, n, size, par int) {
	tmp, err := os.MkdirTemp("", "verif-shards-")
	if err != nil {
		hx.Fatal("%v", err)
	}
	defer os.RemoveAll(tmp)
	type job struct{ from, to int }
	jobs := make(chan job)
	var mu sync.Mutex
	printed := map[string]bool{}
	stop := false
	var wg sync.WaitGroup
	for w := 0; w < par; w++ {
		wg.Add(1)
		go func() {
			defer wg.Done()
			for j := range jobs {
				mu.Lock()
				s := stop
				mu.Unlock()
				if s {
					continue
				}
				out := filepath.Join(tmp, fmt.Sprintf("res-%d.json", j.from))
				cmd := exec.Command(os.Args[0], "-tier", ctx.Tier, "-seed", fmt.Sprint(ctx.Seed), "-oracle", ctx.Oracle, "-out", out,
					"-known", ctx.Known, "-replaydir", ctx.ReplayDir, "-shard-from", fmt.Sprint(j.from), "-shard-to", fmt.Sprint(j.to))
				var buf bytes.Buffer
				cmd.Stdout = &buf
				cmd.Stderr = os.Stderr
				err := cmd.Run()
				mu.Lock()
				sc := bufio.NewScanner(&buf)
				sc.Buffer(make([]byte, 1<<20), 1<<24)
				for sc.Scan() {
					if l := sc.Text(); !printed[l] {
						printed[l] = true
						fmt.Println(l)
					}
				}
				if merr := ctx.MergeResult(out, fmt.Sprint(j.from)); merr != nil {
					mu.Unlock()
					hx.Fatal("worker for cases [%d,%d) left no result (%v, exit: %v)", j.from, j.to, merr, err)
				}
				if len(ctx.Violations) > 0 {
					stop = true
				}
				mu.Unlock()
			}
		}()
	}
	for a := 0; a < n; a += size {
		b := a + size
		if b > n {
			b = n
		}
		jobs <- job{a, b}
	}
	close(jobs)
	wg.Wait()
}
