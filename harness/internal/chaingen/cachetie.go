package chaingen

import (
	"fmt"
	"sort"
	"strings"

	"github.com/vechain/thor/v2/block"
	"github.com/vechain/thor/v2/builtin"
	"github.com/vechain/thor/v2/builtin/staker/validation"
	"github.com/vechain/thor/v2/chain"
	"github.com/vechain/thor/v2/consensus"
	"github.com/vechain/thor/v2/scheduler"
	"github.com/vechain/thor/v2/thor"
	"github.com/vechain/thor/v2/tx"

	"verif/harness/internal/hx"
)

// ---------------------------------------------------------------- correspondence of the cache model (coq/Validation/Cache.v)

// UpdatesFor: the scheduler's activity updates for (signer, t) on parent, computed with the real scheduler.
func (c *Chain) UpdatesFor(parent *chain.BlockSummary, signer thor.Address, t uint64) []scheduler.Proposer {
	st := c.Stater.NewState(parent.Root())
	if _, err := c.applyUpdates(st, parent, signer, t); err != nil {
		return nil
	}
	return c.lastUps
}

// EventsTokens: "auth params staker benefset | parties*" — what the cachers look at in the receipts.
func EventsTokens(rs tx.Receipts) string {
	var auth, params, stk, bset bool
	bsetID := thor.Bytes32{}
	if ev, ok := builtin.Staker.Events().EventByName("BeneficiarySet"); ok {
		bsetID = ev.ID()
	}
	parties := map[thor.Address]bool{}
	for _, r := range rs {
		for _, o := range r.Outputs {
			for _, ev := range o.Events {
				switch ev.Address {
				case builtin.Authority.Address:
					auth = true
				case builtin.Params.Address:
					params = true
				case builtin.Staker.Address:
					stk = true
					if len(ev.Topics) > 0 && ev.Topics[0] == bsetID {
						bset = true
					}
				}
			}
			for _, t := range o.Transfers {
				parties[t.Sender] = true
				parties[t.Recipient] = true
			}
		}
	}
	var ps []string
	for a := range parties {
		ps = append(ps, hx.HexN(a.Bytes()))
	}
	sort.Strings(ps)
	return fmt.Sprintf("%s %s %s %s | %s", hx.B(auth), hx.B(params), hx.B(stk), hx.B(bset), strings.Join(ps, " "))
}

func HasBeneficiarySet(rs tx.Receipts) bool { return strings.Fields(EventsTokens(rs))[3] == "1" }

// PoAFresh: what fresh reads of the state at parent give for a child: AllCandidates with the balance-check result of
// every pair, the proposer limit; plus the two real reads (authority.Candidates — packer; NewCandidates(All).Pick — validator).
type PoAFresh struct {
	All     string // (master endorsor active funded)*
	MBP     uint64
	Walk    string // masters of authority.Candidates
	Pick    string // masters of AllCandidates + Pick
	WalkAct string // master:active of authority.Candidates
}

func (c *Chain) PoAFreshAt(parent *chain.BlockSummary) (*PoAFresh, error) {
	st := c.Stater.NewState(parent.Root())
	num := parent.Header.Number() + 1
	stk := builtin.Staker.Native(st)
	if _, err := stk.SyncPOS(c.Fork, num); err != nil {
		return nil, err
	}
	endorsement, err := builtin.Params.Native(st).Get(thor.KeyProposerEndorsement)
	if err != nil {
		return nil, err
	}
	mbp, err := thor.GetMaxBlockProposers(builtin.Params.Native(st), true)
	if err != nil {
		return nil, err
	}
	check := stk.TransitionPeriodBalanceCheck(c.Fork, num, endorsement)
	auth := builtin.Authority.Native(st)
	all, err := auth.AllCandidates()
	if err != nil {
		return nil, err
	}
	f := &PoAFresh{MBP: mbp}
	var b strings.Builder
	for _, a := range all {
		ok, err := check(a.NodeMaster, a.Endorsor)
		if err != nil {
			return nil, err
		}
		fmt.Fprintf(&b, " %s %s %s %s", hx.HexN(a.NodeMaster.Bytes()), hx.HexN(a.Endorsor.Bytes()), hx.B(a.Active), hx.B(ok))
	}
	f.All = b.String()
	walk, err := auth.Candidates(check, mbp)
	if err != nil {
		return nil, err
	}
	var w, wa []string
	for _, a := range walk {
		w = append(w, hx.HexN(a.NodeMaster.Bytes()))
		wa = append(wa, hx.HexN(a.NodeMaster.Bytes())+":"+hx.B(a.Active))
	}
	f.Walk, f.WalkAct = strings.Join(w, " "), strings.Join(wa, " ")
	picked, err := scheduler.NewCandidates(all).Pick(st, check)
	if err != nil {
		return nil, err
	}
	var pk []string
	for _, p := range picked {
		pk = append(pk, hx.HexN(p.Address.Bytes()))
	}
	f.Pick = strings.Join(pk, " ")
	return f, nil
}

// CacheEntry renders the warm validator's cache entry for a block id: kind "none" | "poa" | "pos".
type CacheEntry struct {
	Kind string
	List string // poa: (master endorsor active)* ; pos: (addr active weight benef)*
	Sat  string // poa: indices
}

func ProbeCache(cons *consensus.Consensus, id thor.Bytes32) CacheEntry {
	v, ok := cons.VerifCachedEntry(id)
	if !ok {
		return CacheEntry{Kind: "none"}
	}
	switch e := v.(type) {
	case *scheduler.Candidates:
		list, sat := e.VerifView()
		var b strings.Builder
		for _, a := range list {
			fmt.Fprintf(&b, " %s %s %s", hx.HexN(a.NodeMaster.Bytes()), hx.HexN(a.Endorsor.Bytes()), hx.B(a.Active))
		}
		var s []string
		for _, i := range sat {
			s = append(s, fmt.Sprint(i))
		}
		return CacheEntry{Kind: "poa", List: strings.TrimSpace(b.String()), Sat: strings.Join(s, " ")}
	case []validation.Leader:
		return CacheEntry{Kind: "pos", List: leadersTokens(e)}
	}
	return CacheEntry{Kind: "other"}
}

func leadersTokens(ls []validation.Leader) string {
	var b strings.Builder
	for _, l := range ls {
		fmt.Fprintf(&b, " %s %s %x %s", hx.HexN(l.Address.Bytes()), hx.B(l.Active), l.Weight, optAddr(l.Beneficiary))
	}
	return strings.TrimSpace(b.String())
}

func (v *PView) LeadersTokens() string {
	var b strings.Builder
	for _, cd := range v.Cands {
		fmt.Fprintf(&b, " %s %s %x %s", hx.HexN(cd.Addr.Bytes()), hx.B(cd.Active), cd.Weight, optAddr(cd.Benef))
	}
	return strings.TrimSpace(b.String())
}

func UpdatesTokens(ups []scheduler.Proposer) string {
	var b strings.Builder
	for _, u := range ups {
		fmt.Fprintf(&b, " %s %s", hx.HexN(u.Address.Bytes()), hx.B(u.Active))
	}
	return b.String()
}

func orNone(s string) string {
	if strings.TrimSpace(s) == "" {
		return ""
	}
	return s
}

// CacheLines builds the oracle line for one warm validation step and the answer the real validator's cache gives.
// pre = entry for the parent right before the warm Process, postParent / post = entries for parent / block right after.
func (c *Chain) CacheLines(view *PView, fresh *PoAFresh, blk *block.Block, rs tx.Receipts, ups []scheduler.Proposer,
	pre, postParent, post CacheEntry) (line, want string) {
	if view.PoS {
		cached := "none"
		if pre.Kind == "pos" {
			cached = pre.List
		}
		line = fmt.Sprintf("S %s | %s | %s | %s %s", hx.B(view.Updates), cached, view.LeadersTokens(), hx.B(len(ups) == 0), hx.B(HasBeneficiarySet(rs)))
		parent := "kept"
		if postParent.Kind == "none" {
			parent = "dropped"
		}
		if pre.Kind == "none" {
			parent = "dropped"
		}
		ent := "none"
		if post.Kind == "pos" {
			ent = strings.TrimSpace("entry " + post.List)
		}
		want = strings.TrimSpace("used "+view.LeadersTokens()) + " | parent " + parent + " | " + ent
		return
	}
	entry, sat := "none", ""
	if pre.Kind == "poa" {
		entry, sat = pre.List, pre.Sat
	}
	line = fmt.Sprintf("C %s %x |%s | %s | %s |%s | %s", hx.B(blk.Header().Number() >= c.Fork.HAYABUSA), fresh.MBP, fresh.All, entry, sat,
		UpdatesTokens(ups), EventsTokens(rs))
	want = strings.TrimSpace("proposers " + fresh.WalkAct)
	if len(strings.Fields(fresh.All)) == 4 {
		// exactly one listed authority node: authority.Update treats an entry with neither Prev nor Next as unlisted and
		// does not write its Active flag (Get has a special case for the only node, Update has not), while Candidates.Update
		// does update the cached copy: the cached flag may differ from the state's.  The proposer part is not compared there.
		want = "proposers *"
	}
	if post.Kind == "poa" {
		want += " | " + strings.TrimSpace("entry "+post.List) + " ; " + post.Sat
	} else {
		want += " | none"
	}
	return
}
