package chaingen

import (
	"crypto/ecdsa"
	"fmt"
	"math/big"

	"github.com/ethereum/go-ethereum/crypto"
	"github.com/ethereum/go-ethereum/rlp"

	"github.com/vechain/thor/v2/block"
	"github.com/vechain/thor/v2/builtin"
	"github.com/vechain/thor/v2/chain"
	"github.com/vechain/thor/v2/runtime"
	"github.com/vechain/thor/v2/scheduler"
	"github.com/vechain/thor/v2/state"
	"github.com/vechain/thor/v2/thor"
	"github.com/vechain/thor/v2/trie"
	"github.com/vechain/thor/v2/tx"
	"github.com/vechain/thor/v2/vrf"
	"github.com/vechain/thor/v2/xenv"
)

func mustRLP(v any) []byte {
	b, err := rlp.EncodeToBytes(v)
	if err != nil {
		panic(err)
	}
	return b
}

// Plan describes a block to build on a parent: every header field free, transactions really executed in that
// context (after the scheduler's activity updates for the signer / time, as both packer and validator apply them),
// roots computed from the execution unless overridden, signed by Key.  It is a GENERATOR of inputs (C02's mutants);
// with the fields of a real packed block it must reproduce that block's id (checked by the drivers).
type Plan struct {
	Key         *ecdsa.PrivateKey
	Time        uint64
	GasLimit    uint64
	TotalScore  uint64
	Beneficiary thor.Address
	Txs         tx.Transactions
	Features    tx.Features
	BaseFee     *big.Int // nil = absent
	Alpha       []byte   // used iff the signature is complex (or ForceAlpha)
	ForceAlpha  bool     // put Alpha in the header even with a 65-byte signature
	COM         bool
	SigMode     int // 0 = by fork (65 before VIP214, 65+81 after), 1 = force 65, 2 = force complex, 3 = complex with garbage proof

	GasUsed      *uint64
	StateRoot    *thor.Bytes32
	ReceiptsRoot *thor.Bytes32
	TxsRoot      *thor.Bytes32 // applied by rebuilding the header through a fake tx list is impossible: see Build
}

// PlanOf copies the fields of a real block (the identity plan).
func (c *Chain) PlanOf(b *block.Block, key *ecdsa.PrivateKey) *Plan {
	h := b.Header()
	return &Plan{Key: key, Time: h.Timestamp(), GasLimit: h.GasLimit(), TotalScore: h.TotalScore(), Beneficiary: h.Beneficiary(),
		Txs: b.Transactions(), Features: h.TxsFeatures(), BaseFee: h.BaseFee(), Alpha: h.Alpha(), COM: h.COM()}
}

// applyUpdates performs, on st, what validate / Schedule do before executing transactions: staker.SyncPOS and the
// scheduler's activity updates for (signer, time).  Returns whether PoS is active.
func (c *Chain) applyUpdates(st *state.State, parent *chain.BlockSummary, signer thor.Address, t uint64) (bool, error) {
	num := parent.Header.Number() + 1
	c.lastUps = nil
	staker := builtin.Staker.Native(st)
	ds, err := staker.SyncPOS(c.Fork, num)
	if err != nil {
		return false, err
	}
	if t <= parent.Header.Timestamp() {
		return ds.Active, nil
	}
	if ds.Active {
		leaders, err := staker.LeaderGroup()
		if err != nil {
			return true, err
		}
		ps := make([]scheduler.Proposer, 0, len(leaders))
		for _, l := range leaders {
			ps = append(ps, scheduler.Proposer{Address: l.Address, Active: l.Active, Weight: l.Weight})
		}
		_, total, err := staker.LockedStake()
		if err != nil {
			return true, err
		}
		seed, err := scheduler.NewSeeder(c.Repo).Generate(parent.Header.ID())
		if err != nil {
			return true, err
		}
		s, err := scheduler.NewPoSScheduler(signer, ps, parent.Header.Number(), parent.Header.Timestamp(), seed, total)
		if err != nil {
			return true, nil // not a member: the validator rejects before any update
		}
		ups, _ := s.Updates(t)
		c.lastUps = ups
		for _, u := range ups {
			if err := staker.SetOnline(u.Address, num, u.Active); err != nil {
				return true, err
			}
		}
		return true, nil
	}
	endorsement, err := builtin.Params.Native(st).Get(thor.KeyProposerEndorsement)
	if err != nil {
		return false, err
	}
	mbp, err := thor.GetMaxBlockProposers(builtin.Params.Native(st), true)
	if err != nil {
		return false, err
	}
	auth := builtin.Authority.Native(st)
	cs, err := auth.Candidates(staker.TransitionPeriodBalanceCheck(c.Fork, num, endorsement), mbp)
	if err != nil {
		return false, err
	}
	ps := make([]scheduler.Proposer, 0, len(cs))
	for _, a := range cs {
		ps = append(ps, scheduler.Proposer{Address: a.NodeMaster, Active: a.Active})
	}
	var s scheduler.Scheduler
	if num < c.Fork.VIP214 {
		s, err = scheduler.NewPoASchedulerV1(signer, ps, parent.Header.Number(), parent.Header.Timestamp())
	} else {
		var seed []byte
		seed, err = scheduler.NewSeeder(c.Repo).Generate(parent.Header.ID())
		if err != nil {
			return false, err
		}
		s, err = scheduler.NewPoASchedulerV2(signer, ps, parent.Header.Number(), parent.Header.Timestamp(), seed)
	}
	if err != nil {
		return false, nil
	}
	if (t-parent.Header.Timestamp())%Interval != 0 {
		return false, nil
	}
	ups, _ := s.Updates(t)
	c.lastUps = ups
	for _, u := range ups {
		if _, err := auth.Update(u.Address, u.Active); err != nil {
			return false, err
		}
	}
	return false, nil
}

// Build executes the plan on parent and signs the result.
func (c *Chain) Build(parent *chain.BlockSummary, p *Plan) (*block.Block, *ExecInfo, error) {
	num := parent.Header.Number() + 1
	signer := thor.Address(crypto.PubkeyToAddress(p.Key.PublicKey))
	st := c.Stater.NewState(parent.Root())
	pos, err := c.applyUpdates(st, parent, signer, p.Time)
	if err != nil {
		return nil, nil, err
	}
	rt := runtime.New(c.Repo.NewChain(parent.Header.ID()), st, &xenv.BlockContext{
		Beneficiary: p.Beneficiary, Signer: signer, Number: num, Time: p.Time, GasLimit: p.GasLimit,
		TotalScore: p.TotalScore, BaseFee: p.BaseFee}, c.Fork)
	ex := &ExecInfo{Sanity: true, RewardsOK: true}
	var gasUsed uint64
	var receipts tx.Receipts
	failed := false
	for _, t := range p.Txs {
		if failed {
			ex.Receipts = append(ex.Receipts, nil)
			continue
		}
		r, err := safeExec(rt, t)
		if err != nil {
			failed = true
			ex.Receipts = append(ex.Receipts, nil)
			continue
		}
		gasUsed += r.GasUsed
		receipts = append(receipts, r)
		ex.Receipts = append(ex.Receipts, r)
	}
	if pos {
		staker := builtin.Staker.Native(st)
		if err := staker.ContractBalanceCheck(0); err != nil {
			ex.Sanity = false
		}
		energy := builtin.Energy.Native(st, p.Time)
		if err := energy.DistributeRewards(p.Beneficiary, signer, staker, num); err != nil {
			ex.RewardsOK = false
		}
	}
	stage, err := st.Stage(trie.Version{Major: num, Minor: 0})
	if err != nil {
		return nil, nil, err
	}
	ex.StateRoot = stage.Hash()
	ex.ReceiptsRoot = receipts.RootHash()

	gu := gasUsed
	if p.GasUsed != nil {
		gu = *p.GasUsed
	}
	sr, rr := ex.StateRoot, ex.ReceiptsRoot
	if p.StateRoot != nil {
		sr = *p.StateRoot
	}
	if p.ReceiptsRoot != nil {
		rr = *p.ReceiptsRoot
	}
	bld := new(block.Builder).Beneficiary(p.Beneficiary).GasLimit(p.GasLimit).ParentID(parent.Header.ID()).Timestamp(p.Time).
		TotalScore(p.TotalScore).GasUsed(gu).ReceiptsRoot(rr).StateRoot(sr).TransactionFeatures(p.Features).BaseFee(p.BaseFee)
	for _, t := range p.Txs {
		bld.Transaction(t)
	}
	if p.COM {
		bld.COM()
	}
	complexSig := num >= c.Fork.VIP214
	switch p.SigMode {
	case 1:
		complexSig = false
	case 2, 3:
		complexSig = true
	}
	if complexSig || p.ForceAlpha {
		bld.Alpha(p.Alpha)
	}
	nb := bld.Build()
	sig, err := crypto.Sign(nb.Header().SigningHash().Bytes(), p.Key)
	if err != nil {
		return nil, nil, err
	}
	if complexSig {
		_, proof, err := vrf.Prove(p.Key, p.Alpha)
		if err != nil {
			return nil, nil, err
		}
		if p.SigMode == 3 {
			for i := range proof {
				proof[i] ^= byte(0x5a + i)
			}
		}
		cs, err := block.NewComplexSignature(sig, proof)
		if err != nil {
			return nil, nil, err
		}
		sig = cs
	}
	return nb.WithSignature(sig), ex, nil
}

func safeExec(rt *runtime.Runtime, t *tx.Transaction) (r *tx.Receipt, err error) {
	defer func() {
		if p := recover(); p != nil {
			err = errPanic
		}
	}()
	return rt.ExecuteTransaction(t)
}

var errPanic = &panicErr{}

type panicErr struct{}

func (*panicErr) Error() string { return "panic in ExecuteTransaction" }

// ExecOf gives the ExecInfo of a real packed / accepted block (its own receipts and roots).
func ExecOf(b *block.Block, receipts tx.Receipts, stateRoot thor.Bytes32) *ExecInfo {
	ex := &ExecInfo{Sanity: true, RewardsOK: true, StateRoot: stateRoot, ReceiptsRoot: receipts.RootHash()}
	for _, r := range receipts {
		ex.Receipts = append(ex.Receipts, r)
	}
	return ex
}

// WithUnusedReserved re-encodes a legacy transaction with a second, non-empty entry in its reserved list (which the
// validator must reject: "unused reserved slot") and signs it again.
func WithUnusedReserved(t *tx.Transaction, key *ecdsa.PrivateKey) (*tx.Transaction, error) {
	enc, err := rlp.EncodeToBytes(t)
	if err != nil {
		return nil, err
	}
	var items []rlp.RawValue
	if err := rlp.DecodeBytes(enc, &items); err != nil || len(items) != 10 {
		return nil, fmt.Errorf("not a legacy tx encoding (%d items): %v", len(items), err)
	}
	res, _ := rlp.EncodeToBytes([]rlp.RawValue{{0x80}, {0x01}})
	items[8] = res
	items[9] = rlp.RawValue{0x80}
	enc2, err := rlp.EncodeToBytes(items)
	if err != nil {
		return nil, err
	}
	var t2 tx.Transaction
	if err := rlp.DecodeBytes(enc2, &t2); err != nil {
		return nil, err
	}
	return tx.Sign(&t2, key)
}
