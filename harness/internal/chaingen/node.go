package chaingen

import (
	"context"
	"fmt"
	"os"
	"strings"

	"github.com/ethereum/go-ethereum/event"

	"github.com/vechain/thor/v2/bft"
	"github.com/vechain/thor/v2/block"
	"github.com/vechain/thor/v2/chain"
	"github.com/vechain/thor/v2/cmd/thor/node"
	"github.com/vechain/thor/v2/comm"
	"github.com/vechain/thor/v2/consensus"
	"github.com/vechain/thor/v2/muxdb"
	"github.com/vechain/thor/v2/packer"
	"github.com/vechain/thor/v2/state"
	"github.com/vechain/thor/v2/thor"
	"github.com/vechain/thor/v2/tx"
	"github.com/vechain/thor/v2/txpool"
)

type nopPool struct{}

func (nopPool) Get(thor.Bytes32) *tx.Transaction       { return nil }
func (nopPool) Add(*tx.Transaction) error              { return nil }
func (nopPool) AddLocal(*tx.Transaction) error         { return nil }
func (nopPool) StrictlyAdd(*tx.Transaction) error      { return nil }
func (nopPool) Remove(thor.Bytes32, thor.Bytes32) bool { return false }
func (nopPool) Dump() tx.Transactions                  { return nil }
func (nopPool) Len() int                               { return 0 }
func (nopPool) Executables() tx.Transactions           { return nil }
func (nopPool) Fill(tx.Transactions)                   {}
func (nopPool) Close()                                 {}
func (nopPool) SubscribeTxEvent(chan *txpool.TxEvent) event.Subscription {
	return event.NewSubscription(func(q <-chan struct{}) error { <-q; return nil })
}

type nopComm struct{}

func (nopComm) Sync(context.Context, comm.HandleBlockStream) {}
func (nopComm) SubscribeBlock(chan *comm.NewBlockEvent) event.Subscription {
	return event.NewSubscription(func(q <-chan struct{}) error { <-q; return nil })
}
func (nopComm) BroadcastBlock(*block.Block) {}
func (nopComm) PeerCount() int              { return 1 }
func (nopComm) Synced() <-chan struct{}     { return make(chan struct{}) }

// Replica is a second, real node (cmd/thor/node.Node over its own muxdb, repository, bft engine, consensus) that
// follows the chain through the node's own import path (processBlock -> executeAndCommitBlock, hook
// cmd/thor/node/verif_hooks_import.go).  C02 feeds it the mutants before the valid block of each height.
type Replica struct {
	DB     *muxdb.MuxDB
	Repo   *chain.Repository
	Stater *state.Stater
	Node   *node.Node
}

func (c *Chain) NewReplica() (*Replica, error) {
	r := &Replica{DB: muxdb.NewMem()}
	r.Stater = state.NewStater(r.DB)
	b0, _, _, err := c.gen.Build(r.Stater)
	if err != nil {
		return nil, err
	}
	if b0.Header().ID() != c.Genesis.Header().ID() {
		return nil, fmt.Errorf("replica genesis differs")
	}
	r.Repo, err = chain.NewRepository(r.DB, b0)
	if err != nil {
		return nil, err
	}
	master := c.Users[0]
	eng, err := bft.NewEngine(r.Repo, r.DB, c.Fork, master.Addr)
	if err != nil {
		return nil, err
	}
	dir, _ := os.MkdirTemp("", "c02stash")
	os.RemoveAll(dir)
	r.Node = node.New(&node.Master{PrivateKey: master.Key}, r.Repo, eng, r.Stater, nil, nopPool{}, dir, nopComm{}, c.Fork,
		node.Options{TargetGasLimit: 10_000_000, SkipLogs: true},
		consensus.New(r.Repo, r.Stater, c.Fork),
		packer.New(r.Repo, r.Stater, master.Addr, &master.Addr, c.Fork, 0))
	return r, r.Node.VerifInit()
}

func (r *Replica) Close() {
	r.Node.VerifClose()
	r.DB.Close()
}

// Import feeds a block to the node's import path; class: ok | critical | future | other:<text> | panic:<text>.
func (r *Replica) Import(b *block.Block) (class string) {
	defer func() {
		if p := recover(); p != nil {
			class = "panic:" + fmt.Sprint(p)
		}
	}()
	_, err := r.Node.VerifProcessBlock(b)
	switch {
	case err == nil:
		return "ok"
	case consensus.IsCritical(err):
		return "critical"
	case consensus.IsFutureBlock(err):
		return "future"
	}
	return "other:" + err.Error()
}

// Digest is the replica repository's content through its public API (+ whether `probe` is stored, + a balance at best).
func (r *Replica) Digest(probe thor.Bytes32, who thor.Address) string {
	var b strings.Builder
	best := r.Repo.BestBlockSummary()
	max, _ := r.Repo.GetMaxBlockNum()
	fmt.Fprintf(&b, "best=%x max=%d", best.Header.ID(), max)
	for n := uint32(0); n <= max+1; n++ {
		k, _ := r.Repo.ScanConflicts(n)
		ids, _ := r.Repo.GetConflicts(n)
		fmt.Fprintf(&b, " %d:%d:%d", n, k, len(ids))
		for _, id := range ids {
			fmt.Fprintf(&b, ":%x", id[:6])
		}
	}
	if _, err := r.Repo.GetBlockSummary(probe); err == nil {
		b.WriteString(" probe-present")
	}
	if _, err := r.Repo.GetBlockReceipts(probe); err == nil {
		b.WriteString(" probe-receipts-present")
	}
	bal, _ := r.Stater.NewState(best.Root()).GetBalance(who)
	fmt.Fprintf(&b, " bal=%s", bal)
	return b.String()
}
