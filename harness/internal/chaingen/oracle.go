package chaingen

import (
	"fmt"
	"math/big"
	"strings"

	"github.com/vechain/thor/v2/block"
	"github.com/vechain/thor/v2/builtin"
	"github.com/vechain/thor/v2/chain"
	"github.com/vechain/thor/v2/thor"
	"github.com/vechain/thor/v2/tx"

	"verif/harness/internal/hx"
)

// ---------------------------------------------------------------- rendering of the views the model reads

func optAddr(a *thor.Address) string {
	if a == nil {
		return "-"
	}
	return hx.HexN(a.Bytes())
}

func (c *Chain) cfgTokens() string {
	f := c.Fork
	return fmt.Sprintf("%x %x %x %x %x %x %x", f.VIP191, f.BLOCKLIST, f.VIP214, f.FINALITY, f.GALACTICA, uint64(Interval), c.Tag)
}

func betaTok(h *block.Header) string {
	b, err := h.Beta()
	if err != nil {
		return "e"
	}
	return fmt.Sprintf("%x:%s", len(b), hx.HexN(b))
}

// HeaderTokens: number time gaslimit beneficiary gasused score txsroot features stateroot receiptsroot alphalen alphaval
// com basefee siglen signer beta — signer / beta / signature length are what the crypto library reports.
func HeaderTokens(h *block.Header) string {
	bf := "-"
	if b := h.BaseFee(); b != nil {
		bf = hx.HexN(b.Bytes())
	}
	signer := "-"
	if s, err := h.Signer(); err == nil {
		signer = hx.HexN(s.Bytes())
	}
	tr, sr, rr := h.TxsRoot(), h.StateRoot(), h.ReceiptsRoot()
	return fmt.Sprintf("%x %x %x %s %x %x %s %x %s %s %x %s %s %s %x %s %s",
		h.Number(), h.Timestamp(), h.GasLimit(), hx.HexN(h.Beneficiary().Bytes()), h.GasUsed(), h.TotalScore(),
		hx.HexN(tr[:]), uint32(h.TxsFeatures()), hx.HexN(sr[:]), hx.HexN(rr[:]),
		len(h.Alpha()), hx.HexN(h.Alpha()), hx.B(h.COM()), bf, len(h.Signature()), signer, betaTok(h))
}

func (v *PView) tokens() (pos, cands string) {
	var b strings.Builder
	for _, cd := range v.Cands {
		fmt.Fprintf(&b, " %s %s %x %s %s %s", hx.HexN(cd.Addr.Bytes()), hx.B(cd.Active), cd.Weight, cd.Key, hx.HexN(cd.Endorsor.Bytes()), optAddr(cd.Benef))
	}
	return fmt.Sprintf("%s %x", hx.B(v.PoS), v.Total), b.String()
}

// hashTokens: dprp for the slots between the parent and `upto` (PoA v1 only; bounded walk-back of the real code: 101).
func hashTokens(v *PView, parent *block.Header, upto uint64) string {
	if v.Kind != "V1" {
		return ""
	}
	var b strings.Builder
	n := 0
	for t := parent.Timestamp() + Interval; t <= upto && n < 4000; t += Interval {
		fmt.Fprintf(&b, " %x %x", t, Dprp(parent.Number(), t))
		n++
	}
	return b.String()
}

// TxTokens renders a transaction as the model's view; known/depmeta are looked up on the parent's chain.
func (c *Chain) TxTokens(t *tx.Transaction, ch *chain.Chain, num uint32, baseFee, legacyBase *big.Int) string {
	origin, oerr := t.Origin()
	oblk := oerr == nil && thor.IsOriginBlocked(origin)
	dl, derr := t.Delegator()
	dblk := derr == nil && dl != nil && thor.IsOriginBlocked(*dl)
	id := t.ID()
	unused := t.TestFeatures(tx.Features(0xFFFFFFFF)) != nil
	dep := "-"
	meta := "-"
	if d := t.DependsOn(); d != nil {
		dep = hx.HexN(d[:])
		if m, err := ch.GetTransactionMeta(*d); err != nil {
			meta = "n"
		} else {
			meta = hx.B(m.Reverted)
		}
	}
	known, _ := ch.HasTransaction(id, t.BlockRef().Number())
	feeOK := true
	if baseFee != nil && oerr == nil {
		feeOK = t.EffectiveGasPrice(baseFee, legacyBase).Cmp(baseFee) >= 0
	}
	return fmt.Sprintf(" %s %s %s %s %s %x %x %x %x %x %s %x %s %s %s %s", hx.HexN(id[:]), hx.B(oerr == nil), hx.B(oblk),
		hx.B(derr == nil), hx.B(dblk), t.ChainTag(), t.BlockRef().Number(), t.Expiration(), t.Type(), uint32(t.Features()),
		hx.B(unused), t.Gas(), hx.B(feeOK), dep, hx.B(known), meta)
}

// ExecInfo is what re-execution of a block's transactions gave (by the real runtime): per-tx receipt or failure.
type ExecInfo struct {
	Receipts     []*tx.Receipt // nil entry = ExecuteTransaction failed (and nothing after it was executed)
	ReceiptsRoot thor.Bytes32
	StateRoot    thor.Bytes32
	Sanity       bool
	RewardsOK    bool
}

func execTokens(rs []*tx.Receipt, n int) string {
	var b strings.Builder
	for i := 0; i < n; i++ {
		if i >= len(rs) || rs[i] == nil {
			b.WriteString(" e - -")
			continue
		}
		h := thor.Blake2b(mustRLP(rs[i]))
		fmt.Fprintf(&b, " %x %s %s", rs[i].GasUsed, hx.B(rs[i].Reverted), hx.HexN(h[:8]))
	}
	return b.String()
}

func (c *Chain) legacyBase(parent *chain.BlockSummary) *big.Int {
	st := c.Stater.NewState(parent.Root())
	v, err := builtin.Params.Native(st).Get(thor.KeyLegacyTxBaseGasPrice)
	if err != nil {
		return new(big.Int)
	}
	return v
}

// VLine: the judgement "Process(parent, blk, now)" for the model.
func (c *Chain) VLine(parent *chain.BlockSummary, v *PView, blk *block.Block, now uint64, ex *ExecInfo) string {
	h := blk.Header()
	pos, cands := v.tokens()
	ch := c.Repo.NewChain(parent.Header.ID())
	var txs strings.Builder
	lb := c.legacyBase(parent)
	for _, t := range blk.Transactions() {
		txs.WriteString(c.TxTokens(t, ch, h.Number(), h.BaseFee(), lb))
	}
	root := blk.Transactions().RootHash()
	rrfix := "-"
	if fix, ok := thor.LoadCorrectReceiptsRoots()[h.ID().String()]; ok {
		if b32, err := thor.ParseBytes32(fix); err == nil {
			rrfix = hx.HexN(b32[:])
		}
	}
	return fmt.Sprintf("V %s | %s | %s |%s |%s | %s %x | %s |%s |%s | %s %s %s %s %s",
		c.cfgTokens(), HeaderTokens(parent.Header), pos, cands, hashTokens(v, parent.Header, h.Timestamp()),
		HeaderTokens(h), now, hx.HexN(root[:]), txs.String(), execTokens(ex.Receipts, len(blk.Transactions())),
		hx.HexN(ex.ReceiptsRoot[:]), hx.B(ex.Sanity), hx.B(ex.RewardsOK), hx.HexN(ex.StateRoot[:]), rrfix)
}

// PLine: "Packer.Schedule(parent, now); Adopt(cands...); Pack" for the model; the real block supplies the roots and
// the crypto reports, the real Adopt results supply which candidates executed.
func (c *Chain) PLine(st *Step, v *PView) string {
	h := st.Block.Header()
	pos, cands := v.tokens()
	ch := c.Repo.NewChain(st.Parent.Header.ID())
	lb := c.legacyBase(st.Parent)
	var txs, exec strings.Builder
	ri := 0
	for i, cd := range st.Cands {
		txs.WriteString(c.TxTokens(cd.Tx, ch, h.Number(), h.BaseFee(), lb))
		if st.AdoptErr[i] == "" {
			exec.WriteString(execTokens([]*tx.Receipt{st.Receipts[ri]}, 1))
			ri++
		} else {
			exec.WriteString(" e - -")
		}
	}
	signer := "-"
	if s, err := h.Signer(); err == nil {
		signer = hx.HexN(s.Bytes())
	}
	tr, rr, sr := h.TxsRoot(), h.ReceiptsRoot(), h.StateRoot()
	return fmt.Sprintf("P %s | %s | %s |%s |%s | %s %s %x %x %x %s %x %s %s | %s %s %s 1 |%s |%s",
		c.cfgTokens(), HeaderTokens(st.Parent.Header), pos, cands, hashTokens(v, st.Parent.Header, h.Timestamp()+400*Interval),
		hx.HexN(c.Masters[st.Proposer].Addr.Bytes()), optAddr(st.Benef), c.Spec.TargetGL, 2000, st.Now, hx.B(st.Vote),
		len(h.Signature()), signer, betaTok(h),
		hx.HexN(tr[:]), hx.HexN(rr[:]), hx.HexN(sr[:]), txs.String(), exec.String())
}

// PExpected: what the real packer produced, in the P answer's format.
func PExpected(st *Step) string {
	toks := strings.Fields(HeaderTokens(st.Block.Header()))
	var ids []string
	for _, t := range st.Block.Transactions() {
		id := t.ID()
		ids = append(ids, hx.HexN(id[:]))
	}
	return strings.TrimSpace(strings.Join(toks[1:], " ") + " ; " + strings.Join(ids, " "))
}
