// Package chaingen (ChainGen) grows chains with the REAL genesis builder, packer.Packer and consensus.Consensus over
// muxdb.NewMem under drawn fork placements: authorised proposers at the slots the real scheduler gives them, drawn
// transaction mixes, optional sibling blocks.  It is the shared part of the C01 and C02 drivers: it renders every block
// judgement as a line of the oracle/c01 protocol (the views the Coq model reads: header, parent, candidate list with
// the seed-derived keys computed by the real libraries, tx views, execution results) and can re-build a block from a
// plan (fields chosen freely, transactions really executed, correctly signed) — the generator of C02's mutants.
package chaingen

import (
	"crypto/ecdsa"
	"encoding/binary"
	"errors"
	"fmt"
	"math"
	"math/big"
	"math/rand/v2"
	"strings"

	"github.com/ethereum/go-ethereum/crypto"

	"github.com/vechain/thor/v2/block"
	"github.com/vechain/thor/v2/builtin"
	"github.com/vechain/thor/v2/chain"
	"github.com/vechain/thor/v2/consensus"
	"github.com/vechain/thor/v2/genesis"
	"github.com/vechain/thor/v2/muxdb"
	"github.com/vechain/thor/v2/packer"
	"github.com/vechain/thor/v2/scheduler"
	"github.com/vechain/thor/v2/state"
	"github.com/vechain/thor/v2/thor"
	"github.com/vechain/thor/v2/tx"

	"verif/harness/internal/hx"
)

const Never = math.MaxUint32
const Interval = 10
const LaunchTime = 1_600_000_000

// Spec is everything a chain is a function of (the replay).
type Spec struct {
	Seed      uint64 `json:"seed"`
	VIP191    uint32 `json:"vip191"`
	ETHCONST  uint32 `json:"eth_const"`
	BLOCKLIST uint32 `json:"blocklist"`
	ETHIST    uint32 `json:"eth_ist"`
	VIP214    uint32 `json:"vip214"`
	FINALITY  uint32 `json:"finality"`
	GALACTICA uint32 `json:"galactica"`
	HAYABUSA  uint32 `json:"hayabusa"`
	PoS       bool   `json:"pos"`       // stakers in the genesis (needs HAYABUSA = 0): PoS from block 1
	NAuth     int    `json:"n_auth"`    // authority / validator nodes
	Blocks    int    `json:"blocks"`    // heights to grow
	TargetGL  uint64 `json:"target_gl"` // packer target gas limit (0 = keep the parent's)
	GenesisGL uint64 `json:"genesis_gl"`
	MBP       uint64 `json:"mbp"` // max block proposers param (0 = default)
	Transition bool  `json:"transition"` // HAYABUSA inside the chain: staker txs queue validations, PoA -> PoS at an epoch boundary
	Underfund int    `json:"underfunded"` // the last k authority nodes start with an endorsor 1 wei below the endorsement
}

func (s *Spec) Fork() *thor.ForkConfig {
	return &thor.ForkConfig{VIP191: s.VIP191, ETH_CONST: s.ETHCONST, BLOCKLIST: s.BLOCKLIST, ETH_IST: s.ETHIST,
		VIP214: s.VIP214, FINALITY: s.FINALITY, HAYABUSA: s.HAYABUSA, GALACTICA: s.GALACTICA}
}

// GenSpec draws fork placements in historical order (each before / inside / after the exercised heights).
func GenSpec(r *hx.Rand, blocks int) *Spec {
	s := &Spec{Seed: r.Uint64(), Blocks: blocks, NAuth: r.Range(1, 7)}
	place := func(prev uint32) uint32 {
		if prev == Never {
			return Never
		}
		switch r.Intn(4) {
		case 0:
			return prev
		case 1:
			v := prev + uint32(r.Range(1, blocks))
			return v
		case 2:
			if int(prev) < blocks {
				return uint32(r.Range(int(prev), blocks))
			}
			return prev
		default:
			return Never
		}
	}
	first := uint32(0)
	if r.Chance(1, 3) {
		first = uint32(r.Range(1, blocks))
	}
	if r.Chance(1, 8) {
		first = Never
	}
	s.VIP191 = first
	s.ETHCONST = s.VIP191
	s.BLOCKLIST = place(s.VIP191)
	base := s.VIP191
	s.ETHIST = place(base)
	s.VIP214 = place(s.ETHIST)
	if s.ETHIST == Never {
		s.VIP214 = place(base)
		if r.Bool() {
			s.VIP214 = Never
		}
	}
	s.FINALITY = place(s.VIP214)
	s.GALACTICA = place(s.FINALITY)
	s.HAYABUSA = Never // PoA -> PoS inside the chain is not driven (needs staker txs through a transition period): gap
	if r.Chance(1, 4) {
		// PoS from genesis: every fork at 0
		*s = Spec{Seed: s.Seed, Blocks: blocks, NAuth: r.Range(1, 7), PoS: true}
		if r.Bool() {
			s.MBP = uint64(s.NAuth) // the leader group is full: a queued validation enters only when a member exits
		}
	}
	switch r.Intn(4) {
	case 0:
		s.TargetGL = 0
	case 1:
		s.TargetGL = 40_000_000
	case 2:
		s.TargetGL = 1_000_000
	default:
		s.TargetGL = uint64(r.Range(5_000_000, 20_000_000))
	}
	s.GenesisGL = []uint64{10_000_000, 10_000_000, 1_000_000, 1_024_000, 30_000_000}[r.Intn(5)]
	if r.Chance(1, 5) && s.NAuth > 2 {
		s.MBP = uint64(r.Range(1, s.NAuth))
	}
	if !s.PoS && s.NAuth >= 2 && r.Chance(1, 2) {
		s.Underfund = r.Range(1, (s.NAuth+1)/2)
	}
	if r.Chance(1, 5) {
		// PoA -> PoS inside the chain: every earlier fork at 0, HAYABUSA early, the proposer limit = the number of
		// authority nodes (the transition needs 2/3 of it queued), validations queued through real transactions
		n := r.Range(1, 5)
		*s = Spec{Seed: s.Seed, Blocks: blocks, NAuth: n, Transition: true, HAYABUSA: uint32(r.Range(1, 4)), MBP: uint64(n),
			GenesisGL: 10_000_000, TargetGL: []uint64{0, 40_000_000}[r.Intn(2)]}
		if n >= 3 && r.Bool() {
			s.Underfund = 1
		}
	}
	return s
}

type Acct struct {
	Key  *ecdsa.PrivateKey
	Addr thor.Address
}

type Chain struct {
	Spec     *Spec
	Fork     *thor.ForkConfig
	DB       *muxdb.MuxDB
	Stater   *state.Stater
	Repo     *chain.Repository
	Genesis  *block.Block
	Masters  []Acct // authority / validator masters
	Endors   []Acct // their endorsors
	Users    []Acct
	Exec     Acct // the executor (an EOA): may add/revoke authorities and set params through transactions
	R        *hx.Rand
	Warm     *consensus.Consensus
	Best     *chain.BlockSummary
	Tag      byte
	nonce    uint64
	pastTxs  []*tx.Transaction // transactions on the chain (for duplicate / dependency material)
	pastRev  map[thor.Bytes32]bool
	nextAuth int
	low      map[int]bool // endorsors believed to be below the endorsement
	Spare    []Acct // extra master candidates that governance txs may add
	poor     Acct   // an account without VET / VTHO
	gen      *genesis.Genesis
	lastUps  []scheduler.Proposer
	queued   map[int]bool // masters whose validation has been queued / is active in the staker
}

func newAcct(r *hx.Rand) Acct {
	for {
		k, err := crypto.ToECDSA(r.Bytes(32))
		if err == nil {
			return Acct{k, thor.Address(crypto.PubkeyToAddress(k.PublicKey))}
		}
	}
}

var configured bool

// Configure sets the process-wide thor config once (block interval etc. are package globals in thor).
func Configure() {
	if configured {
		return
	}
	configured = true
	zero := uint32(0)
	// short epochs / staking periods / eviction threshold: PoS housekeeping (renewals, evictions of validators that missed
	// their slots, exits) really changes the leader group inside a 24-block chain
	thor.SetConfig(thor.Config{BlockInterval: Interval, EpochLength: 6, HayabusaTP: &zero,
		ValidatorEvictionThreshold: 4, EvictionCheckInterval: 6,
		LowStakingPeriod: 6, MediumStakingPeriod: 12, HighStakingPeriod: 6, CooldownPeriod: 6})
}

func bigE18(n uint64) *big.Int { return new(big.Int).Mul(new(big.Int).SetUint64(n), big.NewInt(1e18)) }

func New(spec *Spec) (*Chain, error) {
	Configure()
	c := &Chain{Spec: spec, Fork: spec.Fork(), R: hx.NewRand(spec.Seed), pastRev: map[thor.Bytes32]bool{}, low: map[int]bool{}}
	for i := 0; i < spec.NAuth; i++ {
		c.Masters = append(c.Masters, newAcct(c.R))
		c.Endors = append(c.Endors, newAcct(c.R))
	}
	for i := 0; i < 5; i++ {
		c.Users = append(c.Users, newAcct(c.R))
	}
	for i := 0; i < 2; i++ {
		c.Spare = append(c.Spare, newAcct(c.R))
	}
	c.Exec = newAcct(c.R)
	c.poor = newAcct(c.R)
	gen := &genesis.CustomGenesis{LaunchTime: LaunchTime, GasLimit: spec.GenesisGL, ForkConfig: c.Fork, ExtraData: fmt.Sprintf("cg%d", spec.Seed%1000)}
	bal := (*genesis.HexOrDecimal256)(bigE18(1_000_000_000))
	add := func(a thor.Address) {
		gen.Accounts = append(gen.Accounts, genesis.Account{Address: a, Balance: bal, Energy: bal})
	}
	for i := range c.Masters {
		add(c.Masters[i].Addr)
		if i >= len(c.Masters)-spec.Underfund {
			// thor.InitialProposerEndorsement - 1 wei: registered, but not in the proposer set until funded
			b := (*genesis.HexOrDecimal256)(new(big.Int).Sub(thor.InitialProposerEndorsement, big.NewInt(1)))
			gen.Accounts = append(gen.Accounts, genesis.Account{Address: c.Endors[i].Addr, Balance: b, Energy: bal})
			c.low[i] = true
		} else {
			add(c.Endors[i].Addr)
		}
		var id thor.Bytes32
		copy(id[:], c.R.Bytes(32))
		id[0] |= 1
		if spec.PoS {
			gen.Stakers = append(gen.Stakers, genesis.Validator{Master: c.Masters[i].Addr, Endorser: c.Endors[i].Addr})
		}
		gen.Authority = append(gen.Authority, genesis.Authority{MasterAddress: c.Masters[i].Addr, EndorsorAddress: c.Endors[i].Addr, Identity: id})
	}
	for _, u := range c.Users {
		add(u.Addr)
	}
	for _, u := range c.Spare {
		add(u.Addr)
	}
	add(c.Exec.Addr)
	gen.Params.ExecutorAddress = &c.Exec.Addr
	if spec.MBP != 0 {
		m := spec.MBP
		gen.Params.MaxBlockProposers = &m
	}
	g, err := genesis.NewCustomNet(gen)
	if err != nil {
		return nil, err
	}
	c.gen = g
	c.DB = muxdb.NewMem()
	c.Stater = state.NewStater(c.DB)
	b0, _, _, err := g.Build(c.Stater)
	if err != nil {
		return nil, err
	}
	c.Genesis = b0
	c.Repo, err = chain.NewRepository(c.DB, b0)
	if err != nil {
		return nil, err
	}
	c.Tag = c.Repo.ChainTag()
	c.Best = c.Repo.BestBlockSummary()
	c.Warm = consensus.New(c.Repo, c.Stater, c.Fork)
	return c, nil
}

func (c *Chain) Close() { c.DB.Close() }

// Restarted gives a validator over fresh Repository / Stater objects on the same database (a restarted process).
func (c *Chain) Restarted() (*consensus.Consensus, *chain.Repository, error) {
	repo, err := chain.NewRepository(c.DB, c.Genesis)
	if err != nil {
		return nil, nil, err
	}
	return consensus.New(repo, state.NewStater(c.DB), c.Fork), repo, nil
}

func (c *Chain) Cold() *consensus.Consensus { return consensus.New(c.Repo, c.Stater, c.Fork) }

// ---------------------------------------------------------------- transactions

func (c *Chain) KeyOf(a thor.Address) *ecdsa.PrivateKey {
	for _, l := range [][]Acct{c.Masters, c.Endors, c.Users, c.Spare, {c.Exec}} {
		for _, x := range l {
			if x.Addr == a {
				return x.Key
			}
		}
	}
	return nil
}

type TxOpt struct {
	Tag      *byte
	Ref      *uint32
	Exp      *uint32
	Gas      uint64
	Dep      *thor.Bytes32
	Typed    bool
	Delegate *Acct
	Coef     uint8
}

func (c *Chain) MkTx(from Acct, clauses []*tx.Clause, num uint32, o TxOpt) *tx.Transaction {
	ty := tx.TypeLegacy
	if o.Typed {
		ty = tx.TypeDynamicFee
	}
	tag := c.Tag
	if o.Tag != nil {
		tag = *o.Tag
	}
	ref := uint32(0)
	if num > 0 {
		ref = num - 1
	}
	if o.Ref != nil {
		ref = *o.Ref
	}
	exp := uint32(720)
	if o.Exp != nil {
		exp = *o.Exp
	}
	gas := o.Gas
	if gas == 0 {
		gas = 21000 + uint64(len(clauses))*16000 + 60000
	}
	c.nonce++
	b := tx.NewBuilder(ty).ChainTag(tag).Clauses(clauses).Gas(gas).BlockRef(tx.NewBlockRef(ref)).Expiration(exp).Nonce(c.nonce)
	if o.Typed {
		b.MaxFeePerGas(new(big.Int).Mul(big.NewInt(thor.InitialBaseFee), big.NewInt(100))).MaxPriorityFeePerGas(big.NewInt(1000))
	} else {
		b.GasPriceCoef(o.Coef)
	}
	if o.Dep != nil {
		b.DependsOn(o.Dep)
	}
	if o.Delegate != nil {
		b.Features(tx.DelegationFeature)
		return tx.MustSignDelegated(b.Build(), from.Key, o.Delegate.Key)
	}
	return tx.MustSign(b.Build(), from.Key)
}

func transferClause(to thor.Address, wei *big.Int) *tx.Clause { return tx.NewClause(&to).WithValue(wei) }

func mustInput(abiName string, args ...any) (addr thor.Address, data []byte) {
	var err error
	switch abiName {
	case "energy.transfer":
		m, _ := builtin.Energy.ABI.MethodByName("transfer")
		data, err = m.EncodeInput(args...)
		addr = builtin.Energy.Address
	case "authority.add":
		m, _ := builtin.Authority.ABI.MethodByName("add")
		data, err = m.EncodeInput(args...)
		addr = builtin.Authority.Address
	case "authority.revoke":
		m, _ := builtin.Authority.ABI.MethodByName("revoke")
		data, err = m.EncodeInput(args...)
		addr = builtin.Authority.Address
	case "staker.addValidation", "staker.setBeneficiary", "staker.increaseStake", "staker.decreaseStake", "staker.signalExit":
		m, ok := builtin.Staker.ABI.MethodByName(strings.TrimPrefix(abiName, "staker."))
		if !ok {
			panic("staker method " + abiName)
		}
		data, err = m.EncodeInput(args...)
		addr = builtin.Staker.Address
	case "params.set":
		m, _ := builtin.Params.ABI.MethodByName("set")
		data, err = m.EncodeInput(args...)
		addr = builtin.Params.Address
	}
	if err != nil {
		panic(err)
	}
	return
}

// Cand is a candidate transaction with the kind it was drawn as (coverage only).
type Cand struct {
	Tx   *tx.Transaction
	Kind string
}

// GenTxs draws the candidate transactions offered to the packer for block number num.
func (c *Chain) GenTxs(num uint32) []Cand {
	r := c.R
	var out []Cand
	n := r.Intn(6)
	if r.Chance(1, 6) {
		n = 0
	}
	user := func() Acct { return c.Users[r.Intn(len(c.Users))] }
	typedOK := num >= c.Fork.GALACTICA
	out = append(out, c.stakerTxs(num)...)
	if typedOK && r.Chance(1, 3) {
		// a filler: a transfer carrying calldata whose intrinsic gas is 50-95% of the parent's gas limit, so that blocks
		// above the gas target (75%) occur and the base fee leaves its floor
		want := c.Best.Header.GasLimit() / 100 * uint64(r.Range(50, 95))
		if want > 30_000 {
			data := make([]byte, (want-21_000)/68)
			for i := range data {
				data[i] = byte(1 + r.Intn(255))
			}
			to := user().Addr
			out = append(out, Cand{c.MkTx(user(), []*tx.Clause{tx.NewClause(&to).WithData(data)}, num,
				TxOpt{Gas: 21_000 + uint64(len(data))*68 + 1_000, Typed: r.Bool()}), "filler"})
		}
	}
	for i := 0; i < n; i++ {
		from := user()
		o := TxOpt{Coef: uint8(r.Intn(256))}
		if typedOK && r.Bool() {
			o.Typed = true
		}
		switch k := r.Intn(16); k {
		case 0, 1, 2:
			out = append(out, Cand{c.MkTx(from, []*tx.Clause{transferClause(user().Addr, big.NewInt(int64(r.Range(1, 1e9))))}, num, o), "transfer"})
		case 3:
			cl := []*tx.Clause{}
			for j := 0; j < r.Range(2, 4); j++ {
				cl = append(cl, transferClause(user().Addr, big.NewInt(int64(r.Range(1, 1e6)))))
			}
			out = append(out, Cand{c.MkTx(from, cl, num, o), "multi-clause"})
		case 4:
			a, d := mustInput("energy.transfer", user().Addr, big.NewInt(int64(r.Range(1, 1e9))))
			out = append(out, Cand{c.MkTx(from, []*tx.Clause{tx.NewClause(&a).WithData(d)}, num, o), "vtho-transfer"})
		case 5:
			// reverting: energy transfer above the balance
			a, d := mustInput("energy.transfer", user().Addr, bigE18(1_000_000_000_000))
			out = append(out, Cand{c.MkTx(from, []*tx.Clause{tx.NewClause(&a).WithData(d)}, num, o), "reverting"})
		case 6:
			dl := user()
			o.Delegate = &dl
			out = append(out, Cand{c.MkTx(from, []*tx.Clause{transferClause(user().Addr, big.NewInt(7))}, num, o), "delegated"})
		case 7:
			// dependent on an earlier candidate of this block, on a past tx, or on an unknown id
			var dep thor.Bytes32
			switch {
			case len(out) > 0 && r.Bool():
				dep = out[r.Intn(len(out))].Tx.ID()
			case len(c.pastTxs) > 0 && r.Bool():
				dep = c.pastTxs[r.Intn(len(c.pastTxs))].ID()
			default:
				copy(dep[:], r.Bytes(32))
			}
			o.Dep = &dep
			out = append(out, Cand{c.MkTx(from, []*tx.Clause{transferClause(user().Addr, big.NewInt(5))}, num, o), "dependent"})
		case 8:
			// not admissible: wrong tag / future ref / expired / over the block gas limit / resubmitted
			switch r.Intn(5) {
			case 0:
				t := c.Tag + 1
				o.Tag = &t
			case 1:
				f := num + uint32(r.Range(1, 3))
				o.Ref = &f
			case 2:
				f, e := uint32(0), uint32(0)
				if num > 2 {
					e = uint32(r.Intn(int(num) - 1))
				}
				o.Ref, o.Exp = &f, &e
			case 3:
				o.Gas = 50_000_000
			case 4:
				if len(c.pastTxs) > 0 {
					out = append(out, Cand{c.pastTxs[r.Intn(len(c.pastTxs))], "resubmitted"})
					continue
				}
			}
			out = append(out, Cand{c.MkTx(from, []*tx.Clause{transferClause(user().Addr, big.NewInt(3))}, num, o), "inadmissible"})
		case 9:
			// typed before the fork / legacy after it
			o.Typed = !o.Typed
			out = append(out, Cand{c.MkTx(from, []*tx.Clause{transferClause(user().Addr, big.NewInt(3))}, num, o), "type-flip"})
		case 10, 13:
			// an endorsor moves its VET away (drops below the endorsement) or gets it back
			i := r.Intn(len(c.Endors))
			var lows []int
			for j := range c.Endors {
				if c.low[j] {
					lows = append(lows, j)
				}
			}
			if len(lows) == 0 && r.Bool() && !c.Spec.PoS {
				out = append(out, Cand{c.MkTx(c.Endors[i], []*tx.Clause{transferClause(user().Addr, bigE18(uint64(r.Range(975_000_001, 999_000_000))))}, num, o), "endorsor-drain"})
				c.low[i] = true
			} else {
				amount := bigE18(uint64(r.Range(1, 900_000_000)))
				if len(lows) > 0 {
					i = lows[r.Intn(len(lows))]
					if r.Bool() {
						amount = big.NewInt(int64(r.Range(1, 1000)))
					}
					if r.Chance(3, 4) {
						delete(c.low, i)
					}
				}
				out = append(out, Cand{c.MkTx(user(), []*tx.Clause{transferClause(c.Endors[i].Addr, amount)}, num, o), "endorsor-refill"})
			}
		case 11:
			// governance: add / revoke an authority, change endorsement or max block proposers
			switch r.Intn(4) {
			case 0:
				if c.nextAuth < len(c.Spare) {
					var id thor.Bytes32
					copy(id[:], r.Bytes(32))
					id[0] |= 1
					a, d := mustInput("authority.add", c.Spare[c.nextAuth].Addr, c.Spare[c.nextAuth].Addr, id)
					c.nextAuth++
					out = append(out, Cand{c.MkTx(c.Exec, []*tx.Clause{tx.NewClause(&a).WithData(d)}, num, TxOpt{Gas: 300000, Typed: o.Typed}), "authority-add"})
				}
			case 1:
				if len(c.Masters) > 2 {
					a, d := mustInput("authority.revoke", c.Masters[r.Intn(len(c.Masters))].Addr)
					out = append(out, Cand{c.MkTx(c.Exec, []*tx.Clause{tx.NewClause(&a).WithData(d)}, num, TxOpt{Gas: 300000, Typed: o.Typed}), "authority-revoke"})
				}
			case 2:
				a, d := mustInput("params.set", thor.KeyProposerEndorsement, bigE18(uint64(r.Range(1, 1_000_000_000))))
				out = append(out, Cand{c.MkTx(c.Exec, []*tx.Clause{tx.NewClause(&a).WithData(d)}, num, TxOpt{Gas: 300000, Typed: o.Typed}), "params-endorsement"})
			case 3:
				a, d := mustInput("params.set", thor.KeyMaxBlockProposers, big.NewInt(int64(r.Range(1, len(c.Masters)+1))))
				out = append(out, Cand{c.MkTx(c.Exec, []*tx.Clause{tx.NewClause(&a).WithData(d)}, num, TxOpt{Gas: 300000, Typed: o.Typed}), "params-mbp"})
			}
		case 12:
			// contract creation
			out = append(out, Cand{c.MkTx(from, []*tx.Clause{tx.NewClause(nil).WithData([]byte{0x60, 0x00, 0x60, 0x00, 0xf3})}, num, TxOpt{Gas: 200000, Typed: o.Typed}), "create"})
		default:
			out = append(out, Cand{c.MkTx(from, []*tx.Clause{transferClause(user().Addr, big.NewInt(1))}, num, o), "transfer"})
		}
	}
	return out
}

// ---------------------------------------------------------------- one step: schedule, adopt, pack

type Step struct {
	Parent    *chain.BlockSummary
	Proposer  int
	Now       uint64
	Vote      bool
	Benef     *thor.Address // packer beneficiary option
	Cands     []Cand
	AdoptErr  []string // class per candidate: "" adopted, bad, now, full, known, forever, other
	Block     *block.Block
	Stage     *state.Stage
	Receipts  tx.Receipts
	Conflicts uint32
}

func AdoptClass(err error) string {
	switch {
	case err == nil:
		return ""
	case packer.IsGasLimitReached(err):
		return "full"
	case packer.IsTxNotAdoptableNow(err):
		return "now"
	case packer.IsBadTx(err):
		return "bad"
	case strings.Contains(err.Error(), "known tx"):
		return "known"
	case strings.Contains(err.Error(), "forever"):
		return "forever"
	}
	return "other"
}

// Pack lets master i (with the drawn clock) pack a block on parent with the given candidates.
func (c *Chain) Pack(parent *chain.BlockSummary, i int, now uint64, benef *thor.Address, vote bool, cands []Cand, conflicts uint32) (*Step, error) {
	p := packer.New(c.Repo, c.Stater, c.Masters[i].Addr, benef, c.Fork, 0)
	if c.Spec.TargetGL != 0 {
		p.SetTargetGasLimit(c.Spec.TargetGL)
	}
	flow, err := p.Schedule(parent, now)
	if err != nil {
		return nil, err
	}
	st := &Step{Parent: parent, Proposer: i, Now: now, Vote: vote, Benef: benef, Cands: cands, Conflicts: conflicts}
	for _, cd := range cands {
		st.AdoptErr = append(st.AdoptErr, AdoptClass(flow.Adopt(cd.Tx)))
	}
	st.Block, st.Stage, st.Receipts, err = flow.Pack(c.Masters[i].Key, conflicts, vote)
	if err != nil {
		return nil, err
	}
	return st, nil
}

// When asks the real packer when master i would produce on parent given the clock.
func (c *Chain) When(parent *chain.BlockSummary, i int, now uint64) (uint64, error) {
	p := packer.New(c.Repo, c.Stater, c.Masters[i].Addr, nil, c.Fork, 0)
	flow, err := p.Schedule(parent, now)
	if err != nil {
		return 0, err
	}
	return flow.When(), nil
}

var ErrNoProposer = errors.New("no master can be scheduled")

// Next draws the next block on the best block: clock, proposer (mostly the earliest slot owner, sometimes a later one,
// which makes the skipped owners inactive), candidates, vote.
func (c *Chain) Next() (*Step, error) {
	r := c.R
	parent := c.Best
	now := parent.Header.Timestamp() + uint64(r.Intn(3))*Interval + uint64(r.Intn(Interval+1))
	if r.Chance(1, 10) {
		now = parent.Header.Timestamp() - uint64(r.Intn(50))
	}
	type sl struct {
		i int
		t uint64
	}
	var slots []sl
	for i := range c.Masters {
		if t, err := c.When(parent, i, now); err == nil {
			slots = append(slots, sl{i, t})
		}
	}
	if len(slots) == 0 {
		return nil, ErrNoProposer
	}
	// sort by time
	for a := 1; a < len(slots); a++ {
		for b := a; b > 0 && slots[b].t < slots[b-1].t; b-- {
			slots[b], slots[b-1] = slots[b-1], slots[b]
		}
	}
	pick := 0
	if r.Chance(1, 4) {
		pick = r.Intn(len(slots))
	}
	var benef *thor.Address
	if r.Chance(1, 3) {
		a := c.Users[r.Intn(len(c.Users))].Addr
		benef = &a
	}
	num := parent.Header.Number() + 1
	return c.Pack(parent, slots[pick].i, now, benef, r.Bool(), c.GenTxs(num), 0)
}

// Commit makes the step's block the new best block (what a node does after packing / accepting).
func (c *Chain) Commit(st *Step, best bool) error {
	if _, err := st.Stage.Commit(); err != nil {
		return err
	}
	if err := c.Repo.AddBlock(st.Block, st.Receipts, st.Conflicts, best); err != nil {
		return err
	}
	if best {
		c.Best = c.Repo.BestBlockSummary()
		for i, t := range st.Block.Transactions() {
			c.pastTxs = append(c.pastTxs, t)
			c.pastRev[t.ID()] = st.Receipts[i].Reverted
		}
	}
	return nil
}

func (c *Chain) PastTxs() []*tx.Transaction { return c.pastTxs }
func (c *Chain) PastReverted() *tx.Transaction {
	for _, t := range c.pastTxs {
		if c.pastRev[t.ID()] {
			return t
		}
	}
	return nil
}

// ---------------------------------------------------------------- the proposer view at a parent (what both sides read)

type PView struct {
	PoS     bool
	Kind    string // V1 V2 POS
	Cands   []CandView
	Total   uint64
	Seed    []byte
	Updates bool // dPosStatus.Updates
}
type CandView struct {
	Addr, Endorsor thor.Address
	Benef          *thor.Address
	Active         bool
	Weight         uint64
	Key            string
}

// View reads the candidate list at the parent exactly through the public builtin API the packer uses.
func (c *Chain) View(parent *chain.BlockSummary) (*PView, error) {
	st := c.Stater.NewState(parent.Root())
	num := parent.Header.Number() + 1
	staker := builtin.Staker.Native(st)
	ds, err := staker.SyncPOS(c.Fork, num)
	if err != nil {
		return nil, err
	}
	v := &PView{PoS: ds.Active, Updates: ds.Updates}
	var nb [4]byte
	binary.BigEndian.PutUint32(nb[:], parent.Header.Number())
	if ds.Active {
		v.Kind = "POS"
		leaders, err := staker.LeaderGroup()
		if err != nil {
			return nil, err
		}
		_, v.Total, err = staker.LockedStake()
		if err != nil {
			return nil, err
		}
		seed, err := scheduler.NewSeeder(c.Repo).Generate(parent.Header.ID())
		if err != nil {
			return nil, err
		}
		v.Seed = seed
		rnd := rand.New(rand.NewChaCha8(thor.Blake2b(seed, nb[:])))
		for _, l := range leaders {
			f := rnd.Float64()
			if f == 0 {
				f = 1e-10
			}
			score := -math.Log(f) / float64(l.Weight)
			v.Cands = append(v.Cands, CandView{l.Address, l.Endorser, l.Beneficiary, l.Active, l.Weight, hx.U(math.Float64bits(score))})
		}
		return v, nil
	}
	endorsement, err := builtin.Params.Native(st).Get(thor.KeyProposerEndorsement)
	if err != nil {
		return nil, err
	}
	mbp, err := thor.GetMaxBlockProposers(builtin.Params.Native(st), true)
	if err != nil {
		return nil, err
	}
	check := staker.TransitionPeriodBalanceCheck(c.Fork, num, endorsement)
	cs, err := builtin.Authority.Native(st).Candidates(check, mbp)
	if err != nil {
		return nil, err
	}
	if num < c.Fork.VIP214 {
		v.Kind = "V1"
		for _, a := range cs {
			v.Cands = append(v.Cands, CandView{a.NodeMaster, a.Endorsor, nil, a.Active, 0, "0"})
		}
		return v, nil
	}
	v.Kind = "V2"
	seed, err := scheduler.NewSeeder(c.Repo).Generate(parent.Header.ID())
	if err != nil {
		return nil, err
	}
	v.Seed = seed
	for _, a := range cs {
		h := thor.Blake2b(seed, nb[:], a.NodeMaster.Bytes())
		v.Cands = append(v.Cands, CandView{a.NodeMaster, a.Endorsor, nil, a.Active, 0, hx.HexN(h.Bytes())})
	}
	return v, nil
}

func Dprp(pn uint32, t uint64) uint64 {
	var b4 [4]byte
	var b8 [8]byte
	binary.BigEndian.PutUint32(b4[:], pn)
	binary.BigEndian.PutUint64(b8[:], t)
	return binary.BigEndian.Uint64(thor.Blake2b(b4[:], b8[:]).Bytes())
}

// Poor is an account that owns nothing (its transactions cannot pay for gas).
func (c *Chain) Poor() Acct { return c.poor }

// RevertingClause is a call that reverts in the VM: a VTHO transfer above any balance.
func (c *Chain) RevertingClause(to thor.Address) (thor.Address, []byte) {
	return mustInput("energy.transfer", to, bigE18(1_000_000_000_000))
}

// stakerTxs: transactions against the staker builtin once its code is deployed (block HAYABUSA): endorsors queue their
// master's validation (this is what drives the PoA -> PoS transition), set / change the beneficiary, move stake.
func (c *Chain) stakerTxs(num uint32) []Cand {
	if c.Fork.HAYABUSA == Never || num < c.Fork.HAYABUSA || (num == c.Fork.HAYABUSA && num > 0 && !c.Spec.PoS) {
		return nil
	}
	r := c.R
	var out []Cand
	st := c.Stater.NewState(c.Best.Root())
	stk := builtin.Staker.Native(st)
	call := func(from Acct, name string, value *big.Int, args ...any) *tx.Transaction {
		a, d := mustInput(name, args...)
		cl := tx.NewClause(&a).WithData(d)
		if value != nil {
			cl = cl.WithValue(value)
		}
		return c.MkTx(from, []*tx.Clause{cl}, num, TxOpt{Gas: 1_500_000, Typed: num >= c.Fork.GALACTICA && r.Bool()})
	}
	const quantum = 5_000_000 // stake moves in equal amounts, so that changes of different validators can offset each other
	type vinfo struct {
		i      int
		locked uint64
		spare  uint64
	}
	var known []vinfo
	for i := range c.Masters {
		if v, err := stk.GetValidation(c.Masters[i].Addr); err == nil && v != nil {
			sp := uint64(0)
			if v.LockedVET > 25_000_000+v.PendingUnlockVET {
				sp = v.LockedVET - 25_000_000 - v.PendingUnlockVET
			}
			known = append(known, vinfo{i, v.LockedVET, sp})
		}
	}
	// offsetting stake changes in the same block (hence the same period end): +X on one validator, -X on another — the
	// group's size, total stake and total weight stay what they were while individual weights change
	if len(known) >= 2 && r.Chance(1, 2) {
		a := known[r.Intn(len(known))]
		var rich []vinfo
		for _, k := range known {
			if k.spare >= quantum && k.i != a.i {
				rich = append(rich, k)
			}
		}
		out = append(out, Cand{call(c.Endors[a.i], "staker.increaseStake", bigE18(quantum), c.Masters[a.i].Addr), "staker-increase-stake"})
		if len(rich) > 0 {
			b := rich[r.Intn(len(rich))]
			out = append(out, Cand{call(c.Endors[b.i], "staker.decreaseStake", nil, c.Masters[b.i].Addr, bigE18(quantum)), "staker-decrease-offsetting"})
		}
	}
	// an outsider queues a validation of exactly the minimum stake (what the genesis validators hold); when the group is
	// full it is activated in the transition in which a member exits: membership changes, totals do not
	if active, _ := stk.IsPoSActive(); active {
		for k := range c.Spare {
			if v, err := stk.GetValidation(c.Spare[k].Addr); err == nil && v == nil && r.Chance(1, 3) {
				out = append(out, Cand{call(c.Spare[k], "staker.addValidation", bigE18(25_000_000), c.Spare[k].Addr, thor.LowStakingPeriod()), "staker-add-outsider"})
			}
		}
		if q, err := stk.QueuedGroupSize(); err == nil && q > 0 && len(known) > 1 && r.Chance(1, 4) {
			x := known[r.Intn(len(known))]
			out = append(out, Cand{call(c.Endors[x.i], "staker.signalExit", nil, c.Masters[x.i].Addr), "staker-signal-exit"})
		}
	}
	for i := range c.Masters {
		v, err := stk.GetValidation(c.Masters[i].Addr)
		known := err == nil && v != nil
		switch {
		case !known:
			if r.Chance(1, 2) {
				out = append(out, Cand{call(c.Endors[i], "staker.addValidation", bigE18(uint64(25_000_000+quantum*uint64(r.Intn(3)))),
					c.Masters[i].Addr, thor.LowStakingPeriod()), "staker-add-validation"})
			}
		case r.Chance(1, 4):
			b := c.Users[r.Intn(len(c.Users))].Addr
			if r.Chance(1, 5) {
				b = thor.Address{}
			}
			out = append(out, Cand{call(c.Endors[i], "staker.setBeneficiary", nil, c.Masters[i].Addr, b), "staker-set-beneficiary"})
		case r.Chance(1, 8):
			out = append(out, Cand{call(c.Endors[i], "staker.increaseStake", bigE18(quantum), c.Masters[i].Addr), "staker-increase-stake"})
		case r.Chance(1, 40):
			out = append(out, Cand{call(c.Endors[i], "staker.signalExit", nil, c.Masters[i].Addr), "staker-signal-exit"})
		}
	}
	return out
}

// RefBaseFee is the protocol's base-fee formula written independently of consensus/upgrade/galactica (reference helper of
// the harness): first GALACTICA block -> InitialBaseFee; gas target = 75% of the parent's gas limit; +/- parentFee *
// |used - target| / target / 8, at least +1 when above target, never below InitialBaseFee.  nil before the fork.
func RefBaseFee(parent *block.Header, fork *thor.ForkConfig) *big.Int {
	num := parent.Number() + 1
	if num < fork.GALACTICA {
		return nil
	}
	initial := new(big.Int).SetUint64(thor.InitialBaseFee)
	if num == fork.GALACTICA {
		return initial
	}
	target := new(big.Int).Div(new(big.Int).Mul(new(big.Int).SetUint64(parent.GasLimit()), big.NewInt(75)), big.NewInt(100))
	used := new(big.Int).SetUint64(parent.GasUsed())
	pb := parent.BaseFee()
	switch used.Cmp(target) {
	case 0:
		return pb
	case 1:
		d := new(big.Int).Sub(used, target)
		d.Mul(d, pb).Div(d, target).Div(d, big.NewInt(8))
		if d.Sign() == 0 {
			d.SetInt64(1)
		}
		return d.Add(d, pb)
	default:
		d := new(big.Int).Sub(target, used)
		d.Mul(d, pb).Div(d, target).Div(d, big.NewInt(8))
		d.Sub(pb, d)
		if d.Cmp(initial) < 0 {
			return initial
		}
		return d
	}
}
