package chainsim

import (
	"fmt"
	"sort"
	"strings"

	"github.com/vechain/thor/v2/api"
	"github.com/vechain/thor/v2/api/subscriptions"
	"github.com/vechain/thor/v2/chain"
	"github.com/vechain/thor/v2/thor"

	"verif/harness/internal/hx"
)

// Trace is the list of oracle requests of one scenario with the implementation's canonicalised answers.
type Trace struct {
	Lines []string
	Wants []string
	// Fails are violations of the property's own predicates, evaluated on the implementation's answers
	// against the bookkeeping of the tree (class, message).
	Fails [][2]string
}

func (t *Trace) add(line, want string) { t.Lines = append(t.Lines, line); t.Wants = append(t.Wants, want) }
func (t *Trace) fail(class, msg string) {
	if len(t.Fails) < 20 {
		t.Fails = append(t.Fails, [2]string{class, msg})
	}
}

// Reader is a subscriber: a real BlockReader plus the stack of blocks it currently holds.
type Reader struct {
	kind  string // "chain" = chain.BlockReader; "block" / "beat" / "beat2" = the api/subscriptions readers built on it
	rd    chain.BlockReader
	api   subscriptions.VerifReader
	pos   thor.Bytes32
	stack []int
	start int
	quiet bool // last read returned nothing
	lost  bool // a read failed outside the premise of reader_converges (position below a best block that has descendants)
}

type Runner struct {
	S       *Sim
	R       *hx.Rand
	T       Trace
	Readers []*Reader
	Cov     *hx.Coverage
	// what to exercise
	Lookups bool // C09: tx lookups
	Index   bool // C14: by-number / exclude / heads
	Streams bool // C14: block readers
	caches  *subscriptions.VerifCaches // shared by every subscriber, as the subscriptions handler wires them
}

type streamItem struct {
	id       thor.Bytes32
	obsolete bool
}

// read performs one Read of the subscriber's reader and projects the stream to (block id, obsolete flag).
func (rd *Reader) read() ([]streamItem, error) {
	var items []streamItem
	if rd.kind == "chain" || rd.kind == "event" || rd.kind == "transfer" {
		// event / transfer subscribers: the block-level stream comes from a shadow chain reader stepped in lockstep
		blocks, err := rd.rd.Read()
		if err != nil {
			return nil, err
		}
		for _, b := range blocks {
			items = append(items, streamItem{b.Header().ID(), b.Obsolete})
		}
		return items, nil
	}
	msgs, _, err := rd.api.Read()
	if err != nil {
		return nil, err
	}
	for _, m := range msgs {
		switch v := m.(type) {
		case *api.BlockMessage:
			items = append(items, streamItem{v.ID, v.Obsolete})
		case api.BeatMessage:
			items = append(items, streamItem{v.ID, v.Obsolete})
		case api.Beat2Message:
			items = append(items, streamItem{v.ID, v.Obsolete})
		default:
			return nil, fmt.Errorf("unexpected message type %T", m)
		}
	}
	return items, nil
}

func NewRunner(s *Sim, cov *hx.Coverage) *Runner {
	r := &Runner{S: s, R: hx.NewRand(s.Scn.QSeed), Cov: cov}
	r.T.add(s.InitLine(), "ok")
	return r
}

func (r *Runner) classify(err error) string {
	if r.S.Repo.IsNotFound(err) {
		return "nf"
	}
	return "err"
}

// ---------------------------------------------------------------- single queries (line, implementation answer, predicate)

func (r *Runner) QID(h int, n uint32) {
	s := r.S
	id, err := s.Repo.NewChain(s.ID(h)).GetBlockID(n)
	want := ""
	if err != nil {
		want = r.classify(err)
	} else {
		want = "ok:" + N32(id)
	}
	r.T.add(fmt.Sprintf("ID %s %x", N32(s.ID(h)), n), want)
	// property: the block at height n seen from head h is h's own ancestor at that height
	anc := s.AncestorAt(h, n)
	if anc >= 0 && (err != nil || id != s.ID(anc)) {
		r.T.fail("by-number-not-ancestor", fmt.Sprintf("GetBlockID(head #%d, %d) = %s, ancestor is #%d %s", h, n, want, anc, N32(s.ID(anc))))
	}
	if anc < 0 && want != "nf" {
		r.T.fail("by-number-above-head", fmt.Sprintf("GetBlockID(head #%d, %d) = %s above the head", h, n, want))
	}
	r.Cov.Count("q:ID")
}

func (r *Runner) QHasB(h, b int) {
	s := r.S
	has, err := s.Repo.NewChain(s.ID(h)).HasBlock(s.ID(b))
	want := hx.B(has)
	if err != nil {
		want = r.classify(err)
	}
	r.T.add(fmt.Sprintf("HASB %s %s", N32(s.ID(h)), N32(s.ID(b))), want)
	if err != nil || has != s.OnChain(h, b) {
		r.T.fail("has-block-wrong", fmt.Sprintf("HasBlock(head #%d, #%d) = %s, bookkeeping says %v", h, b, want, s.OnChain(h, b)))
	}
	r.Cov.Count("q:HASB")
}

func (r *Runner) QEx(c, o int) {
	s := r.S
	ids, err := s.Repo.NewChain(s.ID(c)).Exclude(s.Repo.NewChain(s.ID(o)))
	want := ""
	if err != nil {
		want = r.classify(err)
	} else {
		var l []string
		for _, id := range ids {
			l = append(l, N32(id))
		}
		want = "ok:" + strings.Join(l, ",")
	}
	r.T.add(fmt.Sprintf("EX %s %s", N32(s.ID(c)), N32(s.ID(o))), want)
	// property: exactly the blocks on c's chain and not on o's, ascending
	var exp []string
	for _, b := range s.Path(c) {
		if !s.OnChain(o, b) {
			exp = append(exp, N32(s.ID(b)))
		}
	}
	if want != "ok:"+strings.Join(exp, ",") {
		r.T.fail("exclude-not-difference", fmt.Sprintf("Exclude(#%d, #%d) = %s, difference of the chains is %v", c, o, want, exp))
	}
	r.Cov.Count("q:EX")
	if len(exp) >= 2 {
		r.Cov.Count("q:EX-depth>=2")
	}
}

// window reports whether every inclusion of tx t on the chain of h sits at a height >= the tx's block ref.
func (r *Runner) window(h, t int) bool {
	for _, in := range r.S.Inclusions(h, t) {
		if r.S.Height[in[0]] < r.S.Scn.Txs[t].Ref {
			return false
		}
	}
	return true
}

func (r *Runner) QHTX(h, t int, ref uint32) {
	s := r.S
	x := s.Txs[t].ID()
	has, err := s.Repo.NewChain(s.ID(h)).HasTransaction(x, ref)
	want := hx.B(has)
	if err != nil {
		want = r.classify(err)
	}
	r.T.add(fmt.Sprintf("HTX %s %s %x", N32(s.ID(h)), N32(x), ref), want)
	hn := s.Height[h]
	switch {
	case ref > hn:
		r.Cov.Count("q:HTX-future")
	case hn-ref < 100:
		r.Cov.Count("q:HTX-recent")
		if hn-ref >= 97 {
			r.Cov.Count("q:HTX-recent-boundary")
		}
	default:
		r.Cov.Count("q:HTX-indexed")
		if hn-ref <= 102 {
			r.Cov.Count("q:HTX-indexed-boundary")
		}
	}
	// property: with the tx's own ref, on a chain that respects the window rule, found <=> on that chain
	if ref == s.Scn.Txs[t].Ref && r.window(h, t) {
		on := len(s.Inclusions(h, t)) > 0
		if err != nil || has != on {
			r.T.fail("has-tx-not-membership", fmt.Sprintf("HasTransaction(head #%d h=%d, tx %d ref=%d) = %s, on chain: %v", h, hn, t, ref, want, on))
		}
		if on {
			r.Cov.Count("q:HTX-on-chain")
		}
	}
}

func (r *Runner) metaString(m *chain.TxMeta) string {
	return fmt.Sprintf("%x,%x,%x,%s", m.BlockNum, m.BlockConflicts, m.Index, hx.B(m.Reverted))
}

func (r *Runner) QMeta(h, t int, deep bool) {
	s := r.S
	x := s.Txs[t].ID()
	c := s.Repo.NewChain(s.ID(h))
	m, err := c.GetTransactionMeta(x)
	want := ""
	if err != nil {
		want = r.classify(err)
	} else {
		want = "ok:" + r.metaString(m)
	}
	r.T.add(fmt.Sprintf("META %s %s", N32(s.ID(h)), N32(x)), want)
	r.Cov.Count("q:META")
	incl := s.Inclusions(h, t)
	if len(incl) == 0 {
		if want != "nf" {
			r.T.fail("lookup-not-on-chain", fmt.Sprintf("GetTransactionMeta(head #%d, tx %d) = %s but the tx is not on that chain", h, t, want))
		}
	} else {
		ok := false
		if err == nil {
			for _, in := range incl {
				b := in[0]
				bs := &s.Scn.Blocks[b-1]
				if s.Height[b] == m.BlockNum && s.Confl[b] == m.BlockConflicts && m.Index < uint64(len(bs.Incl)) &&
					bs.Incl[m.Index].Tx == t && bs.Incl[m.Index].Rev == m.Reverted {
					ok = true
				}
			}
		}
		if !ok {
			r.T.fail("lookup-not-on-chain", fmt.Sprintf("GetTransactionMeta(head #%d, tx %d) = %s, inclusions on that chain: %v", h, t, want, incl))
		}
		r.Cov.Count("q:META-found")
	}
	if !deep {
		return
	}
	// GetTransaction / GetTransactionReceipt go through the same meta and then read the blob
	trx, m2, err := c.GetTransaction(x)
	if err != nil {
		want = r.classify(err)
	} else {
		want = "ok:" + r.metaString(m2) + "," + N32(trx.ID())
		if trx.ID() != x {
			r.T.fail("lookup-wrong-tx", fmt.Sprintf("GetTransaction(head #%d, tx %d) returned another tx", h, t))
		}
	}
	r.T.add(fmt.Sprintf("TX %s %s", N32(s.ID(h)), N32(x)), want)
	rc, err := c.GetTransactionReceipt(x)
	if err != nil {
		want = r.classify(err)
	} else {
		want = "ok:" + hx.B(rc.Reverted)
	}
	r.T.add(fmt.Sprintf("RC %s %s", N32(s.ID(h)), N32(x)), want)
	r.Cov.Count("q:TX+RC")
}

func (r *Runner) QHeads(from uint32) {
	s := r.S
	hs, err := s.Repo.ScanHeads(from)
	var l []string
	for _, id := range hs {
		l = append(l, N32(id))
	}
	want := strings.Join(l, ",")
	if err != nil {
		want = "err"
	}
	r.T.add(fmt.Sprintf("HEADS %x", from), want)
	var exp []string
	for _, h := range s.Heads() {
		if s.Height[h] >= from {
			exp = append(exp, N32(s.ID(h)))
		}
	}
	sort.Slice(exp, func(i, j int) bool { return cmpHexN(exp[i], exp[j]) > 0 })
	if want != strings.Join(exp, ",") {
		r.T.fail("heads-not-tips", fmt.Sprintf("ScanHeads(%d) = %s, branch tips are %v", from, want, exp))
	}
	r.Cov.Count("q:HEADS")
}

func cmpHexN(a, b string) int {
	if len(a) != len(b) {
		if len(a) < len(b) {
			return -1
		}
		return 1
	}
	return strings.Compare(a, b)
}

func (r *Runner) QConf(n uint32) {
	s := r.S
	c, err1 := s.Repo.ScanConflicts(n)
	ids, err2 := s.Repo.GetConflicts(n)
	var l []string
	for _, id := range ids {
		l = append(l, N32(id))
	}
	want := fmt.Sprintf("%x:%s", c, strings.Join(l, ","))
	if err1 != nil || err2 != nil {
		want = "err"
	}
	r.T.add(fmt.Sprintf("CONF %x", n), want)
	r.Cov.Count("q:CONF")
}

func (r *Runner) QBest() {
	r.T.add("BEST", N32(r.S.Repo.BestBlockSummary().Header.ID()))
	if r.S.Repo.BestBlockSummary().Header.ID() != r.S.ID(r.S.Best) {
		r.T.fail("best-not-last-set", "BestBlockSummary is not the last block added as best")
	}
}

// ---------------------------------------------------------------- readers

func (r *Runner) NewReader(start int) {
	s := r.S
	kind := []string{"chain", "chain", "block", "beat", "beat2", "event", "transfer"}[r.R.Intn(7)]
	rd := &Reader{kind: kind, pos: s.ID(start), stack: s.Path(start), start: start}
	if kind == "chain" {
		rd.rd = s.Repo.NewBlockReader(s.ID(start))
	} else if kind == "event" || kind == "transfer" {
		rd.rd = s.Repo.NewBlockReader(s.ID(start))
		rd.api = subscriptions.VerifNewReader(kind, s.Repo, s.ID(start), nil)
	} else {
		if r.caches == nil {
			r.caches = subscriptions.VerifNewCaches(1000)
		}
		rd.api = subscriptions.VerifNewReader(kind, s.Repo, s.ID(start), r.caches)
	}
	r.Readers = append(r.Readers, rd)
	r.Cov.Count("reader:new")
	r.Cov.Count("reader:new-" + kind)
	if !s.OnChain(s.Best, start) {
		r.Cov.Count("reader:start-off-canonical")
	}
}

// StepReader performs one Read; it returns false when the reader is quiescent.
func (r *Runner) StepReader(rd *Reader) bool {
	s := r.S
	// Outside the premise of reader_converges (the position is a proper descendant of the best block, which the node's
	// fork choice never allows) the reader's behaviour is not specified by the property: such reads are not issued.
	if pi, ok := s.ByID[rd.pos]; ok && pi != s.Best && s.OnChain(pi, s.Best) {
		r.Cov.Count("reader:below-best(outside-premise,skipped)")
		rd.lost = true
		return false
	}
	blocks, err := rd.read()
	line := "READ " + N32(rd.pos)
	// failures of the subscription-level readers get their own classes (same stream, different code on top)
	pre := ""
	if rd.kind != "chain" {
		pre = rd.kind + "-"
	}
	if err != nil {
		r.T.add(line, r.classify2(err))
		r.T.fail("reader-error", fmt.Sprintf("BlockReader.Read from a known block failed: %v", err))
		rd.lost = true
		return false
	}
	if rd.kind == "event" || rd.kind == "transfer" {
		r.checkLogStream(rd, blocks)
	}
	var l []string
	obs := 0
	for _, b := range blocks {
		id := b.id
		l = append(l, N32(id)+"/"+hx.B(b.obsolete))
		idx, known := s.ByID[id]
		if !known {
			r.T.fail("reader-unknown-block", "reader returned a block that was never added")
			continue
		}
		if b.obsolete {
			obs++
			// the subscriber drops it: it must be the block on top of what it holds
			if len(rd.stack) == 0 || rd.stack[len(rd.stack)-1] != idx {
				r.T.fail(pre+"reader-obsolete-not-top", fmt.Sprintf("reader (start #%d) flagged #%d obsolete but the subscriber's top is %v", rd.start, idx, top(rd.stack)))
			} else {
				rd.stack = rd.stack[:len(rd.stack)-1]
			}
		} else {
			if len(rd.stack) == 0 || rd.stack[len(rd.stack)-1] != s.Parent[idx] {
				r.T.fail(pre+"reader-append-not-child", fmt.Sprintf("reader (start #%d) streamed #%d which does not extend the subscriber's top %v", rd.start, idx, top(rd.stack)))
			}
			rd.stack = append(rd.stack, idx)
		}
		rd.pos = id
	}
	if len(blocks) > 0 && blocks[len(blocks)-1].obsolete {
		r.T.fail(pre+"reader-ends-obsolete", "a read ended with an obsolete block")
	}
	r.T.add(line, "ok:"+strings.Join(l, ",")+";"+N32(rd.pos))
	r.Cov.Count("reader:read")
	if obs > 0 {
		r.Cov.Count("reader:read-with-obsolete")
	}
	if obs >= 2 {
		r.Cov.Count("reader:read-with-obsolete>=2")
	}
	rd.quiet = len(blocks) == 0
	if rd.quiet {
		// property: a quiescent subscriber holds exactly the canonical chain
		want := s.Path(s.Best)
		if !eqInts(rd.stack, want) {
			r.T.fail(pre+"reader-end-not-canonical", fmt.Sprintf("reader (start #%d) is quiescent holding %v, canonical chain is %v", rd.start, rd.stack, want))
		}
		r.Cov.Count("reader:quiescent-checked")
	}
	return !rd.quiet
}

func (r *Runner) classify2(err error) string { return "err" }

// checkLogStream: an event / transfer subscriber (match-all filter) must receive, for every block of the block-level
// stream and in that order, one message per event / transfer of the block's receipts, each carrying the block's
// obsolete flag — so that dropping the obsolete ones leaves exactly the logs of the canonical chain.
func (r *Runner) checkLogStream(rd *Reader, blocks []streamItem) {
	s := r.S
	msgs, _, err := rd.api.Read()
	if err != nil {
		r.T.fail(rd.kind+"-reader-error", fmt.Sprintf("%s subscription reader failed: %v", rd.kind, err))
		return
	}
	var got, want []string
	for _, m := range msgs {
		switch v := m.(type) {
		case *api.EventMessage:
			got = append(got, fmt.Sprintf("%s/%s/%d/%s", N32(v.Meta.BlockID), N32(v.Meta.TxID), v.Meta.ClauseIndex, hx.B(v.Obsolete)))
		case *api.TransferMessage:
			got = append(got, fmt.Sprintf("%s/%s/%d/%s", N32(v.Meta.BlockID), N32(v.Meta.TxID), v.Meta.ClauseIndex, hx.B(v.Obsolete)))
		default:
			got = append(got, fmt.Sprintf("unexpected %T", m))
		}
	}
	for _, b := range blocks {
		idx, ok := s.ByID[b.id]
		if !ok {
			continue
		}
		txs := s.Blocks[idx].Transactions()
		for i, rc := range s.Receipts[idx] {
			for ci, o := range rc.Outputs {
				n := len(o.Events)
				if rd.kind == "transfer" {
					n = len(o.Transfers)
				}
				for k := 0; k < n; k++ {
					want = append(want, fmt.Sprintf("%s/%s/%d/%s", N32(b.id), N32(txs[i].ID()), ci, hx.B(b.obsolete)))
				}
			}
		}
	}
	if strings.Join(got, ",") != strings.Join(want, ",") {
		r.T.fail(rd.kind+"-reader-stream-not-logs-of-blocks", fmt.Sprintf("%s subscriber (start #%d): streamed %d messages %v, the streamed blocks' receipts prescribe %d: %v",
			rd.kind, rd.start, len(got), got, len(want), want))
	}
	r.Cov.Add("reader:"+rd.kind+"-messages", len(got))
}

func top(s []int) any {
	if len(s) == 0 {
		return "empty"
	}
	return s[len(s)-1]
}
func eqInts(a, b []int) bool {
	if len(a) != len(b) {
		return false
	}
	for i := range a {
		if a[i] != b[i] {
			return false
		}
	}
	return true
}

// ---------------------------------------------------------------- stepping a scenario

func (r *Runner) heights(h int) []uint32 {
	H := r.S.Height[h]
	if H <= 14 {
		var l []uint32
		for n := uint32(0); n <= H+1; n++ {
			l = append(l, n)
		}
		return l
	}
	l := []uint32{0, 1, H - 1, H, H + 1, H + 7}
	for i := 0; i < 6; i++ {
		l = append(l, uint32(r.R.Intn(int(H)+1)))
	}
	return l
}

func (r *Runner) refsFor(h, t int) []uint32 {
	own := r.S.Scn.Txs[t].Ref
	l := []uint32{own}
	if r.R.Chance(1, 3) {
		H := r.S.Height[h]
		cands := []uint32{0, H, H + 1}
		for _, d := range []uint32{98, 99, 100, 101} {
			if H >= d {
				cands = append(cands, H-d)
			}
		}
		l = append(l, cands[r.R.Intn(len(cands))])
	}
	return l
}

// Step adds the next block of the scenario and runs the sampled queries; returns false when done.
func (r *Runner) Step() (bool, error) {
	s := r.S
	if s.Done() {
		return false, nil
	}
	b, rcs, conf, spec, err := s.BuildNext()
	if err != nil {
		return false, err
	}
	line := AddLine(b, rcs, conf, spec.Best)
	if err := s.Commit(b, rcs, conf, spec); err != nil {
		return false, err
	}
	r.T.add(line, "ok")
	nb := len(s.Blocks) - 1
	r.Cov.Count("op:add")
	if spec.Best {
		r.Cov.Count("op:add-as-best")
	}
	rnd := func() int { return r.R.Intn(len(s.Blocks)) }
	heads := []int{nb, s.Best, rnd()}
	if r.Index {
		for _, h := range heads {
			for _, n := range r.heights(h) {
				r.QID(h, n)
			}
		}
		r.QHasB(nb, rnd())
		r.QHasB(rnd(), nb)
		r.QEx(nb, s.Best)
		r.QEx(s.Best, nb)
		a, c := rnd(), rnd()
		r.QEx(a, c)
		r.QEx(nb, a)
		if r.R.Chance(1, 4) {
			r.QHeads(uint32(r.R.Intn(int(s.Height[nb]) + 2)))
			r.QConf(s.Height[nb])
			r.QBest()
		}
	}
	if r.Lookups && len(s.Txs) > 0 {
		txs := map[int]bool{}
		for _, in := range spec.Incl {
			txs[in.Tx] = true
			if d := s.Scn.Txs[in.Tx].Dep; d >= 0 {
				txs[d] = true
			}
		}
		for i := 0; i < 3; i++ {
			txs[r.R.Intn(len(s.Txs))] = true
		}
		var tl []int
		for t := range txs {
			tl = append(tl, t)
		}
		sort.Ints(tl)
		for _, h := range heads {
			for _, t := range tl {
				for _, ref := range r.refsFor(h, t) {
					r.QHTX(h, t, ref)
				}
				r.QMeta(h, t, r.R.Chance(1, 3))
			}
		}
	}
	if r.Streams {
		if len(r.Readers) < 10 && r.R.Chance(1, 3) {
			r.NewReader(rnd())
		}
		for _, rd := range r.Readers {
			if !rd.lost && r.R.Chance(1, 2) {
				for k := r.R.Range(1, 3); k > 0; k-- {
					if !r.StepReader(rd) {
						break
					}
				}
			}
		}
	}
	return true, nil
}

// Sweep queries everything once the tree is complete and drains every reader.
func (r *Runner) Sweep() {
	s := r.S
	var heads []int
	if len(s.Blocks) <= 48 {
		for i := range s.Blocks {
			heads = append(heads, i)
		}
	} else {
		heads = s.Heads()
		for i := 0; i < 16; i++ {
			heads = append(heads, r.R.Intn(len(s.Blocks)))
		}
		if len(heads) > 60 {
			heads = heads[:60]
		}
	}
	if r.Index {
		for _, h := range heads {
			for n := uint32(0); n <= s.Height[h]+1; n++ {
				r.QID(h, n)
			}
		}
		hp := heads
		if len(hp) > 12 {
			hp = hp[:12]
		}
		for _, a := range hp {
			for _, b := range hp {
				r.QEx(a, b)
			}
		}
		r.QHeads(0)
		for n := uint32(0); n <= s.Height[s.Best]+1 && n < 40; n++ {
			r.QConf(n)
		}
		r.QBest()
	}
	if r.Lookups {
		for _, h := range heads {
			for t := range s.Txs {
				r.QHTX(h, t, s.Scn.Txs[t].Ref)
				r.QMeta(h, t, t%3 == 0)
			}
		}
	}
	if r.Streams {
		for i := 0; i < 6 && len(s.Blocks) > 1; i++ {
			r.NewReader(r.R.Intn(len(s.Blocks)))
		}
		for _, rd := range r.Readers {
			if rd.lost {
				continue
			}
			for k := 0; k < 2*len(s.Blocks)+4; k++ {
				if !r.StepReader(rd) {
					break
				}
			}
			if !rd.quiet && !rd.lost {
				r.T.fail("reader-does-not-converge", fmt.Sprintf("reader (start #%d) still not quiescent after %d reads", rd.start, 2*len(s.Blocks)+4))
			}
		}
	}
}

// Diff runs the oracle over the trace; returns the index of the first disagreement (-1 if none).
func (r *Runner) Diff(oracle string) (int, string, error) {
	ans, err := hx.AskAll(oracle, r.T.Lines)
	if err != nil {
		return -1, "", err
	}
	for i := range ans {
		if ans[i] != r.T.Wants[i] {
			return i, ans[i], nil
		}
	}
	return -1, "", nil
}

var _ = thor.Bytes32{}
