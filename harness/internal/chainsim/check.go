package chainsim

import (
	"encoding/json"
	"fmt"
	"os"
	"path/filepath"
	"sort"
	"strings"

	"verif/harness/internal/hx"
)

type Mode struct {
	Lookups, Index, Streams bool
}

// Outcome of one scenario on the implementation and the model.
type Outcome struct {
	Fails    [][2]string // property predicate failures on the implementation
	DiffAt   int         // first disagreeing request, -1 if none
	DiffLine string
	Impl     string
	Model    string
	Err      error
	Queries  int
}

// Execute grows the scenario's tree on a fresh repository, samples queries after every step, sweeps at the end,
// and compares with the oracle.
func Execute(scn *Scenario, mode Mode, oracle string, cov *hx.Coverage) Outcome {
	if cov == nil {
		cov = hx.NewCoverage()
	}
	s, err := NewSim(scn)
	if err != nil {
		return Outcome{Err: err, DiffAt: -1}
	}
	defer s.Close()
	r := NewRunner(s, cov)
	r.Lookups, r.Index, r.Streams = mode.Lookups, mode.Index, mode.Streams
	for {
		more, err := r.Step()
		if err != nil {
			return Outcome{Err: err, DiffAt: -1}
		}
		if !more {
			break
		}
	}
	r.Sweep()
	out := Outcome{Fails: r.T.Fails, DiffAt: -1, Queries: len(r.T.Lines)}
	idx, got, err := r.Diff(oracle)
	if err != nil {
		out.Err = err
		return out
	}
	if idx >= 0 {
		out.DiffAt, out.DiffLine, out.Impl, out.Model = idx, r.T.Lines[idx], r.T.Wants[idx], got
	}
	return out
}

func cmdOf(line string) string {
	if i := strings.IndexByte(line, ' '); i > 0 {
		return line[:i]
	}
	return line
}

// Report turns an outcome into violations: a direct property failure is reported as found; a model/implementation
// disagreement is first shrunk while looking for a direct failure, and is otherwise reported as a broken correspondence.
func Report(ctx *hx.Ctx, scn *Scenario, mode Mode, out Outcome, theorems string) {
	if out.Err != nil {
		hx.Fatal("scenario failed to run: %v", out.Err)
	}
	if len(out.Fails) > 0 {
		class := out.Fails[0][0]
		if Reported(ctx, "property:"+class) {
			return
		}
		small := Shrink(scn, 120, func(c *Scenario) bool {
			o := Execute(c, mode, ctx.Oracle, nil)
			return o.Err == nil && len(o.Fails) > 0 && o.Fails[0][0] == class
		})
		o := Execute(small, mode, ctx.Oracle, nil)
		msg := out.Fails[0][1]
		if len(o.Fails) > 0 {
			msg = o.Fails[0][1]
		}
		ctx.Violation("property:"+class, msg, small, true)
		return
	}
	if out.DiffAt >= 0 {
		if Reported(ctx, "correspondence:"+cmdOf(out.DiffLine)) {
			return
		}
		var direct *Scenario
		var dmsg [2]string
		small := Shrink(scn, 120, func(c *Scenario) bool {
			o := Execute(c, mode, ctx.Oracle, nil)
			if o.Err != nil {
				return false
			}
			if len(o.Fails) > 0 && direct == nil {
				direct, dmsg = c, o.Fails[0]
			}
			return o.DiffAt >= 0 && cmdOf(o.DiffLine) == cmdOf(out.DiffLine)
		})
		if direct != nil {
			ctx.Violation("property:"+dmsg[0], dmsg[1], direct, true)
			return
		}
		o := Execute(small, mode, ctx.Oracle, nil)
		if o.DiffAt < 0 {
			o = out
			small = scn
		}
		ctx.Violation("correspondence:"+cmdOf(o.DiffLine),
			fmt.Sprintf("correspondence Chain.Model ~ chain.Repository no longer checks (%s are about the model): request %q impl=%s model=%s",
				theorems, o.DiffLine, o.Impl, o.Model), small, false)
	}
}

// Reported tells whether a violation of that class was already recorded in this run (hx keeps the first per class),
// so that later failing scenarios of the same class are not shrunk again.
func Reported(ctx *hx.Ctx, class string) bool {
	for _, v := range ctx.Violations {
		if v.Class == class {
			return true
		}
	}
	return false
}

// LoadReplay reads a scenario out of a replay file written by hx (field "replay") or a bare scenario file.
func LoadReplay(path string) (*Scenario, error) {
	b, err := os.ReadFile(path)
	if err != nil {
		return nil, err
	}
	var doc struct {
		Replay *Scenario `json:"replay"`
	}
	if err := json.Unmarshal(b, &doc); err == nil && doc.Replay != nil && len(doc.Replay.Blocks) > 0 {
		return doc.Replay, nil
	}
	var s Scenario
	if err := json.Unmarshal(b, &s); err != nil {
		return nil, err
	}
	return &s, nil
}

// Corpus lists the scenario files of a corpus directory (sorted).
func Corpus(dir string) []string {
	l, _ := filepath.Glob(filepath.Join(dir, "*.json"))
	sort.Strings(l)
	return l
}

// Canonical text of a scenario for distinctness accounting.
func Canonical(s *Scenario) string { b, _ := json.Marshal(s); return string(b) }

// Stats about a scenario for the evidence distribution.
func Stats(s *Scenario) (depth int, forks int, reincl int) {
	h := make([]int, len(s.Blocks)+1)
	kids := make([]int, len(s.Blocks)+1)
	seen := map[int]int{}
	for i, b := range s.Blocks {
		h[i+1] = h[b.Parent] + 1
		if h[i+1] > depth {
			depth = h[i+1]
		}
		kids[b.Parent]++
		for _, in := range b.Incl {
			seen[in.Tx]++
		}
	}
	for _, k := range kids {
		if k > 1 {
			forks++
		}
	}
	for _, n := range seen {
		if n > 1 {
			reincl++
		}
	}
	return
}
