// Package chainsim grows fork trees on a real chain.Repository (over muxdb.NewMem) from a small JSON-able
// scenario: synthetic signed blocks with chosen tx sets and receipts.  It keeps its own bookkeeping of the tree
// (parents, heights, inclusions) as ground truth for the property predicates, and renders every step as a line
// of the repository oracle's protocol.  Used by the C09, C14 and C15 drivers.
package chainsim

import (
	"crypto/ecdsa"
	"encoding/hex"
	"fmt"
	"math/big"
	"strings"

	"github.com/ethereum/go-ethereum/crypto"

	"github.com/vechain/thor/v2/block"
	"github.com/vechain/thor/v2/chain"
	"github.com/vechain/thor/v2/muxdb"
	"github.com/vechain/thor/v2/thor"
	"github.com/vechain/thor/v2/tx"

	"verif/harness/internal/hx"
)

// ---------------------------------------------------------------- scenario (what a replay file contains)

type EvSpec struct {
	Addr   int      `json:"a"`
	Topics []string `json:"t,omitempty"` // 32-byte hex each
	Data   string   `json:"d,omitempty"` // hex
}
type TrSpec struct {
	From   int    `json:"f"`
	To     int    `json:"t"`
	Amount string `json:"v"` // hex number
}
type OutSpec struct {
	Events    []EvSpec `json:"e,omitempty"`
	Transfers []TrSpec `json:"x,omitempty"`
}
type TxSpec struct {
	Key    int    `json:"k"`
	Nonce  uint64 `json:"n"`
	Ref    uint32 `json:"ref"`
	Exp    uint32 `json:"exp"`
	Dep    int    `json:"dep"` // index of another tx of the scenario, -1 = none
	BadTag bool   `json:"badtag,omitempty"`
}
type Incl struct {
	Tx   int       `json:"tx"`
	Rev  bool      `json:"rev,omitempty"`
	Outs []OutSpec `json:"o,omitempty"`
}
type BlockSpec struct {
	Parent int    `json:"p"` // index into the block list, 0 = genesis; block i of Blocks has index i+1
	Incl   []Incl `json:"i,omitempty"`
	Best   bool   `json:"best,omitempty"`
}
type Scenario struct {
	Shape  string      `json:"shape"`
	Txs    []TxSpec    `json:"txs"`
	Blocks []BlockSpec `json:"blocks"`
	QSeed  uint64      `json:"qseed"`
}

// ---------------------------------------------------------------- the simulated node store

var keys []*ecdsa.PrivateKey
var addrs []thor.Address

func init() {
	for i := 0; i < 8; i++ {
		k, err := crypto.ToECDSA(thor.Blake2b([]byte(fmt.Sprintf("verif-chainsim-key-%d", i))).Bytes())
		if err != nil {
			panic(err)
		}
		keys = append(keys, k)
		addrs = append(addrs, thor.Address(crypto.PubkeyToAddress(k.PublicKey)))
	}
}

// Addr maps a small index to a fixed address (indices >= 100 give synthetic non-key addresses).
func Addr(i int) thor.Address {
	if i >= 0 && i < len(addrs) {
		return addrs[i]
	}
	return thor.BytesToAddress(thor.Blake2b([]byte(fmt.Sprintf("verif-addr-%d", i))).Bytes()[:20])
}

type Sim struct {
	Scn      *Scenario
	DB       *muxdb.MuxDB
	Repo     *chain.Repository
	Tag      byte
	Txs      []*tx.Transaction
	Blocks   []*block.Block // index 0 = genesis
	Receipts []tx.Receipts
	Confl    []uint32
	Parent   []int
	Height   []uint32
	Best     int
	ByID     map[thor.Bytes32]int
	TxByID   map[thor.Bytes32]int
	next     int // next scenario block to add
}

func signBlock(b *block.Block) *block.Block {
	sig, err := crypto.Sign(b.Header().SigningHash().Bytes(), keys[7])
	if err != nil {
		panic(err)
	}
	return b.WithSignature(sig)
}

// NewSim creates the repository with a signed genesis and builds (signs) every tx of the scenario.
func NewSim(scn *Scenario) (*Sim, error) {
	db := muxdb.NewMem()
	g := signBlock(new(block.Builder).ParentID(thor.Bytes32{0xff, 0xff, 0xff, 0xff}).Timestamp(1_600_000_000).Build())
	repo, err := chain.NewRepository(db, g)
	if err != nil {
		return nil, err
	}
	s := &Sim{Scn: scn, DB: db, Repo: repo, Tag: repo.ChainTag(), ByID: map[thor.Bytes32]int{}, TxByID: map[thor.Bytes32]int{}}
	s.Blocks = append(s.Blocks, g)
	s.Receipts = append(s.Receipts, nil)
	s.Confl = append(s.Confl, 0)
	s.Parent = append(s.Parent, -1)
	s.Height = append(s.Height, 0)
	s.ByID[g.Header().ID()] = 0
	for i, t := range scn.Txs {
		tag := s.Tag
		if t.BadTag {
			tag ^= 0x55
		}
		b := tx.NewBuilder(tx.TypeLegacy).ChainTag(tag).BlockRef(tx.NewBlockRef(t.Ref)).Expiration(t.Exp).
			Nonce(t.Nonce).Gas(21000)
		if t.Dep >= 0 && t.Dep < i {
			id := s.Txs[t.Dep].ID()
			b = b.DependsOn(&id)
		}
		trx := tx.MustSign(b.Build(), keys[t.Key%7])
		s.Txs = append(s.Txs, trx)
		s.TxByID[trx.ID()] = i
	}
	return s, nil
}

func (s *Sim) Close() { s.DB.Close() }

func topic(hexs string) thor.Bytes32 {
	b, _ := thor.ParseBytes32("0x" + strings.Repeat("0", 64-len(hexs)) + hexs)
	return b
}

func hexBytes(s string) []byte {
	if len(s)%2 == 1 {
		s = "0" + s
	}
	out, _ := hex.DecodeString(s)
	return out
}

func buildReceipt(in *Incl) *tx.Receipt {
	r := &tx.Receipt{GasUsed: 21000, Paid: big.NewInt(0), Reward: big.NewInt(0), Reverted: in.Rev}
	for _, o := range in.Outs {
		out := &tx.Output{}
		for _, e := range o.Events {
			ev := &tx.Event{Address: Addr(e.Addr), Data: hexBytes(e.Data)}
			for _, t := range e.Topics {
				ev.Topics = append(ev.Topics, topic(t))
			}
			out.Events = append(out.Events, ev)
		}
		for _, t := range o.Transfers {
			amt, _ := new(big.Int).SetString(t.Amount, 16)
			if amt == nil {
				amt = new(big.Int)
			}
			out.Transfers = append(out.Transfers, &tx.Transfer{Sender: Addr(t.From), Recipient: Addr(t.To), Amount: amt})
		}
		r.Outputs = append(r.Outputs, out)
	}
	return r
}

// Done reports whether every scenario block has been added.
func (s *Sim) Done() bool { return s.next >= len(s.Scn.Blocks) }

// BuildNext builds (does not store) the next scenario block; conflicts are what the node's guard would assign.
func (s *Sim) BuildNext() (*block.Block, tx.Receipts, uint32, *BlockSpec, error) {
	spec := &s.Scn.Blocks[s.next]
	idx := len(s.Blocks)
	if spec.Parent < 0 || spec.Parent >= idx {
		return nil, nil, 0, nil, fmt.Errorf("block %d: bad parent index %d", idx, spec.Parent)
	}
	parent := s.Blocks[spec.Parent]
	bb := new(block.Builder).ParentID(parent.Header().ID()).Timestamp(parent.Header().Timestamp() + 10).
		GasLimit(10_000_000 + uint64(idx)).TotalScore(uint64(s.Height[spec.Parent]) + 1)
	var rcs tx.Receipts
	for k := range spec.Incl {
		in := &spec.Incl[k]
		if in.Tx < 0 || in.Tx >= len(s.Txs) {
			return nil, nil, 0, nil, fmt.Errorf("block %d: bad tx index", idx)
		}
		bb.Transaction(s.Txs[in.Tx])
		rcs = append(rcs, buildReceipt(in))
	}
	b := signBlock(bb.Build())
	conf, err := s.Repo.ScanConflicts(b.Header().Number())
	if err != nil {
		return nil, nil, 0, nil, err
	}
	return b, rcs, conf, spec, nil
}

// Commit stores a block built by BuildNext in the repository and in the bookkeeping.
func (s *Sim) Commit(b *block.Block, rcs tx.Receipts, conf uint32, spec *BlockSpec) error {
	if err := s.Repo.AddBlock(b, rcs, conf, spec.Best); err != nil {
		return err
	}
	idx := len(s.Blocks)
	s.Blocks = append(s.Blocks, b)
	s.Receipts = append(s.Receipts, rcs)
	s.Confl = append(s.Confl, conf)
	s.Parent = append(s.Parent, spec.Parent)
	s.Height = append(s.Height, s.Height[spec.Parent]+1)
	s.ByID[b.Header().ID()] = idx
	if spec.Best {
		s.Best = idx
	}
	s.next++
	return nil
}

// ---------------------------------------------------------------- ground truth from the bookkeeping

// Path returns the block indices genesis..i.
func (s *Sim) Path(i int) []int {
	var p []int
	for x := i; x >= 0; x = s.Parent[x] {
		p = append(p, x)
	}
	for a, b := 0, len(p)-1; a < b; a, b = a+1, b-1 {
		p[a], p[b] = p[b], p[a]
	}
	return p
}

// AncestorAt returns the ancestor of h at height n, -1 if n is above h.
func (s *Sim) AncestorAt(h int, n uint32) int {
	if n > s.Height[h] {
		return -1
	}
	x := h
	for s.Height[x] > n {
		x = s.Parent[x]
	}
	return x
}

func (s *Sim) OnChain(h, b int) bool { return s.AncestorAt(h, s.Height[b]) == b }

// Inclusions of tx t on the chain of h: (block index, position) in ascending height.
func (s *Sim) Inclusions(h, t int) [][2]int {
	var res [][2]int
	for _, b := range s.Path(h) {
		if b == 0 {
			continue
		}
		for pos, in := range s.Scn.Blocks[b-1].Incl {
			if in.Tx == t {
				res = append(res, [2]int{b, pos})
			}
		}
	}
	return res
}

// Heads returns the indices of blocks without children.
func (s *Sim) Heads() []int {
	has := make([]bool, len(s.Blocks))
	for i := 1; i < len(s.Blocks); i++ {
		has[s.Parent[i]] = true
	}
	var hs []int
	for i := range s.Blocks {
		if !has[i] {
			hs = append(hs, i)
		}
	}
	return hs
}

func (s *Sim) ID(i int) thor.Bytes32 { return s.Blocks[i].Header().ID() }

// ---------------------------------------------------------------- oracle lines

func N32(id thor.Bytes32) string { return hx.HexN(id[:]) }

func (s *Sim) InitLine() string {
	g := s.Blocks[0].Header()
	return "INIT " + N32(g.ID()) + " " + N32(g.ParentID()) + " " + hx.U(uint64(s.Tag))
}

// BlockTokens renders a block with its receipts in the oracle's BLOCK syntax.
func BlockTokens(b *block.Block, rcs tx.Receipts) string {
	var sb strings.Builder
	h := b.Header()
	txs := b.Transactions()
	fmt.Fprintf(&sb, "%s %s %x %d", N32(h.ID()), N32(h.ParentID()), h.Timestamp(), len(txs))
	for i, t := range txs {
		dep := "-"
		if d := t.DependsOn(); d != nil {
			dep = N32(*d)
		}
		origin, _ := t.Origin()
		var rc *tx.Receipt
		if i < len(rcs) {
			rc = rcs[i]
		} else {
			rc = &tx.Receipt{}
		}
		fmt.Fprintf(&sb, " %s %x %x %x %s %s %s %d", N32(t.ID()), t.ChainTag(), t.BlockRef().Number(), t.Expiration(), dep,
			hx.HexN(origin[:]), hx.B(rc.Reverted), len(rc.Outputs))
		sb.WriteString(OutTokens(rc))
	}
	return sb.String()
}

// OutTokens renders the outputs of a receipt in the oracle's OUT* syntax (leading space included).
func OutTokens(rc *tx.Receipt) string {
	var sb strings.Builder
	for _, o := range rc.Outputs {
		fmt.Fprintf(&sb, " %d", len(o.Events))
		for _, e := range o.Events {
			fmt.Fprintf(&sb, " %s %d", hx.HexN(e.Address[:]), len(e.Topics))
			for _, tp := range e.Topics {
				sb.WriteString(" " + N32(tp))
			}
			fmt.Fprintf(&sb, " %x %s", len(e.Data), hx.HexN(e.Data))
		}
		fmt.Fprintf(&sb, " %d", len(o.Transfers))
		for _, t := range o.Transfers {
			fmt.Fprintf(&sb, " %s %s %s", hx.HexN(t.Sender[:]), hx.HexN(t.Recipient[:]), hx.HexN(t.Amount.Bytes()))
		}
	}
	return sb.String()
}

// GenesisReceipt builds the one receipt (no tx) whose logs initChainRepository writes for the genesis block.
func GenesisReceipt(r *hx.Rand) *tx.Receipt {
	in := &Incl{Outs: genOuts(r)}
	if len(in.Outs) == 0 {
		in.Outs = []OutSpec{{Events: []EvSpec{{Addr: 1, Topics: []string{"0"}, Data: "01"}}, Transfers: []TrSpec{{From: 0, To: 1, Amount: "5"}}}}
	}
	if len(in.Outs) > 1 {
		in.Outs = in.Outs[:1] // the node writes a single output
	}
	return buildReceipt(in)
}

func AddLine(b *block.Block, rcs tx.Receipts, conf uint32, best bool) string {
	return fmt.Sprintf("ADD %x %s %s", conf, hx.B(best), BlockTokens(b, rcs))
}
