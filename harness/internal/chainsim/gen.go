package chainsim

import (
	"fmt"

	"verif/harness/internal/hx"
)

// GenOpts selects what the generated scenarios carry.
type GenOpts struct {
	Logs bool // receipts carry events / transfers (C15)
}

// treeState is the generator's own view of the tree being grown (mirrors Sim's bookkeeping, no repository).
type treeState struct {
	parent []int
	height []uint32
	incl   [][]int // tx indices per block
	best   int
	offTip bool
}

func (t *treeState) onChain(h int, tx int) (bool, uint32) {
	for x := h; x > 0; x = t.parent[x] {
		for _, i := range t.incl[x] {
			if i == tx {
				return true, t.height[x]
			}
		}
	}
	return false, 0
}

// acceptable: would the replay/window/dependency rules let tx be included in a child of parent at height h?
func (t *treeState) acceptable(scn *Scenario, parent int, h uint32, tx int, inBlock []int) bool {
	s := scn.Txs[tx]
	if s.BadTag || h < s.Ref || uint64(h) > uint64(s.Ref)+uint64(s.Exp) {
		return false
	}
	for _, i := range inBlock {
		if i == tx {
			return false
		}
	}
	if on, _ := t.onChain(parent, tx); on {
		return false
	}
	if s.Dep >= 0 {
		found := false
		for _, i := range inBlock {
			if i == s.Dep {
				found = true
			}
		}
		if on, _ := t.onChain(parent, s.Dep); !on && !found {
			return false
		}
	}
	return true
}

func genTopic(r *hx.Rand) string {
	switch r.Intn(6) {
	case 0:
		return "0" // zero topic
	case 1:
		return fmt.Sprintf("%x", 1+r.Intn(3)) // many leading zeros
	case 2:
		return hx.Hex(Addr(r.Intn(6)).Bytes()) // an address left-padded to 32 bytes
	case 3:
		return "00" + hx.Hex(r.Bytes(31))
	default:
		return fmt.Sprintf("%x", 0xa0+r.Intn(4)) + hx.Hex(r.Bytes(31))[2:]
	}
}

func genOuts(r *hx.Rand) []OutSpec {
	var outs []OutSpec
	n := r.Intn(4)
	for c := 0; c < n; c++ {
		var o OutSpec
		for e := r.Intn(3); e > 0; e-- {
			ev := EvSpec{Addr: r.Intn(5)}
			for k := r.Intn(6); k > 0; k-- {
				ev.Topics = append(ev.Topics, genTopic(r))
			}
			switch r.Intn(4) {
			case 0:
			case 1:
				ev.Data = "00"
			default:
				ev.Data = hx.Hex(r.Bytes(1 + r.Intn(5)))
			}
			o.Events = append(o.Events, ev)
		}
		for x := r.Intn(3); x > 0; x-- {
			amt := "0"
			if r.Chance(3, 4) {
				amt = fmt.Sprintf("%x", r.Uint64()>>uint(r.Intn(60)))
			}
			o.Transfers = append(o.Transfers, TrSpec{From: r.Intn(5), To: r.Intn(5), Amount: amt})
		}
		outs = append(outs, o)
	}
	return outs
}

func (t *treeState) addBlock(r *hx.Rand, scn *Scenario, parent int, cand []int, maxTx int, acceptP int, opts GenOpts, bestP int) int {
	h := t.height[parent] + 1
	var incl []int
	var spec BlockSpec
	spec.Parent = parent
	ntx := r.Intn(maxTx + 1)
	for k := 0; k < ntx && len(cand) > 0; k++ {
		tx := cand[r.Intn(len(cand))]
		if r.Chance(acceptP, 100) && !t.acceptable(scn, parent, h, tx, incl) {
			continue
		}
		incl = append(incl, tx)
		in := Incl{Tx: tx, Rev: r.Chance(1, 4)}
		if opts.Logs && r.Chance(3, 4) {
			in.Outs = genOuts(r)
		}
		spec.Incl = append(spec.Incl, in)
	}
	idx := len(t.parent)
	switch {
	case h > t.height[t.best]:
		spec.Best = r.Chance(bestP, 100)
	case h == t.height[t.best]:
		spec.Best = r.Chance(bestP/3, 100)
	default:
		spec.Best = r.Chance(bestP/8, 100)
	}
	// the node's rule: a child of the current best block always becomes best (larger total score); violated on
	// purpose in a few scenarios (offTip) to exercise the repository outside that rule
	if parent == t.best && !t.offTip {
		spec.Best = true
	}
	if spec.Best {
		t.best = idx
	}
	t.parent = append(t.parent, parent)
	t.height = append(t.height, h)
	t.incl = append(t.incl, incl)
	scn.Blocks = append(scn.Blocks, spec)
	return idx
}

func newTree() *treeState {
	return &treeState{parent: []int{-1}, height: []uint32{0}, incl: [][]int{nil}}
}

// GenBushy: shallow trees with many siblings; a small tx universe re-included across branches.
func GenBushy(r *hx.Rand, opts GenOpts) *Scenario {
	scn := &Scenario{Shape: "bushy", QSeed: r.Uint64()}
	ntx := r.Range(4, 22)
	for i := 0; i < ntx; i++ {
		t := TxSpec{Key: r.Intn(7), Nonce: r.Uint64(), Ref: uint32(r.Intn(7)), Exp: uint32(r.Intn(14)), Dep: -1, BadTag: r.Chance(1, 25)}
		if r.Chance(1, 6) {
			t.Exp = 0
		}
		if i > 0 && r.Chance(1, 4) {
			t.Dep = r.Intn(i)
		}
		scn.Txs = append(scn.Txs, t)
	}
	t := newTree()
	t.offTip = r.Chance(1, 12)
	if t.offTip {
		scn.Shape = "bushy-offtip"
	}
	nb := r.Range(8, 60)
	acceptP := []int{0, 60, 95, 100}[r.Intn(4)]
	all := make([]int, ntx)
	for i := range all {
		all[i] = i
	}
	for i := 0; i < nb; i++ {
		a, b := r.Intn(len(t.parent)), r.Intn(len(t.parent))
		p := a
		if t.height[b] > t.height[a] && r.Chance(2, 3) {
			p = b
		}
		if r.Chance(1, 5) {
			p = t.best
		}
		t.addBlock(r, scn, p, all, 4, acceptP, opts, 70)
	}
	return scn
}

// GenLong: a trunk deeper than the recent-window shortcut with side branches forking near the bottom, near
// (tip-100) and near the tip; txs whose refs are spread over all heights, re-included on the branches.
func GenLong(r *hx.Rand, opts GenOpts, depth int) *Scenario {
	scn := &Scenario{Shape: "long", QSeed: r.Uint64()}
	ntx := depth/2 + 8
	for i := 0; i < ntx; i++ {
		ref := uint32(r.Intn(depth))
		if r.Chance(1, 4) {
			ref = uint32(r.Intn(12))
		}
		exp := uint32(r.Intn(30))
		if r.Chance(1, 4) {
			exp = uint32(90 + r.Intn(40)) // long-lived: can be (re-)included on both sides of the 100-block shortcut
		}
		t := TxSpec{Key: r.Intn(7), Nonce: r.Uint64(), Ref: ref, Exp: exp, Dep: -1}
		if i > 0 && r.Chance(1, 6) {
			t.Dep = r.Intn(i)
		}
		scn.Txs = append(scn.Txs, t)
	}
	// "late" txs: old refs (more than 100 below the tip) that only the last few trunk blocks include and the side
	// branches never do: heads on branches forking near the tip see them on a sibling only, through the indexed path
	lateFrom := len(scn.Txs)
	if depth > 115 {
		for i := 0; i < 5; i++ {
			scn.Txs = append(scn.Txs, TxSpec{Key: r.Intn(7), Nonce: r.Uint64(), Ref: uint32(depth - 110 + r.Intn(8)), Exp: 125, Dep: -1})
		}
	}
	onTrunk := true
	t := newTree()
	acceptP := []int{50, 95, 100}[r.Intn(3)]
	// candidates by height: txs whose window contains the height (plus a few arbitrary ones)
	candAt := func(h uint32) []int {
		var c []int
		for i, s := range scn.Txs {
			if i >= lateFrom && !(onTrunk && int(h) >= depth-5) {
				continue
			}
			if h >= s.Ref && uint64(h) <= uint64(s.Ref)+uint64(s.Exp) {
				c = append(c, i)
			}
		}
		for k := 0; k < 2; k++ {
			c = append(c, r.Intn(lateFrom))
		}
		return c
	}
	tip := 0
	var trunk []int
	for i := 0; i < depth; i++ {
		tip = t.addBlock(r, scn, tip, candAt(t.height[tip]+1), 2, acceptP, opts, 85)
		trunk = append(trunk, tip)
		// occasional short side branch right away (keeps several heads alive while the trunk grows)
		if r.Chance(1, 12) {
			p := trunk[len(trunk)-1-r.Intn(min(len(trunk), 3))]
			p = t.parent[p]
			onTrunk = false
			for k := r.Range(1, 3); k > 0; k-- {
				p = t.addBlock(r, scn, p, candAt(t.height[p]+1), 2, acceptP, opts, 30)
			}
			onTrunk = true
		}
	}
	// late branches from chosen fork points
	forks := []int{r.Intn(min(depth, 5)), max(0, depth-100-r.Intn(4)), max(0, depth-98+r.Intn(3)), max(0, depth-1-r.Intn(6))}
	onTrunk = false
	for _, f := range forks {
		if f >= len(trunk) {
			continue
		}
		p := trunk[f]
		for k := r.Range(2, 9); k > 0; k-- {
			p = t.addBlock(r, scn, p, candAt(t.height[p]+1), 2, acceptP, opts, 40)
		}
	}
	return scn
}

// ---------------------------------------------------------------- shrinking

func cloneScn(s *Scenario) *Scenario {
	c := &Scenario{Shape: s.Shape, QSeed: s.QSeed}
	c.Txs = append(c.Txs, s.Txs...)
	for _, b := range s.Blocks {
		nb := BlockSpec{Parent: b.Parent, Best: b.Best}
		nb.Incl = append(nb.Incl, b.Incl...)
		c.Blocks = append(c.Blocks, nb)
	}
	return c
}

// removeBlock drops block index idx (1-based over Blocks) if it has no children.
func removeBlock(s *Scenario, idx int) *Scenario {
	for _, b := range s.Blocks {
		if b.Parent == idx {
			return nil
		}
	}
	c := cloneScn(s)
	c.Blocks = append(c.Blocks[:idx-1], c.Blocks[idx:]...)
	for i := range c.Blocks {
		if c.Blocks[i].Parent > idx {
			c.Blocks[i].Parent--
		}
	}
	return c
}

// Shrink delta-debugs a scenario while bad(scenario) keeps holding; at most budget evaluations.
func Shrink(s *Scenario, budget int, bad func(*Scenario) bool) *Scenario {
	cur := s
	try := func(c *Scenario) bool {
		if c == nil || budget <= 0 {
			return false
		}
		budget--
		if bad(c) {
			cur = c
			return true
		}
		return false
	}
	// truncate the tail
	for n := len(cur.Blocks) / 2; n >= 1; n /= 2 {
		for len(cur.Blocks) > n {
			c := cloneScn(cur)
			c.Blocks = c.Blocks[:len(c.Blocks)-n]
			if !try(c) {
				break
			}
		}
	}
	// remove childless blocks
	for changed := true; changed && budget > 0; {
		changed = false
		for idx := len(cur.Blocks); idx >= 1; idx-- {
			if try(removeBlock(cur, idx)) {
				changed = true
			}
		}
	}
	// remove inclusions
	for bi := len(cur.Blocks) - 1; bi >= 0 && budget > 0; bi-- {
		for k := len(cur.Blocks[bi].Incl) - 1; k >= 0; k-- {
			c := cloneScn(cur)
			c.Blocks[bi].Incl = append(c.Blocks[bi].Incl[:k], c.Blocks[bi].Incl[k+1:]...)
			try(c)
		}
	}
	return cur
}

// GenDeep: two long competing branches reaching heights above 255, where the uvarint-encoded block numbers in the
// tx-index keys no longer sort numerically (256 = 80 02 sorts before 200 = c8 01).  Long-lived txs (ref just
// below the fork, expiration 150-250) are included late on the side branch (heights ~190-250) and on the trunk
// (heights >= 256), so that for a head on the side branch the index holds an entry above the head that precedes,
// in key order, the entry of the head's own chain — with head-ref far beyond the recent-window shortcut.
func GenDeep(r *hx.Rand, opts GenOpts) *Scenario {
	scn := &Scenario{Shape: "deep", QSeed: r.Uint64()}
	fork := r.Range(118, 132)
	nLong := r.Range(6, 12)
	for i := 0; i < nLong; i++ {
		scn.Txs = append(scn.Txs, TxSpec{Key: r.Intn(7), Nonce: r.Uint64(), Ref: uint32(fork - r.Intn(20)), Exp: uint32(r.Range(150, 250)), Dep: -1})
	}
	for i := 0; i < 20; i++ { // ordinary short-lived txs spread over the heights
		scn.Txs = append(scn.Txs, TxSpec{Key: r.Intn(7), Nonce: r.Uint64(), Ref: uint32(r.Intn(260)), Exp: uint32(r.Intn(30)), Dep: -1})
	}
	t := newTree()
	candAt := func(h uint32, wantLong bool) []int {
		var c []int
		for i, s := range scn.Txs {
			if h >= s.Ref && uint64(h) <= uint64(s.Ref)+uint64(s.Exp) && (i >= nLong || wantLong) {
				c = append(c, i)
			}
		}
		if len(c) == 0 {
			c = append(c, nLong+r.Intn(20))
		}
		return c
	}
	tip := 0
	forkBlock := 0
	trunkTop := r.Range(258, 275)
	for i := 1; i <= trunkTop; i++ {
		tip = t.addBlock(r, scn, tip, candAt(uint32(i), i >= 256), 2, 100, opts, 90)
		if i == fork {
			forkBlock = tip
		}
	}
	side := forkBlock
	sideTop := r.Range(236, 252)
	for i := fork + 1; i <= sideTop; i++ {
		side = t.addBlock(r, scn, side, candAt(uint32(i), i >= 190), 2, 100, opts, 5)
	}
	return scn
}
