package stakersim

import (
	"fmt"
	"math/big"

	"github.com/vechain/thor/v2/builtin/staker/validation"
	"github.com/vechain/thor/v2/thor"
)

// Failure of a property predicate evaluated on the implementation's own values.
type Failure struct {
	Class string // stable class name (matched by known_findings.json)
	Msg   string
}

// Ledger is the harness-side custody book: what each validation / delegation paid in and got back.
type Ledger struct {
	ValIn, ValOut map[thor.Address]uint64
	DelIn, DelOut map[uint64]uint64
}

func NewLedger() *Ledger {
	return &Ledger{ValIn: map[thor.Address]uint64{}, ValOut: map[thor.Address]uint64{}, DelIn: map[uint64]uint64{}, DelOut: map[uint64]uint64{}}
}

// Record books a successful operation.
func (l *Ledger) Record(o Op, out Outcome) {
	if out.Class != 0 {
		return
	}
	switch o.K {
	case "AV", "IS":
		l.ValIn[Addr(o.A)] += o.X
	case "WS":
		l.ValOut[Addr(o.A)] += out.Val
	case "AD":
		l.DelIn[out.Val] += o.X
	case "WD":
		l.DelOut[o.A] += out.Val
	}
}

// CheckC16 evaluates "staked VET is fully accounted for and withdrawable exactly once" on one observation.
// prev is the observation before the operation (nil for the first).
func CheckC16(g Cfg, prev, cur *Obs, o Op, out Outcome, led *Ledger) []Failure {
	var fs []Failure
	bad := func(class, f string, a ...any) { fs = append(fs, Failure{class, fmt.Sprintf(f, a...)}) }
	// tracked total = sum of the four counters
	effVET := new(big.Int).Div(cur.Eff, e18)
	sum := new(big.Int).SetUint64(cur.LV)
	for _, x := range []uint64{cur.Q, cur.WD, cur.CD} {
		sum.Add(sum, new(big.Int).SetUint64(x))
	}
	if effVET.Cmp(sum) != 0 {
		bad("c16-effective-vs-counters", "effectiveVET %v != locked %d + queued %d + withdrawable %d + cooldown %d", effVET, cur.LV, cur.Q, cur.WD, cur.CD)
	}
	if cur.Bal.Cmp(cur.Eff) < 0 {
		bad("c16-balance-below-effective", "contract balance %v < effectiveVET %v", cur.Bal, cur.Eff)
	}
	// counters = sums over validators and delegations
	var sl, sw, sq, scd, swd uint64
	status := map[thor.Address]uint8{}
	for _, v := range cur.Vals {
		sl += v.V.LockedVET + v.AggL
		sw += v.V.Weight
		sq += v.V.QueuedVET + v.AggP
		scd += v.V.CooldownVET
		swd += v.V.WithdrawableVET
		status[v.Addr] = v.V.Status
	}
	var pend, lock = map[thor.Address]uint64{}, map[thor.Address]uint64{}
	for _, d := range cur.Dels {
		if d.Stake == 0 {
			continue
		}
		switch {
		case d.FlagsErr:
			bad("c16-delegation-flags-error", "delegation %d: Started/Ended returns an error", d.ID)
		case !d.Started && d.ValStatus != validation.StatusExit:
			pend[d.Val] += d.Stake
		case d.Started && !d.Ended:
			lock[d.Val] += d.Stake
		default:
			swd += d.Stake // ended, or the validator exited: the stake sits in the withdrawable pool
		}
	}
	if cur.LV != sl {
		bad("c16-locked-sum", "locked VET counter %d != sum over validators and their delegations %d", cur.LV, sl)
	}
	if cur.LW != sw {
		bad("c16-weight-sum", "locked weight counter %d != sum of validator weights %d", cur.LW, sw)
	}
	if cur.Q != sq {
		bad("c16-queued-sum", "queued counter %d != sum %d", cur.Q, sq)
	}
	if cur.CD != scd {
		bad("c16-cooldown-sum", "cooldown counter %d != sum %d", cur.CD, scd)
	}
	if cur.WD != swd {
		bad("c16-withdrawable-sum", "withdrawable counter %d != sum over validators and ended delegations %d", cur.WD, swd)
	}
	for _, v := range cur.Vals {
		if v.AggP != pend[v.Addr] {
			bad("c16-aggregation-pending", "validator %s: aggregation pending %d != sum of not-started delegations %d", addrN(v.Addr), v.AggP, pend[v.Addr])
		}
		if v.AggL != lock[v.Addr] {
			bad("c16-aggregation-locked", "validator %s: aggregation locked %d != sum of running delegations %d", addrN(v.Addr), v.AggL, lock[v.Addr])
		}
	}
	// custody: what a staker still holds = paid in - paid out; never more out than in
	for _, v := range cur.Vals {
		in, outv := led.ValIn[v.Addr], led.ValOut[v.Addr]
		hold := v.V.LockedVET + v.V.QueuedVET + v.V.CooldownVET + v.V.WithdrawableVET
		if outv > in || in-outv != hold {
			bad("c16-custody-validation", "validation %s: deposited %d, withdrawn %d, still held %d", addrN(v.Addr), in, outv, hold)
		}
	}
	for _, d := range cur.Dels {
		in, outv := led.DelIn[d.ID], led.DelOut[d.ID]
		if outv > in || in-outv != d.Stake {
			bad("c16-custody-delegation", "delegation %d: deposited %d, withdrawn %d, still held %d", d.ID, in, outv, d.Stake)
		}
	}
	// every staker gets the deposit back: a validator whose scheduled exit block has passed must have exited (the exit moves the
	// stake to cooldown; if the exit is lost the stake can never be withdrawn: it cannot be re-signalled either)
	for _, v := range cur.Vals {
		if v.V.Status == validation.StatusActive && v.V.ExitBlock != nil && *v.V.ExitBlock <= cur.Blk && *v.V.ExitBlock%g.Epoch == 0 {
			bad("custody:scheduled-exit-lost-when-housekeeping-fails",
				"validator %s is still active at block %d although its exit was scheduled for block %d; locked %d VET can neither be re-signalled nor withdrawn",
				addrN(v.Addr), cur.Blk, *v.V.ExitBlock, v.V.LockedVET)
		}
	}
	// a withdrawal must not fail with an internal (non-revert) error, and a delegation that is due (not started, or ended)
	// must be paid its whole stake
	if prev != nil && (o.K == "WS" || o.K == "WD") && out.Class >= 2 {
		bad("c16-withdrawal-internal-error", "%s fails with an internal error: %s", o.Line(), out.Err)
	}
	if prev != nil && o.K == "WD" {
		for _, d := range prev.Dels {
			if d.ID == o.A && d.Stake > 0 && !d.FlagsErr && (!d.Started || d.Ended) && (out.Class != 0 || out.Val != d.Stake) {
				bad("c16-due-withdrawal-refused", "delegation %d (stake %d, started %v, ended %v) is due but the withdrawal gives class %d, %d VET: %s",
					d.ID, d.Stake, d.Started, d.Ended, out.Class, out.Val, out.Err)
			}
		}
	}
	// gating of a successful withdrawal, judged on the state before it
	if prev != nil && out.Class == 0 && out.Val > 0 {
		switch o.K {
		case "WS":
			for _, v := range prev.Vals {
				if v.Addr != Addr(o.A) {
					continue
				}
				allowed := v.V.WithdrawableVET + v.V.QueuedVET
				if v.V.Status == validation.StatusExit && v.V.ExitBlock != nil && uint64(*v.V.ExitBlock)+uint64(g.Cooldown) <= uint64(cur.Blk) {
					allowed += v.V.CooldownVET
				}
				if out.Val > allowed {
					bad("c16-withdraw-before-cooldown", "validation %s paid %d at block %d, only %d was free", addrN(v.Addr), out.Val, cur.Blk, allowed)
				}
			}
		case "WD":
			for _, d := range prev.Dels {
				if d.ID == o.A && d.ValStatus == validation.StatusActive && d.Started && d.Last == nil {
					bad("c16-withdraw-locked-delegation", "delegation %d paid %d while locked and not signalled", d.ID, out.Val)
				}
			}
		}
	}
	return fs
}

func leaderKey(ls []validation.Leader) string {
	s := ""
	for _, l := range ls {
		s += addrN(l.Address) + ":" + hexU(l.Weight) + ","
	}
	return s
}

// CheckC17 evaluates "the validator set evolves only at epoch boundaries and stays well-formed".
// signalled: validators whose endorser signalled exit by a transaction in the same step (contract level: a step is a whole block).
func CheckC17(g Cfg, prev, cur *Obs, o Op, out Outcome, signalled map[thor.Address]bool) []Failure {
	var fs []Failure
	bad := func(class, f string, a ...any) { fs = append(fs, Failure{class, fmt.Sprintf(f, a...)}) }
	if cur.WalkErr || cur.LeadersErr {
		bad("c17-list-cycle", "walking a list does not terminate / errors")
		return fs
	}
	byAddr := map[thor.Address]*validation.Validation{}
	for _, v := range cur.Vals {
		byAddr[v.Addr] = v.V
	}
	// well-formedness of one list
	wf := func(name string, walk []thor.Address, size uint64, want uint8) map[thor.Address]bool {
		seen := map[thor.Address]bool{}
		if uint64(len(walk)) != size {
			bad("c17-"+name+"-size", "%s list: walk visits %d entries, stored size %d", name, len(walk), size)
		}
		for i, a := range walk {
			if seen[a] {
				bad("c17-"+name+"-dup", "%s list visits %s twice", name, addrN(a))
			}
			seen[a] = true
			v := byAddr[a]
			if v == nil {
				bad("c17-"+name+"-unknown", "%s list contains unknown %s", name, addrN(a))
				continue
			}
			if v.Status != want {
				bad("c17-"+name+"-status", "%s list entry %s has status %d", name, addrN(a), v.Status)
			}
			var wantPrev *thor.Address
			if i > 0 {
				p := walk[i-1]
				wantPrev = &p
			}
			if (v.Prev == nil) != (wantPrev == nil) || (v.Prev != nil && *v.Prev != *wantPrev) {
				bad("c17-"+name+"-prev", "%s list entry %s: Prev is not the inverse of Next", name, addrN(a))
			}
		}
		return seen
	}
	act := wf("active", cur.ActiveWalk, cur.ASize, validation.StatusActive)
	que := wf("queued", cur.QueuedWalk, cur.QSize, validation.StatusQueued)
	for a := range act {
		if que[a] {
			bad("c17-lists-overlap", "%s is in both lists", addrN(a))
		}
	}
	var sumW uint64
	for _, v := range cur.Vals {
		switch v.V.Status {
		case validation.StatusActive:
			if !act[v.Addr] {
				bad("c17-active-unreachable", "active validator %s is not reachable from the head", addrN(v.Addr))
			}
			sumW += v.V.Weight
		case validation.StatusQueued:
			if !que[v.Addr] {
				bad("c17-queued-unreachable", "queued validator %s is not reachable from the head", addrN(v.Addr))
			}
		default:
			if v.V.Prev != nil || v.V.Next != nil || act[v.Addr] || que[v.Addr] {
				bad("c17-exited-linked", "exited validator %s is still linked", addrN(v.Addr))
			}
		}
	}
	if len(cur.Leaders) != len(cur.ActiveWalk) {
		bad("c17-leadergroup-vs-walk", "LeaderGroup has %d members, FirstActive/Next visits %d", len(cur.Leaders), len(cur.ActiveWalk))
	} else {
		for i := range cur.Leaders {
			if cur.Leaders[i].Address != cur.ActiveWalk[i] {
				bad("c17-leadergroup-vs-walk", "LeaderGroup and FirstActive/Next disagree at %d", i)
			}
		}
	}
	var lgW uint64
	for _, l := range cur.Leaders {
		lgW += l.Weight
	}
	if lgW != cur.LW || sumW != cur.LW {
		bad("c17-total-weight", "total weight %d != sum of leader weights %d (active records %d)", cur.LW, lgW, sumW)
	}
	if prev == nil {
		return fs
	}
	if signalled == nil && o.K == "B" {
		// native level: the status SyncPOS returns
		if out.Val&4 != 0 && prev.ASize <= 101 {
			bad("c17-syncpos-error", "SyncPOS fails at block %d with %d active validators (max %d): %s — the whole epoch transition is skipped", cur.Blk, prev.ASize, cur.MBP, out.Err)
		}
		if out.Val&1 == 0 && leaderKey(prev.Leaders) != leaderKey(cur.Leaders) {
			bad("c17-updates-flag-missed", "block %d changed the leader group / weights but SyncPOS reports Updates=false", cur.Blk)
		}
	}
	// evolution only at epoch boundaries
	epochBlock := o.K == "B" && out.Class == 0 && cur.Blk%g.Epoch == 0
	if !epochBlock {
		if leaderKey(prev.Leaders) != leaderKey(cur.Leaders) || prev.LW != cur.LW || prev.LV != cur.LV && o.K == "B" {
			bad("c17-set-changed-off-epoch", "leader group / weights changed by %s at block %d (epoch %d)", o.Line(), cur.Blk, g.Epoch)
		}
		return fs
	}
	was := map[thor.Address]bool{}
	for _, l := range prev.Leaders {
		was[l.Address] = true
	}
	left, joined := 0, 0
	for _, l := range prev.Leaders {
		if !act[l.Address] {
			left++
		}
	}
	for _, l := range cur.Leaders {
		if !was[l.Address] {
			joined++
		}
	}
	if left > 1 {
		bad("c17-more-than-one-exit", "%d validators left the leader group at block %d", left, cur.Blk)
	}
	if joined > 0 && uint64(len(cur.Leaders)) > cur.MBP {
		bad("c17-activation-over-max", "activation made the group %d > max %d", len(cur.Leaders), cur.MBP)
	}
	if uint64(joined) > prev.QSize {
		bad("c17-activation-over-queue", "%d joined, only %d were queued", joined, prev.QSize)
	}
	if len(prev.Leaders) == 0 && len(cur.Leaders) > 0 {
		// the PoA -> PoS switch
		if prev.QSize*3 < cur.MBP*2 {
			bad("c17-transition-below-two-thirds", "PoS activated with %d queued, max %d", prev.QSize, cur.MBP)
		}
		if cur.Blk < g.Hayabusa+g.TP || (g.TP != 0 && (cur.Blk-g.Hayabusa)%g.TP != 0) {
			bad("c17-transition-off-schedule", "PoS activated at block %d (fork %d, tp %d)", cur.Blk, g.Hayabusa, g.TP)
		}
	}
	// evictions: an exit block that appears during housekeeping
	pv := map[thor.Address]*validation.Validation{}
	for _, v := range prev.Vals {
		pv[v.Addr] = v.V
	}
	for _, v := range cur.Vals {
		p := pv[v.Addr]
		if p == nil || p.ExitBlock != nil || v.V.ExitBlock == nil || signalled[v.Addr] {
			continue
		}
		ok := p.OfflineBlock != nil && uint64(cur.Blk) > uint64(*p.OfflineBlock)+uint64(g.EvictThr) && cur.Blk%g.EvictInt == 0
		if !ok {
			bad("c17-eviction-before-threshold", "validator %s evicted at block %d (offline %s, threshold %d, interval %d)", addrN(v.Addr), cur.Blk,
				u32P(p.OfflineBlock), g.EvictThr, g.EvictInt)
		}
	}
	return fs
}
