package stakersim

import (
	"encoding/json"
	"fmt"
	"os"
	"path/filepath"
	"sort"
	"strings"

	"github.com/vechain/thor/v2/builtin/staker/validation"

	"verif/harness/internal/hx"
)

// Trace is one executed history: the implementation's rendered observables and the predicate failures per step.
type Trace struct {
	Case    Case
	Renders []string
	Fails   [][]Failure // per step, for the property being checked
	Errs    []string    // implementation error text per step (diagnostics only)
	// coverage facts
	PoS, HouseExit, Renewed, Withdrew, DelWithdrew, Evicted, SecondWithdrawZero bool
	Classes                                                                     [4]int
	NVals, NDels                                                                int
}

func checkFor(prop string, g Cfg, prev, cur *Obs, o Op, out Outcome, led *Ledger) []Failure {
	if prop == "C16" {
		return CheckC16(g, prev, cur, o, out, led)
	}
	return CheckC17(g, prev, cur, o, out, nil)
}

// Execute runs a fixed case on the implementation.
func Execute(prop string, c Case) *Trace {
	s := NewSim(c.Cfg)
	defer s.Close()
	t := &Trace{Case: c}
	led := NewLedger()
	prev := s.Observe()
	for _, o := range c.Ops {
		out := s.Apply(o)
		led.Record(o, out)
		cur := s.Observe()
		t.note(c.Cfg, prev, cur, o, out)
		t.Renders = append(t.Renders, s.Render(out, cur))
		t.Fails = append(t.Fails, checkFor(prop, c.Cfg, prev, cur, o, out, led))
		t.Errs = append(t.Errs, out.Err)
		prev = cur
	}
	return t
}

// Generate draws a history op by op against the live implementation (so that most operations are meaningful).
func Generate(prop string, r *hx.Rand, nops int) *Trace {
	g := GenCfg(r)
	gn := NewGen(r, g)
	s := NewSim(g)
	defer s.Close()
	t := &Trace{Case: Case{Cfg: g}}
	led := NewLedger()
	prev := s.Observe()
	for i := 0; i < nops; i++ {
		o := gn.Next(prev)
		out := s.Apply(o)
		gn.Done(o, out)
		led.Record(o, out)
		cur := s.Observe()
		t.note(g, prev, cur, o, out)
		t.Case.Ops = append(t.Case.Ops, o)
		t.Renders = append(t.Renders, s.Render(out, cur))
		t.Fails = append(t.Fails, checkFor(prop, g, prev, cur, o, out, led))
		t.Errs = append(t.Errs, out.Err)
		prev = cur
	}
	return t
}

func (t *Trace) note(g Cfg, prev, cur *Obs, o Op, out Outcome) {
	t.NVals, t.NDels = len(cur.Vals), len(cur.Dels)
	if out.Class >= 0 && out.Class < 4 {
		t.Classes[out.Class]++
	}
	if out.Class != 0 {
		return
	}
	if len(cur.Leaders) > 0 {
		t.PoS = true
	}
	switch o.K {
	case "B":
		if len(prev.Leaders) > 0 && len(cur.Leaders) < len(prev.Leaders) || len(prev.Leaders) > 0 && leaderSet(prev) != leaderSet(cur) && cur.ASize <= prev.ASize {
			t.HouseExit = true
		}
		for i := range cur.Vals {
			if i < len(prev.Vals) && prev.Vals[i].V.Status == validation.StatusActive && cur.Vals[i].V.Status == validation.StatusActive &&
				(prev.Vals[i].AggP != cur.Vals[i].AggP || prev.Vals[i].AggE != cur.Vals[i].AggE || prev.Vals[i].V.QueuedVET != cur.Vals[i].V.QueuedVET) {
				t.Renewed = true
			}
			if i < len(prev.Vals) && prev.Vals[i].V.ExitBlock == nil && cur.Vals[i].V.ExitBlock != nil {
				t.Evicted = true
			}
		}
	case "WS":
		if out.Val > 0 {
			t.Withdrew = true
		}
	case "WD":
		if out.Val > 0 {
			t.DelWithdrew = true
		}
	}
}

func leaderSet(o *Obs) string {
	var l []string
	for _, x := range o.Leaders {
		l = append(l, addrN(x.Address))
	}
	sort.Strings(l)
	return strings.Join(l, ",")
}

func (t *Trace) nontrivial() bool {
	return t.PoS && t.HouseExit && t.Renewed && (t.Withdrew || t.DelWithdrew)
}

// firstDiff compares the implementation's renders with the oracle's answer line.
func firstDiff(t *Trace, answer string) (int, string, string) {
	parts := strings.Split(answer, " ; ")
	for i := range t.Renders {
		if i >= len(parts) {
			return i, t.Renders[i], "<missing>"
		}
		if strings.TrimSpace(parts[i]) != strings.TrimSpace(t.Renders[i]) {
			return i, t.Renders[i], parts[i]
		}
	}
	return -1, "", ""
}

// tokenDiff names the first differing token (diagnostics).
func tokenDiff(a, b string) string {
	x, y := strings.Fields(a), strings.Fields(b)
	for i := 0; i < len(x) && i < len(y); i++ {
		if x[i] != y[i] {
			lo := i - 6
			if lo < 0 {
				lo = 0
			}
			return fmt.Sprintf("token %d: impl %q vs model %q (context: %s)", i, x[i], y[i], strings.Join(x[lo:i+1], " "))
		}
	}
	return fmt.Sprintf("length %d vs %d", len(x), len(y))
}

type problem struct {
	class   string
	summary string
	found   bool
	step    int
}

// judge returns the first problem of an executed trace given the oracle's answer ("" = oracle unavailable).
func judge(prop string, t *Trace, answer string) *problem {
	for i, fs := range t.Fails {
		if len(fs) > 0 {
			return &problem{class: fs[0].Class, found: true, step: i,
				summary: fmt.Sprintf("property predicate fails on the implementation after op %d (%s): %s", i, t.Case.Ops[i].Line(), fs[0].Msg)}
		}
	}
	for i, r := range t.Renders {
		if strings.HasPrefix(r, "3 ") {
			return &problem{class: "staker-panics-" + t.Case.Ops[i].K, found: true, step: i,
				summary: fmt.Sprintf("the implementation panics on op %d (%s): %s", i, t.Case.Ops[i].Line(), t.Errs[i])}
		}
	}
	if i, impl, mod := firstDiff(t, answer); i >= 0 {
		return &problem{class: "model-mismatch-" + t.Case.Ops[i].K, found: false, step: i,
			summary: fmt.Sprintf("Staker model (coq/Staker/Model.v, theorems of coq/Properties/%s.v) and builtin/staker disagree after op %d (%s): %s; impl error text %q",
				prop, i, t.Case.Ops[i].Line(), tokenDiff(impl, mod), t.Errs[i])}
	}
	return nil
}

func ask(ctx *hx.Ctx, c Case) string {
	res, err := hx.AskAll(ctx.Oracle, []string{c.Line()})
	if err != nil || len(res) != 1 {
		hx.Fatal("oracle failed: %v", err)
	}
	return res[0]
}

// shrink: delta-debugging on the operation list with "same class of problem" as the predicate.
func shrink(ctx *hx.Ctx, prop string, c Case, class string) Case {
	budget := 400 // re-executions (long histories with a hundred validators are slow)
	if c.Cfg.MBP > 101 {
		budget = 60
	}
	still := func(ops []Op) bool {
		if budget <= 0 {
			return false
		}
		budget--
		cc := Case{Cfg: c.Cfg, Ops: ops}
		t := Execute(prop, cc)
		p := judge(prop, t, ask(ctx, cc))
		return p != nil && p.class == class
	}
	ops := c.Ops
	// drop the tail after the failing step first
	for n := len(ops) / 2; n >= 1; n /= 2 {
		for i := 0; i+n <= len(ops); {
			cand := append(append([]Op{}, ops[:i]...), ops[i+n:]...)
			if len(cand) > 0 && still(cand) {
				ops = cand
			} else {
				i += n
			}
		}
	}
	return Case{Cfg: c.Cfg, Ops: ops}
}

func report(ctx *hx.Ctx, prop string, t *Trace, answer string) {
	p := judge(prop, t, answer)
	if p == nil {
		return
	}
	c := Case{Cfg: t.Case.Cfg, Ops: t.Case.Ops[:p.step+1]}
	small := shrink(ctx, prop, c, p.class)
	st := Execute(prop, small)
	sp := judge(prop, st, ask(ctx, small))
	if sp == nil || sp.class != p.class {
		small, sp = c, p
	}
	// a model/implementation disagreement: look for an input on which the property itself fails (the predicates ran on
	// every step of the case and of its shrunk variants above; none failed if we get here with found=false)
	ctx.Violation(sp.class, sp.summary, small, sp.found)
}

// Problems of the generated histories are reported at the end, inputs on which the property itself fails first (one trace
// per class is kept, so the memory is bounded by the number of classes).
type pendingReport struct {
	t      *Trace
	answer string
	found  bool
}

var pendingReports = map[string]pendingReport{}
var pendingOrder []string

func deferReport(prop string, t *Trace, answer string) {
	p := judge(prop, t, answer)
	if p == nil {
		return
	}
	if _, seen := pendingReports[p.class]; seen {
		return
	}
	pendingReports[p.class] = pendingReport{t, answer, p.found}
	pendingOrder = append(pendingOrder, p.class)
}

func flushReports(ctx *hx.Ctx, prop string) {
	for _, wantFound := range []bool{true, false} {
		for _, cl := range pendingOrder {
			if r := pendingReports[cl]; r.found == wantFound {
				report(ctx, prop, r.t, r.answer)
			}
		}
	}
}

// Main is the whole driver; prop is "C16" or "C17".
func Main(prop string) {
	ctx := hx.Init(prop)
	if ctx.Oracle == "" {
		hx.Fatal("-oracle required")
	}
	runCase := func(c Case) {
		t := Execute(prop, c)
		if os.Getenv("VERIF_DEBUG") != "" {
			for i, o := range c.Ops {
				f := strings.Fields(t.Renders[i])
				if o.K == "B" || t.Errs[i] != "" {
					fmt.Fprintf(os.Stderr, "step %d %s -> class %s val %s blk %s active %s queued %s err=%q\n", i, o.Line(), f[0], f[1], f[10], f[13], f[14], t.Errs[i])
				}
			}
		}
		ctx.Cov.Case(c.Line(), t.nontrivial(), nil)
		report(ctx, prop, t, ask(ctx, c))
	}
	load := func(path string) (Case, bool) {
		b, err := os.ReadFile(path)
		if err != nil {
			return Case{}, false
		}
		var doc struct {
			Replay Case `json:"replay"`
		}
		if json.Unmarshal(b, &doc) != nil || len(doc.Replay.Ops) == 0 {
			var c Case
			if json.Unmarshal(b, &c) != nil || len(c.Ops) == 0 {
				return Case{}, false
			}
			return c, true
		}
		return doc.Replay, true
	}
	rule := "history reaches PoS, has a housekeeping exit, a renewal that moves stake, and a successful withdrawal"
	assumptions := []string{
		"staking periods are multiples of the epoch length (as on every network); block numbers < 2^31",
		"staker.sol is represented by its value-carrying statements (effectiveVET +=/-=, balance transfer, checkStake), emulated by the harness at native level",
		"native glue of builtin/staker_native.go (authority check before PoS, pause switches, delegator-contract check) is outside the model",
	}
	if ctx.Replay != "" {
		if b, err := os.ReadFile(ctx.Replay); err == nil {
			var doc struct {
				Replay struct {
					C *CCase `json:"contract_case"`
				} `json:"replay"`
			}
			if json.Unmarshal(b, &doc) == nil && doc.Replay.C != nil {
				ReplayContract(ctx, prop, doc.Replay.C)
				ctx.Finish(rule, assumptions)
			}
		}
		c, ok := load(ctx.Replay)
		if !ok {
			hx.Fatal("cannot read replay %s", ctx.Replay)
		}
		runCase(c)
		ctx.Finish(rule, assumptions)
	}
	if dir := os.Getenv("VERIF_CORPUS"); dir != "" {
		files, _ := filepath.Glob(filepath.Join(dir, "*.json"))
		sort.Strings(files)
		for _, f := range files {
			if c, ok := load(f); ok {
				ctx.Cov.Count("corpus")
				runCase(c)
			}
		}
	}
	n := ctx.Scale(800, 12000)
	if os.Getenv("VERIF_STAKER_ONLY") == "contract" { // development aid: only the contract-level slice
		n = 0
	}
	nops := 160
	root := hx.NewRand(ctx.Seed)
	const batch = 20
	for lo := 0; lo < n; lo += batch {
		var ts []*Trace
		var lines []string
		for i := lo; i < lo+batch && i < n; i++ {
			r := root.Fork(uint64(i))
			t := Generate(prop, r, nops+r.Intn(80))
			ts = append(ts, t)
			lines = append(lines, t.Case.Line())
		}
		answers, err := hx.AskAll(ctx.Oracle, lines)
		if err != nil {
			hx.Fatal("oracle failed: %v", err)
		}
		for i, t := range ts {
			var sample any
			if t.nontrivial() && len(ctx.Cov.Samples) < 2 {
				sample = map[string]any{"cfg": t.Case.Cfg, "ops": len(t.Case.Ops), "first_ops": linesOf(t.Case.Ops, 12)}
			}
			ctx.Cov.Case(lines[i], t.nontrivial(), sample)
			ctx.Cov.Add("ops", len(t.Case.Ops))
			ctx.Cov.Add("ops_ok", t.Classes[0])
			ctx.Cov.Add("ops_revert", t.Classes[1])
			ctx.Cov.Add("ops_error", t.Classes[2])
			for j, o := range t.Case.Ops {
				ctx.Cov.Count("op_" + o.K)
				if j < len(t.Renders) && len(t.Renders[j]) > 0 && t.Renders[j][0] != '0' {
					ctx.Cov.Count("fail_" + o.K + "_class" + t.Renders[j][:1])
				}
			}
			ctx.Cov.Bucket("validators_created", t.NVals)
			ctx.Cov.Bucket("delegations_created", t.NDels)
			for k, b := range map[string]bool{"reached_pos": t.PoS, "housekeeping_exit": t.HouseExit, "renewal_moved_stake": t.Renewed,
				"validator_withdrew": t.Withdrew, "delegation_withdrew": t.DelWithdrew, "eviction_or_exit_signal_at_housekeeping": t.Evicted} {
				if b {
					ctx.Cov.Count("hist_" + k)
				}
			}
			deferReport(prop, t, answers[i])
		}
	}
	// a few histories with max-block-proposers above 101 (the 2/3 rule must use the configured, uncapped value)
	if os.Getenv("VERIF_STAKER_ONLY") != "contract" {
		big := hx.NewRand(ctx.Seed ^ 0xB16B16)
		for i := 0; i < ctx.Scale(3, 40); i++ {
			c := GenBig(big.Fork(uint64(i)))
			t := Execute(prop, c)
			ctx.Cov.Count("big_mbp_histories")
			ctx.Cov.Case(c.Line(), t.PoS, nil)
			deferReport(prop, t, ask(ctx, c))
		}
	}
	flushReports(ctx, prop)
	ContractSlice(ctx, prop)
	ctx.Finish(rule, assumptions)
}

func linesOf(ops []Op, n int) []string {
	var l []string
	for i, o := range ops {
		if i >= n {
			break
		}
		l = append(l, o.Line())
	}
	return l
}
