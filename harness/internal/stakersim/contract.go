package stakersim

// Contract level: the same model is tied to builtin/gen/staker.sol executed by the real EVM in real transactions on a small
// real chain (the repo's test/testchain: real packer, real consensus validation of every block, state commits). Every block
// is packed by the scheduled validator (packer.Schedule runs SyncPOS), validated by consensus.Process (which runs SyncPOS again
// and must agree), and after it all staker getters, the VET balances of the stakers and of the contract and effectiveVET are
// compared with the extracted model replaying "B, <online flags set by the real scheduler>, <the block's transactions>".

import (
	"fmt"
	"math"
	"math/big"
	"os"
	"strings"

	"github.com/vechain/thor/v2/builtin"
	"github.com/vechain/thor/v2/consensus"
	"github.com/vechain/thor/v2/genesis"
	"github.com/vechain/thor/v2/packer"
	"github.com/vechain/thor/v2/test/testchain"
	"github.com/vechain/thor/v2/thor"
	"github.com/vechain/thor/v2/tx"

	"verif/harness/internal/hx"
)

// COp is one transaction (one clause to the staker contract) of a contract-level history.
type COp struct {
	K    string `json:"k"`           // AV IS DS SE WS SB AD DE WD
	From int    `json:"from"`        // dev account sending the transaction
	V    int    `json:"v"`           // dev account used as validator address
	X    uint64 `json:"x,omitempty"` // VET amount / delegation id
	M    uint64 `json:"m,omitempty"` // period / multiplier
	B    int    `json:"b,omitempty"` // beneficiary dev account (SB), -1 = zero address
}

type CBlock struct {
	Absent []int `json:"absent,omitempty"` // dev accounts that do not produce blocks at this height
	Ops    []COp `json:"ops,omitempty"`
}

type CCase struct {
	Epoch    uint32   `json:"epoch"`
	TP       uint32   `json:"tp"`
	Hayabusa uint32   `json:"hayabusa"`
	MBP      uint64   `json:"mbp"`
	EvictThr uint32   `json:"evict_threshold"`
	Blocks   []CBlock `json:"blocks"`
}

const delegatorAcct = 9 // the dev account registered as the delegator contract

func devAddr(i int) thor.Address {
	if i < 0 {
		return thor.Address{}
	}
	return genesis.DevAccounts()[i].Address
}

func (c *CCase) cfg() Cfg {
	return Cfg{Epoch: c.Epoch, Low: c.Epoch, Med: 2 * c.Epoch, High: 3 * c.Epoch, Cooldown: c.Epoch, EvictThr: c.EvictThr,
		EvictInt: c.Epoch, TP: c.TP, Hayabusa: c.Hayabusa, MBP: c.MBP}
}

func weiOf(vet uint64) *big.Int { return new(big.Int).Mul(new(big.Int).SetUint64(vet), e18) }

func (o COp) clause() *tx.Clause {
	enc := func(name string, args ...any) []byte {
		m, ok := builtin.Staker.ABI.MethodByName(name)
		if !ok {
			hx.Fatal("staker abi: no %s", name)
		}
		d, err := m.EncodeInput(args...)
		if err != nil {
			hx.Fatal("staker abi %s: %v", name, err)
		}
		return d
	}
	to := builtin.Staker.Address
	cl := tx.NewClause(&to)
	switch o.K {
	case "AV":
		return cl.WithValue(weiOf(o.X)).WithData(enc("addValidation", devAddr(o.V), uint32(o.M)))
	case "IS":
		return cl.WithValue(weiOf(o.X)).WithData(enc("increaseStake", devAddr(o.V)))
	case "DS":
		return cl.WithData(enc("decreaseStake", devAddr(o.V), weiOf(o.X)))
	case "SE":
		return cl.WithData(enc("signalExit", devAddr(o.V)))
	case "WS":
		return cl.WithData(enc("withdrawStake", devAddr(o.V)))
	case "SB":
		return cl.WithData(enc("setBeneficiary", devAddr(o.V), devAddr(o.B)))
	case "AD":
		return cl.WithValue(weiOf(o.X)).WithData(enc("addDelegation", devAddr(o.V), uint8(o.M)))
	case "DE":
		return cl.WithData(enc("signalDelegationExit", new(big.Int).SetUint64(o.X)))
	case "WD":
		return cl.WithData(enc("withdrawDelegation", new(big.Int).SetUint64(o.X)))
	}
	panic("unknown contract op " + o.K)
}

// line renders the transaction as a model operation (addresses as hex numbers).
func (o COp) line() string {
	a, e := addrN(devAddr(o.V)), addrN(devAddr(o.From))
	switch o.K {
	case "AV":
		return fmt.Sprintf("AV %s %s %x %x", a, e, o.M, o.X)
	case "IS", "DS":
		return fmt.Sprintf("%s %s %s %x", o.K, a, e, o.X)
	case "SE", "WS":
		return fmt.Sprintf("%s %s %s", o.K, a, e)
	case "SB":
		return fmt.Sprintf("SB %s %s %s", a, e, addrN(devAddr(o.B)))
	case "AD":
		return fmt.Sprintf("AD %s %x %x", a, o.X, o.M)
	default:
		return fmt.Sprintf("%s %x", o.K, o.X)
	}
}

type cRun struct {
	c        *CCase
	ch       *testchain.Chain
	fc       *thor.ForkConfig
	order    []thor.Address // validations in creation order
	ndel     uint64
	expected []*big.Int // expected VET balance of every dev account
	lines    []string   // model operations
	marks    []int      // index (into lines) of the last operation of every block
	okReal   []bool     // per model operation: did it succeed on the chain (true for B / ON)
	valReal  []uint64
	renders  []string // per block
	fails    [][]Failure
	nonce    uint64
	absent   map[int]bool
	prevObs  *Obs
	led      *Ledger
	// coverage
	txs, txsOK int
	pos, exits bool
}

func newCRun(c *CCase) (*cRun, error) {
	fc := thor.SoloFork
	fc.HAYABUSA = c.Hayabusa
	fc.BLOCKLIST = math.MaxUint32
	// genesis construction opens a throw-away in-memory database that is never closed: build one per configuration only
	key := fmt.Sprintf("%d/%d/%d/%d", c.Epoch, c.TP, c.Hayabusa, c.MBP)
	g, ok := genesisCache[key]
	if !ok {
		var err error
		g, err = testchain.CreateGenesis(genesis.DevConfig{ForkConfig: &fc, LaunchTime: 1_700_000_000}, c.MBP, c.Epoch, c.TP)
		if err != nil {
			return nil, err
		}
		genesisCache[key] = g
	}
	ch, err := testchain.NewIntegrationTestChainWithGenesis(g, &fc, c.Epoch)
	if err != nil {
		return nil, err
	}
	// CreateGenesis / genesis build set the global staking configuration; make it exactly the case's
	ApplyConfig(c.cfg())
	r := &cRun{c: c, ch: ch, fc: &fc, absent: map[int]bool{}, led: NewLedger()}
	for range genesis.DevAccounts() {
		b, _ := new(big.Int).SetString("1000000000000000000000000000", 10)
		r.expected = append(r.expected, b)
	}
	return r, nil
}

func (r *cRun) close() {
	r.ch.LogDB().Close()
	r.ch.Database().Close()
}

var genesisCache = map[string]*genesis.Genesis{}

func (r *cRun) view() *Sim {
	best := r.ch.Repo().BestBlockSummary()
	st := r.ch.Stater().NewState(best.Root())
	return &Sim{Addr: builtin.Staker.Address, Cfg: r.c.cfg(), St: st, Stk: builtin.Staker.Native(st), Params: builtin.Params.Native(st),
		FC: r.fc, Blk: best.Header.Number(), Vals: r.order, NDel: r.ndel}
}

func (r *cRun) mkTx(o COp, clause *tx.Clause) *tx.Transaction {
	r.nonce++
	trx := new(tx.Builder).GasPriceCoef(255).BlockRef(tx.NewBlockRef(r.ch.Repo().BestBlockSummary().Header.Number())).Expiration(1000).
		ChainTag(r.ch.Repo().ChainTag()).Gas(5_000_000).Nonce(0xC16000 + r.nonce).Clause(clause).Build()
	return tx.MustSign(trx, genesis.DevAccounts()[o.From].PrivateKey)
}

// mint packs the next block with the real packer as the present validator whose slot comes first, validates it with the
// real consensus (a second, independent SyncPOS + leader group computation that must agree) and commits it.
// (testchain.MintBlock does the same for all dev accounts; its RemoveValidator edits the shared dev-account slice in place.)
func (r *cRun) mint(txs []*tx.Transaction) error {
	best := r.ch.Repo().BestBlockSummary()
	now := best.Header.Timestamp() + thor.BlockInterval()
	var (
		when uint64 = math.MaxUint64
		who         = -1
	)
	for i, acc := range genesis.DevAccounts() {
		if r.absent[i] {
			continue
		}
		flow, err := packer.New(r.ch.Repo(), r.ch.Stater(), acc.Address, nil, r.fc, 0).Schedule(best, now)
		if err != nil {
			continue
		}
		if flow.When() < when {
			when, who = flow.When(), i
		}
	}
	if who < 0 {
		return fmt.Errorf("no validator can produce block %d", best.Header.Number()+1)
	}
	acc := genesis.DevAccounts()[who]
	flow, err := packer.New(r.ch.Repo(), r.ch.Stater(), acc.Address, nil, r.fc, 0).Schedule(best, now)
	if err != nil {
		return err
	}
	for _, t := range txs {
		if err := flow.Adopt(t); err != nil {
			return fmt.Errorf("adopt: %w", err)
		}
	}
	blk, stage, receipts, err := flow.Pack(acc.PrivateKey, 0, false)
	if err != nil {
		return err
	}
	if _, _, err := consensus.New(r.ch.Repo(), r.ch.Stater(), r.fc).Process(best, blk, flow.When(), 0); err != nil {
		return fmt.Errorf("consensus rejects the packed block: %w", err)
	}
	return r.ch.CommitBlock(blk, stage, receipts)
}

// setupBlock registers the delegator contract address (a transaction of the executor to the params contract).
func (r *cRun) setupBlock() error {
	m, _ := builtin.Params.ABI.MethodByName("set")
	data, err := m.EncodeInput(thor.KeyDelegatorContractAddress, new(big.Int).SetBytes(devAddr(delegatorAcct).Bytes()))
	if err != nil {
		return err
	}
	to := builtin.Params.Address
	return r.block(CBlock{}, []*tx.Transaction{r.mkTx(COp{From: 0}, tx.NewClause(&to).WithData(data))})
}

// block mints one block with the block's transactions (plus extra ones that are not staker operations) and records
// the model operations and the observation after it.
func (r *cRun) block(b CBlock, extra []*tx.Transaction) error {
	// who is producing
	want := map[int]bool{}
	for _, i := range b.Absent {
		want[i] = true
	}
	r.absent = want
	txs := append([]*tx.Transaction{}, extra...)
	for _, o := range b.Ops {
		txs = append(txs, r.mkTx(o, o.clause()))
	}
	if err := r.mint(txs); err != nil {
		return err
	}
	best := r.ch.Repo().BestBlockSummary()
	receipts, err := r.ch.Repo().GetBlockReceipts(best.Header.ID())
	if err != nil {
		return err
	}
	// model operations of this block: B, the online flags the real scheduler wrote, then the transactions
	r.lines = append(r.lines, "B")
	r.okReal = append(r.okReal, true)
	r.valReal = append(r.valReal, 0)
	// outcomes
	signalled := map[thor.Address]bool{}
	foreign := func(o COp) bool { return (o.K == "AD" || o.K == "DE" || o.K == "WD") && o.From != delegatorAcct }
	var modelOps []COp
	for i, o := range b.Ops {
		rc := receipts[len(extra)+i]
		ok := !rc.Reverted
		var val uint64
		if foreign(o) {
			// onlyDelegatorContract: not part of the model; it must revert
			if ok {
				r.fails = append(r.fails, []Failure{{"c16-delegator-check-bypassed", fmt.Sprintf("%s from account %d (not the delegator contract) succeeded", o.K, o.From)}})
			}
			r.txs++
			continue
		}
		modelOps = append(modelOps, o)
		if ok {
			switch o.K {
			case "AV":
				r.order = append(r.order, devAddr(o.V))
				r.expected[o.From].Sub(r.expected[o.From], weiOf(o.X))
				r.led.ValIn[devAddr(o.V)] += o.X
			case "SE":
				signalled[devAddr(o.V)] = true
			case "IS":
				r.expected[o.From].Sub(r.expected[o.From], weiOf(o.X))
				r.led.ValIn[devAddr(o.V)] += o.X
			case "AD":
				r.ndel++
				val = r.ndel
				r.expected[o.From].Sub(r.expected[o.From], weiOf(o.X))
				r.led.DelIn[val] += o.X
			case "WS", "WD":
				paid := new(big.Int)
				for _, out := range rc.Outputs {
					for _, t := range out.Transfers {
						if t.Sender == builtin.Staker.Address && t.Recipient == devAddr(o.From) {
							paid.Add(paid, t.Amount)
						}
					}
				}
				r.expected[o.From].Add(r.expected[o.From], paid)
				val = new(big.Int).Div(paid, e18).Uint64()
				if o.K == "WS" {
					r.led.ValOut[devAddr(o.V)] += val
				} else {
					r.led.DelOut[o.X] += val
				}
			}
			r.txsOK++
		}
		r.txs++
		_ = val
		r.okReal = append(r.okReal, ok)
		r.valReal = append(r.valReal, val)
	}
	v := r.view()
	obs := v.Observe()
	// online flags: whatever differs from the previous observation was written by the scheduler of this block
	var on []string
	prevOff := map[thor.Address]*uint32{}
	if r.prevObs != nil {
		for _, x := range r.prevObs.Vals {
			prevOff[x.Addr] = x.V.OfflineBlock
		}
	}
	for _, x := range obs.Vals {
		p, had := prevOff[x.Addr]
		if !had {
			continue
		}
		switch {
		case x.V.OfflineBlock == nil && p != nil:
			on = append(on, fmt.Sprintf("ON %s 1", addrN(x.Addr)))
		case x.V.OfflineBlock != nil && (p == nil || *p != *x.V.OfflineBlock):
			on = append(on, fmt.Sprintf("ON %s 0", addrN(x.Addr)))
		}
	}
	// insert the ON operations right after this block's B
	nUser := len(modelOps)
	head := r.lines[:len(r.lines)]
	okUser := append([]bool{}, r.okReal[len(r.okReal)-nUser:]...)
	valUser := append([]uint64{}, r.valReal[len(r.valReal)-nUser:]...)
	r.okReal, r.valReal = r.okReal[:len(r.okReal)-nUser], r.valReal[:len(r.valReal)-nUser]
	r.lines = head
	for _, l := range on {
		r.lines = append(r.lines, l)
		r.okReal = append(r.okReal, true)
		r.valReal = append(r.valReal, 0)
	}
	for i, o := range modelOps {
		r.lines = append(r.lines, o.line())
		r.okReal = append(r.okReal, okUser[i])
		r.valReal = append(r.valReal, valUser[i])
	}
	r.marks = append(r.marks, len(r.lines)-1)
	r.renders = append(r.renders, v.Render(Outcome{}, obs))
	// the properties' own predicates on the implementation's values
	var fs []Failure
	if r.prevObs != nil {
		fs = append(fs, CheckC17(r.c.cfg(), r.prevObs, obs, Op{K: "B"}, Outcome{}, signalled)...)
	}
	fs = append(fs, CheckC16(r.c.cfg(), nil, obs, Op{K: "B"}, Outcome{}, r.led)...)
	for i := range genesis.DevAccounts() {
		bal, _ := v.St.GetBalance(devAddr(i))
		if bal.Cmp(r.expected[i]) != 0 {
			fs = append(fs, Failure{"c16-contract-staker-balance", fmt.Sprintf("account %d holds %v wei, deposits/withdrawals say %v", i, bal, r.expected[i])})
		}
	}
	r.fails = append(r.fails, fs)
	if len(obs.Leaders) > 0 {
		r.pos = true
	}
	if r.prevObs != nil && len(obs.Leaders) < len(r.prevObs.Leaders) {
		r.exits = true
	}
	r.prevObs = obs
	return nil
}

func (r *cRun) modelLine() string {
	g := r.c.cfg()
	var b strings.Builder
	fmt.Fprintf(&b, "%x %x %x %x %x %x %x %x %x %x %x", g.Epoch, g.Low, g.Med, g.High, g.Cooldown, g.EvictThr, g.EvictInt, g.TP, g.Hayabusa, 0, g.MBP)
	for _, l := range r.lines {
		b.WriteString(" | ")
		b.WriteString(l)
	}
	return b.String()
}

// maskRewards blanks the reward token of every validation record (delegator rewards are written by the energy contract at
// block end; they are outside the staker model's contract-level inputs).
func maskRewards(s string) string {
	f := strings.Fields(s)
	for i := 0; i < len(f); i++ {
		if f[i] == "V" && i+21 < len(f) {
			f[i+21] = "-"
		}
	}
	return strings.Join(f, " ")
}

// judgeContract compares the chain with the oracle's answer.
func (r *cRun) judgeContract(prop, answer string) *problem {
	for i, fs := range r.fails {
		for _, f := range fs {
			if (prop == "C16") == strings.HasPrefix(f.Class, "c16") {
				return &problem{class: "contract-" + f.Class, found: true, step: i,
					summary: fmt.Sprintf("contract level, after block %d: %s", i+1, f.Msg)}
			}
		}
	}
	parts := strings.Split(answer, " ; ")
	if len(parts) != len(r.lines) {
		return &problem{class: "contract-model-mismatch", found: false, step: 0, summary: fmt.Sprintf("oracle answered %d operations for %d", len(parts), len(r.lines))}
	}
	blk := 0
	for i, p := range parts {
		f := strings.Fields(p)
		ok := len(f) > 0 && f[0] == "0"
		if ok != r.okReal[i] {
			return &problem{class: "contract-model-mismatch-" + strings.Fields(r.lines[i])[0], found: false, step: blk,
				summary: fmt.Sprintf("Staker model and staker.sol on the chain disagree on the outcome of %q in block %d: chain ok=%v, model class %s", r.lines[i], blk+1, r.okReal[i], f[0])}
		}
		k := strings.Fields(r.lines[i])[0]
		if ok && (k == "WS" || k == "WD" || k == "AD") && f[1] != hexU(r.valReal[i]) {
			return &problem{class: "contract-model-mismatch-" + k, found: false, step: blk,
				summary: fmt.Sprintf("Staker model and staker.sol disagree on the value of %q in block %d: chain %x, model %s", r.lines[i], blk+1, r.valReal[i], f[1])}
		}
		if blk < len(r.marks) && i == r.marks[blk] {
			a, b := maskRewards(stripOutcome(p)), maskRewards(stripOutcome(r.renders[blk]))
			if a != b {
				return &problem{class: "contract-model-mismatch-state", found: false, step: blk,
					summary: fmt.Sprintf("Staker model and the chain state disagree after block %d (last op %q): %s", blk+1, r.lines[i], tokenDiff(b, a))}
			}
			blk++
		}
	}
	return nil
}

func stripOutcome(s string) string {
	f := strings.Fields(s)
	if len(f) < 2 {
		return s
	}
	return strings.Join(f[2:], " ")
}

// genCBlock draws the transactions of the next block from the chain's current state.
func genCBlock(r *hx.Rand, c *CCase, o *Obs, num uint32, nval *int) CBlock {
	var b CBlock
	active := len(o.Leaders) > 0
	if len(o.Leaders) >= 3 {
		// somebody stays offline: continue the previous block's absence (streaks reach the eviction threshold) or start one
		if n := len(c.Blocks); n > 0 && len(c.Blocks[n-1].Absent) > 0 && r.Chance(3, 4) {
			b.Absent = c.Blocks[n-1].Absent
		} else if r.Chance(1, 8) {
			l := o.Leaders[r.Intn(len(o.Leaders))].Address
			for i := range genesis.DevAccounts() {
				if devAddr(i) == l {
					b.Absent = []int{i}
				}
			}
		}
	}
	if num <= c.Hayabusa {
		return b
	}
	status := map[thor.Address]uint8{}
	for _, v := range o.Vals {
		status[v.Addr] = v.V.Status
	}
	n := r.Intn(4)
	for i := 0; i < n; i++ {
		v := r.Intn(10)
		from := v
		for _, x := range o.Vals {
			if x.Addr == devAddr(v) {
				for j := 0; j < 10; j++ {
					if devAddr(j) == x.V.Endorser {
						from = j
					}
				}
			}
		}
		if r.Chance(1, 12) {
			from = r.Intn(10)
		}
		avW := 25
		if !active {
			avW = 65
		}
		var fresh []int
		for i := 0; i < 10; i++ {
			if _, has := status[devAddr(i)]; !has && (len(o.Leaders) >= 2 || i < int(c.MBP)) {
				fresh = append(fresh, i)
			}
		}
		switch x := r.Intn(100); {
		case x < avW && len(fresh) > 0:
			vv := fresh[r.Intn(len(fresh))]
			if len(o.Leaders) >= 2 && r.Chance(1, 10) {
				vv = r.Intn(10) // maybe an existing one: "validator already exists"
			}
			st := minStake + uint64(r.Intn(3))*1_000_000
			if r.Chance(1, 15) {
				st = []uint64{minStake - 1, maxStake + 1}[r.Intn(2)]
			}
			period := []uint32{c.Epoch, 2 * c.Epoch, 3 * c.Epoch}[r.Intn(3)]
			sender := vv
			if len(o.Leaders) >= 2 && r.Chance(1, 4) {
				sender = r.Intn(10) // an endorser different from the validator (allowed once PoS is active)
			}
			b.Ops = append(b.Ops, COp{K: "AV", From: sender, V: vv, X: st, M: uint64(period)})
			status[devAddr(vv)] = 1
		case x < 40:
			b.Ops = append(b.Ops, COp{K: "IS", From: from, V: v, X: []uint64{1, 1000, 5_000_000}[r.Intn(3)]})
		case x < 50:
			b.Ops = append(b.Ops, COp{K: "DS", From: from, V: v, X: []uint64{1, 1000, 5_000_000}[r.Intn(3)]})
		case x < 58:
			b.Ops = append(b.Ops, COp{K: "SE", From: from, V: v})
		case x < 70:
			b.Ops = append(b.Ops, COp{K: "WS", From: from, V: v})
		case x < 74:
			b.Ops = append(b.Ops, COp{K: "SB", From: from, V: v, B: r.Intn(11) - 1})
		case x < 86:
			who := delegatorAcct
			if r.Chance(1, 15) {
				who = r.Intn(9)
			}
			b.Ops = append(b.Ops, COp{K: "AD", From: who, V: v, X: []uint64{1, 100, 10_000, 3_000_000}[r.Intn(4)], M: []uint64{100, 150, 200, 50, 255, 0}[r.Intn(6)]})
		case x < 93:
			id := uint64(r.Intn(len(o.Dels) + 2))
			b.Ops = append(b.Ops, COp{K: "DE", From: delegatorAcct, X: id})
		default:
			id := uint64(r.Intn(len(o.Dels) + 2))
			b.Ops = append(b.Ops, COp{K: "WD", From: delegatorAcct, X: id})
		}
	}
	return b
}

func genCCase(r *hx.Rand) *CCase {
	ep := uint32(r.Range(2, 4)) // the genesis builder refuses epoch lengths below 2
	c := &CCase{Epoch: ep, TP: ep * uint32(r.Range(1, 2)), Hayabusa: ep * uint32(r.Range(1, 2)), MBP: uint64(r.Range(2, 6)), EvictThr: uint32(r.Range(1, int(2*ep)))}
	return c
}

// runContractCase executes a case. If gen is non-nil the blocks are drawn on the fly (and stored in the case).
func runContractCase(c *CCase, gen *hx.Rand, nblocks int) (*cRun, error) {
	r, err := newCRun(c)
	if err != nil {
		return nil, err
	}
	if err := r.setupBlock(); err != nil {
		r.close()
		return nil, err
	}
	nval := 0
	if gen != nil {
		for i := 0; i < nblocks; i++ {
			num := r.ch.Repo().BestBlockSummary().Header.Number() + 1
			b := genCBlock(gen, c, r.prevObs, num, &nval)
			c.Blocks = append(c.Blocks, b)
			if err := r.block(b, nil); err != nil {
				r.close()
				return nil, err
			}
		}
	} else {
		for _, b := range c.Blocks {
			if err := r.block(b, nil); err != nil {
				r.close()
				return nil, err
			}
		}
	}
	return r, nil
}

// ContractSlice runs the contract-level part of a check.
func ContractSlice(ctx *hx.Ctx, prop string) {
	n := ctx.Scale(40, 1000)
	root := hx.NewRand(ctx.Seed ^ 0xC0117AC7)
	for i := 0; i < n; i++ {
		g := root.Fork(uint64(i))
		c := genCCase(g)
		r, err := runContractCase(c, g, 50+g.Intn(30))
		if err != nil {
			ctx.Cov.Count("contract_chain_stalled")
			fmt.Fprintln(os.Stderr, "contract chain stalled:", err)
			continue
		}
		answers, err := hx.AskAll(ctx.Oracle, []string{r.modelLine()})
		if err != nil {
			hx.Fatal("oracle failed: %v", err)
		}
		ctx.Cov.Count("contract_chains")
		if os.Getenv("VERIF_DEBUG") != "" {
			fmt.Fprintf(os.Stderr, "chain %d: epoch %d tp %d hay %d mbp %d pos=%v queued=%d active=%d blocks=%d\n", i, c.Epoch, c.TP, c.Hayabusa, c.MBP, r.pos, r.prevObs.QSize, r.prevObs.ASize, len(r.renders))
		}
		ctx.Cov.Add("contract_blocks", len(r.renders))
		ctx.Cov.Add("contract_txs", r.txs)
		ctx.Cov.Add("contract_txs_ok", r.txsOK)
		if r.pos {
			ctx.Cov.Count("contract_chain_reached_pos")
		}
		if r.exits {
			ctx.Cov.Count("contract_chain_leader_left")
		}
		if p := r.judgeContract(prop, answers[0]); p != nil {
			// shrink: cut the history after the failing block
			small := &CCase{Epoch: c.Epoch, TP: c.TP, Hayabusa: c.Hayabusa, MBP: c.MBP, EvictThr: c.EvictThr, Blocks: c.Blocks[:minInt(p.step+1, len(c.Blocks))]}
			ctx.Violation(p.class, p.summary, map[string]any{"contract_case": small}, p.found)
		}
		r.close()
	}
}

func minInt(a, b int) int {
	if a < b {
		return a
	}
	return b
}

// ReplayContract re-runs a stored contract-level case.
func ReplayContract(ctx *hx.Ctx, prop string, c *CCase) {
	r, err := runContractCase(c, nil, 0)
	if err != nil {
		hx.Fatal("contract replay: %v", err)
	}
	defer r.close()
	answers, err := hx.AskAll(ctx.Oracle, []string{r.modelLine()})
	if err != nil {
		hx.Fatal("oracle failed: %v", err)
	}
	if p := r.judgeContract(prop, answers[0]); p != nil {
		ctx.Violation(p.class, p.summary, map[string]any{"contract_case": c}, p.found)
	}
}
