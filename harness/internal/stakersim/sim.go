// Package stakersim is the shared part of the C16/C17 correspondence drivers: it applies operation histories to the
// REAL builtin/staker package on a real state.State (muxdb.NewMem), renders the public-API observables after every
// operation in the same canonical text the extracted Coq model prints, and evaluates the properties' own predicates
// on the implementation's values.
package stakersim

import (
	"fmt"
	"math/big"
	"strings"

	"github.com/vechain/thor/v2/builtin/params"
	"github.com/vechain/thor/v2/builtin/staker"
	"github.com/vechain/thor/v2/builtin/staker/validation"
	"github.com/vechain/thor/v2/muxdb"
	"github.com/vechain/thor/v2/state"
	"github.com/vechain/thor/v2/thor"
	"github.com/vechain/thor/v2/trie"
)

// ---------------------------------------------------------------- cases

type Cfg struct {
	Epoch    uint32 `json:"epoch"`
	Low      uint32 `json:"low"`
	Med      uint32 `json:"med"`
	High     uint32 `json:"high"`
	Cooldown uint32 `json:"cooldown"`
	EvictThr uint32 `json:"evict_threshold"`
	EvictInt uint32 `json:"evict_interval"`
	TP       uint32 `json:"hayabusa_tp"`
	Hayabusa uint32 `json:"hayabusa"`
	Donation uint64 `json:"donation_wei"` // VET forced into the contract before the history starts
	MBP      uint64 `json:"max_block_proposers"`
}

// Op is one operation; K is the kind token of the oracle protocol.
//
//	B | AV a e p vet | IS a e vet | DS a e vet | SE a e | WS a e | ON a on | SB a e b | AD a vet mult | DE id | WD id
//	| RW a amount | MB n | DN wei
type Op struct {
	K  string `json:"k"`
	A  uint64 `json:"a,omitempty"`  // validator address (small integer) or delegation id
	E  uint64 `json:"e,omitempty"`  // endorser
	X  uint64 `json:"x,omitempty"`  // amount (VET / wei / reward) or period or beneficiary or n
	M  uint64 `json:"m,omitempty"`  // multiplier or period
	On bool   `json:"on,omitempty"` // SetOnline flag
}

type Case struct {
	Cfg Cfg  `json:"cfg"`
	Ops []Op `json:"ops"`
}

func hexU(x uint64) string { return fmt.Sprintf("%x", x) }

func (o Op) Line() string {
	switch o.K {
	case "B":
		return "B"
	case "AV":
		return fmt.Sprintf("AV %x %x %x %x", o.A, o.E, o.M, o.X)
	case "IS", "DS":
		return fmt.Sprintf("%s %x %x %x", o.K, o.A, o.E, o.X)
	case "SE", "WS":
		return fmt.Sprintf("%s %x %x", o.K, o.A, o.E)
	case "ON":
		b := 0
		if o.On {
			b = 1
		}
		return fmt.Sprintf("ON %x %d", o.A, b)
	case "SB":
		return fmt.Sprintf("SB %x %x %x", o.A, o.E, o.X)
	case "AD":
		return fmt.Sprintf("AD %x %x %x", o.A, o.X, o.M)
	case "DE", "WD":
		return fmt.Sprintf("%s %x", o.K, o.A)
	case "RW":
		return fmt.Sprintf("RW %x %x", o.A, o.X)
	case "MB", "DN":
		return fmt.Sprintf("%s %x", o.K, o.X)
	}
	return "?"
}

// Line0 is the configuration part of the oracle line.
func (g Cfg) Line0() string {
	return fmt.Sprintf("%x %x %x %x %x %x %x %x %x %x %x", g.Epoch, g.Low, g.Med, g.High, g.Cooldown, g.EvictThr, g.EvictInt, g.TP, g.Hayabusa, g.Donation, g.MBP)
}

func (c *Case) Line() string {
	var b strings.Builder
	g := c.Cfg
	fmt.Fprintf(&b, "%x %x %x %x %x %x %x %x %x %x %x", g.Epoch, g.Low, g.Med, g.High, g.Cooldown, g.EvictThr, g.EvictInt,
		g.TP, g.Hayabusa, g.Donation, g.MBP)
	for _, o := range c.Ops {
		b.WriteString(" | ")
		b.WriteString(o.Line())
	}
	return b.String()
}

// ---------------------------------------------------------------- the real staker

var (
	stakerAddr = thor.BytesToAddress([]byte("Staker"))
	paramsAddr = thor.BytesToAddress([]byte("Params"))
	e18        = big.NewInt(1e18)
)

func Addr(n uint64) thor.Address { return thor.BytesToAddress(new(big.Int).SetUint64(n).Bytes()) }
func addrN(a thor.Address) string {
	s := strings.TrimLeft(fmt.Sprintf("%x", a[:]), "0")
	if s == "" {
		return "0"
	}
	return s
}
func addrP(a *thor.Address) string {
	if a == nil {
		return "-"
	}
	return addrN(*a)
}
func u32P(p *uint32) string {
	if p == nil {
		return "-"
	}
	return fmt.Sprintf("%x", *p)
}
func hb(b bool) string {
	if b {
		return "1"
	}
	return "0"
}

type Sim struct {
	db     *muxdb.MuxDB // owned in-memory database (native level); nil for views of a chain
	Addr   thor.Address // the staker contract account
	Cfg    Cfg
	St     *state.State
	Stk    *staker.Staker
	Params *params.Params
	FC     *thor.ForkConfig
	Blk    uint32
	Vals   []thor.Address // validations in creation order (= the model's insertion order)
	NDel   uint64         // delegation ids 1..NDel exist
}

func ApplyConfig(g Cfg) {
	tp := g.TP
	thor.SetConfig(thor.Config{EpochLength: g.Epoch, LowStakingPeriod: g.Low, MediumStakingPeriod: g.Med, HighStakingPeriod: g.High,
		CooldownPeriod: g.Cooldown, ValidatorEvictionThreshold: g.EvictThr, EvictionCheckInterval: g.EvictInt, HayabusaTP: &tp})
}

func NewSim(g Cfg) *Sim {
	ApplyConfig(g)
	db := muxdb.NewMem()
	st := state.New(db, trie.Root{})
	st.SetCode(stakerAddr, []byte{0x60}) // the account exists, as after genesis
	p := params.New(paramsAddr, st)
	s := &Sim{db: db, Addr: stakerAddr, Cfg: g, St: st, Params: p, FC: &thor.ForkConfig{HAYABUSA: g.Hayabusa}}
	s.Stk = staker.New(stakerAddr, st, p, nil)
	if g.MBP != 0 {
		p.Set(thor.KeyMaxBlockProposers, new(big.Int).SetUint64(g.MBP))
	}
	if g.Donation != 0 {
		st.SetBalance(stakerAddr, new(big.Int).SetUint64(g.Donation))
	}
	return s
}

// Close releases the in-memory database of a native-level simulation.
func (s *Sim) Close() {
	if s.db != nil {
		s.db.Close()
		s.db = nil
	}
}

func (s *Sim) slot0() *big.Int {
	v, err := s.St.GetStorage(s.Addr, thor.Bytes32{})
	if err != nil {
		panic(err)
	}
	return new(big.Int).SetBytes(v.Bytes())
}
func (s *Sim) balance() *big.Int {
	b, err := s.St.GetBalance(s.Addr)
	if err != nil {
		panic(err)
	}
	return b
}
func (s *Sim) setSlot0(x *big.Int) {
	s.St.SetStorage(s.Addr, thor.Bytes32{}, thor.BytesToBytes32(x.Bytes()))
}

// the value-carrying statements of staker.sol (the contract itself is not executed at this level)
func checkStake(vet uint64) bool { return vet > 0 && vet <= 100_000_000_000 }
func (s *Sim) payIn(vet uint64) {
	wei := new(big.Int).Mul(new(big.Int).SetUint64(vet), e18)
	s.St.SetBalance(s.Addr, new(big.Int).Add(s.balance(), wei))
	s.setSlot0(new(big.Int).Add(s.slot0(), wei))
}
func (s *Sim) payOut(vet uint64) bool {
	wei := new(big.Int).Mul(new(big.Int).SetUint64(vet), e18)
	if s.slot0().Cmp(wei) < 0 || s.balance().Cmp(wei) < 0 {
		return false
	}
	s.setSlot0(new(big.Int).Sub(s.slot0(), wei))
	s.St.SetBalance(s.Addr, new(big.Int).Sub(s.balance(), wei))
	return true
}

// Outcome of one operation on the implementation.
type Outcome struct {
	Class int    // 0 ok, 1 revert, 2 error, 3 panic
	Val   uint64 // withdrawn VET / delegation id / status flags
	Err   string
}

// Apply runs one operation against the real staker; a failed operation is rolled back with the state checkpoint.
func (s *Sim) Apply(o Op) (out Outcome) {
	cp := s.St.NewCheckpoint()
	savedBlk, savedVals, savedND := s.Blk, len(s.Vals), s.NDel
	fail := func(err error) Outcome {
		s.St.RevertTo(cp)
		s.Blk, s.Vals, s.NDel = savedBlk, s.Vals[:savedVals], savedND
		if staker.IsRevertErr(err) {
			return Outcome{Class: 1, Err: err.Error()}
		}
		return Outcome{Class: 2, Err: err.Error()}
	}
	defer func() {
		if r := recover(); r != nil {
			s.St.RevertTo(cp)
			s.Blk, s.Vals, s.NDel = savedBlk, s.Vals[:savedVals], savedND
			out = Outcome{Class: 3, Err: fmt.Sprint("panic: ", r)}
		}
	}()
	revert := fmt.Errorf("sol") // sentinel for a Solidity-level require
	solRevert := func() Outcome { s.St.RevertTo(cp); return Outcome{Class: 1, Err: revert.Error()} }
	switch o.K {
	case "B":
		s.Blk++
		status, err := s.Stk.SyncPOS(s.FC, s.Blk)
		v := uint64(0)
		if err != nil {
			// what packer.Schedule and the consensus validator do: revert to the checkpoint taken before SyncPOS and go on with
			// the block (the status keeps Active as read before the failing step)
			s.St.RevertTo(cp)
			status.Updates = false
			v = 4
		}
		if status.Active {
			v += 2
		}
		if status.Updates {
			v++
		}
		out := Outcome{Val: v}
		if err != nil {
			out.Err = err.Error()
		}
		return out
	case "AV":
		if !checkStake(o.X) {
			return solRevert()
		}
		s.payIn(o.X)
		if err := s.Stk.AddValidation(Addr(o.A), Addr(o.E), uint32(o.M), o.X); err != nil {
			return fail(err)
		}
		s.Vals = append(s.Vals, Addr(o.A))
		return Outcome{}
	case "IS":
		if !checkStake(o.X) {
			return solRevert()
		}
		s.payIn(o.X)
		if err := s.Stk.IncreaseStake(Addr(o.A), Addr(o.E), o.X); err != nil {
			return fail(err)
		}
		return Outcome{}
	case "DS":
		if !checkStake(o.X) {
			return solRevert()
		}
		if err := s.Stk.DecreaseStake(Addr(o.A), Addr(o.E), o.X); err != nil {
			return fail(err)
		}
		return Outcome{}
	case "SE":
		if err := s.Stk.SignalExit(Addr(o.A), Addr(o.E), s.Blk); err != nil {
			return fail(err)
		}
		return Outcome{}
	case "WS":
		x, err := s.Stk.WithdrawStake(Addr(o.A), Addr(o.E), s.Blk)
		if err != nil {
			return fail(err)
		}
		if !s.payOut(x) {
			return solRevert()
		}
		return Outcome{Val: x}
	case "ON":
		if err := s.Stk.SetOnline(Addr(o.A), s.Blk, o.On); err != nil {
			return fail(err)
		}
		return Outcome{}
	case "SB":
		if err := s.Stk.SetBeneficiary(Addr(o.A), Addr(o.E), Addr(o.X)); err != nil {
			return fail(err)
		}
		return Outcome{}
	case "AD":
		if !checkStake(o.X) {
			return solRevert()
		}
		s.payIn(o.X)
		id, err := s.Stk.AddDelegation(Addr(o.A), o.X, uint8(o.M), s.Blk)
		if err != nil {
			return fail(err)
		}
		s.NDel++
		return Outcome{Val: id.Uint64()}
	case "DE":
		if err := s.Stk.SignalDelegationExit(new(big.Int).SetUint64(o.A), s.Blk); err != nil {
			return fail(err)
		}
		return Outcome{}
	case "WD":
		x, err := s.Stk.WithdrawDelegation(new(big.Int).SetUint64(o.A), s.Blk)
		if err != nil {
			return fail(err)
		}
		if !s.payOut(x) {
			return solRevert()
		}
		return Outcome{Val: x}
	case "RW":
		if err := s.Stk.IncreaseDelegatorsReward(Addr(o.A), new(big.Int).SetUint64(o.X), s.Blk); err != nil {
			return fail(err)
		}
		return Outcome{}
	case "MB":
		if err := s.Params.Set(thor.KeyMaxBlockProposers, new(big.Int).SetUint64(o.X)); err != nil {
			return fail(err)
		}
		return Outcome{}
	case "DN":
		s.St.SetBalance(s.Addr, new(big.Int).Add(s.balance(), new(big.Int).SetUint64(o.X)))
		return Outcome{}
	}
	panic("unknown op " + o.K)
}

// ---------------------------------------------------------------- observation (public API + the verif accessors)

type ValObs struct {
	Addr                                  thor.Address
	V                                     *validation.Validation
	Tot                                   *validation.Totals
	Wd                                    uint64
	AggL, AggLW, AggP, AggPW, AggE, AggEW uint64
}
type DelObs struct {
	ID             uint64
	Val            thor.Address
	Stake          uint64
	Mult           uint8
	Last           *uint32
	First          uint32
	Started, Ended bool
	FlagsErr       bool
	ValStatus      uint8
}
type Leader struct {
	Addr   thor.Address
	Weight uint64
}
type Obs struct {
	LV, LW, Q, WD, CD uint64
	Eff, Bal          *big.Int
	Blk               uint32
	MBP               uint64
	ASize, QSize      uint64
	FirstA, FirstQ    thor.Address
	Leaders           []validation.Leader
	LeadersErr        bool
	ActiveWalk        []thor.Address // FirstActive / Next
	QueuedWalk        []thor.Address // FirstQueued / Next
	WalkErr           bool
	Renewal           []thor.Address
	RenewalErr        bool
	Vals              []ValObs
	Dels              []DelObs
}

func must[T any](v T, err error) T {
	if err != nil {
		panic(err)
	}
	return v
}

func (s *Sim) walk(first thor.Address) ([]thor.Address, bool) {
	var out []thor.Address
	cur := first
	for i := 0; !cur.IsZero(); i++ {
		if i > len(s.Vals)+1 {
			return out, true // cycle
		}
		out = append(out, cur)
		cur = must(s.Stk.Next(cur))
	}
	return out, false
}

func (s *Sim) Observe() *Obs {
	o := &Obs{Blk: s.Blk}
	o.LV, o.LW = func() (uint64, uint64) { a, b, err := s.Stk.LockedStake(); must(0, err); return a, b }()
	o.Q = must(s.Stk.QueuedStake())
	o.WD = must(s.Stk.VerifWithdrawableStake())
	o.CD = must(s.Stk.VerifCooldownStake())
	o.Eff, o.Bal = s.slot0(), s.balance()
	o.MBP = must(thor.GetMaxBlockProposers(s.Params, false))
	o.ASize, o.QSize = func() (uint64, uint64) { a, b, err := s.Stk.GetValidationsNum(); must(0, err); return a, b }()
	o.FirstA = must(s.Stk.FirstActive())
	o.FirstQ = must(s.Stk.FirstQueued())
	lg, err := s.Stk.LeaderGroup()
	o.Leaders, o.LeadersErr = lg, err != nil
	var e1, e2 bool
	o.ActiveWalk, e1 = s.walk(o.FirstA)
	o.QueuedWalk, e2 = s.walk(o.FirstQ)
	o.WalkErr = e1 || e2
	rl, err := s.Stk.VerifRenewalList()
	o.Renewal, o.RenewalErr = rl, err != nil
	for _, a := range s.Vals {
		v := must(s.Stk.GetValidation(a))
		vo := ValObs{Addr: a, V: v}
		if t, err := s.Stk.GetValidationTotals(a); err == nil {
			vo.Tot = t
		}
		vo.Wd = must(s.Stk.GetWithdrawable(a, s.Blk))
		ag := must(s.Stk.VerifAggregation(a))
		vo.AggL, vo.AggLW, vo.AggP, vo.AggPW, vo.AggE, vo.AggEW = ag.Locked.VET, ag.Locked.Weight, ag.Pending.VET, ag.Pending.Weight,
			ag.Exiting.VET, ag.Exiting.Weight
		o.Vals = append(o.Vals, vo)
	}
	for id := uint64(1); id <= s.NDel; id++ {
		d, v, err := s.Stk.GetDelegation(new(big.Int).SetUint64(id))
		must(0, err)
		do := DelObs{ID: id, Val: d.Validation, Stake: d.Stake, Mult: d.Multiplier, Last: d.LastIteration, First: d.FirstIteration,
			ValStatus: v.Status}
		st, err1 := d.Started(v, s.Blk)
		en, err2 := d.Ended(v, s.Blk)
		do.Started, do.Ended, do.FlagsErr = st, en, err1 != nil || err2 != nil
		o.Dels = append(o.Dels, do)
	}
	return o
}

// Render prints the observation exactly as oracle/c16/driver.ml prints the model state.
func (s *Sim) Render(out Outcome, o *Obs) string {
	var b strings.Builder
	w := func(xs ...string) {
		for _, x := range xs {
			b.WriteByte(' ')
			b.WriteString(x)
		}
	}
	cls := out.Class
	val := out.Val
	if cls != 0 {
		val = 0
	}
	b.WriteString(hexU(uint64(cls)))
	w(hexU(val), "G", hexU(o.LV), hexU(o.LW), hexU(o.Q), hexU(o.WD), hexU(o.CD), fmt.Sprintf("%x", o.Eff), fmt.Sprintf("%x", o.Bal), hexU(uint64(o.Blk)),
		hexU(o.MBP), "L", hexU(o.ASize), hexU(o.QSize), addrN(o.FirstA), addrN(o.FirstQ))
	w("LG")
	if o.LeadersErr {
		w("err")
	} else {
		var l []string
		for _, x := range o.Leaders {
			l = append(l, strings.Join([]string{addrN(x.Address), addrN(x.Endorser), addrP(x.Beneficiary), hb(x.Active), hexU(x.Weight)}, ":"))
		}
		w(strings.Join(l, ","))
	}
	w("QG")
	{
		var l []string
		for _, a := range o.QueuedWalk {
			l = append(l, addrN(a))
		}
		w(strings.Join(l, ","))
	}
	w("RL")
	if o.RenewalErr {
		w("err")
	} else {
		var l []string
		for _, a := range o.Renewal {
			l = append(l, addrN(a))
		}
		w(strings.Join(l, ","))
	}
	for _, vo := range o.Vals {
		v := vo.V
		tot := "err"
		if vo.Tot != nil {
			t := vo.Tot
			tot = strings.Join([]string{hexU(t.TotalLockedStake), hexU(t.TotalLockedWeight), hexU(t.TotalQueuedStake), hexU(t.TotalExitingStake),
				hexU(t.NextPeriodWeight)}, ",")
		}
		rw := "err"
		if cur, err := v.CurrentIteration(s.Blk); err == nil {
			r := must(s.Stk.GetDelegatorRewards(vo.Addr, cur))
			rw = hexU(uint64(cur)) + "=" + fmt.Sprintf("%x", r)
		}
		w("V", addrN(vo.Addr), addrN(v.Endorser), addrP(v.Beneficiary), hexU(uint64(v.Period)), hexU(uint64(v.CompletedPeriods)),
			hexU(uint64(v.Status)), hexU(uint64(v.StartBlock)), u32P(v.ExitBlock), u32P(v.OfflineBlock), hexU(v.LockedVET), hexU(v.PendingUnlockVET),
			hexU(v.QueuedVET), hexU(v.CooldownVET), hexU(v.WithdrawableVET), hexU(v.Weight), addrP(v.Prev), addrP(v.Next), tot, hexU(vo.Wd),
			strings.Join([]string{hexU(vo.AggL), hexU(vo.AggLW), hexU(vo.AggP), hexU(vo.AggPW), hexU(vo.AggE), hexU(vo.AggEW)}, ","), rw)
	}
	for _, d := range o.Dels {
		fl := hb(d.Started) + hb(d.Ended)
		if d.FlagsErr {
			fl = "err"
		}
		w("D", hexU(d.ID), addrN(d.Val), hexU(d.Stake), hexU(uint64(d.Mult)), u32P(d.Last), hexU(uint64(d.First)), fl)
	}
	return b.String()
}
