package stakersim

import (
	"github.com/vechain/thor/v2/builtin/staker/validation"

	"verif/harness/internal/hx"
)

const (
	minStake = uint64(25_000_000)
	maxStake = uint64(600_000_000)
)

// GenCfg draws a configuration: short epochs / periods / cooldown, periods multiples of the epoch (as on every network),
// varying max-block-proposers, with and without a transition period.
func GenCfg(r *hx.Rand) Cfg {
	ep := uint32(r.Range(1, 5))
	low := ep * uint32(r.Range(1, 3))
	med := low + ep*uint32(r.Range(1, 2))
	high := med + ep*uint32(r.Range(1, 3))
	g := Cfg{Epoch: ep, Low: low, Med: med, High: high, Cooldown: uint32(r.Range(1, int(3*ep))),
		EvictThr: uint32(r.Range(1, int(3*ep))), EvictInt: ep * uint32(r.Range(1, 3))}
	if r.Chance(1, 6) {
		g.EvictInt = uint32(r.Range(1, 7)) // not aligned with the epoch
	}
	if r.Chance(1, 2) {
		g.TP = ep * uint32(r.Range(1, 3))
	}
	if r.Chance(1, 3) {
		g.Hayabusa = uint32(r.Range(0, 6))
	}
	switch {
	case r.Chance(1, 12):
		g.MBP = 0 // -> 101: the switch never happens with a dozen validators
	default:
		g.MBP = uint64(r.Range(1, 9))
	}
	if r.Chance(1, 4) {
		g.Donation = r.Uint64() % 3_000_000_000_000_000_000
	}
	return g
}

type Gen struct {
	R        *hx.Rand
	G        Cfg
	Target   int // validators to create
	MaxDels  int
	nextAddr uint64
	lastOK   *Op // last successful withdrawal, to replay it ("withdraw twice")
	mbW      int // weight of max-block-proposers changes
}

func NewGen(r *hx.Rand, g Cfg) *Gen {
	gn := &Gen{R: r, G: g, Target: r.Range(3, 12), MaxDels: r.Range(0, 30), nextAddr: 0xa0, mbW: 1}
	if r.Chance(1, 6) {
		gn.mbW = 5 // a history in which governance keeps changing max-block-proposers
	}
	return gn
}

func endorserOf(a uint64) uint64 { return 0xe000 + a }

func (gn *Gen) pickVal(o *Obs, pred func(*ValObs) bool) (uint64, bool) {
	var c []uint64
	for i := range o.Vals {
		if pred == nil || pred(&o.Vals[i]) {
			c = append(c, addrU(o.Vals[i].Addr))
		}
	}
	if len(c) == 0 {
		return 0, false
	}
	return c[gn.R.Intn(len(c))], true
}

func addrU(a [20]byte) uint64 {
	var x uint64
	for _, b := range a[12:] {
		x = x<<8 | uint64(b)
	}
	return x
}

func (gn *Gen) anyVal(o *Obs) uint64 {
	if gn.R.Chance(1, 25) || len(o.Vals) == 0 {
		return 0x999 // does not exist
	}
	a, _ := gn.pickVal(o, nil)
	return a
}

func (gn *Gen) endorser(a uint64) uint64 {
	if gn.R.Chance(1, 20) {
		return 0xbad
	}
	return endorserOf(a)
}

// Next draws the next operation given the implementation's current observation.
func (gn *Gen) Next(o *Obs) Op {
	r := gn.R
	if gn.lastOK != nil && r.Chance(1, 3) {
		op := *gn.lastOK
		gn.lastOK = nil
		return op // the same withdrawal again
	}
	gn.lastOK = nil
	addW := 2
	if len(o.Vals) < gn.Target {
		addW = 18
	}
	delW := 1
	if len(o.Dels) < gn.MaxDels && len(o.Vals) > 0 {
		delW = 12
	}
	type alt struct {
		w int
		k string
	}
	alts := []alt{{34, "B"}, {addW, "AV"}, {6, "IS"}, {6, "DS"}, {5, "SE"}, {8, "WS"}, {7, "ON"}, {2, "SB"}, {delW, "AD"}, {6, "DE"}, {8, "WD"},
		{2, "RW"}, {gn.mbW, "MB"}, {1, "DN"}}
	tot := 0
	for _, a := range alts {
		tot += a.w
	}
	x := r.Intn(tot)
	k := ""
	for _, a := range alts {
		if x < a.w {
			k = a.k
			break
		}
		x -= a.w
	}
	smart := !r.Chance(1, 6) // mostly pick a subject for which the operation can succeed
	isActive := func(v *ValObs) bool { return v.V.Status == validation.StatusActive && v.V.ExitBlock == nil }
	switch k {
	case "B":
		return Op{K: "B"}
	case "AV":
		a := gn.nextAddr + 1
		gn.nextAddr++
		if r.Chance(1, 30) && len(o.Vals) > 0 {
			a = gn.anyVal(o)
		}
		if r.Chance(1, 60) {
			a = 0
		}
		period := []uint32{gn.G.Low, gn.G.Med, gn.G.High}[r.Intn(3)]
		if r.Chance(1, 40) {
			period = gn.G.Low + 1
		}
		var st uint64
		switch r.Intn(10) {
		case 0:
			st = minStake
		case 1:
			st = maxStake
		case 2:
			st = []uint64{minStake - 1, maxStake + 1, 0}[r.Intn(3)]
		case 3, 4:
			st = minStake + uint64(r.Intn(1000))
		default:
			st = minStake + r.Uint64()%(maxStake-minStake)
		}
		return Op{K: "AV", A: a, E: endorserOf(a), M: uint64(period), X: st}
	case "IS":
		a := gn.anyVal(o)
		if smart {
			if b, ok := gn.pickVal(o, isActive); ok {
				a = b
			}
		}
		amt := []uint64{1, 1, uint64(r.Range(2, 5000)), 1_000_000, 100_000_000, 400_000_000, 0, maxStake + 1}[r.Intn(8)]
		return Op{K: "IS", A: a, E: gn.endorser(a), X: amt}
	case "DS":
		a := gn.anyVal(o)
		if smart {
			if b, ok := gn.pickVal(o, isActive); ok {
				a = b
			}
		}
		amt := []uint64{1, uint64(r.Range(2, 5000)), 1_000_000, 100_000_000, 0, maxStake}[r.Intn(6)]
		if smart {
			for _, v := range o.Vals {
				if addrU(v.Addr) == a && v.V.LockedVET-v.V.PendingUnlockVET > minStake && r.Chance(1, 2) {
					amt = 1 + r.Uint64()%(v.V.LockedVET-v.V.PendingUnlockVET-minStake)
					if r.Chance(1, 4) {
						amt = v.V.LockedVET - v.V.PendingUnlockVET - minStake + uint64(r.Intn(2)) // exactly the limit / one above
					}
				}
			}
		}
		return Op{K: "DS", A: a, E: gn.endorser(a), X: amt}
	case "SE":
		a := gn.anyVal(o)
		if smart {
			if b, ok := gn.pickVal(o, isActive); ok {
				a = b
			}
		}
		return Op{K: "SE", A: a, E: gn.endorser(a)}
	case "WS":
		a := gn.anyVal(o)
		if smart {
			if b, ok := gn.pickVal(o, func(v *ValObs) bool {
				return v.V.Status != validation.StatusActive || v.V.WithdrawableVET > 0 || v.V.QueuedVET > 0
			}); ok {
				a = b
			}
		}
		return Op{K: "WS", A: a, E: gn.endorser(a)}
	case "ON":
		a := gn.anyVal(o)
		if smart {
			if b, ok := gn.pickVal(o, func(v *ValObs) bool { return v.V.Status == validation.StatusActive }); ok {
				a = b
			}
		}
		return Op{K: "ON", A: a, On: r.Chance(1, 3)}
	case "SB":
		a := gn.anyVal(o)
		return Op{K: "SB", A: a, E: gn.endorser(a), X: []uint64{0, 0xbe01, 0xbe02}[r.Intn(3)]}
	case "AD":
		a := gn.anyVal(o)
		if smart {
			if b, ok := gn.pickVal(o, func(v *ValObs) bool { return v.V.Status != validation.StatusExit && v.V.ExitBlock == nil }); ok {
				a = b
			}
		}
		amt := []uint64{1, 3, 100, uint64(r.Range(1, 100000)), 1_000_000, 50_000_000, 300_000_000, 0}[r.Intn(8)]
		mult := []uint64{1, 50, 100, 100, 150, 200, 200, 255, 0}[r.Intn(9)]
		return Op{K: "AD", A: a, X: amt, M: mult}
	case "DE", "WD":
		id := uint64(0)
		if len(o.Dels) > 0 {
			id = o.Dels[r.Intn(len(o.Dels))].ID
		}
		if smart {
			var c []uint64
			for _, d := range o.Dels {
				if d.Stake == 0 {
					continue
				}
				if k == "DE" && d.Started && !d.Ended && d.Last == nil {
					c = append(c, d.ID)
				}
				if k == "WD" && (!d.Started || d.Ended) {
					c = append(c, d.ID)
				}
			}
			if len(c) > 0 {
				id = c[r.Intn(len(c))]
			}
		}
		if r.Chance(1, 30) {
			id = uint64(len(o.Dels)) + 1
		}
		return Op{K: k, A: id}
	case "RW":
		return Op{K: "RW", A: gn.anyVal(o), X: uint64(r.Range(1, 1_000_000))}
	case "MB":
		if o.ASize >= 2 && r.Chance(1, 2) {
			return Op{K: "MB", X: o.ASize - uint64(r.Range(1, 2))} // below the number of active validators
		}
		return Op{K: "MB", X: uint64(r.Range(0, 12))}
	default:
		return Op{K: "DN", X: r.Uint64() % 2_000_000_000_000_000_000}
	}
}

// Done tells the generator the outcome of the operation it produced.
func (gn *Gen) Done(o Op, out Outcome) {
	if out.Class == 0 && out.Val > 0 && (o.K == "WS" || o.K == "WD") {
		c := o
		gn.lastOK = &c
	}
}

// GenBig draws a history with max-block-proposers above 101 and a queue that grows through [2/3*101, 2/3*max) across
// transition blocks: the PoA->PoS switch must wait for 2/3 of the configured (uncapped) maximum.
func GenBig(r *hx.Rand) Case {
	ep := uint32(r.Range(2, 4))
	g := Cfg{Epoch: ep, Low: ep, Med: 2 * ep, High: 3 * ep, Cooldown: ep, EvictThr: 3 * ep, EvictInt: 2 * ep, MBP: uint64(r.Range(102, 200))}
	if r.Chance(1, 2) {
		g.TP = ep
	}
	need := (2*g.MBP + 2) / 3
	total := int(need) + r.Range(-12, 6)
	if total > 135 {
		total = 135
	}
	c := Case{Cfg: g}
	added := 0
	addr := uint64(0x2000)
	for added < total {
		k := r.Range(4, 11)
		if added < 60 {
			k = r.Range(15, 25)
		}
		for i := 0; i < k && added < total; i++ {
			addr++
			added++
			c.Ops = append(c.Ops, Op{K: "AV", A: addr, E: endorserOf(addr), M: uint64([]uint32{g.Low, g.Med, g.High}[r.Intn(3)]), X: minStake + uint64(r.Intn(100))})
		}
		for i := 0; i < int(ep); i++ {
			c.Ops = append(c.Ops, Op{K: "B"})
		}
	}
	for i := 0; i < int(3*ep); i++ {
		c.Ops = append(c.Ops, Op{K: "B"})
	}
	return c
}
