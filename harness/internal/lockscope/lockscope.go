// Package lockscope checks, on the source of the tree under test, the premise under which the C18 model treats every
// txObjectMap method as ONE atomic step: each method of *txObjectMap takes the map's lock as its first action and holds it
// until it returns (Lock/defer Unlock, or RLock/defer RUnlock for methods that do not write the maps), and nothing outside
// the methods of txObjectMap touches its fields.  It is a syntactic check (go/ast), not a proof of linearizability; it turns
// "read off the lock scopes" into something that is re-read from the code on every run.
package lockscope

import (
	"fmt"
	"go/ast"
	"go/parser"
	"go/token"
	"os"
	"path/filepath"
	"sort"
	"strings"
)

// Helpers collects lock-free unexported methods of *txObjectMap found by the last Check (they must only be called under the lock).
var Helpers = map[string]bool{}

var fields = map[string]bool{"mapByHash": true, "mapByID": true, "quota": true, "cost": true, "lock": true}

// Check returns a list of violations of the lock discipline (empty = premise holds) and the list of methods inspected.
func Check(repo string) (problems []string, methods []string, err error) {
	dir := filepath.Join(repo, "txpool")
	fset := token.NewFileSet()
	ents, err := os.ReadDir(dir)
	if err != nil {
		return nil, nil, err
	}
	found := false
	Helpers = map[string]bool{}
	var files []*ast.File
	for _, e := range ents {
		name := e.Name()
		if !strings.HasSuffix(name, ".go") || strings.HasSuffix(name, "_test.go") || strings.Contains(name, "verif_hooks") {
			continue
		}
		f, err := parser.ParseFile(fset, filepath.Join(dir, name), nil, parser.SkipObjectResolution)
		if err != nil {
			return nil, nil, err
		}
		files = append(files, f)
	}
	// names under which a *txObjectMap is reachable: struct fields of that type, variables assigned from newTxObjectMap()
	holders := map[string]bool{}
	isMapType := func(e ast.Expr) bool {
		if st, ok := e.(*ast.StarExpr); ok {
			e = st.X
		}
		id, ok := e.(*ast.Ident)
		return ok && id.Name == "txObjectMap"
	}
	for _, f := range files {
		ast.Inspect(f, func(n ast.Node) bool {
			switch x := n.(type) {
			case *ast.Field:
				if isMapType(x.Type) {
					for _, nm := range x.Names {
						holders[nm.Name] = true
					}
				}
			case *ast.AssignStmt:
				for i, r := range x.Rhs {
					if ce, ok := r.(*ast.CallExpr); ok {
						if id, ok := ce.Fun.(*ast.Ident); ok && id.Name == "newTxObjectMap" && i < len(x.Lhs) {
							if l, ok := x.Lhs[i].(*ast.Ident); ok {
								holders[l.Name] = true
							}
						}
					}
				}
			case *ast.ValueSpec:
				if x.Type != nil && isMapType(x.Type) {
					for _, nm := range x.Names {
						holders[nm.Name] = true
					}
				}
			}
			return true
		})
	}
	for _, f := range files {
		for _, d := range f.Decls {
			fd, ok := d.(*ast.FuncDecl)
			if !ok || fd.Body == nil {
				continue
			}
			recvName, isMapMethod := "", false
			if fd.Recv != nil && len(fd.Recv.List) == 1 {
				if st, ok := fd.Recv.List[0].Type.(*ast.StarExpr); ok {
					if id, ok := st.X.(*ast.Ident); ok && id.Name == "txObjectMap" {
						isMapMethod = true
						if len(fd.Recv.List[0].Names) == 1 {
							recvName = fd.Recv.List[0].Names[0].Name
						}
					}
				}
			}
			if isMapMethod {
				found = true
				methods = append(methods, fd.Name.Name)
				problems = append(problems, checkMethod(fset, fd, recvName)...)
				continue
			}
			if fd.Name.Name == "newTxObjectMap" {
				continue
			}
			// outside the methods: no access `<holder>.<field>` / `x.<holder>.<field>` to the map's own fields
			ast.Inspect(fd.Body, func(n ast.Node) bool {
				se, ok := n.(*ast.SelectorExpr)
				if !ok || !fields[se.Sel.Name] {
					return true
				}
				base := ""
				switch b := se.X.(type) {
				case *ast.Ident:
					base = b.Name
				case *ast.SelectorExpr:
					base = b.Sel.Name
				}
				if holders[base] {
					problems = append(problems, fmt.Sprintf("%s: %s accesses txObjectMap field %s outside the map's methods",
						fset.Position(se.Pos()), fd.Name.Name, se.Sel.Name))
				}
				return true
			})
		}
	}
	// lock-free helpers may only be called from the map's own methods (which hold the lock)
	for _, f := range files {
		for _, d := range f.Decls {
			fd, ok := d.(*ast.FuncDecl)
			if !ok || fd.Body == nil {
				continue
			}
			inMap := false
			if fd.Recv != nil && len(fd.Recv.List) == 1 {
				if st, ok := fd.Recv.List[0].Type.(*ast.StarExpr); ok {
					if id, ok := st.X.(*ast.Ident); ok && id.Name == "txObjectMap" {
						inMap = true
					}
				}
			}
			if inMap {
				continue
			}
			ast.Inspect(fd.Body, func(n ast.Node) bool {
				ce, ok := n.(*ast.CallExpr)
				if !ok {
					return true
				}
				se, ok := ce.Fun.(*ast.SelectorExpr)
				if !ok || !Helpers[se.Sel.Name] {
					return true
				}
				base := ""
				switch b := se.X.(type) {
				case *ast.Ident:
					base = b.Name
				case *ast.SelectorExpr:
					base = b.Sel.Name
				}
				if holders[base] {
					problems = append(problems, fmt.Sprintf("%s: %s calls the lock-free helper txObjectMap.%s without holding the map lock",
						fset.Position(ce.Pos()), fd.Name.Name, se.Sel.Name))
				}
				return true
			})
		}
	}
	if !found {
		problems = append(problems, "no methods of *txObjectMap found in txpool/ (type renamed or moved: the atomic-step premise cannot be re-read from the code)")
	}
	sort.Strings(methods)
	return problems, methods, nil
}

func isLockCall(e ast.Expr, recv string, names ...string) (string, bool) {
	ce, ok := e.(*ast.CallExpr)
	if !ok || len(ce.Args) != 0 {
		return "", false
	}
	se, ok := ce.Fun.(*ast.SelectorExpr)
	if !ok {
		return "", false
	}
	inner, ok := se.X.(*ast.SelectorExpr)
	if !ok || inner.Sel.Name != "lock" {
		return "", false
	}
	if id, ok := inner.X.(*ast.Ident); !ok || id.Name != recv {
		return "", false
	}
	for _, n := range names {
		if se.Sel.Name == n {
			return n, true
		}
	}
	return "", false
}

func checkMethod(fset *token.FileSet, fd *ast.FuncDecl, recv string) (problems []string) {
	pos := fset.Position(fd.Pos())
	fail := func(format string, a ...any) {
		problems = append(problems, fmt.Sprintf("%s: txObjectMap.%s: ", pos, fd.Name.Name)+fmt.Sprintf(format, a...))
	}
	if recv == "" {
		fail("receiver is not named")
		return
	}
	// a method that never touches the lock is a helper: legal iff it is only called from inside the map's own methods
	// (checked by the caller through Helpers); it must not be exported
	usesLock := false
	ast.Inspect(fd.Body, func(n ast.Node) bool {
		if ce, ok := n.(*ast.CallExpr); ok {
			if _, ok := isLockCall(ce, recv, "Lock", "Unlock", "RLock", "RUnlock"); ok {
				usesLock = true
			}
		}
		return true
	})
	if !usesLock {
		if ast.IsExported(fd.Name.Name) {
			fail("exported method does not take the lock")
		} else {
			Helpers[fd.Name.Name] = true
		}
		return
	}
	if len(fd.Body.List) < 2 {
		fail("body does not start with lock acquisition")
		return
	}
	first, ok1 := fd.Body.List[0].(*ast.ExprStmt)
	second, ok2 := fd.Body.List[1].(*ast.DeferStmt)
	if !ok1 || !ok2 {
		fail("first two statements are not `%s.lock.(R)Lock(); defer %s.lock.(R)Unlock()`", recv, recv)
		return
	}
	kind, ok := isLockCall(first.X, recv, "Lock", "RLock")
	if !ok {
		fail("first statement is not a lock acquisition")
		return
	}
	want := map[string]string{"Lock": "Unlock", "RLock": "RUnlock"}[kind]
	if _, ok := isLockCall(second.Call, recv, want); !ok {
		fail("second statement is not `defer %s.lock.%s()`", recv, want)
	}
	// no further lock operations (an early Unlock would split the step), and writers must hold the write lock
	writes := false
	for _, st := range fd.Body.List[2:] {
		ast.Inspect(st, func(n ast.Node) bool {
			switch x := n.(type) {
			case *ast.CallExpr:
				if _, ok := isLockCall(x, recv, "Lock", "Unlock", "RLock", "RUnlock"); ok {
					fail("additional lock operation inside the body at %s", fset.Position(x.Pos()))
				}
				if id, ok := x.Fun.(*ast.Ident); ok && id.Name == "delete" && len(x.Args) > 0 && touchesField(x.Args[0], recv) {
					writes = true
				}
			case *ast.AssignStmt:
				for _, l := range x.Lhs {
					if touchesField(l, recv) {
						writes = true
					}
				}
			case *ast.IncDecStmt:
				if touchesField(x.X, recv) {
					writes = true
				}
			case *ast.GoStmt:
				fail("starts a goroutine while holding the lock at %s", fset.Position(x.Pos()))
			}
			return true
		})
	}
	if writes && kind != "Lock" {
		fail("writes the maps under a read lock")
	}
	return
}

// touchesField: expression of the form recv.<field> or recv.<field>[...]
func touchesField(e ast.Expr, recv string) bool {
	switch x := e.(type) {
	case *ast.IndexExpr:
		return touchesField(x.X, recv)
	case *ast.SelectorExpr:
		if id, ok := x.X.(*ast.Ident); ok && id.Name == recv && fields[x.Sel.Name] && x.Sel.Name != "lock" {
			return true
		}
	}
	return false
}
