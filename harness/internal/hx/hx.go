// Package hx is the shared, property-agnostic part of the correspondence harness: one seeded PRNG,
// the oracle pipe, coverage accounting, violation / known-finding reporting.
package hx

import (
	"bufio"
	"crypto/sha256"
	"encoding/hex"
	"encoding/json"
	"flag"
	"fmt"
	"io"
	"os"
	"os/exec"
	"path/filepath"
	"sort"
	"strings"
	"time"
)

// ---------------------------------------------------------------- PRNG (splitmix64; every random choice derives from it)

type Rand struct{ s uint64 }

// NewRand scrambles the seed through the splitmix64 finaliser first: with a linear map seed -> state, consecutive seeds
// would give the same stream shifted by one draw.
func NewRand(seed uint64) *Rand {
	z := seed + 0x9E3779B97F4A7C15
	z = (z ^ (z >> 30)) * 0xBF58476D1CE4E5B9
	z = (z ^ (z >> 27)) * 0x94D049BB133111EB
	return &Rand{s: z ^ (z >> 31)}
}
func (r *Rand) Uint64() uint64 {
	r.s += 0x9E3779B97F4A7C15
	z := r.s
	z = (z ^ (z >> 30)) * 0xBF58476D1CE4E5B9
	z = (z ^ (z >> 27)) * 0x94D049BB133111EB
	return z ^ (z >> 31)
}
func (r *Rand) Intn(n int) int {
	if n <= 0 {
		return 0
	}
	return int(r.Uint64() % uint64(n))
}
func (r *Rand) Range(lo, hi int) int { return lo + r.Intn(hi-lo+1) } // inclusive
func (r *Rand) Bool() bool           { return r.Uint64()&1 == 1 }
func (r *Rand) Chance(num, den int) bool {
	return r.Intn(den) < num
}
func (r *Rand) Bytes(n int) []byte {
	b := make([]byte, n)
	for i := range b {
		b[i] = byte(r.Uint64())
	}
	return b
}

// Fork derives an independent stream (so that sub-generators do not perturb each other when one changes).
func (r *Rand) Fork(tag uint64) *Rand { return NewRand(r.Uint64() ^ tag*0xD6E8FEB86659FD93) }

// ---------------------------------------------------------------- flags / run context

type Ctx struct {
	Prop       string
	Tier       string
	Seed       uint64
	Oracle     string
	Out        string // result json for bin/check
	Replay     string // replay file to re-run (optional)
	Known      string
	ReplayDir  string
	start      time.Time
	Cov        *Coverage
	known      []KnownFinding
	Violations []ViolationRec
	KnownHits  []string
}

type KnownFinding struct {
	Property string `json:"property"`
	ID       string `json:"id"`
	Status   string `json:"status"` // "known" | "fixed"
	Class    string `json:"class"`  // violation class this entry matches (exact)
	What     string `json:"what"`
	Commit   string `json:"commit,omitempty"`
}

type ViolationRec struct {
	Class   string `json:"class"`
	Replay  string `json:"replay"`
	Found   bool   `json:"failing_input_found"`
	Summary string `json:"summary"`
}

func Init(prop string) *Ctx {
	c := &Ctx{Prop: prop, start: time.Now(), Cov: NewCoverage()}
	flag.StringVar(&c.Tier, "tier", "quick", "quick|thorough")
	flag.Uint64Var(&c.Seed, "seed", 1, "PRNG seed")
	flag.StringVar(&c.Oracle, "oracle", "", "path of the extracted oracle executable")
	flag.StringVar(&c.Out, "out", "", "result json path")
	flag.StringVar(&c.Replay, "replay", "", "replay file")
	flag.StringVar(&c.Known, "known", "", "known_findings.json")
	flag.StringVar(&c.ReplayDir, "replaydir", "", "directory for replay files")
	flag.Parse()
	if c.Known != "" {
		if b, err := os.ReadFile(c.Known); err == nil {
			var all []KnownFinding
			if err := json.Unmarshal(b, &all); err != nil {
				fmt.Fprintln(os.Stderr, "known findings file unreadable:", err)
				os.Exit(2)
			}
			for _, k := range all {
				if k.Property == prop {
					c.known = append(c.known, k)
				}
			}
		}
	}
	return c
}

func (c *Ctx) Thorough() bool { return c.Tier == "thorough" }

// Scale picks the case count for the tier.
func (c *Ctx) Scale(quick, thorough int) int {
	if c.Thorough() {
		return thorough
	}
	return quick
}

// Violation records a property violation. class identifies the failing input class / call site (matched
// against known_findings.json); replay is any JSON-able value that reproduces it; found says whether a
// concrete input on which the *property itself* fails on the implementation is in the replay.
func (c *Ctx) Violation(class string, summary string, replay any, found bool) {
	for _, k := range c.known {
		if k.Status == "known" && k.Class == class {
			line := fmt.Sprintf("KNOWN-FINDING: property=%s %s [%s]", c.Prop, k.What, k.ID)
			for _, h := range c.KnownHits {
				if h == line {
					return
				}
			}
			c.KnownHits = append(c.KnownHits, line)
			fmt.Println(line)
			return
		}
	}
	// one report per class per run is enough; keep the first (smallest index) replay
	for _, v := range c.Violations {
		if v.Class == class {
			return
		}
	}
	dir := c.ReplayDir
	if dir == "" {
		dir = "."
	}
	os.MkdirAll(dir, 0o755)
	name := fmt.Sprintf("%s-%s-seed%d.json", c.Prop, sanitize(class), c.Seed)
	path := filepath.Join(dir, name)
	doc := map[string]any{"property": c.Prop, "class": class, "summary": summary, "seed": c.Seed, "tier": c.Tier,
		"failing_input_found": found, "replay": replay}
	b, _ := json.MarshalIndent(doc, "", " ")
	os.WriteFile(path, b, 0o644)
	suffix := ""
	if !found {
		suffix = " no-failing-input-found"
	}
	fmt.Printf("VIOLATION property=%s replay=%s%s\n", c.Prop, path, suffix)
	c.Violations = append(c.Violations, ViolationRec{Class: class, Replay: path, Found: found, Summary: summary})
}

func sanitize(s string) string {
	var b strings.Builder
	for _, r := range s {
		if (r >= 'a' && r <= 'z') || (r >= 'A' && r <= 'Z') || (r >= '0' && r <= '9') || r == '-' || r == '_' {
			b.WriteRune(r)
		} else {
			b.WriteByte('_')
		}
	}
	if b.Len() > 60 {
		return b.String()[:60]
	}
	return b.String()
}

// Finish writes the result file and exits 0/1.
func (c *Ctx) Finish(rule string, assumptions []string) {
	res := map[string]any{
		"property_id":         c.Prop,
		"tier":                c.Tier,
		"seed":                c.Seed,
		"evaluations":         c.Cov.Evaluations,
		"distinct_nontrivial": len(c.Cov.nontrivial),
		"distinct":            len(c.Cov.distinct),
		"rule":                rule,
		"samples":             c.Cov.Samples,
		"distribution":        c.Cov.Dist,
		"violations":          c.Violations,
		"known_findings_hit":  c.KnownHits,
		"assumptions":         assumptions,
		"wall_s":              time.Since(c.start).Seconds(),
	}
	if c.Out != "" {
		b, _ := json.MarshalIndent(res, "", " ")
		os.WriteFile(c.Out, b, 0o644)
	}
	if len(c.Violations) > 0 {
		os.Exit(1)
	}
	os.Exit(0)
}

// ---------------------------------------------------------------- coverage accounting

type Coverage struct {
	Evaluations int
	distinct    map[[16]byte]struct{}
	nontrivial  map[[16]byte]struct{}
	Samples     []any
	Dist        map[string]int
	maxSamples  int
}

func NewCoverage() *Coverage {
	return &Coverage{distinct: map[[16]byte]struct{}{}, nontrivial: map[[16]byte]struct{}{}, Dist: map[string]int{}, maxSamples: 4}
}

// Case counts one evaluated case; canonical is its canonical text (hashed for distinctness).
func (c *Coverage) Case(canonical string, nontrivial bool, sample any) {
	c.Evaluations++
	h := sha256.Sum256([]byte(canonical))
	var k [16]byte
	copy(k[:], h[:16])
	c.distinct[k] = struct{}{}
	if nontrivial {
		if _, ok := c.nontrivial[k]; !ok && len(c.Samples) < c.maxSamples && sample != nil {
			c.Samples = append(c.Samples, sample)
		}
		c.nontrivial[k] = struct{}{}
	}
}
func (c *Coverage) Count(key string)      { c.Dist[key]++ }
func (c *Coverage) Add(key string, n int) { c.Dist[key] += n }
func (c *Coverage) Bucket(key string, v int) { // power-of-two-ish size buckets
	b := 0
	for x := v; x > 0; x >>= 1 {
		b++
	}
	lo := 0
	if b > 0 {
		lo = 1 << (b - 1)
	}
	c.Dist[fmt.Sprintf("%s[%d..%d]", key, lo, (1<<b)-1)]++
}

// ---------------------------------------------------------------- oracle pipe

type OracleProc struct {
	cmd *exec.Cmd
	in  *bufio.Writer
	out *bufio.Reader
	w   io.WriteCloser
}

func StartOracle(path string, args ...string) (*OracleProc, error) {
	cmd := exec.Command(path, args...)
	w, err := cmd.StdinPipe()
	if err != nil {
		return nil, err
	}
	r, err := cmd.StdoutPipe()
	if err != nil {
		return nil, err
	}
	cmd.Stderr = os.Stderr
	if err := cmd.Start(); err != nil {
		return nil, err
	}
	return &OracleProc{cmd: cmd, in: bufio.NewWriterSize(w, 1<<20), out: bufio.NewReaderSize(r, 1<<20), w: w}, nil
}

// Ask sends one line and reads one answer line.
func (o *OracleProc) Ask(line string) (string, error) {
	if _, err := o.in.WriteString(line + "\n"); err != nil {
		return "", err
	}
	if err := o.in.Flush(); err != nil {
		return "", err
	}
	s, err := o.out.ReadString('\n')
	return strings.TrimRight(s, "\n"), err
}
func (o *OracleProc) Close() { o.w.Close(); o.cmd.Wait() }

// AskAll runs the oracle once over all lines (batch mode, much faster than Ask for volume).
func AskAll(path string, lines []string, args ...string) ([]string, error) {
	cmd := exec.Command(path, args...)
	cmd.Stdin = strings.NewReader(strings.Join(lines, "\n") + "\n")
	cmd.Stderr = os.Stderr
	out, err := cmd.Output()
	if err != nil {
		return nil, err
	}
	res := strings.Split(strings.TrimRight(string(out), "\n"), "\n")
	if len(res) != len(lines) {
		return res, fmt.Errorf("oracle answered %d lines for %d inputs", len(res), len(lines))
	}
	return res, nil
}

// ---------------------------------------------------------------- small helpers

func Hex(b []byte) string { return hex.EncodeToString(b) }

// HexN renders bytes as a hex *number* (leading zeros stripped, "0" for zero) — the oracle's N syntax.
func HexN(b []byte) string {
	s := strings.TrimLeft(hex.EncodeToString(b), "0")
	if s == "" {
		return "0"
	}
	return s
}
func U(x uint64) string { return fmt.Sprintf("%x", x) }
func B(b bool) string {
	if b {
		return "1"
	}
	return "0"
}
func SortedKeys[M ~map[string]V, V any](m M) []string {
	ks := make([]string, 0, len(m))
	for k := range m {
		ks = append(ks, k)
	}
	sort.Strings(ks)
	return ks
}

// Fatal is for harness-internal failures (not property violations): exit 2.
func Fatal(format string, a ...any) {
	fmt.Fprintf(os.Stderr, "harness error: "+format+"\n", a...)
	os.Exit(2)
}
