package hx

import (
	"crypto/sha256"
	"encoding/json"
	"fmt"
	"os"
)

// MergeResult folds the result file a worker process wrote (Ctx.Finish with -out) into this context: evaluations,
// distinct / non-trivial counts (the worker's cases are distinct from every other shard's by construction: tag must be
// unique per worker), distribution, samples, violations and known-finding hits.  Used by drivers that shard a tier over
// sub-processes (bounded memory per process, parallel shards).
func (c *Ctx) MergeResult(path, tag string) error {
	b, err := os.ReadFile(path)
	if err != nil {
		return err
	}
	var r struct {
		Evaluations int            `json:"evaluations"`
		Nontrivial  int            `json:"distinct_nontrivial"`
		Distinct    int            `json:"distinct"`
		Samples     []any          `json:"samples"`
		Dist        map[string]int `json:"distribution"`
		Violations  []ViolationRec `json:"violations"`
		KnownHits   []string       `json:"known_findings_hit"`
	}
	if err := json.Unmarshal(b, &r); err != nil {
		return err
	}
	c.Cov.Evaluations += r.Evaluations
	key := func(kind string, i int) (k [16]byte) {
		h := sha256.Sum256([]byte(fmt.Sprintf("merged:%s:%s:%d", tag, kind, i)))
		copy(k[:], h[:16])
		return
	}
	for i := 0; i < r.Distinct; i++ {
		c.Cov.distinct[key("d", i)] = struct{}{}
	}
	for i := 0; i < r.Nontrivial; i++ {
		c.Cov.nontrivial[key("n", i)] = struct{}{}
	}
	for k, v := range r.Dist {
		c.Cov.Dist[k] += v
	}
	for _, s := range r.Samples {
		if len(c.Cov.Samples) < c.Cov.maxSamples {
			c.Cov.Samples = append(c.Cov.Samples, s)
		}
	}
next:
	for _, v := range r.Violations {
		for _, have := range c.Violations {
			if have.Class == v.Class {
				continue next
			}
		}
		c.Violations = append(c.Violations, v)
	}
nextHit:
	for _, h := range r.KnownHits {
		for _, have := range c.KnownHits {
			if have == h {
				continue nextHit
			}
		}
		c.KnownHits = append(c.KnownHits, h)
	}
	return nil
}
