package crashsim

import "verif/harness/internal/hx"

// Gen draws a scenario: a main chain over several epochs (some epochs with too few distinct signers to be justified,
// some non-COM votes), short side branches, transactions of four kinds (VET transfer, VTHO transfer with an event,
// contract deployment = code + new storage trie, contract call = storage update + log), duplicate deliveries and
// children delivered before their parent.
func Gen(r *hx.Rand, cfg Config, mainLen int) *Scenario {
	scn := &Scenario{L: cfg.L, N: cfg.N}
	tip := -1
	var mainIdx []int
	nonce := uint64(r.Intn(1 << 20))
	narrow := false
	rot := r.Intn(cfg.N)
	mkTxs := func() []TxSpec {
		var txs []TxSpec
		if !r.Chance(2, 5) {
			return nil
		}
		for n := r.Range(1, 3); n > 0; n-- {
			nonce++
			txs = append(txs, TxSpec{Kind: r.Intn(4), From: r.Intn(10), To: r.Intn(6), Nonce: nonce, Amount: uint64(r.Intn(1000))})
		}
		return txs
	}
	for len(mainIdx) < mainLen {
		height := len(mainIdx) + 1
		if uint32(height)%cfg.L == 0 {
			narrow = r.Chance(1, 5)
		}
		rot++
		p := rot % cfg.N
		if narrow {
			p = rot % 2
		}
		scn.Blocks = append(scn.Blocks, BlockSpec{Parent: tip, Proposer: p, COM: r.Chance(6, 7), Txs: mkTxs()})
		tip = len(scn.Blocks) - 1
		mainIdx = append(mainIdx, tip)
		// a side branch from a recent main block
		if r.Chance(1, 7) && len(mainIdx) > 1 {
			back := r.Range(1, min(6, len(mainIdx)-1))
			if r.Bool() {
				// prefer a side block that closes an epoch below the current tip (its CommitBlock writes a quality
				// record for a block that is neither best nor the highest)
				for bk := 2; bk <= min(2*int(cfg.L), len(mainIdx)-1); bk++ {
					if num := uint32(len(mainIdx) - bk + 1); num%cfg.L == cfg.L-1 {
						back = bk
						break
					}
				}
			}
			from := mainIdx[len(mainIdx)-1-back]
			ft := from
			for l := 1 + r.Intn(3)/2; l > 0; l-- {
				scn.Blocks = append(scn.Blocks, BlockSpec{Parent: ft, Proposer: r.Intn(cfg.N), COM: r.Bool(), Txs: mkTxs()})
				ft = len(scn.Blocks) - 1
			}
		}
	}
	for i := range scn.Blocks {
		// a child delivered before its parent (and again afterwards)
		if i+1 < len(scn.Blocks) && scn.Blocks[i+1].Parent == i && r.Chance(1, 12) {
			scn.Deliver = append(scn.Deliver, i+1)
		}
		scn.Deliver = append(scn.Deliver, i)
		if r.Chance(1, 10) {
			scn.Deliver = append(scn.Deliver, r.Intn(i+1)) // a block delivered twice
		}
	}
	return scn
}
