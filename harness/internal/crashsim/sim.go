package crashsim

import (
	"context"
	"fmt"
	"math/big"
	"os"
	"path/filepath"
	"time"

	"github.com/ethereum/go-ethereum/event"

	"github.com/vechain/thor/v2/bft"
	"github.com/vechain/thor/v2/block"
	"github.com/vechain/thor/v2/builtin"
	"github.com/vechain/thor/v2/chain"
	"github.com/vechain/thor/v2/cmd/thor/node"
	"github.com/vechain/thor/v2/comm"
	"github.com/vechain/thor/v2/consensus"
	"github.com/vechain/thor/v2/genesis"
	"github.com/vechain/thor/v2/logdb"
	"github.com/vechain/thor/v2/muxdb"
	"github.com/vechain/thor/v2/packer"
	"github.com/vechain/thor/v2/state"
	"github.com/vechain/thor/v2/thor"
	"github.com/vechain/thor/v2/tx"
	"github.com/vechain/thor/v2/txpool"

	"verif/harness/internal/hx"
)

// ---------------------------------------------------------------- world (genesis, validators) — one per process

type Config struct {
	N int    // validators (dev accounts)
	L uint32 // epoch length
}

type World struct {
	Cfg      Config
	Accounts []genesis.DevAccount
	FC       *thor.ForkConfig
	gene     *genesis.CustomGenesis
	built    *genesis.Genesis // built once per configuration: genesis.NewCustomNet opens a throw-away in-memory database per call and never closes it
	Launch   uint64
}

var worlds = map[Config]*World{}

// TheWorld selects the configuration for the scenarios that follow (thor.SetConfig is process-global, so scenarios
// of different configurations run one after the other; call it only while no node of another configuration is active).
func TheWorld(cfg Config) *World {
	thor.SetConfig(thor.Config{EpochLength: cfg.L})
	if w, ok := worlds[cfg]; ok {
		return w
	}
	fc := thor.NoFork
	fc.FINALITY = 0
	w := &World{Cfg: cfg, Accounts: genesis.DevAccounts()[:cfg.N], FC: &fc}
	bal, _ := new(big.Int).SetString("1000000000000000000000000000", 10)
	var auth []genesis.Authority
	var accounts []genesis.Account
	for _, acc := range genesis.DevAccounts() {
		accounts = append(accounts, genesis.Account{Address: acc.Address, Balance: (*genesis.HexOrDecimal256)(bal), Energy: (*genesis.HexOrDecimal256)(bal)})
	}
	for _, acc := range w.Accounts {
		auth = append(auth, genesis.Authority{MasterAddress: acc.Address, EndorsorAddress: acc.Address, Identity: thor.BytesToBytes32([]byte("master"))})
	}
	mbp := uint64(cfg.N)
	// launch far enough in the past that no generated block is a "future block" for time.Now()
	w.Launch = uint64(time.Now().Unix()) - 20*3600
	w.Launch -= w.Launch % 10
	w.gene = &genesis.CustomGenesis{LaunchTime: w.Launch, GasLimit: thor.InitialGasLimit, ForkConfig: w.FC, Authority: auth,
		Accounts: accounts, Params: genesis.Params{MaxBlockProposers: &mbp}}
	worlds[cfg] = w
	return w
}

// ---------------------------------------------------------------- a node over a recording engine

type nopPool struct{}

func (nopPool) Get(thor.Bytes32) *tx.Transaction       { return nil }
func (nopPool) Add(*tx.Transaction) error              { return nil }
func (nopPool) AddLocal(*tx.Transaction) error         { return nil }
func (nopPool) StrictlyAdd(*tx.Transaction) error      { return nil }
func (nopPool) Remove(thor.Bytes32, thor.Bytes32) bool { return false }
func (nopPool) Dump() tx.Transactions                  { return nil }
func (nopPool) Len() int                               { return 0 }
func (nopPool) Executables() tx.Transactions           { return nil }
func (nopPool) Fill(tx.Transactions)                   {}
func (nopPool) Close()                                 {}
func (nopPool) SubscribeTxEvent(chan *txpool.TxEvent) event.Subscription {
	return event.NewSubscription(func(q <-chan struct{}) error { <-q; return nil })
}

type nopComm struct{}

func (nopComm) Sync(context.Context, comm.HandleBlockStream) {}
func (nopComm) SubscribeBlock(chan *comm.NewBlockEvent) event.Subscription {
	return event.NewSubscription(func(q <-chan struct{}) error { <-q; return nil })
}
func (nopComm) BroadcastBlock(*block.Block) {}
func (nopComm) PeerCount() int              { return 1 }
func (nopComm) Synced() <-chan struct{}     { return make(chan struct{}) }

// Node is one real node: muxdb over a recording engine + repository + bft engine + cmd/thor/node.Node.
type Node struct {
	W       *World
	Eng     *RecEngine
	DB      *muxdb.MuxDB
	Repo    *chain.Repository
	Stater  *state.Stater
	BFT     *bft.Engine
	LogDB   *logdb.LogDB
	Node    *node.Node
	Genesis *block.Block
	Base    int // number of writes issued by genesis construction (cuts start here)
	logDir  string
	NoLogs  bool // run with Options.SkipLogs (crash images: the log db is a separate database, out of scope here)
	// BeforeCommit, if set, runs in the importing goroutine between repo.AddBlock (the block is published as best) and
	// bft.CommitBlock of every imported block: a window without any store write, in which a reader already observes the
	// new best block while its quality record does not exist yet (C20 runs a reader there).
	BeforeCommit func(h *block.Header)
}

// hookedBFT is the real engine behind the node's bft.Committer interface, with the BeforeCommit observer.
type hookedBFT struct {
	*bft.Engine
	n *Node
}

func (h hookedBFT) CommitBlock(header *block.Header, conflicts uint32, isPacking bool) error {
	if f := h.n.BeforeCommit; f != nil {
		f(header)
	}
	return h.Engine.CommitBlock(header, conflicts, isPacking)
}

// NewNode builds genesis on a fresh recording engine and starts a node on it.
func (w *World) NewNode(withCache bool) *Node {
	eng := NewRecEngine()
	n := &Node{W: w, Eng: eng}
	n.DB = w.openDB(eng, withCache)
	if w.built == nil {
		g, err := genesis.NewCustomNet(w.gene)
		if err != nil {
			hx.Fatal("genesis: %v", err)
		}
		w.built = g
	}
	builder := w.built
	n.Stater = state.NewStater(n.DB)
	gen, _, _, err := builder.Build(n.Stater)
	if err != nil {
		hx.Fatal("genesis build: %v", err)
	}
	n.Genesis = gen
	if err := n.open(); err != nil {
		hx.Fatal("node open: %v", err)
	}
	n.Base = eng.Len()
	return n
}

func (w *World) openDB(eng *RecEngine, withCache bool) *muxdb.MuxDB {
	if withCache {
		return muxdb.NewWithEngine(eng, &muxdb.Options{TrieNodeCacheSizeMB: 8, TrieCachedNodeTTL: 30,
			TrieHistPartitionFactor: 1, TrieDedupedPartitionFactor: 1})
	}
	return muxdb.NewWithEngine(eng, nil)
}

// Reopen runs what a process start runs on an existing store: chain.NewRepository, bft.NewEngine, node.New + maxBlockNum.
// An error is the restart failing (a C13 violation when the store is a crash image).
func (w *World) Reopen(eng *RecEngine, gen *block.Block, withCache bool) (*Node, error) {
	n := &Node{W: w, Eng: eng, Genesis: gen, NoLogs: true}
	n.DB = w.openDB(eng, withCache)
	n.Stater = state.NewStater(n.DB)
	if err := n.open(); err != nil {
		return nil, err
	}
	n.Base = eng.Len()
	return n, nil
}

func (n *Node) open() error {
	w := n.W
	repo, err := chain.NewRepository(n.DB, n.Genesis)
	if err != nil {
		return fmt.Errorf("NewRepository: %w", err)
	}
	n.Repo = repo
	master := w.Accounts[0]
	eng, err := bft.NewEngine(repo, n.DB, w.FC, master.Address)
	if err != nil {
		return fmt.Errorf("bft.NewEngine: %w", err)
	}
	n.BFT = eng
	if n.LogDB == nil && !n.NoLogs {
		// a file database as the node uses (WAL); the shared-cache memory database of logdb.NewMem answers
		// "database table is locked" to a reader that meets the writer
		dir, err := os.MkdirTemp("", "verif-logdb")
		if err != nil {
			return err
		}
		ldb, err := logdb.New(filepath.Join(dir, "logs.db"), false, 4)
		if err != nil {
			return err
		}
		n.LogDB = ldb
		n.logDir = dir
	}
	dir, _ := os.MkdirTemp("", "c13stash")
	os.RemoveAll(dir)
	n.Node = node.New(&node.Master{PrivateKey: master.PrivateKey}, repo, hookedBFT{eng, n}, n.Stater, n.LogDB, nopPool{}, dir, nopComm{}, w.FC,
		node.Options{TargetGasLimit: 10_000_000, SkipLogs: n.NoLogs},
		consensus.New(repo, n.Stater, w.FC),
		packer.New(repo, n.Stater, master.Address, &master.Address, w.FC, 10_000_000))
	return n.Node.VerifInit()
}

func (n *Node) Close() {
	n.Node.VerifClose()
	if n.LogDB != nil {
		// not waited for: database/sql blocks in Close while a log writer's transaction is still open
		// (a failed log write leaves one behind: commitBlock only logs "failed to write logs")
		done := make(chan struct{})
		go func(l *logdb.LogDB) { l.Close(); close(done) }(n.LogDB)
		select {
		case <-done:
		case <-time.After(2 * time.Second):
		}
		os.RemoveAll(n.logDir)
	}
	n.DB.Close()
}

// Import classes (stable, compared with the model).
const (
	ImpOK = iota
	ImpKnown
	ImpParentMissing
	ImpRejected
	ImpUnprocessable
	ImpOther
)

func (n *Node) Import(b *block.Block) (int, error) {
	_, err := n.Node.VerifProcessBlock(b)
	if err == nil {
		return ImpOK, nil
	}
	switch err.Error() {
	case "parent block is missing":
		return ImpParentMissing, nil
	case "block rejected by BFT engine":
		return ImpRejected, nil
	case "block temporary unprocessable":
		return ImpUnprocessable, nil
	}
	return ImpOther, err
}

// ---------------------------------------------------------------- block production (real packer on the node's own store)

// contract: runtime increments slot 0 and LOG0s the new value; the constructor stores 0x2a in slot 1.
var counterRuntime = []byte{0x60, 0x01, 0x60, 0x00, 0x54, 0x01, 0x80, 0x60, 0x00, 0x55, 0x60, 0x00, 0x52, 0x60, 0x20, 0x60, 0x00, 0xa0, 0x00}
var counterInit = append([]byte{0x60, 0x2a, 0x60, 0x01, 0x55, 0x60, 0x13, 0x60, 0x11, 0x60, 0x00, 0x39, 0x60, 0x13, 0x60, 0x00, 0xf3}, counterRuntime...)

// TxSpec is a generated transaction: kind 0 VET transfer, 1 VTHO transfer (event), 2 deploy counter, 3 call counter.
type TxSpec struct {
	Kind   int    `json:"k"`
	From   int    `json:"f"` // dev account index
	To     int    `json:"t"` // dev account index / synthetic address seed / contract index
	Nonce  uint64 `json:"n"`
	Amount uint64 `json:"a"`
}

// BlockSpec is a generated block: parent = index of an earlier block of the stream (-1 = genesis), proposer, COM bit.
type BlockSpec struct {
	Parent   int      `json:"p"`
	Proposer int      `json:"s"`
	COM      bool     `json:"com"`
	Txs      []TxSpec `json:"txs,omitempty"`
}

func syntheticAddr(seed int) thor.Address {
	return thor.BytesToAddress(thor.Blake2b([]byte(fmt.Sprintf("verif-c13-addr-%d", seed))).Bytes()[:20])
}

func (w *World) buildTx(tag byte, s TxSpec, contracts []thor.Address) *tx.Transaction {
	var clause *tx.Clause
	gas := uint64(60_000)
	switch s.Kind {
	case 0:
		to := syntheticAddr(s.To)
		clause = tx.NewClause(&to).WithValue(new(big.Int).SetUint64(s.Amount + 1))
	case 1:
		to := syntheticAddr(s.To)
		m, _ := builtin.Energy.ABI.MethodByName("transfer")
		data, err := m.EncodeInput(to, new(big.Int).SetUint64(s.Amount+1))
		if err != nil {
			hx.Fatal("abi: %v", err)
		}
		clause = tx.NewClause(&builtin.Energy.Address).WithData(data)
		gas = 120_000
	case 2:
		clause = tx.NewClause(nil).WithData(counterInit)
		gas = 300_000
	default:
		var to thor.Address
		if len(contracts) > 0 {
			to = contracts[s.To%len(contracts)]
		} else {
			to = syntheticAddr(s.To)
		}
		clause = tx.NewClause(&to)
		gas = 120_000
	}
	t := tx.NewBuilder(tx.TypeLegacy).ChainTag(tag).BlockRef(tx.NewBlockRef(0)).Expiration(100000).Nonce(s.Nonce).Gas(gas).Clause(clause).Build()
	return tx.MustSign(t, w.Accounts0()[s.From%len(w.Accounts0())].PrivateKey)
}

// Accounts0: every dev account can send transactions (all are funded at genesis).
func (w *World) Accounts0() []genesis.DevAccount { return genesis.DevAccounts() }

// Produce packs (does not store) a block on the given parent with the real packer, reading the node's store.
func (n *Node) Produce(parent *chain.BlockSummary, spec BlockSpec, contracts []thor.Address) (*block.Block, []thor.Address, error) {
	w := n.W
	acc := w.Accounts[spec.Proposer%len(w.Accounts)]
	p := packer.New(n.Repo, n.Stater, acc.Address, &acc.Address, w.FC, 10_000_000)
	flow, err := p.Schedule(parent, parent.Header.Timestamp()+thor.BlockInterval())
	if err != nil {
		return nil, nil, fmt.Errorf("schedule: %w", err)
	}
	var created []thor.Address
	for _, ts := range spec.Txs {
		t := w.buildTx(n.Repo.ChainTag(), ts, contracts)
		if err := flow.Adopt(t); err != nil {
			continue // not adoptable on this branch (duplicate, known tx ...): simply left out
		}
		if ts.Kind == 2 {
			created = append(created, thor.CreateContractAddress(t.ID(), 0, 0))
		}
	}
	conflicts, err := n.Repo.ScanConflicts(parent.Header.Number() + 1)
	if err != nil {
		return nil, nil, err
	}
	b, _, _, err := flow.Pack(acc.PrivateKey, conflicts, spec.COM)
	if err != nil {
		return nil, nil, fmt.Errorf("pack: %w", err)
	}
	return b, created, nil
}
