package crashsim

import (
	"crypto/sha256"
	"encoding/binary"
	"fmt"
	"sort"
	"strings"

	"github.com/vechain/thor/v2/block"
	"github.com/vechain/thor/v2/thor"

	"verif/harness/internal/hx"
)

// ---------------------------------------------------------------- canonical rendering of keys / values / batches (the oracle's syntax)

func d8(b []byte) string {
	if len(b) == 0 {
		return "0"
	}
	h := sha256.Sum256(b)
	return hx.HexN(h[:8])
}

func clsOf(space string) string {
	switch space {
	case SpNodeAccount:
		return "0"
	case SpNodeStorage:
		return "1"
	}
	return "2"
}

// KeyTok renders a parsed key as the oracle's key token.
func KeyTok(k KeyInfo) string {
	switch k.Space {
	case SpNodeAccount, SpNodeStorage, SpNodeIndex:
		return fmt.Sprintf("n:%s:%s:%x:%x", clsOf(k.Space), d8([]byte(k.Name+"|"+k.Path)), k.Major, k.Minor)
	case SpCode:
		return "c:" + hx.HexN([]byte(k.ID))
	case SpSummary:
		return "s:" + hx.HexN([]byte(k.ID))
	case SpTx:
		return fmt.Sprintf("t:%x:%x:%x", k.Major, k.Minor, k.Index)
	case SpReceipt:
		return fmt.Sprintf("r:%x:%x:%x", k.Major, k.Minor, k.Index)
	case SpTxMeta:
		return fmt.Sprintf("m:%s:%x:%x", hx.HexN([]byte(k.ID)), k.Major, k.Minor)
	case SpTxFilter:
		return "f:" + hx.HexN([]byte(k.ID))
	case SpHead:
		return "h:" + hx.HexN([]byte(k.ID))
	case SpBest:
		return "b"
	case SpQuality:
		return "q:" + hx.HexN([]byte(k.ID))
	case SpFinalized:
		return "z"
	}
	return "other"
}

func valTok(k KeyInfo, v []byte) string {
	switch k.Space {
	case SpSummary:
		return "S"
	case SpBest, SpFinalized:
		return "I" + hx.HexN(v)
	case SpQuality:
		if len(v) == 4 {
			return fmt.Sprintf("N%x", binary.BigEndian.Uint32(v))
		}
		return "N?" + hx.Hex(v)
	}
	return d8(v)
}

// RenderBatches renders recorded writes exactly as the oracle prints the model's.
func RenderBatches(ws []Batch) string {
	parts := make([]string, len(ws))
	for i, w := range ws {
		ops := make([]string, len(w.Ops))
		for j, op := range w.Ops {
			k := ParseKey(op.Key)
			if op.Del {
				ops[j] = "D" + KeyTok(k)
			} else {
				ops[j] = "P" + KeyTok(k) + "=" + valTok(k, op.Val)
			}
		}
		parts[i] = strings.Join(ops, " ")
	}
	return strings.Join(parts, " | ")
}

// Kinds is the sequence of batch kinds (key spaces), for coverage / messages.
func Kinds(ws []Batch) string {
	parts := make([]string, len(ws))
	for i, w := range ws {
		parts[i] = BatchKind(w)
	}
	return strings.Join(parts, " ")
}

// ---------------------------------------------------------------- block descriptors for the oracle

// Delivery is one block handed to the node, with everything observed on the uninterrupted run.
type Delivery struct {
	Block    *block.Block
	Stored   bool // the uninterrupted node stored it at this delivery
	Class    int  // Imp* class on the uninterrupted node
	From, To int  // its writes in the uninterrupted node's log (absolute indices)
	Line     string
	Kinds    string
	View     *BlockView
	FinAfter thor.Bytes32 // the uninterrupted node's finalized after this delivery
	Reach    map[string]bool
}

func nodeClass(space string) bool {
	return space == SpNodeAccount || space == SpNodeStorage || space == SpNodeIndex
}

// Describe builds the oracle descriptor of a block from what the uninterrupted node did with it:
// the recorded batches give the new trie nodes / code / blob digests, a traced full read gives the older nodes
// its roots still reach, the engine gives the vote tally outcome of its round.
func (n *Node) Describe(b *block.Block, ws []Batch, stored bool) (line string, reach map[string]bool, view *BlockView, err error) {
	h := b.Header()
	id := h.ID()
	var txSec, codeSec, accSec, idxSec []string
	var stoSecs []string
	written := map[string]bool{}
	reach = map[string]bool{}
	txBlob := map[uint64]string{}
	rcBlob := map[uint64]string{}
	txMeta := map[string]string{}
	for _, w := range ws {
		kind := BatchKind(w)
		var sec []string
		for _, op := range w.Ops {
			k := ParseKey(op.Key)
			written[string(op.Key)] = true
			switch k.Space {
			case SpCode:
				codeSec = append(codeSec, hx.HexN([]byte(k.ID)), d8(op.Val))
			case SpNodeAccount, SpNodeStorage, SpNodeIndex:
				sec = append(sec, d8([]byte(k.Name+"|"+k.Path)), d8(op.Val))
				reach[KeyTok(k)] = true
			case SpTx:
				txBlob[k.Index] = d8(op.Val)
			case SpReceipt:
				rcBlob[k.Index] = d8(op.Val)
			case SpTxMeta:
				txMeta[k.ID] = d8(op.Val)
			}
		}
		switch kind {
		case SpNodeAccount:
			accSec = sec
		case SpNodeIndex:
			idxSec = sec
		case SpNodeStorage:
			stoSecs = append(stoSecs, strings.Join(sec, " "))
		}
	}
	for i, t := range b.Transactions() {
		tid := t.ID()
		txSec = append(txSec, hx.HexN(tid[:]), orZero(txBlob[uint64(i)]), orZero(rcBlob[uint64(i)]), orZero(txMeta[string(tid[:])]))
	}
	just, comm := false, false
	var keepS, keepI []string
	if stored {
		sum, e := n.Repo.GetBlockSummary(id)
		if e != nil {
			return "", nil, nil, e
		}
		_, j, c, e := n.BFT.VerifState(sum)
		if e != nil {
			return "", nil, nil, e
		}
		just, comm = j, c
		n.Eng.StartTrace()
		view, err = n.ReadBlock(id)
		reads := n.Eng.StopTrace()
		if err != nil {
			return "", nil, nil, fmt.Errorf("uninterrupted node cannot read its own block: %w", err)
		}
		for rk := range reads {
			k := ParseKey([]byte(rk))
			if !nodeClass(k.Space) {
				continue
			}
			// a read that found nothing in the hist space is followed by a deduped-space read; only existing keys count
			if ok, _ := n.Eng.Has([]byte(rk)); !ok {
				continue
			}
			reach[KeyTok(k)] = true
			if written[rk] {
				continue
			}
			if k.Space == SpNodeIndex {
				keepI = append(keepI, KeyTok(k))
			} else {
				keepS = append(keepS, KeyTok(k))
			}
		}
	}
	sort.Strings(keepS)
	sort.Strings(keepI)
	parent := h.ParentID()
	secs := []string{
		strings.Join([]string{hx.HexN(id[:]), hx.HexN(parent[:]), hx.U(h.TotalScore()), hx.B(just), hx.B(comm)}, " "),
		"T " + strings.Join(txSec, " "),
		"C " + strings.Join(codeSec, " "),
		"S " + strings.Join(stoSecs, " ; "),
		"A " + strings.Join(accSec, " "),
		"N " + strings.Join(idxSec, " "),
		"K " + strings.Join(keepS, " "),
		"J " + strings.Join(keepI, " "),
	}
	return strings.Join(secs, " | "), reach, view, nil
}

func orZero(s string) string {
	if s == "" {
		return "0"
	}
	return s
}

// CanonWrites canonicalises a rendered write sequence so that behaviour-preserving rewrites do not disturb the comparison:
// inside one atomic batch only the last operation on a key counts and the order of operations is irrelevant; the batches of
// the state commit (code, storage tries, account trie — nothing refers to them before the block bulk) are compared as a set.
func CanonWrites(rendered string) string {
	if rendered == "" {
		return ""
	}
	batches := strings.Split(rendered, " | ")
	isState := func(b string) bool {
		for _, op := range strings.Fields(b) {
			k := op[1:]
			if !(strings.HasPrefix(k, "c:") || strings.HasPrefix(k, "n:0:") || strings.HasPrefix(k, "n:1:")) {
				return false
			}
		}
		return true
	}
	for i, b := range batches {
		last := map[string]string{}
		for _, op := range strings.Fields(b) {
			k := op[1:]
			if j := strings.Index(k, "="); j >= 0 {
				k = k[:j]
			}
			last[k] = op
		}
		ops := make([]string, 0, len(last))
		for _, op := range last {
			ops = append(ops, op)
		}
		sort.Strings(ops)
		batches[i] = strings.Join(ops, " ")
	}
	n := 0
	for n < len(batches) && isState(batches[n]) {
		n++
	}
	sort.Strings(batches[:n])
	return strings.Join(batches, " | ")
}
