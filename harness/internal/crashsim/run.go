package crashsim

import (
	"encoding/binary"
	"fmt"
	"runtime"
	"sort"
	"strings"
	"sync"

	"github.com/vechain/thor/v2/block"
	"github.com/vechain/thor/v2/thor"

	"verif/harness/internal/hx"
)

// Scenario is a replayable case: blocks produced in order on a builder node, then delivered in the given order.
type Scenario struct {
	L       uint32      `json:"L"`
	N       int         `json:"N"`
	Blocks  []BlockSpec `json:"blocks"`
	Deliver []int       `json:"deliver"`        // indices into Blocks; repeats and early deliveries allowed
	Cuts    []int       `json:"cuts,omitempty"` // restrict to these cut positions (writes kept after genesis); empty = every cut
}

// Finding is a property failure (or model/code disagreement) found on a scenario.
type Finding struct {
	Class   string
	Summary string
	Found   bool // the property predicate itself fails on the implementation
	Cut     int
}

// NodeObs is the canonical observable state of a node: best, finalized, quality record of every stored store-point block.
type NodeObs struct {
	Best, Fin string
	Tallies   string
}

func isStorePoint(num uint32) bool {
	L := thor.EpochLength()
	return num/L*L+L-1 == num
}

// Observe reads best / finalized from the node and the quality records from the store content.
func (n *Node) Observe() NodeObs {
	best := n.Repo.BestBlockSummary().Header.ID()
	fin := n.BFT.Finalized()
	return NodeObs{Best: hx.HexN(best[:]), Fin: hx.HexN(fin[:]), Tallies: TalliesOf(n.Eng.Dump())}
}

// TalliesOf lists id=quality for every stored store-point block (missing record = 0), sorted — the model's [tallies].
func TalliesOf(dump map[string]string) string {
	q := map[string]uint32{}
	var ids []string
	for k, v := range dump {
		ki := ParseKey([]byte(k))
		if ki.Space == SpQuality && len(v) == 4 {
			q[ki.ID] = binary.BigEndian.Uint32([]byte(v))
		}
	}
	for k := range dump {
		ki := ParseKey([]byte(k))
		if ki.Space == SpSummary && len(ki.ID) == 32 && isStorePoint(binary.BigEndian.Uint32([]byte(ki.ID)[:4])) {
			ids = append(ids, ki.ID)
		}
	}
	out := make([]string, len(ids))
	for i, id := range ids {
		out[i] = fmt.Sprintf("%s=%x", hx.HexN([]byte(id)), q[id])
	}
	sort.Strings(out)
	return strings.Join(out, ",")
}

func qualityRecords(dump map[string]string) map[string]uint32 {
	q := map[string]uint32{}
	for k, v := range dump {
		ki := ParseKey([]byte(k))
		if ki.Space == SpQuality && len(v) == 4 {
			q[ki.ID] = binary.BigEndian.Uint32([]byte(v))
		}
	}
	return q
}

func cutKind(kind string) string {
	switch {
	case strings.Contains(kind, SpSummary):
		return "block-bulk"
	case kind == SpQuality, kind == SpQuality+"+"+SpFinalized:
		return "quality" // the bft commit batch: quality record, with the finalized record when the round commits (one batch since the F13 repair)
	case kind == SpFinalized:
		return "finalized" // a finalized record written by itself: only in a tree without the F13 repair
	case kind == SpNodeIndex:
		return "index"
	case kind == "":
		return "none"
	}
	return "state"
}

// Run is the uninterrupted execution of a scenario plus everything needed to evaluate its cuts.
type Run struct {
	W          *World
	Scn        *Scenario
	Blocks     []*block.Block // produced blocks (nil: could not be produced)
	Contracts  []thor.Address
	U          *Node
	Deliveries []*Delivery
	Final      NodeObs
	FinSet     map[thor.Bytes32]bool // every finalized value the uninterrupted node ever held
	Views      map[thor.Bytes32]*BlockView
	Total      int // writes issued by the deliveries
	UQuality   map[string]uint32
	Preamble   []string // oracle lines G, I...
	Findings   []Finding
	Logs       *LogTrack // the log database of the uninterrupted node (logcut.go)
}

func (r *Run) fail(class, summary string, found bool, cut int) {
	r.Findings = append(r.Findings, Finding{Class: class, Summary: summary, Found: found, Cut: cut})
}

// Build produces the blocks on a builder node and delivers them to the uninterrupted node, recording its writes.
func Build(w *World, scn *Scenario) (*Run, error) {
	r := &Run{W: w, Scn: scn, FinSet: map[thor.Bytes32]bool{}, Views: map[thor.Bytes32]*BlockView{}}
	r.Blocks, r.Contracts = ProduceAll(w, scn)

	u := w.NewNode(false)
	r.U = u
	gl, _, gv, err := u.Describe(u.Genesis, u.Eng.Log(0, u.Base), true)
	if err != nil {
		return nil, err
	}
	r.Views[u.Genesis.Header().ID()] = gv
	r.Preamble = append(r.Preamble, fmt.Sprintf("G %x | %s", w.Cfg.L, gl))
	r.FinSet[u.BFT.Finalized()] = true
	r.Logs = &LogTrack{}
	logNow := func() string {
		snap, err := u.LogSnapshot()
		if err != nil {
			hx.Fatal("log db snapshot: %v", err)
		}
		dump, err := u.LogDump()
		if err != nil {
			hx.Fatal("log db dump: %v", err)
		}
		r.Logs.Snaps = append(r.Logs.Snaps, snap)
		r.Logs.Dumps = append(r.Logs.Dumps, dump)
		return dump
	}
	lastDump := logNow()
	for _, idx := range scn.Deliver {
		if idx < 0 || idx >= len(r.Blocks) || r.Blocks[idx] == nil {
			continue
		}
		b := r.Blocks[idx]
		id := b.Header().ID()
		_, errBefore := u.Repo.GetBlockSummary(id)
		d := &Delivery{Block: b, From: u.Eng.Len()}
		finishLogs := r.trackLogs(u, lastDump)
		cls, err := u.Import(b)
		logPos, logProblems := finishLogs()
		if err != nil {
			return nil, fmt.Errorf("uninterrupted import of block %d: %w", idx, err)
		}
		d.To = u.Eng.Len()
		r.Logs.Commit = append(r.Logs.Commit, logPos)
		for _, p := range logProblems {
			r.Logs.Problems = append(r.Logs.Problems, fmt.Sprintf("delivery %d (block #%d): %s", len(r.Deliveries), b.Header().Number(), p))
		}
		lastDump = logNow()
		_, errAfter := u.Repo.GetBlockSummary(id)
		d.Stored = errBefore != nil && errAfter == nil
		if errBefore == nil {
			cls = ImpKnown
		}
		d.Class = cls
		ws := u.Eng.Log(d.From, d.To)
		d.Kinds = Kinds(ws)
		d.Line, d.Reach, d.View, err = u.Describe(b, ws, d.Stored)
		if err != nil {
			return nil, err
		}
		if d.Stored {
			r.Views[id] = d.View
		}
		d.FinAfter = u.BFT.Finalized()
		r.FinSet[d.FinAfter] = true
		r.Deliveries = append(r.Deliveries, d)
		r.Preamble = append(r.Preamble, "I "+d.Line)
	}
	r.Total = u.Eng.Len() - u.Base
	r.Final = u.Observe()
	r.UQuality = qualityRecords(u.Eng.Dump())
	return r, nil
}

// CutPos describes a cut position: the delivery it interrupts and the kinds of the batches around it.
type CutPos struct {
	K        int // writes kept (after genesis)
	Delivery int // index of the delivery whose writes contain position K (len(Deliveries) if K == Total)
	Prev     string
	Next     string
}

func (r *Run) Pos(k int) CutPos {
	abs := r.U.Base + k
	for i, d := range r.Deliveries {
		if abs < d.To {
			p := CutPos{K: k, Delivery: i, Prev: "boundary"}
			kinds := strings.Fields(d.Kinds)
			if abs > d.From {
				p.Prev = cutKind(kinds[abs-d.From-1])
			}
			p.Next = cutKind(kinds[abs-d.From])
			return p
		}
	}
	return CutPos{K: k, Delivery: len(r.Deliveries), Prev: "boundary", Next: "none"}
}

func (p CutPos) Class() string { return "after-" + p.Prev + ":before-" + p.Next }

// CutResult is what the real code does at one cut.
type CutResult struct {
	Pos        CutPos
	RestartErr string
	Best, Fin  string
	Readable   bool
	Resumed    NodeObs
	Sibling    bool // the orphan scenario (a sibling delivered first) was exercised at this cut
	ExtraSet   bool // the resumed node stored a block the uninterrupted node never stored (the model has no data for it)
	Findings   []Finding
}

// EvalCut crashes the uninterrupted run after k writes, restarts the real repository + engine + node on the image,
// reads the best block completely, resumes the deliveries and evaluates the property's predicates.
func (r *Run) EvalCut(k int) *CutResult {
	pos := r.Pos(k)
	res := &CutResult{Pos: pos}
	bad := func(class, msg string) {
		res.Findings = append(res.Findings, Finding{Class: class + ":" + pos.Class(), Summary: fmt.Sprintf("cut %d (%s): %s", k, pos.Class(), msg), Found: true, Cut: k})
	}
	eng := FromLog(r.U.Eng.Log(0, r.U.Base+k))
	n, err := r.W.Reopen(eng, r.U.Genesis, false)
	if err != nil {
		res.RestartErr = err.Error()
		bad("restart-fails", err.Error())
		eng.Close()
		return res
	}
	defer n.Close()
	image := eng.Dump()
	best := n.Repo.BestBlockSummary().Header.ID()
	fin := n.BFT.Finalized()
	res.Best, res.Fin = hx.HexN(best[:]), hx.HexN(fin[:])
	// (1) best block completely readable and identical to what the uninterrupted node read for the same block
	v, err := n.ReadBlock(best)
	if err != nil {
		bad("best-unreadable", err.Error())
	} else {
		res.Readable = true
		if ref := r.Views[best]; ref == nil {
			bad("best-unknown", "best block after restart was never stored by the uninterrupted node")
		} else if *ref != *v {
			bad("best-inconsistent", fmt.Sprintf("content differs from the uninterrupted node's: %+v vs %+v", *v, *ref))
		}
	}
	// (2) finality data never contradict the uninterrupted node's
	if !r.FinSet[fin] {
		bad("finalized-unknown", fmt.Sprintf("finalized %x was never held by the uninterrupted node", fin[:6]))
	} else if _, err := n.ReadBlock(fin); err != nil {
		bad("finalized-unreadable", err.Error())
	}
	for id, q := range qualityRecords(image) {
		if uq, ok := r.UQuality[id]; !ok || uq != q {
			bad("quality-contradicts", fmt.Sprintf("record %x=%d, uninterrupted node holds %d (present %v)", []byte(id)[:6], q, uq, ok))
		}
		if _, ok := image[string(append(append([]byte{2}, "chain.hdr"...), id...))]; !ok {
			bad("quality-dangling", fmt.Sprintf("quality record of %x without the block", []byte(id)[:6]))
		}
	}
	// (3) resume the stream from the interrupted delivery
	var diverges []string
	for i := pos.Delivery; i < len(r.Deliveries); i++ {
		d := r.Deliveries[i]
		if _, err := n.Import(d.Block); err != nil {
			// the node reports the error and goes on with the next block of the stream (the block itself is stored)
			diverges = append(diverges, fmt.Sprintf("import error at delivery %d (block #%d): %v", i, d.Block.Header().Number(), err))
		}
	}
	res.Resumed = n.Observe()
	final := n.Eng.Dump()
	for k := range final {
		ki := ParseKey([]byte(k))
		if ki.Space == SpSummary {
			if _, ok := r.Views[thor.BytesToBytes32([]byte(ki.ID))]; !ok {
				res.ExtraSet = true
			}
		}
	}
	if res.Resumed.Best != r.Final.Best {
		diverges = append(diverges, fmt.Sprintf("best %s, uninterrupted %s", short(res.Resumed.Best), short(r.Final.Best)))
	}
	rq := qualityRecords(final)
	var diffs []string
	for id, uq := range r.UQuality {
		if q, ok := rq[id]; !ok || q != uq {
			diffs = append(diffs, fmt.Sprintf("#%d:%d/%d", binary.BigEndian.Uint32([]byte(id)[:4]), q, uq))
		}
	}
	if len(diffs) > 0 {
		sort.Strings(diffs)
		diverges = append(diverges, "store-point qualities (block:resumed/uninterrupted) "+strings.Join(diffs, " "))
	}
	if res.Resumed.Fin != r.Final.Fin {
		// no lag is tolerated: the quality and the finalized record are one batch (F13 repair), theorem resume_converges
		diverges = append(diverges, fmt.Sprintf("finalized %s, uninterrupted %s", short(res.Resumed.Fin), short(r.Final.Fin)))
	}
	if res.ExtraSet {
		diverges = append(diverges, "the resumed node stored a block the uninterrupted node never stored")
	}
	if len(diverges) > 0 {
		bad("resume-diverges", strings.Join(diverges, "; "))
	}
	// (4) orphans: when the cut left trie nodes of the interrupted block behind (block bulk not written), deliver first a
	// DIFFERENT block of the same height that the image does not hold (it is given the same (number, conflicts) version and
	// overwrites / ignores the leftovers), then the interrupted block: every block must read back exactly as before
	if pos.Delivery < len(r.Deliveries) && pos.Prev != "boundary" && (pos.Next == "state" || pos.Next == "index" || pos.Next == "block-bulk") {
		cur := r.Deliveries[pos.Delivery].Block
		var sib *block.Block
		for _, b := range r.Blocks {
			if b == nil || b.Header().Number() != cur.Header().Number() || b.Header().ID() == cur.Header().ID() {
				continue
			}
			hasKey := func(id thor.Bytes32) bool {
				_, ok := image[string(append(append([]byte{2}, "chain.hdr"...), id[:]...))]
				return ok
			}
			if !hasKey(b.Header().ID()) && hasKey(b.Header().ParentID()) {
				sib = b
				break
			}
		}
		if sib != nil {
			res.Sibling = true
			eng2 := FromLog(r.U.Eng.Log(0, r.U.Base+k))
			if n2, err := r.W.Reopen(eng2, r.U.Genesis, false); err == nil {
				stored := func() {
					for key := range n2.Eng.Dump() {
						ki := ParseKey([]byte(key))
						if ki.Space != SpSummary {
							continue
						}
						id := thor.BytesToBytes32([]byte(ki.ID))
						v, err := n2.ReadBlock(id)
						if err != nil {
							bad("orphans-harm", fmt.Sprintf("after a sibling took the leftovers' version, block #%d: %v", block.Number(id), err))
						} else if ref := r.Views[id]; ref != nil && *ref != *v {
							bad("orphans-harm", fmt.Sprintf("after a sibling took the leftovers' version, block #%d reads differently: %+v vs %+v", block.Number(id), *v, *ref))
						}
					}
				}
				if cls, err := n2.Import(sib); err == nil && cls == ImpOK {
					stored()
					n2.Import(cur)
					stored()
				}
				n2.Close()
			} else {
				eng2.Close()
			}
		}
	}
	return res
}

func short(s string) string {
	if len(s) > 14 {
		return s[:14]
	}
	return s
}

// Cuts lists the cut positions to evaluate.
func (r *Run) Cuts() []int {
	if len(r.Scn.Cuts) > 0 {
		var out []int
		for _, k := range r.Scn.Cuts {
			if k >= 0 && k <= r.Total {
				out = append(out, k)
			}
		}
		return out
	}
	out := make([]int, r.Total+1)
	for i := range out {
		out[i] = i
	}
	return out
}

// EvalCuts evaluates the given cuts on all cores.
func (r *Run) EvalCuts(cuts []int) []*CutResult {
	out := make([]*CutResult, len(cuts))
	var wg sync.WaitGroup
	sem := make(chan struct{}, runtime.NumCPU())
	for i, k := range cuts {
		wg.Add(1)
		sem <- struct{}{}
		go func(i, k int) {
			defer wg.Done()
			defer func() { <-sem }()
			out[i] = r.EvalCut(k)
		}(i, k)
	}
	wg.Wait()
	return out
}

// OracleCuts asks the model, sharded over processes, for restart (X) and resume (R) at the given cuts.
func (r *Run) OracleCuts(oracle string, rep bool, cuts []int, resumeOf func(k int) bool) (x map[int]string, res map[int]string, first []string, err error) {
	shards := runtime.NumCPU()
	if shards > len(cuts) {
		shards = len(cuts)
	}
	if shards < 1 {
		shards = 1
	}
	x, res = map[int]string{}, map[int]string{}
	type job struct {
		lines []string
		keys  []string
	}
	jobs := make([]job, shards)
	for s := range jobs {
		jobs[s].lines = append([]string{}, r.Preamble...)
	}
	jobs[0].lines = append(jobs[0].lines, "U", "S", "Q")
	for i, k := range cuts {
		j := &jobs[i%shards]
		j.lines = append(j.lines, fmt.Sprintf("X %s %d", hx.B(rep), k))
		j.keys = append(j.keys, fmt.Sprintf("X%d", k))
		if resumeOf(k) {
			j.lines = append(j.lines, fmt.Sprintf("R %s %d %d", hx.B(rep), k, r.Pos(k).Delivery))
			j.keys = append(j.keys, fmt.Sprintf("R%d", k))
		}
	}
	outs := make([][]string, shards)
	errs := make([]error, shards)
	var wg sync.WaitGroup
	for s := range jobs {
		wg.Add(1)
		go func(s int) {
			defer wg.Done()
			outs[s], errs[s] = hx.AskAll(oracle, jobs[s].lines)
		}(s)
	}
	wg.Wait()
	for s := range jobs {
		if errs[s] != nil {
			return nil, nil, nil, errs[s]
		}
		base := len(r.Preamble)
		if s == 0 {
			first = outs[0][:base+3]
			base += 3
		}
		for i, key := range jobs[s].keys {
			var k int
			fmt.Sscanf(key[1:], "%d", &k)
			if key[0] == 'X' {
				x[k] = outs[s][base+i]
			} else {
				res[k] = outs[s][base+i]
			}
		}
	}
	return x, res, first, nil
}
