package crashsim

import (
	"bytes"
	"fmt"
	"net/http"
	"net/http/httptest"

	"github.com/gorilla/mux"

	"github.com/vechain/thor/v2/api/accounts"
	"github.com/vechain/thor/v2/api/blocks"
	"github.com/vechain/thor/v2/api/events"
	"github.com/vechain/thor/v2/api/transfers"
	"github.com/vechain/thor/v2/block"
	"github.com/vechain/thor/v2/chain"
	"github.com/vechain/thor/v2/thor"
)

// API mounts the real read-only REST handlers (accounts incl. call simulation, blocks, event and transfer log
// filters) of a node on a router; requests are served in-process.
type API struct {
	n      *Node
	router *mux.Router
}

func (n *Node) NewAPI() *API {
	r := mux.NewRouter()
	accounts.New(n.Repo, n.Stater, 10_000_000, 1<<20, n.W.FC, n.BFT, true).Mount(r, "/accounts")
	blocks.New(n.Repo, n.BFT).Mount(r, "/blocks")
	if n.LogDB != nil {
		events.New(n.Repo, n.LogDB, 1000, 100000, 10).Mount(r, "/logs/event")
		transfers.New(n.Repo, n.LogDB, 1000, 100000, 10).Mount(r, "/logs/transfer")
	}
	return &API{n: n, router: r}
}

func (a *API) do(method, path, body string) (int, string) {
	req := httptest.NewRequest(method, path, bytes.NewBufferString(body))
	if body != "" {
		req.Header.Set("Content-Type", "application/json")
	}
	rec := httptest.NewRecorder()
	a.router.ServeHTTP(rec, req)
	return rec.Code, rec.Body.String()
}

// Queries issues the read-only operations of the public API at the given revision ("best", "justified", "finalized"
// or a block id) for an account, a contract (code, storage) and a call simulation, plus the log filters.
// It returns the first unexpected answer.
func (a *API) Queries(revision string, account thor.Address, contract *thor.Address) error {
	rev := "?revision=" + revision
	steps := []struct{ method, path, body string }{
		{http.MethodGet, "/accounts/" + account.String() + rev, ""},
	}
	// GET /blocks/{id} answers 500 "not found" for a stored side-chain block whose number is above the best block's
	// (isTrunk looks the number up on the best chain) — not a visibility matter, so block queries use the named revisions only
	if revision == "best" || revision == "justified" || revision == "finalized" {
		steps = append(steps, struct{ method, path, body string }{http.MethodGet, "/blocks/" + revision + "?expanded=true", ""})
	}
	if contract != nil {
		steps = append(steps,
			struct{ method, path, body string }{http.MethodGet, "/accounts/" + contract.String() + "/code" + rev, ""},
			struct{ method, path, body string }{http.MethodGet, "/accounts/" + contract.String() + "/storage/0x0000000000000000000000000000000000000000000000000000000000000000" + rev, ""},
			struct{ method, path, body string }{http.MethodPost, "/accounts/*" + rev,
				fmt.Sprintf(`{"clauses":[{"to":"%s","value":"0x0","data":"0x"},{"to":null,"value":"0x0","data":"0x602a60015500"}],"gas":400000,"caller":"%s"}`, contract.String(), account.String())},
		)
	}
	if a.n.LogDB != nil {
		steps = append(steps,
			struct{ method, path, body string }{http.MethodPost, "/logs/event", `{"range":{"unit":"block","from":0,"to":100000},"options":{"offset":0,"limit":200},"order":"asc"}`},
			struct{ method, path, body string }{http.MethodPost, "/logs/transfer", `{"range":{"unit":"block","from":0,"to":100000},"options":{"offset":0,"limit":200},"order":"desc"}`},
		)
	}
	for _, s := range steps {
		code, body := a.do(s.method, s.path, s.body)
		if code != http.StatusOK {
			return fmt.Errorf("%s %s -> %d %s", s.method, s.path, code, body)
		}
		if s.method == http.MethodGet && (body == "null\n" || body == "null") {
			return fmt.Errorf("%s %s -> null", s.method, s.path)
		}
	}
	return nil
}

// ProduceAll produces the scenario's blocks in order on a private builder node (real packer).
func ProduceAll(w *World, scn *Scenario) ([]*block.Block, []thor.Address) {
	builder := w.NewNode(false)
	defer builder.Close()
	var contracts []thor.Address
	out := make([]*block.Block, len(scn.Blocks))
	for i, spec := range scn.Blocks {
		var parent *chain.BlockSummary
		if spec.Parent < 0 {
			parent, _ = builder.Repo.GetBlockSummary(builder.Genesis.Header().ID())
		} else if spec.Parent < i && out[spec.Parent] != nil {
			parent, _ = builder.Repo.GetBlockSummary(out[spec.Parent].Header().ID())
		}
		if parent == nil {
			continue
		}
		b, created, err := builder.Produce(parent, spec, contracts)
		if err != nil {
			continue
		}
		if cls, err := builder.Import(b); err != nil || cls != ImpOK {
			continue
		}
		contracts = append(contracts, created...)
		out[i] = b
	}
	return out, contracts
}
