// resync.go — the REAL start-up re-sync of the log database (cmd/thor/sync_logdb.go syncLogDB, package main) on the state a
// stop between the log commit and repo.AddBlock leaves (model: coq/Crash/LogCrash.v resync_after_log_commit): the repository
// holds the blocks stored before the interrupted import, the log database additionally holds the rows of the interrupted
// block.  Run inside cmd/thor's own test binary (hook cmd/thor/verif_hooks_crashlog_test.go, build tag verif); afterwards the
// tables must be exactly the logs of the repository's canonical chain (= the uninterrupted node's tables before that import).
package crashsim

import (
	"encoding/hex"
	"encoding/json"
	"fmt"
	"os"
	"os/exec"
	"path/filepath"
	"strings"
	"time"

	"github.com/ethereum/go-ethereum/rlp"
	"github.com/vechain/thor/v2/block"
	"github.com/vechain/thor/v2/logdb"
	"github.com/vechain/thor/v2/thor"
)

type hookBlock struct {
	Block     string `json:"b"`
	Receipts  string `json:"r"`
	Conflicts uint32 `json:"c"`
	Best      bool   `json:"best"`
}

type resyncCase struct {
	Genesis string      `json:"genesis"`
	Stored  []hookBlock `json:"stored"`
	Logged  []hookBlock `json:"logged"`
	Pre     []int       `json:"pre"`
}

type resyncResult struct {
	Fatal     string            `json:"fatal,omitempty"`
	SyncErr   string            `json:"sync_err,omitempty"`
	Events    []*logdb.Event    `json:"events"`
	Transfers []*logdb.Transfer `json:"transfers"`
}

// ResyncBin is cmd/thor's test binary built against the tree under test.
type ResyncBin struct {
	Path, Dir, BuildErr string
}

func BuildResyncBin(dir string) *ResyncBin {
	os.MkdirAll(dir, 0o755)
	// one binary per process: concurrent runs of the same check (different seeds / tiers) must not delete each other's binary
	if old, _ := filepath.Glob(filepath.Join(dir, "thor-crashlog-*.test")); old != nil {
		for _, f := range old {
			if st, err := os.Stat(f); err == nil && time.Since(st.ModTime()) > 30*time.Minute {
				os.Remove(f)
			}
		}
	}
	rb := &ResyncBin{Path: filepath.Join(dir, fmt.Sprintf("thor-crashlog-%d.test", os.Getpid())), Dir: dir}
	os.Remove(rb.Path)
	repo := os.Getenv("VERIF_REPO")
	if repo == "" {
		repo = "/repo"
	}
	cmd := exec.Command("go", "test", "-c", "-tags", "verif", "-o", rb.Path, "./cmd/thor")
	cmd.Dir = repo
	cmd.Env = append(os.Environ(), "GOFLAGS=-mod=mod", "GOPROXY=off")
	if out, err := cmd.CombinedOutput(); err != nil {
		rb.BuildErr = fmt.Sprintf("%v: %s", err, tailOf(string(out), 1200))
	} else if _, e := os.Stat(rb.Path); e != nil {
		rb.BuildErr = "go test -c produced no binary"
	}
	return rb
}

func tailOf(s string, n int) string {
	if len(s) > n {
		return s[len(s)-n:]
	}
	return s
}

func rlpHex(v any) string {
	b, err := rlp.EncodeToBytes(v)
	if err != nil {
		return ""
	}
	return hex.EncodeToString(b)
}

// ResyncOutcome is the evaluation of one log-commit cut with the real syncLogDB.
type ResyncOutcome struct {
	K        int
	Findings []Finding
	Ran      bool
}

// EvalResyncs builds, for every import of the run that changed the log tables, the state "log transaction committed,
// AddBlock not done", hands the batch to the real syncLogDB and compares the tables with the canonical chain's.
func (r *Run) EvalResyncs(rb *ResyncBin) ([]*ResyncOutcome, error) {
	u := r.U
	hb := func(d *Delivery) (hookBlock, error) {
		id := d.Block.Header().ID()
		sum, err := u.Repo.GetBlockSummary(id)
		if err != nil {
			return hookBlock{}, err
		}
		rcs, err := u.Repo.GetBlockReceipts(id)
		if err != nil {
			return hookBlock{}, err
		}
		return hookBlock{Block: rlpHex(d.Block), Receipts: rlpHex(rcs), Conflicts: sum.Conflicts, Best: strings.Contains(d.Kinds, SpBest)}, nil
	}
	var cases []resyncCase
	var outs []*ResyncOutcome
	var wants []string
	gen := rlpHex(u.Genesis)
	for i, d := range r.Deliveries {
		if r.Logs == nil || r.Logs.Commit[i] < 0 || !d.Stored {
			continue
		}
		c := resyncCase{Genesis: gen}
		index := map[thor.Bytes32]int{}
		ok := true
		for j := 0; j < i; j++ {
			if !r.Deliveries[j].Stored {
				continue
			}
			b, err := hb(r.Deliveries[j])
			if err != nil {
				ok = false
				break
			}
			index[r.Deliveries[j].Block.Header().ID()] = len(c.Stored)
			c.Stored = append(c.Stored, b)
		}
		b, err := hb(d)
		if err != nil || !ok {
			continue
		}
		c.Logged = []hookBlock{b}
		// the tables after the interrupted import's log transaction: the rows of the chain of the new block, oldest first
		var path []int
		for id := d.Block.Header().ParentID(); block.Number(id) > 0; {
			j, found := index[id]
			if !found {
				ok = false
				break
			}
			path = append([]int{j}, path...)
			sum, err := u.Repo.GetBlockSummary(id)
			if err != nil {
				ok = false
				break
			}
			id = sum.Header.ParentID()
		}
		if !ok {
			continue
		}
		c.Pre = append(path, len(c.Stored))
		cases = append(cases, c)
		outs = append(outs, &ResyncOutcome{K: d.From + r.Logs.Commit[i] - u.Base})
		wants = append(wants, r.Logs.Dumps[i]) // the uninterrupted node's tables before delivery i
	}
	if len(cases) == 0 {
		return nil, nil
	}
	in, err := os.CreateTemp(rb.Dir, "crashlog-in-*.json")
	if err != nil {
		return nil, err
	}
	defer os.Remove(in.Name())
	outPath := in.Name() + ".out"
	defer os.Remove(outPath)
	raw, _ := json.Marshal(cases)
	in.Write(raw)
	in.Close()
	cmd := exec.Command(rb.Path, "-test.run", "^TestVerifCrashLogDB$", "-test.timeout", "600s")
	cmd.Dir = rb.Dir
	cmd.Env = append(os.Environ(), "VERIF_CRASHLOG_IN="+in.Name(), "VERIF_CRASHLOG_OUT="+outPath)
	if out, err := cmd.CombinedOutput(); err != nil {
		return nil, fmt.Errorf("test binary failed: %v: %s", err, tailOf(string(out), 1500))
	}
	res, err := os.ReadFile(outPath)
	if err != nil {
		return nil, fmt.Errorf("test binary wrote no result (is TestVerifCrashLogDB still there?): %v", err)
	}
	var results []resyncResult
	if err := json.Unmarshal(res, &results); err != nil {
		return nil, err
	}
	if len(results) != len(cases) {
		return nil, fmt.Errorf("%d results for %d cases", len(results), len(cases))
	}
	for i, rr := range results {
		o := outs[i]
		bad := func(class, msg string, found bool) {
			o.Findings = append(o.Findings, Finding{Class: class, Summary: fmt.Sprintf("cut %d (log transaction committed, AddBlock not done), real syncLogDB at start: %s", o.K, msg), Found: found, Cut: o.K})
		}
		switch {
		case rr.Fatal != "":
			bad("resync-hook-inputs", "the hook could not build its inputs: "+rr.Fatal, false)
		case rr.SyncErr != "":
			o.Ran = true
			bad("resync-fails", "syncLogDB returns an error: "+rr.SyncErr, true)
		default:
			o.Ran = true
			if got := RenderLogs(rr.Events, rr.Transfers); got != wants[i] {
				bad("logdb-not-canonical-after-resync", "the tables are not the logs of the repository's canonical chain: "+diffLines(got, wants[i]), true)
			}
		}
	}
	return outs, nil
}
