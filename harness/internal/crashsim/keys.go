package crashsim

import (
	"encoding/binary"
	"fmt"
	"strings"
)

// Key spaces (the model's key constructors).
const (
	SpNodeAccount = "na" // account-trie node
	SpNodeStorage = "ns" // storage-trie node
	SpNodeIndex   = "ni" // index-trie node
	SpCode        = "code"
	SpSummary     = "sum"
	SpTx          = "tx"
	SpReceipt     = "rc"
	SpTxMeta      = "txm"
	SpTxFilter    = "txf"
	SpHead        = "head"
	SpBest        = "best"
	SpQuality     = "q"
	SpFinalized   = "fin"
	SpOther       = "other"
)

// KeyInfo is the parsed form of a raw engine key.
type KeyInfo struct {
	Space string
	Major uint32 // node version / block number of tx, receipt
	Minor uint32 // node version minor / conflicts
	Name  string // trie name (nodes)
	Path  string // encoded node path (nodes)
	ID    string // block id / tx id / code hash (raw bytes)
	Index uint64 // tx / receipt index
}

func uvarint(b []byte) (uint64, int) {
	v, n := binary.Uvarint(b)
	if n <= 0 {
		return 0, 0
	}
	return v, n
}

// pathLen returns the length of the encoded node path at the start of b (see muxdb appendNodePath).
func pathLen(b []byte) int {
	i := 0
	for i+1 < len(b) {
		lo := b[i+1] & 0x0f
		if lo == 0 || lo == 1 {
			return i + 2
		}
		if b[i]&0x10 == 0 {
			return i + 2
		}
		i += 2
	}
	return -1
}

// ParseKey classifies a raw key of the muxdb engine (partition factors 1, as NewMem / NewWithEngine(nil) use).
func ParseKey(k []byte) KeyInfo {
	if len(k) == 0 {
		return KeyInfo{Space: SpOther}
	}
	switch k[0] {
	case 0: // trie hist space: 00 | major(4) | name | path | [minor uvarint]
		if len(k) < 6 {
			break
		}
		ki := KeyInfo{Major: binary.BigEndian.Uint32(k[1:5])}
		rest := k[5:]
		nameLen := 1
		switch rest[0] {
		case 'a':
			ki.Space = SpNodeAccount
		case 'i':
			ki.Space = SpNodeIndex
		case 's':
			ki.Space = SpNodeStorage
			// storage id = major(4) | uvarint minor | uvarint count
			if len(rest) < 7 {
				return KeyInfo{Space: SpOther}
			}
			p := 1 + 4
			_, n1 := uvarint(rest[p:])
			_, n2 := uvarint(rest[p+n1:])
			if n1 == 0 || n2 == 0 {
				return KeyInfo{Space: SpOther}
			}
			nameLen = p + n1 + n2
		default:
			return KeyInfo{Space: SpOther}
		}
		ki.Name = string(rest[:nameLen])
		rest = rest[nameLen:]
		pl := pathLen(rest)
		if pl < 0 {
			return KeyInfo{Space: SpOther}
		}
		ki.Path = string(rest[:pl])
		rest = rest[pl:]
		if len(rest) > 0 {
			v, n := uvarint(rest)
			if n != len(rest) {
				return KeyInfo{Space: SpOther}
			}
			ki.Minor = uint32(v)
		}
		return ki
	case 2: // named store space
		s := string(k[1:])
		switch {
		case strings.HasPrefix(s, "chain.hdr"):
			return KeyInfo{Space: SpSummary, ID: s[len("chain.hdr"):]}
		case strings.HasPrefix(s, "chain.body"):
			r := []byte(s[len("chain.body"):])
			if len(r) < 6 {
				break
			}
			ki := KeyInfo{Major: binary.BigEndian.Uint32(r[:4])}
			c, n := uvarint(r[4:])
			if n == 0 || 4+n >= len(r) {
				break
			}
			ki.Minor = uint32(c)
			flag := r[4+n]
			idx, n2 := uvarint(r[4+n+1:])
			if n2 == 0 {
				break
			}
			ki.Index = idx
			if flag == 0 {
				ki.Space = SpTx
			} else {
				ki.Space = SpReceipt
			}
			return ki
		case strings.HasPrefix(s, "chain.props"):
			if s[len("chain.props"):] == "best-block-id" {
				return KeyInfo{Space: SpBest}
			}
		case strings.HasPrefix(s, "chain.heads"):
			return KeyInfo{Space: SpHead, ID: s[len("chain.heads"):]}
		case strings.HasPrefix(s, "chain.txi"):
			r := s[len("chain.txi"):]
			if len(r) == 8 {
				return KeyInfo{Space: SpTxFilter, ID: r}
			}
			if len(r) > 32 {
				ki := KeyInfo{Space: SpTxMeta, ID: r[:32]}
				num, n := uvarint([]byte(r[32:]))
				c, n2 := uvarint([]byte(r[32+n:]))
				if n == 0 || n2 == 0 {
					break
				}
				ki.Major, ki.Minor = uint32(num), uint32(c)
				return ki
			}
		case strings.HasPrefix(s, "bft.engine"):
			r := s[len("bft.engine"):]
			if r == "finalized" {
				return KeyInfo{Space: SpFinalized}
			}
			if len(r) == 32 {
				return KeyInfo{Space: SpQuality, ID: r}
			}
		case strings.HasPrefix(s, "state.code"):
			return KeyInfo{Space: SpCode, ID: s[len("state.code"):]}
		}
	}
	return KeyInfo{Space: SpOther}
}

func (k KeyInfo) String() string {
	return fmt.Sprintf("%s[%d.%d %x %x %x %d]", k.Space, k.Major, k.Minor, k.Name, k.Path, k.ID, k.Index)
}

// BatchKind names a batch by the key spaces it touches (sorted, deduplicated, '+'-joined).
func BatchKind(b Batch) string {
	seen := map[string]bool{}
	for _, op := range b.Ops {
		seen[ParseKey(op.Key).Space] = true
	}
	order := []string{SpCode, SpNodeStorage, SpNodeAccount, SpNodeIndex, SpTxFilter, SpTxMeta, SpTx, SpReceipt, SpHead, SpSummary, SpBest, SpQuality, SpFinalized, SpOther}
	var parts []string
	for _, s := range order {
		if seen[s] {
			parts = append(parts, s)
		}
	}
	return strings.Join(parts, "+")
}
