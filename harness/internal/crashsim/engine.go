// Package crashsim is the node-level simulator of the C13/C20 drivers: a real cmd/thor/node.Node (real consensus,
// packer, chain.Repository, bft.Engine, state, logdb) over a muxdb whose key-value engine records every atomic
// write.  A recorded write log can be cut at any position and replayed into a fresh engine ("crash"), on which the
// real chain.NewRepository + bft.NewEngine are run again ("restart") and the block stream is resumed.
package crashsim

import (
	"context"
	"crypto/sha256"
	"sync"

	"github.com/syndtr/goleveldb/leveldb"
	"github.com/syndtr/goleveldb/leveldb/storage"

	"github.com/vechain/thor/v2/kv"
	"github.com/vechain/thor/v2/muxdb/engine"
)

// Op is one put / delete inside an atomic write.
type Op struct {
	Key []byte
	Val []byte
	Del bool
}

// Batch is one atomic write as the code issued it (a single Put/Delete or one Bulk.Write).
type Batch struct {
	Ops []Op
}

// RecEngine wraps the real LevelDB engine (in-memory storage) and records every atomic write in order.
// Reads, snapshots and iterators are the real engine's.
type RecEngine struct {
	inner engine.Engine
	mu    sync.Mutex
	log   []Batch
	// BeforeWrite, if set, runs before every atomic write with the index the write will get (C20 uses it to let
	// readers run between any two writes).
	BeforeWrite func(idx int)
	// trace, when non-nil, collects every key read through Get / Snapshot().Get (read-set recording).
	trace map[string]struct{}
}

// StartTrace begins collecting the keys read from the engine; StopTrace returns them.
func (e *RecEngine) StartTrace() { e.mu.Lock(); e.trace = map[string]struct{}{}; e.mu.Unlock() }
func (e *RecEngine) StopTrace() map[string]struct{} {
	e.mu.Lock()
	defer e.mu.Unlock()
	t := e.trace
	e.trace = nil
	return t
}
func (e *RecEngine) note(key []byte) {
	e.mu.Lock()
	if e.trace != nil {
		e.trace[string(key)] = struct{}{}
	}
	e.mu.Unlock()
}

type tracedSnapshot struct {
	kv.Snapshot
	e *RecEngine
}

func (t tracedSnapshot) Get(key []byte) ([]byte, error) { t.e.note(key); return t.Snapshot.Get(key) }

func NewRecEngine() *RecEngine {
	ldb, err := leveldb.Open(storage.NewMemStorage(), nil)
	if err != nil {
		panic(err)
	}
	return &RecEngine{inner: engine.NewLevelEngine(ldb)}
}

// FromLog builds a fresh engine holding exactly the effect of the given writes (not recorded as log).
func FromLog(batches []Batch) *RecEngine {
	e := NewRecEngine()
	for _, b := range batches {
		if err := e.apply(b); err != nil {
			panic(err)
		}
	}
	return e
}

func (e *RecEngine) apply(b Batch) error {
	bulk := e.inner.Bulk()
	for _, op := range b.Ops {
		if op.Del {
			if err := bulk.Delete(op.Key); err != nil {
				return err
			}
		} else if err := bulk.Put(op.Key, op.Val); err != nil {
			return err
		}
	}
	return bulk.Write()
}

func (e *RecEngine) commit(b Batch) error {
	if len(b.Ops) == 0 {
		return nil // the real engine skips an empty batch
	}
	e.mu.Lock()
	idx := len(e.log)
	hook := e.BeforeWrite
	e.mu.Unlock()
	if hook != nil {
		hook(idx)
	}
	if err := e.apply(b); err != nil {
		return err
	}
	e.mu.Lock()
	e.log = append(e.log, b)
	e.mu.Unlock()
	return nil
}

// Len is the number of atomic writes recorded so far.
func (e *RecEngine) Len() int { e.mu.Lock(); defer e.mu.Unlock(); return len(e.log) }

// Log returns the recorded writes [from, to).
func (e *RecEngine) Log(from, to int) []Batch {
	e.mu.Lock()
	defer e.mu.Unlock()
	return append([]Batch(nil), e.log[from:to]...)
}

// Digest hashes the complete content of the store (every key and value in key order).
func (e *RecEngine) Digest() [32]byte {
	h := sha256.New()
	it := e.inner.Iterate(kv.Range{})
	defer it.Release()
	var n [8]byte
	for it.Next() {
		k, v := it.Key(), it.Value()
		n[0], n[1], n[2], n[3] = byte(len(k)>>24), byte(len(k)>>16), byte(len(k)>>8), byte(len(k))
		n[4], n[5], n[6], n[7] = byte(len(v)>>24), byte(len(v)>>16), byte(len(v)>>8), byte(len(v))
		h.Write(n[:])
		h.Write(k)
		h.Write(v)
	}
	var out [32]byte
	copy(out[:], h.Sum(nil))
	return out
}

// Dump returns the live content as a map (key -> value).
func (e *RecEngine) Dump() map[string]string {
	out := map[string]string{}
	it := e.inner.Iterate(kv.Range{})
	defer it.Release()
	for it.Next() {
		out[string(it.Key())] = string(it.Value())
	}
	return out
}

// ---- engine.Engine

func (e *RecEngine) Close() error                   { return e.inner.Close() }
func (e *RecEngine) IsNotFound(err error) bool      { return e.inner.IsNotFound(err) }
func (e *RecEngine) Get(key []byte) ([]byte, error) { e.note(key); return e.inner.Get(key) }
func (e *RecEngine) Has(key []byte) (bool, error)   { return e.inner.Has(key) }
func (e *RecEngine) Snapshot() kv.Snapshot          { return tracedSnapshot{e.inner.Snapshot(), e} }
func (e *RecEngine) Iterate(r kv.Range) kv.Iterator { return e.inner.Iterate(r) }

func clone(b []byte) []byte { return append([]byte{}, b...) }

func (e *RecEngine) Put(key, val []byte) error {
	return e.commit(Batch{Ops: []Op{{Key: clone(key), Val: clone(val)}}})
}

func (e *RecEngine) Delete(key []byte) error {
	return e.commit(Batch{Ops: []Op{{Key: clone(key), Del: true}}})
}

type recBulk struct {
	e         *RecEngine
	ops       []Op
	autoFlush bool
}

func (b *recBulk) Put(key, val []byte) error {
	b.ops = append(b.ops, Op{Key: clone(key), Val: clone(val)})
	if b.autoFlush {
		return b.Write() // a non-atomic bulk: every operation may reach the disk on its own
	}
	return nil
}

func (b *recBulk) Delete(key []byte) error {
	b.ops = append(b.ops, Op{Key: clone(key), Del: true})
	if b.autoFlush {
		return b.Write()
	}
	return nil
}
func (b *recBulk) EnableAutoFlush() { b.autoFlush = true }
func (b *recBulk) Write() error {
	ops := b.ops
	b.ops = nil
	return b.e.commit(Batch{Ops: ops})
}

func (e *RecEngine) Bulk() kv.Bulk { return &recBulk{e: e} }

func (e *RecEngine) DeleteRange(ctx context.Context, r kv.Range) error {
	it := e.inner.Iterate(r)
	defer it.Release()
	bulk := e.Bulk()
	bulk.EnableAutoFlush()
	for it.Next() {
		if err := bulk.Delete(clone(it.Key())); err != nil {
			return err
		}
	}
	if err := it.Error(); err != nil {
		return err
	}
	return bulk.Write()
}
