// logcut.go — the log database as the node's second store (C13, the log-db side; model: coq/Crash/LogCrash.v,
// coq/Crash/ProofsDual.v).  The uninterrupted node runs with a real file log database; after every delivery its files are
// snapshotted and its tables dumped; while it imports, a before-write hook of the recording engine observes, at every atomic
// write of the main database, whether the log transaction of the import has been committed already (the position of the log
// commit in the combined write sequence).  A cut next to that position is evaluated twice: with the log database as it was
// before the log commit and as it was after it; the real repository + engine + node are restarted over the main-database
// image and that log database, the stream is resumed, and the tables must equal the uninterrupted node's
// (no log of the canonical chain missing, duplicated or stale).
// The start-up syncLogDB itself (package main) is tied to its model by the C15 harness, not here.
package crashsim

import (
	"context"
	"fmt"
	"os"
	"path/filepath"
	"sort"
	"strings"

	"github.com/vechain/thor/v2/logdb"
	"github.com/vechain/thor/v2/state"
)

// LogDump renders both tables in key order (canonical text: every column the API returns).
func (n *Node) LogDump() (string, error) {
	if n.LogDB == nil {
		return "", fmt.Errorf("no log db")
	}
	evs, err := n.LogDB.FilterEvents(context.Background(), &logdb.EventFilter{})
	if err != nil {
		return "", err
	}
	trs, err := n.LogDB.FilterTransfers(context.Background(), &logdb.TransferFilter{})
	if err != nil {
		return "", err
	}
	return RenderLogs(evs, trs), nil
}

// RenderLogs is the canonical text of two tables (every column the API returns), rows in key order.
func RenderLogs(evs []*logdb.Event, trs []*logdb.Transfer) string {
	var sb strings.Builder
	for _, e := range evs {
		fmt.Fprintf(&sb, "E %d.%d.%d %x %d %x %x %d %x", e.BlockNumber, e.TxIndex, e.LogIndex, e.BlockID[:], e.BlockTime, e.TxID[:], e.TxOrigin[:], e.ClauseIndex, e.Address[:])
		for _, t := range e.Topics {
			if t == nil {
				sb.WriteString(" -")
			} else {
				fmt.Fprintf(&sb, " %x", t[:])
			}
		}
		fmt.Fprintf(&sb, " %x\n", e.Data)
	}
	for _, t := range trs {
		fmt.Fprintf(&sb, "T %d.%d.%d %x %d %x %x %d %x %x %s\n", t.BlockNumber, t.TxIndex, t.LogIndex, t.BlockID[:], t.BlockTime, t.TxID[:], t.TxOrigin[:], t.ClauseIndex,
			t.Sender[:], t.Recipient[:], t.Amount.String())
	}
	return sb.String()
}

// LogSnapshot copies the files of the log database (main file and write-ahead log; SQLite rebuilds the wal-index).
// Called between imports: no transaction is open (commitBlock waits for the log worker before AddBlock).
func (n *Node) LogSnapshot() (map[string][]byte, error) {
	out := map[string][]byte{}
	ents, err := os.ReadDir(n.logDir)
	if err != nil {
		return nil, err
	}
	for _, e := range ents {
		if strings.HasSuffix(e.Name(), "-shm") {
			continue
		}
		b, err := os.ReadFile(filepath.Join(n.logDir, e.Name()))
		if err != nil {
			return nil, err
		}
		out[e.Name()] = b
	}
	return out, nil
}

// ReopenWithLog is Reopen over a main-database image and a copy of a log-database snapshot, logs enabled.
func (w *World) ReopenWithLog(eng *RecEngine, n0 *Node, snap map[string][]byte) (*Node, error) {
	dir, err := os.MkdirTemp("", "verif-logcut")
	if err != nil {
		return nil, err
	}
	for name, b := range snap {
		if err := os.WriteFile(filepath.Join(dir, name), b, 0o600); err != nil {
			return nil, err
		}
	}
	ldb, err := logdb.New(filepath.Join(dir, "logs.db"), false, 4)
	if err != nil {
		os.RemoveAll(dir)
		return nil, fmt.Errorf("logdb.New on the snapshot: %w", err)
	}
	n := &Node{W: w, Eng: eng, Genesis: n0.Genesis, LogDB: ldb, logDir: dir}
	n.DB = w.openDB(eng, false)
	n.Stater = state.NewStater(n.DB)
	if err := n.open(); err != nil {
		ldb.Close()
		os.RemoveAll(dir)
		return nil, err
	}
	n.Base = eng.Len()
	return n, nil
}

// LogTrack is what Build records about the log database of the uninterrupted node.
type LogTrack struct {
	Snaps    []map[string][]byte // Snaps[0] after genesis, Snaps[i+1] after delivery i
	Dumps    []string            // same indexing
	Commit   []int               // per delivery: number of main-database writes of the delivery issued before the log commit was visible (-1: the tables did not change)
	Problems []string            // a log state that is neither the one before nor the one after the delivery, or a change that is later undone
}

// trackLogs installs the observer for one delivery; the returned function finishes it.
func (r *Run) trackLogs(u *Node, before string) (finish func() (int, []string)) {
	var seen []string // the dump observed before each main-database write of this delivery
	u.Eng.BeforeWrite = func(idx int) {
		d, err := u.LogDump()
		if err != nil {
			d = "error: " + err.Error()
		}
		seen = append(seen, d)
	}
	return func() (int, []string) {
		u.Eng.BeforeWrite = nil
		after, _ := u.LogDump()
		var problems []string
		if after == before {
			for i, d := range seen {
				if d != before {
					problems = append(problems, fmt.Sprintf("tables changed before write %d of an import that leaves them unchanged", i))
				}
			}
			return -1, problems
		}
		pos := len(seen)
		for i, d := range seen {
			if d == after {
				pos = i
				break
			}
			if d != before {
				problems = append(problems, fmt.Sprintf("before write %d the tables are neither those before nor those after the import (a partial log transaction is visible)", i))
			}
		}
		for i := pos; i < len(seen); i++ {
			if seen[i] != after {
				problems = append(problems, fmt.Sprintf("before write %d the tables differ from the committed ones", i))
			}
		}
		return pos, problems
	}
}

// LogCutResult is the evaluation of one cut with one of the two log-database states.
type LogCutResult struct {
	K        int
	Variant  string // "log-not-committed" | "log-committed"
	Findings []Finding
}

// LogCuts lists the cuts that touch the log commit: for every delivery that changed the tables, the cut position right
// where the log transaction sits (after the state commit, before the index batch).
func (r *Run) LogCuts() []int {
	var out []int
	if r.Logs == nil {
		return nil
	}
	for i, d := range r.Deliveries {
		if p := r.Logs.Commit[i]; p >= 0 {
			out = append(out, d.From+p-r.U.Base)
		}
	}
	if len(r.Scn.Cuts) > 0 {
		want := map[int]bool{}
		for _, k := range r.Scn.Cuts {
			want[k] = true
		}
		var f []int
		for _, k := range out {
			if want[k] {
				f = append(f, k)
			}
		}
		out = f
	}
	sort.Ints(out)
	return out
}

// EvalLogCut restarts the real node over the main-database image after k writes and over the log database as it was before
// (committed=false) or after (committed=true) the log transaction of the interrupted import, resumes the stream and compares
// the tables with the uninterrupted node's.
func (r *Run) EvalLogCut(k int, committed bool) *LogCutResult {
	pos := r.Pos(k)
	res := &LogCutResult{K: k, Variant: "log-not-committed"}
	snapIdx := pos.Delivery
	if committed {
		res.Variant = "log-committed"
		snapIdx = pos.Delivery + 1
	}
	bad := func(class, msg string) {
		res.Findings = append(res.Findings, Finding{Class: class + ":" + res.Variant, Summary: fmt.Sprintf("cut %d (%s, %s): %s", k, pos.Class(), res.Variant, msg), Found: true, Cut: k})
	}
	if snapIdx >= len(r.Logs.Snaps) {
		return res
	}
	eng := FromLog(r.U.Eng.Log(0, r.U.Base+k))
	n, err := r.W.ReopenWithLog(eng, r.U, r.Logs.Snaps[snapIdx])
	if err != nil {
		bad("logdb-restart-fails", err.Error())
		eng.Close()
		return res
	}
	defer n.Close()
	if d, err := n.LogDump(); err != nil {
		bad("logdb-unreadable", err.Error())
	} else if d != r.Logs.Dumps[snapIdx] {
		bad("logdb-snapshot", "the copied log database does not read back as the original (harness)")
	}
	for i := pos.Delivery; i < len(r.Deliveries); i++ {
		n.Import(r.Deliveries[i].Block)
	}
	obs := n.Observe()
	if obs.Best != r.Final.Best {
		return res // reported by EvalCut
	}
	d, err := n.LogDump()
	if err != nil {
		bad("logdb-unreadable", err.Error())
		return res
	}
	if want := r.Logs.Dumps[len(r.Logs.Dumps)-1]; d != want {
		bad("logdb-diverges", fmt.Sprintf("after resumption the tables differ from the uninterrupted node's: %s", diffLines(d, want)))
	}
	return res
}

func diffLines(got, want string) string {
	g, w := map[string]int{}, map[string]int{}
	for _, l := range strings.Split(got, "\n") {
		g[l]++
	}
	for _, l := range strings.Split(want, "\n") {
		w[l]++
	}
	var missing, extra []string
	for l, c := range w {
		if g[l] < c {
			missing = append(missing, shortLine(l))
		}
	}
	for l, c := range g {
		if w[l] < c {
			extra = append(extra, shortLine(l))
		}
	}
	sort.Strings(missing)
	sort.Strings(extra)
	return fmt.Sprintf("%d rows missing %v, %d rows not of the canonical chain %v", len(missing), head(missing), len(extra), head(extra))
}

func shortLine(l string) string {
	f := strings.Fields(l)
	if len(f) >= 3 {
		id := f[2]
		if len(id) > 12 {
			id = id[:12]
		}
		return f[0] + " " + f[1] + " " + id
	}
	return l
}

func head(l []string) []string {
	if len(l) > 4 {
		return append(l[:4:4], "...")
	}
	return l
}
