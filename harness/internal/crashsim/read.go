package crashsim

import (
	"bytes"
	"crypto/sha256"
	"encoding/hex"
	"fmt"

	"github.com/ethereum/go-ethereum/rlp"

	"github.com/vechain/thor/v2/block"
	"github.com/vechain/thor/v2/muxdb"
	"github.com/vechain/thor/v2/state"
	"github.com/vechain/thor/v2/thor"
	"github.com/vechain/thor/v2/trie"
)

// WalkState visits every account, every storage slot and every code blob reachable from the given state root and
// returns a digest of the content. Any unreadable node / blob is an error.
func WalkState(db *muxdb.MuxDB, root trie.Root) (string, int, error) {
	h := sha256.New()
	leaves := 0
	codes := db.NewStore("state.code")
	t := db.NewTrie(muxdb.AccountTrieName, root)
	it := t.NodeIterator(nil, 0)
	for it.Next(true) {
		leaf := it.Leaf()
		if leaf == nil {
			continue
		}
		leaves++
		h.Write(it.LeafKey())
		h.Write(leaf.Value)
		var a state.Account
		if err := rlp.DecodeBytes(leaf.Value, &a); err != nil {
			return "", 0, fmt.Errorf("account decode: %w", err)
		}
		var am state.AccountMetadata
		if len(leaf.Meta) > 0 {
			if err := rlp.DecodeBytes(leaf.Meta, &am); err != nil {
				return "", 0, fmt.Errorf("account meta decode: %w", err)
			}
		}
		if len(a.CodeHash) > 0 {
			code, err := codes.Get(a.CodeHash)
			if err != nil {
				return "", 0, fmt.Errorf("code %x: %w", a.CodeHash, err)
			}
			if !bytes.Equal(thor.Keccak256(code).Bytes(), a.CodeHash) {
				return "", 0, fmt.Errorf("code %x: content does not hash to its key", a.CodeHash)
			}
			h.Write(code)
		}
		if len(a.StorageRoot) > 0 {
			st := db.NewTrie(state.StorageTrieName(am.StorageID), trie.Root{Hash: thor.BytesToBytes32(a.StorageRoot),
				Ver: trie.Version{Major: am.StorageMajorVer, Minor: am.StorageMinorVer}})
			sit := st.NodeIterator(nil, 0)
			for sit.Next(true) {
				if sl := sit.Leaf(); sl != nil {
					leaves++
					h.Write(sit.LeafKey())
					h.Write(sl.Value)
				}
			}
			if err := sit.Error(); err != nil {
				return "", 0, fmt.Errorf("storage trie of %x: %w", it.LeafKey(), err)
			}
		}
	}
	if err := it.Error(); err != nil {
		return "", 0, fmt.Errorf("account trie: %w", err)
	}
	return hex.EncodeToString(h.Sum(nil)[:16]), leaves, nil
}

// BlockView is everything a reader of a block obtains through the public API, digested.
type BlockView struct {
	ID       thor.Bytes32
	Txs      int
	State    string // digest of the full state content
	Ancestry string // digest of GetBlockID(n) for every n
}

// ReadBlock reads header, transactions, receipts, every ancestor id by number and the complete state of a block
// through the public API of the repository / muxdb, checking mutual consistency. err != nil: a piece is unreadable
// or inconsistent.
func (n *Node) ReadBlock(id thor.Bytes32) (*BlockView, error) {
	sum, err := n.Repo.GetBlockSummary(id)
	if err != nil {
		return nil, fmt.Errorf("summary: %w", err)
	}
	if sum.Header.ID() != id {
		return nil, fmt.Errorf("summary of %v holds header %v", id, sum.Header.ID())
	}
	txs, err := n.Repo.GetBlockTransactions(id)
	if err != nil {
		return nil, fmt.Errorf("transactions: %w", err)
	}
	rcs, err := n.Repo.GetBlockReceipts(id)
	if err != nil {
		return nil, fmt.Errorf("receipts: %w", err)
	}
	if len(txs) != len(sum.Txs) || len(rcs) != len(sum.Txs) {
		return nil, fmt.Errorf("%d txs, %d receipts for %d tx ids", len(txs), len(rcs), len(sum.Txs))
	}
	for i, t := range txs {
		if t.ID() != sum.Txs[i] {
			return nil, fmt.Errorf("tx %d: id differs from the summary", i)
		}
	}
	if txs.RootHash() != sum.Header.TxsRoot() {
		return nil, fmt.Errorf("transactions do not hash to the header's txs root")
	}
	if rcs.RootHash() != sum.Header.ReceiptsRoot() {
		return nil, fmt.Errorf("receipts do not hash to the header's receipts root")
	}
	// number index: every ancestor by number, linked by parent ids
	ch := n.Repo.NewChain(id)
	ah := sha256.New()
	var prev thor.Bytes32
	for num := uint32(0); num <= sum.Header.Number(); num++ {
		aid, err := ch.GetBlockID(num)
		if err != nil {
			return nil, fmt.Errorf("GetBlockID(%d): %w", num, err)
		}
		if block.Number(aid) != num {
			return nil, fmt.Errorf("GetBlockID(%d) = block #%d", num, block.Number(aid))
		}
		as, err := n.Repo.GetBlockSummary(aid)
		if err != nil {
			return nil, fmt.Errorf("ancestor %d summary: %w", num, err)
		}
		if num > 0 && as.Header.ParentID() != prev {
			return nil, fmt.Errorf("ancestor %d is not the child of ancestor %d", num, num-1)
		}
		prev = aid
		ah.Write(aid[:])
	}
	if prev != id {
		return nil, fmt.Errorf("GetBlockID(own number) is another block")
	}
	// tx index of every tx
	for _, t := range txs {
		meta, err := ch.GetTransactionMeta(t.ID())
		if err != nil {
			return nil, fmt.Errorf("tx meta: %w", err)
		}
		if meta.BlockNum != sum.Header.Number() || meta.BlockConflicts != sum.Conflicts {
			return nil, fmt.Errorf("tx meta points to another block")
		}
	}
	sd, _, err := WalkState(n.DB, sum.Root())
	if err != nil {
		return nil, fmt.Errorf("state: %w", err)
	}
	return &BlockView{ID: id, Txs: len(txs), State: sd, Ancestry: hex.EncodeToString(ah.Sum(nil)[:16])}, nil
}
