// Command c15: correspondence and property search for C15 (the log index always equals the logs of the canonical
// chain; filters return exactly the matching subsequence).  Reorganisation histories are grown on a real
// chain.Repository; every block that becomes best goes through the node's real writeLogs (hook VerifWriteLogs on a
// node.Node wired with the repository and a real logdb.NewMem()) and then Repository.AddBlock, exactly the order
// commitBlock uses.  After every import the whole tables and a batch of random filters are compared with the
// extracted LogDB.Model and with a reference computed from the receipts of the real canonical chain.
package main

import (
	"context"
	"fmt"
	"os"
	"strings"

	"github.com/vechain/thor/v2/cmd/thor/node"
	"github.com/vechain/thor/v2/logdb"
	"github.com/vechain/thor/v2/thor"
	"github.com/vechain/thor/v2/tx"

	"verif/harness/internal/chainsim"
	"verif/harness/internal/hx"
)

// ---------------------------------------------------------------- reference rows from the canonical chain

type row struct {
	num, txi, logi uint32
	s              string // canonical text of the whole row
	addr           thor.Address
	topics         []thor.Bytes32
	origin, a, b   thor.Address // transfers: origin, sender, recipient
}

func evText(num, txi, logi uint32, bid thor.Bytes32, tm uint64, txid thor.Bytes32, origin thor.Address, clause uint32,
	addr thor.Address, topics []thor.Bytes32, data []byte) string {
	var ts []string
	for _, t := range topics {
		ts = append(ts, chainsim.N32(t))
	}
	return fmt.Sprintf("%x,%x,%x,%s,%x,%s,%s,%x,%s,%s,%x:%s", num, txi, logi, chainsim.N32(bid), tm, chainsim.N32(txid),
		hx.HexN(origin[:]), clause, hx.HexN(addr[:]), strings.Join(ts, ";"), len(data), hx.HexN(data))
}

func trText(num, txi, logi uint32, bid thor.Bytes32, tm uint64, txid thor.Bytes32, origin thor.Address, clause uint32,
	s, r thor.Address, amount []byte) string {
	return fmt.Sprintf("%x,%x,%x,%s,%x,%s,%s,%x,%s,%s,%s", num, txi, logi, chainsim.N32(bid), tm, chainsim.N32(txid),
		hx.HexN(origin[:]), clause, hx.HexN(s[:]), hx.HexN(r[:]), hx.HexN(amount))
}

// canonicalRows recomputes, from the receipts the real repository returns for its best chain, the rows the
// property prescribes: chain order, per-block running log index, tx index, clause index.
func canonicalRows(s *chainsim.Sim, genRC *tx.Receipt) (evs, trs []row, err error) {
	if genRC != nil {
		// the rows initChainRepository writes for the genesis block: block 0, tx index 0, zero tx id / origin
		g := s.Blocks[0].Header()
		ec, tc := uint32(0), uint32(0)
		for ci, o := range genRC.Outputs {
			for _, e := range o.Events {
				tp := e.Topics
				if len(tp) > 5 {
					tp = tp[:5]
				}
				evs = append(evs, row{num: 0, txi: 0, logi: ec, addr: e.Address, topics: tp,
					s: evText(0, 0, ec, g.ID(), g.Timestamp(), thor.Bytes32{}, thor.Address{}, uint32(ci), e.Address, tp, e.Data)})
				ec++
			}
			for _, t := range o.Transfers {
				trs = append(trs, row{num: 0, txi: 0, logi: tc, a: t.Sender, b: t.Recipient,
					s: trText(0, 0, tc, g.ID(), g.Timestamp(), thor.Bytes32{}, thor.Address{}, uint32(ci), t.Sender, t.Recipient, t.Amount.Bytes())})
				tc++
			}
		}
	}
	best := s.Repo.NewBestChain()
	head := s.Repo.BestBlockSummary().Header.Number()
	for n := uint32(0); n <= head; n++ {
		b, err := best.GetBlock(n)
		if err != nil {
			return nil, nil, err
		}
		rcs, err := s.Repo.GetBlockReceipts(b.Header().ID())
		if err != nil {
			return nil, nil, err
		}
		txs := b.Transactions()
		ec, tc := uint32(0), uint32(0)
		for i, rc := range rcs {
			var txid thor.Bytes32
			var origin thor.Address
			if i < len(txs) {
				txid = txs[i].ID()
				origin, _ = txs[i].Origin()
			}
			for ci, o := range rc.Outputs {
				for _, e := range o.Events {
					tp := e.Topics
					if len(tp) > 5 {
						tp = tp[:5]
					}
					evs = append(evs, row{num: n, txi: uint32(i), logi: ec, addr: e.Address, topics: tp,
						s: evText(n, uint32(i), ec, b.Header().ID(), b.Header().Timestamp(), txid, origin, uint32(ci), e.Address, tp, e.Data)})
					ec++
				}
				for _, t := range o.Transfers {
					trs = append(trs, row{num: n, txi: uint32(i), logi: tc, origin: origin, a: t.Sender, b: t.Recipient,
						s: trText(n, uint32(i), tc, b.Header().ID(), b.Header().Timestamp(), txid, origin, uint32(ci), t.Sender, t.Recipient, t.Amount.Bytes())})
					tc++
				}
			}
		}
	}
	return
}

func showEvents(l []*logdb.Event) string {
	var out []string
	for _, e := range l {
		var tp []thor.Bytes32
		for _, t := range e.Topics {
			if t == nil {
				break
			}
			tp = append(tp, *t)
		}
		out = append(out, evText(e.BlockNumber, e.TxIndex, e.LogIndex, e.BlockID, e.BlockTime, e.TxID, e.TxOrigin, e.ClauseIndex, e.Address, tp, e.Data))
	}
	return "ok:" + strings.Join(out, "|")
}
func showTransfers(l []*logdb.Transfer) string {
	var out []string
	for _, t := range l {
		out = append(out, trText(t.BlockNumber, t.TxIndex, t.LogIndex, t.BlockID, t.BlockTime, t.TxID, t.TxOrigin, t.ClauseIndex, t.Sender, t.Recipient, t.Amount.Bytes()))
	}
	return "ok:" + strings.Join(out, "|")
}
func showRows(l []row) string {
	var out []string
	for _, r := range l {
		out = append(out, r.s)
	}
	return "ok:" + strings.Join(out, "|")
}

// ---------------------------------------------------------------- filters

type filt struct {
	Desc     bool
	HasRange bool
	From, To uint32
	HasPage  bool
	Off, Lim uint64
	EvCrit   []evCrit
	TrCrit   []trCrit
}
type evCrit struct {
	Addr   *thor.Address
	Topics [5]*thor.Bytes32
}
type trCrit struct{ Origin, Sender, Recipient *thor.Address }

func optA(a *thor.Address) string {
	if a == nil {
		return "-"
	}
	return hx.HexN(a[:])
}
func optT(t *thor.Bytes32) string {
	if t == nil {
		return "-"
	}
	return chainsim.N32(*t)
}
func (f *filt) optsLine() string {
	return fmt.Sprintf("%s %s %x %x %s %x %x", hx.B(f.Desc), hx.B(f.HasRange), f.From, f.To, hx.B(f.HasPage), f.Off, f.Lim)
}
func (f *filt) evLine() string {
	s := "FE " + f.optsLine() + fmt.Sprintf(" %d", len(f.EvCrit))
	for _, c := range f.EvCrit {
		s += " " + optA(c.Addr)
		for _, t := range c.Topics {
			s += " " + optT(t)
		}
	}
	return s
}
func (f *filt) trLine() string {
	s := "FT " + f.optsLine() + fmt.Sprintf(" %d", len(f.TrCrit))
	for _, c := range f.TrCrit {
		s += " " + optA(c.Origin) + " " + optA(c.Sender) + " " + optA(c.Recipient)
	}
	return s
}

// refFilter: the matching subsequence, computed directly on the canonical rows.
func (f *filt) refFilter(rows []row, match func(r *row) bool) string {
	if f.HasRange && (f.From > logdb.MaxBlockNumber || f.To > logdb.MaxBlockNumber) {
		return "err"
	}
	if f.HasPage && (f.Off >= 1<<63 || f.Lim >= 1<<63) {
		return "err"
	}
	var sel []row
	for i := range rows {
		r := &rows[i]
		if f.HasRange && (r.num < f.From || r.num > f.To) {
			continue
		}
		if match(r) {
			sel = append(sel, *r)
		}
	}
	if f.Desc {
		for i, j := 0, len(sel)-1; i < j; i, j = i+1, j-1 {
			sel[i], sel[j] = sel[j], sel[i]
		}
	}
	if f.HasPage {
		if f.Off >= uint64(len(sel)) {
			sel = nil
		} else {
			sel = sel[f.Off:]
		}
		if uint64(len(sel)) > f.Lim {
			sel = sel[:f.Lim]
		}
	}
	return showRows(sel)
}
func (f *filt) evMatch(r *row) bool {
	if len(f.EvCrit) == 0 {
		return true
	}
	for _, c := range f.EvCrit {
		ok := c.Addr == nil || *c.Addr == r.addr
		for i, t := range c.Topics {
			if t != nil && (i >= len(r.topics) || r.topics[i] != *t) {
				ok = false
			}
		}
		if ok {
			return true
		}
	}
	return false
}
func (f *filt) trMatch(r *row) bool {
	if len(f.TrCrit) == 0 {
		return true
	}
	for _, c := range f.TrCrit {
		if (c.Origin == nil || *c.Origin == r.origin) && (c.Sender == nil || *c.Sender == r.a) && (c.Recipient == nil || *c.Recipient == r.b) {
			return true
		}
	}
	return false
}

func (f *filt) common() (*logdb.Range, *logdb.Options, logdb.Order) {
	var rg *logdb.Range
	if f.HasRange {
		rg = &logdb.Range{From: f.From, To: f.To}
	}
	var op *logdb.Options
	if f.HasPage {
		op = &logdb.Options{Offset: f.Off, Limit: f.Lim}
	}
	ord := logdb.ASC
	if f.Desc {
		ord = logdb.DESC
	}
	return rg, op, ord
}

func genFilter(r *hx.Rand, head uint32, evs, trs []row) *filt {
	f := &filt{Desc: r.Bool()}
	switch r.Intn(8) {
	case 0, 1, 2:
		f.HasRange = true
		f.From = uint32(r.Intn(int(head) + 2))
		f.To = f.From + uint32(r.Intn(int(head)+2))
	case 3:
		f.HasRange = true // inverted
		f.To = uint32(r.Intn(int(head) + 1))
		f.From = f.To + 1 + uint32(r.Intn(3))
	case 4:
		f.HasRange = true
		f.From, f.To = 0, logdb.MaxBlockNumber
		if r.Chance(1, 3) {
			f.To = logdb.MaxBlockNumber + 1 + uint32(r.Intn(5)) // out of the 28-bit range: an error
		}
	}
	switch r.Intn(8) {
	case 0, 1, 2:
		f.HasPage = true
		f.Off, f.Lim = uint64(r.Intn(6)), uint64(r.Intn(8))
	case 3:
		f.HasPage = true
		f.Off, f.Lim = []uint64{1 << 40, 1<<63 - 1, 1 << 62}[r.Intn(3)], uint64(1+r.Intn(5))
	case 4:
		f.HasPage = true
		f.Off, f.Lim = uint64(r.Intn(3)), []uint64{1<<63 - 1, 1 << 50, 0}[r.Intn(3)]
	case 5:
		if r.Chance(1, 3) {
			f.HasPage = true
			f.Off, f.Lim = 1<<63+uint64(r.Intn(4)), 5 // high bit set: database/sql refuses the argument
		}
	}
	pickAddr := func() *thor.Address {
		a := chainsim.Addr(r.Intn(6))
		return &a
	}
	for n := r.Intn(4); n > 0; n-- {
		var c evCrit
		if r.Chance(1, 2) {
			c.Addr = pickAddr()
		}
		// mostly topics that occur (at their position) so that filters select something
		if len(evs) > 0 && r.Chance(3, 4) {
			src := evs[r.Intn(len(evs))]
			for i := range src.topics {
				if r.Chance(1, 2) {
					t := src.topics[i]
					c.Topics[i] = &t
				}
			}
			if r.Chance(1, 3) {
				a := src.addr
				c.Addr = &a
			}
		} else if r.Chance(1, 2) {
			var z thor.Bytes32
			if r.Chance(1, 2) {
				z[31] = byte(1 + r.Intn(3))
			}
			c.Topics[r.Intn(5)] = &z
		}
		f.EvCrit = append(f.EvCrit, c)
	}
	for n := r.Intn(4); n > 0; n-- {
		var c trCrit
		if len(trs) > 0 && r.Chance(2, 3) {
			src := trs[r.Intn(len(trs))]
			if r.Chance(1, 2) {
				a := src.origin
				c.Origin = &a
			}
			if r.Chance(1, 2) {
				a := src.a
				c.Sender = &a
			}
			if r.Chance(1, 2) {
				a := src.b
				c.Recipient = &a
			}
		} else {
			switch r.Intn(3) {
			case 0:
				c.Origin = pickAddr()
			case 1:
				c.Sender = pickAddr()
			default:
				c.Recipient = pickAddr()
			}
		}
		f.TrCrit = append(f.TrCrit, c)
	}
	return f
}

// ---------------------------------------------------------------- one scenario

type outcome struct {
	fails          [][2]string
	diffAt         int
	line, impl, md string
	err            error
	requests       int
}

func execute(scn *chainsim.Scenario, oracle string, cov *hx.Coverage) outcome {
	if cov == nil {
		cov = hx.NewCoverage()
	}
	s, err := chainsim.NewSim(scn)
	if err != nil {
		return outcome{err: err, diffAt: -1}
	}
	defer s.Close()
	db, err := logdb.NewMem()
	if err != nil {
		return outcome{err: err, diffAt: -1}
	}
	defer db.Close()
	nd := node.New(nil, s.Repo, nil, nil, db, nil, "", nil, nil, node.Options{}, nil, nil)
	defer nd.VerifClose()
	r := hx.NewRand(scn.QSeed)
	var lines, wants []string
	var fails [][2]string
	fail := func(class, msg string) {
		if len(fails) < 10 {
			fails = append(fails, [2]string{class, msg})
		}
	}
	add := func(l, w string) { lines = append(lines, l); wants = append(wants, w) }
	add(s.InitLine(), "ok")
	ctx := context.Background()
	// half of the histories start like a real node: the genesis builder's logs are in the log db (utils.go:initChainRepository)
	var genRC *tx.Receipt
	if scn.QSeed%2 == 0 {
		genRC = chainsim.GenesisReceipt(hx.NewRand(scn.QSeed ^ 0x67656e))
		w := db.NewWriter()
		werr := w.Write(s.Blocks[0], tx.Receipts{genRC})
		if werr == nil {
			werr = w.Commit()
		}
		g := s.Blocks[0].Header()
		want := "ok"
		if werr != nil {
			want = "err"
		}
		add(fmt.Sprintf("GEN %s %s %x %d%s", chainsim.N32(g.ID()), chainsim.N32(g.ParentID()), g.Timestamp(), len(genRC.Outputs), chainsim.OutTokens(genRC)), want)
		cov.Count("history:with-genesis-rows")
	}

	check := func(nFilters int) error {
		evs, trs, err := canonicalRows(s, genRC)
		if err != nil {
			return err
		}
		ge, err := db.FilterEvents(ctx, nil)
		if err != nil {
			return err
		}
		gt, err := db.FilterTransfers(ctx, nil)
		if err != nil {
			return err
		}
		se, st := showEvents(ge), showTransfers(gt)
		add("EVS", se)
		add("TRS", st)
		// property: the stored events / transfers are exactly those of the canonical chain's receipts, in order
		if se != showRows(evs) {
			fail("event-table-not-canonical-logs", fmt.Sprintf("events in the log index differ from the canonical chain's receipts: have %d rows, chain has %d", len(ge), len(evs)))
		}
		if st != showRows(trs) {
			fail("transfer-table-not-canonical-logs", fmt.Sprintf("transfers in the log index differ from the canonical chain's receipts: have %d rows, chain has %d", len(gt), len(trs)))
		}
		cov.Count("check:tables")
		head := s.Repo.BestBlockSummary().Header.Number()
		for k := 0; k < nFilters; k++ {
			f := genFilter(r, head, evs, trs)
			rg, op, ord := f.common()
			ef := &logdb.EventFilter{Range: rg, Options: op, Order: ord}
			for _, c := range f.EvCrit {
				ef.CriteriaSet = append(ef.CriteriaSet, &logdb.EventCriteria{Address: c.Addr, Topics: c.Topics})
			}
			got := "err"
			if l, err := db.FilterEvents(ctx, ef); err == nil {
				got = showEvents(l)
			}
			add(f.evLine(), got)
			if want := f.refFilter(evs, f.evMatch); got != want {
				fail("event-filter-not-matching-subsequence", fmt.Sprintf("FilterEvents(%s) returned %d chars, the matching subsequence of the canonical logs has %d: got=%.200s want=%.200s", f.evLine(), len(got), len(want), got, want))
			} else if len(got) > 3 && got != "err" {
				cov.Count("filter:events-nonempty")
			}
			tf := &logdb.TransferFilter{Range: rg, Options: op, Order: ord}
			for _, c := range f.TrCrit {
				tf.CriteriaSet = append(tf.CriteriaSet, &logdb.TransferCriteria{TxOrigin: c.Origin, Sender: c.Sender, Recipient: c.Recipient})
			}
			got = "err"
			if l, err := db.FilterTransfers(ctx, tf); err == nil {
				got = showTransfers(l)
			}
			add(f.trLine(), got)
			if want := f.refFilter(trs, f.trMatch); got != want {
				fail("transfer-filter-not-matching-subsequence", fmt.Sprintf("FilterTransfers(%s): got=%.200s want=%.200s", f.trLine(), got, want))
			} else if len(got) > 3 && got != "err" {
				cov.Count("filter:transfers-nonempty")
			}
			if got == "err" {
				cov.Count("filter:error-class")
			}
			cov.Count("filter:pair")
			if f.HasRange && f.From > f.To {
				cov.Count("filter:inverted-range")
			}
			if f.HasPage && f.Off >= 1<<40 {
				cov.Count("filter:large-offset")
			}
		}
		return nil
	}

	for !s.Done() {
		b, rcs, conf, spec, err := s.BuildNext()
		if err != nil {
			return outcome{err: err, diffAt: -1}
		}
		if spec.Best {
			old := s.Repo.BestBlockSummary().Header.ID()
			oldIdx := s.Best
			// commitBlock: writeLogs (old best -> the new block's parent, then the new block), then AddBlock as best
			werr := nd.VerifWriteLogs(b, rcs, old)
			w := "ok"
			if werr != nil {
				w = "err"
				fail("write-logs-error", fmt.Sprintf("writeLogs failed: %v", werr))
			}
			if err := s.Commit(b, rcs, conf, spec); err != nil {
				return outcome{err: err, diffAt: -1}
			}
			add(fmt.Sprintf("IMP %x %s", conf, chainsim.BlockTokens(b, rcs)), w)
			cov.Count("op:import-as-best")
			if !s.OnChain(len(s.Blocks)-1, oldIdx) {
				cov.Count("op:reorg")
				if d := int(s.Height[oldIdx]) - int(s.Height[forkPoint(s, oldIdx, len(s.Blocks)-1)]); d >= 2 {
					cov.Count("op:reorg-depth>=2")
				}
			}
			n := 3
			if len(s.Blocks) > 80 {
				n = 1
			}
			if len(s.Blocks) <= 80 || r.Chance(1, 6) {
				if err := check(n); err != nil {
					return outcome{err: err, diffAt: -1}
				}
			}
		} else {
			if err := s.Commit(b, rcs, conf, spec); err != nil {
				return outcome{err: err, diffAt: -1}
			}
			add(chainsim.AddLine(b, rcs, conf, false), "ok")
			cov.Count("op:add-side-block")
		}
	}
	if err := check(60); err != nil {
		return outcome{err: err, diffAt: -1}
	}
	out := outcome{fails: fails, diffAt: -1, requests: len(lines)}
	ans, err := hx.AskAll(oracle, lines)
	if err != nil {
		out.err = err
		return out
	}
	for i := range ans {
		if ans[i] != wants[i] {
			out.diffAt, out.line, out.impl, out.md = i, lines[i], wants[i], ans[i]
			break
		}
	}
	return out
}

func forkPoint(s *chainsim.Sim, a, b int) int {
	for !s.OnChain(b, a) {
		a = s.Parent[a]
	}
	return a
}

func cmdOf(l string) string {
	if i := strings.IndexByte(l, ' '); i > 0 {
		return l[:i]
	}
	return l
}

func clip(s string) string {
	if len(s) > 300 {
		return s[:300] + "..."
	}
	return s
}

func runOne(ctx *hx.Ctx, scn *chainsim.Scenario) {
	out := execute(scn, ctx.Oracle, ctx.Cov)
	if out.err != nil {
		hx.Fatal("scenario failed to run: %v", out.err)
	}
	depth, forks, _ := chainsim.Stats(scn)
	logs := 0
	for _, b := range scn.Blocks {
		for _, in := range b.Incl {
			for _, o := range in.Outs {
				logs += len(o.Events) + len(o.Transfers)
			}
		}
	}
	ctx.Cov.Case(chainsim.Canonical(scn), forks >= 1 && logs >= 4, map[string]any{"shape": scn.Shape, "blocks": len(scn.Blocks), "depth": depth, "fork_points": forks, "logs": logs})
	ctx.Cov.Count("shape=" + scn.Shape)
	ctx.Cov.Bucket("blocks", len(scn.Blocks))
	ctx.Cov.Bucket("logs", logs)
	ctx.Cov.Add("requests", out.requests)
	if len(out.fails) > 0 {
		class := out.fails[0][0]
		if chainsim.Reported(ctx, "property:"+class) {
			return
		}
		small := chainsim.Shrink(scn, 80, func(c *chainsim.Scenario) bool {
			o := execute(c, ctx.Oracle, nil)
			return o.err == nil && len(o.fails) > 0 && o.fails[0][0] == class
		})
		o := execute(small, ctx.Oracle, nil)
		msg := out.fails[0][1]
		if len(o.fails) > 0 {
			msg = o.fails[0][1]
		}
		ctx.Violation("property:"+class, msg, small, true)
		return
	}
	if out.diffAt >= 0 {
		if chainsim.Reported(ctx, "correspondence:"+cmdOf(out.line)) {
			return
		}
		var direct *chainsim.Scenario
		var dmsg [2]string
		small := chainsim.Shrink(scn, 80, func(c *chainsim.Scenario) bool {
			o := execute(c, ctx.Oracle, nil)
			if o.err != nil {
				return false
			}
			if len(o.fails) > 0 && direct == nil {
				direct, dmsg = c, o.fails[0]
			}
			return o.diffAt >= 0 && cmdOf(o.line) == cmdOf(out.line)
		})
		if direct != nil {
			ctx.Violation("property:"+dmsg[0], dmsg[1], direct, true)
			return
		}
		o := execute(small, ctx.Oracle, nil)
		if o.diffAt < 0 {
			o, small = out, scn
		}
		ctx.Violation("correspondence:"+cmdOf(o.line),
			fmt.Sprintf("correspondence LogDB.Model ~ logdb + node.writeLogs no longer checks (theorems of Properties/C15.v are about the model): request %q impl=%s model=%s",
				clip(o.line), clip(o.impl), clip(o.md)), small, false)
	}
}

func main() {
	ctx := hx.Init("C15")
	if ctx.Replay != "" {
		if sc := loadSyncReplay(ctx.Replay); sc != nil {
			runSyncCases(ctx, buildSyncBin(ctx), []*syncCase{sc})
			ctx.Finish("replay (start-up re-sync case)", nil)
		}
		scn, err := chainsim.LoadReplay(ctx.Replay)
		if err != nil {
			hx.Fatal("bad replay file: %v", err)
		}
		runOne(ctx, scn)
		ctx.Finish("replay", nil)
	}
	// the test binary of cmd/thor (hook for sync_logdb.go) is built from the tree while the import histories run
	sbc := make(chan *syncBin, 1)
	go func() { sbc <- buildSyncBin(ctx) }()
	var syncCorpus []*syncCase
	for _, f := range chainsim.Corpus(os.Getenv("VERIF_CORPUS")) {
		if sc := loadSyncReplay(f); sc != nil {
			syncCorpus = append(syncCorpus, sc)
			ctx.Cov.Count("corpus")
			continue
		}
		if scn, err := chainsim.LoadReplay(f); err == nil {
			runOne(ctx, scn)
			ctx.Cov.Count("corpus")
		}
	}
	r := hx.NewRand(ctx.Seed)
	nBushy, nLong := ctx.Scale(600, 6000), ctx.Scale(45, 400)
	for i := 0; i < nBushy; i++ {
		runOne(ctx, chainsim.GenBushy(r.Fork(uint64(i)), chainsim.GenOpts{Logs: true}))
	}
	for i := 0; i < nLong; i++ {
		rr := r.Fork(uint64(1000000 + i))
		runOne(ctx, chainsim.GenLong(rr, chainsim.GenOpts{Logs: true}, rr.Range(30, 110)))
	}
	sb := <-sbc
	runSyncCases(ctx, sb, syncCorpus)
	syncRule := syncLogPhase(ctx, sb)
	ctx.Finish(fmt.Sprintf("import histories on a real chain.Repository + logdb.NewMem through the node's real writeLogs (hook): %d bushy trees (8-60 blocks, "+
		"best moving to higher / equal / lower siblings, the same tx with different logs on siblings, blocks without logs, 0-6 topics incl. zero / "+
		"leading-zero / address topics, empty and 0x00 data, zero amounts) + %d long; after every import FilterEvents(nil)/FilterTransfers(nil) "+
		"vs the model's tables and vs the receipts of the real canonical chain, plus random filters (0-3 criteria, ranges incl. inverted / "+
		"out-of-range, offsets up to 2^63-1 and beyond, limit 0, both orders) vs the model and vs a reference filter; non-trivial = a fork and >= 4 logs",
		nBushy, nLong)+syncRule,
		[]string{"SQLite executes the SQL; the model gives the statements their meaning as list functions (tied by this run)",
			"block / tx ids and origins are inputs computed by the real library",
			"syncLogDB / seekLogDBSyncPosition / verifyLogDB are the real unexported functions of package main, run inside cmd/thor's own test binary (hook cmd/thor/verif_hooks_synclog_test.go: decodes blocks / receipts, replays Writer operations for the pre-state, dumps return values and tables); progress-bar output is discarded",
			"the node is constructed with node.New(repo, logDB) only; writeLogs is the real unexported method (hook cmd/thor/node/verif_hooks.go); the becomeBest decision is an input of the history"})
}
