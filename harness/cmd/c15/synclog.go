// synclog.go (C15): the start-up re-sync of the log db (cmd/thor/sync_logdb.go: syncLogDB, seekLogDBSyncPosition,
// verifyLogDB) lives in package main of cmd/thor and cannot be imported.  It is reached through an add-only test file
// under the build tag verif (cmd/thor/verif_hooks_synclog_test.go): the harness builds cmd/thor's test binary against the
// tree under check once per run, hands it a batch of cases (blocks and receipts as RLP taken from a chainsim tree built in
// this process, which block is best, the pre-state of the log db as Writer operations) and reads back what the REAL
// functions returned and the resulting tables.  Every case is compared with the extracted model (SEEK / VERIFY / SYNC /
// EVS / TRS of the oracle) and, where the pre-state is canonical for some stored block (the hypothesis of theorem
// sync_reestablishes_canonical), the property predicate is evaluated directly: after the re-sync both tables equal the
// rows recomputed from the receipts of the real canonical chain.
package main

import (
	"encoding/hex"
	"encoding/json"
	"fmt"
	"os"
	"os/exec"
	"path/filepath"
	"strings"
	"time"

	"github.com/ethereum/go-ethereum/rlp"

	"github.com/vechain/thor/v2/logdb"
	"github.com/vechain/thor/v2/tx"

	"verif/harness/internal/chainsim"
	"verif/harness/internal/hx"
)

// ---------------------------------------------------------------- case format (also the replay format)

type preOp struct {
	W *int    `json:"w,omitempty"` // Writer.Write of block index w (chainsim index: 1 = first scenario block)
	T *uint32 `json:"t,omitempty"` // Writer.Truncate(t)
}

type syncSpec struct {
	Kind      string  `json:"kind"`
	Pre       []preOp `json:"pre"`
	Canon     int     `json:"canon"` // the pre-state is the canonical tables of this block index; -1 = not canonical for any block
	Verify    bool    `json:"verify,omitempty"`
	VerifyEnd *uint32 `json:"verify_end,omitempty"`
}

// syncCase = a chainsim scenario (its Best flags decide the best block) + the log db pre-state.
type syncCase struct {
	chainsim.Scenario
	Sync *syncSpec `json:"synclog"`
}

// what the hook reads / writes (field names of cmd/thor/verif_hooks_synclog_test.go)
type hookBlock struct {
	Block     string `json:"b"`
	Receipts  string `json:"r"`
	Conflicts uint32 `json:"c"`
	Best      bool   `json:"best"`
}
type hookCase struct {
	Genesis   string      `json:"genesis"`
	Blocks    []hookBlock `json:"blocks"`
	Pre       []preOp     `json:"pre"` // w is an index into Blocks here (chainsim index - 1)
	VerifyEnd *uint32     `json:"verify_end,omitempty"`
	Verify    bool        `json:"verify"`
}
type hookResult struct {
	Fatal     string            `json:"fatal"`
	SeekPos   uint32            `json:"seek_pos"`
	SeekErr   bool              `json:"seek_err"`
	VerifyRun bool              `json:"verify_run"`
	VerifyErr bool              `json:"verify_err"`
	SyncErr   bool              `json:"sync_err"`
	Events    []*logdb.Event    `json:"events"`
	Transfers []*logdb.Transfer `json:"transfers"`
}

// ---------------------------------------------------------------- the test binary

type syncBin struct {
	path     string
	dir      string
	buildErr string
	buildS   float64
	runS     float64
	runs     int
}

func repoDir() string {
	if d := os.Getenv("VERIF_REPO"); d != "" {
		return d
	}
	return "/repo"
}

// buildSyncBin compiles cmd/thor's test binary (build tag verif) of the tree under check into the run's output directory.
func buildSyncBin(ctx *hx.Ctx) *syncBin {
	dir := ""
	if ctx.Out != "" {
		dir = filepath.Dir(ctx.Out)
	} else if v := os.Getenv("VERIF_DIR"); v != "" {
		dir = filepath.Join(v, "out", "C15")
	} else {
		dir = filepath.Join("/verif", "out", "C15")
	}
	os.MkdirAll(dir, 0o755)
	// one binary per process: concurrent runs of the same check (different seeds / tiers) must not delete each other's binary
	if old, _ := filepath.Glob(filepath.Join(dir, "thor-synclog-*.test")); old != nil {
		for _, f := range old {
			if st, err := os.Stat(f); err == nil && time.Since(st.ModTime()) > 30*time.Minute {
				os.Remove(f)
			}
		}
	}
	sb := &syncBin{path: filepath.Join(dir, fmt.Sprintf("thor-synclog-%d.test", os.Getpid())), dir: dir}
	os.Remove(sb.path)
	t0 := time.Now()
	cmd := exec.Command("go", "test", "-c", "-tags", "verif", "-o", sb.path, "./cmd/thor")
	cmd.Dir = repoDir()
	cmd.Env = append(os.Environ(), "GOFLAGS=-mod=mod", "GOPROXY=off")
	out, err := cmd.CombinedOutput()
	sb.buildS = time.Since(t0).Seconds()
	if err != nil {
		sb.buildErr = fmt.Sprintf("%v: %s", err, clip(string(out)))
	} else if _, e := os.Stat(sb.path); e != nil {
		sb.buildErr = "go test -c produced no binary: " + clip(string(out))
	}
	return sb
}

// run hands a batch to the real functions (one process).
func (sb *syncBin) run(cases []hookCase) ([]hookResult, error) {
	t0 := time.Now()
	defer func() { sb.runS += time.Since(t0).Seconds(); sb.runs++ }()
	in, err := os.CreateTemp(sb.dir, "synclog-in-*.json")
	if err != nil {
		return nil, err
	}
	defer os.Remove(in.Name())
	outPath := in.Name() + ".out"
	defer os.Remove(outPath)
	b, _ := json.Marshal(cases)
	in.Write(b)
	in.Close()
	cmd := exec.Command(sb.path, "-test.run", "^TestVerifSyncLogDB$", "-test.timeout", "600s")
	cmd.Dir = sb.dir
	cmd.Env = append(os.Environ(), "VERIF_SYNCLOG_IN="+in.Name(), "VERIF_SYNCLOG_OUT="+outPath)
	out, err := cmd.CombinedOutput() // progress bars of the real function: discarded
	if err != nil {
		tail := string(out)
		if len(tail) > 1500 {
			tail = tail[len(tail)-1500:]
		}
		return nil, fmt.Errorf("test binary failed: %v: %s", err, tail)
	}
	raw, err := os.ReadFile(outPath)
	if err != nil {
		return nil, fmt.Errorf("test binary wrote no result (is TestVerifSyncLogDB still there?): %v", err)
	}
	var res []hookResult
	if err := json.Unmarshal(raw, &res); err != nil {
		return nil, err
	}
	if len(res) != len(cases) {
		return nil, fmt.Errorf("%d results for %d cases", len(res), len(cases))
	}
	return res, nil
}

// ---------------------------------------------------------------- preparing a case: the tree is built in this process

type prepared struct {
	c       *syncCase
	hook    hookCase
	lines   []string // oracle session
	nAdd    int      // lines[0..nAdd] are INIT + ADD (answer "ok")
	wantEv  string   // canonical rows of the real best chain (reference)
	wantTr  string
	bestNum uint32
	nonTriv bool
	res     *hookResult
}

func prepare(c *syncCase) (*prepared, error) {
	s, err := chainsim.NewSim(&c.Scenario)
	if err != nil {
		return nil, err
	}
	defer s.Close()
	p := &prepared{c: c}
	enc := func(v any) string {
		b, err := rlp.EncodeToBytes(v)
		if err != nil {
			panic(err)
		}
		return hex.EncodeToString(b)
	}
	p.hook.Genesis = enc(s.Blocks[0])
	p.lines = append(p.lines, s.InitLine())
	for !s.Done() {
		b, rcs, conf, spec, err := s.BuildNext()
		if err != nil {
			return nil, err
		}
		if err := s.Commit(b, rcs, conf, spec); err != nil {
			return nil, err
		}
		if rcs == nil {
			rcs = tx.Receipts{}
		}
		p.hook.Blocks = append(p.hook.Blocks, hookBlock{Block: enc(b), Receipts: enc(rcs), Conflicts: conf, Best: spec.Best})
		p.lines = append(p.lines, chainsim.AddLine(b, rcs, conf, spec.Best))
	}
	p.nAdd = len(p.lines)
	for _, op := range c.Sync.Pre {
		switch {
		case op.W != nil:
			if *op.W < 1 || *op.W >= len(s.Blocks) {
				return nil, fmt.Errorf("pre-state names block %d of %d", *op.W, len(s.Blocks)-1)
			}
			i := *op.W - 1
			p.hook.Pre = append(p.hook.Pre, preOp{W: &i})
			p.lines = append(p.lines, "DBW "+chainsim.N32(s.ID(*op.W)))
		case op.T != nil:
			p.hook.Pre = append(p.hook.Pre, op)
			p.lines = append(p.lines, fmt.Sprintf("DBT %x", *op.T))
		}
	}
	p.hook.Verify, p.hook.VerifyEnd = c.Sync.Verify, c.Sync.VerifyEnd
	p.lines = append(p.lines, "SEEK")
	if c.Sync.VerifyEnd != nil {
		p.lines = append(p.lines, fmt.Sprintf("VERIFY %x", *c.Sync.VerifyEnd))
	}
	p.lines = append(p.lines, "SYNC "+hx.B(c.Sync.Verify), "EVS", "TRS")
	evs, trs, err := canonicalRows(s, nil)
	if err != nil {
		return nil, err
	}
	p.wantEv, p.wantTr = showRows(evs), showRows(trs)
	p.bestNum = s.Repo.BestBlockSummary().Header.Number()
	p.nonTriv = len(evs)+len(trs) >= 2 && p.bestNum >= 1 && len(c.Sync.Pre) > 0
	return p, nil
}

// answers renders what the real functions returned in the oracle's answer syntax, line by line.
func (p *prepared) answers(r *hookResult) []string {
	var w []string
	for i := 0; i < p.nAdd; i++ {
		w = append(w, "ok")
	}
	for range p.c.Sync.Pre {
		w = append(w, "ok")
	}
	if r.SeekErr {
		w = append(w, "err")
	} else {
		w = append(w, fmt.Sprintf("ok:%x", r.SeekPos))
	}
	if p.c.Sync.VerifyEnd != nil {
		w = append(w, okErr(r.VerifyErr))
	}
	w = append(w, okErr(r.SyncErr), showEvents(r.Events), showTransfers(r.Transfers))
	return w
}

func okErr(e bool) string {
	if e {
		return "err"
	}
	return "ok"
}

// ---------------------------------------------------------------- generation

type tree struct {
	parent []int
	height []uint32
}

func treeOf(scn *chainsim.Scenario) *tree {
	t := &tree{parent: []int{-1}, height: []uint32{0}}
	for _, b := range scn.Blocks {
		t.parent = append(t.parent, b.Parent)
		t.height = append(t.height, t.height[b.Parent]+1)
	}
	return t
}
func (t *tree) path(i int) []int { // genesis excluded, ascending
	var p []int
	for x := i; x > 0; x = t.parent[x] {
		p = append([]int{x}, p...)
	}
	return p
}
func (t *tree) ancestorAt(i int, h uint32) int {
	for t.height[i] > h {
		i = t.parent[i]
	}
	return i
}
func (t *tree) isAncestor(a, b int) bool { // a on the path genesis..b
	return t.height[a] <= t.height[b] && t.ancestorAt(b, t.height[a]) == a
}
func (t *tree) pick(r *hx.Rand, ok func(i int) bool) int {
	var c []int
	for i := range t.parent {
		if ok(i) {
			c = append(c, i)
		}
	}
	if len(c) == 0 {
		return -1
	}
	return c[r.Intn(len(c))]
}

var syncKinds = []string{"lag-by-one", "lag-several", "synced", "empty", "ahead-abandoned", "ahead-descendant", "sibling-same-height",
	"stale-above-best", "best-genesis", "truncated", "mixed", "random"}

// relation of the stored block x to the best block b (for the distribution in the evidence)
func (t *tree) relation(x, b int) string {
	switch {
	case x == b:
		return "same"
	case x == 0:
		return "none"
	case t.isAncestor(x, b):
		return "ancestor"
	case t.isAncestor(b, x):
		return "descendant"
	case t.height[x] == t.height[b]:
		return "other-branch-same-height"
	case t.height[x] > t.height[b]:
		return "other-branch-higher"
	}
	return "other-branch-lower"
}

// genSyncCase: a tree from the chainsim generators, then a best block and a log db pre-state of the wanted kind
// (falls back to kind "random" where the tree has no such pair).
func genSyncCase(r *hx.Rand, kind string, long bool) *syncCase {
	var scn *chainsim.Scenario
	if long {
		scn = chainsim.GenLong(r, chainsim.GenOpts{Logs: true}, r.Range(101, 230))
	} else {
		scn = chainsim.GenBushy(r, chainsim.GenOpts{Logs: true})
	}
	t := treeOf(scn)
	n := len(t.parent)
	anyBlock := func(int) bool { return true }
	b, x := -1, -1
	sp := &syncSpec{Kind: kind, Canon: -1}
	writes := func(ids []int) {
		for _, i := range ids {
			i := i
			sp.Pre = append(sp.Pre, preOp{W: &i})
		}
	}
	high := func(min uint32) int { // a block of height >= min, biased towards the top
		a, c := t.pick(r, func(i int) bool { return t.height[i] >= min }), t.pick(r, func(i int) bool { return t.height[i] >= min })
		if a >= 0 && c >= 0 && t.height[c] > t.height[a] {
			a = c
		}
		return a
	}
	switch kind {
	case "lag-by-one":
		if b = high(2); b < 0 {
			b = high(1)
		}
		if b >= 0 {
			x = t.parent[b]
		}
	case "lag-several":
		if b = high(3); b >= 0 {
			x = t.ancestorAt(b, uint32(r.Intn(int(t.height[b])-1)))
		}
	case "synced":
		b = high(1)
		x = b
	case "empty":
		b, x = high(1), 0
	case "ahead-abandoned", "stale-above-best":
		x = high(2)
		if x >= 0 {
			if kind == "stale-above-best" { // the branches part right below best: the seek starts at best-1 and finds it written
				b = t.pick(r, func(i int) bool {
					return i > 0 && !t.isAncestor(i, x) && t.height[i] < t.height[x] && t.isAncestor(t.parent[i], x)
				})
			} else {
				b = t.pick(r, func(i int) bool { return i > 0 && !t.isAncestor(i, x) && t.height[i] < t.height[x] })
			}
		}
	case "ahead-descendant":
		x = high(2)
		if x >= 0 {
			b = t.ancestorAt(x, uint32(1+r.Intn(int(t.height[x])-1)))
		}
	case "sibling-same-height":
		b = t.pick(r, func(i int) bool {
			return i > 0 && t.pick(r, func(j int) bool { return j != i && t.height[j] == t.height[i] }) >= 0
		})
		if b >= 0 {
			x = t.pick(r, func(j int) bool { return j != b && t.height[j] == t.height[b] })
		}
	case "best-genesis":
		b, x = 0, t.pick(r, anyBlock)
	case "truncated":
		b, x = high(1), t.pick(r, anyBlock)
	case "mixed":
		b, x = high(1), t.pick(r, anyBlock)
	}
	if b < 0 || x < 0 {
		sp.Kind = "random"
		b, x = t.pick(r, anyBlock), t.pick(r, anyBlock)
		if r.Chance(3, 4) && n > 1 {
			b = 1 + r.Intn(n-1)
		}
	}
	writes(t.path(x))
	sp.Canon = x
	switch sp.Kind {
	case "truncated":
		at := uint32(r.Intn(int(t.height[x]) + 2))
		sp.Pre = append(sp.Pre, preOp{T: &at})
		if at <= t.height[x] {
			sp.Canon = 0
			if at > 0 {
				sp.Canon = t.ancestorAt(x, at-1)
			}
		}
	case "mixed": // rows of arbitrary other blocks on top (INSERT OR IGNORE): not the tables of any block
		for k := r.Range(1, 4); k > 0; k-- {
			i := t.pick(r, func(i int) bool { return i > 0 })
			if i > 0 {
				sp.Pre = append(sp.Pre, preOp{W: &i})
				sp.Canon = -1
			}
		}
	}
	// the scenario's Best flags: the history makes every block of the path to b best in turn, b last
	for i := range scn.Blocks {
		scn.Blocks[i].Best = false
	}
	if b > 0 {
		last := 0
		for _, i := range t.path(b) {
			if i > last {
				scn.Blocks[i-1].Best = true
				last = i
			}
		}
		// blocks of the path with a smaller index than an earlier path block cannot occur (parents precede children)
		// but a block added after b must not be best: flags beyond b stay false
	}
	if r.Chance(1, 3) {
		sp.Verify = true
	}
	if r.Chance(1, 3) {
		e := uint32(r.Intn(int(t.height[b]) + 1))
		if r.Chance(1, 10) {
			e = t.height[b] + 1 + uint32(r.Intn(2)) // beyond best: the block pump fails
		}
		sp.VerifyEnd = &e
	}
	scn.Shape = "synclog:" + sp.Kind
	return &syncCase{Scenario: *scn, Sync: sp}
}

// bestOf: the best block index a scenario's flags lead to (last flagged block).
func bestOf(scn *chainsim.Scenario) int {
	b := 0
	for i, bl := range scn.Blocks {
		if bl.Best {
			b = i + 1
		}
	}
	return b
}

// ---------------------------------------------------------------- evaluation of a batch

type syncVerdict struct {
	propClass, propMsg string // property predicate failed on the implementation's answers
	diffLine           string // first oracle line on which model and implementation differ ("" = none)
	impl, model        string
	fatal              string
}

func evalBatch(sb *syncBin, oracle string, cases []*syncCase) ([]*prepared, []syncVerdict, error) {
	var preps []*prepared
	var hooks []hookCase
	var lines []string
	for _, c := range cases {
		p, err := prepare(c)
		if err != nil {
			return nil, nil, err
		}
		preps = append(preps, p)
		hooks = append(hooks, p.hook)
		lines = append(lines, p.lines...)
	}
	res, err := sb.run(hooks)
	if err != nil {
		return preps, nil, err
	}
	ans, err := hx.AskAll(oracle, lines)
	if err != nil {
		hx.Fatal("oracle failed on the sync_logdb session: %v", err)
	}
	verdicts := make([]syncVerdict, len(cases))
	off := 0
	for i, p := range preps {
		v := &verdicts[i]
		r := &res[i]
		p.res = r
		mine := ans[off : off+len(p.lines)]
		off += len(p.lines)
		if r.Fatal != "" {
			v.fatal = r.Fatal
			continue
		}
		// the property itself: from tables that are the canonical tables of some stored block, the re-sync succeeds and
		// leaves exactly the logs of the canonical chain (recomputed here from the real receipts)
		if p.c.Sync.Canon >= 0 {
			ge, gt := showEvents(r.Events), showTransfers(r.Transfers)
			how := ""
			if r.SyncErr {
				how = fmt.Sprintf(" (syncLogDB(verify=%v) returned an error)", p.c.Sync.Verify)
			}
			switch {
			case ge != p.wantEv:
				v.propClass = "synclog-tables-not-canonical-after-resync"
				v.propMsg = fmt.Sprintf("after syncLogDB%s the event table differs from the logs of the canonical chain (pre-state %s: the tables of a stored block; best at height %d, seek position %d): have %d rows, the chain's receipts prescribe %d",
					how, p.c.Sync.Kind, p.bestNum, r.SeekPos, len(r.Events), strings.Count(p.wantEv, "|")+b2i(len(p.wantEv) > 3))
			case gt != p.wantTr:
				v.propClass = "synclog-tables-not-canonical-after-resync"
				v.propMsg = fmt.Sprintf("after syncLogDB%s the transfer table differs from the logs of the canonical chain (pre-state %s: the tables of a stored block; best at height %d, seek position %d): have %d rows, the chain's receipts prescribe %d",
					how, p.c.Sync.Kind, p.bestNum, r.SeekPos, len(r.Transfers), strings.Count(p.wantTr, "|")+b2i(len(p.wantTr) > 3))
			}
		}
		want := p.answers(r)
		for k := range want {
			if want[k] != mine[k] {
				v.diffLine, v.impl, v.model = p.lines[k], want[k], mine[k]
				break
			}
		}
	}
	return preps, verdicts, nil
}

func b2i(b bool) int {
	if b {
		return 1
	}
	return 0
}

// ---------------------------------------------------------------- shrinking a failing case

// restrict keeps only the blocks the case refers to (ancestors of best and of the written blocks), renumbering.
func restrict(c *syncCase) *syncCase {
	t := treeOf(&c.Scenario)
	keep := make([]bool, len(t.parent))
	mark := func(i int) {
		for x := i; x > 0 && !keep[x]; x = t.parent[x] {
			keep[x] = true
		}
	}
	mark(bestOf(&c.Scenario))
	for _, op := range c.Sync.Pre {
		if op.W != nil {
			mark(*op.W)
		}
	}
	if c.Sync.Canon > 0 {
		mark(c.Sync.Canon)
	}
	return project(c, keep)
}

func project(c *syncCase, keep []bool) *syncCase {
	newIdx := make([]int, len(keep))
	out := &syncCase{Scenario: chainsim.Scenario{Shape: c.Shape, Txs: c.Txs, QSeed: c.QSeed}}
	n := 0
	for i := 1; i < len(keep); i++ {
		if !keep[i] {
			continue
		}
		n++
		newIdx[i] = n
		b := c.Blocks[i-1]
		nb := chainsim.BlockSpec{Parent: newIdx[b.Parent], Best: b.Best}
		nb.Incl = append(nb.Incl, b.Incl...)
		out.Blocks = append(out.Blocks, nb)
	}
	sp := *c.Sync
	sp.Pre = nil
	for _, op := range c.Sync.Pre {
		if op.W != nil {
			i := newIdx[*op.W]
			sp.Pre = append(sp.Pre, preOp{W: &i})
		} else {
			sp.Pre = append(sp.Pre, op)
		}
	}
	if sp.Canon > 0 {
		sp.Canon = newIdx[sp.Canon]
	}
	out.Sync = &sp
	return out
}

// shrinkSync: restrict to the referenced blocks, drop the verify options, then drop inclusions, as long as bad holds.
func shrinkSync(c *syncCase, budget int, bad func(*syncCase) bool) *syncCase {
	cur := c
	try := func(n *syncCase) bool {
		if budget <= 0 {
			return false
		}
		budget--
		if bad(n) {
			cur = n
			return true
		}
		return false
	}
	try(restrict(cur))
	if cur.Sync.VerifyEnd != nil || cur.Sync.Verify {
		n := *cur
		sp := *cur.Sync
		sp.Verify, sp.VerifyEnd = false, nil
		n.Sync = &sp
		try(&n)
	}
	for bi := len(cur.Blocks) - 1; bi >= 0 && budget > 0; bi-- {
		for k := len(cur.Blocks[bi].Incl) - 1; k >= 0 && budget > 0; k-- {
			n := project(cur, allTrue(len(cur.Blocks)+1))
			n.Blocks[bi].Incl = append(append([]chainsim.Incl{}, n.Blocks[bi].Incl[:k]...), n.Blocks[bi].Incl[k+1:]...)
			try(n)
		}
	}
	return cur
}

func allTrue(n int) []bool {
	l := make([]bool, n)
	for i := range l {
		l[i] = true
	}
	return l
}

// ---------------------------------------------------------------- driver

const syncTheorem = "sync_reestablishes_canonical (Properties/C15.v) is about LogDB.Model.sync_logdb"

func reportSync(ctx *hx.Ctx, sb *syncBin, cases []*syncCase, preps []*prepared, verdicts []syncVerdict) {
	// property failures first (a concrete failing input), then fatal hooks, then model/implementation differences
	for i, v := range verdicts {
		if v.propClass == "" || chainsim.Reported(ctx, "property:"+v.propClass) {
			continue
		}
		class := v.propClass
		small := shrinkSync(cases[i], 25, func(n *syncCase) bool {
			_, vs, err := evalBatch(sb, ctx.Oracle, []*syncCase{n})
			return err == nil && vs[0].propClass == class
		})
		msg := v.propMsg
		if _, vs, err := evalBatch(sb, ctx.Oracle, []*syncCase{small}); err == nil && vs[0].propClass == class {
			msg = vs[0].propMsg
		}
		ctx.Violation("property:"+class, msg, small, true)
	}
	for i, v := range verdicts {
		if v.fatal != "" {
			ctx.Violation("correspondence:synclog-hook-inputs", "the sync_logdb hook could not build its inputs on this tree (chain.Repository / logdb.Writer refused data built by the same packages in the harness): "+clip(v.fatal)+"; "+syncTheorem,
				cases[i], false)
			break
		}
	}
	for i, v := range verdicts {
		if v.diffLine == "" || v.propClass != "" { // a case on which the property itself fails is reported above
			continue
		}
		class := "correspondence:synclog-" + cmdOf(v.diffLine)
		if chainsim.Reported(ctx, class) {
			continue
		}
		cmd := cmdOf(v.diffLine)
		small := shrinkSync(cases[i], 25, func(n *syncCase) bool {
			_, vs, err := evalBatch(sb, ctx.Oracle, []*syncCase{n})
			return err == nil && vs[0].diffLine != "" && cmdOf(vs[0].diffLine) == cmd
		})
		if _, vs, err := evalBatch(sb, ctx.Oracle, []*syncCase{small}); err == nil && vs[0].diffLine != "" {
			v = vs[0]
			if v.propClass != "" {
				if !chainsim.Reported(ctx, "property:"+v.propClass) {
					ctx.Violation("property:"+v.propClass, v.propMsg, small, true)
				}
				continue
			}
		}
		ctx.Violation(class, fmt.Sprintf("correspondence LogDB.Model ~ cmd/thor/sync_logdb.go no longer checks (%s): request %q impl=%s model=%s",
			syncTheorem, clip(v.diffLine), clip(v.impl), clip(v.model)), small, false)
	}
	_ = preps
}

// loadSyncReplay recognises a replay / corpus file holding a sync case.
func loadSyncReplay(path string) *syncCase {
	b, err := os.ReadFile(path)
	if err != nil {
		return nil
	}
	var doc struct {
		Replay *syncCase `json:"replay"`
	}
	if json.Unmarshal(b, &doc) == nil && doc.Replay != nil && doc.Replay.Sync != nil {
		return doc.Replay
	}
	var c syncCase
	if json.Unmarshal(b, &c) == nil && c.Sync != nil {
		return &c
	}
	return nil
}

// runSyncCases: build the binary (once), run the cases in one batch, report.  Returns false if the binary does not build.
func runSyncCases(ctx *hx.Ctx, sb *syncBin, cases []*syncCase) {
	if len(cases) == 0 {
		return
	}
	if sb.buildErr != "" {
		ctx.Violation("correspondence:synclog-hook-build", "sync_logdb hook does not build: `go test -c -tags verif ./cmd/thor` fails on this tree, so the correspondence "+
			"LogDB.Model ~ cmd/thor/sync_logdb.go cannot be run ("+syncTheorem+"): "+sb.buildErr, nil, false)
		return
	}
	preps, verdicts, err := evalBatch(sb, ctx.Oracle, cases)
	if err != nil && preps == nil {
		hx.Fatal("sync case cannot be prepared: %v", err)
	}
	if err != nil {
		// the whole batch died (panic / time-out inside the code under test): find one case that does it
		var culprit *syncCase
		for _, c := range cases {
			if _, _, e := evalBatch(sb, ctx.Oracle, []*syncCase{c}); e != nil {
				culprit = restrict(c)
				if _, _, e2 := evalBatch(sb, ctx.Oracle, []*syncCase{culprit}); e2 == nil {
					culprit = c
				}
				break
			}
		}
		ctx.Violation("correspondence:synclog-hook-run", "the sync_logdb hook run did not complete on this tree (crash or time-out inside syncLogDB / seekLogDBSyncPosition / verifyLogDB, "+
			"where the model answers): "+clip(err.Error())+"; "+syncTheorem, culprit, false)
		return
	}
	for i, p := range preps {
		c := cases[i]
		t := treeOf(&c.Scenario)
		canon := "canonical-pre-state"
		if c.Sync.Canon < 0 {
			canon = "non-canonical-pre-state"
		}
		cj, _ := json.Marshal(c)
		ctx.Cov.Case(string(cj), p.nonTriv, map[string]any{"shape": c.Shape, "blocks": len(c.Blocks), "best_height": p.bestNum,
			"pre_ops": len(c.Sync.Pre), "verify": c.Sync.Verify})
		ctx.Cov.Count("synclog:kind=" + c.Sync.Kind)
		ctx.Cov.Count("synclog:" + canon)
		if c.Sync.Canon >= 0 {
			ctx.Cov.Count("synclog:stored-block-is=" + t.relation(c.Sync.Canon, bestOf(&c.Scenario)))
		}
		if c.Sync.Verify {
			ctx.Cov.Count("synclog:verify-arg")
		}
		if c.Sync.VerifyEnd != nil {
			ctx.Cov.Count("synclog:verifyLogDB-alone")
		}
		ctx.Cov.Add("requests", len(p.lines))
		if r := p.res; r != nil && r.Fatal == "" {
			switch {
			case r.SeekErr:
				ctx.Cov.Count("synclog:seek=error")
			case r.SeekPos == 0:
				ctx.Cov.Count("synclog:seek=0-rebuild")
			case r.SeekPos == p.bestNum+1:
				ctx.Cov.Count("synclog:seek=best+1-nothing-to-do")
			case r.SeekPos == p.bestNum:
				ctx.Cov.Count("synclog:seek=best-only-best-missing")
			case r.SeekPos == 1:
				ctx.Cov.Count("synclog:seek=1-walked-to-genesis")
			default:
				ctx.Cov.Count("synclog:seek=inside-chain")
			}
			if r.VerifyRun {
				ctx.Cov.Count("synclog:verifyLogDB-alone=" + okErr(r.VerifyErr))
			}
			if c.Sync.Verify {
				ctx.Cov.Count("synclog:sync-with-verify=" + okErr(r.SyncErr))
			}
			if len(r.Events)+len(r.Transfers) > 0 {
				ctx.Cov.Count("synclog:tables-nonempty-after")
			}
		}
	}
	reportSync(ctx, sb, cases, preps, verdicts)
}

// syncLogPhase: the generated batch of the run.
func syncLogPhase(ctx *hx.Ctx, sb *syncBin) string {
	r := hx.NewRand(ctx.Seed ^ 0x5eed51c)
	per, nLong := ctx.Scale(28, 250), ctx.Scale(8, 60)
	var cases []*syncCase
	for k := 0; k < per; k++ {
		for ki, kind := range syncKinds {
			cases = append(cases, genSyncCase(r.Fork(uint64(k*64+ki)), kind, false))
		}
	}
	for k := 0; k < nLong; k++ {
		cases = append(cases, genSyncCase(r.Fork(uint64(900000+k)), syncKinds[k%len(syncKinds)], true))
	}
	// batches bound the size of one input file / one process
	for from := 0; from < len(cases); from += 400 {
		to := from + 400
		if to > len(cases) {
			to = len(cases)
		}
		runSyncCases(ctx, sb, cases[from:to])
	}
	ctx.Cov.Add("synclog:build-ms", int(sb.buildS*1000))
	ctx.Cov.Add("synclog:run-ms", int(sb.runS*1000))
	return fmt.Sprintf("; start-up re-sync: %d cases (%d kinds of log db pre-state x %d bushy trees + %d trunks of 101-230 blocks: one / several blocks behind, synced, empty, "+
		"ahead on an abandoned branch / on a descendant, sibling at best's height, stale rows above best, best = genesis, truncated, mixed rows) run through the REAL "+
		"syncLogDB / seekLogDBSyncPosition / verifyLogDB (cmd/thor test binary built from the tree, hook verif_hooks_synclog_test.go) vs the model's seek_position / "+
		"verify_logdb / sync_logdb_v and vs the receipts of the real canonical chain", len(cases), len(syncKinds), per, nLong)
}
