// c05 — correspondence driver for property C05 (one entitled proposer per slot, all nodes agree).
// It drives the real scheduler package on generated proposer lists / times, asks the extracted Coq model
// (oracle/c05) the same questions, diffs the answers, and independently evaluates the property's own
// predicates (uniqueness, earliest-slot, iff, viewpoint agreement) on the implementation's answers.
package main

import (
	"encoding/binary"
	"encoding/json"
	"fmt"
	"math"
	"math/rand/v2"
	"os"
	"sort"
	"strings"

	"github.com/vechain/thor/v2/scheduler"
	"github.com/vechain/thor/v2/thor"

	"verif/harness/internal/chaingen"
	"verif/harness/internal/hx"
)

type prop struct {
	Addr   string `json:"addr"` // hex
	Active bool   `json:"active"`
	Weight uint64 `json:"weight"`
}

type Case struct {
	Kind    string   `json:"kind"` // V1 V2 POS
	T       uint64   `json:"T"`
	PN      uint32   `json:"parent_number"`
	PT      uint64   `json:"parent_time"`
	Seed    string   `json:"seed_hex"`
	Me      string   `json:"me"`
	Total   uint64   `json:"total_weight"`
	Ps      []prop   `json:"proposers"`
	Nows    []uint64 `json:"schedule_queries"`
	IsT     []uint64 `json:"is_scheduled_times"`
	IsA     []string `json:"is_scheduled_addrs"`
	Updates []uint64 `json:"updates_queries"`
}

func addrOf(s string) thor.Address { a, _ := thor.ParseAddress("0x" + s); return a }

func (c *Case) proposers() []scheduler.Proposer {
	ps := make([]scheduler.Proposer, len(c.Ps))
	for i, p := range c.Ps {
		ps[i] = scheduler.Proposer{Address: addrOf(p.Addr), Active: p.Active, Weight: p.Weight}
	}
	return ps
}

func seedBytes(c *Case) []byte { b, _ := hexDecode(c.Seed); return b }

func hexDecode(s string) ([]byte, error) {
	b := make([]byte, len(s)/2)
	_, err := fmt.Sscanf(s, "%x", &b)
	if len(s) == 0 {
		return []byte{}, nil
	}
	return b, err
}

func build(c *Case, me thor.Address) (scheduler.Scheduler, error) {
	switch c.Kind {
	case "V1":
		return scheduler.NewPoASchedulerV1(me, c.proposers(), c.PN, c.PT)
	case "V2":
		return scheduler.NewPoASchedulerV2(me, c.proposers(), c.PN, c.PT, seedBytes(c))
	default:
		return scheduler.NewPoSScheduler(me, c.proposers(), c.PN, c.PT, seedBytes(c), c.Total)
	}
}

type isSched interface {
	IsScheduled(blockTime uint64, proposer thor.Address) bool
}

// sort keys, computed with the real hash / PRNG libraries (not modelled)
func keys(c *Case) []string {
	var num [4]byte
	binary.BigEndian.PutUint32(num[:], c.PN)
	out := make([]string, len(c.Ps))
	switch c.Kind {
	case "V2":
		for i, p := range c.Ps {
			h := thor.Blake2b(seedBytes(c), num[:], addrOf(p.Addr).Bytes())
			out[i] = hx.HexN(h.Bytes())
		}
	case "POS":
		hashed := thor.Blake2b(seedBytes(c), num[:])
		rnd := rand.New(rand.NewChaCha8(hashed))
		for i, p := range c.Ps {
			r := rnd.Float64()
			if r == 0 {
				r = 1e-10
			}
			score := -math.Log(r) / float64(p.Weight)
			out[i] = hx.U(math.Float64bits(score)) // non-negative floats order like their bit patterns
		}
	default:
		for i := range c.Ps {
			out[i] = "0"
		}
	}
	return out
}

func dprp(pn uint32, t uint64) uint64 {
	var b4 [4]byte
	var b8 [8]byte
	binary.BigEndian.PutUint32(b4[:], pn)
	binary.BigEndian.PutUint64(b8[:], t)
	return binary.BigEndian.Uint64(thor.Blake2b(b4[:], b8[:]).Bytes())
}

func showUpdates(ups []scheduler.Proposer, score uint64) string {
	type u struct {
		a string
		f bool
	}
	l := make([]u, len(ups))
	for i, p := range ups {
		l[i] = u{hx.HexN(p.Address.Bytes()), p.Active}
	}
	sort.Slice(l, func(i, j int) bool {
		if len(l[i].a) != len(l[j].a) {
			return len(l[i].a) < len(l[j].a)
		}
		if l[i].a != l[j].a {
			return l[i].a < l[j].a
		}
		return !l[i].f && l[j].f
	})
	parts := make([]string, len(l))
	for i, x := range l {
		parts[i] = x.a + "=" + hx.B(x.f)
	}
	return hx.U(score) + ":" + strings.Join(parts, ",")
}

type Obs struct {
	Unauthorized bool
	Seq          []string // reconstructed through IsScheduled (V2/POS)
	S            []string
	I            []string
	U            []string
	Panic        string
}

func safely(f func()) (p string) {
	defer func() {
		if r := recover(); r != nil {
			p = fmt.Sprint(r)
		}
	}()
	f()
	return ""
}

// observe runs the real implementation.
func observe(c *Case) (o Obs, hashSlots int) {
	thor.SetConfig(thor.Config{BlockInterval: c.T})
	me := addrOf(c.Me)
	s, err := build(c, me)
	if err != nil {
		o.Unauthorized = true
		return
	}
	o.Panic = safely(func() {
		if is, ok := s.(isSched); ok {
			n := 0
			for _, p := range c.Ps {
				if p.Active || p.Addr == c.Me {
					n++
				}
			}
			for i := 0; i < n; i++ {
				t := c.PT + uint64(i+1)*c.T
				owner := "none"
				for _, p := range c.Ps {
					if is.IsScheduled(t, addrOf(p.Addr)) {
						if owner != "none" {
							owner = "multiple"
							break
						}
						owner = hx.HexN(addrOf(p.Addr).Bytes())
					}
				}
				o.Seq = append(o.Seq, owner)
			}
		}
		for _, now := range c.Nows {
			o.S = append(o.S, hx.U(s.Schedule(now)))
		}
		for i, t := range c.IsT {
			if is, ok := s.(isSched); ok {
				o.I = append(o.I, hx.B(is.IsScheduled(t, addrOf(c.IsA[i]))))
			} else {
				o.I = append(o.I, hx.B(s.IsTheTime(t)))
			}
		}
		for _, nbt := range c.Updates {
			ups, score := s.Updates(nbt)
			o.U = append(o.U, showUpdates(ups, score))
		}
	})
	return
}

func oracleLine(c *Case, maxSlot uint64) string {
	var b strings.Builder
	fmt.Fprintf(&b, "%s %x %x %s %x |", c.Kind, c.T, c.PT, hx.HexN(addrOf(c.Me).Bytes()), c.Total)
	ks := keys(c)
	for i, p := range c.Ps {
		fmt.Fprintf(&b, " %s %s %x %s", hx.HexN(addrOf(p.Addr).Bytes()), hx.B(p.Active), p.Weight, ks[i])
	}
	b.WriteString(" | S")
	for _, n := range c.Nows {
		fmt.Fprintf(&b, " %x", n)
	}
	b.WriteString(" | I")
	for i, t := range c.IsT {
		fmt.Fprintf(&b, " %x %s", t, hx.HexN(addrOf(c.IsA[i]).Bytes()))
	}
	b.WriteString(" | U")
	for _, n := range c.Updates {
		fmt.Fprintf(&b, " %x", n)
	}
	b.WriteString(" | H")
	if c.Kind == "V1" {
		for k := uint64(1); k <= maxSlot; k++ {
			t := c.PT + k*c.T
			fmt.Fprintf(&b, " %x %x", t, dprp(c.PN, t))
		}
	}
	return b.String()
}

func expected(o *Obs, kind string) string {
	if o.Unauthorized {
		return "unauthorized"
	}
	seq := o.Seq
	return strings.TrimSpace("seq " + strings.Join(seq, " ") + " | S " + strings.Join(o.S, " ") + " | I " + strings.Join(o.I, " ") + " | U " + strings.Join(o.U, " "))
}

func normalise(ans string, kind string) string {
	ans = strings.Join(strings.Fields(ans), " ")
	if kind == "V1" && strings.HasPrefix(ans, "seq") {
		// the V1 active list is not observable through the public API; drop it from the comparison
		if i := strings.Index(ans, "|"); i >= 0 {
			ans = "seq " + ans[i:]
		}
	}
	return ans
}

// ---------------------------------------------------------------- the property's own predicates on the implementation

// propertyCheck evaluates C05 directly on the real scheduler; returns "" or a description of the failure.
func propertyCheck(c *Case) string {
	thor.SetConfig(thor.Config{BlockInterval: c.T})
	me := addrOf(c.Me)
	s, err := build(c, me)
	if err != nil {
		for _, p := range c.Ps {
			if p.Addr == c.Me {
				return "listed proposer rejected as unauthorized"
			}
		}
		return ""
	}
	var fail string
	if p := safely(func() {
		n := 0
		for _, p := range c.Ps {
			if p.Active || p.Addr == c.Me {
				n++
			}
		}
		// (a) exactly one owner per slot among the eligible members; same from the viewpoint of every active member
		if is, ok := s.(isSched); ok {
			var views []isSched
			for _, p := range c.Ps {
				if p.Active && len(views) < 3 && p.Addr != c.Me {
					if v, err := build(c, addrOf(p.Addr)); err == nil {
						views = append(views, v.(isSched))
					}
				}
			}
			meActive := false
			for _, p := range c.Ps {
				if p.Addr == c.Me {
					meActive = p.Active
				}
			}
			for i := 0; i < n+2 && fail == ""; i++ {
				t := c.PT + uint64(i+1)*c.T
				owners := 0
				var owner thor.Address
				for _, p := range c.Ps {
					if is.IsScheduled(t, addrOf(p.Addr)) {
						owners++
						owner = addrOf(p.Addr)
						if !(p.Active || p.Addr == c.Me) {
							fail = fmt.Sprintf("slot %d owned by ineligible proposer %s", t, p.Addr)
						}
					}
				}
				if owners != 1 && fail == "" {
					fail = fmt.Sprintf("slot %d has %d owners", t, owners)
				}
				if meActive && fail == "" {
					for _, v := range views {
						if !v.IsScheduled(t, owner) {
							fail = fmt.Sprintf("viewpoints disagree on the owner of slot %d", t)
						}
					}
				}
				// misaligned / non-future times are nobody's
				if is.IsScheduled(t+1, owner) && c.T > 1 && fail == "" {
					fail = fmt.Sprintf("misaligned time %d accepted", t+1)
				}
			}
			if is.IsScheduled(c.PT, me) && fail == "" {
				fail = "parent time accepted as a slot"
			}
		}
		// (b) Schedule returns the earliest aligned owned slot >= now, and IsTheTime accepts exactly owned slots
		for _, now := range c.Nows {
			if fail != "" {
				break
			}
			t := s.Schedule(now)
			if !s.IsTheTime(t) {
				fail = fmt.Sprintf("Schedule(%d)=%d is not accepted by IsTheTime", now, t)
			} else if t < now || t <= c.PT || (t-c.PT)%c.T != 0 {
				fail = fmt.Sprintf("Schedule(%d)=%d is before now / not after parent / misaligned", now, t)
			} else {
				lo := c.PT + c.T
				if now > lo {
					lo = c.PT + (now-c.PT+c.T-1)/c.T*c.T
				}
				for u := lo; u < t; u += c.T {
					if s.IsTheTime(u) {
						fail = fmt.Sprintf("Schedule(%d)=%d but the earlier slot %d is also owned", now, t, u)
						break
					}
				}
			}
		}
		// (c) score bounds
		for _, nbt := range c.Updates {
			if fail != "" || nbt <= c.PT || (nbt-c.PT)%c.T != 0 {
				continue
			}
			ups, score := s.Updates(nbt)
			for _, u := range ups {
				if u.Address == me && !u.Active {
					fail = "Updates deactivates the proposer itself"
				}
			}
			if c.Kind != "POS" && (score < 1 || score > uint64(n)) {
				fail = fmt.Sprintf("score %d outside [1,%d]", score, n)
			}
			// deactivated = exactly the owners (other than me) of the slots strictly between parent and nbt, first round
			if is, ok := s.(isSched); ok && fail == "" {
				missed := map[thor.Address]bool{}
				for k := uint64(1); k < (nbt-c.PT)/c.T && k <= uint64(n); k++ {
					for _, p := range c.Ps {
						if a := addrOf(p.Addr); a != me && is.IsScheduled(c.PT+k*c.T, a) {
							missed[a] = true
						}
					}
				}
				got := map[thor.Address]bool{}
				for _, u := range ups {
					if !u.Active {
						got[u.Address] = true
						if !missed[u.Address] {
							fail = fmt.Sprintf("Updates(%d) deactivates %s which owned no missed slot", nbt, u.Address)
						}
					}
				}
				for a := range missed {
					if !got[a] && fail == "" {
						fail = fmt.Sprintf("Updates(%d) does not deactivate %s which missed its slot", nbt, a)
					}
				}
			}
		}
	}); p != "" && fail == "" {
		fail = "panic: " + p
	}
	return fail
}

// ---------------------------------------------------------------- generation

func genCase(r *hx.Rand, idx int) *Case {
	c := &Case{}
	switch r.Intn(3) {
	case 0:
		c.Kind = "V1"
	case 1:
		c.Kind = "V2"
	default:
		c.Kind = "POS"
	}
	c.T = []uint64{10, 10, 10, 1, 3, 7, 60}[r.Intn(7)]
	var n int
	switch r.Intn(6) {
	case 0:
		n = 1
	case 1:
		n = r.Range(2, 4)
	case 2:
		n = r.Range(100, 130)
	default:
		n = r.Range(2, 40)
	}
	c.PN = uint32(r.Uint64())
	if r.Chance(1, 4) {
		c.PN = uint32(r.Intn(1000))
	}
	c.PT = 1_500_000_000 + r.Uint64()%1_000_000_000
	if r.Chance(1, 10) {
		c.PT = c.T * uint64(r.Range(200, 5000)) // small but >= 101 rounds of T (the v1 walk-back never underflows)
	}
	c.Seed = hx.Hex(r.Bytes([]int{0, 32, 32, 32, 7}[r.Intn(5)]))
	pattern := r.Intn(5) // 0 all active, 1 all inactive, 2 random, 3 mostly active, 4 single active
	wmode := r.Intn(5)   // 0 equal, 1 small random, 2 extreme ratio, 3 with zeros, 4 large
	var sum uint64
	for i := 0; i < n; i++ {
		var p prop
		p.Addr = hx.Hex(r.Bytes(20))
		switch pattern {
		case 0:
			p.Active = true
		case 1:
			p.Active = false
		case 2:
			p.Active = r.Bool()
		case 3:
			p.Active = !r.Chance(1, 8)
		case 4:
			p.Active = i == 0
		}
		switch wmode {
		case 0:
			p.Weight = 1000
		case 1:
			p.Weight = uint64(r.Range(1, 100))
		case 2:
			if r.Bool() {
				p.Weight = 1
			} else {
				p.Weight = 1 << 40
			}
		case 3:
			if r.Chance(1, 4) {
				p.Weight = 0
			} else {
				p.Weight = uint64(r.Range(1, 1000))
			}
		case 4:
			p.Weight = r.Uint64() % (1 << 50)
		}
		sum += p.Weight
		c.Ps = append(c.Ps, p)
	}
	c.Me = c.Ps[r.Intn(n)].Addr
	if r.Chance(1, 40) {
		c.Me = hx.Hex(r.Bytes(20)) // not listed
	}
	switch r.Intn(4) {
	case 0:
		c.Total = sum
	case 1:
		c.Total = sum + uint64(r.Intn(1000))
	case 2:
		c.Total = 0
	default:
		c.Total = sum/2 + 1
	}
	// schedule queries
	maxK := uint64(300)
	c.Nows = []uint64{0, c.PT - 1, c.PT, c.PT + 1, c.PT + c.T - 1, c.PT + c.T, c.PT + c.T + 1}
	for i := 0; i < 8; i++ {
		k := uint64(r.Intn(int(maxK)))
		if r.Bool() {
			k = uint64(r.Intn(2*n + 3))
		}
		c.Nows = append(c.Nows, c.PT+k*c.T+uint64(r.Intn(int(c.T)+1)))
	}
	// is-scheduled queries
	elig := []string{}
	for _, p := range c.Ps {
		elig = append(elig, p.Addr)
	}
	for i := 0; i < 12; i++ {
		k := uint64(r.Intn(2*n + 5))
		t := c.PT + k*c.T
		if r.Chance(1, 5) {
			t += uint64(1 + r.Intn(int(c.T)))
		}
		if r.Chance(1, 10) {
			t = c.PT - uint64(r.Intn(50))
		}
		a := elig[r.Intn(len(elig))]
		if c.Kind == "V1" || r.Chance(1, 3) {
			a = c.Me
		}
		c.IsT = append(c.IsT, t)
		c.IsA = append(c.IsA, a)
	}
	// updates queries (aligned slots after the parent; a few odd ones for V2/POS)
	for i := 0; i < 8; i++ {
		k := uint64(1 + r.Intn(n+4))
		if r.Chance(1, 6) {
			k = uint64(1 + r.Intn(250))
		}
		c.Updates = append(c.Updates, c.PT+k*c.T)
	}
	if c.Kind != "V1" {
		c.Updates = append(c.Updates, c.PT+c.T+1, c.PT, c.PT+uint64(n)*c.T+c.T/2)
	}
	return c
}

func maxSlot(c *Case, o *Obs) uint64 {
	m := uint64(320 + 3*len(c.Ps))
	for _, s := range o.S {
		var t uint64
		fmt.Sscanf(s, "%x", &t)
		if t > c.PT {
			if k := (t-c.PT)/c.T + 4; k > m {
				m = k
			}
		}
	}
	return m
}

func canonical(c *Case) string { b, _ := json.Marshal(c); return string(b) }

func nontrivial(c *Case) bool {
	inact := 0
	for _, p := range c.Ps {
		if !p.Active {
			inact++
		}
	}
	return len(c.Ps) >= 3 && inact >= 1 && inact < len(c.Ps)
}

func runCases(ctx *hx.Ctx, cases []*Case) {
	lines := make([]string, len(cases))
	obs := make([]Obs, len(cases))
	for i, c := range cases {
		o, _ := observe(c)
		obs[i] = o
		lines[i] = oracleLine(c, maxSlot(c, &o))
	}
	answers, err := hx.AskAll(ctx.Oracle, lines)
	if err != nil {
		hx.Fatal("oracle: %v", err)
	}
	for i, c := range cases {
		ctx.Cov.Case(canonical(c), nontrivial(c), c)
		ctx.Cov.Count("kind=" + c.Kind)
		ctx.Cov.Bucket("n", len(c.Ps))
		ctx.Cov.Count(fmt.Sprintf("T=%d", c.T))
		ctx.Cov.Add("queries", len(c.Nows)+len(c.IsT)+len(c.Updates))
		if obs[i].Unauthorized {
			ctx.Cov.Count("unauthorized")
		}
		// the property's own predicates, evaluated on the implementation, for every case
		if f := propertyCheck(c); f != "" {
			ctx.Violation("property:"+classOf(f), f, c, true)
			continue
		}
		if obs[i].Panic != "" {
			ctx.Violation("panic", "scheduler panicked: "+obs[i].Panic, c, true)
			continue
		}
		want := normalise(expected(&obs[i], c.Kind), c.Kind)
		got := normalise(answers[i], c.Kind)
		if want != got {
			// model and implementation disagree although the direct predicates hold on this case:
			// search shrunk variants for a direct failure, else report the broken correspondence.
			if sc, f := shrinkSearch(ctx, c); f != "" {
				ctx.Violation("property:"+classOf(f), f, sc, true)
			} else {
				ctx.Violation("correspondence:"+diffField(want, got),
					"correspondence Sched.Model ~ scheduler no longer checks (theorems of Properties/C05.v are about the model): "+
						"impl="+want+" model="+got, sc, false)
			}
		}
	}
}

func classOf(f string) string {
	switch {
	case strings.Contains(f, "owners"):
		return "slot-owner-count"
	case strings.Contains(f, "viewpoints"):
		return "viewpoint-disagreement"
	case strings.Contains(f, "Schedule("):
		return "schedule-not-earliest-owned"
	case strings.Contains(f, "Updates("):
		return "updates-not-missed-owners"
	case strings.Contains(f, "score"):
		return "score-bounds"
	case strings.Contains(f, "panic"):
		return "panic"
	}
	return "other"
}

func diffField(a, b string) string {
	as, bs := strings.Split(a, "|"), strings.Split(b, "|")
	names := []string{"sequence", "schedule", "is-scheduled", "updates"}
	for i := range as {
		if i >= len(bs) || strings.TrimSpace(as[i]) != strings.TrimSpace(bs[i]) {
			if i < len(names) {
				return names[i]
			}
		}
	}
	return "shape"
}

// shrinkSearch: delta-debug the proposer list while the model/implementation disagreement persists, checking
// the direct predicates on every variant; returns the smallest disagreeing case and a direct failure if found.
func shrinkSearch(ctx *hx.Ctx, c *Case) (*Case, string) {
	disagree := func(x *Case) (bool, string) {
		if f := propertyCheck(x); f != "" {
			return true, f
		}
		o, _ := observe(x)
		ans, err := hx.AskAll(ctx.Oracle, []string{oracleLine(x, maxSlot(x, &o))})
		if err != nil {
			return false, ""
		}
		return normalise(expected(&o, x.Kind), x.Kind) != normalise(ans[0], x.Kind), ""
	}
	cur := c
	for changed := true; changed; {
		changed = false
		for i := 0; i < len(cur.Ps) && len(cur.Ps) > 1; i++ {
			if cur.Ps[i].Addr == cur.Me {
				continue
			}
			x := *cur
			x.Ps = append(append([]prop{}, cur.Ps[:i]...), cur.Ps[i+1:]...)
			d, f := disagree(&x)
			if f != "" {
				return &x, f
			}
			if d {
				cur = &x
				changed = true
				i--
			}
		}
	}
	// finally widen the queries around the smallest disagreeing case
	x := *cur
	x.Nows = nil
	for k := uint64(0); k < uint64(3*len(x.Ps)+6); k++ {
		x.Nows = append(x.Nows, x.PT+k*x.T, x.PT+k*x.T+1)
	}
	if f := propertyCheck(&x); f != "" {
		return &x, f
	}
	return cur, ""
}

func main() {
	ctx := hx.Init("C05")
	if ctx.Replay != "" {
		b, err := os.ReadFile(ctx.Replay)
		if err != nil {
			hx.Fatal("%v", err)
		}
		var nd struct {
			Class  string    `json:"class"`
			Replay *nodeCase `json:"replay"`
		}
		if json.Unmarshal(b, &nd) == nil && strings.HasPrefix(nd.Class, "property:node-level") && nd.Replay != nil && nd.Replay.Spec != nil {
			chaingen.Configure()
			nodeChain(ctx, nd.Replay.Spec)
			ctx.Finish("replay (node level)", nil)
		}
		var doc struct {
			Replay *Case `json:"replay"`
		}
		if err := json.Unmarshal(b, &doc); err != nil || doc.Replay == nil {
			hx.Fatal("bad replay file: %v", err)
		}
		runCases(ctx, []*Case{doc.Replay})
		ctx.Finish("replay", nil)
	}
	r := hx.NewRand(ctx.Seed)
	nodeLevel(ctx, r.Fork(99), ctx.Scale(60, 250)) // each ChainGen chain leaks one in-memory leveldb (genesis builder): keep the count bounded
	n := ctx.Scale(8000, 200000)
	batch := 1000
	for done := 0; done < n; done += batch {
		var cases []*Case
		for i := 0; i < batch && done+i < n; i++ {
			cases = append(cases, genCase(r, done+i))
		}
		runCases(ctx, cases)
	}
	ctx.Finish("proposer lists (n in {1, 2-4, 2-40, 100-130}, five activity patterns, five weight regimes, listed/unlisted "+
		"viewpoint, block interval in {1,3,7,10,60}) x ~38 Schedule/IsScheduled/IsTheTime/Updates queries each, for PoA v1, PoA v2 and PoS; "+
		"non-trivial = at least 3 proposers with a mixed active/inactive pattern; distinct = hash of the whole case",
		[]string{"Blake2b rank, ChaCha8/-ln(u)/w float score and dprp are computed by the real libraries in the harness and passed to the model as data",
			"times stay below 2^62 (uint64 wrap of now-newBlockTime+T-1 is outside the property's quantifier)"})
}
