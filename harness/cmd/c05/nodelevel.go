// nodelevel.go — C05 at node level: "every node derives the same owner, the same score and the same online/offline updates".
// Real chains are grown with the real packer (ChainGen, shared with C01); every packed block is judged by a cold validator and by
// the warm validator that has followed the chain (candidate-list / leader-group caches). They read the proposer list through
// different paths (state vs cache); if they disagree on the proposer/slot/score of the packer's block, two nodes derived different
// owners or scores for that slot.  Property predicate on the implementation only (no model involved).
package main

import (
	"fmt"
	"strings"

	"verif/harness/internal/chaingen"
	"verif/harness/internal/hx"
)

type nodeCase struct {
	Spec   *chaingen.Spec `json:"spec"`
	Height uint32         `json:"height"`
	Cold   string         `json:"cold_verdict"`
	Warm   string         `json:"warm_verdict"`
}

func verdictOf(err error) string {
	if err == nil {
		return "accept"
	}
	return err.Error()
}

func aboutProposer(msg string) bool {
	for _, k := range []string{"proposer", "score", "unscheduled", "timestamp", "signer", "beneficiary"} {
		if strings.Contains(msg, k) {
			return true
		}
	}
	return false
}

func nodeLevel(ctx *hx.Ctx, r *hx.Rand, chains int) {
	chaingen.Configure()
	for k := 0; k < chains; k++ {
		if nodeChain(ctx, chaingen.GenSpec(r.Fork(uint64(1000+k)), 8+r.Intn(8))) {
			return
		}
	}
}

// nodeChain grows one chain; returns true if a violation was reported.
func nodeChain(ctx *hx.Ctx, spec *chaingen.Spec) bool {
	{
		c, err := chaingen.New(spec)
		if err != nil {
			hx.Fatal("chaingen: %v", err)
		}
		for i := 0; i < spec.Blocks; i++ {
			st, err := c.Next()
			if err != nil {
				break
			}
			h := st.Block.Header()
			now := h.Timestamp()
			_, _, errCold := c.Cold().Process(st.Parent, st.Block, now, 0)
			_, _, errWarm := c.Warm.Process(st.Parent, st.Block, now, st.Conflicts)
			ctx.Cov.Count("node-level:blocks")
			cv, wv := verdictOf(errCold), verdictOf(errWarm)
			if (errCold == nil) != (errWarm == nil) || (errCold != nil && aboutProposer(cv)) || (errWarm != nil && aboutProposer(wv)) {
				ctx.Violation("property:node-level-proposer-disagreement",
					fmt.Sprintf("nodes derive different owner/score/updates for the slot of block #%d: cold validator: %s; warm validator: %s", h.Number(), cv, wv),
					nodeCase{spec, h.Number(), cv, wv}, true)
				c.Close()
				return true
			}
			if errCold != nil {
				break // some other rule (not C05's concern); stop this chain
			}
			if err := c.Commit(st, true); err != nil {
				break
			}
		}
		c.Close()
	}
	return false
}
