// c02 — correspondence driver for property C02 (validation rejects every block that breaks a protocol rule, even when
// correctly re-signed; a rejected block leaves no trace; validation never panics).
// ChainGen grows valid chains with the real packer; on every packed block a mutation engine driven by the rule
// catalogue (coq/Validation/Catalogue.v) builds single-departure mutants — each one re-executed in its own block context
// and re-signed with the proposer's key (harness/internal/chaingen Build) — plus valid boundary variants and
// structurally arbitrary blocks (byte-level mutations of the RLP that still decode).  Every mutant goes through the real
// consensus.Process under recover; its verdict class (accept / future / consensus-critical / other / panic) is compared
// with the extracted Coq model's `process`, and the property's own predicates are evaluated on the implementation:
// a rule-breaking block accepted, a panic, a change of the repository's public content.
package main

import (
	"encoding/json"
	"fmt"
	"math/big"
	"os"
	"path/filepath"
	"sort"
	"strings"

	"github.com/ethereum/go-ethereum/rlp"

	"github.com/vechain/thor/v2/block"
	"github.com/vechain/thor/v2/chain"
	"github.com/vechain/thor/v2/consensus"
	"github.com/vechain/thor/v2/thor"
	"github.com/vechain/thor/v2/tx"

	cg "verif/harness/internal/chaingen"
	"verif/harness/internal/hx"
)

type Replay struct {
	Spec   *cg.Spec `json:"spec"`
	Height int      `json:"height"`
	Mutant string   `json:"mutant,omitempty"`
}

func classOf(err error) string {
	switch {
	case err == nil:
		return "accept"
	case consensus.IsFutureBlock(err):
		return "future"
	case consensus.IsCritical(err):
		return "critical"
	}
	return "other"
}

func process(cons *consensus.Consensus, parent *chain.BlockSummary, b *block.Block, now uint64) (class, msg string) {
	defer func() {
		if p := recover(); p != nil {
			class, msg = "panic", fmt.Sprint(p)
		}
	}()
	_, _, err := cons.Process(parent, b, now, 0)
	if err != nil {
		msg = err.Error()
	}
	return classOf(err), msg
}

// digest: the repository's content as its public API shows it (what an import could have changed).
func digest(c *cg.Chain, probe thor.Bytes32) string {
	var b strings.Builder
	best := c.Repo.BestBlockSummary()
	max, _ := c.Repo.GetMaxBlockNum()
	fmt.Fprintf(&b, "best=%x max=%d", best.Header.ID(), max)
	for n := uint32(0); n <= max+1; n++ {
		k, _ := c.Repo.ScanConflicts(n)
		ids, _ := c.Repo.GetConflicts(n)
		fmt.Fprintf(&b, " %d:%d:%d", n, k, len(ids))
		for _, id := range ids {
			fmt.Fprintf(&b, ":%x", id[:6])
		}
	}
	if _, err := c.Repo.GetBlockSummary(probe); err == nil {
		b.WriteString(" probe-present")
	}
	st := c.Stater.NewState(best.Root())
	bal, _ := st.GetBalance(c.Users[0].Addr)
	fmt.Fprintf(&b, " u0=%s", bal)
	return b.String()
}

// ---------------------------------------------------------------- the mutation engine

const (
	breaks  = 1 // the mutant breaks exactly one catalogue rule: must not be accepted
	valid   = 2 // still satisfies every rule: must be accepted
	unknown = 3 // whether a rule is broken depends on the schedule: only model/implementation agreement is checked
)

type mctx struct {
	c      *cg.Chain
	st     *cg.Step
	parent *chain.BlockSummary
	view   *cg.PView
	num    uint32
	key    cg.Acct
	r      *hx.Rand
}

type mutant struct {
	name string
	rule int
	kind int
	now  uint64 // 0 = the block's own time
	plan *cg.Plan
	post func(b *block.Block) *block.Block
}

func (m *mctx) base() *cg.Plan { return m.c.PlanOf(m.st.Block, m.key.Key) }

func (m *mctx) user() cg.Acct { return m.c.Users[m.r.Intn(len(m.c.Users))] }

func (m *mctx) xfer(o cg.TxOpt) *tx.Transaction {
	to := m.user().Addr
	if m.num >= m.c.Fork.GALACTICA && m.r.Bool() {
		o.Typed = true
	}
	return m.c.MkTx(m.user(), []*tx.Clause{tx.NewClause(&to).WithValue(big.NewInt(int64(m.r.Range(1, 1000))))}, m.num, o)
}

func u64p(x uint64) *uint64 { return &x }

func (m *mctx) mutants() []mutant {
	var out []mutant
	h := m.st.Block.Header()
	ph := m.parent.Header
	add := func(name string, rule, kind int, f func(p *cg.Plan)) {
		p := m.base()
		f(p)
		out = append(out, mutant{name: name, rule: rule, kind: kind, plan: p})
	}
	withTx := func(name string, rule, kind int, ts ...*tx.Transaction) {
		add(name, rule, kind, func(p *cg.Plan) { p.Txs = append(append(tx.Transactions{}, p.Txs...), ts...) })
	}
	// ---- header
	add("time=parent", 1, breaks, func(p *cg.Plan) { p.Time = ph.Timestamp() })
	add("time<parent", 1, breaks, func(p *cg.Plan) { p.Time = ph.Timestamp() - cg.Interval })
	add("time-off-interval", 2, breaks, func(p *cg.Plan) { p.Time = h.Timestamp() + uint64(1+m.r.Intn(cg.Interval-1)) })
	out = append(out, mutant{name: "future-clock", rule: 3, kind: breaks, now: h.Timestamp() - cg.Interval - 1, plan: m.base()})
	out = append(out, mutant{name: "clock-at-tolerance", rule: 3, kind: valid, now: h.Timestamp() - cg.Interval, plan: m.base()})
	add("gas-used>limit", 4, breaks, func(p *cg.Plan) { p.GasUsed = u64p(h.GasLimit() + 1) })
	add("score=parent", 5, breaks, func(p *cg.Plan) { p.TotalScore = ph.TotalScore() })
	add("score+1", 22, breaks, func(p *cg.Plan) { p.TotalScore = h.TotalScore() + 1 })
	if h.TotalScore()-1 > ph.TotalScore() {
		add("score-1", 22, breaks, func(p *cg.Plan) { p.TotalScore = h.TotalScore() - 1 })
	}
	bound := ph.GasLimit() / 1024
	add("gas-limit>bound", 6, breaks, func(p *cg.Plan) { p.GasLimit = ph.GasLimit() + bound + 1 })
	add("gas-limit<bound", 6, breaks, func(p *cg.Plan) { p.GasLimit = ph.GasLimit() - bound - 1 })
	add("gas-limit=upper-bound", 6, valid, func(p *cg.Plan) { p.GasLimit = ph.GasLimit() + bound })
	if ph.GasLimit()-bound >= 1_000_000 && ph.GasLimit()-bound >= h.GasUsed() {
		add("gas-limit=lower-bound", 6, valid, func(p *cg.Plan) { p.GasLimit = ph.GasLimit() - bound })
	}
	if ph.GasLimit()-bound < 1_000_000 {
		add("gas-limit<floor", 6, breaks, func(p *cg.Plan) { p.GasLimit = 999_999 })
	}
	if m.num < m.c.Fork.VIP214 {
		add("alpha-before-vip214", 7, breaks, func(p *cg.Plan) { p.ForceAlpha, p.Alpha = true, []byte{1, 2, 3} })
		add("complex-signature-before-vip214", 7, breaks, func(p *cg.Plan) { p.SigMode, p.Alpha = 2, nil })
	} else {
		add("alpha-wrong", 8, breaks, func(p *cg.Plan) {
			a := append([]byte{}, p.Alpha...)
			a[m.r.Intn(len(a))] ^= 1 << uint(m.r.Intn(8))
			p.Alpha = a
		})
		add("alpha-empty", 8, breaks, func(p *cg.Plan) { p.Alpha = nil })
		add("plain-signature-after-vip214", 8, breaks, func(p *cg.Plan) { p.SigMode = 1 })
		add("vrf-proof-garbage", 8, breaks, func(p *cg.Plan) { p.SigMode = 3 })
	}
	if m.num < m.c.Fork.FINALITY {
		add("com-before-finality", 9, breaks, func(p *cg.Plan) { p.COM = true })
	} else {
		add("com-flipped", 9, valid, func(p *cg.Plan) { p.COM = !p.COM })
	}
	if m.num < m.c.Fork.GALACTICA {
		add("base-fee-before-galactica", 10, breaks, func(p *cg.Plan) { p.BaseFee = big.NewInt(thor.InitialBaseFee) })
	} else {
		add("base-fee-missing", 11, breaks, func(p *cg.Plan) { p.BaseFee = nil })
		add("base-fee+1", 11, breaks, func(p *cg.Plan) { p.BaseFee = new(big.Int).Add(p.BaseFee, big.NewInt(1)) })
		add("base-fee-1", 11, breaks, func(p *cg.Plan) { p.BaseFee = new(big.Int).Sub(p.BaseFee, big.NewInt(1)) })
	}
	add("features-flipped", 12, breaks, func(p *cg.Plan) { p.Features ^= tx.DelegationFeature })
	// ---- proposer
	add("unauthorised-signer", 20, breaks, func(p *cg.Plan) { p.Key = m.user().Key })
	if len(m.c.Masters) > 1 {
		add("other-master-signs", 21, unknown, func(p *cg.Plan) {
			p.Key = m.c.Masters[(m.st.Proposer+1+m.r.Intn(len(m.c.Masters)-1))%len(m.c.Masters)].Key
		})
	}
	add("next-slot", 21, unknown, func(p *cg.Plan) { p.Time = h.Timestamp() + cg.Interval })
	if h.Timestamp()-cg.Interval > ph.Timestamp() {
		add("previous-slot", 21, unknown, func(p *cg.Plan) { p.Time = h.Timestamp() - cg.Interval })
	}
	if !m.view.PoS {
		add("beneficiary-changed", 0, valid, func(p *cg.Plan) { p.Beneficiary = m.user().Addr })
	} else {
		// PoS: the header beneficiary is free unless the signer's validation has a contract-level beneficiary
		bound := false
		for _, cd := range m.view.Cands {
			if cd.Addr == m.key.Addr && cd.Benef != nil {
				bound = true
			}
		}
		other := m.user().Addr
		for other == h.Beneficiary() {
			other = m.user().Addr
		}
		if bound {
			add("pos-beneficiary-mismatch", 23, breaks, func(p *cg.Plan) { p.Beneficiary = other })
		} else {
			add("pos-beneficiary-free", 23, valid, func(p *cg.Plan) { p.Beneficiary = other })
		}
	}
	// ---- body
	out = append(out, mutant{name: "txs-root", rule: 30, kind: breaks, plan: m.base(), post: func(b *block.Block) *block.Block {
		return block.Compose(b.Header(), append(append(tx.Transactions{}, b.Transactions()...), m.xfer(cg.TxOpt{})))
	}})
	badTag := m.c.Tag ^ 0x55
	withTx("tx-chain-tag", 33, breaks, m.xfer(cg.TxOpt{Tag: &badTag}))
	fut := m.num + 1
	withTx("tx-future-ref", 34, breaks, m.xfer(cg.TxOpt{Ref: &fut}))
	cur := m.num
	withTx("tx-ref-current", 34, valid, m.xfer(cg.TxOpt{Ref: &cur}))
	if m.num >= 2 {
		zero, short, exact := uint32(0), m.num-1-uint32(m.r.Intn(int(m.num)-1)), m.num
		withTx("tx-expired", 35, breaks, m.xfer(cg.TxOpt{Ref: &zero, Exp: &short}))
		withTx("tx-expires-now", 35, valid, m.xfer(cg.TxOpt{Ref: &zero, Exp: &exact}))
	}
	if m.num < m.c.Fork.GALACTICA {
		t := m.xfer(cg.TxOpt{})
		to := m.user().Addr
		t = m.c.MkTx(m.user(), []*tx.Clause{tx.NewClause(&to).WithValue(big.NewInt(9))}, m.num, cg.TxOpt{Typed: true})
		withTx("tx-typed-before-galactica", 36, breaks, t)
	}
	if m.num < m.c.Fork.VIP191 {
		d := m.user()
		withTx("tx-delegated-before-vip191", 37, breaks, m.xfer(cg.TxOpt{Delegate: &d}))
	} else {
		d := m.user()
		withTx("tx-delegated", 37, valid, m.xfer(cg.TxOpt{Delegate: &d}))
	}
	{
		base := m.c.MkTx(m.user(), []*tx.Clause{tx.NewClause(&m.c.Users[0].Addr).WithValue(big.NewInt(4))}, m.num, cg.TxOpt{})
		if o, err := base.Origin(); err == nil {
			if ur, err := cg.WithUnusedReserved(base, m.c.KeyOf(o)); err == nil {
				withTx("tx-unused-reserved-field", 37, breaks, ur)
			}
		}
	}
	// ---- re-execution
	dup := m.xfer(cg.TxOpt{})
	withTx("tx-duplicate-in-block", 40, breaks, dup, dup)
	if past := m.c.PastTxs(); len(past) > 0 {
		withTx("tx-already-on-chain", 40, breaks, past[m.r.Intn(len(past))])
	}
	var rnd thor.Bytes32
	copy(rnd[:], m.r.Bytes(32))
	withTx("tx-dependency-unknown", 42, breaks, m.xfer(cg.TxOpt{Dep: &rnd}))
	a := m.xfer(cg.TxOpt{})
	aid := a.ID()
	withTx("tx-dependency-in-block", 42, valid, a, m.xfer(cg.TxOpt{Dep: &aid}))
	withTx("tx-dependency-after-dependent", 42, breaks, m.xfer(cg.TxOpt{Dep: &aid}), a)
	{
		ea, ed := m.c.RevertingClause(m.user().Addr)
		rv := m.c.MkTx(m.user(), []*tx.Clause{tx.NewClause(&ea).WithData(ed)}, m.num, cg.TxOpt{})
		rid := rv.ID()
		withTx("tx-dependency-reverted", 42, breaks, rv, m.xfer(cg.TxOpt{Dep: &rid}))
	}
	if rp := m.c.PastReverted(); rp != nil {
		rid := rp.ID()
		withTx("tx-dependency-reverted-on-chain", 42, breaks, m.xfer(cg.TxOpt{Dep: &rid}))
	}
	{
		// a sender without energy: ExecuteTransaction fails (class "other" in the code)
		poor := m.c.Poor()
		to := m.user().Addr
		withTx("tx-not-executable", 41, breaks, m.c.MkTx(poor, []*tx.Clause{tx.NewClause(&to)}, m.num, cg.TxOpt{Coef: 255}))
	}
	add("gas-used+1", 43, breaks, func(p *cg.Plan) { p.GasUsed = u64p(h.GasUsed() + 1) })
	if h.GasUsed() > 0 {
		add("gas-used-1", 43, breaks, func(p *cg.Plan) { p.GasUsed = u64p(h.GasUsed() - 1) })
	}
	add("receipts-root", 44, breaks, func(p *cg.Plan) { var x thor.Bytes32; copy(x[:], m.r.Bytes(32)); p.ReceiptsRoot = &x })
	add("state-root", 47, breaks, func(p *cg.Plan) { var x thor.Bytes32; copy(x[:], m.r.Bytes(32)); p.StateRoot = &x })
	return out
}

type pending struct {
	line, impl, name string
	height          int
}

func runChain(ctx *hx.Ctx, spec *cg.Spec, stop int, only string) {
	c, err := cg.New(spec)
	if err != nil {
		hx.Fatal("chaingen: %v", err)
	}
	defer c.Close()
	// a second, real node that follows the chain through cmd/thor/node's own import path
	rep, err := c.NewReplica()
	if err != nil {
		hx.Fatal("replica node: %v", err)
	}
	defer rep.Close()
	var pend []pending
	fail := func(class, msg string, height int, name string, found bool) {
		ctx.Violation(class, msg, Replay{spec, height, name}, found)
	}
	for hgt := 1; hgt <= spec.Blocks && (stop == 0 || hgt <= stop); hgt++ {
		st, err := c.Next()
		if err != nil {
			break
		}
		view, err := c.View(st.Parent)
		if err != nil {
			hx.Fatal("view: %v", err)
		}
		m := &mctx{c: c, st: st, parent: st.Parent, view: view, num: st.Block.Header().Number(), key: c.Masters[st.Proposer], r: c.R.Fork(uint64(hgt))}
		// the protocol's base-fee formula (independent reference) on the valid chain itself: a block whose base fee departs
		// from it breaks rule 11, and it is accepted by the validators below
		if ref, got := cg.RefBaseFee(st.Parent.Header, c.Fork), st.Block.Header().BaseFee(); (ref == nil) != (got == nil) || (ref != nil && ref.Cmp(got) != 0) {
			fail("rule-breaking-block-accepted:base-fee-formula", fmt.Sprintf("block #%d packed and accepted by the validators carries base fee %v, the protocol formula gives %v "+
				"(parent gas limit %d, gas used %d, base fee %v)", hgt, got, ref, st.Parent.Header.GasLimit(), st.Parent.Header.GasUsed(), st.Parent.Header.BaseFee()), hgt, "", true)
			return
		}
		if bf := st.Block.Header().BaseFee(); bf != nil && bf.Cmp(new(big.Int).SetUint64(thor.InitialBaseFee)) > 0 {
			ctx.Cov.Count("blocks-with-base-fee-above-floor")
		}
		if st.Parent.Header.GasLimit()%100 != 0 && st.Block.Header().BaseFee() != nil {
			ctx.Cov.Count("post-galactica-parent-with-non-round-gas-limit")
		}
		// the identity plan must reproduce the packer's block (validates the mutant builder itself)
		if rb, _, err := c.Build(st.Parent, m.base()); err != nil || rb.Header().ID() != st.Block.Header().ID() {
			hx.Fatal("the block re-builder does not reproduce the packer's block at #%d (%v): generator broken", hgt, err)
		}
		doMut := c.R.Chance(2, 3) || stop == hgt
		if doMut {
			for _, mu := range m.mutants() {
				if only != "" && mu.name != only {
					continue
				}
				blk, ex, err := c.Build(st.Parent, mu.plan)
				if err != nil {
					ctx.Cov.Count("mutant-unbuildable:" + mu.name)
					continue
				}
				if mu.post != nil {
					blk = mu.post(blk)
				}
				now := mu.now
				if now == 0 {
					now = blk.Header().Timestamp()
				}
				id := blk.Header().ID()
				before := digest(c, id)
				class, msg := process(c.Cold(), st.Parent, blk, now)
				after := digest(c, id)
				// the validator that has followed the whole chain (warm candidate / leader cache) must agree with the cold one
				if wclass, wmsg := process(c.Warm, st.Parent, blk, now); wclass != class {
					fail("validators-disagree:"+mu.name, fmt.Sprintf("mutant %q of block #%d: cold validator says %s (%s), the warm one %s (%s)", mu.name, hgt, class, msg, wclass, wmsg), hgt, mu.name, true)
					return
				}
				canon, _ := json.Marshal(Replay{spec, hgt, mu.name})
				ctx.Cov.Case(string(canon), mu.kind == breaks, nil)
				ctx.Cov.Count(fmt.Sprintf("mutant:%s:%s", mu.name, class))
				ctx.Cov.Count("view=" + view.Kind)
				switch {
				case class == "panic":
					fail("panic:"+mu.name, fmt.Sprintf("consensus.Process panics on mutant %q of block #%d: %s", mu.name, hgt, msg), hgt, mu.name, true)
				case before != after:
					fail("trace-left:"+mu.name, fmt.Sprintf("processing mutant %q (verdict %s) changed the repository: %s -> %s", mu.name, class, before, after), hgt, mu.name, true)
				case mu.kind == breaks && class == "accept":
					fail("rule-breaking-block-accepted:"+mu.name, fmt.Sprintf("block #%d with the single departure %q (catalogue rule %d), correctly re-signed, is ACCEPTED", hgt, mu.name, mu.rule), hgt, mu.name, true)
				case mu.kind == breaks && class != "critical" && mu.rule != 3 && mu.rule != 41:
					fail("rejected-not-critical:"+mu.name, fmt.Sprintf("mutant %q is rejected with class %s (%s), not a consensus error", mu.name, class, msg), hgt, mu.name, true)
				case mu.kind == valid && class != "accept":
					// not a C02 violation by itself (C01's side), but model and code must still agree: left to the comparison
					ctx.Cov.Count("valid-variant-rejected:" + mu.name)
				}
				if len(ctx.Violations) > 0 {
					return
				}
				pend = append(pend, pending{c.VLine(st.Parent, view, blk, now, ex), class, mu.name, hgt})
				// node level: a block consensus rejects must leave the node's repository exactly as it was
				if class != "accept" && mu.now == 0 {
					nb := rep.Digest(id, c.Users[0].Addr)
					ncls := rep.Import(blk)
					na := rep.Digest(id, c.Users[0].Addr)
					ctx.Cov.Count("node-import:" + strings.SplitN(ncls, ":", 2)[0])
					switch {
					case strings.HasPrefix(ncls, "panic"):
						fail("panic-node-import:"+mu.name, fmt.Sprintf("node.processBlock panics on mutant %q of block #%d: %s", mu.name, hgt, ncls), hgt, mu.name, true)
					case ncls == "ok":
						fail("rejected-block-imported-by-node:"+mu.name, fmt.Sprintf("mutant %q (Process verdict %s) is imported by the node", mu.name, class), hgt, mu.name, true)
					case nb != na:
						fail("trace-left-node:"+mu.name, fmt.Sprintf("the node's import of mutant %q (rejected: %s) changed its repository: %s -> %s", mu.name, ncls, nb, na), hgt, mu.name, true)
					}
					if len(ctx.Violations) > 0 {
						return
					}
				}
			}
			// structurally arbitrary blocks: byte-level mutations of the encoding that still decode
			raw, _ := rlp.EncodeToBytes(st.Block)
			for k := 0; k < 12 && only == ""; k++ {
				mb := append([]byte{}, raw...)
				for j := 0; j < 1+c.R.Intn(3); j++ {
					switch c.R.Intn(3) {
					case 0:
						mb[c.R.Intn(len(mb))] ^= byte(1 << uint(c.R.Intn(8)))
					case 1:
						mb[c.R.Intn(len(mb))] = byte(c.R.Uint64())
					default:
						i := c.R.Intn(len(mb))
						mb = append(mb[:i], mb[i+1:]...)
					}
				}
				var gb block.Block
				if err := rlp.DecodeBytes(mb, &gb); err != nil {
					ctx.Cov.Count("garbage:undecodable")
					continue
				}
				if gb.Header().ParentID() != st.Parent.Header.ID() {
					ctx.Cov.Count("garbage:other-parent")
					continue
				}
				id := gb.Header().ID()
				before := digest(c, id)
				class, msg := process(c.Cold(), st.Parent, &gb, gb.Header().Timestamp())
				after := digest(c, id)
				ctx.Cov.Case(fmt.Sprintf("garbage:%x", mb), false, nil)
				ctx.Cov.Count("garbage:" + class)
				if class == "panic" {
					fail("panic:arbitrary-block", "consensus.Process panics on a decodable mutated block encoding: "+msg, hgt, fmt.Sprintf("garbage:%x", mb), true)
					return
				}
				if before != after {
					fail("trace-left:arbitrary-block", "processing an arbitrary block changed the repository", hgt, fmt.Sprintf("garbage:%x", mb), true)
					return
				}
				if class == "accept" && id != st.Block.Header().ID() {
					ctx.Cov.Count("garbage:accepted-different-id")
				}
			}
		}
		if wclass, wmsg := process(c.Warm, st.Parent, st.Block, st.Block.Header().Timestamp()); wclass != "accept" {
			fail("warm-validator-rejects-valid-block", fmt.Sprintf("the warm validator rejects the packer's block #%d: %s (%s)", hgt, wclass, wmsg), hgt, "", true)
			return
		}
		if err := c.Commit(st, true); err != nil {
			hx.Fatal("commit: %v", err)
		}
		if ncls := rep.Import(st.Block); ncls != "ok" {
			fail("node-import-rejects-valid-block", fmt.Sprintf("the replica node does not import the valid block #%d: %s", hgt, ncls), hgt, "", false)
			return
		}
		if rep.Repo.BestBlockSummary().Header.ID() != st.Block.Header().ID() {
			ctx.Cov.Count("replica-best-differs")
		}
	}
	if len(pend) == 0 {
		return
	}
	lines := make([]string, len(pend))
	for i, p := range pend {
		lines[i] = p.line
	}
	ans, err := hx.AskAll(ctx.Oracle, lines)
	if err != nil {
		hx.Fatal("oracle: %v", err)
	}
	for i, p := range pend {
		got := strings.Fields(ans[i])
		if len(got) == 0 || got[0] != p.impl {
			fail("correspondence:process:"+p.name, fmt.Sprintf("correspondence Validation.Body.process ~ consensus.Process no longer checks on mutant %q of block #%d "+
				"(the theorems of Properties/C02.v are about the model): impl=%s model=%q line=%q", p.name, p.height, p.impl, ans[i], p.line), p.height, p.name, false)
			return
		}
		ctx.Cov.Count("model-verdict:" + strings.Join(got, "-"))
	}
}

func main() {
	ctx := hx.Init("C02")
	rule := "ChainGen chains (as C01); on two thirds of the packed blocks every applicable catalogue mutator (time =/< parent, off-interval, future clock, " +
		"gasUsed>limit, score =parent/+1/-1, gas limit beyond the bound by 1 / at the bound (valid) / below the floor, alpha / signature form by VIP214, " +
		"garbage VRF proof, COM before FINALITY, base fee present/missing/+-1 by GALACTICA, features, unauthorised signer, other master / neighbouring slot, " +
		"txs root, tx chain tag, future ref, expired / expiring now (valid), typed before GALACTICA, delegated before VIP191, duplicate id in block / on chain, " +
		"dependency unknown / later in block / reverted in block / reverted on chain / satisfied (valid), not executable, gasUsed +-1, receipts root, state root), " +
		"each re-executed and re-signed with the proposer key, plus 12 byte-level mutations of the block encoding; non-trivial = a rule-breaking mutant"
	assumptions := []string{
		"the block re-builder of the harness (chaingen.Build) is validated on every block by reproducing the packer's block id from the identity plan",
		"repository digest = public API content (best, max number, conflicts per height, presence of the mutant id, a balance at the best state)",
		"every mutant consensus rejects is also fed to a second real node (cmd/thor/node processBlock -> executeAndCommitBlock through the verif hook) whose repository digest must not change; the node uses the wall clock, so the future-clock mutant is judged at Process level only",
		"blocklisted origins and unused reserved tx fields are not generated",
	}
	load := func(path string) *Replay {
		b, err := os.ReadFile(path)
		if err != nil {
			return nil
		}
		var doc struct {
			Replay *Replay `json:"replay"`
		}
		if json.Unmarshal(b, &doc) != nil || doc.Replay == nil || doc.Replay.Spec == nil {
			return nil
		}
		return doc.Replay
	}
	if ctx.Replay != "" {
		rp := load(ctx.Replay)
		if rp == nil {
			hx.Fatal("bad replay file")
		}
		only := rp.Mutant
		if strings.HasPrefix(only, "garbage:") {
			only = ""
		}
		runChain(ctx, rp.Spec, rp.Height, only)
		ctx.Finish("replay", assumptions)
	}
	if dir := os.Getenv("VERIF_CORPUS"); dir != "" && !cg.IsWorker() {
		files, _ := filepath.Glob(filepath.Join(dir, "*.json"))
		sort.Strings(files)
		for _, f := range files {
			if rp := load(f); rp != nil {
				ctx.Cov.Count("corpus-cases")
				runChain(ctx, rp.Spec, rp.Height, "")
			}
		}
	}
	r := hx.NewRand(ctx.Seed)
	n := ctx.Scale(110, 1500)
	if ctx.Thorough() && !cg.IsWorker() {
		// bounded memory per process (see chaingen/shard.go) and parallel shards
		cg.RunShards(ctx, n, 100, 6)
		ctx.Finish(rule, assumptions)
	}
	for i := 0; i < n && len(ctx.Violations) == 0; i++ {
		rr := r.Fork(uint64(i))
		if !cg.InShard(i) {
			continue
		}
		runChain(ctx, cg.GenSpec(rr, 12), 0, "")
	}
	ctx.Finish(rule, assumptions)
}
