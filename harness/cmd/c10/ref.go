package main

// Direct big-integer evaluation of the *mathematical* definition of every ALU instruction (Yellow Paper / EIP-145).
// This is the property predicate for the clause "every arithmetic, comparison, bitwise and shift instruction agrees with
// 256-bit modular integer arithmetic"; it is independent of both the implementation and the extracted model.

import "math/big"

var (
	bigW    = new(big.Int).Lsh(big.NewInt(1), 256)
	bigHalf = new(big.Int).Lsh(big.NewInt(1), 255)
	bigMask = new(big.Int).Sub(bigW, big.NewInt(1))
)

var aluOps = []string{"ADD", "MUL", "SUB", "DIV", "SDIV", "MOD", "SMOD", "ADDMOD", "MULMOD", "EXP", "SIGNEXTEND",
	"LT", "GT", "SLT", "SGT", "EQ", "ISZERO", "AND", "OR", "XOR", "NOT", "BYTE", "SHL", "SHR", "SAR"}

var aluCode = map[string]byte{"ADD": 0x01, "MUL": 0x02, "SUB": 0x03, "DIV": 0x04, "SDIV": 0x05, "MOD": 0x06, "SMOD": 0x07,
	"ADDMOD": 0x08, "MULMOD": 0x09, "EXP": 0x0a, "SIGNEXTEND": 0x0b, "LT": 0x10, "GT": 0x11, "SLT": 0x12, "SGT": 0x13,
	"EQ": 0x14, "ISZERO": 0x15, "AND": 0x16, "OR": 0x17, "XOR": 0x18, "NOT": 0x19, "BYTE": 0x1a, "SHL": 0x1b, "SHR": 0x1c, "SAR": 0x1d}

var aluName = func() map[byte]string {
	m := map[byte]string{}
	for k, v := range aluCode {
		m[v] = k
	}
	return m
}()

func aluArity(op string) int {
	switch op {
	case "ISZERO", "NOT":
		return 1
	case "ADDMOD", "MULMOD":
		return 3
	}
	return 2
}

func signedOf(x *big.Int) *big.Int {
	if x.Cmp(bigHalf) >= 0 {
		return new(big.Int).Sub(x, bigW)
	}
	return new(big.Int).Set(x)
}
func wrapW(x *big.Int) *big.Int { return new(big.Int).Mod(x, bigW) } // Mod is Euclidean: result in [0,W)
func b2i(b bool) *big.Int {
	if b {
		return big.NewInt(1)
	}
	return big.NewInt(0)
}

// mathALU: a = top of stack, b = second, c = third.
func mathALU(op string, a, b, c *big.Int) *big.Int {
	z := new(big.Int)
	switch op {
	case "ADD":
		return wrapW(z.Add(a, b))
	case "MUL":
		return wrapW(z.Mul(a, b))
	case "SUB":
		return wrapW(z.Sub(a, b))
	case "DIV":
		if b.Sign() == 0 {
			return z
		}
		return z.Quo(a, b)
	case "SDIV":
		if b.Sign() == 0 {
			return z
		}
		return wrapW(z.Quo(signedOf(a), signedOf(b))) // truncated
	case "MOD":
		if b.Sign() == 0 {
			return z
		}
		return z.Rem(a, b)
	case "SMOD":
		if b.Sign() == 0 {
			return z
		}
		return wrapW(z.Rem(signedOf(a), signedOf(b))) // sign of the dividend
	case "ADDMOD":
		if c.Sign() == 0 {
			return z
		}
		return z.Mod(z.Add(a, b), c)
	case "MULMOD":
		if c.Sign() == 0 {
			return z
		}
		return z.Mod(z.Mul(a, b), c)
	case "EXP":
		return z.Exp(a, b, bigW)
	case "SIGNEXTEND":
		if a.Cmp(big.NewInt(31)) >= 0 {
			return z.Set(b)
		}
		t := uint(8 * (a.Uint64() + 1))
		low := new(big.Int).Mod(b, new(big.Int).Lsh(big.NewInt(1), t))
		if low.Bit(int(t-1)) == 1 {
			low.Sub(low, new(big.Int).Lsh(big.NewInt(1), t))
		}
		return wrapW(low)
	case "LT":
		return b2i(a.Cmp(b) < 0)
	case "GT":
		return b2i(a.Cmp(b) > 0)
	case "SLT":
		return b2i(signedOf(a).Cmp(signedOf(b)) < 0)
	case "SGT":
		return b2i(signedOf(a).Cmp(signedOf(b)) > 0)
	case "EQ":
		return b2i(a.Cmp(b) == 0)
	case "ISZERO":
		return b2i(a.Sign() == 0)
	case "AND":
		return z.And(a, b)
	case "OR":
		return z.Or(a, b)
	case "XOR":
		return z.Xor(a, b)
	case "NOT":
		return z.Sub(bigMask, a)
	case "BYTE":
		if a.Cmp(big.NewInt(32)) >= 0 {
			return z
		}
		sh := uint(8 * (31 - a.Uint64()))
		return z.And(z.Rsh(b, sh), big.NewInt(255))
	case "SHL":
		if a.Cmp(big.NewInt(256)) >= 0 {
			return z // b * 2^a is a multiple of 2^256
		}
		return wrapW(z.Lsh(b, uint(a.Uint64())))
	case "SHR":
		if a.Cmp(big.NewInt(256)) >= 0 {
			return z // b / 2^a = 0 for b < 2^256
		}
		return z.Rsh(b, uint(a.Uint64()))
	case "SAR":
		s := signedOf(b)
		if a.Cmp(big.NewInt(256)) >= 0 {
			if s.Sign() < 0 {
				return new(big.Int).Set(bigMask) // floor(s / 2^a) = -1
			}
			return z
		}
		// floor division by 2^a: big.Int.Rsh on negatives is an arithmetic shift (rounds toward -inf)
		return wrapW(z.Rsh(s, uint(a.Uint64())))
	}
	panic("unknown alu op " + op)
}

// ---------------------------------------------------------------- declarative gas reference (mirrors coq/EVM/GasSpec.v)

// memCost: C_mem(a) = 3a + floor(a^2/512), a in 32-byte words
func memCost(words *big.Int) *big.Int {
	sq := new(big.Int).Mul(words, words)
	sq.Quo(sq, big.NewInt(512))
	return sq.Add(sq, new(big.Int).Mul(big.NewInt(3), words))
}

// expansionCost: price of touching [off, off+size) when memLen bytes are active
func expansionCost(memLen uint64, off, size *big.Int) *big.Int {
	if size.Sign() == 0 {
		return new(big.Int)
	}
	old := new(big.Int).SetUint64(memLen / 32)
	nw := new(big.Int).Add(off, size)
	nw.Add(nw, big.NewInt(31)).Quo(nw, big.NewInt(32))
	if nw.Cmp(old) <= 0 {
		return new(big.Int)
	}
	return new(big.Int).Sub(memCost(nw), memCost(old))
}

func wordsOf(size *big.Int) *big.Int {
	w := new(big.Int).Add(size, big.NewInt(31))
	return w.Quo(w, big.NewInt(32))
}

func bigMax(a, b *big.Int) *big.Int {
	if a.Cmp(b) >= 0 {
		return a
	}
	return b
}

// refGas: the Yellow-Paper price of one step of the instructions whose price is not a per-instruction constant and does not
// depend on account state; st[i] = i-th stack item from the top; ok=false for instructions it does not cover.
func refGas(op byte, st func(int) *big.Int, memLen uint64, gasBefore uint64) (*big.Int, bool) {
	exp := func(off, size *big.Int) *big.Int { return expansionCost(memLen, off, size) }
	add := func(xs ...*big.Int) *big.Int {
		s := new(big.Int)
		for _, x := range xs {
			s.Add(s, x)
		}
		return s
	}
	k := func(n int64) *big.Int { return big.NewInt(n) }
	mul := func(a *big.Int, n int64) *big.Int { return new(big.Int).Mul(a, big.NewInt(n)) }
	switch {
	case op == 0x51 || op == 0x52: // MLOAD, MSTORE
		return add(k(3), exp(st(0), k(32))), true
	case op == 0x53: // MSTORE8
		return add(k(3), exp(st(0), k(1))), true
	case op == 0xf3 || op == 0xfd: // RETURN, REVERT
		return exp(st(0), st(1)), true
	case op == 0x37 || op == 0x39 || op == 0x3e: // CALLDATACOPY, CODECOPY, RETURNDATACOPY
		return add(k(3), mul(wordsOf(st(2)), 3), exp(st(0), st(2))), true
	case op == 0x3c: // EXTCODECOPY
		return add(k(700), mul(wordsOf(st(3)), 3), exp(st(1), st(3))), true
	case op == 0x20: // SHA3
		return add(k(30), mul(wordsOf(st(1)), 6), exp(st(0), st(1))), true
	case op >= 0xa0 && op <= 0xa4: // LOGn
		return add(k(375), k(375*int64(op-0xa0)), mul(st(1), 8), exp(st(0), st(1))), true
	case op == 0xf0: // CREATE
		return add(k(32000), exp(st(1), st(2))), true
	case op == 0xf5: // CREATE2
		return add(k(32000), mul(wordsOf(st(2)), 6), exp(st(1), st(2))), true
	case op == 0xf4 || op == 0xfa: // DELEGATECALL, STATICCALL: 700 + expansion + min(requested, L(gas - base))
		base := add(k(700), bigMax(exp(st(2), st(3)), exp(st(4), st(5))))
		avail := new(big.Int).Sub(new(big.Int).SetUint64(gasBefore), base)
		if avail.Sign() < 0 {
			return nil, false // unaffordable: the step fails, nothing to compare
		}
		l := new(big.Int).Sub(avail, new(big.Int).Quo(avail, big.NewInt(64)))
		if st(0).Cmp(l) < 0 {
			l = st(0)
		}
		return add(base, l), true
	}
	return nil, false
}

// ---------------------------------------------------------------- MODEXP (precompile 0x05, EIP-198): base^exp mod m, big-endian

// refModexp parses the call input as EIP-198 prescribes (three 32-byte lengths, then the operands, everything zero-extended on
// the right) and evaluates the mathematical definition; ok=false for lengths the harness does not want to evaluate.
func refModexp(in []byte) ([]byte, bool) {
	get := func(off, n uint64) []byte {
		out := make([]byte, n)
		if off < uint64(len(in)) {
			copy(out, in[off:])
		}
		return out
	}
	bl, el, ml := new(big.Int).SetBytes(get(0, 32)), new(big.Int).SetBytes(get(32, 32)), new(big.Int).SetBytes(get(64, 32))
	if !bl.IsUint64() || !el.IsUint64() || !ml.IsUint64() || bl.Uint64() > 1024 || el.Uint64() > 1024 || ml.Uint64() > 1024 {
		return nil, false
	}
	b, e, m := bl.Uint64(), el.Uint64(), ml.Uint64()
	if b == 0 && m == 0 {
		return []byte{}, true
	}
	base := new(big.Int).SetBytes(get(96, b))
	exp := new(big.Int).SetBytes(get(96+b, e))
	mod := new(big.Int).SetBytes(get(96+b+e, m))
	res := new(big.Int)
	if mod.Sign() != 0 {
		res.Exp(base, exp, mod) // x^0 mod 1 = 0: Exp reduces modulo m
		res.Mod(res, mod)
	}
	out := make([]byte, m)
	res.FillBytes(out)
	return out, true
}
