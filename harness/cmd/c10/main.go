package main

import (
	"encoding/hex"
	"fmt"
	"math/big"
	"os"

	"github.com/vechain/thor/v2/muxdb"
	"github.com/vechain/thor/v2/runtime"
	"github.com/vechain/thor/v2/state"
	"github.com/vechain/thor/v2/thor"
	"github.com/vechain/thor/v2/trie"
	"github.com/vechain/thor/v2/tx"
	"github.com/vechain/thor/v2/xenv"
)

func main() {
	code, _ := hex.DecodeString(os.Args[1])
	st := state.New(muxdb.NewMem(), trie.Root{})
	a := thor.BytesToAddress([]byte("ctrA"))
	st.SetCode(a, code)
	rt := runtime.New(nil, st, &xenv.BlockContext{Number: 1000, Time: 12345, GasLimit: 10000000, BaseFee: big.NewInt(7)}, &thor.SoloFork)
	cl := tx.NewClause(&a).WithData([]byte{1, 2, 3})
	exec, _ := rt.PrepareClause(cl, 0, 100000, &xenv.TransactionContext{Origin: thor.BytesToAddress([]byte("orig")), GasPrice: big.NewInt(1)})
	out, _, err := exec()
	fmt.Println(err)
	fmt.Printf("%x left=%d refund=%d vmerr=%v events=%d\n", out.Data, out.LeftOverGas, out.RefundGas, out.VMErr, len(out.Events))
	v, _ := st.GetStorage(a, thor.Bytes32{})
	fmt.Println(v)
}
