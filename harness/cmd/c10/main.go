// C10 — the EVM computes what the reference EVM semantics prescribe.
// Correspondence harness: runs byte programs on the real vm.EVM (through runtime.PrepareClause) and on the model extracted
// from coq/EVM/Model.v, compares success class, return data, gas left, refund, logs and storage; evaluates the property's own
// predicates on the implementation (ALU vs math/big on every executed ALU instruction, failed-frame-no-effect and
// static-no-write at every call depth, no panic, gas left <= gas given).
package main

import (
	"encoding/json"
	"fmt"
	"math/big"
	"os"
	"path/filepath"
	"sort"
	"strings"
	"sync"
	"time"

	"verif/harness/internal/hx"
)

// ---------------------------------------------------------------- oracle plumbing

func askSharded(oracle string, lines []string) []string {
	if len(lines) == 0 {
		return nil
	}
	shards := 16
	if len(lines) < 64 {
		shards = 1
	}
	out := make([]string, len(lines))
	var wg sync.WaitGroup
	var mu sync.Mutex
	var firstErr error
	per := (len(lines) + shards - 1) / shards
	for s := 0; s < shards; s++ {
		lo, hi := s*per, (s+1)*per
		if hi > len(lines) {
			hi = len(lines)
		}
		if lo >= hi {
			continue
		}
		wg.Add(1)
		go func(lo, hi int) {
			defer wg.Done()
			// deep (non-tail) list recursion of the extracted model on large memories needs a large native stack
			res, err := hx.AskAll("/bin/sh", lines[lo:hi], "-c", `ulimit -s unlimited 2>/dev/null || ulimit -s 4000000 2>/dev/null; exec "$0"`, oracle)
			if err != nil {
				mu.Lock()
				firstErr = err
				mu.Unlock()
				return
			}
			copy(out[lo:hi], res)
		}(lo, hi)
	}
	wg.Wait()
	if firstErr != nil {
		hx.Fatal("oracle: %v", firstErr)
	}
	return out
}

func progOf(c *Case) *Case {
	if c.Kind != "alu" {
		return c
	}
	x := *c
	x.Contracts = []Contract{{Addr: contractAHex, Code: hx.Hex(aluProgram(c.Vecs))}}
	x.To = contractAHex
	return &x
}

func oracleRunLine(c *Case, gas uint64, hashes [][2]string) string {
	var sb strings.Builder
	in := c.Input
	if in == "" {
		in = "-"
	}
	fmt.Fprintf(&sb, "RUN %x 0 %s %x %s %x %x 0 %x %s %x %s %s %s %s %x |", gas, originHex, envGasPrice, coinbaseHex, envTime, envNumber,
		envGasLimit, chainIDHex, envBaseFee, strings.TrimLeft(c.To, "0"), valOf(c.Value).Text(16), in, masterTopicHex, c.fork())
	fmt.Fprintf(&sb, " A %s %x - 0", originHex, originBal)
	for _, ct := range c.Contracts {
		fmt.Fprintf(&sb, " A %s %s %s 0", bigHex(ct.Addr).Text(16), valOf(ct.Bal).Text(16), hexOrDash(hexBytes(ct.Code)))
	}
	sb.WriteString(" |")
	for _, s := range c.Storage {
		fmt.Fprintf(&sb, " S %s %s %s", bigHex(s.Addr).Text(16), bigHex(s.Key).Text(16), bigHex(s.Val).Text(16))
	}
	sb.WriteString(" |")
	for _, a := range newAddrs {
		sb.WriteString(" " + hx.HexN(a[:]))
	}
	sb.WriteString(" |")
	for _, h := range hashes {
		fmt.Fprintf(&sb, " H %s %s", h[0], h[1])
	}
	return sb.String()
}

type modelAns struct {
	Class     string
	Head      string
	Logs      []string
	Storage   map[string]string
	Accts     map[string]string
	Transfers []string
}

func parseAns(s string) modelAns {
	var m modelAns
	m.Storage = map[string]string{}
	m.Accts = map[string]string{}
	parts := strings.Split(s, "|")
	if len(parts) != 5 {
		m.Class = "ERR"
		m.Head = s
		return m
	}
	h := strings.Fields(parts[0])
	if len(h) != 4 {
		m.Class = "ERR"
		m.Head = s
		return m
	}
	m.Class = h[0]
	cls := h[0]
	if strings.HasPrefix(cls, "err:") {
		cls = "fail"
	}
	m.Head = cls + " " + h[1] + " " + h[2] + " " + h[3]
	lf := strings.Fields(parts[1])
	for i := 0; i+3 < len(lf)+0 && lf[i] == "L"; i += 4 {
		m.Logs = append(m.Logs, lf[i+1]+" "+lf[i+2]+" "+lf[i+3])
	}
	sf := strings.Fields(parts[2])
	for i := 0; i+3 < len(sf)+0 && sf[i] == "S"; i += 4 {
		m.Storage[sf[i+1]+" "+sf[i+2]] = sf[i+3]
	}
	af := strings.Fields(parts[3])
	for i := 0; i+4 < len(af)+0 && af[i] == "A"; i += 5 {
		m.Accts[af[i+1]] = af[i+2] + " " + af[i+3] + " " + af[i+4]
	}
	tf := strings.Fields(parts[4])
	for i := 0; i+3 < len(tf)+0 && tf[i] == "T"; i += 4 {
		m.Transfers = append(m.Transfers, tf[i+1]+" "+tf[i+2]+" "+tf[i+3])
	}
	return m
}

// diff returns "" when the implementation's observations equal the model's answer, else the first differing field.
func diff(c *Case, o *Obs, m *modelAns) (field, detail string) {
	ih := o.head()
	if o.Class == "fail" { // data/gas/refund of a failed entry call: nil, 0, 0 on both sides; compare anyway
		ih = fmt.Sprintf("fail %s %x %x", o.Data, o.Gas, o.Refund)
	}
	if ih != m.Head {
		f := "class"
		a, b := strings.Fields(ih), strings.Fields(m.Head)
		names := []string{"class", "return-data", "gas-left", "refund"}
		for i := range a {
			if i < len(b) && a[i] != b[i] {
				f = names[i]
				break
			}
		}
		return f, "impl=[" + ih + "] model=[" + m.Head + "]"
	}
	if strings.Join(o.Logs, ";") != strings.Join(m.Logs, ";") {
		return "logs", "impl=[" + strings.Join(o.Logs, ";") + "] model=[" + strings.Join(m.Logs, ";") + "]"
	}
	keys := map[string]struct{}{}
	for k := range o.Storage {
		keys[k] = struct{}{}
	}
	for k := range m.Storage {
		keys[k] = struct{}{}
	}
	var ks []string
	for k := range keys {
		ks = append(ks, k)
	}
	sort.Strings(ks)
	for _, k := range ks {
		iv, ok := o.Storage[k]
		if !ok { // slot the implementation never wrote according to the tracer: read it now
			ak := strings.Fields(k)
			iv = o.readSlot(ak[0], ak[1])
		}
		mv, ok := m.Storage[k]
		if !ok {
			mv = "0"
		}
		if iv != mv {
			return "storage", "slot " + k + ": impl=" + iv + " model=" + mv
		}
	}
	if strings.Join(o.Transfers, ";") != strings.Join(m.Transfers, ";") {
		return "transfers", "impl=[" + strings.Join(o.Transfers, ";") + "] model=[" + strings.Join(m.Transfers, ";") + "]"
	}
	akeys := map[string]struct{}{}
	for k := range o.Accts {
		akeys[k] = struct{}{}
	}
	for k := range m.Accts {
		akeys[k] = struct{}{}
	}
	var aks []string
	for k := range akeys {
		aks = append(aks, k)
	}
	sort.Strings(aks)
	for _, k := range aks {
		iv, ok := o.Accts[k]
		if !ok {
			iv = o.readAcct(k)
		}
		mv, ok := m.Accts[k]
		if !ok {
			mv = "0 - 0"
		}
		if iv != mv {
			return "accounts", "account " + k + " (balance code master): impl=[" + iv + "] model=[" + mv + "]"
		}
	}
	return "", ""
}

// a slot only the model reports: the implementation's value is its initial value (it was never written there)
func readSlot(c *Case, o *Obs, k string) string {
	for _, s := range c.Storage {
		if bigHex(s.Addr).Text(16)+" "+bigHex(s.Key).Text(16) == k {
			return bigHex(s.Val).Text(16)
		}
	}
	return "0"
}

// ---------------------------------------------------------------- running a batch

var reported = map[string]bool{}

type run struct {
	c   *Case // program form
	src *Case // as generated (alu cases keep their vectors)
	gas uint64
	o   Obs
}

func sweepPoints(r *hx.Rand, steps [][2]uint64, gas uint64, max int) []uint64 {
	set := map[uint64]struct{}{}
	for _, s := range steps {
		used := gas - s[0]
		set[used+s[1]] = struct{}{} // exactly enough for this step
		if used+s[1] > 0 {
			set[used+s[1]-1] = struct{}{} // one short: out of gas at this step
		}
	}
	var all []uint64
	for g := range set {
		if g < gas {
			all = append(all, g)
		}
	}
	sort.Slice(all, func(i, j int) bool { return all[i] < all[j] })
	if max > 0 && len(all) > max {
		picked := map[uint64]struct{}{}
		for len(picked) < max {
			picked[all[r.Intn(len(all))]] = struct{}{}
		}
		all = all[:0]
		for g := range picked {
			all = append(all, g)
		}
		sort.Slice(all, func(i, j int) bool { return all[i] < all[j] })
	}
	return all
}

func checkAluVectors(ctx *hx.Ctx, src *Case, o *Obs) {
	// the returned memory holds one word per vector: compare with the mathematical definition
	data := hexBytes(o.Data)
	for i, v := range src.Vecs {
		want := mathALU(v.Op, bigHex(v.A), bigHex(v.B), bigHex(v.C))
		ctx.Cov.Count("alu-op=" + v.Op)
		if o.Class != "ok" || len(data) < 32*(i+1) {
			ctx.Violation("alu-program-failed", "ALU program did not return its results: "+o.head(), src, false)
			return
		}
		got := new(big.Int).SetBytes(data[32*i : 32*i+32])
		if got.Cmp(want) != 0 {
			one := &Case{Kind: "alu", Gen: "alu", Gas: src.Gas, To: contractAHex, Vecs: []AluVec{v}}
			ctx.Violation("alu:"+v.Op, fmt.Sprintf("%s(%s, %s, %s) = %x on the EVM, %x by its mathematical definition", v.Op, v.A, v.B, v.C, got, want), one, true)
		}
	}
}

func propClass(f string) string {
	if i := strings.Index(f, ":"); i > 0 {
		head := f[:i]
		if head == "alu" {
			rest := strings.TrimSpace(f[i+1:])
			if j := strings.IndexAny(rest, "( "); j > 0 {
				return "alu:" + rest[:j]
			}
		}
		return head
	}
	return "other"
}

func runBatch(ctx *hx.Ctx, r *hx.Rand, cases []*Case, sweepMax int) {
	var runs []*run
	tStart := time.Now()
	for _, src := range cases {
		c := progOf(src)
		full := &run{c: c, src: src, gas: c.Gas}
		full.o = runImpl(c, c.Gas, true)
		runs = append(runs, full)
		pts := src.Sweep
		if pts == nil && src.Kind == "prog" && sweepMax != 0 && full.o.Panic == "" {
			pts = sweepPoints(r, full.o.Steps, c.Gas, sweepMax)
		}
		for _, g := range pts {
			x := &run{c: c, src: src, gas: g}
			x.o = runImpl(c, g, false)
			runs = append(runs, x)
		}
	}
	var lines []string
	for _, x := range runs {
		lines = append(lines, oracleRunLine(x.c, x.gas, x.o.Hashes))
	}
	// ALU vectors additionally go to the model's ALU directly
	type aluRef struct{ run, vec int }
	var aluIdx []aluRef
	for i, x := range runs {
		if x.src.Kind == "alu" {
			for j, v := range x.src.Vecs {
				lines = append(lines, fmt.Sprintf("ALU %s %s %s %s", v.Op, v.A, v.B, v.C))
				aluIdx = append(aluIdx, aluRef{i, j})
			}
		}
	}
	t0 := time.Now()
	answers := askSharded(ctx.Oracle, lines)
	if os.Getenv("C10_TIMING") != "" {
		fmt.Fprintf(os.Stderr, "batch: %d runs, impl %.1fs, oracle %.1fs\n", len(runs), t0.Sub(tStart).Seconds(), time.Since(t0).Seconds())
		if f := os.Getenv("C10_DUMP"); f != "" {
			os.WriteFile(f, []byte(strings.Join(lines, "\n")+"\n"), 0o644)
		}
	}

	for i, x := range runs {
		o := &x.o
		isFull := x.gas == x.c.Gas
		canon, _ := json.Marshal(struct {
			C any
			G uint64
		}{x.src, x.gas})
		nontrivial := false
		if x.src.Kind == "alu" {
			nontrivial = true
		} else {
			n := 0
			for _, k := range o.Ops {
				n += k
			}
			nontrivial = n >= 8 && (o.MaxDepth >= 1 || o.Ops["SSTORE"] > 0 || o.Ops["MSTORE"] > 0 || o.Ops["JUMPI"] > 0 || o.Ops["JUMP"] > 0)
		}
		var sample any
		if isFull && x.src.Kind == "prog" {
			sample = x.src
		}
		ctx.Cov.Case(string(canon), nontrivial, sample)
		ctx.Cov.Count("stream=" + x.src.Gen)
		ctx.Cov.Count(fmt.Sprintf("fork=%d", x.src.fork()))
		if !isFull {
			ctx.Cov.Count("gas-sweep-runs")
		}
		if o.Panic != "" {
			ctx.Violation("panic", "the EVM panicked: "+o.Panic, withGas(x.src, x.gas), true)
			continue
		}
		ctx.Cov.Count("impl-class=" + o.Class)
		if o.Class == "fail" {
			ctx.Cov.Count("impl-error=" + o.ErrText)
		}
		if isFull {
			ctx.Cov.Add("value-transfers", len(o.Transfers))
			ctx.Cov.Bucket("call-depth", o.MaxDepth)
			ctx.Cov.Add("alu-instructions-checked-in-context", o.AluSeen)
			for _, op := range []string{"SSTORE", "SLOAD", "MSTORE", "MLOAD", "MSTORE8", "JUMP", "JUMPI", "CALL", "STATICCALL", "DELEGATECALL", "CALLCODE",
				"LOG0", "LOG1", "LOG2", "LOG3", "LOG4", "RETURNDATACOPY", "CALLDATACOPY", "CODECOPY", "REVERT", "RETURN",
				"CREATE", "CREATE2", "SELFDESTRUCT", "SHA3", "BALANCE", "SELFBALANCE", "EXTCODESIZE", "EXTCODECOPY", "EXTCODEHASH",
				"checked-precompile-identity", "checked-precompile-modexp"} {
				if o.Ops[op] > 0 {
					ctx.Cov.Add("executed="+op, o.Ops[op])
				}
			}
		}
		// 1. property predicates on the implementation alone
		if len(o.PropFail) > 0 {
			f := o.PropFail[0]
			if reported["property:"+propClass(f)] {
				continue
			}
			reported["property:"+propClass(f)] = true
			sc := shrinkCase(ctx, withGas(x.src, x.gas), func(y *Case) bool {
				oo := runImpl(progOf(y), y.Gas, false)
				return len(oo.PropFail) > 0 && propClass(oo.PropFail[0]) == propClass(f)
			})
			ctx.Violation("property:"+propClass(f), f, sc, true)
			continue
		}
		if x.src.Kind == "alu" && isFull {
			checkAluVectors(ctx, x.src, o)
		}
		// 2. correspondence with the extracted model
		m := parseAns(answers[i])
		ctx.Cov.Count("model-class=" + strings.SplitN(m.Class, ":", 2)[0])
		switch m.Class {
		case "unsupported", "fuel":
			continue // outside the modelled fragment: only the predicates above apply
		case "ERR":
			ctx.Cov.Count("oracle-error")
			fmt.Fprintln(os.Stderr, "oracle error:", m.Head)
			continue
		}
		if strings.HasPrefix(m.Class, "err:") && o.Class == "fail" {
			ctx.Cov.Count("error-kind-agree=" + fmt.Sprint(m.Class[4:] == o.ErrText || (o.ErrText == "gasoverflow" && m.Class[4:] == "oog") || (o.ErrText == "oog" && m.Class[4:] == "gasoverflow")))
		}
		if f, d := diff(x.c, o, &m); f != "" {
			if reported["correspondence:"+f] { // one shrunk report per class is enough (hx keeps the first anyway)
				ctx.Cov.Count("further-disagreements-in-" + f)
				continue
			}
			reported["correspondence:"+f] = true
			sc := shrinkCase(ctx, withGas(x.src, x.gas), func(y *Case) bool {
				p := progOf(y)
				oo := runImpl(p, y.Gas, false)
				if oo.Panic != "" {
					return false
				}
				ans := askSharded(ctx.Oracle, []string{oracleRunLine(p, y.Gas, oo.Hashes)})
				mm := parseAns(ans[0])
				if mm.Class == "unsupported" || mm.Class == "fuel" || mm.Class == "ERR" {
					return false
				}
				ff, _ := diff(p, &oo, &mm)
				return ff == f
			})
			// the property itself on the shrunk case and its neighbours: ALU in context, failed-frame, static
			if pf := propertySearch(sc); pf != "" {
				ctx.Violation("property:"+propClass(pf), pf, sc, true)
			} else {
				ctx.Violation("correspondence:"+f, "correspondence EVM.Model ~ vm.EVM no longer checks (the theorems of Properties/C10.v are about the model); first difference in "+f+": "+d, sc, false)
			}
		}
	}
	for k, ref := range aluIdx {
		x := runs[ref.run]
		v := x.src.Vecs[ref.vec]
		got := answers[len(runs)+k]
		want := mathALU(v.Op, bigHex(v.A), bigHex(v.B), bigHex(v.C)).Text(16)
		if got != want {
			// the model's ALU is proved equal to the mathematical definition; a difference here means the oracle build is broken
			ctx.Violation("oracle-alu:"+v.Op, "extracted i_alu disagrees with math/big: "+got+" vs "+want, v, false)
		}
	}
}

func withGas(c *Case, gas uint64) *Case {
	x := *c
	x.Gas = gas
	x.Sweep = []uint64{}
	return &x
}

// propertySearch evaluates the implementation-only predicates on the case at a spread of gas values.
func propertySearch(c *Case) string {
	p := progOf(c)
	o := runImpl(p, c.Gas, true)
	if len(o.PropFail) > 0 {
		return o.PropFail[0]
	}
	for _, g := range sweepPoints(hx.NewRand(1), o.Steps, c.Gas, 64) {
		if oo := runImpl(p, g, false); len(oo.PropFail) > 0 {
			return oo.PropFail[0]
		}
	}
	return ""
}

// shrinkCase: delta-debugging on the byte programs, storage and input while pred holds.
func shrinkCase(ctx *hx.Ctx, c *Case, pred func(*Case) bool) *Case {
	if c.Kind == "alu" {
		cur := c
		for i := 0; i < len(cur.Vecs) && len(cur.Vecs) > 1; i++ {
			x := *cur
			x.Vecs = append(append([]AluVec{}, cur.Vecs[:i]...), cur.Vecs[i+1:]...)
			if pred(&x) {
				cur = &x
				i--
			}
		}
		return cur
	}
	cur := c
	budget := 150
	try := func(x *Case) bool {
		if budget <= 0 {
			return false
		}
		budget--
		return pred(x)
	}
	// drop whole contracts (never the entry), storage slots, input
	for i := len(cur.Contracts) - 1; i >= 1; i-- {
		x := *cur
		x.Contracts = append(append([]Contract{}, cur.Contracts[:i]...), cur.Contracts[i+1:]...)
		if try(&x) {
			cur = &x
		}
	}
	for i := len(cur.Storage) - 1; i >= 0; i-- {
		x := *cur
		x.Storage = append(append([]Slot{}, cur.Storage[:i]...), cur.Storage[i+1:]...)
		if try(&x) {
			cur = &x
		}
	}
	if cur.Input != "" {
		x := *cur
		x.Input = ""
		if try(&x) {
			cur = &x
		}
	}
	// remove byte chunks from each contract's code
	for ci := range cur.Contracts {
		for chunk := 32; chunk >= 1; chunk /= 2 {
			for pos := 0; ; {
				code := hexBytes(cur.Contracts[ci].Code)
				if pos+chunk > len(code) {
					break
				}
				nc := append(append([]byte{}, code[:pos]...), code[pos+chunk:]...)
				x := *cur
				x.Contracts = append([]Contract{}, cur.Contracts...)
				x.Contracts[ci].Code = hx.Hex(nc)
				if try(&x) {
					cur = &x
				} else {
					pos += chunk
				}
				if budget <= 0 {
					break
				}
			}
		}
	}
	return cur
}

// ---------------------------------------------------------------- main

func loadCase(path string) *Case {
	b, err := os.ReadFile(path)
	if err != nil {
		hx.Fatal("%v", err)
	}
	var doc struct {
		Replay *Case `json:"replay"`
	}
	if err := json.Unmarshal(b, &doc); err != nil || doc.Replay == nil {
		hx.Fatal("bad replay file %s: %v", path, err)
	}
	return doc.Replay
}

// envInt: development aid to run a smaller/larger sample than the tier default
func envInt(name string, def int) int {
	if v := os.Getenv(name); v != "" {
		var n int
		if _, err := fmt.Sscan(v, &n); err == nil {
			return n
		}
	}
	return def
}

func main() {
	ctx := hx.Init("C10")
	r := hx.NewRand(ctx.Seed)
	if ctx.Replay != "" {
		c := loadCase(ctx.Replay)
		runBatch(ctx, r, []*Case{c}, 0)
		ctx.Finish("replay", nil)
	}
	if dir := os.Getenv("VERIF_CORPUS"); dir != "" {
		files, _ := filepath.Glob(filepath.Join(dir, "*.json"))
		sort.Strings(files)
		var cs []*Case
		for _, f := range files {
			cs = append(cs, loadCase(f))
		}
		if len(cs) > 0 {
			ctx.Cov.Add("corpus-cases", len(cs))
			runBatch(ctx, r.Fork(7), cs, 0)
		}
	}
	// ALU stream
	nAlu := envInt("C10_NALU", ctx.Scale(25000, 150000)) // programs of 8 vectors
	ra := r.Fork(1)
	for done := 0; done < nAlu; done += 5000 {
		var cs []*Case
		for i := 0; i < 5000 && done+i < nAlu; i++ {
			cs = append(cs, genAluCase(ra, 8))
		}
		runBatch(ctx, ra, cs, 0)
	}
	// program stream with out-of-gas sweeps
	nProg := envInt("C10_NPROG", ctx.Scale(10000, 100000))
	sweep := 6
	if ctx.Thorough() {
		sweep = 12
	}
	rp := r.Fork(2)
	for done := 0; done < nProg; done += 2000 {
		var cs []*Case
		for i := 0; i < 2000 && done+i < nProg; i++ {
			cs = append(cs, genProgCase(rp))
		}
		runBatch(ctx, rp, cs, sweep)
	}
	ctx.Finish("ALU stream: programs of 8 boundary-biased vectors (0, 1, 2^255, 2^256-1, 2^k and 2^k+-1, shift/byte indices around the cut-offs, "+
		"random of random bit length) over all 25 ALU instructions, each result compared with math/big and with the extracted model; "+
		"program stream: grammar-generated 2-3 contract worlds (ALU, memory incl. expansion, storage, logs, valid/invalid jumps, loops, copies, "+
		"environment reads, nested CALL/STATICCALL/DELEGATECALL/CALLCODE, terminators), mutated and raw random byte programs, stress shapes; "+
		"each program also run at out-of-gas cut points taken from the step boundaries of its outermost frame; "+
		"non-trivial = at least 8 executed instructions including a call, SSTORE, MSTORE or jump; distinct = hash of (case, gas)",
		[]string{"instruction set and gas of thor's latest fork only (Shanghai jump table, GasTableConstantinople, pre-Constantinople SSTORE schedule)",
			"out of the model (outcome 'unsupported', observed only for no-panic / failed-frame / static): SHA3, BALANCE, SELFBALANCE, EXTCODE*, BLOCKHASH, "+
				"CREATE, CREATE2, SELFDESTRUCT, value-bearing calls, precompiles, native-call interception",
			"holiman/uint256 limb algorithms and math/big are represented by Z arithmetic in the model"})
}
