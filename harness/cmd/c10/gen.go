package main

// Generators: (1) ALU operand vectors with boundary bias, (2) grammar-generated programs over 2-3 contracts
// (stack/ALU/memory/storage/log/flow/copy/environment blocks, nested CALL/STATICCALL/DELEGATECALL/CALLCODE, valid and
// invalid jumps, memory expansion, terminators), (3) mutated and raw random byte programs (malformed stream),
// (4) a few fixed-shape stress programs (stack limit, deep recursion, return-data bounds).

import (
	"math/big"

	"verif/harness/internal/hx"
)

// ---------------------------------------------------------------- operands

func pow2(k int) *big.Int { return new(big.Int).Lsh(big.NewInt(1), uint(k)) }

func boundaryWord(r *hx.Rand) *big.Int {
	switch r.Intn(16) {
	case 0:
		return big.NewInt(0)
	case 1:
		return big.NewInt(1)
	case 2:
		return pow2(255)
	case 3:
		return new(big.Int).Sub(pow2(256), big.NewInt(1))
	case 4:
		return new(big.Int).Sub(pow2(255), big.NewInt(1))
	case 5:
		return new(big.Int).Add(pow2(255), big.NewInt(1))
	case 6:
		return new(big.Int).Sub(pow2(256), big.NewInt(int64(1+r.Intn(3))))
	case 7, 8:
		k := r.Intn(256)
		v := pow2(k)
		switch r.Intn(3) {
		case 0:
			v.Sub(v, big.NewInt(1))
		case 1:
			v.Add(v, big.NewInt(1))
		}
		return v.Mod(v, bigW)
	case 9:
		return big.NewInt(int64(r.Intn(40)))
	case 10:
		return big.NewInt(int64(248 + r.Intn(20))) // around 255/256/257 (shift cut-offs)
	case 11:
		return big.NewInt(int64(r.Intn(70000)))
	case 12: // negative small
		return new(big.Int).Sub(pow2(256), big.NewInt(int64(1+r.Intn(1000))))
	case 13: // random with random bit length
		n := 1 + r.Intn(256)
		v := new(big.Int).SetBytes(r.Bytes(32))
		return v.Mod(v, pow2(n))
	default:
		return new(big.Int).SetBytes(r.Bytes(32))
	}
}

func genAluVec(r *hx.Rand, op string) AluVec {
	a, b, c := boundaryWord(r), boundaryWord(r), boundaryWord(r)
	switch op {
	case "EXP":
		// the extracted model multiplies bit by bit: keep most exponents short, a few full width
		if !r.Chance(1, 12) {
			b = new(big.Int).Mod(b, pow2(1+r.Intn(12)))
		}
	case "SHL", "SHR", "SAR":
		if r.Chance(1, 8) { // shift operands >= 2^64 whose low limb is a small number (truncation to uint64 must not happen)
			a = pow2([]int{64, 128, 192, 255, 65, 100}[r.Intn(6)])
			switch r.Intn(3) {
			case 0:
				a.Add(a, big.NewInt(int64(r.Intn(256))))
			case 1:
				a.Mul(a, big.NewInt(int64(1+r.Intn(5)))).Add(a, big.NewInt(int64(r.Intn(8))))
				a.Mod(a, bigW)
			}
			if b.Sign() == 0 {
				b = big.NewInt(int64(1 + r.Intn(255)))
			}
		} else if r.Chance(3, 4) {
			a = big.NewInt(int64(r.Intn(260)))
			if r.Chance(1, 4) {
				a = big.NewInt(int64([]int{0, 1, 63, 64, 65, 127, 128, 129, 191, 192, 193, 254, 255, 256, 257, 258, 300, 511, 512}[r.Intn(19)]))
			}
		}
	case "BYTE", "SIGNEXTEND":
		if r.Chance(3, 4) {
			a = big.NewInt(int64(r.Intn(35)))
		}
	case "ADDMOD", "MULMOD":
		if r.Chance(1, 3) { // modulus with the top limb set (uint256 fast paths), operands around it
			c = new(big.Int).SetBytes(r.Bytes(32))
			c.SetBit(c, 255-r.Intn(60), 1)
			if r.Bool() {
				a = new(big.Int).Add(c, big.NewInt(int64(r.Intn(3)-1)))
				a.Mod(a, bigW)
			}
		}
	case "DIV", "SDIV", "MOD", "SMOD":
		if r.Chance(1, 5) {
			b = new(big.Int).Set(a) // equal operands
		}
		if r.Chance(1, 5) {
			b = new(big.Int).Mod(b, pow2(64)) // single-limb divisor
		}
	}
	return AluVec{Op: op, A: a.Text(16), B: b.Text(16), C: c.Text(16)}
}

// ---------------------------------------------------------------- assembler

type asm struct {
	b      []byte
	fix    []fixup // PUSH2 label references
	labels map[int]int
	nlab   int
}
type fixup struct{ at, label int }

// genFork: fork level of the case being generated (PUSH0 exists from level 3 on)
var genFork = 3

func newAsm() *asm { return &asm{labels: map[int]int{}} }

func (a *asm) op(o ...byte) *asm { a.b = append(a.b, o...); return a }
func (a *asm) push(v *big.Int) *asm {
	bs := v.Bytes()
	if len(bs) == 0 {
		if genFork < 3 {
			return a.op(0x60, 0x00)
		}
		return a.op(0x5f)
	}
	if len(bs) > 32 {
		bs = bs[len(bs)-32:]
	}
	a.b = append(a.b, byte(0x5f+len(bs)))
	a.b = append(a.b, bs...)
	return a
}
func (a *asm) pushN(n int, v *big.Int) *asm { // fixed-width PUSHn
	bs := make([]byte, n)
	v.FillBytes(bs[:])
	a.b = append(a.b, byte(0x5f+n))
	a.b = append(a.b, bs...)
	return a
}
func (a *asm) pushU(v uint64) *asm { return a.push(new(big.Int).SetUint64(v)) }
func (a *asm) newLabel() int      { a.nlab++; return a.nlab }
func (a *asm) pushLabel(l int) *asm {
	a.b = append(a.b, 0x61, 0, 0)
	a.fix = append(a.fix, fixup{len(a.b) - 2, l})
	return a
}
func (a *asm) place(l int) *asm { a.labels[l] = len(a.b); return a.op(0x5b) }
func (a *asm) bytes() []byte {
	for _, f := range a.fix {
		p := a.labels[f.label]
		a.b[f.at], a.b[f.at+1] = byte(p>>8), byte(p)
	}
	return a.b
}

// ---------------------------------------------------------------- program grammar

type world struct {
	addrs []string // contract addresses (hex)
}

func memOffset(r *hx.Rand) *big.Int {
	switch r.Intn(40) {
	case 0:
		return new(big.Int).Sub(pow2(64), big.NewInt(int64(r.Intn(40)))) // uint64 edge
	case 1:
		return boundaryWord(r)
	case 2:
		return big.NewInt(int64(20000 + r.Intn(60000))) // large expansion
	case 3, 4, 6, 7:
		return big.NewInt(int64(1000 + r.Intn(6000)))
	case 5:
		return new(big.Int).Add(big.NewInt(0xffffffffe0-64), big.NewInt(int64(r.Intn(128)))) // memory gas bound
	default:
		return big.NewInt(int64(r.Intn(300)))
	}
}
func smallLen(r *hx.Rand) *big.Int {
	switch r.Intn(12) {
	case 0:
		return big.NewInt(0)
	case 1:
		return boundaryWord(r)
	case 2:
		return big.NewInt(int64(500 + r.Intn(3000)))
	default:
		return big.NewInt(int64(r.Intn(100)))
	}
}
func storeKey(r *hx.Rand) *big.Int {
	switch r.Intn(8) {
	case 0:
		return new(big.Int).Sub(pow2(256), big.NewInt(1))
	case 1:
		return pow2(160 + r.Intn(90))
	default:
		return big.NewInt(int64(r.Intn(4)))
	}
}
func storeVal(r *hx.Rand) *big.Int {
	if r.Chance(2, 5) {
		return big.NewInt(0)
	}
	if r.Bool() {
		return big.NewInt(int64(1 + r.Intn(5)))
	}
	return boundaryWord(r)
}

// genBlock appends one self-contained block (net stack effect 0, except where noted).
func genBlock(r *hx.Rand, a *asm, w *world, self int, depthBudget int) {
	switch k := r.Intn(100); {
	case k < 16: // ALU over boundary operands, result stored or dropped
		op := aluOps[r.Intn(len(aluOps))]
		v := genAluVec(r, op)
		if op == "EXP" && !r.Chance(1, 40) { // the extracted model's EXP is slow: short exponents inside (possibly recursive) programs
			v.B = new(big.Int).Mod(bigHex(v.B), pow2(1+r.Intn(16))).Text(16)
		}
		ar := aluArity(op)
		if ar >= 3 {
			a.push(bigHex(v.C))
		}
		if ar >= 2 {
			a.push(bigHex(v.B))
		}
		a.push(bigHex(v.A)).op(aluCode[op])
		switch r.Intn(3) {
		case 0:
			a.op(0x50)
		case 1:
			a.pushU(uint64(r.Intn(4))).op(0x55) // SSTORE result
		default:
			a.pushU(uint64(32 * r.Intn(6))).op(0x52) // MSTORE result
		}
	case k < 24: // MSTORE / MSTORE8 / MLOAD / MSIZE
		switch r.Intn(4) {
		case 0:
			a.push(boundaryWord(r)).push(memOffset(r)).op(0x52)
		case 1:
			a.push(boundaryWord(r)).push(memOffset(r)).op(0x53)
		case 2:
			a.push(memOffset(r)).op(0x51).op(0x50)
		default:
			a.op(0x59).pushU(uint64(r.Intn(3))).op(0x55)
		}
	case k < 36: // storage
		switch r.Intn(3) {
		case 0, 1:
			a.push(storeVal(r)).push(storeKey(r)).op(0x55)
		default:
			a.push(storeKey(r)).op(0x54).pushU(uint64(32 * r.Intn(4))).op(0x52)
		}
	case k < 42: // LOGn
		n := r.Intn(5)
		for i := 0; i < n; i++ {
			a.push(boundaryWord(r))
		}
		a.push(smallLen(r)).push(memOffset(r)).op(byte(0xa0 + n))
	case k < 50: // conditional forward jump over a few bytes (some of them push data containing 0x5b)
		l := a.newLabel()
		a.push(big.NewInt(int64(r.Intn(2)))).pushLabel(l).op(0x57)
		if r.Bool() {
			a.op(0x60, 0x5b, 0x50) // PUSH1 0x5b POP : a JUMPDEST byte inside push data
		}
		if r.Chance(1, 3) {
			a.push(storeVal(r)).push(storeKey(r)).op(0x55)
		}
		a.place(l)
	case k < 55: // bounded loop: counter on the stack
		n := 1 + r.Intn(5)
		top := a.newLabel()
		a.pushU(uint64(n)).place(top)
		if r.Bool() {
			a.op(0x80).pushU(uint64(r.Intn(3))).op(0x55) // DUP1 key SSTORE
		} else {
			a.op(0x5a, 0x50) // GAS POP
		}
		a.pushU(1).op(0x90, 0x03).op(0x80).pushLabel(top).op(0x57).op(0x50) // 1 SWAP1 SUB DUP1 top JUMPI POP
	case k < 58: // unconditional jump, sometimes to a bad place
		switch r.Intn(8) {
		case 6, 7: // jump to a 0x5b inside the data of PUSHn (invalid), or to the JUMPDEST right behind the data (valid)
			n := []int{1, 2, 3, 7, 8, 9, 15, 16, 17, 24, 31, 32}[r.Intn(12)]
			data := make([]byte, n)
			for i := range data {
				data[i] = 0x5b
			}
			at := len(a.b)
			target := at + 4 + 1 + r.Intn(n) // PUSH2 xx xx JUMP | PUSHn data...
			if r.Bool() {
				target = at + 4 + 1 + n + 1 // the JUMPDEST after POP
			}
			a.pushN(2, big.NewInt(int64(target))).op(0x56)
			a.op(byte(0x5f + n)).op(data...).op(0x50, 0x5b)
		case 0:
			a.push(boundaryWord(r)).op(0x56)
		case 1: // into push data
			at := len(a.b)
			a.pushU(uint64(at + 4)).op(0x56)
			for len(a.b) < at+3 {
				a.op(0x5b)
			}
			a.op(0x60, 0x5b, 0x50)
		default:
			l := a.newLabel()
			a.pushLabel(l).op(0x56).op(0xfe).place(l)
		}
	case k < 66: // copies
		switch r.Intn(4) {
		case 0:
			a.push(smallLen(r)).push(smallLen(r)).push(memOffset(r)).op(0x37) // CALLDATACOPY
		case 1:
			a.push(smallLen(r)).push(smallLen(r)).push(memOffset(r)).op(0x39) // CODECOPY
		case 2:
			a.push(smallLen(r)).push(smallLen(r)).push(memOffset(r)).op(0x3e) // RETURNDATACOPY
		default:
			a.push(smallLen(r)).op(0x35).pushU(uint64(32 * r.Intn(4))).op(0x52) // CALLDATALOAD
		}
	case k < 74: // environment / introspection
		ops := []byte{0x30, 0x32, 0x33, 0x34, 0x36, 0x38, 0x3a, 0x3d, 0x41, 0x42, 0x43, 0x44, 0x45, 0x46, 0x48, 0x58, 0x59, 0x5a}
		a.op(ops[r.Intn(len(ops))])
		switch r.Intn(3) {
		case 0:
			a.op(0x50)
		case 1:
			a.pushU(uint64(r.Intn(4))).op(0x55)
		default:
			a.pushU(uint64(32 * r.Intn(6))).op(0x52)
		}
	case k < 80: // stack shuffles
		n := 2 + r.Intn(15)
		for i := 0; i < n; i++ {
			a.pushU(uint64(i + 1))
		}
		a.op(byte(0x80 + r.Intn(n))).op(byte(0x90 + r.Intn(n)))
		if r.Chance(1, 8) {
			a.op(byte(0x80 + r.Intn(16))).op(byte(0x90 + r.Intn(16))) // possibly deeper than available
		}
		a.pushU(uint64(r.Intn(3))).op(0x55)
		for i := 0; i < n; i++ {
			a.op(0x50)
		}
	case k < 89: // calls
		if depthBudget <= 0 {
			a.op(0x5b)
			return
		}
		genCall(r, a, w, self)
	case k < 98: // account reads, hashing, creation, precompile / BLOCKHASH (the last two stay outside the model)
		switch r.Intn(12) {
		case 0:
			a.push(smallLen(r)).push(memOffset(r)).op(0x20).pushU(uint64(r.Intn(4))).op(0x55) // SHA3 -> slot
		case 1:
			a.push(someAddress(r, w)).op(0x31).pushU(uint64(r.Intn(4))).op(0x55) // BALANCE
		case 2:
			a.push(someAddress(r, w)).op(0x3b).pushU(uint64(r.Intn(4))).op(0x55) // EXTCODESIZE
		case 3:
			a.push(someAddress(r, w)).op(0x3f).pushU(uint64(r.Intn(4))).op(0x55) // EXTCODEHASH
		case 4:
			a.push(smallLen(r)).push(smallLen(r)).push(memOffset(r)).push(someAddress(r, w)).op(0x3c) // EXTCODECOPY
		case 5:
			a.op(0x47).pushU(uint64(r.Intn(4))).op(0x55) // SELFBALANCE
		case 6, 7, 8:
			if depthBudget > 0 {
				genCreate(r, a, w)
			}
		case 9, 10:
			switch r.Intn(4) {
			case 3:
				a.pushU(uint64(r.Intn(3))).op(0x40, 0x50) // BLOCKHASH
			case 0:
				genIdentity(r, a)
			case 1:
				genModexp(r, a)
			default:
				a.pushU(0).pushU(0).pushU(32).pushU(0).pushU(uint64(1 + r.Intn(9))).pushU(100000).op(0xfa, 0x50) // any precompile
			}
		default:
			a.push(someAddress(r, w)).op(0xff) // SELFDESTRUCT
		}
	default: // early terminator
		genEnd(r, a)
	}
}

func genEnd(r *hx.Rand, a *asm) {
	switch r.Intn(8) {
	case 0:
		a.op(0x00)
	case 1, 2, 3:
		a.push(smallLen(r)).push(memOffset(r)).op(0xf3)
	case 4, 5:
		a.push(smallLen(r)).push(memOffset(r)).op(0xfd)
	case 6:
		a.op(0xfe)
	default: // fall off the end
	}
}

func genCall(r *hx.Rand, a *asm, w *world, self int) {
	var target *big.Int
	switch t := r.Intn(22); {
	case t == 20:
		target = bigHex(eoaHex)
	case t == 21:
		target = new(big.Int).SetBytes(newAddrs[r.Intn(3)][:]) // possibly created earlier in this run
	case t == 0:
		target = bigHex("dead00000000000000000000000000000000beef") // no such account
	case t == 1:
		target = bigHex(w.addrs[self]) // recursion
	case t == 2:
		target = new(big.Int).Add(pow2(200), bigHex(w.addrs[r.Intn(len(w.addrs))])) // dirty high bits, same address
	default:
		target = bigHex(w.addrs[r.Intn(len(w.addrs))])
	}
	kind := []byte{0xf1, 0xf1, 0xf1, 0xfa, 0xfa, 0xf4, 0xf2}[r.Intn(7)]
	retSize, retOff := smallLen(r), memOffset(r)
	inSize, inOff := smallLen(r), memOffset(r)
	if r.Chance(3, 4) { // mostly cheap memory
		retOff, inOff = big.NewInt(int64(r.Intn(200))), big.NewInt(int64(r.Intn(200)))
		retSize, inSize = big.NewInt(int64(r.Intn(70))), big.NewInt(int64(r.Intn(70)))
	}
	a.push(retSize).push(retOff).push(inSize).push(inOff)
	if kind == 0xf1 || kind == 0xf2 {
		switch v := r.Intn(40); {
		case v < 6:
			a.pushU(uint64(1 + r.Intn(5))) // value-bearing (write protection under static)
		case v == 6:
			a.pushU(uint64(2000 + r.Intn(1000))) // more than any contract owns
		default:
			a.pushU(0)
		}
	}
	a.push(target)
	switch r.Intn(8) {
	case 0:
		a.pushU(uint64(r.Intn(3000)))
	case 1:
		a.push(boundaryWord(r))
	case 2:
		a.pushU(uint64(20000 + r.Intn(60000)))
	default:
		a.op(0x5a) // GAS: all but one 64th
	}
	a.op(kind)
	switch r.Intn(4) {
	case 0:
		a.op(0x50)
	case 1:
		a.pushU(uint64(4 + r.Intn(3))).op(0x55) // store the success flag
	case 2: // revert if the call failed
		l := a.newLabel()
		a.pushLabel(l).op(0x57).pushU(0).pushU(0).op(0xfd).place(l)
	default:
		a.op(0x50, 0x3d).pushU(7).op(0x55) // RETURNDATASIZE -> slot 7
		if r.Bool() {
			a.op(0x3d).pushU(0).pushU(uint64(32 * r.Intn(4))).op(0x3e) // RETURNDATACOPY(mem, 0, size)
		}
	}
}

func someAddress(r *hx.Rand, w *world) *big.Int {
	switch r.Intn(8) {
	case 0:
		return bigHex("dead00000000000000000000000000000000beef")
	case 1:
		return bigHex(eoaHex)
	case 2:
		return bigHex(originHex)
	case 3:
		return new(big.Int).SetBytes(newAddrs[r.Intn(3)][:])
	default:
		return bigHex(w.addrs[r.Intn(len(w.addrs))])
	}
}

// storeBytes writes b into memory at off (32-byte chunks, the last one zero padded on the right)
func storeBytes(a *asm, b []byte, off int) {
	for i := 0; i < len(b); i += 32 {
		chunk := make([]byte, 32)
		copy(chunk, b[i:])
		a.pushN(32, new(big.Int).SetBytes(chunk)).pushU(uint64(off + i)).op(0x52)
	}
}

// genIdentity: data in memory, call the identity precompile (0x04) on it, overwrite the data, then use the return data
func genIdentity(r *hx.Rand, a *asm) {
	off := uint64(32 * r.Intn(8))
	n := uint64(1 + r.Intn(64))
	a.push(boundaryWord(r)).pushU(off).op(0x52).push(boundaryWord(r)).pushU(off + 32).op(0x52)
	a.pushU(uint64(r.Intn(70))).pushU(uint64(512 + 32*r.Intn(4))).pushU(n).pushU(off)
	kind := []byte{0xf1, 0xfa, 0xf4}[r.Intn(3)]
	if kind == 0xf1 {
		a.pushU(0)
	}
	a.pushU(4).op(0x5a, kind).op(0x50)
	a.push(boundaryWord(r)).pushU(off).op(0x52)                              // overwrite the input region
	a.op(0x3d).pushU(0).pushU(768).op(0x3e)                                  // RETURNDATACOPY(768, 0, RETURNDATASIZE)
	a.pushU(768).op(0x51).pushU(uint64(r.Intn(4))).op(0x55)                   // MLOAD(768) -> slot
}

// genModexp: EIP-198 input with boundary operands (zero / empty exponent, modulus 0 / 1, base 0 / 1), call 0x05, copy the result
func genModexp(r *hx.Rand, a *asm) {
	pick := func() []byte {
		switch r.Intn(7) {
		case 0:
			return nil
		case 1:
			return []byte{0}
		case 2:
			return []byte{1}
		case 3:
			return []byte{2}
		case 4:
			return []byte{0, 0, 1}
		case 5:
			return r.Bytes(1 + r.Intn(3))
		default:
			return r.Bytes(1 + r.Intn(32))
		}
	}
	base, exp, mod := pick(), pick(), pick()
	word := func(n int) []byte { b := make([]byte, 32); b[31] = byte(n); return b }
	in := append(append(append([]byte{}, word(len(base))...), word(len(exp))...), word(len(mod))...)
	in = append(append(append(in, base...), exp...), mod...)
	if r.Chance(1, 5) && len(in) > 97 {
		in = in[:len(in)-1] // truncated input: the missing bytes read as zero
	}
	storeBytes(a, in, 1024)
	a.pushU(uint64(len(mod))).pushU(2048).pushU(uint64(len(in))).pushU(1024).pushU(5).op(0x5a, 0xfa).op(0x50)
	a.op(0x3d).pushU(0).pushU(2048).op(0x3e).pushU(2048).op(0x51).pushU(uint64(r.Intn(4))).op(0x55)
}

// genInit: an init code; runtime codes are small programs without calls
func genInit(r *hx.Rand, w *world) []byte {
	in := newAsm()
	switch r.Intn(12) {
	case 0:
		return nil // empty init code
	case 1:
		in.pushU(uint64(r.Intn(9))).pushU(uint64(r.Intn(3))).op(0x55).pushU(uint64(r.Intn(40))).pushU(0).op(0xfd) // write, REVERT
	case 2:
		in.pushU(0xef).pushU(0).op(0x53).pushU(uint64(1 + r.Intn(3))).pushU(0).op(0xf3) // code starting with 0xEF
	case 3:
		in.pushU(uint64(24570 + r.Intn(12))).pushU(0).op(0xf3) // around the code size limit
	case 4:
		in.pushU(1).pushU(0).op(0x55).op(0xfe) // write, INVALID
	case 5:
		in.push(someAddress(r, w)).op(0xff) // SELFDESTRUCT inside the init code
	default:
		rt := genContract(r, w, 0, 1+r.Intn(2), 0)
		if len(rt) > 200 {
			rt = rt[:200]
		}
		if r.Bool() { // a frame memory of 4 KiB or more before the code is returned from it
			in.pushU(uint64(1 + r.Intn(255))).pushU(uint64(4096 + 32*r.Intn(64))).op(0x52)
		}
		if r.Bool() {
			in.pushU(uint64(1 + r.Intn(9))).pushU(uint64(r.Intn(3))).op(0x55) // constructor write
		}
		if r.Chance(1, 3) {
			in.pushU(0).pushU(0).op(0xa0) // constructor log
		}
		// CODECOPY(0, <offset of runtime>, len) RETURN(0, len): fixed-width pushes so that the offset is known
		hdr := len(in.b) + 3 + 3 + 2 + 1 + 3 + 2 + 1
		in.pushN(2, big.NewInt(int64(len(rt)))).pushN(2, big.NewInt(int64(hdr))).pushN(1, big.NewInt(0)).op(0x39)
		in.pushN(2, big.NewInt(int64(len(rt)))).pushN(1, big.NewInt(0)).op(0xf3)
		in.b = append(in.b, rt...)
	}
	return in.bytes()
}

func genCreate(r *hx.Rand, a *asm, w *world) {
	init := genInit(r, w)
	off := 32 * r.Intn(4)
	storeBytes(a, init, off)
	two := r.Chance(1, 3)
	if two {
		a.pushU(uint64(r.Intn(3))) // salt: repeats lead to collisions
	}
	a.pushU(uint64(len(init))).pushU(uint64(off))
	switch v := r.Intn(10); {
	case v < 2:
		a.pushU(uint64(1 + r.Intn(4)))
	case v == 2:
		a.pushU(5000) // more than the creator owns
	default:
		a.pushU(0)
	}
	if two {
		a.op(0xf5)
	} else {
		a.op(0xf0)
	}
	switch r.Intn(6) {
	case 0:
		a.op(0x50)
	case 1:
		a.pushU(uint64(4 + r.Intn(3))).op(0x55) // remember the address
	case 2, 3: // let another frame run (it gets its own memory), then read the child's code back
		other := bigHex(w.addrs[r.Intn(len(w.addrs))])
		a.pushU(0).pushU(0).pushU(32).pushU(0).pushU(0).push(other).op(0x5a, 0xf1, 0x50)
		a.op(0x80, 0x3f).pushU(6).op(0x55)                                  // DUP1 EXTCODEHASH -> slot 6
		a.pushU(64).pushU(0).pushU(1536).op(0x83, 0x3c)                      // EXTCODECOPY(child, 1536, 0, 64)
		a.pushU(1536).op(0x51).pushU(7).op(0x55).op(0x50)                    // MLOAD -> slot 7 ; POP child
	default: // call the new contract
		a.op(0x80).pushU(uint64(r.Intn(3))).op(0x55) // DUP1 slot SSTORE
		a.pushU(32).pushU(0).pushU(0).pushU(0).pushU(uint64(r.Intn(2))).op(0x85, 0x5a, 0xf1) // ... value DUP6(addr) GAS CALL
		a.pushU(5).op(0x55).op(0x50)
	}
}

func genContract(r *hx.Rand, w *world, self int, blocks int, callBudget int) []byte {
	a := newAsm()
	for i := 0; i < blocks; i++ {
		genBlock(r, a, w, self, callBudget)
	}
	genEnd(r, a)
	return a.bytes()
}

func mutate(r *hx.Rand, code []byte) []byte {
	c := append([]byte{}, code...)
	n := 1 + r.Intn(4)
	for i := 0; i < n && len(c) > 0; i++ {
		p := r.Intn(len(c))
		switch r.Intn(4) {
		case 0:
			c[p] = byte(r.Intn(256))
		case 1:
			c = append(c[:p], c[p+1:]...)
		case 2:
			c = append(c[:p], append([]byte{byte(r.Intn(256))}, c[p:]...)...)
		default:
			c[p] ^= 1 << uint(r.Intn(8))
		}
	}
	return c
}

func randomCode(r *hx.Rand) []byte {
	n := 1 + r.Intn(120)
	c := make([]byte, n)
	common := []byte{0x60, 0x60, 0x61, 0x7f, 0x5f, 0x01, 0x02, 0x03, 0x10, 0x14, 0x15, 0x16, 0x50, 0x51, 0x52, 0x53, 0x54, 0x55, 0x56,
		0x57, 0x5b, 0x80, 0x81, 0x90, 0x91, 0xa0, 0xa1, 0xf1, 0xf3, 0xfa, 0xfd, 0x36, 0x37, 0x39, 0x3d, 0x3e, 0x5a, 0x58, 0x59, 0x1b, 0x1c, 0x1d, 0x0b, 0x1a}
	for i := range c {
		if r.Chance(2, 3) {
			c[i] = common[r.Intn(len(common))]
		} else {
			c[i] = byte(r.Intn(256))
		}
	}
	return c
}

func genStorage(r *hx.Rand, w *world) []Slot {
	var s []Slot
	for _, ad := range w.addrs {
		for k := 0; k < 4; k++ {
			if r.Chance(1, 3) {
				s = append(s, Slot{Addr: ad, Key: big.NewInt(int64(k)).Text(16), Val: big.NewInt(int64(1 + r.Intn(9))).Text(16)})
			}
		}
	}
	return s
}

func genGas(r *hx.Rand) uint64 {
	switch r.Intn(10) {
	case 0:
		return uint64(r.Intn(3000))
	case 1:
		return uint64(20000 + r.Intn(30000))
	case 2:
		return 2_000_000
	default:
		return uint64(100_000 + r.Intn(400_000))
	}
}

func genProgCase(r *hx.Rand) *Case {
	genFork = 3
	if f := r.Intn(10); f < 3 { // 10% each under the three earlier tables
		genFork = f
	}
	defer func() { genFork = 3 }()
	c := genProgCaseAt(r)
	if genFork != 3 {
		f := genFork
		c.Fork = &f
	}
	return c
}

func genProgCaseAt(r *hx.Rand) *Case {
	w := &world{addrs: []string{contractAHex, contractBHex}}
	if r.Bool() {
		w.addrs = append(w.addrs, contractCHex)
	}
	c := &Case{Kind: "prog", To: contractAHex, Gas: genGas(r), Input: hx.Hex(r.Bytes(r.Intn(70)))}
	switch k := r.Intn(100); {
	case k < 70:
		c.Gen = "grammar"
		for i, ad := range w.addrs {
			c.Contracts = append(c.Contracts, Contract{Addr: ad, Code: hx.Hex(genContract(r, w, i, 2+r.Intn(10), 2))})
		}
	case k < 85:
		c.Gen = "mutated"
		for i, ad := range w.addrs {
			code := genContract(r, w, i, 2+r.Intn(8), 2)
			if i == 0 || r.Bool() {
				code = mutate(r, code)
			}
			c.Contracts = append(c.Contracts, Contract{Addr: ad, Code: hx.Hex(code)})
		}
	case k < 95:
		c.Gen = "random"
		c.Contracts = append(c.Contracts, Contract{Addr: contractAHex, Code: hx.Hex(randomCode(r))})
		c.Contracts = append(c.Contracts, Contract{Addr: contractBHex, Code: hx.Hex(randomCode(r))})
	default:
		c.Gen = "stress"
		a := newAsm()
		switch r.Intn(4) {
		case 0: // stack limit: push until 1024 is exceeded
			top := a.newLabel()
			a.place(top).pushU(0).pushU(0).pushU(0).pushLabel(top).op(0x56)
			c.Gas = 100000
		case 1: // unbounded self recursion with all gas, result flag stored
			a.pushU(0).pushU(0).pushU(0).pushU(0).pushU(0).op(0x30, 0x5a, 0xf1).pushU(1).op(0x55)
			c.Gas = []uint64{50_000, 1_000_000, 1 << 44}[r.Intn(3)]
		case 2: // call B, copy return data beyond its end
			a.pushU(0).pushU(0).pushU(0).pushU(0).push(bigHex(contractBHex)).op(0x5a, 0xfa, 0x50)
			a.pushU(uint64(r.Intn(70))).pushU(uint64(r.Intn(40))).pushU(0).op(0x3e).op(0x3d).pushU(0).op(0x55)
		default: // static call into a writer, then write after return
			a.pushU(32).pushU(0).pushU(0).pushU(0).push(bigHex(contractBHex)).op(0x5a, 0xfa).pushU(2).op(0x55)
			a.pushU(9).pushU(3).op(0x55)
		}
		c.Contracts = append(c.Contracts, Contract{Addr: contractAHex, Code: hx.Hex(a.bytes())})
		c.Contracts = append(c.Contracts, Contract{Addr: contractBHex, Code: hx.Hex(genContract(r, w, 1, 2+r.Intn(6), 1))})
	}
	c.Storage = genStorage(r, w)
	for i := range c.Contracts {
		if r.Bool() {
			c.Contracts[i].Bal = big.NewInt(int64(r.Intn(1000))).Text(16)
		}
	}
	if r.Chance(1, 3) {
		c.Contracts = append(c.Contracts, Contract{Addr: eoaHex, Bal: big.NewInt(int64(1 + r.Intn(50))).Text(16)})
	}
	if r.Chance(1, 5) {
		c.Value = big.NewInt(int64(1 + r.Intn(9))).Text(16)
	}
	return c
}

func genAluCase(r *hx.Rand, per int) *Case {
	c := &Case{Kind: "alu", Gen: "alu", Gas: 3_000_000, To: contractAHex}
	for i := 0; i < per; i++ {
		c.Vecs = append(c.Vecs, genAluVec(r, aluOps[r.Intn(len(aluOps))]))
	}
	return c
}

// aluProgram: for each vector  PUSH32 c? PUSH32 b? PUSH32 a OP PUSH2 off MSTORE ; PUSH2 size PUSH0 RETURN
func aluProgram(vs []AluVec) []byte {
	a := newAsm()
	for i, v := range vs {
		ar := aluArity(v.Op)
		if ar >= 3 {
			a.pushN(32, bigHex(v.C))
		}
		if ar >= 2 {
			a.pushN(32, bigHex(v.B))
		}
		a.pushN(32, bigHex(v.A)).op(aluCode[v.Op]).pushN(2, big.NewInt(int64(32*i))).op(0x52)
	}
	a.pushN(2, big.NewInt(int64(32*len(vs)))).op(0x60, 0x00, 0xf3)
	return a.bytes()
}
