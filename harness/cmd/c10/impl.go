package main

// Running a case on the REAL EVM: runtime.New(...).PrepareClause over statedb.New(state.New(muxdb.NewMem())) — the
// path every clause of every transaction takes (vm.NewEVM with thor's chain config, vm.EVM.Call, interpreter.Run).
// A vm.Logger (public tracing interface) observes, without influencing execution:
//   * every executed ALU instruction: operands and the result found on the stack at the next step (checked against mathALU),
//   * every SSTORE key (so that the final storage can be read back on the complete write set),
//   * every call frame's entry/exit: storage on all known keys, refund and log count (failed-frame and static predicates),
//   * the (gas, cost) sequence of the outermost frame (used to choose out-of-gas cut points).

import (
	"bytes"
	"fmt"
	"math/big"
	"sort"
	"strings"

	"github.com/ethereum/go-ethereum/common"
	"github.com/vechain/thor/v2/block"
	"github.com/vechain/thor/v2/builtin"
	"github.com/vechain/thor/v2/chain"
	"github.com/vechain/thor/v2/muxdb"
	"github.com/vechain/thor/v2/runtime"
	"github.com/vechain/thor/v2/runtime/statedb"
	"github.com/vechain/thor/v2/state"
	"github.com/vechain/thor/v2/thor"
	"github.com/vechain/thor/v2/trie"
	"github.com/vechain/thor/v2/tx"
	"github.com/vechain/thor/v2/vm"
	"github.com/vechain/thor/v2/xenv"

	"verif/harness/internal/hx"
)

type Contract struct {
	Addr string `json:"addr"`          // hex number (<= 20 bytes)
	Code string `json:"code"`          // hex bytes ("" = an account without code)
	Bal  string `json:"bal,omitempty"` // hex number, wei
}
type Slot struct {
	Addr string `json:"addr"`
	Key  string `json:"key"`
	Val  string `json:"val"`
}
type AluVec struct {
	Op string `json:"op"`
	A  string `json:"a"`
	B  string `json:"b"`
	C  string `json:"c"`
}
type Case struct {
	Kind      string     `json:"kind"` // "prog" | "alu"
	Gen       string     `json:"gen"`  // generator stream
	Contracts []Contract `json:"contracts,omitempty"`
	Storage   []Slot     `json:"storage,omitempty"`
	To        string     `json:"to,omitempty"`
	Input     string     `json:"input,omitempty"`
	Value     string     `json:"value,omitempty"` // hex number, wei sent with the entry call
	Fork      *int       `json:"fork,omitempty"`  // 0 before ETH_CONST, 1 ETH_CONST, 2 ETH_IST, 3 GALACTICA (default)
	Gas       uint64     `json:"gas"`
	Vecs      []AluVec   `json:"vecs,omitempty"`
	Sweep     []uint64   `json:"sweep,omitempty"` // additional gas values (filled by the harness / kept in replays)
}

// fixed environment (also sent to the oracle)
const (
	envNumber    = 1 // block 1 on a chain holding only its genesis block: BLOCKHASH(0) is answerable, nothing else is in range
	envTime      = 12345
	envGasLimit  = 10_000_000
	envBaseFee   = 7
	envGasPrice  = 3
	originHex    = "6f726967696e"
	coinbaseHex  = "c01bba5e"
	contractAHex = "a11ce0000000000000000000000000000000a1"
	contractBHex = "b0b00000000000000000000000000000000000b2"
	contractCHex = "c0c0a000000000000000000000000000000000c3"
	eoaHex       = "e0a0000000000000000000000000000000000e0a" // an account with balance and no code
	originBal    = 1_000_000_000
	nNewAddrs    = 12
)

var txID = thor.Bytes32{0x7c, 0x10}

// thor.CreateContractAddress(txID, clauseIndex 0, counter) for the first counters; $Master event id
var newAddrs = func() []thor.Address {
	var l []thor.Address
	for i := uint32(0); i < nNewAddrs; i++ {
		l = append(l, thor.CreateContractAddress(txID, 0, i))
	}
	return l
}()
var masterTopicHex = func() string {
	ev, ok := builtin.Prototype.Events().EventByName("$Master")
	if !ok {
		panic("$Master event not found")
	}
	id := ev.ID()
	return hx.HexN(id[:])
}()

func (c *Case) fork() int {
	if c.Fork == nil {
		return 3
	}
	return *c.Fork
}

// thor fork configurations under which runtime.New selects the Byzantium / Constantinople / Istanbul / Shanghai tables at block 1
var forkConfigs = func() [4]*thor.ForkConfig {
	var l [4]*thor.ForkConfig
	for i := range l {
		fc := thor.SoloFork
		const never = ^uint32(0)
		if i < 1 {
			fc.ETH_CONST = never
		}
		if i < 2 {
			fc.ETH_IST = never
		}
		if i < 3 {
			fc.GALACTICA = never
		}
		l[i] = &fc
	}
	return l
}()

func valOf(s string) *big.Int {
	if s == "" {
		return new(big.Int)
	}
	return bigHex(s)
}

var sharedDB = muxdb.NewMem()

// a one-block chain (thor derives CHAINID from the genesis id and answers BLOCKHASH from the chain)
var theChain, chainIDHex = func() (*chain.Chain, string) {
	b0 := new(block.Builder).ParentID(thor.Bytes32{0xff, 0xff, 0xff, 0xff}).GasLimit(envGasLimit).Build()
	repo, err := chain.NewRepository(muxdb.NewMem(), b0)
	if err != nil {
		panic(err)
	}
	id := b0.Header().ID()
	return repo.NewBestChain(), hx.HexN(id[:])
}()

func bigHex(s string) *big.Int {
	v, ok := new(big.Int).SetString(s, 16)
	if !ok {
		hx.Fatal("bad hex number %q", s)
	}
	return v
}
func addrOf(s string) thor.Address { return thor.BytesToAddress(bigHex(s).Bytes()) }
func b32Of(s string) thor.Bytes32  { return thor.BytesToBytes32(bigHex(s).Bytes()) }
func hexBytes(s string) []byte {
	if s == "" || s == "-" {
		return nil
	}
	b := make([]byte, len(s)/2)
	for i := range b {
		fmt.Sscanf(s[2*i:2*i+2], "%02x", &b[i])
	}
	return b
}
func hexOrDash(b []byte) string {
	if len(b) == 0 {
		return "-"
	}
	return hx.Hex(b)
}

type Obs struct {
	Panic    string
	Class    string // ok | revert | fail
	ErrText  string
	Data     string
	Gas      uint64
	Refund   uint64
	Logs     []string // "addr topics data"
	Storage  map[string]string // "addr key" -> value (hex number) on the key set
	Accts    map[string]string // addr -> "balance code master"
	Transfers []string         // "from to amount"
	Hashes   [][2]string       // (preimage, Keccak-256) pairs the run needs
	st       *state.State
	Steps    [][2]uint64       // outermost frame: gas before, cost
	PropFail []string          // property predicates that failed on this run (implementation only)
	Ops      map[string]int
	MaxDepth int
	AluSeen  int
}

type frameSnap struct {
	typ    vm.OpCode
	static bool
	vals   map[string]common.Hash
	accts  map[common.Address]string // balance + code hash
	refund uint64
	nlogs  int
	ntrans int
}

type tracer struct {
	env     *vm.EVM
	sdb     *statedb.StateDB
	known   map[string]struct{} // "addr|key" ever written (or pre-set)
	knownK  [][2][]byte
	knownA  map[common.Address]struct{} // accounts that may have been touched (initial world, every call/create/selfdestruct target)
	addrs   []common.Address
	pre     map[string][]byte // byte strings the run hashes
	pendP   map[int]*pendPrecompile      // a call to the identity / modexp precompile just issued at this depth
	watchP  map[int]*pendPrecompile      // its expected return data, watched until the next call at this depth
	deployed map[common.Address][]byte   // code returned by the init code of every successful creation
	depOwner map[common.Address]int      // index of the frame that performed the creation (its failure undoes it)
	enterTo []common.Address             // targets of the open frames (parallel to frames)
	frames  []*frameSnap
	steps   [][2]uint64
	fails   []string
	ops     map[string]int
	maxDep  int
	aluSeen int
	pend    map[int]*pendAlu
	pendJ   map[int]*pendJump
}
type pendPrecompile struct {
	what string
	want []byte
}
type pendJump struct {
	dest  *big.Int
	valid bool // by the reference rule: inside the code, a JUMPDEST byte, not operand data of a PUSH
}

// refValidJump: the Yellow Paper's D(c): positions of JUMPDEST instructions, skipping PUSH operands.
func refValidJump(code []byte, dest *big.Int) bool {
	if !dest.IsUint64() || dest.Uint64() >= uint64(len(code)) {
		return false
	}
	d := int(dest.Uint64())
	for pc := 0; pc < len(code); {
		if pc == d {
			return code[pc] == 0x5b
		}
		if code[pc] >= 0x60 && code[pc] <= 0x7f {
			pc += int(code[pc]-0x5f) + 1
		} else {
			pc++
		}
		if pc > d {
			return false
		}
	}
	return false
}
type pendAlu struct {
	op   string
	want *big.Int
	a, b, c *big.Int
	n    int // stack length expected afterwards
}

func (t *tracer) CaptureClauseStart(uint64) {}
func (t *tracer) CaptureClauseEnd(uint64)   {}

func kk(a common.Address, k common.Hash) string { return string(a[:]) + "|" + string(k[:]) }

func (t *tracer) addKey(a common.Address, k common.Hash) {
	id := kk(a, k)
	if _, ok := t.known[id]; ok {
		return
	}
	t.known[id] = struct{}{}
	t.knownK = append(t.knownK, [2][]byte{append([]byte{}, a[:]...), append([]byte{}, k[:]...)})
	// first sight of this slot in this clause: it has not been written before, so its current value is the value it
	// had at the entry of every open frame
	cur := t.env.StateDB.GetState(a, k)
	for _, f := range t.frames {
		f.vals[id] = cur
	}
}

func (t *tracer) nlogs() (int, int) {
	ev, tr := t.sdb.GetLogs()
	return len(ev), len(tr)
}

func (t *tracer) acctDigest(a common.Address) string {
	h := t.env.StateDB.GetCodeHash(a)
	return t.env.StateDB.GetBalance(a).Text(16) + " " + hx.Hex(h[:])
}

func (t *tracer) addAddr(a common.Address) {
	if _, ok := t.knownA[a]; ok {
		return
	}
	t.knownA[a] = struct{}{}
	t.addrs = append(t.addrs, a)
	if t.env == nil {
		return
	}
	// first sight in this clause: every balance/code change goes through a frame entry that names its target, so the account
	// still has the value it had at the entry of every open frame
	cur := t.acctDigest(a)
	for _, f := range t.frames {
		f.accts[a] = cur
	}
}

func (t *tracer) addPre(b []byte) { t.pre[string(b)] = append([]byte{}, b...) }

// memory as the instruction will see it (the tracer runs before the resize): zero-extended
func memSlice(m *vm.Memory, off, size uint64) []byte {
	out := make([]byte, size)
	d := m.Data()
	if off < uint64(len(d)) {
		copy(out, d[off:])
	}
	return out
}

func (t *tracer) snap(typ vm.OpCode) *frameSnap {
	nl, nt := t.nlogs()
	f := &frameSnap{typ: typ, vals: map[string]common.Hash{}, accts: map[common.Address]string{}, refund: t.env.StateDB.GetRefund(), nlogs: nl, ntrans: nt}
	for _, a := range t.addrs {
		f.accts[a] = t.acctDigest(a)
	}
	if len(t.frames) > 0 && t.frames[len(t.frames)-1].static {
		f.static = true
	}
	if typ == vm.STATICCALL {
		f.static = true
	}
	for _, k := range t.knownK {
		a, h := common.BytesToAddress(k[0]), common.BytesToHash(k[1])
		f.vals[kk(a, h)] = t.env.StateDB.GetState(a, h)
	}
	return f
}

func (t *tracer) unchanged(f *frameSnap) string {
	for _, k := range t.knownK {
		a, h := common.BytesToAddress(k[0]), common.BytesToHash(k[1])
		if cur := t.env.StateDB.GetState(a, h); cur != f.vals[kk(a, h)] {
			return fmt.Sprintf("storage %x[%x] is %x, was %x at frame entry", a, h, cur, f.vals[kk(a, h)])
		}
	}
	if r := t.env.StateDB.GetRefund(); r != f.refund {
		return fmt.Sprintf("refund is %d, was %d at frame entry", r, f.refund)
	}
	if n, nt := t.nlogs(); n != f.nlogs || nt != f.ntrans {
		return fmt.Sprintf("%d logs / %d transfers, %d / %d at frame entry", n, nt, f.nlogs, f.ntrans)
	}
	for _, a := range t.addrs {
		if cur := t.acctDigest(a); cur != f.accts[a] {
			return fmt.Sprintf("account %x (balance, code hash) is [%s], was [%s] at frame entry", a, cur, f.accts[a])
		}
	}
	return ""
}

func (t *tracer) exit(err error) {
	if len(t.frames) == 0 {
		return
	}
	f := t.frames[len(t.frames)-1]
	t.frames = t.frames[:len(t.frames)-1]
	if f.typ == vm.SELFDESTRUCT {
		return
	}
	if err != nil {
		if d := t.unchanged(f); d != "" {
			t.fails = append(t.fails, "failed-frame: a "+f.typ.String()+" frame ended with ["+errClass(err)+"] but "+d)
		}
	} else if f.static {
		if d := t.unchanged(f); d != "" {
			t.fails = append(t.fails, "static: a frame under STATICCALL ended successfully but "+d)
		}
	}
}

func (t *tracer) CaptureStart(env *vm.EVM, from, to common.Address, create bool, input []byte, gas uint64, value *big.Int) {
	t.env = env
	t.sdb, _ = env.StateDB.(*statedb.StateDB)
	t.addAddr(from)
	t.addAddr(to)
	t.frames = append(t.frames, t.snap(vm.CALL))
}
func (t *tracer) CaptureEnd(output []byte, gasUsed uint64, err error) { t.exit(err) }
func (t *tracer) CaptureEnter(typ vm.OpCode, from, to common.Address, input []byte, gas uint64, value *big.Int) {
	t.addAddr(from)
	t.addAddr(to)
	t.enterTo = append(t.enterTo, to)
	if typ == vm.SELFDESTRUCT {
		delete(t.deployed, from) // the account is deleted
	}
	if typ == vm.SELFDESTRUCT { // a pseudo frame (enter/exit around the beneficiary transfer): no snapshot semantics
		t.frames = append(t.frames, &frameSnap{typ: typ, vals: map[string]common.Hash{}, accts: map[common.Address]string{}, refund: ^uint64(0)})
		return
	}
	t.frames = append(t.frames, t.snap(typ))
	delete(t.pendP, len(t.frames)) // a new frame at this depth starts with empty return data
	delete(t.watchP, len(t.frames))
	if len(t.frames) > t.maxDep {
		t.maxDep = len(t.frames)
	}
}
func (t *tracer) CaptureExit(output []byte, gasUsed uint64, err error) {
	if n := len(t.enterTo); n > 0 {
		to := t.enterTo[n-1]
		t.enterTo = t.enterTo[:n-1]
		if len(t.frames) > 0 {
			if typ := t.frames[len(t.frames)-1].typ; (typ == vm.CREATE || typ == vm.CREATE2) && err == nil {
				t.deployed[to] = append([]byte{}, output...) // what the init code returned is what must stay deployed
				t.depOwner[to] = len(t.frames) - 1
			}
		}
	}
	if err != nil { // a failing frame undoes the creations made inside it
		for a, owner := range t.depOwner {
			if owner >= len(t.frames) {
				delete(t.deployed, a)
				delete(t.depOwner, a)
			}
		}
	}
	t.exit(err)
}
func (t *tracer) CaptureFault(pc uint64, op vm.OpCode, gas, cost uint64, memory *vm.Memory, stack *vm.Stack, contract *vm.Contract, depth int, err error) {
	if p := t.pendJ[depth]; p != nil {
		delete(t.pendJ, depth)
		if err == vm.ErrInvalidJump && p.valid {
			t.fails = append(t.fails, fmt.Sprintf("jump: destination %x is a JUMPDEST instruction but the EVM rejected it", p.dest))
		}
	}
}

func (t *tracer) CaptureState(pc uint64, op vm.OpCode, gas, cost uint64, memory *vm.Memory, stack *vm.Stack, contract *vm.Contract, rData []byte, depth int, err error) {
	data := stack.Data()
	if p := t.pend[depth]; p != nil {
		delete(t.pend, depth)
		if len(data) != p.n {
			t.fails = append(t.fails, fmt.Sprintf("alu: %s left %d stack items, expected %d", p.op, len(data), p.n))
		} else if got := data[len(data)-1].ToBig(); got.Cmp(p.want) != 0 {
			t.fails = append(t.fails, fmt.Sprintf("alu: %s(%x, %x, %x) = %x on the EVM, %x by its mathematical definition", p.op, p.a, p.b, p.c, got, p.want))
		}
	}
	if p := t.pendP[depth]; p != nil { // the step after a call to identity / modexp: success flag on top of the stack
		delete(t.pendP, depth)
		if len(data) > 0 && data[len(data)-1].IsUint64() && data[len(data)-1].Uint64() == 1 {
			t.watchP[depth] = p
			t.ops["checked-precompile-"+p.what]++
		}
	}
	if p := t.watchP[depth]; p != nil && !bytes.Equal(rData, p.want) {
		delete(t.watchP, depth)
		t.fails = append(t.fails, fmt.Sprintf("precompile-%s: return data is %x, the %s of the call's input (as it was at call time) is %x", p.what, rData, p.what, p.want))
	}
	if p := t.pendJ[depth]; p != nil {
		delete(t.pendJ, depth)
		if p.dest.IsUint64() && p.dest.Uint64() == pc && !p.valid {
			t.fails = append(t.fails, fmt.Sprintf("jump: the EVM jumped to %x, which is not a JUMPDEST instruction (push data or no JUMPDEST)", p.dest))
		}
	}
	if err != nil {
		return
	}
	if depth == 1 {
		t.steps = append(t.steps, [2]uint64{gas, cost})
	}
	// the declarative gas specification (memory expansion, copy/hash/log words, all-but-one-64th) on this very step
	if want, ok := refGas(byte(op), func(i int) *big.Int {
		if i < len(data) {
			return data[len(data)-1-i].ToBig()
		}
		return new(big.Int)
	}, uint64(memory.Len()), gas); ok && (!want.IsUint64() || want.Uint64() != cost) {
		t.fails = append(t.fails, fmt.Sprintf("gas: %s with %d active memory bytes and %d gas was charged %d, the gas specification says %s", op.String(), memory.Len(), gas, cost, want.String()))
	}
	if (op == vm.JUMP && len(data) >= 1) || (op == vm.JUMPI && len(data) >= 2 && !data[len(data)-2].IsZero()) {
		d := data[len(data)-1].ToBig()
		t.pendJ[depth] = &pendJump{dest: d, valid: refValidJump(contract.Code, d)}
	}
	t.ops[op.String()]++
	if name, ok := aluName[byte(op)]; ok {
		ar := aluArity(name)
		if len(data) >= ar {
			var v [3]*big.Int
			for i := 0; i < 3; i++ {
				v[i] = new(big.Int)
				if i < ar {
					v[i] = data[len(data)-1-i].ToBig()
				}
			}
			t.aluSeen++
			t.pend[depth] = &pendAlu{op: name, want: mathALU(name, v[0], v[1], v[2]), a: v[0], b: v[1], c: v[2], n: len(data) - ar + 1}
		}
	}
	if op == vm.CALL || op == vm.CALLCODE || op == vm.DELEGATECALL || op == vm.STATICCALL || op == vm.CREATE || op == vm.CREATE2 {
		delete(t.watchP, depth) // the return data buffer is about to be replaced
		hv := 0
		if op == vm.CALL || op == vm.CALLCODE {
			hv = 1
		}
		if op != vm.CREATE && op != vm.CREATE2 && len(data) >= 6+hv {
			tb := data[len(data)-2].Bytes20()
			target := new(big.Int).SetBytes(tb[:])
			if target.IsUint64() && (target.Uint64() == 4 || target.Uint64() == 5) {
				in := memSlice(memory, data[len(data)-3-hv].Uint64(), data[len(data)-4-hv].Uint64())
				if target.Uint64() == 4 {
					t.pendP[depth] = &pendPrecompile{what: "identity", want: in}
				} else if want, ok := refModexp(in); ok {
					t.pendP[depth] = &pendPrecompile{what: "modexp", want: want}
				}
			}
		}
	}
	switch {
	case op == vm.SHA3 && len(data) >= 2:
		t.addPre(memSlice(memory, data[len(data)-1].Uint64(), data[len(data)-2].Uint64()))
	case op == vm.CREATE2 && len(data) >= 4:
		init := memSlice(memory, data[len(data)-2].Uint64(), data[len(data)-3].Uint64())
		t.addPre(init)
		self, salt, h := contract.Address(), data[len(data)-4].Bytes32(), thor.Keccak256(init)
		t.addPre(append(append(append([]byte{0xff}, self[:]...), salt[:]...), h[:]...))
	case op == vm.EXTCODEHASH && len(data) >= 1:
		t.addPre(t.env.StateDB.GetCode(common.Address(data[len(data)-1].Bytes20())))
	}
	if op == vm.SSTORE && len(data) >= 2 && !(len(t.frames) > 0 && t.frames[len(t.frames)-1].static) {
		t.addKey(contract.Address(), common.Hash(data[len(data)-1].Bytes32()))
	}
}

func errClass(err error) string {
	switch err {
	case nil:
		return "ok"
	case vm.ErrExecutionReverted:
		return "revert"
	case vm.ErrOutOfGas:
		return "oog"
	case vm.ErrInvalidJump:
		return "jump"
	case vm.ErrWriteProtection:
		return "write"
	case vm.ErrReturnDataOutOfBounds:
		return "retdata"
	case vm.ErrDepth:
		return "depth"
	case vm.ErrGasUintOverflow:
		return "gasoverflow"
	}
	s := err.Error()
	switch {
	case strings.HasPrefix(s, "stack underflow"):
		return "underflow"
	case strings.HasPrefix(s, "stack limit"):
		return "overflow"
	case strings.HasPrefix(s, "invalid opcode"):
		return "invalid"
	}
	return "other"
}

// runImpl executes the case's entry call with the given gas on the real EVM.
func runImpl(c *Case, gas uint64, collectSteps bool) (o Obs) {
	o.Storage = map[string]string{}
	st := state.New(sharedDB, trie.Root{})
	tr := &tracer{known: map[string]struct{}{}, ops: map[string]int{}, pend: map[int]*pendAlu{}, pendJ: map[int]*pendJump{},
		knownA: map[common.Address]struct{}{}, pre: map[string][]byte{},
		pendP: map[int]*pendPrecompile{}, watchP: map[int]*pendPrecompile{}, deployed: map[common.Address][]byte{}, depOwner: map[common.Address]int{}}
	tr.addPre(nil)
	for _, ct := range c.Contracts {
		if ct.Code != "" {
			if err := st.SetCode(addrOf(ct.Addr), hexBytes(ct.Code)); err != nil {
				hx.Fatal("SetCode: %v", err)
			}
		}
		if b := valOf(ct.Bal); b.Sign() != 0 {
			if err := st.SetBalance(addrOf(ct.Addr), b); err != nil {
				hx.Fatal("SetBalance: %v", err)
			}
		}
		tr.addAddr(common.Address(addrOf(ct.Addr)))
	}
	if err := st.SetBalance(addrOf(originHex), big.NewInt(originBal)); err != nil {
		hx.Fatal("SetBalance: %v", err)
	}
	tr.addAddr(common.Address(addrOf(originHex)))
	for _, s := range c.Storage {
		st.SetStorage(addrOf(s.Addr), b32Of(s.Key), b32Of(s.Val))
		a, k := common.Address(addrOf(s.Addr)), common.Hash(b32Of(s.Key))
		if _, ok := tr.known[kk(a, k)]; !ok {
			tr.known[kk(a, k)] = struct{}{}
			tr.knownK = append(tr.knownK, [2][]byte{append([]byte{}, a[:]...), append([]byte{}, k[:]...)})
		}
	}
	rt := runtime.New(theChain, st, &xenv.BlockContext{Beneficiary: addrOf(coinbaseHex), Number: envNumber, Time: envTime,
		GasLimit: envGasLimit, BaseFee: big.NewInt(envBaseFee)}, forkConfigs[c.fork()]).SetVMConfig(vm.Config{Tracer: tr})
	to := addrOf(c.To)
	exec, _ := rt.PrepareClause(tx.NewClause(&to).WithData(hexBytes(c.Input)).WithValue(valOf(c.Value)), 0, gas,
		&xenv.TransactionContext{ID: txID, Origin: addrOf(originHex), GasPrice: big.NewInt(envGasPrice)})
	var out *runtime.Output
	func() {
		defer func() {
			if e := recover(); e != nil {
				o.Panic = fmt.Sprint(e)
			}
		}()
		var err error
		out, _, err = exec()
		if err != nil { // PrepareClause recovers panics of the EVM into this error
			o.Panic = err.Error()
		}
	}()
	o.st = st
	for _, b := range tr.pre {
		h := thor.Keccak256(b)
		o.Hashes = append(o.Hashes, [2]string{hexOrDash(b), hx.HexN(h[:])})
	}
	sort.Slice(o.Hashes, func(i, j int) bool { return o.Hashes[i][0] < o.Hashes[j][0] })
	if o.Panic != "" || out == nil {
		return o
	}
	o.ErrText = errClass(out.VMErr)
	switch out.VMErr {
	case nil:
		o.Class = "ok"
	case vm.ErrExecutionReverted:
		o.Class = "revert"
	default:
		o.Class = "fail"
	}
	o.Data = hexOrDash(out.Data)
	o.Gas = out.LeftOverGas
	o.Refund = out.RefundGas
	for _, ev := range out.Events {
		var ts []string
		for _, t := range ev.Topics {
			ts = append(ts, hx.HexN(t[:]))
		}
		tj := "-"
		if len(ts) > 0 {
			tj = strings.Join(ts, ",")
		}
		o.Logs = append(o.Logs, hx.HexN(ev.Address[:])+" "+tj+" "+hexOrDash(ev.Data))
	}
	for _, k := range tr.knownK {
		v, err := st.GetStorage(thor.BytesToAddress(k[0]), thor.BytesToBytes32(k[1]))
		if err != nil {
			hx.Fatal("GetStorage: %v", err)
		}
		o.Storage[hx.HexN(k[0])+" "+hx.HexN(k[1])] = hx.HexN(v[:])
	}
	o.Accts = map[string]string{}
	for _, a := range tr.addrs {
		o.Accts[hx.HexN(a[:])] = o.readAcct(hx.HexN(a[:]))
	}
	for _, t := range out.Transfers {
		o.Transfers = append(o.Transfers, hx.HexN(t.Sender[:])+" "+hx.HexN(t.Recipient[:])+" "+t.Amount.Text(16))
	}
	// the property's own clauses, on the implementation's observations alone
	o.PropFail = tr.fails
	if o.Class == "ok" {
		for a, want := range tr.deployed {
			code, err := st.GetCode(thor.Address(a))
			if err != nil {
				hx.Fatal("GetCode: %v", err)
			}
			if !bytes.Equal(code, want) {
				o.PropFail = append(o.PropFail, fmt.Sprintf("create: the code at %x is %x, its init code returned %x", a, code, want))
				break
			}
		}
	}
	if o.Class != "ok" {
		for _, s := range c.Storage {
			id := hx.HexN(addrOf(s.Addr).Bytes()) + " " + hx.HexN(b32Of(s.Key).Bytes())
			if o.Storage[id] != hx.HexN(b32Of(s.Val).Bytes()) {
				o.PropFail = append(o.PropFail, "failed-frame: the entry call ended with ["+o.ErrText+"] but storage "+id+" changed")
			}
		}
		if len(o.Logs) != 0 || o.Refund != 0 || len(o.Transfers) != 0 {
			o.PropFail = append(o.PropFail, fmt.Sprintf("failed-frame: the entry call ended with [%s] but left %d logs, %d transfers, refund %d", o.ErrText, len(o.Logs), len(o.Transfers), o.Refund))
		}
		for _, ct := range c.Contracts {
			want := valOf(ct.Bal).Text(16) + " " + hexOrDash(hexBytes(ct.Code)) + " 0"
			if got := o.Accts[hx.HexN(addrOf(ct.Addr).Bytes())]; got != want {
				o.PropFail = append(o.PropFail, "failed-frame: the entry call ended with ["+o.ErrText+"] but account "+ct.Addr+" is ["+got+"], was ["+want+"]")
			}
		}
	}
	if o.Gas > gas {
		o.PropFail = append(o.PropFail, fmt.Sprintf("gasleft: %d left of %d provided", o.Gas, gas))
	}
	if collectSteps {
		o.Steps = tr.steps
	}
	o.Ops = tr.ops
	o.MaxDepth = tr.maxDep
	o.AluSeen = tr.aluSeen
	return o
}

// readAcct / readSlot: final state of an account / slot straight from the state
func (o *Obs) readAcct(addrHex string) string {
	a := addrOf(addrHex)
	bal, err := o.st.GetBalance(a)
	if err != nil {
		hx.Fatal("GetBalance: %v", err)
	}
	code, err := o.st.GetCode(a)
	if err != nil {
		hx.Fatal("GetCode: %v", err)
	}
	m, err := o.st.GetMaster(a)
	if err != nil {
		hx.Fatal("GetMaster: %v", err)
	}
	return bal.Text(16) + " " + hexOrDash(code) + " " + hx.B(!m.IsZero())
}
func (o *Obs) readSlot(addrHex, keyHex string) string {
	v, err := o.st.GetStorage(addrOf(addrHex), b32Of(keyHex))
	if err != nil {
		hx.Fatal("GetStorage: %v", err)
	}
	return hx.HexN(v[:])
}

// expected oracle answer text built from the implementation's observations (same layout as the oracle prints);
// storage is compared separately on the union key set.
func (o *Obs) head() string {
	return fmt.Sprintf("%s %s %x %x", o.Class, o.Data, o.Gas, o.Refund)
}

func sortedKeys(m map[string]string) []string {
	ks := make([]string, 0, len(m))
	for k := range m {
		ks = append(ks, k)
	}
	sort.Strings(ks)
	return ks
}
