// C12 correspondence driver: committed tries stay readable across versions, restarts and pruning.
//
// A case is a block tree over one real MuxDB (mem LevelDB engine, real node/root caches, drawn partition
// factors / cache TTL): every block runs state operations on the real state.State opened at its parent's root,
// Stage/Commit at version (number, conflicts), and is added to a real chain.Repository (which commits the
// hash-skipped index trie).  Interleaved: reads of *every* root committed so far (accounts, storage tries,
// metadata through NodeIterator; the block-number index through chain.Chain), "restarts" (a fresh MuxDB over the
// same engine: empty caches) and rounds of the real pruner (hook pruner.VerifPruneTries) over aligned
// [base,target) ranges.  Expected content of every root comes from the extracted state/trie model (same
// operations), the root hash from the reference MPT hasher.
//
// Predicates on the implementation alone: a root read again differs from what it read at commit time
// (before pruning: never; after pruning: never for roots >= target descending from block target-1; roots below
// target may fail but must not answer differently); committed roots hash to the reference root of their leaves.
package main

import (
	"encoding/binary"
	"encoding/hex"
	"encoding/json"
	"fmt"
	"math"
	"math/big"
	"os"
	"path/filepath"
	"sort"
	"strings"

	"github.com/ethereum/go-ethereum/crypto"
	"github.com/ethereum/go-ethereum/rlp"

	"github.com/vechain/thor/v2/block"
	"github.com/vechain/thor/v2/chain"
	"github.com/vechain/thor/v2/cmd/thor/pruner"
	"github.com/vechain/thor/v2/muxdb"
	"github.com/vechain/thor/v2/muxdb/engine"
	"github.com/vechain/thor/v2/state"
	"github.com/vechain/thor/v2/thor"
	"github.com/vechain/thor/v2/trie"

	"verif/harness/internal/hx"
	"verif/harness/internal/triesim"
)

var signKey, _ = crypto.HexToECDSA("dce1443bd2ef0c2631adc1c67e5c93f13dc23a41c18b536effbbdcbcdb96fb65")

type Op struct {
	K string `json:"k"` // bal eng mas code sto raw del cp rev
	A int    `json:"a,omitempty"`
	S int    `json:"s,omitempty"`
	V string `json:"v,omitempty"`
	T uint64 `json:"t,omitempty"`
	N int    `json:"n,omitempty"`
}

type Step struct {
	K      string `json:"k"`                // block read restart prune
	Parent int    `json:"parent,omitempty"` // block: index of the parent block (0 = genesis)
	Main   bool   `json:"main,omitempty"`   // block extends the main chain
	Ops    []Op   `json:"ops,omitempty"`
	Ops2   []Op   `json:"ops2,omitempty"` // twins: the sibling's operations
	Base   uint32 `json:"base,omitempty"`
	Target uint32 `json:"target,omitempty"`
}

type Case struct {
	Addrs       []string `json:"addrs"`
	Keys        []string `json:"keys"`
	HistFactor  uint32   `json:"hist_factor"`
	DedupFactor uint32   `json:"dedup_factor"` // 0 = MaxUint32 (production)
	CacheMB     int      `json:"cache_mb"`
	TTL         uint16   `json:"ttl"`
	Misaligned  bool     `json:"misaligned"`    // informational stream: prune ranges not multiples of the factor
	Tie         bool     `json:"tie,omitempty"` // store correspondence: recorded puts / deletes replayed on the store model
	Genesis     []Op     `json:"genesis"`
	Steps       []Step   `json:"steps"`
	// store correspondence of trie.go on working tries: rounds of Get / Update / delete on two extra tries driven directly
	// through muxdb.Trie (trie 0 hash-skipped, trie 1 hashed), each round a handle opened at the trie's last root, the
	// operations, Commit; run before step At
	Work []WorkRound `json:"work,omitempty"`
}

type WOp struct {
	K   string `json:"k"` // g u d
	Key string `json:"key"`
	V   string `json:"v,omitempty"`
	M   string `json:"m,omitempty"`
}

type WorkRound struct {
	At   int   `json:"at"`
	Trie int   `json:"trie"`
	Ops  []WOp `json:"ops"`
}

func unhex(s string) []byte {
	if s == "-" || s == "" {
		return nil
	}
	b, err := hex.DecodeString(s)
	if err != nil {
		panic("bad hex " + s)
	}
	return b
}
func hexOrDash(b []byte) string {
	if len(b) == 0 {
		return "-"
	}
	return hex.EncodeToString(b)
}
func (c *Case) addr(i int) thor.Address { return thor.BytesToAddress(unhex(c.Addrs[i])) }
func (c *Case) key(i int) thor.Bytes32  { return thor.BytesToBytes32(unhex(c.Keys[i])) }

func applyOps(c *Case, st *state.State, ops []Op) error {
	for _, op := range ops {
		switch op.K {
		case "bal":
			v, _ := new(big.Int).SetString(op.V, 16)
			if err := st.SetBalance(c.addr(op.A), v); err != nil {
				return err
			}
		case "eng":
			v, _ := new(big.Int).SetString(op.V, 16)
			if err := st.SetEnergy(c.addr(op.A), v, op.T); err != nil {
				return err
			}
		case "mas":
			if err := st.SetMaster(c.addr(op.A), thor.BytesToAddress(unhex(op.V))); err != nil {
				return err
			}
		case "code":
			if err := st.SetCode(c.addr(op.A), unhex(op.V)); err != nil {
				return err
			}
		case "sto":
			st.SetStorage(c.addr(op.A), c.key(op.S), thor.BytesToBytes32(unhex(op.V)))
		case "raw":
			st.SetRawStorage(c.addr(op.A), c.key(op.S), unhex(op.V))
		case "del":
			st.Delete(c.addr(op.A))
		case "cp":
			st.NewCheckpoint()
		case "rev":
			st.RevertTo(op.N)
		}
	}
	return nil
}

type blockRec struct {
	id        thor.Bytes32
	num       uint32
	conflicts uint32
	parent    int
	root      trie.Root
	atCommit  string                  // state content read right after commit
	index     []string                // expected block-number index (ids of the ancestors and itself)
	stor      map[string]trie.Version // non-empty storage tries of the committed state: trie name -> root version
	accLeaves string                  // leaves of the account trie read right after commit
}

type readRec struct {
	step   int
	block  int
	class  string // must | pruned | fork
	state  string // "same" | "fail" | "different"
	index  string
	detail string
}

type realRun struct {
	blocks   []blockRec
	reads    []readRec
	failure  string
	deadFork string // known weakness: see known_findings.json F7
	err      string
	counts   map[string]int
	tie      *tieState
}

// ---------------------------------------------------------------- store correspondence (Case.Tie)
// Every put / delete that reaches the key-value engine is recorded.  The hist puts of each real Trie.Commit (grouped by
// trie name and version) are replayed on the store model, which evaluates the link condition on them (link_check); a
// pruner round's deduped puts and hist deletions are compared with the model's checkpoint_nodes / deleted_keys; account
// roots are read through the model's reader and compared with the real reads.
type tieState struct {
	names  map[string]int
	ops    []string
	checks []func(ans string) string
	clean  bool // only reads since the last restart (caches hold nothing the store does not)
	// handle operations known to have produced the next commit of a trie (name -> operations): the model's trie.go on working
	// tries + hasher.store predicts the puts of that commit from them ("w" before the commit's "c")
	pre       map[string]preOp
	predicted int // commits whose puts were predicted from their operations
}

type preOp struct {
	ops  string // oracle tokens: g<key> u<key>=<val~meta> d<key>
	skip bool   // Commit(.., skipHash): every dirty node is put, the prediction is exact; otherwise only `put paths are dirty paths` is judged
	ver  trie.Version
}

// workCheck compares the model's prediction for one commit (answer of a "w" operation) with the recorded puts of that commit.
func workCheck(what, name string, p preOp, real []string) func(ans string) string {
	return func(ans string) string {
		f := strings.Fields(ans)
		if len(f) == 0 || f[0] != "W" {
			return fmt.Sprintf("%s: trie %q v%s: the model's handle operations or commit fail (%s) where the real ones succeeded", what, name, verTok(p.ver), ans)
		}
		var entries, dirty []string
		cur := &entries
		for _, x := range f[1:] {
			if x == "#" {
				cur = &dirty
				continue
			}
			*cur = append(*cur, x)
		}
		if p.skip {
			if got, want := sortedTokens(entries), sortedTokens(real); got != want {
				return fmt.Sprintf("%s: trie %q v%s (hash-skipped): the nodes Trie.Commit put differ from what the model's insert/delete + hasher.store put for the operations [%s]: implementation {%s} model {%s}",
					what, name, verTok(p.ver), clip(p.ops), clip(want), clip(got))
			}
			return ""
		}
		ok := map[string]bool{"-": true}
		for _, d := range dirty {
			ok[d] = true
		}
		root := false
		for _, e := range real {
			pth := e[:strings.IndexByte(e, '=')]
			if pth == "-" {
				root = true
			}
			if !ok[pth] {
				return fmt.Sprintf("%s: trie %q v%s: Trie.Commit put a node at path %s that is not a dirty node of the model's handle after the operations [%s] (dirty: %s)",
					what, name, verTok(p.ver), pth, clip(p.ops), clip(strings.Join(dirty, " ")))
			}
		}
		if root != (len(entries) > 0) {
			return fmt.Sprintf("%s: trie %q v%s: root written by the implementation: %v, by the model: %v (operations [%s])", what, name, verTok(p.ver), root, len(entries) > 0, clip(p.ops))
		}
		return ""
	}
}

var emptyTrieRoot = thor.Blake2b([]byte{0x80})

// chain.Repository.indexBlock: a handle on the parent's index root, one Update(number -> id), Commit(number.conflicts, skipHash)
func indexPre(id thor.Bytes32, conflicts uint32) preOp {
	return preOp{ops: fmt.Sprintf("u%xt=%x~-", id[:4], id[:]), skip: true, ver: trie.Version{Major: block.Number(id), Minor: conflicts}}
}

// the two extra tries of Case.Work (names in the storage-trie syntax, with ids the state never produces)
var workNames = [2]string{"s\xff\xff\xff\xfe\x00\x00", "s\xff\xff\xff\xfd\x00\x00"}

func (t *tieState) name(n string) int {
	if id, ok := t.names[n]; ok {
		return id
	}
	id := len(t.names)
	t.names[n] = id
	return id
}

func verTok(v trie.Version) string { return fmt.Sprintf("%x.%x", v.Major, v.Minor) }

// commitOps turns the recorded writes of one block commit into "c" operations; parentOf gives the parent root version of a trie.
func (t *tieState) commitOps(c *Case, ops []triesim.WriteOp, what string, parentOf func(name string) (trie.Version, bool)) string {
	df := c.options().TrieDedupedPartitionFactor
	type group struct {
		name    string
		ver     trie.Version
		entries []string
	}
	var groups []*group
	idx := map[string]*group{}
	for _, op := range ops {
		nk, ok, err := triesim.ParseNodeKey(op.Key, c.HistFactor, df)
		if !ok {
			continue
		}
		if err != nil {
			return what + ": unparsable trie key: " + err.Error()
		}
		if op.Del || !nk.Hist {
			return fmt.Sprintf("%s: a commit touched the deduped space or deleted a trie key (%s %s)", what, nk.Name, triesim.PathTok(nk.Path))
		}
		txt, err := triesim.BlobText(op.Val)
		if err != nil {
			return what + ": undecodable node blob: " + err.Error()
		}
		k := nk.Name + "/" + verTok(nk.Ver)
		g := idx[k]
		if g == nil {
			g = &group{name: nk.Name, ver: nk.Ver}
			idx[k] = g
			groups = append(groups, g)
		}
		g.entries = append(g.entries, triesim.PathTok(nk.Path)+"="+txt)
	}
	pre := t.pre
	t.pre = nil
	emitW := func(name string, p preOp, par string, real []string) {
		sk := "0"
		if p.skip {
			sk = "1"
		}
		t.ops = append(t.ops, fmt.Sprintf("w %x %x %x %s %s %s", t.name(name), p.ver.Major, p.ver.Minor, par, sk, p.ops))
		t.checks = append(t.checks, workCheck(what, name, p, real))
	}
	for _, g := range groups {
		par := "-"
		if pv, ok := parentOf(g.name); ok {
			par = verTok(pv)
		}
		g := g
		if p, ok := pre[g.name]; ok && p.ver == g.ver {
			emitW(g.name, p, par, g.entries)
			delete(pre, g.name)
			t.predicted++
		}
		t.ops = append(t.ops, fmt.Sprintf("c %x %x %x %s %s", t.name(g.name), g.ver.Major, g.ver.Minor, par, strings.Join(g.entries, " ")))
		t.checks = append(t.checks, func(ans string) string {
			if ans != "L0" {
				return fmt.Sprintf("%s: commit of trie %q at v%s (parent %s, %d nodes put): link_check answers %s (1 new root unreadable, 2 parent unreadable, 3 follows a node that is neither written nor the parent's, 4 stray write, 5 malformed blob)",
					what, g.name, verTok(g.ver), par, len(g.entries), ans)
			}
			return ""
		})
	}
	// a commit that put nothing (Trie.Commit on an empty trie): the model must predict no put either
	var left []string
	for n := range pre {
		left = append(left, n)
	}
	sort.Strings(left)
	for _, n := range left {
		par := "-"
		if pv, ok := parentOf(n); ok {
			par = verTok(pv)
		}
		emitW(n, pre[n], par, nil)
	}
	return ""
}

func sortedTokens(toks []string) string {
	toks = append([]string(nil), toks...)
	sort.Strings(toks)
	return strings.Join(toks, " ")
}

// pruneOps: the round's recorded writes against the model's prediction.
func (t *tieState) pruneOps(c *Case, ops []triesim.WriteOp, base, target uint32, roots []string) string {
	df := c.options().TrieDedupedPartitionFactor
	var puts, dels []string
	for _, op := range ops {
		nk, ok, err := triesim.ParseNodeKey(op.Key, c.HistFactor, df)
		if !ok {
			continue
		}
		if err != nil {
			return "prune: unparsable trie key: " + err.Error()
		}
		switch {
		case !op.Del && !nk.Hist:
			txt, err := triesim.BlobText(op.Val)
			if err != nil {
				return "prune: undecodable node blob: " + err.Error()
			}
			ptn := "-"
			if nk.HasPtn {
				ptn = fmt.Sprintf("%x", nk.Ptn)
			}
			puts = append(puts, fmt.Sprintf("%x/%s/%s=%s", t.name(nk.Name), ptn, triesim.PathTok(nk.Path), txt))
		case op.Del && nk.Hist:
			dels = append(dels, fmt.Sprintf("%x/%s/%s", t.name(nk.Name), triesim.PathTok(nk.Path), verTok(nk.Ver)))
		default:
			return fmt.Sprintf("prune: the round put a hist key or deleted a deduped key (%s %s)", nk.Name, triesim.PathTok(nk.Path))
		}
	}
	t.ops = append(t.ops, fmt.Sprintf("p %x %x %s", base, target, strings.Join(roots, " ")))
	wantPuts, wantDels := sortedTokens(puts), sortedTokens(dels)
	t.checks = append(t.checks, func(ans string) string {
		f := strings.Fields(ans)
		if len(f) == 0 || f[0] != "D" {
			return fmt.Sprintf("prune [%d,%d): the model's checkpoint fails (%s) where the real round succeeded", base, target, ans)
		}
		var mp, md []string
		cur := &mp
		for _, x := range f[1:] {
			if x == "#" {
				cur = &md
				continue
			}
			*cur = append(*cur, x)
		}
		if got := sortedTokens(mp); got != wantPuts {
			return fmt.Sprintf("prune [%d,%d): deduped puts differ: implementation {%s} model {%s}", base, target, clip(wantPuts), clip(got))
		}
		if got := sortedTokens(md); got != wantDels {
			return fmt.Sprintf("prune [%d,%d): deleted hist keys differ: implementation {%s} model {%s}", base, target, clip(wantDels), clip(got))
		}
		return ""
	})
	return ""
}

func accountLeaves(db *muxdb.MuxDB, root trie.Root) (out string) {
	defer func() {
		if r := recover(); r != nil {
			out = "fail"
		}
	}()
	_, leaves, err := triesim.Shape(db.NewTrie(muxdb.AccountTrieName, root).NodeIterator(nil, 0))
	if err != nil {
		return "fail"
	}
	parts := make([]string, len(leaves))
	for i, l := range leaves {
		parts[i] = l.Key + "=" + hexOrDash(l.Val) + "~" + hexOrDash(l.Meta)
	}
	return "T " + strings.Join(parts, ",")
}

func storageRoots(co *triesim.Committed) map[string]trie.Version {
	m := map[string]trie.Version{}
	for _, a := range co.Accts {
		if len(a.Acc.StorageRoot) > 0 && a.Meta != nil && thor.BytesToBytes32(a.Acc.StorageRoot) != emptyTrieRoot {
			m[state.StorageTrieName(a.Meta.StorageID)] = trie.Version{Major: a.Meta.StorageMajorVer, Minor: a.Meta.StorageMinorVer}
		}
	}
	return m
}

func (c *Case) options() *muxdb.Options {
	df := c.DedupFactor
	if df == 0 {
		df = math.MaxUint32
	}
	return &muxdb.Options{TrieNodeCacheSizeMB: c.CacheMB, TrieCachedNodeTTL: c.TTL, TrieHistPartitionFactor: c.HistFactor, TrieDedupedPartitionFactor: df}
}

func readIndex(repo *chain.Repository, b *blockRec) (out []string, err error) {
	defer func() {
		if r := recover(); r != nil {
			err = fmt.Errorf("panic: %v", r)
		}
	}()
	ch := repo.NewChain(b.id)
	for n := uint32(0); n <= b.num; n++ {
		id, e := ch.GetBlockID(n)
		if e != nil {
			return nil, e
		}
		out = append(out, hex.EncodeToString(id[:]))
	}
	return out, nil
}

func runReal(c *Case) (rr realRun) {
	rr.counts = map[string]int{}
	defer func() {
		if r := recover(); r != nil {
			rr.err = fmt.Sprint("panic: ", r)
		}
	}()
	rec := triesim.NewRecEngine()
	defer rec.Close() // one in-memory leveldb per case: closed when the case ends (restarts re-wrap the same engine)
	var eng engine.Engine = rec
	db := muxdb.NewWithEngine(eng, c.options())
	fail := func(f string) {
		if rr.failure == "" {
			rr.failure = f
		}
	}
	var tie *tieState
	tieBroken := ""
	if c.Tie && !c.Misaligned {
		tie = &tieState{names: map[string]int{muxdb.AccountTrieName: 0, muxdb.IndexTrieName: 1}}
		rr.tie = tie
	}
	tieNote := func(d string) {
		if d != "" && tieBroken == "" {
			tieBroken = d
			tie.ops = append(tie.ops, "r 0 0 0")
			tie.checks = append(tie.checks, func(string) string { return d })
		}
	}
	// genesis
	st := state.New(db, trie.Root{})
	if err := applyOps(c, st, c.Genesis); err != nil {
		rr.err = err.Error()
		return
	}
	stage, err := st.Stage(trie.Version{})
	if err != nil {
		rr.err = err.Error()
		return
	}
	groot, err := stage.Commit()
	if err != nil {
		rr.err = err.Error()
		return
	}
	gen := new(block.Builder).ParentID(thor.Bytes32{0xff, 0xff, 0xff, 0xff}).StateRoot(groot).Timestamp(1000000).Build()
	repo, err := chain.NewRepository(db, gen)
	if err != nil {
		rr.err = err.Error()
		return
	}
	g := blockRec{id: gen.Header().ID(), root: trie.Root{Hash: groot}, parent: -1}
	gco := triesim.ReadCommitted(db, g.root)
	g.atCommit = gco.Text()
	g.index = []string{hex.EncodeToString(g.id[:])}
	if tie != nil {
		g.stor, g.accLeaves = storageRoots(gco), accountLeaves(db, g.root)
		tie.pre = map[string]preOp{muxdb.IndexTrieName: indexPre(g.id, 0)}
		tieNote(tie.commitOps(c, rec.Drain(), "genesis", func(string) (trie.Version, bool) { return trie.Version{}, false }))
	}
	rr.blocks = append(rr.blocks, g)

	pruneTarget := uint32(0) // everything below has been pruned
	var pruneChain []int     // block index at each height of the chain the last prune ran on
	descends := func(b int, anc int) bool {
		for x := b; x >= 0; x = rr.blocks[x].parent {
			if x == anc {
				return true
			}
		}
		return false
	}
	addBlock := func(parent int, st *state.State, ops []Op, main bool) bool {
		p := rr.blocks[parent]
		num := p.num + 1
		conflicts, err := repo.ScanConflicts(num)
		if err != nil {
			rr.err = err.Error()
			return false
		}
		if err := applyOps(c, st, ops); err != nil {
			rr.err = "block ops: " + err.Error()
			return false
		}
		rec.Drain()
		ver := trie.Version{Major: num, Minor: conflicts}
		stage, err := st.Stage(ver)
		if err != nil {
			rr.err = "stage: " + err.Error()
			return false
		}
		root, err := stage.Commit()
		if err != nil {
			rr.err = "commit: " + err.Error()
			return false
		}
		blk := new(block.Builder).ParentID(p.id).StateRoot(root).TotalScore(uint64(num)).Timestamp(1000000 + uint64(num)*10 + uint64(conflicts)).Build()
		sig, _ := crypto.Sign(blk.Header().SigningHash().Bytes(), signKey)
		blk = blk.WithSignature(sig)
		if err := repo.AddBlock(blk, nil, conflicts, main); err != nil {
			rr.err = "add block: " + err.Error()
			return false
		}
		b := blockRec{id: blk.Header().ID(), num: num, conflicts: conflicts, parent: parent, root: trie.Root{Hash: root, Ver: ver}}
		co := triesim.ReadCommitted(db, b.root)
		b.atCommit = co.Text()
		if f := co.Property(); f != "" {
			fail(f)
		}
		b.index = append(append([]string(nil), p.index...), hex.EncodeToString(b.id[:]))
		if tie != nil {
			b.stor, b.accLeaves = storageRoots(co), accountLeaves(db, b.root)
			tie.clean = false
			tie.pre = map[string]preOp{muxdb.IndexTrieName: indexPre(b.id, conflicts)}
			tieNote(tie.commitOps(c, rec.Drain(), fmt.Sprintf("block #%d", len(rr.blocks)), func(name string) (trie.Version, bool) {
				if name == muxdb.IndexTrieName || (name == muxdb.AccountTrieName && p.root.Hash != emptyTrieRoot) {
					return trie.Version{Major: p.num, Minor: p.conflicts}, true
				}
				if name == muxdb.AccountTrieName {
					return trie.Version{}, false // the parent state is empty: no root node was ever written
				}
				v, ok := p.stor[name]
				return v, ok
			}))
		}
		rr.blocks = append(rr.blocks, b)
		return true
	}
	var workRoots [2]trie.Root
	var workPar [2]*trie.Version
	wi := 0
	runWork := func(upto int) bool {
		for wi < len(c.Work) && c.Work[wi].At <= upto {
			w := c.Work[wi]
			wi++
			tr := w.Trie & 1
			skip := tr == 0
			t := db.NewTrie(workNames[tr], workRoots[tr])
			var toks []string
			for _, op := range w.Ops {
				key := unhex(op.Key)
				var err error
				switch op.K {
				case "g":
					_, _, err = t.Get(key)
					toks = append(toks, fmt.Sprintf("g%xt", key))
				case "d":
					err = t.Update(key, nil, nil)
					toks = append(toks, fmt.Sprintf("d%xt", key))
				default:
					err = t.Update(key, unhex(op.V), unhex(op.M))
					toks = append(toks, fmt.Sprintf("u%xt=%s~%s", key, hexOrDash(unhex(op.V)), hexOrDash(unhex(op.M))))
				}
				if err != nil {
					rr.err = fmt.Sprintf("work round %d: %s: %v", wi, op.K, err)
					return false
				}
			}
			ver := trie.Version{Major: 1000 + uint32(wi)}
			rec.Drain()
			if err := t.Commit(ver, skip); err != nil {
				rr.err = fmt.Sprintf("work round %d: commit: %v", wi, err)
				return false
			}
			puts := rec.Drain()
			if tie != nil {
				par := workPar[tr]
				tie.clean = false
				tie.pre = map[string]preOp{workNames[tr]: {ops: strings.Join(toks, " "), skip: skip, ver: ver}}
				tieNote(tie.commitOps(c, puts, fmt.Sprintf("work round %d", wi), func(string) (trie.Version, bool) {
					if par == nil {
						return trie.Version{}, false
					}
					return *par, true
				}))
			}
			if h := t.Hash(); h == emptyTrieRoot {
				workRoots[tr], workPar[tr] = trie.Root{}, nil
			} else {
				v := ver
				workRoots[tr], workPar[tr] = trie.Root{Hash: h, Ver: ver}, &v
			}
			rr.counts["work.rounds"]++
			rr.counts["work.ops"] += len(w.Ops)
			rr.counts["work.puts"] += len(puts)
		}
		return true
	}
	for si, s := range c.Steps {
		if !runWork(si) {
			return
		}
		switch s.K {
		case "block":
			st := state.New(db, rr.blocks[s.Parent].root)
			if !addBlock(s.Parent, st, s.Ops, s.Main) {
				return
			}
		case "twins":
			// two states opened on the same parent before either of them stages: they share the parent's nodes
			// through the root-node cache; each then builds and commits its own block (sibling forks)
			stA := state.New(db, rr.blocks[s.Parent].root)
			stB := state.New(db, rr.blocks[s.Parent].root)
			if !addBlock(s.Parent, stA, s.Ops, s.Main) || !addBlock(s.Parent, stB, s.Ops2, false) {
				return
			}
		case "restart":
			db = muxdb.NewWithEngine(eng, c.options())
			repo, err = chain.NewRepository(db, gen)
			if err != nil {
				rr.err = "restart: " + err.Error()
				return
			}
			if tie != nil {
				tie.clean = true
			}
		case "prune":
			head := -1
			for i := len(rr.blocks) - 1; i >= 0; i-- { // main head = last main block
				if i == 0 || c.isMain(i) {
					head = i
					break
				}
			}
			if rr.blocks[head].num < s.Target {
				continue
			}
			base := s.Base
			if !c.Misaligned {
				// premise of the prune clause (true in production, where the prune target is ~65535 blocks behind every commit):
				// the root-node cache holds, per trie, the root of the most recent commit that WROTE a root; a commit of an empty
				// state writes none, so it is the most recent block with a non-empty state that must not be below the target —
				// otherwise a pruned root is still served from the root cache and its deleted children from the deduped space.
				// Decided here on the real roots (the generator cannot know which states are empty); a skipped round leaves no
				// gap: the next round starts at the last target actually pruned.
				lastRoot := -1
				for i := len(rr.blocks) - 1; i >= 0; i-- {
					if rr.blocks[i].root.Hash != emptyTrieRoot {
						lastRoot = i
						break
					}
				}
				if lastRoot >= 0 && rr.blocks[lastRoot].num < s.Target {
					rr.counts["prune_skipped.root_cache_premise"]++
					continue
				}
				base = pruneTarget
				if s.Target <= base {
					continue
				}
			}
			rec.Drain()
			if err := pruner.VerifPruneTries(db, repo.NewChain(rr.blocks[head].id), base, s.Target); err != nil {
				rr.err = "prune: " + err.Error()
				return
			}
			if tie != nil {
				tie.clean = false
				x := head
				for rr.blocks[x].num > s.Target-1 {
					x = rr.blocks[x].parent
				}
				tb := rr.blocks[x] // the block target-1 of the pruned chain
				roots := []string{fmt.Sprintf("1:%x.%x", tb.num, tb.conflicts)}
				if tb.root.Hash != emptyTrieRoot {
					roots = append(roots, fmt.Sprintf("0:%x.%x", tb.num, tb.conflicts))
				}
				var snames []string
				for n := range tb.stor {
					snames = append(snames, n)
				}
				sort.Strings(snames)
				for _, n := range snames {
					roots = append(roots, fmt.Sprintf("%x:%s", tie.name(n), verTok(tb.stor[n])))
				}
				tieNote(tie.pruneOps(c, rec.Drain(), base, s.Target, roots))
			}
			pruneTarget = s.Target
			pruneChain = make([]int, rr.blocks[head].num+1)
			for x := head; x >= 0; x = rr.blocks[x].parent {
				pruneChain[rr.blocks[x].num] = x
			}
			rr.counts["prune_rounds"]++
		case "read":
			for bi := range rr.blocks {
				b := &rr.blocks[bi]
				class := "must"
				if pruneTarget > 0 {
					switch {
					case b.num < pruneTarget:
						class = "pruned"
					case !descends(bi, pruneChain[pruneTarget-1]):
						class = "fork"
					}
				}
				rec := readRec{step: si, block: bi, class: class}
				co := triesim.ReadCommitted(db, b.root)
				switch {
				case co.Err != "":
					rec.state, rec.detail = "fail", co.Err
				case co.Text() == b.atCommit:
					rec.state = "same"
					if f := co.Property(); f != "" && !c.Misaligned {
						fail(fmt.Sprintf("block #%d (v%d.%d) re-read at step %d: %s", bi, b.num, b.conflicts, si, f))
					}
				default:
					rec.state, rec.detail = "different", co.Text()
				}
				idx, err := readIndex(repo, b)
				switch {
				case err != nil:
					rec.index = "fail"
				case strings.Join(idx, ",") == strings.Join(b.index, ","):
					rec.index = "same"
				default:
					rec.index = "different"
				}
				rr.reads = append(rr.reads, rec)
				if tie != nil && b.root.Hash != emptyTrieRoot {
					// the model's reader on the model's store against the real read of the account trie: exact when the caches
					// are empty (only reads since a restart); otherwise a real read that still equals the committed content
					// may come from the caches
					real, strict, bi, si := accountLeaves(db, b.root), tie.clean, bi, si
					atCommit := b.accLeaves
					tie.ops = append(tie.ops, fmt.Sprintf("r 0 %x %x", b.num, b.conflicts))
					tie.checks = append(tie.checks, func(ans string) string {
						if ans == "Tfail" {
							ans = "fail"
						}
						if ans == real || (!strict && real == atCommit) {
							return ""
						}
						return fmt.Sprintf("read of the account root of block #%d at step %d (%s): implementation %q model %q", bi, si, class, clip(real), clip(ans))
					})
					if class == "fork" && real != atCommit && real != "fail" {
						rr.counts["tie.deadfork_reads_different"]++
					}
				}
				rr.counts["read."+class+".state="+rec.state]++
				rr.counts["read."+class+".index="+rec.index]++
				if c.Misaligned {
					continue // informational stream
				}
				for _, what := range [][2]string{{"state", rec.state}, {"index", rec.index}} {
					switch {
					case class == "must" && what[1] != "same" && pruneTarget == 0:
						fail(fmt.Sprintf("committed root changed: %s of block #%d (v%d.%d) reads %s after later commits/restart (step %d) %s", what[0], bi, b.num, b.conflicts, what[1], si, clip(rec.detail)))
					case class == "must" && what[1] != "same":
						fail(fmt.Sprintf("prune altered a recent root: %s of block #%d (v%d.%d, >= target %d, descends from block target-1) reads %s (step %d) %s", what[0], bi, b.num, b.conflicts, pruneTarget, what[1], si, clip(rec.detail)))
					case class == "fork" && what[1] == "different":
						rr.deadFork = fmt.Sprintf("dead-fork root silently different after prune: %s of block #%d (v%d.%d, >= target %d, on a fork that branched below block target-1) answers with different content instead of failing (step %d) %s",
							what[0], bi, b.num, b.conflicts, pruneTarget, si, clip(rec.detail))
					case class == "pruned" && what[1] == "different":
						fail(fmt.Sprintf("pruned root silently different: %s of block #%d (v%d.%d, < target %d) answers with different content (step %d) %s", what[0], bi, b.num, b.conflicts, pruneTarget, si, clip(rec.detail)))
					}
				}
			}
		}
	}
	runWork(math.MaxInt32) // the rounds scheduled after the last step
	return
}

func clip(s string) string {
	if len(s) > 400 {
		return s[:400] + "…"
	}
	return s
}

func (c *Case) isMain(blockIdx int) bool {
	n := 0
	for _, s := range c.Steps {
		switch s.K {
		case "block":
			n++
			if n == blockIdx {
				return s.Main
			}
		case "twins":
			n += 2
			if n-1 == blockIdx {
				return s.Main
			}
			if n == blockIdx {
				return false
			}
		}
	}
	return false
}

// ---------------------------------------------------------------- oracle line (the C06 state model replays the same blocks)

func trimmed(b []byte) []byte { return []byte(strings.TrimLeft(string(b), "\x00")) }
func evenHex(s string) string {
	if len(s)%2 == 1 {
		return "0" + s
	}
	return s
}

func opTokens(c *Case, op Op) string {
	an := func(i int) string { return hx.HexN(unhex(c.Addrs[i])) }
	kn := func(i int) string { return hx.HexN(unhex(c.Keys[i])) }
	switch op.K {
	case "bal":
		return fmt.Sprintf("bal %s %s", an(op.A), hx.HexN(unhex(evenHex(op.V))))
	case "eng":
		return fmt.Sprintf("eng %s %s %x", an(op.A), hx.HexN(unhex(evenHex(op.V))), op.T)
	case "mas":
		m := unhex(op.V)
		if thor.BytesToAddress(m).IsZero() {
			m = nil
		}
		return fmt.Sprintf("mas %s %s", an(op.A), hexOrDash(m))
	case "code":
		code := unhex(op.V)
		h := "-"
		if len(code) > 0 {
			h = hex.EncodeToString(thor.Keccak256(code).Bytes())
		}
		return fmt.Sprintf("code %s %s %s", an(op.A), hexOrDash(code), h)
	case "sto":
		return fmt.Sprintf("sto %s %s %s", an(op.A), kn(op.S), hexOrDash(trimmed(thor.BytesToBytes32(unhex(op.V)).Bytes())))
	case "raw":
		return fmt.Sprintf("raw %s %s %s", an(op.A), kn(op.S), hexOrDash(unhex(op.V)))
	case "del":
		return fmt.Sprintf("del %s", an(op.A))
	case "cp":
		return "cp"
	case "rev":
		return fmt.Sprintf("rev %d", op.N)
	}
	panic("bad op " + op.K)
}

// versions are needed on the line: they are taken from the real run (number, conflicts)
func oracleLine(c *Case, rr *realRun) string {
	var b strings.Builder
	fmt.Fprintf(&b, "S %x 0 0 |", thor.EnergyGrowthRate)
	for _, a := range c.Addrs {
		fmt.Fprintf(&b, " %s:%s", hx.HexN(unhex(a)), hex.EncodeToString(thor.Blake2b(unhex(a)).Bytes()))
	}
	b.WriteString(" |")
	for _, k := range c.Keys {
		fmt.Fprintf(&b, " %s:%s:%s", hx.HexN(unhex(k)), hex.EncodeToString(thor.Blake2b(unhex(k)).Bytes()), hexOrDash(trimmed(unhex(k))))
	}
	b.WriteString(" | |")
	var segs []string
	for _, op := range c.Genesis {
		segs = append(segs, opTokens(c, op))
	}
	segs = append(segs, "commit 0 0 1")
	bi := 0
	one := func(parent int, ops []Op) bool {
		bi++
		if bi >= len(rr.blocks) {
			return false
		}
		segs = append(segs, fmt.Sprintf("open %d", parent+1))
		for _, op := range ops {
			segs = append(segs, opTokens(c, op))
		}
		segs = append(segs, fmt.Sprintf("commit %x %x 1", rr.blocks[bi].num, rr.blocks[bi].conflicts))
		return true
	}
	for _, s := range c.Steps {
		if s.K == "block" && !one(s.Parent, s.Ops) {
			break
		}
		if s.K == "twins" && !(one(s.Parent, s.Ops) && one(s.Parent, s.Ops2)) {
			break
		}
	}
	b.WriteString(" " + strings.Join(segs, " ; "))
	return b.String()
}

func normaliseOracleCommit(seg string) string {
	i := 0
	var b strings.Builder
	for {
		j := strings.Index(seg[i:], ",M")
		if j < 0 {
			b.WriteString(seg[i:])
			break
		}
		j += i + 2
		b.WriteString(seg[i:j])
		k := j + strings.IndexAny(seg[j:], ",/")
		sid := seg[j:k]
		if !strings.Contains(sid, ".") {
			b.WriteString(sid)
		} else {
			f := strings.Split(sid, ".")
			var ma, mi, cn uint64
			fmt.Sscanf(f[0], "%x", &ma)
			fmt.Sscanf(f[1], "%x", &mi)
			fmt.Sscanf(f[2], "%x", &cn)
			id := binary.BigEndian.AppendUint32(nil, uint32(ma))
			id = binary.AppendUvarint(id, mi)
			id = binary.AppendUvarint(id, cn)
			b.WriteString(hex.EncodeToString(id))
		}
		i = k
	}
	return b.String()
}

func disagreement(c *Case, rr *realRun, ans string) string {
	if rr.err != "" {
		return "run failed: " + rr.err
	}
	var commits []string
	for _, seg := range strings.Split(ans, " ; ") {
		seg = strings.TrimSpace(seg)
		if strings.HasPrefix(seg, "C") && (len(seg) == 1 || seg[1] == ' ') {
			commits = append(commits, normaliseOracleCommit(seg))
		}
		if strings.HasPrefix(seg, "ERR") {
			return "oracle: " + seg
		}
	}
	if len(commits) != len(rr.blocks) {
		return fmt.Sprintf("oracle answered %d commits for %d blocks", len(commits), len(rr.blocks))
	}
	for i, b := range rr.blocks {
		if commits[i] != b.atCommit {
			return fmt.Sprintf("block #%d (v%d.%d): committed content: implementation %q model %q", i, b.num, b.conflicts, clip(b.atCommit), clip(commits[i]))
		}
	}
	return ""
}

// ---------------------------------------------------------------- generation

var destroyBias bool // shared-prefix cases: plain create / destroy traffic (accounts and slots appear and disappear)

func genOps(r *hx.Rand, na, nk int, hot int, n int) []Op {
	var ops []Op
	depth := 1
	times := []uint64{0, 1, 1000, 2000}
	for i := 0; i < n; i++ {
		a := r.Intn(na)
		if hot > 0 && r.Chance(2, 3) {
			a = r.Intn(hot) // most later traffic hits a few accounts; the others keep old-version nodes
		}
		s := r.Intn(nk)
		if destroyBias && r.Chance(3, 4) {
			a = r.Intn(na)
			switch r.Intn(5) {
			case 0:
				ops = append(ops, Op{K: "bal", A: a, V: "0"})
			case 1:
				ops = append(ops, Op{K: "del", A: a})
			case 2:
				ops = append(ops, Op{K: "sto", A: a, S: s, V: hex.EncodeToString(make([]byte, 32))})
			case 3:
				ops = append(ops, Op{K: "bal", A: a, V: hex.EncodeToString(r.Bytes(r.Range(1, 8)))})
			default:
				ops = append(ops, Op{K: "sto", A: a, S: s, V: hex.EncodeToString(append(make([]byte, 24), r.Bytes(8)...))})
			}
			continue
		}
		switch x := r.Intn(100); {
		case x < 25:
			v := []string{"0", "1", "de0b6b3a7640000", hex.EncodeToString(r.Bytes(r.Range(1, 16)))}[r.Intn(4)]
			ops = append(ops, Op{K: "bal", A: a, V: v})
		case x < 32:
			ops = append(ops, Op{K: "eng", A: a, V: hex.EncodeToString(r.Bytes(r.Range(1, 8))), T: times[r.Intn(len(times))]})
		case x < 36:
			ops = append(ops, Op{K: "mas", A: a, V: hex.EncodeToString(r.Bytes(20))})
		case x < 42:
			code := ""
			if !r.Chance(1, 4) {
				code = hex.EncodeToString(r.Bytes(r.Range(1, 40)))
			}
			ops = append(ops, Op{K: "code", A: a, V: code})
		case x < 72:
			var w []byte
			switch r.Intn(4) {
			case 0:
				w = make([]byte, 32)
			default:
				w = append(make([]byte, 32-r.Range(1, 32)), r.Bytes(32)...)[:32]
			}
			ops = append(ops, Op{K: "sto", A: a, S: s, V: hex.EncodeToString(w)})
		case x < 80:
			raw, _ := rlp.EncodeToBytes([]uint64{uint64(r.Intn(1000)), uint64(r.Intn(5))})
			if r.Bool() {
				raw, _ = rlp.EncodeToBytes(r.Bytes(r.Range(1, 32)))
			}
			ops = append(ops, Op{K: "raw", A: a, S: s, V: hex.EncodeToString(raw)})
		case x < 86:
			ops = append(ops, Op{K: "del", A: a})
		case x < 93:
			ops = append(ops, Op{K: "cp"})
			depth++
		default:
			if depth > 1 {
				n := r.Range(1, depth-1)
				ops = append(ops, Op{K: "rev", N: n})
				depth = n
			}
		}
	}
	return ops
}

func genCase(r *hx.Rand, idx int, thorough bool) *Case {
	c := &Case{}
	na, nk := r.Range(3, 24), r.Range(2, 12)
	// every third case: few accounts / keys whose secure keys share their first byte (extension over a small branch)
	shared := idx%3 == 1
	if shared {
		na, nk = r.Range(2, 4), r.Range(2, 3)
	}
	// a few trees per run: the first block creates the storage of more than 256 fresh accounts in one Stage
	// (storage-trie creation counter beyond one byte); the ordinary traffic stays on the first ten accounts
	wide := idx%250 == 12
	naOps := na
	if wide {
		naOps, na, nk = 10, r.Range(270, 330), r.Range(2, 3)
	}
	pick := func(n int) []byte {
		for {
			b := r.Bytes(n)
			if !shared || thor.Blake2b(b).Bytes()[0] == 0x5a {
				return b
			}
		}
	}
	for i := 0; i < na; i++ {
		c.Addrs = append(c.Addrs, hex.EncodeToString(pick(20)))
	}
	for i := 0; i < nk; i++ {
		if !shared && r.Chance(1, 4) {
			c.Keys = append(c.Keys, hex.EncodeToString(append(make([]byte, 31), byte(i))))
		} else {
			c.Keys = append(c.Keys, hex.EncodeToString(pick(32)))
		}
	}
	c.HistFactor = []uint32{1, 2, 4, 8, 16}[r.Intn(5)]
	c.DedupFactor = []uint32{0, 0, 1, 4, 64}[r.Intn(5)]
	c.CacheMB = r.Range(1, 2)
	c.TTL = uint16([]int{0, 1, 4, 32}[r.Intn(4)])
	c.Misaligned = idx%8 == 7
	c.Tie = idx%8 == 3 // store correspondence (smaller trees: the list-based store model is quadratic)
	destroyBias = shared
	defer func() { destroyBias = false }()
	c.Genesis = genOps(r, naOps, nk, 0, r.Range(3, 30))
	hot := min(r.Range(1, 3), naOps)
	nblocks := r.Range(10, 60)
	if thorough {
		nblocks = r.Range(30, 150)
	}
	if c.Tie {
		nblocks = r.Range(10, 30)
	}
	if wide {
		nblocks = r.Range(6, 10) // every read visits every storage trie of every block
	}
	f := c.HistFactor
	mainHead, mainNum := 0, uint32(0)
	nb := 0
	blockNum := []uint32{0}
	isMain := []bool{true}
	branch := []uint32{0} // height of the main-chain block a block branches from (its own height for main blocks)
	base := uint32(0)
	if wide {
		var ops []Op
		for a := naOps; a < na; a++ {
			ops = append(ops, Op{K: "bal", A: a, V: hex.EncodeToString(r.Bytes(r.Range(1, 6)))},
				Op{K: "sto", A: a, S: r.Intn(nk), V: hex.EncodeToString(append(make([]byte, 24), r.Bytes(8)...))})
		}
		c.Steps = append(c.Steps, Step{K: "block", Parent: 0, Main: true, Ops: ops}, Step{K: "restart"}, Step{K: "read"})
		nb, mainHead, mainNum = 1, 1, 1
		blockNum, isMain, branch = append(blockNum, 1), append(isMain, true), append(branch, 1)
	}
	na = naOps
	for nb < nblocks {
		switch x := r.Intn(100); {
		case x < 70: // extend the main chain
			if r.Chance(1, 4) {
				// twins: the next main block and a sibling, both opened on the head before either stages
				c.Steps = append(c.Steps, Step{K: "twins", Parent: mainHead, Main: true, Ops: genOps(r, na, nk, hot, r.Range(1, 6)), Ops2: genOps(r, na, nk, hot, r.Range(1, 6))})
				nb += 2
				prev := mainNum
				mainHead, mainNum = nb-1, mainNum+1
				blockNum = append(blockNum, mainNum, mainNum)
				isMain = append(isMain, true, false)
				branch = append(branch, mainNum, prev)
				continue
			}
			c.Steps = append(c.Steps, Step{K: "block", Parent: mainHead, Main: true, Ops: genOps(r, na, nk, hot, r.Range(0, 6))})
			nb++
			mainHead, mainNum = nb, mainNum+1
			blockNum = append(blockNum, mainNum)
			isMain = append(isMain, true)
			branch = append(branch, mainNum)
		case x < 82: // a fork: a side block on a recent block (main or side) that is still readable (not pruned)
			p := nb - r.Intn(min(nb+1, 6))
			ok := (isMain[p] && blockNum[p] >= base) || (!isMain[p] && branch[p]+1 >= base)
			if !ok {
				continue
			}
			c.Steps = append(c.Steps, Step{K: "block", Parent: p, Main: false, Ops: genOps(r, na, nk, hot, r.Range(1, 5))})
			nb++
			blockNum = append(blockNum, blockNum[p]+1)
			isMain = append(isMain, false)
			if isMain[p] {
				branch = append(branch, blockNum[p])
			} else {
				branch = append(branch, branch[p])
			}
		case x < 88:
			c.Steps = append(c.Steps, Step{K: "read"})
		case x < 92:
			c.Steps = append(c.Steps, Step{K: "restart"})
		default:
			// prune [base, target): target a multiple of the factor (aligned stream), at most the main head number
			k := uint32(r.Range(1, 3))
			target := base + k*f
			if c.Misaligned {
				target = base + uint32(r.Range(1, int(3*f)))
			}
			// premise (true in production, where commits happen ~65535 blocks above any prune target): the most recently
			// committed block is not below the target, so the root cache never holds the root of a pruned version
			if target <= mainNum && target > base && (c.Misaligned || blockNum[nb] >= target) {
				c.Steps = append(c.Steps, Step{K: "prune", Base: base, Target: target}, Step{K: "read"})
				if r.Bool() {
					c.Steps = append(c.Steps, Step{K: "restart"}, Step{K: "read"})
				}
				base = target
			}
		}
	}
	c.Steps = append(c.Steps, Step{K: "read"}, Step{K: "restart"}, Step{K: "read"})
	if c.Tie {
		// rounds on the two extra tries: keys of 1-3 bytes over a small alphabet (prefixes of one another: values in slot 16,
		// splits and merges of short nodes, full nodes reduced to one entry), values of 1-40 bytes (full nodes with and without a hash)
		alpha := []byte{0x10, 0x11, 0x1f, 0xa0}
		var pool [][]byte
		for i, n := 0, r.Range(5, 14); i < n; i++ {
			k := make([]byte, r.Range(1, 3))
			for j := range k {
				k[j] = alpha[r.Intn(len(alpha))]
			}
			pool = append(pool, k)
		}
		var ats []int
		for i, n := 0, r.Range(4, 12); i < n; i++ {
			ats = append(ats, r.Intn(len(c.Steps)+1))
		}
		sort.Ints(ats)
		for _, at := range ats {
			w := WorkRound{At: at, Trie: r.Intn(2)}
			for i, n := 0, r.Range(0, 8); i < n; i++ {
				op := WOp{Key: hex.EncodeToString(pool[r.Intn(len(pool))])}
				switch x := r.Intn(100); {
				case x < 20:
					op.K = "g"
				case x < 45:
					op.K = "d"
				default:
					op.K = "u"
					op.V = hex.EncodeToString(r.Bytes(r.Range(1, 40)))
					if r.Chance(1, 4) {
						op.M = hex.EncodeToString(r.Bytes(r.Range(1, 4)))
					}
				}
				w.Ops = append(w.Ops, op)
			}
			c.Work = append(c.Work, w)
		}
	}
	return c
}

func nontrivial(c *Case, rr *realRun) bool {
	forks := false
	for _, b := range rr.blocks {
		if b.conflicts > 0 {
			forks = true
		}
	}
	return forks && rr.counts["prune_rounds"] >= 1 && len(rr.blocks) >= 10
}

func shrink(c *Case, bad func(*Case) bool) *Case {
	cur := c
	budget := 150
	// drop non-block steps and trailing blocks; dropping inner blocks would renumber parents, so only suffixes of blocks go
	for chunk := len(cur.Steps) / 2; chunk >= 1 && budget > 0; {
		shrunk := false
		for i := 0; i+chunk <= len(cur.Steps) && budget > 0; i++ {
			x := *cur
			x.Steps = append(append([]Step(nil), cur.Steps[:i]...), cur.Steps[i+chunk:]...)
			if !validParents(&x) {
				continue
			}
			budget--
			if bad(&x) {
				cur, shrunk = &x, true
				i--
			}
		}
		if !shrunk || chunk > len(cur.Steps) {
			chunk /= 2
		}
	}
	// drop ops inside blocks
	for si := range cur.Steps {
		for len(cur.Steps[si].Ops) > 0 && budget > 0 {
			x := *cur
			x.Steps = append([]Step(nil), cur.Steps...)
			x.Steps[si].Ops = cur.Steps[si].Ops[:len(cur.Steps[si].Ops)-1]
			budget--
			if !bad(&x) {
				break
			}
			cur = &x
		}
	}
	return cur
}

func validParents(c *Case) bool {
	nb := 0
	for _, s := range c.Steps {
		if s.K == "block" || s.K == "twins" {
			if s.Parent > nb {
				return false
			}
			nb++
			if s.K == "twins" {
				nb++
			}
		}
	}
	return true
}

func runCases(ctx *hx.Ctx, cases []*Case) {
	runs := make([]realRun, len(cases))
	lines := make([]string, len(cases))
	tieAt := map[int]int{}
	for i, c := range cases {
		runs[i] = runReal(c)
		lines[i] = oracleLine(c, &runs[i])
	}
	for i, c := range cases {
		if t := runs[i].tie; t != nil && runs[i].err == "" && len(t.ops) > 0 {
			df := "-"
			if c.DedupFactor != 0 {
				df = fmt.Sprintf("%x", c.DedupFactor)
			}
			tieAt[i] = len(lines)
			lines = append(lines, fmt.Sprintf("X %x %s | %s", c.HistFactor, df, strings.Join(t.ops, " ; ")))
		}
	}
	answers, err := hx.AskAll(ctx.Oracle, lines)
	if err != nil {
		hx.Fatal("oracle: %v", err)
	}
	for i, c := range cases {
		rr := &runs[i]
		cb, _ := json.Marshal(c)
		ctx.Cov.Case(string(cb), nontrivial(c, rr), map[string]any{"blocks": len(rr.blocks), "hist_factor": c.HistFactor, "dedup_factor": c.DedupFactor,
			"prune_rounds": rr.counts["prune_rounds"], "reads": len(rr.reads)})
		stream := "aligned."
		if c.Misaligned {
			stream = "misaligned(informational)."
		}
		for k, v := range rr.counts {
			ctx.Cov.Add(stream+k, v)
		}
		ctx.Cov.Bucket("blocks", len(rr.blocks))
		ctx.Cov.Count(fmt.Sprintf("hist_factor=%d", c.HistFactor))
		ctx.Cov.Count(fmt.Sprintf("dedup_factor=%d", c.DedupFactor))
		ctx.Cov.Count(fmt.Sprintf("ttl=%d", c.TTL))
		if rr.err != "" {
			ctx.Violation("run-error", "the run failed on the implementation: "+rr.err, c, true)
			continue
		}
		if rr.failure != "" {
			if reported[classOf(rr.failure)] {
				continue
			}
			reported[classOf(rr.failure)] = true
			sc := c
			if os.Getenv("VERIF_NOSHRINK") == "" {
				sc = shrink(c, func(x *Case) bool { r := runReal(x); return r.failure != "" })
			}
			f := rr.failure
			if r := runReal(sc); r.failure != "" {
				f = r.failure
			} else {
				sc = c // not reproducible on the shrunk case (depends on in-memory node sharing): keep the original
			}
			ctx.Violation(classOf(f), f, sc, true)
			continue
		}
		if rr.deadFork != "" && !reported["deadfork"] {
			reported["deadfork"] = true
			sc := shrink(c, func(x *Case) bool { r := runReal(x); return r.deadFork != "" && r.failure == "" && r.err == "" })
			r := runReal(sc)
			ctx.Violation("dead-fork root silently different after prune", r.deadFork, sc, true)
		}
		if d := disagreement(c, rr, answers[i]); d != "" {
			if reported["correspondence"] {
				continue
			}
			reported["correspondence"] = true
			ctx.Violation("correspondence:committed-content", "state/trie model and committed tries disagree; no input found on which the property's own predicates fail: "+d, c, false)
		}
		if at, ok := tieAt[i]; ok {
			if d := tieDisagreement(rr.tie, answers[at]); d != "" && !reported["store-tie"] {
				reported["store-tie"] = true
				ctx.Violation("correspondence:store-writes", "the node-store model (hasher.store link condition / checkpoint iterator / partition delete / reader) and the recorded engine writes disagree; no input found on which the property's own predicates fail: "+d, c, false)
			}
			ctx.Cov.Add("tie.cases", 1)
			ctx.Cov.Add("tie.ops", len(rr.tie.ops))
			ctx.Cov.Add("tie.commits_predicted_from_operations", rr.tie.predicted)
		}
	}
}

func tieDisagreement(t *tieState, ans string) string {
	if strings.HasPrefix(ans, "ERR") {
		return "oracle: " + clip(ans)
	}
	segs := strings.Split(ans, " ; ")
	if len(segs) != len(t.checks) {
		return fmt.Sprintf("oracle answered %d segments for %d store operations", len(segs), len(t.checks))
	}
	for i, chk := range t.checks {
		if d := chk(strings.TrimSpace(segs[i])); d != "" {
			return d
		}
	}
	return ""
}

var reported = map[string]bool{}

func classOf(s string) string {
	if i := strings.IndexAny(s, ":"); i > 0 {
		s = s[:i]
	}
	return strings.TrimSpace(s)
}

func runReplayFile(ctx *hx.Ctx, path string) {
	b, err := os.ReadFile(path)
	if err != nil {
		hx.Fatal("replay: %v", err)
	}
	var doc struct {
		Replay *Case `json:"replay"`
	}
	if err := json.Unmarshal(b, &doc); err != nil || doc.Replay == nil {
		hx.Fatal("replay: bad file %s", path)
	}
	runCases(ctx, []*Case{doc.Replay})
}

func main() {
	ctx := hx.Init("C12")
	if ctx.Replay != "" {
		runReplayFile(ctx, ctx.Replay)
		ctx.Finish("replay", nil)
	}
	if dir := os.Getenv("VERIF_CORPUS"); dir != "" {
		files, _ := filepath.Glob(filepath.Join(dir, "*.json"))
		sort.Strings(files)
		for _, f := range files {
			runReplayFile(ctx, f)
		}
	}
	r := hx.NewRand(ctx.Seed)
	n := ctx.Scale(2000, 5000) // thorough: deeper trees (reads are quadratic in the number of blocks), sized for ~15-20 min
	for done := 0; done < n; {
		k := min(40, n-done)
		batch := make([]*Case, k)
		for i := range batch {
			batch[i] = genCase(r, done+i, ctx.Thorough())
		}
		runCases(ctx, batch)
		done += k
		if os.Getenv("VERIF_PROGRESS") != "" && done%200 == 0 {
			fmt.Fprintf(os.Stderr, "c12: %d/%d cases\n", done, n)
		}
	}
	ctx.Finish("block trees of 10-60 (thorough 30-150) blocks over 3-24 accounts x 2-12 storage keys with forks on recent blocks (conflict numbers), hot/cold "+
		"accounts (storage tries untouched for long; every third case 2-4 accounts whose secure keys share the first byte with create/destroy traffic), twin blocks "+
		"(two states opened on the same head before either stages), on a MuxDB with real caches (TTL 0-32), hist partition factor 1-16, deduped factor 1/4/64/MaxUint32; "+
		"interleaved reads of every committed root (accounts, storage, metadata, block-number index), restarts, and rounds of the real pruner over aligned "+
		"[base,target); every 8th case prunes misaligned ranges (informational only); every 8th case is a store-correspondence case (recording engine), which also runs 4-12 rounds "+
		"of 0-8 random Get/Update/delete operations (keys of 1-3 bytes over a 4-letter alphabet, values of 1-40 bytes) on two extra tries through muxdb.Trie, one hash-skipped, one hashed; "+
		"non-trivial = has forks, >= 1 prune round, >= 10 blocks",
		[]string{
			"expected content of a root = the extracted C06 state/trie model on the same operations; root hash = reference MPT hasher",
			"roots >= target that do not descend from block target-1 (dead forks) are outside the property's prune clause: outcome recorded, not judged",
			"LevelDB snapshot isolation and batch atomicity assumed (mem storage)",
			"puts of a commit predicted from its handle operations = extracted trie.go-on-working-tries + hasher.store (Store/WorkTrie.v, Store/Model.v wstore); all full nodes taken to have a hash: judged exactly on hash-skipped tries, by dirty-path inclusion on hashed ones",
		})
}
