// c18 — correspondence driver for property C18 (the pool offers only includable transactions; its bookkeeping
// never drifts).  Op sequences (Add / AddLocal / StrictlyAdd / Remove / Fill / wash / head advance) run on a REAL
// txpool.TxPool over a real chain (test/testchain, head within the last minute so the pool is in synced mode).
// After EVERY step, through txpool/verif_hooks.go (VerifAccounting):
//   - the property predicate is evaluated on the real maps as a function of the real pool content
//     (quota a = #origin a + #delegator a, absent iff 0; cost p = sum of cost of executable objects paid by p);
//   - the observed transitions (objects added / removed / promoted / re-priced) are replayed as atomic steps of the
//     extracted Coq model and the model's maps are compared with the real ones.
//
// After every wash the published executables must be non-increasing in priority price and every one is offered to a
// REAL packer.Flow on the same head, in order. A concurrent driver issues the same ops from goroutines (plus washes
// and head advances); at quiescence the predicate must hold on the real maps.
package main

import (
	"encoding/json"
	"fmt"
	"math"
	"math/big"
	"os"
	"path/filepath"
	"sort"
	"strings"
	"sync"
	"time"

	"github.com/ethereum/go-ethereum/crypto"

	"github.com/vechain/thor/v2/block"
	"github.com/vechain/thor/v2/builtin"
	"github.com/vechain/thor/v2/consensus/upgrade/galactica"
	"github.com/vechain/thor/v2/genesis"
	"github.com/vechain/thor/v2/packer"
	"github.com/vechain/thor/v2/runtime"
	"github.com/vechain/thor/v2/test/testchain"
	"github.com/vechain/thor/v2/thor"
	"github.com/vechain/thor/v2/trie"
	"github.com/vechain/thor/v2/tx"
	"github.com/vechain/thor/v2/txpool"

	"verif/harness/internal/hx"
	"verif/harness/internal/lockscope"
)

var forkCfg = thor.ForkConfig{HAYABUSA: math.MaxUint32}
var dev = accounts()

// the ten dev accounts plus one account that holds just enough VET to earn the energy for about two plain
// transfers per block interval (payer near its energy limit)
func accounts() []genesis.DevAccount {
	l := append([]genesis.DevAccount{}, genesis.DevAccounts()...)
	pk, err := crypto.HexToECDSA("1111111111111111111111111111111111111111111111111111111111111111")
	if err != nil {
		panic(err)
	}
	return append(l, genesis.DevAccount{Address: thor.Address(crypto.PubkeyToAddress(pk.PublicKey)), PrivateKey: pk})
}

type Op struct {
	Kind string `json:"k"` // add addlocal strict remove fill wash head
	// tx description (add*, fill)
	From     int    `json:"from,omitempty"`
	Deleg    int    `json:"deleg,omitempty"` // 0 = none, else dev index+1
	Dyn      bool   `json:"dyn,omitempty"`
	Gas      uint64 `json:"gas,omitempty"`
	Coef     uint8  `json:"coef,omitempty"`
	Tip      uint64 `json:"tip,omitempty"`
	TipHuge  int    `json:"tip_huge,omitempty"` // dynamic-fee tip beyond 64 bits: 1 -> 2^64, 2 -> 2^64+1, 3 -> 2^70 (+ Tip)
	Nonce    uint64 `json:"nonce,omitempty"`
	RefAhead uint32 `json:"ref_ahead,omitempty"`
	Exp      uint32 `json:"exp,omitempty"`
	DepOn    int    `json:"dep,omitempty"`     // 0 none; k>0: depends on the k-th generated tx (mod); -1: unknown id
	N        int    `json:"n,omitempty"`       // fill: number of txs; remove: index into pooled list
	Redeleg  int    `json:"redeleg,omitempty"` // same body as generated tx #Redeleg, signed by another delegator (same id, other hash)
}

type SeqCase struct {
	Kind  string `json:"kind"` // "seq" | "conc"
	Limit int    `json:"limit"`
	LPA   int    `json:"limit_per_account"`
	Ops   []Op   `json:"ops"`
}

type world struct {
	chain *testchain.Chain
	pool  *txpool.TxPool
	made  time.Time
	gen   []*tx.Transaction // generated txs, in order
	limit int
	// model prediction for the wash about to run (sequential driver only): published hashes, removed hash:reason
	predict bool
	predPub []string
	predRm  []string
	predOK  bool
}

// the genesis object is cached per launch time (genesis.NewCustomNet opens a throw-away in-memory leveldb on every
// call and never closes it)
var (
	geneMu    sync.Mutex
	geneCache = map[uint64]*genesis.Genesis{}
)

func genesisFor(launch uint64) *genesis.Genesis {
	geneMu.Lock()
	defer geneMu.Unlock()
	if g, ok := geneCache[launch]; ok {
		return g
	}
	g, err := testchain.CreateGenesis(genesis.DevConfig{ForkConfig: &forkCfg, LaunchTime: launch}, 10, 180, 180)
	if err != nil {
		hx.Fatal("genesis: %v", err)
	}
	geneCache[launch] = g
	return g
}

func newWorld(limit, lpa int) *world {
	now := uint64(time.Now().Unix())
	launch := now - 40
	launch -= launch % 10
	g := genesisFor(launch)
	c, err := testchain.NewIntegrationTestChainWithGenesis(g, &forkCfg, 180)
	if err != nil {
		hx.Fatal("chain: %v", err)
	}
	for i := 0; i < 3; i++ {
		var txs []*tx.Transaction
		if i == 0 {
			amount, _ := new(big.Int).SetString("500000000000000000000000000", 10)
			t := tx.NewBuilder(tx.TypeLegacy).ChainTag(c.Repo().ChainTag()).BlockRef(tx.NewBlockRef(0)).Expiration(1000).Gas(50000).
				Nonce(1).Clause(tx.NewClause(&dev[10].Address).WithValue(amount)).Build()
			txs = append(txs, tx.MustSign(t, dev[7].PrivateKey))
		}
		if err := c.MintBlock(txs...); err != nil {
			hx.Fatal("mint: %v", err)
		}
	}
	p := txpool.New(c.Repo(), c.Stater(), txpool.Options{Limit: limit, LimitPerAccount: lpa, MaxLifetime: time.Hour}, &forkCfg)
	return &world{chain: c, pool: p, made: time.Now(), limit: limit}
}

func (w *world) close() {
	w.pool.Close()
	_ = w.chain.LogDB().Close()
	_ = w.chain.Database().Close()
}

func (w *world) buildTx(op *Op) *tx.Transaction {
	if op.Redeleg > 0 && len(w.gen) > 0 {
		base := w.gen[(op.Redeleg-1)%len(w.gen)]
		if base.Features().IsDelegated() {
			o, _ := base.Origin()
			for i, d := range dev {
				if d.Address == o {
					t := tx.MustSignDelegated(stripSig(base), dev[i].PrivateKey, dev[(op.Deleg+3)%len(dev)].PrivateKey)
					return t
				}
			}
		}
	}
	head := w.chain.Repo().BestBlockSummary().Header
	to := dev[(op.From+1)%10].Address
	from := dev[op.From%len(dev)]
	typ := tx.TypeLegacy
	if op.Dyn {
		typ = tx.TypeDynamicFee
	}
	b := tx.NewBuilder(typ).ChainTag(w.chain.Repo().ChainTag()).
		BlockRef(tx.NewBlockRef(head.Number() + op.RefAhead)).
		Expiration(op.Exp).Gas(op.Gas).Nonce(op.Nonce).
		Clause(tx.NewClause(&to).WithValue(big.NewInt(1)))
	if op.Dyn {
		base := head.BaseFee()
		if base == nil {
			base = big.NewInt(thor.InitialBaseFee)
		}
		_ = base
		// a fee cap far above base fee + tip: the effective gas price then moves with the base fee
		tip := new(big.Int).SetUint64(op.Tip)
		switch op.TipHuge {
		case 1:
			tip.Add(tip, new(big.Int).Lsh(big.NewInt(1), 64))
		case 2:
			tip.Add(tip, new(big.Int).Add(new(big.Int).Lsh(big.NewInt(1), 64), big.NewInt(1)))
		case 3:
			tip.Add(tip, new(big.Int).Lsh(big.NewInt(1), 70))
		}
		b.MaxFeePerGas(new(big.Int).Add(new(big.Int).Mul(big.NewInt(thor.InitialBaseFee), big.NewInt(300)), tip)).
			MaxPriorityFeePerGas(tip)
	} else {
		b.GasPriceCoef(op.Coef)
	}
	if op.DepOn > 0 && len(w.gen) > 0 {
		id := w.gen[(op.DepOn-1)%len(w.gen)].ID()
		b.DependsOn(&id)
	} else if op.DepOn < 0 {
		id := thor.Bytes32{0xde, 0xad, byte(op.Nonce)}
		b.DependsOn(&id)
	}
	if op.Deleg > 0 {
		var f tx.Features
		f.SetDelegated(true)
		b.Features(f)
		return tx.MustSignDelegated(b.Build(), from.PrivateKey, dev[(op.Deleg-1)%len(dev)].PrivateKey)
	}
	return tx.MustSign(b.Build(), from.PrivateKey)
}

func stripSig(t *tx.Transaction) *tx.Transaction { return t.WithSignature(nil) }

// ---------------------------------------------------------------- property predicate on the real maps

type snap struct {
	quota map[thor.Address]int
	cost  map[thor.Address]*big.Int
	objs  map[thor.Bytes32]txpool.VerifObject
}

func (w *world) snapshot() *snap {
	q, c, os := w.pool.VerifAccounting()
	s := &snap{quota: q, cost: c, objs: map[thor.Bytes32]txpool.VerifObject{}}
	for _, o := range os {
		s.objs[o.Hash] = o
	}
	return s
}

func (s *snap) addrs() []thor.Address {
	set := map[thor.Address]bool{}
	for a := range s.quota {
		set[a] = true
	}
	for a := range s.cost {
		set[a] = true
	}
	for _, o := range s.objs {
		set[o.Origin] = true
		if o.Delegator != nil {
			set[*o.Delegator] = true
		}
		if o.Payer != nil {
			set[*o.Payer] = true
		}
	}
	out := make([]thor.Address, 0, len(set))
	for a := range set {
		out = append(out, a)
	}
	sort.Slice(out, func(i, j int) bool { return string(out[i][:]) < string(out[j][:]) })
	return out
}

// propertyCheck: the accounting maps equal what the pool content implies
func (s *snap) propertyCheck() string {
	wantQ := map[thor.Address]int{}
	wantC := map[thor.Address]*big.Int{}
	for _, o := range s.objs {
		wantQ[o.Origin]++
		if o.Delegator != nil {
			wantQ[*o.Delegator]++
		}
		if o.Executable && o.Cost != nil && o.Payer != nil {
			if wantC[*o.Payer] == nil {
				wantC[*o.Payer] = new(big.Int)
			}
			wantC[*o.Payer].Add(wantC[*o.Payer], o.Cost)
		}
	}
	for _, a := range s.addrs() {
		got, present := s.quota[a]
		if got != wantQ[a] || (present && got == 0) {
			return fmt.Sprintf("quota[%v] = %d (present %v) but the pool holds %d objects with that origin/delegator", a, got, present, wantQ[a])
		}
		gc := s.cost[a]
		if gc == nil {
			gc = new(big.Int)
		}
		wc := wantC[a]
		if wc == nil {
			wc = new(big.Int)
		}
		if gc.Cmp(wc) != 0 {
			return fmt.Sprintf("pending cost[%v] = %v but the executable objects paid by it sum to %v", a, gc, wc)
		}
	}
	return ""
}

// ---------------------------------------------------------------- model replay

var oracle *hx.OracleProc

func ask(line string) string {
	s, err := oracle.Ask(line)
	if err != nil {
		hx.Fatal("oracle: %v", err)
	}
	if strings.HasPrefix(s, "ERR") {
		hx.Fatal("oracle: %s on %q", s, line)
	}
	return s
}

func hx32(b thor.Bytes32) string { return hx.HexN(b[:]) }
func hxA(a thor.Address) string  { return hx.HexN(a[:]) }
func hxAp(a *thor.Address) string {
	if a == nil {
		return "-"
	}
	return hxA(*a)
}
func hxBig(b *big.Int) string {
	if b == nil {
		return "0"
	}
	return b.Text(16)
}

// replay the transition prev -> cur in the model; returns a disagreement description or ""
func modelStep(prev, cur *snap, op string, lpa int, addErr error) string {
	// pricing publications and promotions of surviving objects
	var hashes []thor.Bytes32
	for h := range cur.objs {
		hashes = append(hashes, h)
	}
	sort.Slice(hashes, func(i, j int) bool { return string(hashes[i][:]) < string(hashes[j][:]) })
	var fills []string
	for _, h := range hashes {
		o := cur.objs[h]
		old, was := prev.objs[h]
		if was && old.TimeAdded != o.TimeAdded {
			// the tx was removed and submitted again: another object under the same hash
			if ask("rm "+hx32(h)) != "1" {
				return "model remove of a present object failed"
			}
			was = false
		}
		if !was {
			if op == "fill" {
				fills = append(fills, hx32(h), hxA(o.Origin), hxAp(o.Delegator), hx.U(uint64(o.TimeAdded)), hx.B(o.Local))
				continue
			}
			r := ask(fmt.Sprintf("add %s %s %s %s %s %s %s %s %x %s %s", hx32(h), hxA(o.Origin), hxAp(o.Delegator), hx.B(o.Executable),
				hxAp(o.Payer), hxBig(o.Cost), hxBig(o.PriorityGasPrice), hx.U(uint64(o.TimeAdded)), lpa, "ffffffffffffffffffffffffffffffffffffffff", hx.B(o.Local)))
			if r != "ok" {
				return fmt.Sprintf("the pool admitted %v but the model's Add answers %q", o.ID, r)
			}
			continue
		}
		changed := (old.Payer == nil) != (o.Payer == nil) || (o.Payer != nil && (*old.Payer != *o.Payer || old.Cost.Cmp(o.Cost) != 0 || old.PriorityGasPrice.Cmp(o.PriorityGasPrice) != 0))
		if changed && o.Payer != nil {
			ask(fmt.Sprintf("price %s %s %s %s %s", hx32(h), hx.U(uint64(o.TimeAdded)), hxA(*o.Payer), hxBig(o.Cost), hxBig(o.PriorityGasPrice)))
		}
		if !old.Executable && o.Executable {
			if ask("promote "+hx32(h)+" "+hx.U(uint64(o.TimeAdded))) != "1" {
				return "model promote of a present object failed"
			}
		}
	}
	if len(fills) > 0 {
		ask("fill " + strings.Join(fills, " "))
	}
	for h := range prev.objs {
		if _, still := cur.objs[h]; !still {
			if ask("rm "+hx32(h)) != "1" {
				return "model remove of a present object failed"
			}
		}
	}
	// compare maps
	addrs := cur.addrs()
	if len(addrs) == 0 {
		return ""
	}
	parts := make([]string, len(addrs))
	for i, a := range addrs {
		parts[i] = hxA(a)
	}
	res := strings.Split(ask("q "+strings.Join(parts, " ")), " ; ")
	for i, a := range addrs {
		f := strings.Fields(res[i])
		wantQ := "-"
		if v, ok := cur.quota[a]; ok {
			wantQ = fmt.Sprintf("%x", v)
		}
		wantC := hxBig(cur.cost[a])
		if f[0] != wantQ || f[1] != wantC {
			return fmt.Sprintf("maps differ at %v after %s: model quota %s cost %s, implementation quota %s cost %s", a, op, f[0], f[1], wantQ, wantC)
		}
		if f[2] != "1" {
			return fmt.Sprintf("model invariant oracle false at %v", a)
		}
	}
	return ""
}

// ---------------------------------------------------------------- executables: order and adoption

// checkOrder: the published executables are in non-increasing priority price order (big.Int comparison on the
// prices the pool itself holds for the objects)
func (w *world) checkOrder(s *snap) (class, summary string) {
	byID := map[thor.Bytes32]txpool.VerifObject{}
	for _, o := range s.objs {
		byID[o.ID] = o
	}
	var last *big.Int
	for i, t := range w.pool.Executables() {
		o, ok := byID[t.ID()]
		if !ok || o.PriorityGasPrice == nil {
			continue
		}
		if last != nil && o.PriorityGasPrice.Cmp(last) > 0 {
			return "executables-order", fmt.Sprintf("published executables not in non-increasing priority price order at index %d (%v after %v)", i, o.PriorityGasPrice, last)
		}
		last = o.PriorityGasPrice
	}
	return "", ""
}

func (w *world) checkExecutables(s *snap) (class, summary string) {
	execs := w.pool.Executables()
	byID := map[thor.Bytes32]txpool.VerifObject{}
	for _, o := range s.objs {
		byID[o.ID] = o
	}
	var last *big.Int
	for i, t := range execs {
		o, ok := byID[t.ID()]
		if !ok || o.PriorityGasPrice == nil {
			continue
		}
		if last != nil && o.PriorityGasPrice.Cmp(last) > 0 {
			return "executables-order", fmt.Sprintf("published executables not in non-increasing priority price order at index %d (%v after %v)", i, o.PriorityGasPrice, last)
		}
		last = o.PriorityGasPrice
	}
	// offer them to a real packer flow on the same head, in order
	head := w.chain.Repo().BestBlockSummary()
	var flow *packer.Flow
	for i := range dev[:10] {
		f, err := packer.New(w.chain.Repo(), w.chain.Stater(), dev[i].Address, nil, &forkCfg, 0).Schedule(head, head.Header.Timestamp()+thor.BlockInterval())
		if err == nil && (flow == nil || f.When() < flow.When()) {
			flow = f
		}
	}
	if flow == nil {
		return "", ""
	}
	touched := map[thor.Address]bool{}
	ids := map[thor.Bytes32]bool{}
	for _, t := range execs {
		err := flow.Adopt(t)
		origin, _ := t.Origin()
		deleg, _ := t.Delegator()
		if err != nil && !packer.IsGasLimitReached(err) && !packer.IsTxNotAdoptableNow(err) {
			excused := ids[t.ID()] || touched[origin] || (deleg != nil && touched[*deleg])
			if !excused {
				return "executable-not-adoptable", fmt.Sprintf("the pool reports tx %v executable but packer.Flow.Adopt on the same head rejects it: %v", t.ID(), err)
			}
		}
		if err != nil && packer.IsTxNotAdoptableNow(err) {
			// only legitimate for lack of space (a block nearly full); blockRef / dependency must already hold
			if t.BlockRef().Number() > flow.Number() {
				return "executable-not-adoptable", fmt.Sprintf("tx %v is reported executable but its block ref %d is after the next block %d", t.ID(), t.BlockRef().Number(), flow.Number())
			}
		}
		ids[t.ID()] = true
		touched[origin] = true
		if deleg != nil {
			touched[*deleg] = true
		}
	}
	return "", ""
}

// ---------------------------------------------------------------- wash: model prediction from real per-object verdicts

// preWash asks the model what the wash about to run will publish and remove, given the verdict of the REAL Evaluate
// for every pooled object on the current head (through VerifEvaluate) and the payers' real energy.
func (w *world) preWash() {
	w.predOK = false
	if !w.predict {
		return
	}
	s := w.snapshot()
	byHash := map[thor.Bytes32]*tx.Transaction{}
	for _, t := range w.pool.Dump() {
		byHash[t.Hash()] = t
	}
	head := w.chain.Repo().BestBlockSummary()
	st := w.chain.Stater().NewState(head.Root())
	payers := map[thor.Address]bool{}
	var toks []string
	for h, o := range s.objs {
		t := byHash[h]
		if t == nil {
			return
		}
		exe, payer, cost, pgp, err := w.pool.VerifEvaluate(t, o.Executable)
		v := "N"
		switch {
		case err != nil:
			v = "E1"
		case exe && payer != nil:
			v = fmt.Sprintf("Y,%s,%s,%s", hxA(*payer), hxBig(cost), hxBig(pgp))
			payers[*payer] = true
		case exe:
			v = "Y"
		}
		if o.Payer != nil {
			payers[*o.Payer] = true
		}
		toks = append(toks, fmt.Sprintf("%s:0:0:%s", hx32(h), v))
	}
	sort.Strings(toks)
	var en []string
	for a := range payers {
		e, err := builtin.Energy.Native(st, head.Header.Timestamp()+thor.BlockInterval()).Get(a)
		if err != nil {
			return
		}
		en = append(en, hxA(a)+"="+hxBig(e))
	}
	sort.Strings(en)
	ans := ask(fmt.Sprintf("wash %d %s | %s", w.limit, strings.Join(toks, " "), strings.Join(en, " ")))
	parts := strings.SplitN(ans, " | rm", 2)
	w.predPub = strings.Fields(strings.TrimPrefix(parts[0], "pub"))
	w.predRm = nil
	if len(parts) == 2 {
		w.predRm = strings.Fields(parts[1])
	}
	w.predOK = true
}

// compareWash: the real wash against the model's prediction
func (w *world) compareWash(prev, cur *snap) string {
	if !w.predOK {
		return ""
	}
	byID := map[thor.Bytes32]thor.Bytes32{}
	for h, o := range cur.objs {
		byID[o.ID] = h
	}
	// published order (by hash; two pooled txs with one id are ambiguous in Executables(): skip those cases)
	var realPub []string
	ids := map[thor.Bytes32]int{}
	for _, o := range cur.objs {
		ids[o.ID]++
	}
	ambiguous := false
	for _, t := range w.pool.Executables() {
		if ids[t.ID()] > 1 {
			ambiguous = true
		}
		realPub = append(realPub, hx32(t.Hash()))
	}
	if !ambiguous && strings.Join(realPub, " ") != strings.Join(w.predPub, " ") {
		return fmt.Sprintf("published list differs: model [%s], implementation [%s]", strings.Join(w.predPub, " "), strings.Join(realPub, " "))
	}
	realRm := map[string]bool{}
	for h := range prev.objs {
		if _, still := cur.objs[h]; !still {
			realRm[hx32(h)] = true
		}
	}
	flex := 0
	for _, hr := range w.predRm {
		p := strings.SplitN(hr, ":", 2)
		switch p[1] {
		case "lim1n", "lim2", "lim3":
			flex++ // which non-executables are displaced depends on Go's map iteration order
		default:
			if !realRm[p[0]] {
				return fmt.Sprintf("model removes %s (%s) but the implementation keeps it", p[0], p[1])
			}
			delete(realRm, p[0])
		}
	}
	if len(realRm) != flex {
		left := []string{}
		for h := range realRm {
			left = append(left, h)
		}
		sort.Strings(left)
		return fmt.Sprintf("the implementation removed %v beyond what the model's reasons cover (model expects %d displaced non-executables)", left, flex)
	}
	return ""
}

// ---------------------------------------------------------------- Evaluate / Adopt transcriptions against the real ones

func (w *world) admissionCheck(ctx *hx.Ctx, t *tx.Transaction) string {
	resolved, err := runtime.ResolveTransaction(t)
	if err != nil {
		return ""
	}
	head := w.chain.Repo().BestBlockSummary()
	next := head.Header.Number() + 1
	ch := w.chain.Repo().NewChain(head.Header.ID())
	known, err := ch.HasTransaction(t.ID(), t.BlockRef().Number())
	if err != nil {
		return ""
	}
	depTok, depSt := "-", "-"
	if d := t.DependsOn(); d != nil {
		depTok = hx32(*d)
		meta, err := ch.GetTransactionMeta(*d)
		switch {
		case err != nil && w.chain.Repo().IsNotFound(err):
			depSt = "n"
		case err != nil:
			return ""
		default:
			depSt = hx.B(meta.Reverted)
		}
	}
	baseFee := galactica.CalcBaseFee(head.Header, &forkCfg)
	buy := func(tm uint64) (feeOK, energyOK bool) {
		_, _, _, _, _, err := resolved.BuyGas(w.chain.Stater().NewState(head.Root()), tm, baseFee)
		if err == nil {
			return true, true
		}
		if strings.Contains(err.Error(), "base fee") {
			return false, true
		}
		return true, false
	}
	nextTime := head.Header.Timestamp() + thor.BlockInterval()
	fee1, en1 := buy(nextTime)
	var flow *packer.Flow
	for i := range dev[:10] {
		f, err := packer.New(w.chain.Repo(), w.chain.Stater(), dev[i].Address, nil, &forkCfg, 0).Schedule(head, nextTime)
		if err == nil && (flow == nil || f.When() < flow.When()) {
			flow = f
		}
	}
	if flow == nil {
		return ""
	}
	_, en2 := buy(flow.When())
	origin, _ := t.Origin()
	deleg, derr := t.Delegator()
	line := fmt.Sprintf("adm %x %x %x %x %x %x %s %s | %s %x %x %x %s %s %s %s %s %s %s %s | %s %s | 0 %x %x %s 0 0 0 -",
		next, head.Header.GasLimit(), nextTime, forkCfg.VIP191, forkCfg.GALACTICA, forkCfg.BLOCKLIST, hx.B(known), depSt,
		hx32(t.ID()), t.Gas(), t.BlockRef().Number(), t.Expiration(), hx.B(t.Type() == tx.TypeLegacy), hx.B(t.Features().IsDelegated()),
		hx.B(t.Features()&^tx.DelegationFeature != 0), depTok, hx.B(t.ChainTag() == w.chain.Repo().ChainTag()),
		hx.B(thor.IsOriginBlocked(origin)), hx.B(derr == nil), hx.B(deleg != nil && thor.IsOriginBlocked(*deleg)),
		hx.B(fee1), hx.B(en1), head.Header.GasLimit(), flow.When(), hx.B(en2))
	f := strings.Fields(ask(line))
	// the real verdicts
	exe, _, _, _, eerr := w.pool.VerifEvaluate(t, false)
	realEv := "notyet"
	switch {
	case eerr != nil:
		realEv = "err"
	case exe:
		realEv = "exec"
	}
	modelEv := f[0]
	if strings.HasPrefix(modelEv, "err:") {
		ctx.Cov.Count("evaluate_" + modelEv)
		modelEv = "err"
	} else {
		ctx.Cov.Count("evaluate_" + modelEv)
	}
	if modelEv != realEv {
		return fmt.Sprintf("Evaluate transcription: model %s, implementation %s (%v) for tx %v", f[0], realEv, eerr, t.ID())
	}
	aerr := flow.Adopt(t)
	realAd := "other"
	switch {
	case aerr == nil:
		realAd = "ok"
	case packer.IsBadTx(aerr):
		realAd = "bad"
	case packer.IsTxNotAdoptableNow(aerr):
		realAd = "notnow"
	case packer.IsGasLimitReached(aerr):
		realAd = "gaslimit"
	}
	modelAd := f[1]
	if modelAd == "known" || modelAd == "forever" {
		modelAd = "other"
	}
	ctx.Cov.Count("adopt_" + f[1])
	if modelAd != realAd {
		return fmt.Sprintf("Adopt transcription: model %s, implementation %s (%v) for tx %v", f[1], realAd, aerr, t.ID())
	}
	return ""
}

// ---------------------------------------------------------------- sequential driver

func (w *world) apply(op *Op) (string, error) {
	switch op.Kind {
	case "add", "addlocal", "strict":
		t := w.buildTx(op)
		w.gen = append(w.gen, t)
		switch op.Kind {
		case "add":
			return "add", w.pool.Add(t)
		case "addlocal":
			return "add", w.pool.AddLocal(t)
		default:
			return "add", w.pool.StrictlyAdd(t)
		}
	case "remove":
		all := w.pool.Dump()
		if len(all) == 0 {
			return "remove", nil
		}
		sort.Slice(all, func(i, j int) bool { h1, h2 := all[i].Hash(), all[j].Hash(); return string(h1[:]) < string(h2[:]) })
		t := all[op.N%len(all)]
		w.pool.Remove(t.Hash(), t.ID())
		return "remove", nil
	case "readd":
		all := w.pool.Dump()
		if len(all) == 0 {
			return "remove", nil
		}
		sort.Slice(all, func(i, j int) bool { h1, h2 := all[i].Hash(), all[j].Hash(); return string(h1[:]) < string(h2[:]) })
		t := all[op.N%len(all)]
		w.pool.Remove(t.Hash(), t.ID())
		return "add", w.pool.Add(t)
	case "fill":
		var txs tx.Transactions
		for i := 0; i < op.N; i++ {
			o := *op
			o.Nonce += uint64(i) * 7919
			o.From = (op.From + i) % 11
			t := w.buildTx(&o)
			w.gen = append(w.gen, t)
			txs = append(txs, t)
		}
		w.pool.Fill(txs)
		return "fill", nil
	case "wash":
		w.preWash()
		_, _, err := w.pool.VerifWash(false)
		return "wash", err
	case "basefee":
		// a head whose base fee differs from its parent's (crafted directly into the repository: the pool only reads
		// the best block summary; the state is the parent's state re-committed under the new block number)
		best := w.chain.Repo().BestBlockSummary()
		cur := best.Header.BaseFee()
		if cur == nil {
			return "wash", nil
		}
		mults := []int64{100, 40, 7, 2}
		nb := new(big.Int).Mul(cur, big.NewInt(mults[op.N%len(mults)]))
		if cur.Cmp(big.NewInt(thor.InitialBaseFee)) > 0 && op.N%2 == 1 {
			nb = big.NewInt(thor.InitialBaseFee) // back to the floor
		}
		st := w.chain.Stater().NewState(best.Root())
		stage, err := st.Stage(trie.Version{Major: best.Header.Number() + 1})
		if err != nil {
			return "wash", nil
		}
		root, err := stage.Commit()
		if err != nil {
			return "wash", nil
		}
		blk := new(block.Builder).ParentID(best.Header.ID()).StateRoot(root).TotalScore(best.Header.TotalScore() + 10).
			Timestamp(best.Header.Timestamp() + 10).BaseFee(nb).GasLimit(best.Header.GasLimit()).Build()
		if err := w.chain.Repo().AddBlock(blk, tx.Receipts{}, 0, true); err != nil {
			return "wash", nil
		}
		_, _, err = w.pool.VerifWash(true)
		return "wash", err
	case "head":
		// a new block with the first executables, then the wash housekeeping would run on a head change
		execs := w.pool.Executables()
		if len(execs) > 3 {
			execs = execs[:3]
		}
		var pick tx.Transactions
		seen := map[thor.Bytes32]bool{}
		for _, t := range execs {
			if !seen[t.ID()] {
				pick = append(pick, t)
				seen[t.ID()] = true
			}
		}
		if err := w.chain.MintBlock(pick...); err != nil {
			if err2 := w.chain.MintBlock(); err2 != nil {
				return "head", nil
			}
		}
		w.preWash()
		_, _, err := w.pool.VerifWash(true)
		return "wash", err
	}
	return "", fmt.Errorf("unknown op %s", op.Kind)
}

func runSeq(ctx *hx.Ctx, sc *SeqCase) (class, summary string, found bool, at int) {
	w := newWorld(sc.Limit, sc.LPA)
	defer w.close()
	w.predict = true
	ask("reset")
	prev := w.snapshot()
	for i := range sc.Ops {
		if time.Since(w.made) > 800*time.Millisecond {
			// the pool's own housekeeping tick (1s) would interleave a wash the model replay does not know about
			ctx.Cov.Count("seq_truncated_before_housekeeping_tick")
			return "", "", false, i
		}
		nGen := len(w.gen)
		kind, err := w.apply(&sc.Ops[i])
		cur := w.snapshot()
		if kind == "add" && len(w.gen) > nGen {
			if msg := w.admissionCheck(ctx, w.gen[len(w.gen)-1]); msg != "" {
				return "admission-transcription", msg, false, i
			}
		}
		ctx.Cov.Count("op_" + sc.Ops[i].Kind)
		if err != nil {
			ctx.Cov.Count("op_rejected")
			if strings.Contains(err.Error(), "quota exceeded") {
				ctx.Cov.Count("rejected_quota")
			} else if strings.Contains(err.Error(), "insufficient energy") {
				ctx.Cov.Count("rejected_pending_cost")
			}
		}
		if msg := cur.propertyCheck(); msg != "" {
			return "accounting-drift-" + kind, msg, true, i
		}
		if kind == "wash" && err == nil {
			if c, s := w.checkOrder(cur); c != "" {
				return c, s, true, i
			}
		}
		if kind == "wash" && err == nil && sc.Ops[i].Kind != "basefee" {
			if msg := w.compareWash(prev, cur); msg != "" {
				return "wash-model", msg, false, i
			}
			ctx.Cov.Count("wash_compared_with_model")
		}
		if msg := modelStep(prev, cur, kind, sc.LPA, err); msg != "" {
			return "model-maps-" + kind, msg, false, i
		}
		if kind == "wash" && err == nil {
			ctx.Cov.Bucket("executables_len", len(w.pool.Executables()))
			if c, s := w.checkExecutables(cur); c != "" {
				return c, s, true, i
			}
			for _, o := range cur.objs {
				if o.Executable {
					ctx.Cov.Count("obj_executable_after_wash")
				} else {
					ctx.Cov.Count("obj_nonexecutable_after_wash")
				}
			}
		}
		prev = cur
	}
	ctx.Cov.Bucket("pool_len_end", len(prev.objs))
	return "", "", false, len(sc.Ops)
}

func genOp(r *hx.Rand, nGen int) Op {
	k := r.Intn(100)
	op := Op{From: r.Intn(6), Gas: 21000 + uint64(r.Intn(4))*10000, Coef: uint8(r.Intn(4) * 60), Tip: uint64(r.Intn(5)) * 1_000_000_000,
		Nonce: r.Uint64() >> 16, Exp: 1000, Dyn: r.Chance(1, 3)}
	switch {
	case k < 50:
		op.Kind = []string{"add", "add", "addlocal", "strict"}[r.Intn(4)]
	case k < 58:
		op.Kind, op.N = "remove", r.Intn(64)
		return op
	case k < 62:
		op.Kind, op.N = "readd", r.Intn(64)
		return op
	case k < 70:
		op.Kind, op.N = "fill", 1+r.Intn(4)
	case k < 90:
		op.Kind = "wash"
		return op
	case k < 95:
		op.Kind, op.N = "basefee", r.Intn(8)
		return op
	default:
		op.Kind = "head"
		return op
	}
	if r.Chance(1, 4) {
		op.From = 10 // the poor account as origin (and payer)
	}
	if r.Chance(1, 3) {
		op.Deleg = 1 + r.Intn(11) // 11 = the poor account pays
	}
	if r.Chance(1, 8) {
		op.RefAhead = uint32(1 + r.Intn(40))
	}
	if r.Chance(1, 12) {
		op.Exp = uint32(r.Intn(3))
	}
	if r.Chance(1, 8) && nGen > 0 {
		op.DepOn = 1 + r.Intn(nGen)
	} else if r.Chance(1, 20) {
		op.DepOn = -1
	}
	if r.Chance(1, 10) && nGen > 0 {
		op.Redeleg = 1 + r.Intn(nGen)
		op.Deleg = 1 + r.Intn(10)
	}
	if r.Chance(1, 25) {
		op.Gas = 41_000_000 // above the block gas limit: never includable
	}
	if r.Chance(1, 10) {
		// a priority fee that does not fit 64 bits (the payer needs ~390k VTHO for a plain transfer: dev accounts have it)
		op.Dyn, op.TipHuge, op.Gas = true, 1+r.Intn(3), 21000
		if op.From == 10 {
			op.From = r.Intn(6)
		}
	}
	if r.Chance(1, 10) {
		// a payer near its limit: huge gas so that few such txs exhaust the energy the pool will accept
		op.Gas = 30_000_000 + uint64(r.Intn(9_000_000))
		op.Coef = 255
	}
	return op
}

func genSeq(r *hx.Rand, n int) *SeqCase {
	sc := &SeqCase{Kind: "seq", Limit: []int{4, 8, 30, 200}[r.Intn(4)], LPA: []int{1, 2, 4, 16}[r.Intn(4)]}
	gen := 0
	for i := 0; i < n; i++ {
		op := genOp(r, gen)
		if op.Kind != "wash" && op.Kind != "remove" && op.Kind != "readd" && op.Kind != "head" && op.Kind != "basefee" {
			gen++
		}
		sc.Ops = append(sc.Ops, op)
	}
	return sc
}

func doSeq(ctx *hx.Ctx, sc *SeqCase) {
	class, summary, found, _ := runSeq(ctx, sc)
	b, _ := json.Marshal(sc)
	ctx.Cov.Case(string(b), len(sc.Ops) >= 10, nil)
	if class != "" {
		for _, v := range ctx.Violations {
			if v.Class == class {
				return // already reported (and shrunk) once in this run
			}
		}
		// shrink: drop ops while the same class reproduces
		best := sc
		for changed := true; changed; {
			changed = false
			for i := len(best.Ops) - 1; i >= 0; i-- {
				c := &SeqCase{Kind: best.Kind, Limit: best.Limit, LPA: best.LPA}
				c.Ops = append(append([]Op{}, best.Ops[:i]...), best.Ops[i+1:]...)
				if cl, _, _, _ := runSeq(ctx, c); cl == class {
					best, changed = c, true
				}
			}
		}
		ctx.Violation(class, summary, best, found)
	}
}

// ---------------------------------------------------------------- concurrent driver

func runConc(ctx *hx.Ctx, sc *SeqCase) (class, summary string) {
	w := newWorld(sc.Limit, sc.LPA)
	defer w.close()
	// pre-build the txs sequentially (buildTx reads w.gen), then issue the pool calls concurrently
	type job struct {
		kind string
		t    *tx.Transaction
		txs  tx.Transactions
	}
	var jobs []job
	for i := range sc.Ops {
		op := &sc.Ops[i]
		switch op.Kind {
		case "add", "addlocal", "strict":
			t := w.buildTx(op)
			w.gen = append(w.gen, t)
			jobs = append(jobs, job{kind: op.Kind, t: t})
		case "fill":
			t := w.buildTx(op)
			w.gen = append(w.gen, t)
			jobs = append(jobs, job{kind: "fill", txs: tx.Transactions{t}})
		default:
			jobs = append(jobs, job{kind: op.Kind})
		}
	}
	workers := 8
	var wg sync.WaitGroup
	var headMu sync.Mutex
	for g := 0; g < workers; g++ {
		wg.Add(1)
		go func(g int) {
			defer wg.Done()
			for i := g; i < len(jobs); i += workers {
				j := jobs[i]
				switch j.kind {
				case "add":
					_ = w.pool.Add(j.t)
				case "addlocal":
					_ = w.pool.AddLocal(j.t)
				case "strict":
					_ = w.pool.StrictlyAdd(j.t)
				case "fill":
					w.pool.Fill(j.txs)
				case "remove":
					if all := w.pool.Dump(); len(all) > 0 {
						t := all[i%len(all)]
						w.pool.Remove(t.Hash(), t.ID())
					}
				case "readd":
					if all := w.pool.Dump(); len(all) > 0 {
						t := all[i%len(all)]
						w.pool.Remove(t.Hash(), t.ID())
						_ = w.pool.Add(t)
					}
				case "head":
					headMu.Lock()
					_ = w.chain.MintBlock()
					headMu.Unlock()
				}
			}
		}(g)
	}
	// the single washer, as in the pool (wash only ever runs in one goroutine)
	stop := make(chan struct{})
	var wwg sync.WaitGroup
	wwg.Add(1)
	go func() {
		defer wwg.Done()
		for {
			select {
			case <-stop:
				return
			default:
				w.pool.VerifWash(true)
			}
		}
	}()
	wg.Wait()
	close(stop)
	wwg.Wait()
	// quiescence
	s := w.snapshot()
	if msg := s.propertyCheck(); msg != "" {
		return "accounting-drift-concurrent", msg
	}
	w.pool.VerifWash(true)
	s = w.snapshot()
	if msg := s.propertyCheck(); msg != "" {
		return "accounting-drift-concurrent", msg
	}
	if c, m := w.checkExecutables(s); c != "" {
		return c + "-concurrent", m
	}
	// drain: removing everything must leave empty maps (no lock-out, no residue)
	for _, t := range w.pool.Dump() {
		w.pool.Remove(t.Hash(), t.ID())
	}
	s = w.snapshot()
	if len(s.objs) == 0 && (len(s.quota) != 0 || len(s.cost) != 0) {
		return "accounting-residue-concurrent", fmt.Sprintf("pool is empty but quota has %d and cost %d entries", len(s.quota), len(s.cost))
	}
	return "", ""
}

// runReadd: the Remove-then-re-Add-inside-wash schedule.  N plain transfers enter through Fill (pooled, not yet
// executable); one goroutine washes, the others remove a pooled tx and submit the very same tx again, over and over.
// A wash that captured the old object and promotes it after the new object under the same hash was admitted must not
// count the cost twice.  Judge: the accounting predicate at quiescence, and empty maps after draining the pool.
func runReadd(ctx *hx.Ctx, n int, seed uint64) (class, summary string) {
	w := newWorld(200, 64)
	defer w.close()
	var txs tx.Transactions
	for i := 0; i < n; i++ {
		op := Op{Kind: "fill", From: i % 10, Gas: 21000, Nonce: seed<<16 | uint64(i), Exp: 1000}
		txs = append(txs, w.buildTx(&op))
	}
	w.pool.Fill(txs)
	stop := make(chan struct{})
	var wg sync.WaitGroup
	for g := 0; g < 6; g++ {
		wg.Add(1)
		go func(g int) {
			defer wg.Done()
			for i := g; ; i += 6 {
				select {
				case <-stop:
					return
				default:
				}
				t := txs[i%len(txs)]
				w.pool.Remove(t.Hash(), t.ID())
				_ = w.pool.Add(t)
			}
		}(g)
	}
	for k := 0; k < 6; k++ {
		w.pool.VerifWash(k%2 == 0)
	}
	close(stop)
	wg.Wait()
	s := w.snapshot()
	if msg := s.propertyCheck(); msg != "" {
		return "accounting-drift-readd-in-wash", msg
	}
	for _, t := range w.pool.Dump() {
		w.pool.Remove(t.Hash(), t.ID())
	}
	s = w.snapshot()
	if len(s.objs) == 0 && (len(s.quota) != 0 || len(s.cost) != 0) {
		return "accounting-drift-readd-in-wash", fmt.Sprintf("pool is empty but quota has %d and cost %d entries (residue after a tx was removed and submitted again during a wash)", len(s.quota), len(s.cost))
	}
	return "", ""
}

func doReadd(ctx *hx.Ctx, n int, seed uint64) {
	class, summary := runReadd(ctx, n, seed)
	ctx.Cov.Case(fmt.Sprintf("readd %d %d", n, seed), true, nil)
	ctx.Cov.Count("readd_in_wash_rounds")
	if class != "" {
		ctx.Violation(class, summary, map[string]any{"kind": "readd", "n": n, "seed": seed}, true)
	}
}

func doConc(ctx *hx.Ctx, sc *SeqCase) {
	class, summary := runConc(ctx, sc)
	b, _ := json.Marshal(sc)
	ctx.Cov.Case(string(b), true, nil)
	ctx.Cov.Count("concurrent_rounds")
	if class != "" {
		ctx.Violation(class, summary, sc, true)
	}
}

func runReplay(ctx *hx.Ctx, path string) {
	b, err := os.ReadFile(path)
	if err != nil {
		hx.Fatal("replay: %v", err)
	}
	var doc struct {
		Replay json.RawMessage `json:"replay"`
	}
	if json.Unmarshal(b, &doc) != nil || doc.Replay == nil {
		doc.Replay = b
	}
	var rd struct {
		Kind string `json:"kind"`
		N    int    `json:"n"`
		Seed uint64 `json:"seed"`
	}
	if json.Unmarshal(doc.Replay, &rd) == nil && rd.Kind == "readd" {
		for i := 0; i < 10; i++ {
			doReadd(ctx, rd.N, rd.Seed+uint64(i))
		}
		return
	}
	var sc SeqCase
	if err := json.Unmarshal(doc.Replay, &sc); err != nil {
		hx.Fatal("replay: %v", err)
	}
	if sc.Kind == "conc" {
		for i := 0; i < 5; i++ {
			doConc(ctx, &sc)
		}
	} else {
		doSeq(ctx, &sc)
	}
}

func main() {
	ctx := hx.Init("C18")
	var err error
	oracle, err = hx.StartOracle(ctx.Oracle)
	if err != nil {
		hx.Fatal("oracle: %v", err)
	}
	defer oracle.Close()
	// premise of the model, re-read from the tree on every run: every txObjectMap method is one atomic step (lock scopes)
	{
		repo := os.Getenv("VERIF_REPO")
		if repo == "" {
			repo = "/repo"
		}
		problems, methods, err := lockscope.Check(repo)
		if err != nil {
			hx.Fatal("lockscope: %v", err)
		}
		ctx.Cov.Add("lockscope-methods-checked", len(methods))
		if len(problems) > 0 {
			ctx.Violation("atomic-step-premise", "the premise under which bookkeeping_inv speaks about the code (each txObjectMap method holds "+
				"the map lock from its first statement to its return; nothing else touches the maps) no longer holds syntactically: "+
				strings.Join(problems, "; "), problems, false)
		}
	}
	if ctx.Replay != "" {
		runReplay(ctx, ctx.Replay)
	} else {
		if dir := os.Getenv("VERIF_CORPUS"); dir != "" {
			files, _ := filepath.Glob(filepath.Join(dir, "*.json"))
			sort.Strings(files)
			for _, f := range files {
				runReplay(ctx, f)
			}
		}
		rnd := hx.NewRand(ctx.Seed)
		rs := rnd.Fork(1)
		for i := 0; i < ctx.Scale(500, 8000); i++ {
			doSeq(ctx, genSeq(rs, 20+rs.Intn(60)))
		}
		rr := rnd.Fork(3)
		for i := 0; i < ctx.Scale(25, 400); i++ {
			doReadd(ctx, 20+rr.Intn(60), rr.Uint64()>>20)
		}
		rc := rnd.Fork(2)
		for i := 0; i < ctx.Scale(40, 600); i++ {
			sc := genSeq(rc, 150+rc.Intn(150))
			sc.Kind = "conc"
			doConc(ctx, sc)
		}
	}
	ctx.Finish(
		"distinct = distinct op sequences (canonical JSON); non-trivial = sequence of >= 10 ops (sequential) or any concurrent round",
		[]string{
			"each txObjectMap method is one atomic step (it holds m.lock for its whole body); setPricing is lock-free and used only as wash uses it — read off the code, exercised by the concurrent driver, not proved",
			"Evaluate's state reads (executable?, payer, cost, priority price) are abstract in the model: the replay takes them from the implementation's objects",
			"the sequential replay stops before the pool's own 1 s housekeeping tick so that no unobserved wash interleaves",
			"Go's slices.SortFunc is modelled by an insertion sort with the same comparator (sortedness is checked on the real output)",
		})
}
