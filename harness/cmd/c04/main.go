// c04 — correspondence driver for property C04 (same blocks => same best block and finality; late valid blocks import
// without error; incremental tally = from-scratch tally).  Real bft.Engine + chain.Repository instances (bftsim) are
// fed block trees in several arrival orders with duplicates and restarts; the extracted Coq model (oracle/c04) runs the
// same event list; every observable is diffed after every event; the property's own predicates are evaluated on the
// implementation.  A second stream drives bft.justifier directly (vote-count and weight mode) against the model.
package main

import (
	"encoding/json"
	"fmt"
	"os"
	"path/filepath"
	"sort"
	"strings"

	"github.com/vechain/thor/v2/bft"
	"github.com/vechain/thor/v2/thor"

	"verif/harness/internal/bftsim"
	"verif/harness/internal/hx"
)

// ---------------------------------------------------------------- justifier stream

type JVote struct {
	Signer int    `json:"signer"`
	Com    bool   `json:"com"`
	Weight uint64 `json:"weight"`
}
type JCase struct {
	PQ    uint32  `json:"parent_quality"`
	TV    uint64  `json:"threshold_votes"`
	TW    uint64  `json:"threshold_weight"`
	Votes []JVote `json:"votes"`
}

func addrOf(i int) thor.Address { return thor.BytesToAddress([]byte{byte(i >> 8), byte(i), 0x77}) }

func jusImpl(c *JCase, order []int) string {
	js := bft.VerifNewJustifier(c.PQ, 0, c.TV, c.TW)
	for _, k := range order {
		v := c.Votes[k]
		js.AddBlock(addrOf(v.Signer), v.Com, v.Weight)
	}
	q, j, cm := js.Summarize()
	n, cv, cw, jw := js.Counters()
	return fmt.Sprintf("%x %s %s %d %x %x %x", q, hx.B(j), hx.B(cm), n, cv, cw, jw)
}

func jusLine(c *JCase) string {
	var b strings.Builder
	fmt.Fprintf(&b, "JUS %x %x %x |", c.PQ, c.TV, c.TW)
	for _, v := range c.Votes {
		fmt.Fprintf(&b, " %s %s %x", hx.HexN(addrOf(v.Signer).Bytes()), hx.B(v.Com), v.Weight)
	}
	return b.String()
}

func genJus(r *hx.Rand) *JCase {
	n := r.Range(1, 12)
	c := &JCase{PQ: uint32(r.Intn(5))}
	weights := make([]uint64, n)
	var total uint64
	for i := range weights {
		switch r.Intn(3) {
		case 0:
			weights[i] = 1
		case 1:
			weights[i] = uint64(r.Range(1, 50))
		default:
			weights[i] = uint64(r.Range(1, 3)) << 40
		}
		total += weights[i]
	}
	if r.Bool() { // PoA mode
		c.TV = uint64(r.Range(0, n+1)) * 2 / 3
		for i := range weights {
			weights[i] = 0
		}
	} else {
		c.TW = total * 2 / 3
		if r.Chance(1, 10) {
			c.TW = uint64(r.Intn(3)) // includes 0: weight mode falling back to vote counting with threshold 0
		}
	}
	k := r.Range(0, 3*n)
	pc := r.Range(20, 100)
	for i := 0; i < k; i++ {
		s := r.Intn(n)
		c.Votes = append(c.Votes, JVote{Signer: s, Com: r.Intn(100) < pc, Weight: weights[s]})
	}
	return c
}

// the C04 predicate on the real justifier: the summary does not depend on the order / duplication of the same votes
func jusProperty(r *hx.Rand, c *JCase) string {
	id := make([]int, len(c.Votes))
	for i := range id {
		id[i] = i
	}
	base := jusImpl(c, id)
	perm := append([]int{}, id...)
	for i := len(perm) - 1; i > 0; i-- {
		j := r.Intn(i + 1)
		perm[i], perm[j] = perm[j], perm[i]
	}
	for i := 0; i < len(id)/2; i++ { // duplicates
		perm = append(perm, id[r.Intn(len(id))])
	}
	if got := jusImpl(c, perm); got != base {
		return fmt.Sprintf("the vote set %v summarises to [%s] in one order and to [%s] permuted/duplicated %v", c.Votes, base, got, perm)
	}
	return ""
}

func runJus(ctx *hx.Ctx, cases []*JCase, r *hx.Rand) {
	lines := make([]string, len(cases))
	for i, c := range cases {
		lines[i] = jusLine(c)
	}
	ans, err := hx.AskAll(ctx.Oracle, lines)
	if err != nil {
		hx.Fatal("oracle: %v", err)
	}
	for i, c := range cases {
		signers := map[int]int{}
		flips := false
		for _, v := range c.Votes {
			signers[v.Signer]++
		}
		for s := range signers {
			var seenT, seenF bool
			for _, v := range c.Votes {
				if v.Signer == s {
					seenT = seenT || v.Com
					seenF = seenF || !v.Com
				}
			}
			flips = flips || (seenT && seenF)
		}
		canon, _ := json.Marshal(c)
		ctx.Cov.Case("jus:"+string(canon), flips && len(signers) >= 3, nil)
		ctx.Cov.Count("cases:justifier")
		if c.TW == 0 {
			ctx.Cov.Count("justifier:vote-count-mode")
		} else {
			ctx.Cov.Count("justifier:weight-mode")
		}
		if f := jusProperty(r, c); f != "" {
			ctx.Violation("property:tally-order-dependent", f, map[string]any{"kind": "jus", "jus": c}, true)
			continue
		}
		id := make([]int, len(c.Votes))
		for k := range id {
			id[k] = k
		}
		if want := jusImpl(c, id); want != strings.Join(strings.Fields(ans[i]), " ") {
			ctx.Violation("correspondence:justifier", "correspondence Bft.Model.add_block/summarize ~ bft.justifier no longer checks: impl=["+want+"] model=["+ans[i]+"]",
				map[string]any{"kind": "jus", "jus": c}, false)
		}
	}
}

// ---------------------------------------------------------------- fixed scenarios

// lateForkInFinalizedEpoch is the tree of DESIGN §5-F1: a chain of three fully committed epochs finalizes the
// checkpoint of epoch 1; then a fork branching right after that checkpoint is delivered, itself justified and committed.
func lateForkInFinalizedEpoch(n int, L uint32) *bftsim.Script {
	sc := &bftsim.Script{Cfg: bftsim.Config{N: n, L: L, MBP: uint64(n)}, Nodes: []int{0}}
	name := 1
	parent := 0
	var atL int
	for num := uint32(1); num <= 3*L-1; num++ {
		sc.Ops = append(sc.Ops, bftsim.Op{Kind: "byz", Signer: int(num) % n, Parent: parent, Name: name, Com: true, Score: 1})
		sc.Ops = append(sc.Ops, bftsim.Op{Kind: "deliver", Node: 0, Block: name})
		if num == L {
			atL = name
		}
		parent = name
		name++
	}
	parent = atL
	for num := L + 1; num <= 2*L-1; num++ {
		sc.Ops = append(sc.Ops, bftsim.Op{Kind: "byz", Signer: int(num) % n, Parent: parent, Name: name, Com: true, Score: 1, Salt: 1})
		sc.Ops = append(sc.Ops, bftsim.Op{Kind: "deliver", Node: 0, Block: name})
		parent = name
		name++
	}
	return sc
}

// ---------------------------------------------------------------- main

func nontrivial(r *bftsim.Run, sc *bftsim.Script) bool {
	// a tree with at least one fork, at least one finalization and at least two epochs
	forks := false
	children := map[int]int{}
	for _, op := range sc.Ops {
		if op.Kind == "byz" {
			children[op.Parent]++
			if children[op.Parent] > 1 {
				forks = true
			}
		}
	}
	return forks && r.MaxFinalized() > 0
}

func runReplay(ctx *hx.Ctx, path string, r *hx.Rand) {
	b, err := os.ReadFile(path)
	if err != nil {
		hx.Fatal("%v", err)
	}
	var doc struct {
		Replay struct {
			Kind   string          `json:"kind"`
			Safety bool            `json:"safety"`
			Label  string          `json:"label"`
			Script *bftsim.Script  `json:"script"`
			Jus    *JCase          `json:"jus"`
			Raw    json.RawMessage `json:"-"`
		} `json:"replay"`
	}
	if err := json.Unmarshal(b, &doc); err != nil {
		hx.Fatal("bad replay file %s: %v", path, err)
	}
	switch {
	case doc.Replay.Jus != nil:
		runJus(ctx, []*JCase{doc.Replay.Jus}, r)
	case doc.Replay.Script != nil:
		bftsim.RunCases(ctx, []*bftsim.Case{{Kind: "script", Safety: doc.Replay.Safety, Label: doc.Replay.Label, Script: doc.Replay.Script}}, nontrivial)
	default:
		hx.Fatal("bad replay file %s: no script / jus", path)
	}
}

func main() {
	ctx := hx.Init("C04")
	r := hx.NewRand(ctx.Seed)
	if ctx.Replay != "" {
		runReplay(ctx, ctx.Replay, r)
		ctx.Finish("replay", nil)
	}
	if dir := os.Getenv("VERIF_CORPUS"); dir != "" {
		files, _ := filepath.Glob(filepath.Join(dir, "*.json"))
		sort.Strings(files)
		for _, f := range files {
			runReplay(ctx, f, r)
			ctx.Cov.Count("corpus-files")
		}
	}
	// fixed scenarios: the late fork inside the finalized epoch (F1), for several sizes
	var cases []*bftsim.Case
	for _, p := range [][2]int{{4, 4}, {3, 3}, {7, 5}, {4, 8}} {
		cases = append(cases, &bftsim.Case{Kind: "script", Label: "late-fork-in-finalized-epoch", Script: lateForkInFinalizedEpoch(p[0], uint32(p[1]))})
	}
	nTree := ctx.Scale(900, 20000)
	for i := 0; i < nTree; i++ {
		cases = append(cases, &bftsim.Case{Kind: "script", Label: "tree", Script: bftsim.GenTree(r.Fork(uint64(i)), ctx.Thorough())})
	}
	nNet := ctx.Scale(150, 3000)
	for i := 0; i < nNet; i++ {
		cases = append(cases, &bftsim.Case{Kind: "script", Safety: true, Label: "net", Script: bftsim.GenNet(r.Fork(uint64(1_000_000+i)), ctx.Thorough())})
	}
	for lo := 0; lo < len(cases); lo += 400 {
		bftsim.RunCases(ctx, cases[lo:min(lo+400, len(cases))], nontrivial)
	}
	nJus := ctx.Scale(20000, 400000)
	for done := 0; done < nJus; done += 5000 {
		var cases []*JCase
		for i := 0; i < 5000 && done+i < nJus; i++ {
			cases = append(cases, genJus(r))
		}
		runJus(ctx, cases, r)
	}
	ctx.Finish("block trees (3-7 validators, epoch length 3-6, forks near the tip and deep inside old epochs, score ties, random COM bits, "+
		"partial participation) imported into two real engine+repository nodes in independent parent-before-child orders with duplicates, "+
		"restarts and own proposals; multi-node random histories; the F1 late-fork tree in four sizes; every event's (result, best, finalized, "+
		"justified, ShouldVote, block state) diffed against the extracted model; plus bft.justifier driven directly in vote-count and weight mode. "+
		"non-trivial = a tree with a fork on which some node's finality advanced (scripts) / >=3 signers with a COM/non-COM flip (justifier); "+
		"distinct = hash of the whole script / vote list",
		[]string{"engine-level simulation: blocks are really signed and stored in real repositories, but are not validated by consensus and carry no transactions",
			"PoA vote counting at engine level (forkConfig.FINALITY = 0, max-block-proposers fixed per run); the weight mode is exercised on bft.justifier directly",
			"validator set / weights fixed per run"})
}
