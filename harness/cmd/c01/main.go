// c01 — correspondence driver for property C01 (every block the packer produces is accepted, identically, by every
// validator; the verdict does not depend on caches, restarts, sibling counts or repetition).
// ChainGen grows chains with the real genesis / packer / consensus under drawn fork placements; every packed block
// (and sibling blocks by other proposers) is processed by a cold validator, the warm one that has followed the whole
// chain, a re-created one over the same database, with different conflict numbers, and twice; verdict, stage root,
// receipts root and gas are compared with each other and with the packer's.  The extracted Coq model (oracle/c01)
// judges the same block (`process`) and re-derives the packer's header (`pack_block`) from the parent view.
package main

import (
	"encoding/json"
	"fmt"
	"os"
	"path/filepath"
	"sort"
	"strings"

	"github.com/vechain/thor/v2/block"
	"github.com/vechain/thor/v2/chain"
	"github.com/vechain/thor/v2/consensus"
	"github.com/vechain/thor/v2/state"
	"github.com/vechain/thor/v2/thor"
	"github.com/vechain/thor/v2/tx"

	cg "verif/harness/internal/chaingen"
	"verif/harness/internal/hx"
)

type Replay struct {
	Spec     *cg.Spec `json:"spec"`
	Height   int      `json:"height"`             // stop after this height (0 = whole chain)
	Scenario string   `json:"scenario,omitempty"` // a directed scenario instead of a generated chain
}

// scoreZeroScenario replays, on the real packer and consensus, the PoS corner the Coq model exhibits
// (Properties/C01.v pos_score_zero_block_rejected): n equal-weight validators (n > 10000, proposer limit raised to n),
// every one but the proposer misses its slot, so online weight x 10000 < total weight, the scheduler's score rounds to 0,
// the packed block does not raise the total score and validators reject it.
func scoreZeroScenario(ctx *hx.Ctx) {
	const n = 10001
	spec := &cg.Spec{Seed: 7, PoS: true, NAuth: n, Blocks: 1, GenesisGL: 10_000_000, MBP: n}
	c, err := cg.New(spec)
	if err != nil {
		hx.Fatal("score-zero scenario: %v", err)
	}
	defer c.Close()
	parent := c.Best
	st, err := c.Pack(parent, 0, parent.Header.Timestamp()+uint64(n+2)*cg.Interval, nil, false, nil, 0)
	if err != nil {
		ctx.Cov.Count("scenario:pos-score-zero:packer-refuses")
		return
	}
	h := st.Block.Header()
	v := process(c.Cold(), parent, st.Block, h.Timestamp(), 0)
	ctx.Cov.Case("scenario:pos-score-zero", true, nil)
	ctx.Cov.Count(fmt.Sprintf("scenario:pos-score-zero:score=%d:%s", h.TotalScore()-parent.Header.TotalScore(), v.class))
	if v.class != "accept" {
		ctx.Violation("pos-score-zero:validator-rejects-packed-block", fmt.Sprintf("PoS, %d equal-weight validators, all but the proposer offline: "+
			"the real packer produces a block with total score %d = the parent's (score 0) and the real validator rejects it: %s [%s]",
			n, h.TotalScore(), v.class, v.msg), Replay{Spec: spec, Scenario: "pos-score-zero"}, true)
	}
}

type verdict struct {
	class string // accept | future | critical | other | panic
	root  thor.Bytes32
	rroot thor.Bytes32
	gas   uint64
	msg   string
}

func classOf(err error) string {
	switch {
	case err == nil:
		return "accept"
	case consensus.IsFutureBlock(err):
		return "future"
	case consensus.IsCritical(err):
		return "critical"
	}
	return "other"
}

func process(cons *consensus.Consensus, parent *chain.BlockSummary, b *block.Block, now uint64, conflicts uint32) (v verdict) {
	defer func() {
		if p := recover(); p != nil {
			v = verdict{class: "panic", msg: fmt.Sprint(p)}
		}
	}()
	var stage *state.Stage
	var rs tx.Receipts
	stage, rs, err := cons.Process(parent, b, now, conflicts)
	v.class = classOf(err)
	if err != nil {
		v.msg = err.Error()
		return
	}
	v.root = stage.Hash()
	v.rroot = rs.RootHash()
	for _, r := range rs {
		v.gas += r.GasUsed
	}
	return
}

type pending struct {
	line, want, what string
	height           int
}

// judge runs every validator variant on a packed block; returns a failure description ("" = property holds here).
type probes struct{ pre, postParent, post cg.CacheEntry }

func judge(ctx *hx.Ctx, c *cg.Chain, st *cg.Step, tag string, pr *probes) (string, string) {
	h := st.Block.Header()
	now := h.Timestamp()
	want := verdict{class: "accept", root: st.Stage.Hash(), rroot: st.Receipts.RootHash(), gas: h.GasUsed()}
	type variant struct {
		name string
		v    verdict
	}
	var vs []variant
	vs = append(vs, variant{"cold", process(c.Cold(), st.Parent, st.Block, now, 0)})
	pr.pre = cg.ProbeCache(c.Warm, st.Parent.Header.ID())
	vs = append(vs, variant{"warm", process(c.Warm, st.Parent, st.Block, now, st.Conflicts)})
	pr.postParent = cg.ProbeCache(c.Warm, st.Parent.Header.ID())
	pr.post = cg.ProbeCache(c.Warm, h.ID())
	vs = append(vs, variant{"warm-again", process(c.Warm, st.Parent, st.Block, now+uint64(c.R.Intn(1000)), st.Conflicts)})
	vs = append(vs, variant{"cold-conflicts", process(c.Cold(), st.Parent, st.Block, now, uint32(1+c.R.Intn(9)))})
	if rc, repo2, err := c.Restarted(); err == nil {
		ps, err := repo2.GetBlockSummary(st.Parent.Header.ID())
		if err == nil {
			vs = append(vs, variant{"restarted", process(rc, ps, st.Block, now, 0)})
		}
	}
	for _, x := range vs {
		ctx.Cov.Count("variant=" + x.name)
		if x.v.class != "accept" {
			return "validator-rejects-packed-block:" + x.name + ":" + x.v.class,
				fmt.Sprintf("%s validator rejects the packer's block #%d (%s): %s [%s]", x.name, h.Number(), tag, x.v.class, x.v.msg)
		}
		if x.v.root != want.root || x.v.rroot != want.rroot || x.v.gas != want.gas {
			return "validator-state-differs:" + x.name,
				fmt.Sprintf("%s validator computes root/receipts/gas %x/%x/%d, the packer %x/%x/%d at #%d", x.name,
					x.v.root[:4], x.v.rroot[:4], x.v.gas, want.root[:4], want.rroot[:4], want.gas, h.Number())
		}
	}
	return "", ""
}

func nontrivial(st *cg.Step) bool {
	return len(st.Block.Transactions()) >= 1 && len(st.Cands) > len(st.Block.Transactions())
}

func runChain(ctx *hx.Ctx, spec *cg.Spec, stop int, withOracle bool) {
	c, err := cg.New(spec)
	if err != nil {
		hx.Fatal("chaingen: %v (spec %+v)", err, spec)
	}
	defer c.Close()
	ctx.Cov.Count(fmt.Sprintf("forks:vip191=%s vip214=%s finality=%s galactica=%s", place(spec.VIP191, spec.Blocks), place(spec.VIP214, spec.Blocks),
		place(spec.FINALITY, spec.Blocks), place(spec.GALACTICA, spec.Blocks)))
	if spec.Transition {
		ctx.Cov.Count("chains:hayabusa-transition")
	} else if spec.PoS {
		ctx.Cov.Count("chains:pos-genesis")
	} else {
		ctx.Cov.Count("chains:poa")
	}
	var pend []pending
	lastN := -1
	lastKind := ""
	fail := func(class, msg string, height int, found bool) {
		ctx.Violation(class, msg, Replay{Spec: spec, Height: height}, found)
	}
	for hgt := 1; hgt <= spec.Blocks && (stop == 0 || hgt <= stop); hgt++ {
		st, err := c.Next()
		if err != nil {
			if err == cg.ErrNoProposer {
				ctx.Cov.Count("chain-stalled:no-proposer")
				break
			}
			fail("packer-error", fmt.Sprintf("the packer fails at #%d: %v", hgt, err), hgt, false)
			break
		}
		view, err := c.View(st.Parent)
		if err != nil {
			hx.Fatal("view: %v", err)
		}
		steps := []*cg.Step{st}
		// a sibling by another proposer on the same parent (stored as a non-best block with conflicts = 1)
		if len(c.Masters) > 1 && c.R.Chance(1, 5) {
			j := (st.Proposer + 1 + c.R.Intn(len(c.Masters)-1)) % len(c.Masters)
			if sb, err := c.Pack(st.Parent, j, st.Now+uint64(c.R.Intn(30)), nil, c.R.Bool(), c.GenTxs(st.Block.Header().Number()), 1); err == nil &&
				sb.Block.Header().ID() != st.Block.Header().ID() {
				steps = append(steps, sb)
				ctx.Cov.Count("sibling-blocks")
			}
		}
		for k, s := range steps {
			tag := "best"
			if k > 0 {
				tag = "sibling"
			}
			canon, _ := json.Marshal(struct {
				S *cg.Spec
				H int
				K int
			}{spec, hgt, k})
			ctx.Cov.Case(string(canon), nontrivial(s), nil)
			ctx.Cov.Count("kind=" + view.Kind)
			if view.Updates {
				ctx.Cov.Count("pos-housekeeping-with-updates")
			}
			if view.PoS && lastN >= 0 && lastN != len(view.Cands) {
				ctx.Cov.Count("pos-leader-group-size-changed")
			}
			if view.PoS {
				lastN = len(view.Cands)
			}
			if k == 0 {
				if view.PoS && lastKind != "" && lastKind != "POS" {
					ctx.Cov.Count("poa-to-pos-transition-inside-chain")
				}
				lastKind = view.Kind
				for _, cd := range view.Cands {
					if cd.Benef != nil {
						ctx.Cov.Count("pos-leader-with-contract-beneficiary")
						break
					}
				}
			}
			ri := 0
			for i, cd := range s.Cands {
				if s.AdoptErr[i] == "" {
					if strings.HasPrefix(cd.Kind, "staker") && s.Receipts[ri].Reverted {
						ctx.Cov.Count("tx:" + cd.Kind + ":reverted-in-vm")
					}
					ri++
				}
			}
			ctx.Cov.Bucket("candidates", len(view.Cands))
			ctx.Cov.Bucket("txs-in-block", len(s.Block.Transactions()))
			for i, cd := range s.Cands {
				cls := s.AdoptErr[i]
				if cls == "" {
					cls = "adopted"
				}
				ctx.Cov.Count("tx:" + cd.Kind + ":" + cls)
			}
			if gap := (s.Block.Header().Timestamp() - s.Parent.Header.Timestamp()) / cg.Interval; gap > 1 {
				ctx.Cov.Count("blocks-with-missed-slots")
			}
			var pr probes
			if class, msg := judge(ctx, c, s, tag, &pr); class != "" {
				fail(class, msg, hgt, true)
				return
			}
			// the cache model: one warm validation step (entry for the parent, fresh reads, updates, events -> entry for the block)
			var fresh *cg.PoAFresh
			if !view.PoS {
				fresh, err = c.PoAFreshAt(s.Parent)
				if err != nil {
					hx.Fatal("fresh reads: %v", err)
				}
				if fresh.Walk != fresh.Pick {
					fail("candidate-reads-differ", fmt.Sprintf("authority.Candidates (packer) gives [%s], AllCandidates+Pick (validator) gives [%s] at #%d", fresh.Walk, fresh.Pick, hgt), hgt, true)
					return
				}
				pend = append(pend, pending{fmt.Sprintf("K %x |%s", fresh.MBP, fresh.All), fresh.Walk + " ; " + fresh.Pick, "candidates", hgt})
			}
			signer, _ := s.Block.Header().Signer()
			ups := c.UpdatesFor(s.Parent, signer, s.Block.Header().Timestamp())
			cl, cw := c.CacheLines(view, fresh, s.Block, s.Receipts, ups, pr.pre, pr.postParent, pr.post)
			pend = append(pend, pending{cl, cw, "cache", hgt})
			if os.Getenv("VERIF_DEBUG") != "" {
				fmt.Fprintf(os.Stderr, "#%d k=%d signer=%x time=%d parent=%x blk=%x\n  line=%s\n  want=%s\n  txs=%d kinds=%v\n", hgt, k, signer[:4], s.Block.Header().Timestamp(), s.Parent.Header.ID().Bytes()[:6], s.Block.Header().ID().Bytes()[:6], cl, cw, len(s.Block.Transactions()), kindsOf(s))
			}
			ctx.Cov.Count("cache-entry-for-parent:" + pr.pre.Kind)
			ctx.Cov.Count("cache-entry-for-block:" + pr.post.Kind)
			ex := cg.ExecOf(s.Block, s.Receipts, s.Stage.Hash())
			pend = append(pend, pending{c.VLine(s.Parent, view, s.Block, s.Block.Header().Timestamp(), ex), "accept", "process", hgt})
			pend = append(pend, pending{c.PLine(s, view), cg.PExpected(s), "pack", hgt})
		}
		for k := len(steps) - 1; k >= 0; k-- { // siblings first, the best block last
			if err := c.Commit(steps[k], k == 0); err != nil {
				hx.Fatal("commit: %v", err)
			}
		}
	}
	if !withOracle {
		return
	}
	lines := make([]string, len(pend))
	for i, p := range pend {
		lines[i] = p.line
	}
	if len(lines) == 0 {
		return
	}
	ans, err := hx.AskAll(ctx.Oracle, lines)
	if err != nil {
		hx.Fatal("oracle: %v", err)
	}
	for i, p := range pend {
		got := strings.Join(strings.Fields(ans[i]), " ")
		wantN := strings.Join(strings.Fields(p.want), " ")
		if strings.HasPrefix(wantN, "proposers * |") {
			ctx.Cov.Count("sole-authority-node-steps(active flag not written by authority.Update)")
			if j := strings.Index(got, "|"); j >= 0 {
				got = "proposers * " + got[j:]
			}
		}
		if got != wantN {
			// the implementation's own answers satisfied the property on this block (judge passed): the model no longer
			// corresponds to the code.  Before settling for that, search for an input on which the property itself fails:
			// a budgeted targeted generation of chains of the same flavour, evaluated with the property predicates only.
			if targetedSearch(ctx, spec) {
				return
			}
			fail("correspondence:"+p.what, fmt.Sprintf("correspondence Validation.Body.%s ~ real %s no longer checks at #%d (the theorems of "+
				"Properties/C01.v are about the model): impl=%q model=%q line=%q", map[string]string{"process": "process", "pack": "pack_block", "candidates": "cands_walk/pick (Validation.Cache)", "cache": "poa_step/pos_step (Validation.Cache)"}[p.what],
				map[string]string{"process": "consensus.Process", "pack": "packer.Schedule/Adopt/Pack", "candidates": "authority.Candidates / scheduler.Candidates.Pick", "cache": "the validators cache (poaCacher/posCacher.Handle)"}[p.what], p.height, p.want, got, p.line), p.height, false)
			return
		}
	}
}

// targetedSearch: chains of the same flavour (PoA / PoS-genesis / transition) as the disagreeing one, longer, judged
// by the validator variants only (no oracle); true if a block on which the property fails was found (and reported).
func targetedSearch(ctx *hx.Ctx, like *cg.Spec) bool {
	r := hx.NewRand(like.Seed ^ 0x5eed)
	before := len(ctx.Violations) + len(ctx.KnownHits)
	for tried, ran := 0, 0; tried < 4000 && ran < 120; tried++ {
		sp := cg.GenSpec(r.Fork(uint64(tried)), 36)
		if sp.PoS != like.PoS || sp.Transition != like.Transition {
			continue
		}
		ran++
		ctx.Cov.Count("targeted-search-chains")
		runChain(ctx, sp, 0, false)
		if len(ctx.Violations)+len(ctx.KnownHits) > before {
			return true
		}
	}
	return false
}

func kindsOf(s *cg.Step) []string {
	var out []string
	for i, cd := range s.Cands {
		out = append(out, cd.Kind+":"+s.AdoptErr[i])
	}
	return out
}

func place(f uint32, blocks int) string {
	switch {
	case f == 0:
		return "0"
	case f == cg.Never:
		return "never"
	case int(f) <= blocks:
		return "inside"
	}
	return "after"
}

func main() {
	ctx := hx.Init("C01")
	rule := "ChainGen chains (real genesis.NewCustomNet + packer.Packer + consensus.Consensus over muxdb.NewMem): fork placements drawn in historical " +
		"order (each of VIP191/BLOCKLIST/ETH_IST/VIP214/FINALITY/GALACTICA at 0, inside, after the chain or never; PoS-from-genesis chains with " +
		"HAYABUSA=0), 1-7 authority/validator nodes (some with an under-funded endorsor), proposers at the slots the real scheduler gives them " +
		"(sometimes a later owner: missed slots), tx mixes (transfers, multi-clause, VTHO, reverting, delegated, dependent, typed/legacy, inadmissible, " +
		"endorsor drain/refill, authority add/revoke, params changes, contract creation), sibling blocks; every packed block judged by cold / warm / " +
		"warm-again / restarted / different-conflicts validators; non-trivial = block with at least one adopted and one refused candidate"
	assumptions := []string{
		"secp256k1 / VRF / Blake2b / ChaCha8 results are computed by the real libraries and handed to the model as data",
		"transaction execution, reward distribution and state staging are abstract in the model: the harness feeds the real receipts and roots",
		"PoA->PoS transition inside a chain is not generated (PoS chains start at genesis); blocklisted origins cannot be generated (no keys)",
	}
	if ctx.Replay != "" {
		b, err := os.ReadFile(ctx.Replay)
		if err != nil {
			hx.Fatal("%v", err)
		}
		var doc struct {
			Replay *Replay `json:"replay"`
		}
		if err := json.Unmarshal(b, &doc); err != nil || doc.Replay == nil || doc.Replay.Spec == nil {
			hx.Fatal("bad replay file: %v", err)
		}
		if doc.Replay.Scenario == "pos-score-zero" {
			scoreZeroScenario(ctx)
		} else {
			runChain(ctx, doc.Replay.Spec, doc.Replay.Height, true)
		}
		ctx.Finish("replay", assumptions)
	}
	if dir := os.Getenv("VERIF_CORPUS"); dir != "" && !cg.IsWorker() {
		files, _ := filepath.Glob(filepath.Join(dir, "*.json"))
		sort.Strings(files)
		for _, f := range files {
			b, err := os.ReadFile(f)
			if err != nil {
				continue
			}
			var doc struct {
				Replay *Replay `json:"replay"`
			}
			if json.Unmarshal(b, &doc) == nil && doc.Replay != nil && doc.Replay.Spec != nil {
				ctx.Cov.Count("corpus-cases")
				runChain(ctx, doc.Replay.Spec, doc.Replay.Height, true)
			}
		}
	}
	r := hx.NewRand(ctx.Seed)
	n := ctx.Scale(360, 3000)
	if ctx.Thorough() && !cg.IsWorker() {
		// bounded memory per process (see chaingen/shard.go) and parallel shards
		scoreZeroScenario(ctx)
		cg.RunShards(ctx, n, 150, 6)
		ctx.Finish(rule, assumptions)
	}
	if !cg.IsWorker() {
		scoreZeroScenario(ctx)
	}
	for i := 0; i < n && len(ctx.Violations) == 0; i++ {
		rr := r.Fork(uint64(i))
		if !cg.InShard(i) {
			continue
		}
		runChain(ctx, cg.GenSpec(rr, 24), 0, true)
	}
	ctx.Finish(rule, assumptions)
}
