// c20 — correspondence driver for property C20 (concurrent readers see a complete best block; finalized never goes
// backwards; read-only API operations leave the store unchanged and are race-free).
// A real node.Node (muxdb with the real trie cache over a recording LevelDB engine, logdb) imports generated chains
// (forks, reorganisations, epoch boundaries) through processBlock while
//   - free-running reader goroutines observe Repository.BestBlockSummary / bft Finalized / Justified and issue the real
//     REST handlers (accounts, code, storage, call simulation, blocks, log filters) at random revisions — the binary is
//     built with -race, a race report of the Go runtime is a violation;
//   - at EVERY atomic write of the importer (engine hook, importer paused) a reader reads the published best block
//     completely, checks the finalized pointer and runs the read-only operations between two digests of the whole store.
//
// The published (best, finalized) pair before every write is compared with the extracted Coq model's reader view.
package main

import (
	"bufio"
	"encoding/json"
	"fmt"
	"os"
	"os/exec"
	"path/filepath"
	"runtime"
	"runtime/debug"
	"runtime/pprof"
	"sort"
	"strings"
	"sync"

	"github.com/vechain/thor/v2/block"
	"github.com/vechain/thor/v2/genesis"
	"github.com/vechain/thor/v2/thor"

	"verif/harness/internal/crashsim"
	"verif/harness/internal/hx"
)

type replayDoc struct {
	Scenario *crashsim.Scenario `json:"scenario"`
	Write    int                `json:"write"`
	Note     string             `json:"note,omitempty"`
}

type finding struct {
	class, msg string
	write      int
}

type collector struct {
	mu sync.Mutex
	fs []finding
}

func (c *collector) add(class, msg string, write int) {
	c.mu.Lock()
	c.fs = append(c.fs, finding{class, msg, write})
	c.mu.Unlock()
}

// observe is one reader observation: the best block a reader sees must be completely readable, the finalized block too,
// and finalized must descend from the previously observed one.
func observe(n *crashsim.Node, prevFin *thor.Bytes32, col *collector, where string, write int) (best, fin thor.Bytes32) {
	sum := n.Repo.BestBlockSummary()
	best = sum.Header.ID()
	if _, err := n.ReadBlock(best); err != nil {
		col.add("best-incomplete", fmt.Sprintf("%s: best #%d observed but %v", where, sum.Header.Number(), err), write)
	}
	fin = n.BFT.Finalized()
	if fin != *prevFin {
		ok, err := n.Repo.NewChain(fin).HasBlock(*prevFin)
		if err != nil || !ok {
			col.add("finalized-backwards", fmt.Sprintf("%s: finalized moved from #%d to #%d which does not descend from it (%v)",
				where, block.Number(*prevFin), block.Number(fin), err), write)
		}
		if _, err := n.ReadBlock(fin); err != nil {
			col.add("finalized-incomplete", fmt.Sprintf("%s: finalized #%d: %v", where, block.Number(fin), err), write)
		}
		*prevFin = fin
	}
	if _, err := n.BFT.Justified(); err != nil {
		col.add("justified-error", fmt.Sprintf("%s: Justified(): %v", where, err), write)
	}
	return
}

func runScenario(ctx *hx.Ctx, w *crashsim.World, scn *crashsim.Scenario, source string, freeReaders int) {
	blocks, contracts := crashsim.ProduceAll(w, scn)
	n := w.NewNode(true)
	defer n.Close()
	api := n.NewAPI()
	col := &collector{}
	accs := genesis.DevAccounts()
	rnd := hx.NewRand(uint64(len(scn.Blocks))*7919 + 13)
	var contract *thor.Address
	if len(contracts) > 0 {
		contract = &contracts[0]
	}
	revisions := func(r *hx.Rand, storedIDs []thor.Bytes32) string {
		switch r.Intn(5) {
		case 0:
			return "best"
		case 1:
			return "justified"
		case 2:
			return "finalized"
		}
		if len(storedIDs) == 0 {
			return "best"
		}
		return storedIDs[r.Intn(len(storedIDs))].String()
	}

	// ---- free-running readers (race detector; completeness and monotone finalized under real concurrency)
	stop := make(chan struct{})
	var wg sync.WaitGroup
	var storedMu sync.Mutex
	var storedIDs []thor.Bytes32
	snapshotIDs := func() []thor.Bytes32 {
		storedMu.Lock()
		defer storedMu.Unlock()
		return append([]thor.Bytes32(nil), storedIDs...)
	}
	observations := make([]int, freeReaders)
	for r := 0; r < freeReaders; r++ {
		wg.Add(1)
		go func(r int) {
			defer wg.Done()
			rr := hx.NewRand(uint64(r) + 1000)
			prev := n.Genesis.Header().ID()
			for {
				select {
				case <-stop:
					return
				default:
				}
				observe(n, &prev, col, fmt.Sprintf("free reader %d", r), -1)
				if err := api.Queries(revisions(rr, snapshotIDs()), accs[rr.Intn(len(accs))].Address, contract); err != nil {
					col.add("query-fails", fmt.Sprintf("free reader %d: %v", r, err), -1)
				}
				observations[r]++
			}
		}(r)
	}

	// ---- a reader at every atomic write of the importer
	type view struct{ best, fin string }
	var views []view
	prevFin := n.Genesis.Header().ID()
	inHook := false
	n.Eng.BeforeWrite = func(idx int) {
		if inHook {
			return
		}
		inHook = true
		defer func() { inHook = false }()
		write := idx - n.Base
		d0, w0 := n.Eng.Digest(), n.Eng.Len()
		best, fin := observe(n, &prevFin, col, fmt.Sprintf("before write %d", write), write)
		views = append(views, view{hx.HexN(best[:]), hx.HexN(fin[:])})
		for _, rev := range []string{"best", "justified", "finalized", revisions(rnd, snapshotIDs())} {
			if err := api.Queries(rev, accs[rnd.Intn(len(accs))].Address, contract); err != nil {
				col.add("query-fails", fmt.Sprintf("before write %d: %v", write, err), write)
			}
		}
		if d1, w1 := n.Eng.Digest(), n.Eng.Len(); d0 != d1 || w0 != w1 {
			col.add("query-writes", fmt.Sprintf("before write %d: %d store write(s) were issued (content changed: %v) while only read-only operations ran", write, w1-w0, d0 != d1), write)
		}
	}
	// ---- and a reader in the window between repo.AddBlock and bft.CommitBlock (no store write falls into it): the new
	// block is already observed as best, its quality record does not exist yet
	n.BeforeCommit = func(h *block.Header) {
		if inHook {
			return
		}
		inHook = true
		defer func() { inHook = false }()
		where := fmt.Sprintf("between AddBlock and CommitBlock of block #%d", h.Number())
		d0, w0 := n.Eng.Digest(), n.Eng.Len()
		observe(n, &prevFin, col, where, w0-n.Base)
		for _, rev := range []string{"justified", "best", "finalized"} {
			if err := api.Queries(rev, accs[rnd.Intn(len(accs))].Address, contract); err != nil {
				col.add("query-fails", where+": "+err.Error(), w0-n.Base)
			}
		}
		if d1, w1 := n.Eng.Digest(), n.Eng.Len(); d0 != d1 || w0 != w1 {
			col.add("query-writes", fmt.Sprintf("%s: %d store write(s) were issued (content changed: %v) while only read-only operations ran", where, w1-w0, d0 != d1), w0-n.Base)
		}
	}
	// ---- the importer
	var lines []string
	gl, _, _, err := n.Describe(n.Genesis, n.Eng.Log(0, n.Base), true)
	if err != nil {
		hx.Fatal("describe genesis: %v", err)
	}
	lines = append(lines, fmt.Sprintf("G %x | %s", w.Cfg.L, gl))
	imports, reorgs := 0, 0
	for _, idx := range scn.Deliver {
		if idx < 0 || idx >= len(blocks) || blocks[idx] == nil {
			continue
		}
		b := blocks[idx]
		id := b.Header().ID()
		_, errBefore := n.Repo.GetBlockSummary(id)
		bestBefore := n.Repo.BestBlockSummary().Header.ID()
		from := n.Eng.Len()
		if _, err := n.Import(b); err != nil {
			col.add("import-error", fmt.Sprintf("import of block #%d: %v", b.Header().Number(), err), from-n.Base)
		}
		_, errAfter := n.Repo.GetBlockSummary(id)
		stored := errBefore != nil && errAfter == nil
		if stored {
			storedMu.Lock()
			storedIDs = append(storedIDs, id)
			storedMu.Unlock()
			if nb := n.Repo.BestBlockSummary().Header; nb.ID() == id && nb.ParentID() != bestBefore {
				reorgs++
			}
		}
		imports++
		// the descriptor is taken with the hook off (Describe reads the block back)
		hook := n.Eng.BeforeWrite
		n.Eng.BeforeWrite = nil
		line, _, _, err := n.Describe(b, n.Eng.Log(from, n.Eng.Len()), stored)
		n.Eng.BeforeWrite = hook
		if err != nil {
			col.add("best-incomplete", "the importing node cannot read a block it stored: "+err.Error(), from-n.Base)
			break
		}
		lines = append(lines, "I "+line)
	}
	n.Eng.BeforeWrite = nil
	n.BeforeCommit = nil
	close(stop)
	wg.Wait()
	fb, ff := n.Repo.BestBlockSummary().Header.ID(), n.BFT.Finalized()
	views = append(views, view{hx.HexN(fb[:]), hx.HexN(ff[:])})

	// ---- read-only operations on a crash image cut between the block bulk and the quality record of a store point
	log := n.Eng.Log(0, n.Eng.Len())
	images := 0
	for k := n.Base + 1; k < len(log); k++ {
		if !strings.HasPrefix(crashsim.BatchKind(log[k]), crashsim.SpQuality) || images >= 3 {
			continue
		}
		images++
		eng := crashsim.FromLog(log[:k])
		cn, err := w.Reopen(eng, n.Genesis, true)
		if err != nil {
			col.add("restart-fails", err.Error(), k-n.Base)
			eng.Close()
			continue
		}
		capi := cn.NewAPI()
		d0, w0 := eng.Digest(), eng.Len()
		for _, rev := range []string{"best", "justified", "finalized"} {
			if err := capi.Queries(rev, accs[0].Address, contract); err != nil {
				col.add("query-fails", fmt.Sprintf("crash image at write %d: %v", k-n.Base, err), k-n.Base)
			}
		}
		if _, err := cn.BFT.Justified(); err != nil {
			col.add("justified-error", fmt.Sprintf("crash image at write %d: %v", k-n.Base, err), k-n.Base)
		}
		if d1, w1 := eng.Digest(), eng.Len(); d0 != d1 || w0 != w1 {
			col.add("query-writes", fmt.Sprintf("crash image at write %d (block stored, quality record not yet): %d store write(s) (content changed: %v) while only read-only operations ran", k-n.Base, w1-w0, d0 != d1), k-n.Base)
		}
		cn.Close()
	}

	// ---- the model's reader view
	lines = append(lines, "B", "Q")
	ans, err := hx.AskAll(ctx.Oracle, lines)
	if err != nil {
		hx.Fatal("oracle: %v", err)
	}
	report := func(class, msg string, write int, found bool) {
		ctx.Violation(class, msg, replayDoc{Scenario: scn, Write: write, Note: source}, found)
	}
	for _, f := range col.fs {
		report(f.class, f.msg, f.write, true)
	}
	mv := strings.Fields(ans[len(ans)-2])
	if len(mv) != len(views) {
		report("model-reader-view", fmt.Sprintf("the node issued %d writes, the model %d", len(views)-1, len(mv)-1), -1, false)
	} else {
		for i, v := range views {
			want := v.best + "/" + v.fin + "/1"
			if mv[i] != want {
				report("model-reader-view", fmt.Sprintf("before write %d: readers see best/finalized %s, the model %s", i, want, mv[i]), i, false)
				break
			}
		}
	}
	if ans[len(ans)-1] != "0" {
		report("model-query-writes", "the model's read-only operations issue "+ans[len(ans)-1]+" writes", -1, false)
	}
	total := 0
	for _, o := range observations {
		total += o
	}
	canon, _ := json.Marshal(scn)
	ctx.Cov.Case(string(canon), imports >= 8 && len(views) > 40 && total > 0, map[string]any{"imports": imports, "writes": len(views) - 1,
		"reorgs": reorgs, "free_reader_observations": total, "crash_images": images})
	ctx.Cov.Add("writes-with-a-paused-reader", len(views)-1)
	ctx.Cov.Add("free-reader-observations", total)
	ctx.Cov.Add("reorgs", reorgs)
	ctx.Cov.Add("imports", imports)
	ctx.Cov.Add("crash-images-queried", images)
}

func loadReplay(path string) (*crashsim.Scenario, error) {
	b, err := os.ReadFile(path)
	if err != nil {
		return nil, err
	}
	var doc struct {
		Replay   *replayDoc         `json:"replay"`
		Scenario *crashsim.Scenario `json:"scenario"`
	}
	if err := json.Unmarshal(b, &doc); err != nil {
		return nil, err
	}
	if doc.Replay != nil && doc.Replay.Scenario != nil {
		return doc.Replay.Scenario, nil
	}
	if doc.Scenario != nil {
		return doc.Scenario, nil
	}
	return nil, fmt.Errorf("no scenario in %s", path)
}

// reexecWithRaceLog runs this binary again with GORACE pointing the race detector's reports to a file and
// not aborting the run; the child's reports are turned into a violation by the parent's child (see main).
func reexecWithRaceLog() {
	dir, _ := os.MkdirTemp("", "c20race")
	logPath := filepath.Join(dir, "race")
	cmd := exec.Command(os.Args[0], os.Args[1:]...)
	cmd.Env = append(os.Environ(), "GORACE=log_path="+logPath+" halt_on_error=0 exitcode=0", "VERIF_C20_RACELOG="+logPath)
	cmd.Stdout, cmd.Stderr = os.Stdout, os.Stderr
	err := cmd.Run()
	os.RemoveAll(dir)
	if err != nil {
		if ee, ok := err.(*exec.ExitError); ok {
			os.Exit(ee.ExitCode())
		}
		os.Exit(2)
	}
	os.Exit(0)
}

// eachRaceReport streams the race detector's log files and calls f once per report (the logs of a thorough run hold
// tens of thousands of reports of the two known classes: reading them whole cost tens of GB).
func eachRaceReport(logPath string, f func(report string)) {
	files, _ := filepath.Glob(logPath + ".*")
	sort.Strings(files)
	for _, name := range files {
		fh, err := os.Open(name)
		if err != nil {
			continue
		}
		sc := bufio.NewScanner(fh)
		sc.Buffer(make([]byte, 1<<20), 1<<24)
		var cur strings.Builder
		in := false
		flush := func() {
			if in && cur.Len() > 0 {
				f(cur.String())
			}
			cur.Reset()
		}
		for sc.Scan() {
			line := sc.Text()
			if strings.Contains(line, "WARNING: DATA RACE") {
				flush()
				in = true
				continue
			}
			if in && cur.Len() < 64<<10 {
				cur.WriteString(line)
				cur.WriteByte('\n')
			}
		}
		flush()
		fh.Close()
	}
}

// raceSites lists the functions of the two conflicting accesses of a report (coverage only).
func raceSites(report string) string {
	var tops []string
	lines := strings.Split(report, "\n")
	for i, l := range lines {
		t := strings.TrimSpace(l)
		if (strings.HasPrefix(t, "Write at") || strings.HasPrefix(t, "Read at") || strings.HasPrefix(t, "Previous write at") ||
			strings.HasPrefix(t, "Previous read at")) && i+1 < len(lines) {
			f := strings.TrimSpace(lines[i+1])
			if j := strings.LastIndex(f, "/"); j >= 0 {
				f = f[j+1:]
			}
			tops = append(tops, f)
		}
	}
	return strings.Join(tops, "|")
}

// raceClass names a race report by the functions of its two conflicting accesses.
func raceClass(report string) string {
	var tops []string
	lines := strings.Split(report, "\n")
	for i, l := range lines {
		t := strings.TrimSpace(l)
		if (strings.HasPrefix(t, "Write at") || strings.HasPrefix(t, "Read at") || strings.HasPrefix(t, "Previous write at") ||
			strings.HasPrefix(t, "Previous read at") || strings.HasPrefix(t, "Atomic") || strings.HasPrefix(t, "Previous atomic")) && i+1 < len(lines) {
			f := strings.TrimSpace(lines[i+1])
			if j := strings.LastIndex(f, "("); j > 0 && strings.HasSuffix(f, ")") {
				f = f[:j]
			}
			tops = append(tops, f)
		}
	}
	// F9: both accesses are directcache's entry header accessors (AddFlag writes the flag byte, lw / AddFlag read it)
	isEntry := func(f string) bool {
		return f == "github.com/qianbin/directcache.entry.AddFlag" || f == "github.com/qianbin/directcache.entry.lw" ||
			f == "github.com/qianbin/directcache.entry.HasFlag" || f == "github.com/qianbin/directcache.entry.kw" || f == "github.com/qianbin/directcache.entry.vw"
	}
	// F10: one access is the hasher storing / testing the cached hash of a node, the other reads the same node's flags
	// (cache(), copy(), or the hasher of another trie instance sharing the node)
	isHasher := func(f string) bool { return f == "github.com/vechain/thor/v2/trie.(*hasher).hash" }
	isNodeFlags := func(f string) bool {
		switch f {
		case "github.com/vechain/thor/v2/trie.(*shortNode).cache", "github.com/vechain/thor/v2/trie.(*fullNode).cache",
			"github.com/vechain/thor/v2/trie.(*shortNode).copy", "github.com/vechain/thor/v2/trie.(*fullNode).copy",
			"github.com/vechain/thor/v2/trie.(*hasher).hash":
			return true
		}
		return false
	}
	if len(tops) == 2 {
		switch {
		case isEntry(tops[0]) && isEntry(tops[1]) && (strings.HasSuffix(tops[0], ".AddFlag") || strings.HasSuffix(tops[1], ".AddFlag")):
			return "data-race:directcache-entry-flags"
		case (isHasher(tops[0]) && isNodeFlags(tops[1])) || (isHasher(tops[1]) && isNodeFlags(tops[0])):
			return "data-race:trie-hash-cached-in-shared-node"
		}
	}
	sort.Strings(tops)
	for i := range tops {
		if j := strings.LastIndex(tops[i], "/"); j >= 0 {
			tops[i] = tops[i][j+1:]
		}
	}
	return "data-race:" + strings.Join(tops, "|")
}

func main() {
	if os.Getenv("VERIF_C20_RACELOG") == "" && os.Getenv("VERIF_C20_NOREEXEC") == "" {
		reexecWithRaceLog()
	}
	ctx := hx.Init("C20")
	worldOf := func(scn *crashsim.Scenario) *crashsim.World {
		cfg := crashsim.Config{N: scn.N, L: scn.L}
		if cfg.N == 0 || cfg.L == 0 {
			cfg = crashsim.Config{N: 3, L: 4}
		}
		return crashsim.TheWorld(cfg)
	}
	readers := 4
	if ctx.Replay != "" {
		scn, err := loadReplay(ctx.Replay)
		if err != nil {
			hx.Fatal("replay: %v", err)
		}
		runScenario(ctx, worldOf(scn), scn, "replay", readers)
	} else {
		if dir := os.Getenv("VERIF_CORPUS"); dir != "" {
			files, _ := filepath.Glob(filepath.Join(dir, "*.json"))
			sort.Strings(files)
			for _, f := range files {
				if scn, err := loadReplay(f); err == nil {
					runScenario(ctx, worldOf(scn), scn, "corpus:"+filepath.Base(f), readers)
				}
			}
		}
		rnd := hx.NewRand(ctx.Seed)
		// 24 chains in the thorough tier: the race detector's own memory grows by about 250 MB per chain and is never
		// returned (Go heap stays below 0.5 GB); 40 chains peaked above 9 GB resident, 28 at 8.3 GB
		chains := ctx.Scale(4, 24)
		for i := 0; i < chains; i++ {
			// epoch lengths 2..8, 3..7 validators; the first four chains fix the corners
			cfg := crashsim.Config{L: uint32(rnd.Range(2, 8)), N: rnd.Range(3, 7)}
			switch i {
			case 0:
				cfg = crashsim.Config{L: 4, N: 3}
			case 1:
				cfg = crashsim.Config{L: 2, N: 4}
			case 2:
				cfg = crashsim.Config{L: 8, N: 7}
			case 3:
				cfg = crashsim.Config{L: 3, N: 5}
			}
			mainLen := min(rnd.Range(4*int(cfg.L), 6*int(cfg.L)), 34)
			scn := crashsim.Gen(rnd.Fork(uint64(i)), cfg, mainLen)
			ctx.Cov.Count(fmt.Sprintf("config:L=%d,N=%d", cfg.L, cfg.N))
			runScenario(ctx, crashsim.TheWorld(cfg), scn, fmt.Sprintf("seed %d chain %d", ctx.Seed, i), readers)
			debug.FreeOSMemory()
			if os.Getenv("VERIF_MEMSTAT") != "" {
				var ms runtime.MemStats
				runtime.ReadMemStats(&ms)
				statm, _ := os.ReadFile("/proc/self/statm")
				fmt.Fprintf(os.Stderr, "memstat chain %d: heap-inuse %d MB, heap-sys %d MB, goroutines %d, statm %s", i, ms.HeapInuse>>20, ms.HeapSys>>20, runtime.NumGoroutine(), statm)
			}
		}
	}
	if os.Getenv("VERIF_MEMSTAT") != "" {
		pprof.Lookup("goroutine").WriteTo(os.Stderr, 1)
	}
	if lp := os.Getenv("VERIF_C20_RACELOG"); lp != "" {
		count := map[string]int{}
		first := map[string]string{}
		eachRaceReport(lp, func(one string) {
			c := raceClass(one)
			if count[c] == 0 {
				if len(one) > 5000 {
					one = one[:5000]
				}
				first[c] = one
			}
			count[c]++
			ctx.Cov.Count("race-sites:" + raceSites(one))
		})
		for _, c := range hx.SortedKeys(count) {
			ctx.Cov.Add("race-reports:"+c, count[c])
			ctx.Violation(c, fmt.Sprintf("the Go race detector reported %d data race(s) of this class while readers ran against the importer; first report:\n%s", count[c], first[c]),
				map[string]any{"seed": ctx.Seed, "tier": ctx.Tier, "how": "run harness/bin/*/c20 (built with -race) with this seed"}, true)
		}
	}
	ctx.Finish("distinct scenarios (canonical JSON); non-trivial = at least 8 imports, more than 40 atomic writes each observed by a paused reader, and free-running readers made observations",
		[]string{
			"readers run against the in-process objects the API server uses (Repository, bft.Engine, Stater, LogDB, the REST handlers served in-process), not over TCP",
			"data races: the Gallina model is sequentially consistent; this clause rests on the Go race detector over the generated schedules (supporting evidence, not proof)",
			"bft.Engine is documented 'not thread-safe'; Finalized/Justified are the two methods the API calls concurrently and the only ones readers call here",
			"trie premise wf_blk and tally flags as for C13",
		})
}
