package main

// The premise `tip_rule` of reader_converges ("a block whose parent is the current best block becomes best"), checked on
// the REAL fork choice: random block trees (any parent, total score strictly above the parent's as consensus requires,
// random signers and COM bits, equivocating siblings) are imported into a node with a real bft.Engine
// (bftsim: Accepts / Select / AddBlock(becomeBest) / CommitBlock, FINALITY at 0, short epochs so that qualities move);
// after every import: if the parent was the best block, the new block must now be best; and at all times no stored
// block descends from best without being best (the invariant best_tip of Chain/ProofsSys.v).

import (
	"fmt"

	"github.com/vechain/thor/v2/block"
	"github.com/vechain/thor/v2/thor"

	"verif/harness/internal/bftsim"
	"verif/harness/internal/hx"
)

func tipRuleCheck(ctx *hx.Ctx, r *hx.Rand, trees int) {
	for t := 0; t < trees; t++ {
		sim := bftsim.NewSim(bftsim.Config{N: 4, L: uint32(r.Range(3, 6)), MBP: 4})
		nd := sim.NewNode(0)
		headers := []*block.Header{sim.Genesis.Header()}
		parentOf := map[thor.Bytes32]thor.Bytes32{}
		n := r.Range(20, 70)
		var trace []string
		for i := 0; i < n; i++ {
			var p *block.Header
			switch r.Intn(4) {
			case 0:
				p = headers[r.Intn(len(headers))]
			default: // mostly extend the best block or a recent one
				if r.Chance(2, 3) {
					p = nd.Repo.BestBlockSummary().Header
				} else {
					p = headers[len(headers)-1-r.Intn(min(len(headers), 4))]
				}
			}
			b := sim.MakeBlock(p, r.Intn(4), r.Bool(), p.TotalScore()+uint64(r.Range(1, 3)), uint64(r.Intn(3)))
			prevBest := nd.Repo.BestBlockSummary().Header.ID()
			code, err := nd.Import(b)
			if err != nil {
				hx.Fatal("tip-rule run: %v", err)
			}
			trace = append(trace, fmt.Sprintf("import #%d parent=#%d score=%d -> code %d best=#%d", b.Header().Number(), p.Number(), b.Header().TotalScore(), code, nd.Repo.BestBlockSummary().Header.Number()))
			ctx.Cov.Count(fmt.Sprintf("tiprule:import-code=%d", code))
			if code != bftsim.CodeOK && code < bftsim.CodeCommitErr {
				continue // known / parent missing / refused by Accepts: not stored
			}
			headers = append(headers, b.Header())
			parentOf[b.Header().ID()] = p.ID()
			best := nd.Repo.BestBlockSummary().Header.ID()
			if p.ID() == prevBest {
				ctx.Cov.Count("tiprule:child-of-best")
				if best != b.Header().ID() {
					ctx.Violation("property:child-of-best-not-best",
						fmt.Sprintf("a block whose parent was the best block did not become best (premise of reader_converges): %s", trace[len(trace)-1]),
						map[string]any{"trace": trace}, true)
					return
				}
			}
			// best_tip: nothing stored descends from best
			for _, h := range headers {
				for x, ok := parentOf[h.ID()], true; ok; x, ok = parentOf[x] {
					if x == best {
						ctx.Violation("property:stored-block-below-best",
							fmt.Sprintf("stored block #%d descends from the best block without being best: %s", h.Number(), trace[len(trace)-1]),
							map[string]any{"trace": trace}, true)
						return
					}
				}
			}
		}
		nd.DB.Close()
		ctx.Cov.Case(fmt.Sprintf("tiprule|%v", trace), true, nil)
	}
}
