// Command c14: correspondence and property search for C14 (block store answers by-number, by-id and stream
// queries per branch correctly).  Fork trees are grown on a real chain.Repository; after every added block a
// sample of (head, height), Exclude, heads/conflicts queries and BlockReader steps is compared with the extracted
// Chain.Model, and the property's own predicates are evaluated against the harness's bookkeeping of the tree.
package main

import (
	"fmt"
	"os"

	"verif/harness/internal/chainsim"
	"verif/harness/internal/hx"
)

var mode = chainsim.Mode{Index: true, Streams: true, Lookups: false}

const theorems = "index_is_ancestry, exclude_is_difference, reader_converges of Properties/C14.v"

func runOne(ctx *hx.Ctx, scn *chainsim.Scenario, count bool) {
	cov := ctx.Cov
	if !count {
		cov = nil
	}
	mode := mode
	if scn.Shape == "deep" {
		// "a transaction or receipt found by id belongs to that head's chain": lookups by id on trees whose heights exceed
		// 255, where the uvarint block numbers inside the tx-index keys stop sorting numerically
		mode = chainsim.Mode{Index: true, Lookups: true}
	}
	out := chainsim.Execute(scn, mode, ctx.Oracle, cov)
	if count {
		depth, forks, _ := chainsim.Stats(scn)
		ctx.Cov.Case(chainsim.Canonical(scn), forks >= 2 && depth >= 3, map[string]any{"shape": scn.Shape, "blocks": len(scn.Blocks), "depth": depth, "fork_points": forks})
		ctx.Cov.Count("shape=" + scn.Shape)
		ctx.Cov.Bucket("blocks", len(scn.Blocks))
		ctx.Cov.Bucket("depth", depth)
		ctx.Cov.Bucket("fork_points", forks)
		ctx.Cov.Add("requests", out.Queries)
	}
	chainsim.Report(ctx, scn, mode, out, theorems)
}

func main() {
	ctx := hx.Init("C14")
	if ctx.Replay != "" {
		scn, err := chainsim.LoadReplay(ctx.Replay)
		if err != nil {
			hx.Fatal("bad replay file: %v", err)
		}
		runOne(ctx, scn, true)
		ctx.Finish("replay", nil)
	}
	for _, f := range chainsim.Corpus(os.Getenv("VERIF_CORPUS")) {
		if scn, err := chainsim.LoadReplay(f); err == nil {
			runOne(ctx, scn, true)
			ctx.Cov.Count("corpus")
		}
	}
	r := hx.NewRand(ctx.Seed)
	nTip := ctx.Scale(60, 1000)
	tipRuleCheck(ctx, r.Fork(7000000), nTip)
	ctx.Cov.Add("tiprule-trees", nTip)
	nBushy, nLong := ctx.Scale(700, 6000), ctx.Scale(60, 500)
	for i := 0; i < nBushy; i++ {
		runOne(ctx, chainsim.GenBushy(r.Fork(uint64(i)), chainsim.GenOpts{Logs: i%2 == 0}), true)
	}
	for i := 0; i < nLong; i++ {
		rr := r.Fork(uint64(1000000 + i))
		runOne(ctx, chainsim.GenLong(rr, chainsim.GenOpts{Logs: i%3 == 0}, rr.Range(30, 140)), true)
	}
	nDeep := ctx.Scale(3, 30)
	for i := 0; i < nDeep; i++ {
		runOne(ctx, chainsim.GenDeep(r.Fork(uint64(2000000+i)), chainsim.GenOpts{}), true)
	}
	ctx.Finish(fmt.Sprintf("fork trees on a real chain.Repository over muxdb.NewMem: %d bushy (8-60 blocks, many siblings per height, best set "+
		"on higher/equal/lower blocks) + %d long (30-140 deep trunk with early/late side branches); after every AddBlock: GetBlockID for "+
		"sampled (head, height), HasBlock, Exclude on head pairs, ScanHeads/ScanConflicts/GetConflicts, BlockReaders started at random known "+
		"blocks stepped 1-3 reads between best changes; full sweep and reader drain at the end; non-trivial = at least two fork points and depth >= 3",
		nBushy, nLong),
		[]string{"block ids, signatures and the conflicts ordinal (ScanConflicts, as the node's guard assigns it) come from the real code and are passed to the model as data",
			"the index trie and LevelDB are modelled by what they denote (maps); their storage is the concern of C06/C12"})
}
