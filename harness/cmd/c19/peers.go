package main

import (
	"bytes"
	"fmt"
	"io"
	"sync"

	"github.com/ethereum/go-ethereum/rlp"

	"github.com/vechain/thor/v2/chain"
	"github.com/vechain/thor/v2/comm"
	"github.com/vechain/thor/v2/comm/proto"
	"github.com/vechain/thor/v2/p2p"
	"github.com/vechain/thor/v2/p2p/discover"
	"github.com/vechain/thor/v2/p2psrv/rpc"
	"github.com/vechain/thor/v2/txpool"
)

// tapRW records the block numbers of the outgoing MsgGetBlockIDByNumber / MsgGetBlocksFromNumber calls
// (the probe sequence of the ancestor search as seen on the wire).
type tapRW struct {
	p2p.MsgReadWriter
	mu      sync.Mutex
	probes  []uint32
	fetches []uint32
}

func (t *tapRW) WriteMsg(msg p2p.Msg) error {
	if msg.Code == proto.MsgGetBlockIDByNumber || msg.Code == proto.MsgGetBlocksFromNumber {
		raw, err := io.ReadAll(msg.Payload)
		if err != nil {
			return err
		}
		var call struct {
			ID       uint32
			IsResult bool
			Num      uint32
		}
		if rlp.DecodeBytes(raw, &call) == nil && !call.IsResult {
			t.mu.Lock()
			if msg.Code == proto.MsgGetBlockIDByNumber {
				t.probes = append(t.probes, call.Num)
			} else {
				t.fetches = append(t.fetches, call.Num)
			}
			t.mu.Unlock()
		}
		msg.Payload = bytes.NewReader(raw)
	}
	return t.MsgReadWriter.WriteMsg(msg)
}

// chanPipe is an in-process message pipe that delivers messages the way the rlpx transport does: the payload
// is a *bytes.Reader over the whole frame and Size is its length.  (p2p.MsgPipe wraps the payload in a plain
// io.Reader; rpc.Serve parses the envelope and the handler the argument with two rlp streams over the same reader,
// which only works for a reader that is not buffered by rlp.NewStream, i.e. a ByteReader like the real transport's.)
type chanPipe struct {
	w       chan<- p2p.Msg
	r       <-chan p2p.Msg
	closing chan struct{}
	once    *sync.Once
}

var errPipeClosed = fmt.Errorf("pipe closed")

func newPipe() (*chanPipe, *chanPipe) {
	c1, c2 := make(chan p2p.Msg, 64), make(chan p2p.Msg, 64)
	closing := make(chan struct{})
	once := &sync.Once{}
	return &chanPipe{c1, c2, closing, once}, &chanPipe{c2, c1, closing, once}
}

func (p *chanPipe) WriteMsg(msg p2p.Msg) error {
	raw, err := io.ReadAll(msg.Payload)
	if err != nil {
		return err
	}
	select {
	case <-p.closing:
		return errPipeClosed
	default:
	}
	select {
	case p.w <- p2p.Msg{Code: msg.Code, Size: uint32(len(raw)), Payload: bytes.NewReader(raw)}:
		return nil
	case <-p.closing:
		return errPipeClosed
	}
}

func (p *chanPipe) ReadMsg() (p2p.Msg, error) {
	select {
	case <-p.closing:
		return p2p.Msg{}, errPipeClosed
	default:
	}
	select {
	case m := <-p.r:
		return m, nil
	case <-p.closing:
		return p2p.Msg{}, errPipeClosed
	}
}

func (p *chanPipe) Close() error { p.once.Do(func() { close(p.closing) }); return nil }

// link is one in-process connection: `local` is the syncing side's *comm.Peer (its Serve loop running, it serves
// nothing), the other end is served by `serve`.
type link struct {
	local  *comm.Peer
	tap    *tapRW
	a, b   *chanPipe
	wg     sync.WaitGroup
	srvErr error
}

func newLink(serve func(rw p2p.MsgReadWriter) error) *link {
	a, b := newPipe()
	l := &link{a: a, b: b}
	l.tap = &tapRW{MsgReadWriter: a}
	l.local = comm.VerifNewPeer(l.tap)
	l.wg.Add(2)
	go func() {
		defer l.wg.Done()
		_ = l.local.Serve(func(msg *p2p.Msg, w func(any)) error {
			return fmt.Errorf("syncing side serves nothing (code %d)", msg.Code)
		}, proto.MaxMsgSize)
	}()
	go func() {
		defer l.wg.Done()
		l.srvErr = serve(b)
		// the remote dropped us: closing the pipe ends the local Serve loop (peer disconnected)
		b.Close()
	}()
	return l
}

func (l *link) close() {
	l.a.Close()
	l.b.Close()
	l.wg.Wait()
}

// honestRemote serves the remote repo with the REAL handler of a real Communicator.
func honestRemote(repo *chain.Repository, pool *txpool.TxPool) func(rw p2p.MsgReadWriter) error {
	c := comm.New(repo, pool)
	return func(rw p2p.MsgReadWriter) error {
		peer := comm.VerifNewPeer(rw)
		return peer.Serve(c.VerifHandler(peer), proto.MaxMsgSize)
	}
}

// scriptedRemote answers with whatever the script says (hostile peer). Unknown requests fail the connection.
type script struct {
	ids     map[uint32]any              // answer to GetBlockIDByNumber (thor.Bytes32) ; missing = zero id
	batches map[uint32][]rlp.RawValue   // answer to GetBlocksFromNumber ; missing = empty
	failAt  map[uint32]bool             // GetBlocksFromNumber(num) drops the connection
	mu      sync.Mutex
	asked   []uint32
}

func (s *script) serve(rw p2p.MsgReadWriter) error {
	r := rpc.New(p2p.NewPeer(discover.NodeID{}, "hostile", nil), rw)
	return r.Serve(func(msg *p2p.Msg, w func(any)) error {
		switch msg.Code {
		case proto.MsgGetBlockIDByNumber:
			var num uint32
			if err := msg.Decode(&num); err != nil {
				return err
			}
			if v, ok := s.ids[num]; ok {
				w(v)
			} else {
				w([32]byte{})
			}
		case proto.MsgGetBlocksFromNumber:
			var num uint32
			if err := msg.Decode(&num); err != nil {
				return err
			}
			s.mu.Lock()
			s.asked = append(s.asked, num)
			s.mu.Unlock()
			if s.failAt[num] {
				return fmt.Errorf("scripted failure")
			}
			w(s.batches[num])
		default:
			return fmt.Errorf("unexpected call %d", msg.Code)
		}
		return nil
	}, proto.MaxMsgSize)
}
