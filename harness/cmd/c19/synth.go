package main

import (
	"context"
	"encoding/binary"
	"fmt"
	"math/bits"
	"strings"
	"time"

	"github.com/ethereum/go-ethereum/rlp"

	"github.com/vechain/thor/v2/block"
	"github.com/vechain/thor/v2/chain"
	"github.com/vechain/thor/v2/comm"
	"github.com/vechain/thor/v2/comm/proto"
	"github.com/vechain/thor/v2/muxdb"
	"github.com/vechain/thor/v2/p2p"
	"github.com/vechain/thor/v2/p2p/discover"
	"github.com/vechain/thor/v2/p2psrv/rpc"
	"github.com/vechain/thor/v2/state"
	"github.com/vechain/thor/v2/thor"
	"github.com/vechain/thor/v2/trie"

	"verif/harness/internal/hx"
)

// ================================================================ D. synthetic overlap: large heads
//
// The REAL findCommonAncestor runs against a REAL chain.Repository opened over a crafted database: the best block
// summary names a head of arbitrary height (up to 2^31-1) and the index trie (number -> id, what
// Chain.GetBlockID reads) holds entries only at the heights the search looks at. The peer is a stub answering
// GetBlockIDByNumber from a predicate "same id iff n <= L", optionally inverted at some heights (inconsistent peer)
// or failing at some heights. Ancestor, failure and probe sequence are compared with the extracted model; for the
// monotone cases the ancestor is also compared with L itself (the property's own predicate).

type SynthCase struct {
	Kind  string   `json:"kind"` // "synth"
	Head  uint32   `json:"head"`
	L     uint32   `json:"last_common"`
	Flips []uint32 `json:"flips,omitempty"`
	Fails []uint32 `json:"fails,omitempty"`
}

func synthID(tag byte, n uint32) (id thor.Bytes32) {
	h := thor.Blake2b([]byte{tag}, binary.BigEndian.AppendUint32(nil, n))
	copy(id[:], h[:])
	binary.BigEndian.PutUint32(id[:4], n)
	return
}

type synthRepo struct {
	db      *muxdb.MuxDB
	gene    *block.Block
	head    *block.Block
	have    map[uint32]bool
	version uint32 // next minor version of the index trie for this head
	first   bool   // no index committed yet in this case: start from the genesis index
	repo    *chain.Repository
}

// one database holds the genesis and every crafted head: index tries of different cases live under different
// versions (major = head number, minor = a per-head counter), summaries under the head's id
var synthBase struct {
	db     *muxdb.MuxDB
	gene   *block.Block
	minors map[uint32]uint32
	cases  int
}

func newSynthRepo(head uint32) *synthRepo {
	if synthBase.db == nil || synthBase.cases > 20000 {
		if synthBase.db != nil {
			synthBase.db.Close()
		}
		db := muxdb.NewMem()
		gene, _, _, err := sharedGenesis().Build(state.NewStater(db))
		if err != nil {
			hx.Fatal("synth genesis: %v", err)
		}
		if _, err := chain.NewRepository(db, gene); err != nil {
			hx.Fatal("synth repo: %v", err)
		}
		synthBase.db, synthBase.gene, synthBase.minors, synthBase.cases = db, gene, map[uint32]uint32{}, 0
	}
	synthBase.cases++
	s := &synthRepo{db: synthBase.db, gene: synthBase.gene, have: map[uint32]bool{}, version: synthBase.minors[head], first: true}
	s.head = new(block.Builder).ParentID(synthID('L', head-1)).Timestamp(s.gene.Header().Timestamp() + 10).TotalScore(uint64(head)).Build()
	return s
}

// localID: what the local best chain holds at height n
func (s *synthRepo) localID(n uint32) thor.Bytes32 {
	switch n {
	case 0:
		return s.gene.Header().ID()
	case s.head.Header().Number():
		return s.head.Header().ID()
	}
	return synthID('L', n)
}

// publish (re)writes the index trie with the wanted heights and the best block summary, and opens the repository
func (s *synthRepo) publish(want []uint32) {
	headNum := s.head.Header().Number()
	root := trie.Root{Hash: thor.BytesToBytes32([]byte{1}), Ver: trie.Version{Major: 0, Minor: 0}}
	if !s.first {
		root.Ver = trie.Version{Major: headNum, Minor: s.version - 1}
	}
	s.first = false
	t := s.db.NewTrie(muxdb.IndexTrieName, root)
	for _, n := range append(want, headNum) {
		if n == 0 || s.have[n] || n > headNum {
			continue
		}
		id := s.localID(n)
		if err := t.Update(id[:4], id[:], nil); err != nil {
			hx.Fatal("synth index: %v", err)
		}
		s.have[n] = true
	}
	if err := t.Commit(trie.Version{Major: headNum, Minor: s.version}, true); err != nil {
		hx.Fatal("synth index commit: %v", err)
	}
	sum := &chain.BlockSummary{Header: s.head.Header(), Txs: []thor.Bytes32{}, Size: uint64(s.head.Size()), Conflicts: s.version}
	enc, err := rlp.EncodeToBytes(sum)
	if err != nil {
		hx.Fatal("synth summary: %v", err)
	}
	id := s.head.Header().ID()
	if err := s.db.NewStore("chain.hdr").Put(id[:], enc); err != nil {
		hx.Fatal("synth hdr: %v", err)
	}
	if err := s.db.NewStore("chain.props").Put([]byte("best-block-id"), id[:]); err != nil {
		hx.Fatal("synth props: %v", err)
	}
	s.version++
	synthBase.minors[headNum] = s.version
	s.repo, err = chain.NewRepository(s.db, s.gene)
	if err != nil {
		hx.Fatal("synth reopen: %v", err)
	}
	if s.repo.BestBlockSummary().Header.Number() != headNum {
		hx.Fatal("synth: best is %d, wanted %d", s.repo.BestBlockSummary().Header.Number(), headNum)
	}
}

func contains(l []uint32, x uint32) bool {
	for _, y := range l {
		if y == x {
			return true
		}
	}
	return false
}

// synthPeer answers GetBlockIDByNumber from the predicate
func synthPeer(sc *SynthCase, local func(uint32) thor.Bytes32, probes *[]uint32) func(rw p2p.MsgReadWriter) error {
	return func(rw p2p.MsgReadWriter) error {
		r := rpc.New(p2p.NewPeer(discover.NodeID{}, "synth", nil), rw)
		return r.Serve(func(msg *p2p.Msg, w func(any)) error {
			if msg.Code != proto.MsgGetBlockIDByNumber {
				return fmt.Errorf("unexpected call %d", msg.Code)
			}
			var n uint32
			if err := msg.Decode(&n); err != nil {
				return err
			}
			*probes = append(*probes, n)
			if contains(sc.Fails, n) {
				return fmt.Errorf("scripted failure at %d", n)
			}
			same := n <= sc.L
			if contains(sc.Flips, n) {
				same = !same
			}
			if same {
				w(local(n))
			} else {
				w(synthID('R', n))
			}
			return nil
		}, proto.MaxMsgSize)
	}
}

func hexList(l []uint32) string { return u32s(l) }

func runSynth(ctx *hx.Ctx, sc *SynthCase) (class, summary string, found bool) {
	ans := ask(fmt.Sprintf("S %x - %x | %s | %s", sc.Head, sc.L, hexList(sc.Flips), hexList(sc.Fails)))
	parts := strings.SplitN(ans, " | ", 2)
	model := strings.TrimSpace(parts[0])
	modelProbes := ""
	if len(parts) == 2 {
		modelProbes = strings.TrimSpace(parts[1])
	}
	s := newSynthRepo(sc.Head)
	// heights the index must hold: fastSeek's positions; everything else is added when the search asks for it
	want := []uint32{}
	for b := uint32(1); b != 0 && b < sc.Head; b <<= 1 {
		want = append(want, sc.Head-b)
	}
	var (
		anc    uint32
		err    error
		probes []uint32
	)
	for round := 0; ; round++ {
		s.publish(want)
		probes = nil
		l := newLink(synthPeer(sc, s.localID, &probes))
		ok := withTimeout(20*time.Second, func() {
			anc, err = comm.VerifFindCommonAncestor(context.Background(), s.repo, l.local, sc.Head)
		})
		l.close()
		if !ok {
			return "synth-hang", fmt.Sprintf("findCommonAncestor did not return within 20s (head %d, last common %d)", sc.Head, sc.L), len(sc.Flips) == 0 && len(sc.Fails) == 0
		}
		// a local lookup of a height the crafted index does not hold yet: add what was probed and run again
		missing := false
		if err != nil && len(probes) > 0 && !s.have[probes[len(probes)-1]] && probes[len(probes)-1] != 0 {
			missing = true
		}
		if !missing || round > 80 {
			break
		}
		want = append(want, probes...)
	}
	ctx.Cov.Bucket("synth_probes", len(probes))
	impl := fmt.Sprintf("anc %x", anc)
	if err != nil {
		impl = "fail"
		if len(probes) > 0 {
			impl = fmt.Sprintf("fail %x", probes[len(probes)-1])
		}
	}
	monotone := len(sc.Flips) == 0 && len(sc.Fails) == 0
	if monotone {
		wantL := min(sc.L, sc.Head)
		if err != nil || anc != wantL {
			return "synth-ancestor-wrong", fmt.Sprintf("head %d, chains agree exactly up to %d: findCommonAncestor returned %d (err %v)", sc.Head, wantL, anc, err), true
		}
		bound := 2*(bits.Len32(sc.Head)-1) + 4
		if len(probes) > bound {
			return "synth-probe-bound", fmt.Sprintf("%d probes for head %d exceed the proved bound %d", len(probes), sc.Head, bound), false
		}
	}
	if model != impl {
		return "synth-model-result", fmt.Sprintf("model answers %q, implementation %q (err %v)", model, impl, err), false
	}
	if modelProbes != hexList(probes) {
		return "ancestor-probe-sequence", fmt.Sprintf("the search strategy differs from the modelled one (head %d, last common %d): model probes [%s], implementation [%s]", sc.Head, sc.L, modelProbes, hexList(probes)), false
	}
	return "", "", false
}

func doSynth(ctx *hx.Ctx, sc *SynthCase) {
	if hangs >= 2 {
		return
	}
	class, summary, found := runSynth(ctx, sc)
	if strings.HasSuffix(class, "-hang") {
		// a stall (machine load, a lost wake-up) is not a hang of the code: the case must hang twice
		ctx.Cov.Count("timeout_retried")
		class, summary, found = runSynth(ctx, sc)
	}
	ctx.Cov.Case(fmt.Sprintf("synth %d %d %v %v", sc.Head, sc.L, sc.Flips, sc.Fails), sc.Head >= 4, nil)
	ctx.Cov.Bucket("synth_head", int(sc.Head))
	switch {
	case len(sc.Fails) > 0:
		ctx.Cov.Count("synth_failing_peer")
	case len(sc.Flips) > 0:
		ctx.Cov.Count("synth_inconsistent_peer")
	default:
		ctx.Cov.Count("synth_monotone")
	}
	if strings.HasSuffix(class, "-hang") {
		hangs++ // counted even when the class was reported before: after two hangs the sync cases stop
		if !reported(ctx, class) {
			ctx.Violation(class, summary, sc, found)
		}
		return
	}
	if class != "" && !reported(ctx, class) {
		// shrink: smaller head with the same relative position of L
		best := *sc
		for best.Head > 1 {
			c := best
			c.Head /= 2
			c.L = best.L / 2
			c.Flips, c.Fails = nil, nil
			if len(best.Flips)+len(best.Fails) > 0 {
				break
			}
			if cl, _, _ := runSynth(ctx, &c); cl == class {
				best = c
			} else {
				break
			}
		}
		ctx.Violation(class, summary, &best, found)
	}
}

func boundary(r *hx.Rand, head uint32) uint32 {
	var v uint32
	switch r.Intn(9) {
	case 0:
		v = 0
	case 1:
		v = 1
	case 2:
		v = head
	case 3:
		v = head - 1
	case 4:
		v = head - min(head, uint32(1)<<uint(r.Intn(31))+uint32(r.Intn(3))-1)
	case 5:
		v = uint32(1)<<uint(r.Intn(31)) + uint32(r.Intn(3)) - 1
	case 6:
		v = head / 2
	case 7:
		v = head/2 + uint32(r.Intn(3)) - 1
	default:
		v = uint32(r.Uint64() % (uint64(head) + 1))
	}
	if v > head {
		v = uint32(r.Uint64() % (uint64(head) + 1))
	}
	return v
}

func genHead(r *hx.Rand) uint32 {
	switch r.Intn(6) {
	case 0:
		return uint32(1 + r.Intn(8))
	case 1:
		return 1<<31 - 1 - uint32(r.Intn(3))
	case 2, 3:
		h := uint32(1)<<uint(1+r.Intn(30)) + uint32(r.Intn(3)) - 1
		return h
	case 4:
		return uint32(1 + r.Uint64()%(1<<31-1))
	default:
		return uint32(1 + r.Uint64()%(1<<uint(4+r.Intn(27))))
	}
}

func partD(ctx *hx.Ctx, rnd *hx.Rand) {
	// every (head, L) for small heads: exhaustive
	for head := uint32(1); head <= uint32(ctx.Scale(24, 96)); head++ {
		for l := uint32(0); l <= head; l++ {
			doSynth(ctx, &SynthCase{Kind: "synth", Head: head, L: l})
		}
	}
	n := ctx.Scale(1500, 40000)
	for i := 0; i < n; i++ {
		head := genHead(rnd)
		if head == 0 || head >= 1<<31 {
			head = 1<<31 - 1
		}
		sc := &SynthCase{Kind: "synth", Head: head, L: boundary(rnd, head)}
		switch rnd.Intn(10) {
		case 0:
			for k := 0; k <= rnd.Intn(3); k++ {
				sc.Flips = append(sc.Flips, boundary(rnd, head))
			}
		case 1:
			sc.Fails = append(sc.Fails, boundary(rnd, head))
		}
		doSynth(ctx, sc)
	}
}
