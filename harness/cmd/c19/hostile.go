package main

import (
	"bytes"
	"context"
	"crypto/sha256"
	"encoding/hex"
	"encoding/json"
	"fmt"
	"io"
	"os"
	"os/exec"
	"strings"
	"sync"
	"time"

	"github.com/ethereum/go-ethereum/rlp"

	"github.com/vechain/thor/v2/block"
	"github.com/vechain/thor/v2/comm"
	"github.com/vechain/thor/v2/comm/proto"
	"github.com/vechain/thor/v2/genesis"
	"github.com/vechain/thor/v2/kv"
	"github.com/vechain/thor/v2/p2p"
	"github.com/vechain/thor/v2/test/testchain"
	"github.com/vechain/thor/v2/thor"
	"github.com/vechain/thor/v2/tx"
	"github.com/vechain/thor/v2/txpool"

	"verif/harness/internal/hx"
)

var devAccounts = genesis.DevAccounts()

// ================================================================ B. hostile batches

type BlockSpec struct {
	Src int    `json:"src"` // height on the remote chain the bytes are taken from
	Mut string `json:"mut"` // "" | trunc | garbage | badbody | emptylist
}
type BatchSpec struct {
	From   uint32      `json:"from"`
	Fail   bool        `json:"fail"`
	Repeat int         `json:"repeat"` // >0 : the batch is Blocks[0] repeated this many times (oversize answers)
	Blocks []BlockSpec `json:"blocks"`
}
type BatchCase struct {
	Kind      string      `json:"kind"` // "batch"
	RemoteLen int         `json:"remote_len"`
	Seed      uint64      `json:"seed"`
	Start     int         `json:"start"` // local chain = remote[0..start-1]; download starts at `start`
	Batches   []BatchSpec `json:"batches"`
}

func rawOf(remote []*block.Block, s BlockSpec) rlp.RawValue {
	b := remote[s.Src]
	raw, _ := rlp.EncodeToBytes(b)
	switch s.Mut {
	case "trunc":
		return raw[:len(raw)/2]
	case "garbage":
		return rlp.RawValue{0xc3, 0x01, 0x02, 0x03}
	case "badbody":
		r, _ := rlp.EncodeToBytes([]any{b.Header(), []any{[]any{}}})
		return r
	case "emptylist":
		return rlp.RawValue{0xc0}
	}
	return raw
}

// describe computes, with the real decoder, what the model needs to know about one raw block
func describe(raw rlp.RawValue) string {
	rb, err := block.DecodeRawBlock(raw)
	if err != nil {
		return "x:0"
	}
	_, err = rb.Decode()
	return fmt.Sprintf("%x:%s", rb.Header().Number(), hx.B(err == nil))
}

func (bc *BatchCase) canonical() string { b, _ := json.Marshal(bc); return string(b) }

func runBatch(ctx *hx.Ctx, bc *BatchCase) (class, summary string, found bool) {
	rc := remoteChain(bc.RemoteLen, bc.Seed, 0)
	remote := bestChainBlocks(rc.Repo())
	remoteIDs := bestChainIDs(rc.Repo())
	validIDs := map[thor.Bytes32]bool{}
	for _, id := range remoteIDs {
		validIDs[id] = true
	}
	mkScript := func() (*script, string) {
		s := &script{ids: map[uint32]any{}, batches: map[uint32][]rlp.RawValue{}, failAt: map[uint32]bool{}}
		for i, id := range remoteIDs {
			s.ids[uint32(i)] = id
		}
		var line []string
		for _, b := range bc.Batches {
			if b.Fail {
				s.failAt[b.From] = true
				line = append(line, fmt.Sprintf("| %x ERR", b.From))
				continue
			}
			var raws []rlp.RawValue
			for _, bs := range b.Blocks {
				raws = append(raws, rawOf(remote, bs))
			}
			if b.Repeat > 0 && len(raws) > 0 {
				r0 := raws[0]
				raws = nil
				for i := 0; i < b.Repeat; i++ {
					raws = append(raws, r0)
				}
			}
			s.batches[b.From] = raws
			// what the receiving side sees is the answer list re-split by the real rlp decoder: an element that is
			// not one well-formed RLP value either breaks the list (the call fails) or swallows its neighbours
			enc, _ := rlp.EncodeToBytes(raws)
			var eff []rlp.RawValue
			if err := rlp.DecodeBytes(enc, &eff); err != nil {
				line = append(line, fmt.Sprintf("| %x ERR", b.From))
				continue
			}
			raws = eff
			ds := make([]string, len(raws))
			for i, r := range raws {
				ds[i] = describe(r)
			}
			line = append(line, fmt.Sprintf("| %x OK %s", b.From, strings.Join(ds, " ")))
		}
		return s, strings.Join(line, " ")
	}

	// (i) the decoder's forwarding against the model
	local := buildLocal(&PairCase{Mode: "prefix", Div: bc.Start - 1}, remote)
	defer closeChain(local)
	s, answers := mkScript()
	// requests the script does not cover are answered with an empty batch: tell the model the same
	l := newLink(s.serve)
	var got []uint32
	var mu sync.Mutex
	var derr error
	ok := withTimeout(40*time.Second, func() {
		derr = comm.VerifDownload(context.Background(), local.Repo(), l.local, uint32(bc.Start-1), func(_ context.Context, st <-chan *block.Block) error {
			for b := range st {
				if b != nil {
					mu.Lock()
					got = append(got, b.Header().Number())
					mu.Unlock()
				}
			}
			return nil
		})
	})
	asked := append([]uint32(nil), s.asked...)
	l.close()
	if !ok {
		return "batch-hang", "download from a scripted peer did not return within 40s", true
	}
	// the model gets an (empty) answer for every request the implementation made and the script does not cover
	covered := map[uint32]bool{}
	for _, b := range bc.Batches {
		covered[b.From] = true
	}
	for _, a := range asked {
		if !covered[a] {
			answers += fmt.Sprintf(" | %x OK", a)
			covered[a] = true
		}
	}
	ans := ask(fmt.Sprintf("D %x %d %s", bc.Start, len(bc.Batches)+len(asked)+2, answers))
	parts := strings.SplitN(ans, " | ", 2)
	status := strings.TrimSpace(parts[0])
	modelFwd := ""
	if len(parts) == 2 {
		modelFwd = strings.TrimSpace(parts[1])
	}
	ctx.Cov.Count("batch_status_" + status)
	// property predicate on the implementation's answers: forwarded numbers are consecutive from start
	for i, n := range got {
		if n != uint32(bc.Start+i) {
			return "batch-out-of-sequence-forwarded", fmt.Sprintf("the decoder forwarded block number %d at position %d of a download starting at %d", n, i, bc.Start), true
		}
	}
	implOK := derr == nil
	if implOK != (status == "done") {
		return "batch-verdict", fmt.Sprintf("model status %s, implementation error %v", status, derr), false
	}
	if status == "peererr" || strings.Contains(answers, "ERR") {
		// the fetcher runs ahead of the decoder: a failing fetch anywhere in the script may cancel the pipeline early
		// a failing fetch cancels the pipeline: the decoder may stop early; forwarded must be a prefix
		if !strings.HasPrefix(modelFwd+" ", u32s(got)+" ") && u32s(got) != "" {
			return "batch-forwarded", fmt.Sprintf("model forwards [%s], implementation [%s]", modelFwd, u32s(got)), false
		}
	} else if modelFwd != u32s(got) {
		return "batch-forwarded", fmt.Sprintf("model forwards [%s] (%s), implementation [%s] (err %v)", modelFwd, status, u32s(got), derr), false
	}

	// (ii) the same script into the real node: never a block outside the valid chain, no crash
	local2 := buildLocal(&PairCase{Mode: "prefix", Div: bc.Start - 1}, remote)
	defer closeChain(local2)
	n := startNode(local2)
	defer n.stop()
	s2, _ := mkScript()
	l2 := newLink(s2.serve)
	defer l2.close()
	var panicked any
	ok = withTimeout(60*time.Second, func() {
		defer func() { panicked = recover() }()
		_ = comm.VerifDownload(context.Background(), local2.Repo(), l2.local, uint32(bc.Start-1), n.handler)
	})
	if !ok {
		return "batch-node-hang", "download into the node from a scripted peer did not return within 60s", true
	}
	if panicked != nil {
		return "batch-node-panic", fmt.Sprintf("panic: %v", panicked), true
	}
	after := bestChainIDs(local2.Repo())
	for i, id := range after {
		if i >= len(remoteIDs) || remoteIDs[i] != id {
			return "invalid-block-adopted", fmt.Sprintf("after a hostile download the best chain holds %v at height %d, which is not a block of the valid chain", id, i), true
		}
	}
	if len(after) < bc.Start {
		return "best-regressed-hostile", "best chain got shorter after a hostile download", true
	}
	return "", "", false
}

func doBatch(ctx *hx.Ctx, bc *BatchCase) {
	class, summary, found := runBatch(ctx, bc)
	if strings.HasSuffix(class, "-hang") {
		ctx.Cov.Count("timeout_retried")
		class, summary, found = runBatch(ctx, bc)
	}
	nontrivial := false
	for _, b := range bc.Batches {
		if b.Fail || b.Repeat > 0 {
			nontrivial = true
		}
		for i, s := range b.Blocks {
			if s.Mut != "" || s.Src != int(b.From)+i {
				nontrivial = true
			}
		}
	}
	ctx.Cov.Case(bc.canonical(), nontrivial, bc)
	if class != "" && !reported(ctx, class) {
		ctx.Violation(class, summary, shrinkBatch(ctx, bc, class), found)
	}
}

func shrinkBatch(ctx *hx.Ctx, bc *BatchCase, class string) *BatchCase {
	best := bc
	clone := func(b *BatchCase) *BatchCase {
		var c BatchCase
		j, _ := json.Marshal(b)
		json.Unmarshal(j, &c)
		return &c
	}
	for changed := true; changed; {
		changed = false
		for i := len(best.Batches) - 1; i >= 0 && !changed; i-- {
			c := clone(best)
			c.Batches = append(c.Batches[:i], c.Batches[i+1:]...)
			if cl, _, _ := runBatch(ctx, c); cl == class {
				best, changed = c, true
				break
			}
			for j := len(best.Batches[i].Blocks) - 1; j >= 0; j-- {
				c := clone(best)
				c.Batches[i].Blocks = append(c.Batches[i].Blocks[:j], c.Batches[i].Blocks[j+1:]...)
				if cl, _, _ := runBatch(ctx, c); cl == class {
					best, changed = c, true
					break
				}
			}
		}
	}
	return best
}

func partB(ctx *hx.Ctx, rnd *hx.Rand) {
	n := ctx.Scale(60, 1500)
	H := 30
	muts := []string{"trunc", "garbage", "badbody", "emptylist"}
	for i := 0; i < n; i++ {
		bc := &BatchCase{Kind: "batch", RemoteLen: H, Seed: 7, Start: 1 + rnd.Intn(H-2)}
		// honest slicing first
		for from := bc.Start; from <= H; {
			k := 1 + rnd.Intn(8)
			b := BatchSpec{From: uint32(from)}
			for j := 0; j < k && from+j <= H; j++ {
				b.Blocks = append(b.Blocks, BlockSpec{Src: from + j})
			}
			bc.Batches = append(bc.Batches, b)
			from += len(b.Blocks)
		}
		// then one or two offences (one case in eight stays honest)
		for m := rnd.Intn(8); m > 0 && m <= 7; m -= 4 {
			bi := rnd.Intn(len(bc.Batches))
			b := &bc.Batches[bi]
			j := rnd.Intn(len(b.Blocks))
			switch op := rnd.Intn(9); op {
			case 0: // swap two blocks
				k := rnd.Intn(len(b.Blocks))
				b.Blocks[j], b.Blocks[k] = b.Blocks[k], b.Blocks[j]
			case 1: // drop one (gap)
				b.Blocks = append(b.Blocks[:j], b.Blocks[j+1:]...)
				if len(b.Blocks) == 0 {
					b.Blocks = []BlockSpec{{Src: min(int(b.From)+1, H)}}
				}
			case 2: // repeat one
				b.Blocks = append(b.Blocks[:j+1], b.Blocks[j:]...)
			case 3: // a block from elsewhere on the chain
				b.Blocks[j].Src = 1 + rnd.Intn(H)
			case 4, 5:
				b.Blocks[j].Mut = muts[rnd.Intn(len(muts))]
			case 6:
				b.Fail = true
			case 7: // oversize answer (limit is 1024) or exactly at the limit
				b.Blocks = b.Blocks[:1]
				b.Repeat = 1024 + rnd.Intn(2)
			case 8: // whole batch shifted by one
				for x := range b.Blocks {
					if b.Blocks[x].Src < H {
						b.Blocks[x].Src++
					}
				}
			}
		}
		doBatch(ctx, bc)
	}
}

// ================================================================ C. hostile messages (child process)

type MsgCase struct {
	Kind    string `json:"kind"` // "msg"
	Class   string `json:"class"`
	Code    uint64 `json:"code"`
	Size    uint32 `json:"size"` // declared size
	Payload string `json:"payload"`
	// ZeroArg > 0: the payload is the envelope [CallID, false, <ZeroArg zero bytes>] (kept symbolic: large payloads
	// are not carried around as hex)
	ZeroArg int    `json:"zero_arg,omitempty"`
	CallID  uint32 `json:"call_id,omitempty"`
	// answers the hostile peer gives to GetBlockByID calls triggered by its own announcements
	Answer string `json:"answer"`
}

type childResult struct {
	Done       int      `json:"done"`
	Violations []string `json:"violations"` // class \t summary \t index
	Dropped    int      `json:"dropped"`
	// per message: 0 = connection survived, 1 = peer dropped; -1 = not comparable (an announcement was sent on this
	// connection before: the node's own fetch and our hostile answer may end the connection asynchronously)
	Verdict []int8 `json:"verdict"`
	Answered   int      `json:"answered"`
	Control    bool     `json:"control_block_adopted"`
}

func storeDigest(c *testchain.Chain) string {
	h := sha256.New()
	it := c.Database().NewStore("").Iterate(kv.Range{})
	defer it.Release()
	n := 0
	for it.Next() {
		var l [8]byte
		k, v := it.Key(), it.Value()
		l[0], l[1], l[2], l[3] = byte(len(k)), byte(len(k)>>8), byte(len(v)), byte(len(v)>>8)
		h.Write(l[:])
		h.Write(k)
		h.Write(v)
		n++
	}
	return fmt.Sprintf("%d:%x", n, h.Sum(nil)[:12])
}

// msgTarget is the node under attack: real repo, real txpool, real Communicator (started), real node.Node whose
// housekeeping consumes the communicator's block feed.
type msgTarget struct {
	chain   *testchain.Chain
	comm    *comm.Communicator
	pool    *txpool.TxPool
	node    *realNode
	client  *chanPipe
	srvDone chan any // receives recover() value (nil if Serve returned normally)
	mu      sync.Mutex
	pongs   map[uint32]chan struct{}
	answer  []byte
	answered int
}

func (t *msgTarget) connect() {
	a, b := newPipe()
	t.client = a
	t.srvDone = make(chan any, 1)
	done := t.srvDone
	go func() {
		var p any
		func() {
			defer func() { p = recover() }()
			peer := comm.VerifNewPeer(b)
			_ = peer.Serve(t.comm.VerifHandler(peer), proto.MaxMsgSize)
		}()
		b.Close()
		done <- p
	}()
	// reader: consume everything the node sends; answer its GetBlockByID calls with the scripted bytes
	go func() {
		for {
			msg, err := a.ReadMsg()
			if err != nil {
				return
			}
			raw, _ := io.ReadAll(msg.Payload)
			var env struct {
				ID       uint32
				IsResult bool
				Rest     []rlp.RawValue `rlp:"tail"`
			}
			if rlp.DecodeBytes(raw, &env) != nil {
				continue
			}
			if env.IsResult {
				t.mu.Lock()
				if ch, ok := t.pongs[env.ID]; ok {
					close(ch)
					delete(t.pongs, env.ID)
				}
				t.mu.Unlock()
			} else if env.ID != 0 {
				// a call from the node (GetBlockByID after an announcement): answer with the hostile bytes
				t.mu.Lock()
				ans := t.answer
				t.answered++
				t.mu.Unlock()
				payload, _ := rlp.EncodeToBytes([]any{env.ID, true, rlp.RawValue(ans)})
				go a.WriteMsg(p2p.Msg{Code: msg.Code, Size: uint32(len(payload)), Payload: bytes.NewReader(payload)})
			}
		}
	}()
}

// ping: a GetStatus call; returns false if the connection is gone
func (t *msgTarget) ping(id uint32) (alive bool, hang bool) {
	ch := make(chan struct{})
	t.mu.Lock()
	t.pongs[id] = ch
	t.mu.Unlock()
	payload, _ := rlp.EncodeToBytes([]any{id, false, struct{}{}})
	werr := make(chan error, 1)
	go func() {
		werr <- t.client.WriteMsg(p2p.Msg{Code: proto.MsgGetStatus, Size: uint32(len(payload)), Payload: bytes.NewReader(payload)})
	}()
	select {
	case <-ch:
		return true, false
	case p := <-t.srvDone:
		t.srvDone <- p
		return false, false
	case <-time.After(15 * time.Second):
		return false, true
	}
}

func childMain(casesPath, outPath string) {
	var cases []MsgCase
	b, err := os.ReadFile(casesPath)
	if err != nil || json.Unmarshal(b, &cases) != nil {
		hx.Fatal("child: bad case file")
	}
	rc := remoteChain(8, 3, 1)
	remote := bestChainBlocks(rc.Repo())
	lc := buildLocal(&PairCase{Mode: "prefix", Div: 6}, remote)
	pool := txpool.New(lc.Repo(), lc.Stater(), txpool.Options{Limit: 200, LimitPerAccount: 16, MaxLifetime: time.Hour}, &forkCfg)
	c := comm.New(lc.Repo(), pool)
	c.Start()
	n := startNodeWithFeed(lc, c)
	t := &msgTarget{chain: lc, comm: c, pool: pool, node: n, pongs: map[uint32]chan struct{}{}}
	res := childResult{}
	viol := func(class, summary string, idx int) {
		res.Violations = append(res.Violations, fmt.Sprintf("%s\t%s\t%d", class, summary, idx))
	}
	flush := func() {
		j, _ := json.Marshal(res)
		os.WriteFile(outPath, j, 0o644)
	}
	digest0 := storeDigest(lc)
	best0 := lc.Repo().BestBlockSummary().Header.ID()
	t.connect()
	tainted := false
	for i, mc := range cases {
		payload, _ := hex.DecodeString(mc.Payload)
		if mc.ZeroArg > 0 {
			payload = envelope(mc.CallID, false, make([]byte, mc.ZeroArg))
		}
		ans, _ := hex.DecodeString(mc.Answer)
		t.mu.Lock()
		t.answer = ans
		t.mu.Unlock()
		werr := make(chan error, 1)
		go func() {
			werr <- t.client.WriteMsg(p2p.Msg{Code: mc.Code, Size: mc.Size, Payload: bytes.NewReader(payload)})
		}()
		select {
		case <-werr:
		case <-time.After(15 * time.Second):
			viol("msg-hang", fmt.Sprintf("the node did not consume message %d (code %d) within 15s", i, mc.Code), i)
			flush()
			os.Exit(0)
		}
		alive, hang := t.ping(uint32(i + 1))
		if hang {
			viol("msg-hang", fmt.Sprintf("the node stopped answering after message %d (code %d, class %s)", i, mc.Code, mc.Class), i)
			flush()
			os.Exit(0)
		}
		if mc.Code == proto.MsgNewBlockID {
			tainted = true // the node's own fetch and our hostile answer may end the connection at any moment from here on
		}
		v := int8(0)
		if !alive {
			v = 1
		}
		if tainted {
			v = -1
		}
		res.Verdict = append(res.Verdict, v)
		if !alive {
			tainted = false
			res.Dropped++
			if p := <-t.srvDone; p != nil {
				viol("msg-panic", fmt.Sprintf("panic in rpc.Serve/handleRPC on message %d (code %d, class %s): %v", i, mc.Code, mc.Class, p), i)
				flush()
				os.Exit(0)
			}
			t.client.Close()
			t.connect()
		}
		res.Done = i + 1
		if i%500 == 499 || i == len(cases)-1 {
			if d := storeDigest(lc); d != digest0 {
				viol("store-changed", fmt.Sprintf("store digest changed from %s to %s within messages up to %d", digest0, d, i), i)
				flush()
				os.Exit(0)
			}
			flush()
		}
	}
	time.Sleep(300 * time.Millisecond)
	if d := storeDigest(lc); d != digest0 || lc.Repo().BestBlockSummary().Header.ID() != best0 {
		viol("store-changed", fmt.Sprintf("store digest changed from %s to %s after the hostile stream", digest0, d), len(cases)-1)
	}
	res.Answered = t.answered
	// positive control: the node still works — the valid next block, announced as a whole, is adopted
	// (delivered over a FRESH connection: the last hostile messages may have got the old one dropped — legitimately,
	// and possibly asynchronously, when the node fetched an announced block and our answer did not decode)
	next := remote[7]
	if os.Getenv("C19_DIAG") != "" {
		// diagnostic: was the connection the hostile stream ended on still alive?
		oldAlive, _ := t.ping(0x7ffffffe)
		last := cases[max(0, len(cases)-4):]
		desc := ""
		for _, c := range last {
			desc += fmt.Sprintf(" [code %d %s]", c.Code, c.Class)
		}
		fmt.Fprintf(os.Stderr, "DIAG old connection alive=%v, last messages:%s\n", oldAlive, desc)
	}
	t.client.Close()
	t.connect()
	if alive, _ := t.ping(0x7fffffff); !alive {
		viol("node-wedged", "after the hostile message stream the node does not answer GetStatus on a fresh connection", len(cases)-1)
	}
	payload, _ := rlp.EncodeToBytes([]any{uint32(0), false, next})
	go t.client.WriteMsg(p2p.Msg{Code: proto.MsgNewBlock, Size: uint32(len(payload)), Payload: bytes.NewReader(payload)})
	for w := 0; w < 200; w++ {
		if lc.Repo().BestBlockSummary().Header.ID() == next.Header().ID() {
			res.Control = true
			break
		}
		time.Sleep(50 * time.Millisecond)
	}
	flush()
	os.Exit(0)
}

// runChild runs the message cases in a child process; a reported hang must reproduce in a second run (a stall
// under machine load is not a hang of the node)
func runChild(ctx *hx.Ctx, cases []MsgCase) (*childResult, string, bool) {
	res, stderr, crashed := runChildOnce(ctx, cases)
	for _, v := range res.Violations {
		if strings.HasPrefix(v, "msg-hang") {
			return runChildOnce(ctx, cases)
		}
	}
	return res, stderr, crashed
}

func runChildOnce(ctx *hx.Ctx, cases []MsgCase) (*childResult, string, bool) {
	dir, _ := os.MkdirTemp("", "c19-msgs-")
	defer os.RemoveAll(dir)
	in, out := dir+"/cases.json", dir+"/out.json"
	j, _ := json.Marshal(cases)
	os.WriteFile(in, j, 0o644)
	cmd := exec.Command(os.Args[0])
	cmd.Env = append(os.Environ(), "C19_CHILD_IN="+in, "C19_CHILD_OUT="+out)
	var stderr bytes.Buffer
	cmd.Stderr = &stderr
	err := cmd.Run()
	var res childResult
	if b, e := os.ReadFile(out); e == nil {
		json.Unmarshal(b, &res)
	}
	tail := stderr.String()
	if os.Getenv("C19_DIAG") != "" {
		for _, l := range strings.Split(tail, "\n") {
			if strings.HasPrefix(l, "DIAG") {
				fmt.Fprintln(os.Stderr, l)
			}
		}
	}
	if len(tail) > 3000 {
		tail = tail[:3000]
	}
	return &res, tail, err != nil
}

func doMsgs(ctx *hx.Ctx, cases []MsgCase) {
	res, stderr, crashed := runChild(ctx, cases)
	reportMsgs(ctx, cases, res, stderr, crashed)
}

// classifyMsg computes, with the real rlp library, what the accept/reject model needs to know about a message:
// does the envelope decode, does the rest decode as the type of the message code
func classifyMsg(mc *MsgCase) (size int, env string, argOK bool) {
	payload, _ := hex.DecodeString(mc.Payload)
	if mc.ZeroArg > 0 {
		payload = envelope(mc.CallID, false, make([]byte, mc.ZeroArg))
	}
	size = len(payload)
	r := bytes.NewReader(payload)
	s := rlp.NewStream(r, uint64(len(payload)))
	if _, err := s.List(); err != nil {
		return size, "x", false
	}
	var id uint32
	if err := s.Decode(&id); err != nil {
		return size, "x", false
	}
	var isRes bool
	if err := s.Decode(&isRes); err != nil {
		return size, "x", false
	}
	env = fmt.Sprintf("%x:%s", id, hx.B(isRes))
	arg := rlp.NewStream(r, uint64(len(payload)))
	var err error
	switch mc.Code {
	case proto.MsgGetStatus, proto.MsgGetTxs:
		err = arg.Decode(&struct{}{})
	case proto.MsgNewBlockID, proto.MsgGetBlockByID:
		var v thor.Bytes32
		err = arg.Decode(&v)
	case proto.MsgNewBlock:
		var v *block.Block
		err = arg.Decode(&v)
	case proto.MsgNewTx:
		var v tx.Transaction
		err = arg.Decode(&v)
	case proto.MsgGetBlockIDByNumber, proto.MsgGetBlocksFromNumber:
		var v uint32
		err = arg.Decode(&v)
	default:
		return size, env, false
	}
	return size, env, err == nil
}

func reportMsgs(ctx *hx.Ctx, cases []MsgCase, res *childResult, stderr string, crashed bool) {
	// the accept/reject model of rpc.Serve + handleRPC against what the real node did with each message
	if !crashed && len(res.Violations) == 0 {
		for i := range cases {
			if i >= len(res.Verdict) || res.Verdict[i] < 0 {
				continue
			}
			size, env, argOK := classifyMsg(&cases[i])
			code := cases[i].Code
			if code > 8 {
				code = 8
			}
			m := ask(fmt.Sprintf("R %d %x %s %s", code, size, env, hx.B(argOK)))
			ctx.Cov.Count("serve_model_" + m)
			if (m == "drop") != (res.Verdict[i] == 1) && !reported(ctx, "serve-model") {
				ctx.Violation("serve-model", fmt.Sprintf("accept/reject model of rpc.Serve+handleRPC answers %q for a message (code %d, size %d, envelope %s, argument decodes %v) but the node %s the peer",
					m, cases[i].Code, size, env, argOK, map[bool]string{true: "dropped", false: "kept"}[res.Verdict[i] == 1]), cases[i], false)
			}
		}
	}
	for _, mc := range cases {
		ctx.Cov.Case(fmt.Sprintf("msg %d %d %d %d %s %s", mc.Code, mc.Size, mc.ZeroArg, mc.CallID, mc.Payload, mc.Answer), mc.Class != "random", nil)
		ctx.Cov.Count("msg_class_" + mc.Class)
		ctx.Cov.Count(fmt.Sprintf("msg_code_%d", min(mc.Code, 9)))
	}
	ctx.Cov.Add("msg_peer_dropped", res.Dropped)
	ctx.Cov.Add("msg_announcement_fetches_answered", res.Answered)
	if crashed {
		// the node process died: find the smallest crashing subsequence
		culprit := cases
		if res.Done < len(cases) {
			culprit = cases[:min(res.Done+1, len(cases))]
		}
		for len(culprit) > 1 {
			last := culprit[len(culprit)-1:]
			if _, _, c := runChild(ctx, last); c {
				culprit = last
				break
			}
			half := culprit[len(culprit)/2:]
			if _, _, c := runChild(ctx, half); c {
				culprit = half
			} else {
				break
			}
		}
		ctx.Violation("node-crash", "the node process crashed while handling peer messages: "+stderr, map[string]any{"kind": "msgs", "cases": culprit}, true)
		return
	}
	for _, v := range res.Violations {
		p := strings.SplitN(v, "\t", 3)
		idx := 0
		fmt.Sscan(p[2], &idx)
		var replay any = cases
		if idx >= 0 && idx < len(cases) {
			replay = cases[idx]
		}
		ctx.Violation(p[0], p[1], replay, true)
	}
	if len(res.Violations) == 0 && res.Done == len(cases) && !res.Control {
		ctx.Violation("node-wedged", "after the hostile message stream the node no longer adopts a valid next block", map[string]any{"kind": "msgs", "n": len(cases)}, true)
	}
}

// ---------------------------------------------------------------- message generation

func envelope(id uint32, isResult any, arg any) []byte {
	b, err := rlp.EncodeToBytes([]any{id, isResult, arg})
	if err != nil {
		panic(err)
	}
	return b
}

func mutate(r *hx.Rand, b []byte) []byte {
	c := append([]byte(nil), b...)
	if len(c) == 0 {
		return []byte{byte(r.Uint64())}
	}
	switch r.Intn(6) {
	case 0:
		c[r.Intn(len(c))] ^= 1 << uint(r.Intn(8))
	case 1:
		c = c[:r.Intn(len(c))]
	case 2:
		c = append(c, r.Bytes(1+r.Intn(8))...)
	case 3:
		i := r.Intn(len(c))
		c[i] = byte(r.Uint64())
	case 4:
		i := r.Intn(len(c))
		c = append(c[:i], append(r.Bytes(1+r.Intn(4)), c[i:]...)...)
	case 5: // length prefix games on the first bytes
		c[0] = []byte{0xc0, 0xf8, 0xf9, 0xfa, 0xbf, 0xb8, 0x80, 0xff}[r.Intn(8)]
	}
	return c
}

func genMsgs(ctx *hx.Ctx, rnd *hx.Rand) []MsgCase {
	rc := remoteChain(8, 3, 1)
	remote := bestChainBlocks(rc.Repo())
	// invalid relatives of the valid next block remote[7]: same header (hence same id) with another body; same
	// content with a broken signature.  remote[8] is an orphan for the target (parent missing).
	sig := append([]byte(nil), remote[7].Header().Signature()...)
	sig[5] ^= 0x40
	otherBlocks := []*block.Block{
		remote[2],
		block.Compose(remote[7].Header(), remote[6].Transactions()),
		block.Compose(remote[7].Header(), append(remote[7].Transactions(), remote[5].Transactions()...)),
		remote[7].WithSignature(sig),
		block.Compose(remote[7].Header(), nil),
		remote[8],
	}
	total := 12000 // per chunk; partC runs ctx.Scale(1, 12) chunks
	codes := []uint64{0, 1, 2, 3, 4, 5, 6, 7, 8, 9, 255, 1 << 40}
	var out []MsgCase
	goodTx := transfer(rc, 3, 99, 0)
	badSigTx := transfer(rc, 3, 98, 0).WithSignature(make([]byte, 65))
	args := func(code uint64) []any {
		ids := []any{remote[3].Header().ID(), remote[8].Header().ID(), remote[7].Header().ID(), otherBlocks[3].Header().ID(), thor.Bytes32{}, thor.Bytes32{0xff}}
		nums := []any{uint32(0), uint32(3), uint32(6), uint32(7), uint32(1 << 31), uint32(0xffffffff), uint64(1 << 32)}
		blocks := []any{remote[3], remote[8], otherBlocks[1], otherBlocks[2], otherBlocks[3], otherBlocks[4]}
		switch code {
		case proto.MsgGetStatus, proto.MsgGetTxs:
			return []any{struct{}{}, []any{uint32(1)}, "x"}
		case proto.MsgNewBlockID, proto.MsgGetBlockByID:
			return ids
		case proto.MsgNewBlock:
			return blocks
		case proto.MsgNewTx:
			return []any{goodTx, badSigTx, struct{}{}, make([]byte, 70000)}
		case proto.MsgGetBlockIDByNumber, proto.MsgGetBlocksFromNumber:
			return nums
		}
		return []any{struct{}{}, uint32(1), remote[1].Header().ID()}
	}
	answers := func() string {
		switch rnd.Intn(6) {
		case 0:
			return "c0" // empty result
		case 1:
			b, _ := rlp.EncodeToBytes([]any{otherBlocks[1+rnd.Intn(4)]}) // a block with another id
			return hex.EncodeToString(b)
		case 2:
			b, _ := rlp.EncodeToBytes([]any{remote[8]}) // a valid block two ahead (parent missing)
			return hex.EncodeToString(b)
		case 3:
			return hex.EncodeToString(rnd.Bytes(1 + rnd.Intn(40)))
		case 4:
			b, _ := rlp.EncodeToBytes([]any{remote[2], remote[3]}) // more than one block
			return hex.EncodeToString(b)
		default:
			raw, _ := rlp.EncodeToBytes(remote[8])
			b, _ := rlp.EncodeToBytes([]any{rlp.RawValue(mutate(rnd, raw))})
			return hex.EncodeToString(b)
		}
	}
	for len(out) < total {
		code := codes[rnd.Intn(len(codes))]
		if rnd.Chance(3, 4) {
			code = uint64(rnd.Intn(8))
		}
		as := args(code)
		arg := as[rnd.Intn(len(as))]
		id := uint32(rnd.Uint64())
		if rnd.Chance(1, 3) {
			id = 0
		}
		mc := MsgCase{Kind: "msg", Code: code, Answer: answers()}
		var p []byte
		switch k := rnd.Intn(10); {
		case k <= 2:
			mc.Class = "wellformed"
			p = envelope(id, false, arg)
		case k <= 5:
			mc.Class = "mutated-arg"
			p = mutate(rnd, envelope(id, false, arg))
			if rnd.Chance(1, 3) {
				p = mutate(rnd, p)
			}
		case k == 6:
			mc.Class = "envelope"
			switch rnd.Intn(5) {
			case 0:
				p = envelope(id, true, arg) // a result nobody asked for
			case 1:
				p, _ = rlp.EncodeToBytes([]any{uint64(1) << 33, false, arg}) // call id beyond uint32
			case 2:
				p, _ = rlp.EncodeToBytes([]any{id, uint32(2), arg}) // non-boolean flag
			case 3:
				p, _ = rlp.EncodeToBytes([]any{id}) // too short
			case 4:
				p, _ = rlp.EncodeToBytes([]any{id, false, arg, arg, arg}) // trailing elements
			}
		case k == 7:
			mc.Class = "random"
			p = rnd.Bytes(rnd.Intn(64))
		default:
			if rnd.Chance(1, 60) {
				mc.Class = "oversize"
				mc.ZeroArg = proto.MaxMsgSize + 1000
			} else {
				mc.Class = "near-limit-tx"
				mc.ZeroArg = 60000 + rnd.Intn(12000)
				mc.Code = proto.MsgNewTx
			}
			mc.CallID = id
			mc.Size = uint32(mc.ZeroArg)
			out = append(out, mc)
			continue
		}
		mc.Size = uint32(len(p))
		mc.Payload = hex.EncodeToString(p)
		out = append(out, mc)
	}
	return out
}

func partC(ctx *hx.Ctx, rnd *hx.Rand) {
	for chunk := 0; chunk < ctx.Scale(1, 12); chunk++ {
		partCChunk(ctx, rnd)
	}
}

func partCChunk(ctx *hx.Ctx, rnd *hx.Rand) {
	cases := genMsgs(ctx, rnd)
	shards := 4
	var wg sync.WaitGroup
	results := make([]func(), shards)
	per := (len(cases) + shards - 1) / shards
	var mu sync.Mutex
	for s := 0; s < shards; s++ {
		lo, hi := s*per, min((s+1)*per, len(cases))
		if lo >= hi {
			continue
		}
		wg.Add(1)
		go func(s int, part []MsgCase) {
			defer wg.Done()
			res, stderr, crashed := runChild(ctx, part)
			mu.Lock()
			results[s] = func() { reportMsgs(ctx, part, res, stderr, crashed) }
			mu.Unlock()
		}(s, cases[lo:hi])
	}
	wg.Wait()
	for _, f := range results {
		if f != nil {
			f()
		}
	}
}
