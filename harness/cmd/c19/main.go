// c19 — correspondence driver for property C19 (sync converges to the peer's better chain; hostile peer input
// is harmless).
//   A. chain pairs (identical / prefix / ahead / fork at every height / remote shorter but heavier): the REAL
//      findCommonAncestor and download (comm/sync.go, through comm/verif_hooks.go) run against a REAL Communicator
//      serving the remote repository over p2p.MsgPipe; the ancestor and the probe sequence are compared with the
//      extracted Coq model, the ancestor with the directly computed last common height; the download feeds the REAL
//      node.handleBlockStream and the resulting best block is compared with the property's predicate.
//   B. hostile batches: a scripted peer serves mutated batches; what the REAL decoder forwards is compared with
//      the model, and the REAL node must never adopt a block outside the set of valid blocks.
//   C. hostile messages: for every message code, mutated / random / oversized / mis-sized payloads into the REAL
//      rpc.Serve + handleRPC under recover; nothing may panic, the store digest must not change.
package main

import (
	"context"
	"encoding/json"
	"fmt"
	"math/bits"
	"os"
	"path/filepath"
	"runtime/pprof"
	"sort"
	"strings"
	"time"

	"github.com/vechain/thor/v2/block"
	"github.com/vechain/thor/v2/comm"
	"github.com/vechain/thor/v2/test/testchain"
	"github.com/vechain/thor/v2/thor"
	"github.com/vechain/thor/v2/tx"
	"github.com/vechain/thor/v2/txpool"

	"verif/harness/internal/hx"
)

type PairCase struct {
	Kind       string `json:"kind"`        // "pair"
	Mode       string `json:"mode"`        // identical | prefix | ahead | fork | heavier
	RemoteLen  int    `json:"remote_len"`  // blocks above genesis on the remote chain
	Div        int    `json:"div"`         // height up to which the local chain is the remote chain
	LocalExtra int    `json:"local_extra"` // own blocks of the local chain above Div
	Seed       uint64 `json:"seed"`        // tx pattern of the remote chain
	BigTx      int    `json:"big_tx"`      // padding of the remote chain's transactions (varies batch boundaries)
}

var oracle *hx.OracleProc

func ask(line string) string {
	s, err := oracle.Ask(line)
	if err != nil {
		hx.Fatal("oracle: %v", err)
	}
	if strings.HasPrefix(s, "ERR") {
		hx.Fatal("oracle: %s on %q", s, line)
	}
	return s
}

// remote chains are cached per (len, seed, bigtx): building one costs a real packer run per block
type remoteKey struct {
	n    int
	seed uint64
	big  int
}

var remoteCache = map[remoteKey]*testchain.Chain{}

func remoteChain(n int, seed uint64, big int) *testchain.Chain {
	k := remoteKey{n, seed, big}
	if c, ok := remoteCache[k]; ok {
		return c
	}
	c := newChain()
	r := hx.NewRand(seed)
	for i := 1; i <= n; i++ {
		var err error
		if big < 0 && i == 3 {
			// one block that alone exceeds the 512 KiB batch budget of the serving side (nine ~60 KB zero-data txs)
			var txs []*tx.Transaction
			for k := 0; k < 9; k++ {
				txs = append(txs, transfer(c, k, uint64(i)<<20|uint64(k)<<8|seed&0xff, 60000))
			}
			err = c.MintBlock(txs...)
		} else if r.Chance(1, 2) || big > 0 {
			err = c.MintBlock(transfer(c, r.Intn(9), uint64(i)<<20|seed&0xfffff, big))
		} else {
			err = c.MintBlock()
		}
		if err != nil {
			hx.Fatal("mint remote block %d: %v", i, err)
		}
	}
	remoteCache[k] = c
	return c
}

func buildLocal(pc *PairCase, remote []*block.Block) *testchain.Chain {
	c := newChain()
	for i := 1; i <= pc.Div; i++ {
		if err := importBlock(c, remote[i]); err != nil {
			hx.Fatal("import remote block %d into local: %v", i, err)
		}
	}
	vals := []int{0, 1, 2, 3, 4, 5, 6, 7, 8, 9}
	if pc.Mode == "heavier" {
		// only three of the ten authorities produce on the local fork: slots are missed, absentees get
		// deactivated, the score per block drops
		vals = []int{0, 1, 2}
	}
	for j := 0; j < pc.LocalExtra; j++ {
		if err := mintBy(c, vals, transfer(c, 9, 0xabc000+uint64(j)<<24+uint64(pc.Div), 0)); err != nil {
			hx.Fatal("mint local block: %v", err)
		}
	}
	return c
}

func idsLine(ids []thor.Bytes32) string {
	p := make([]string, len(ids))
	for i, id := range ids {
		p[i] = hx.HexN(id[:])
	}
	return strings.Join(p, " ")
}

func u32s(l []uint32) string {
	p := make([]string, len(l))
	for i, x := range l {
		p[i] = hx.U(uint64(x))
	}
	return strings.Join(p, " ")
}

func lastCommon(a, b []thor.Bytes32) int {
	n := -1
	for i := 0; i < len(a) && i < len(b); i++ {
		if a[i] == b[i] {
			n = i
		}
	}
	return n
}

func withTimeout(d time.Duration, f func()) bool {
	done := make(chan struct{})
	go func() { defer close(done); f() }()
	select {
	case <-done:
		return true
	case <-time.After(d):
		return false
	}
}

// runPair executes one chain pair; returns a violation description ("" if none) and whether the property's own
// predicate failed on the implementation.
func runPair(ctx *hx.Ctx, pc *PairCase) (class, summary string, found bool) {
	rc := remoteChain(pc.RemoteLen, pc.Seed, pc.BigTx)
	remoteBlocks := bestChainBlocks(rc.Repo())
	lc := buildLocal(pc, remoteBlocks)
	defer closeChain(lc)
	localIDs, remoteIDs := bestChainIDs(lc.Repo()), bestChainIDs(rc.Repo())
	head := uint32(len(localIDs) - 1)
	want := lastCommon(localIDs, remoteIDs)

	rpool := txpool.New(rc.Repo(), rc.Stater(), txpool.Options{Limit: 10, LimitPerAccount: 2, MaxLifetime: time.Hour}, &forkCfg)
	defer rpool.Close()
	l := newLink(honestRemote(rc.Repo(), rpool))
	defer l.close()

	var (
		anc uint32
		err error
	)
	if !withTimeout(20*time.Second, func() {
		anc, err = comm.VerifFindCommonAncestor(context.Background(), lc.Repo(), l.local, head)
	}) {
		return "ancestor-hang", fmt.Sprintf("findCommonAncestor did not return within 20s (head %d, last common %d)", head, want), true
	}
	probes := append([]uint32(nil), l.tap.probes...)
	ctx.Cov.Bucket("ancestor_probes", len(probes))

	// model
	ans := ask(fmt.Sprintf("A %x | %s | %s", head, idsLine(localIDs), idsLine(remoteIDs)))
	parts := strings.SplitN(ans, " | ", 2)
	implAns := fmt.Sprintf("anc %x", anc)
	if err != nil {
		implAns = "fail"
	}
	// property predicate first: the ancestor must be the last common height
	if err != nil || int(anc) != want {
		return "ancestor-wrong-" + pc.Mode, fmt.Sprintf("findCommonAncestor returned %v (err %v; remote side: %v), last common height is %d (head %d)", anc, err, l.srvErr, want, head), true
	}
	if strings.TrimSpace(parts[0]) != implAns {
		return "ancestor-model-" + pc.Mode, fmt.Sprintf("model answers %q, implementation %q", parts[0], implAns), false
	}
	bound := 4
	if head > 0 {
		bound = 2*(bits.Len32(head)-1) + 4
	}
	if len(probes) > bound {
		return "ancestor-probe-bound", fmt.Sprintf("%d probes for head %d exceed the proved bound 2*log2(head)+4 = %d", len(probes), head, bound), false
	}
	modelProbes := ""
	if len(parts) == 2 {
		modelProbes = strings.TrimSpace(parts[1])
	}
	if modelProbes != u32s(probes) {
		return "ancestor-probe-sequence", fmt.Sprintf("the search strategy differs from the modelled one (theorem ancestor_correct is about the model): model probes [%s], implementation [%s]; the result %d is still the last common height", modelProbes, u32s(probes), anc), false
	}

	// download into the real node
	n := startNode(lc)
	defer n.stop()
	oldBest := lc.Repo().BestBlockSummary().Header
	remoteBest := rc.Repo().BestBlockSummary().Header
	var derr error
	if !withTimeout(60*time.Second, func() {
		derr = comm.VerifDownload(context.Background(), lc.Repo(), l.local, head, n.handler)
	}) {
		return "download-hang", fmt.Sprintf("download did not return within 60s (mode %s)", pc.Mode), true
	}
	newBest := lc.Repo().BestBlockSummary().Header
	ctx.Cov.Bucket("download_batches", len(l.tap.fetches))
	if derr != nil {
		return "download-error-" + pc.Mode, fmt.Sprintf("download from an honest peer failed: %v", derr), true
	}
	if remoteBest.BetterThan(oldBest) {
		ctx.Cov.Count("remote_preferred")
		if newBest.ID() != remoteBest.ID() {
			return "not-converged-" + pc.Mode, fmt.Sprintf("peer's best %v (score %d) is preferred over local best (score %d) but after sync best is %v",
				remoteBest.ID(), remoteBest.TotalScore(), oldBest.TotalScore(), newBest.ID()), true
		}
		if remoteBest.Number() < oldBest.Number() {
			ctx.Cov.Count("remote_shorter_but_heavier")
		}
	} else {
		ctx.Cov.Count("local_kept")
		if newBest.ID() != oldBest.ID() {
			return "best-regressed-" + pc.Mode, fmt.Sprintf("local best was not worse than the peer's, yet best changed from %v to %v", oldBest.ID(), newBest.ID()), true
		}
	}
	// every block of the peer's chain is now stored
	for i := want + 1; i < len(remoteIDs); i++ {
		if _, err := lc.Repo().GetBlockSummary(remoteIDs[i]); err != nil {
			return "block-missing-" + pc.Mode, fmt.Sprintf("peer's block %d missing after a successful download: %v", i, err), true
		}
	}
	// fetches start at ancestor+1
	if f := l.tap.fetches; len(f) == 0 || f[0] != anc+1 {
		return "fetch-start", fmt.Sprintf("download fetched from %v, expected to start at ancestor+1 = %d", f, anc+1), false
	}
	return "", "", false
}


func reported(ctx *hx.Ctx, class string) bool {
	for _, v := range ctx.Violations {
		if v.Class == class {
			return true
		}
	}
	return false
}

var hangs int

func pairCanonical(pc *PairCase) string {
	return fmt.Sprintf("pair %s %d %d %d %d %d", pc.Mode, pc.RemoteLen, pc.Div, pc.LocalExtra, pc.Seed, pc.BigTx)
}

func doPair(ctx *hx.Ctx, pc *PairCase) {
	if hangs >= 2 {
		return // the sync code hangs on this tree: reported already, do not pile up stuck goroutines
	}
	class, summary, found := runPair(ctx, pc)
	if strings.HasSuffix(class, "-hang") {
		ctx.Cov.Count("timeout_retried")
		class, summary, found = runPair(ctx, pc)
	}
	nontrivial := pc.Mode == "fork" || pc.Mode == "heavier" || (pc.Mode == "prefix" && pc.RemoteLen-pc.Div > 1)
	ctx.Cov.Case(pairCanonical(pc), nontrivial, pc)
	ctx.Cov.Count("pair_mode_" + pc.Mode)
	ctx.Cov.Bucket("pair_head", pc.Div+pc.LocalExtra)
	if strings.HasSuffix(class, "-hang") {
		hangs++ // counted even when the class was reported before
		if !reported(ctx, class) {
			ctx.Violation(class, summary, pc, found) // no shrinking of hanging cases (each attempt costs the time-out)
		}
		return
	}
	if class != "" && !reported(ctx, class) {
		ctx.Violation(class, summary, shrinkPair(ctx, pc, class), found)
	}
}

// shrinkPair: smaller remote chain / fewer local blocks with the same violation class
func shrinkPair(ctx *hx.Ctx, pc *PairCase, class string) *PairCase {
	best := *pc
	try := func(c PairCase) bool {
		if c.Div < 0 || c.Div > c.RemoteLen || c.LocalExtra < 0 || c.RemoteLen < 0 {
			return false
		}
		cl, _, _ := runPair(ctx, &c)
		return cl == class
	}
	for changed := true; changed; {
		changed = false
		for _, c := range []PairCase{
			{best.Kind, best.Mode, best.RemoteLen / 2, min(best.Div, best.RemoteLen/2), best.LocalExtra, best.Seed, 0},
			{best.Kind, best.Mode, best.RemoteLen - 1, min(best.Div, best.RemoteLen-1), best.LocalExtra, best.Seed, best.BigTx},
			{best.Kind, best.Mode, best.RemoteLen, best.Div / 2, best.LocalExtra, best.Seed, best.BigTx},
			{best.Kind, best.Mode, best.RemoteLen, best.Div - 1, best.LocalExtra, best.Seed, best.BigTx},
			{best.Kind, best.Mode, best.RemoteLen, best.Div, best.LocalExtra / 2, best.Seed, best.BigTx},
			{best.Kind, best.Mode, best.RemoteLen, best.Div, best.LocalExtra - 1, best.Seed, best.BigTx},
		} {
			if c != best && (c.Mode != "fork" && c.Mode != "heavier" || c.LocalExtra >= 1) && try(c) {
				best = c
				changed = true
				break
			}
		}
	}
	return &best
}

func partA(ctx *hx.Ctx, rnd *hx.Rand) {
	H := ctx.Scale(24, 90)
	seed := rnd.Uint64() & 0xfffff
	// every divergence height, three shapes each
	for d := 0; d <= H; d++ {
		if d < H {
			doPair(ctx, &PairCase{"pair", "prefix", H, d, 0, seed, 0})
			doPair(ctx, &PairCase{"pair", "fork", H, d, 1 + rnd.Intn(3), seed, 0})
			// local longer than what remains of the remote: remote NOT preferred unless heavier
			doPair(ctx, &PairCase{"pair", "fork", H, d, H - d + 1 + rnd.Intn(3), seed, 0})
		} else {
			doPair(ctx, &PairCase{"pair", "identical", H, d, 0, seed, 0})
			doPair(ctx, &PairCase{"pair", "ahead", H, d, 1 + rnd.Intn(4), seed, 0})
		}
	}
	// remote shorter but heavier, at several heights
	for _, d := range []int{0, 1, H / 3, H / 2, H - 3, H - 1} {
		doPair(ctx, &PairCase{"pair", "heavier", H, d, (H-d)*2 + 3, seed, 0})
	}
	// a remote chain with one block larger than the serving side's batch budget, local below / at / above it
	for _, d := range []int{0, 2, 3, 5} {
		doPair(ctx, &PairCase{"pair", "prefix", 6, d, 0, 11, -1})
	}
	doPair(ctx, &PairCase{"pair", "fork", 6, 1, 2, 11, -1})
	// random pairs over other remote chains, including big blocks (several batches per download)
	nRand := ctx.Scale(12, 150)
	for i := 0; i < nRand; i++ {
		h := 1 + rnd.Intn(ctx.Scale(30, 100))
		pc := &PairCase{Kind: "pair", RemoteLen: h, Seed: rnd.Uint64() & 0x3, Div: rnd.Intn(h + 1)}
		switch rnd.Intn(4) {
		case 0:
			pc.Mode = "prefix"
			if pc.Div == h {
				pc.Mode = "identical"
			}
		case 1, 2:
			pc.Mode, pc.LocalExtra = "fork", 1+rnd.Intn(h+2)
		default:
			pc.Mode, pc.LocalExtra = "heavier", (h-pc.Div)*2+3
		}
		if i%4 == 0 {
			pc.RemoteLen, pc.BigTx, pc.Seed = 40, 30000, 1
			pc.Div = rnd.Intn(20)
			if pc.Mode == "heavier" {
				pc.LocalExtra = (40-pc.Div)*2 + 3
			}
		}
		doPair(ctx, pc)
	}
}

func runReplay(ctx *hx.Ctx, path string) {
	b, err := os.ReadFile(path)
	if err != nil {
		hx.Fatal("replay: %v", err)
	}
	var doc struct {
		Replay json.RawMessage `json:"replay"`
	}
	if json.Unmarshal(b, &doc) != nil || doc.Replay == nil {
		doc.Replay = b
	}
	var k struct {
		Kind string `json:"kind"`
	}
	json.Unmarshal(doc.Replay, &k)
	switch k.Kind {
	case "pair":
		var pc PairCase
		json.Unmarshal(doc.Replay, &pc)
		doPair(ctx, &pc)
	case "batch":
		var bc BatchCase
		json.Unmarshal(doc.Replay, &bc)
		doBatch(ctx, &bc)
	case "synth":
		var sc SynthCase
		json.Unmarshal(doc.Replay, &sc)
		doSynth(ctx, &sc)
	case "msg":
		var mc MsgCase
		json.Unmarshal(doc.Replay, &mc)
		doMsgs(ctx, []MsgCase{mc})
	default:
		hx.Fatal("replay: unknown kind %q", k.Kind)
	}
}

func main() {
	if in := os.Getenv("C19_CHILD_IN"); in != "" {
		childMain(in, os.Getenv("C19_CHILD_OUT"))
		return
	}
	ctx := hx.Init("C19")
	if pf := os.Getenv("C19_CPUPROF"); pf != "" {
		f, _ := os.Create(pf)
		pprof.StartCPUProfile(f)
		defer pprof.StopCPUProfile()
	}
	var err error
	oracle, err = hx.StartOracle(ctx.Oracle)
	if err != nil {
		hx.Fatal("oracle: %v", err)
	}
	defer oracle.Close()
	if ctx.Replay != "" {
		runReplay(ctx, ctx.Replay)
	} else {
		if dir := os.Getenv("VERIF_CORPUS"); dir != "" {
			files, _ := filepath.Glob(filepath.Join(dir, "*.json"))
			sort.Strings(files)
			for _, f := range files {
				runReplay(ctx, f)
			}
		}
		rnd := hx.NewRand(ctx.Seed)
		parts := os.Getenv("C19_PARTS") // debugging aid: subset of "DABC"; empty = all
		run := func(p string) bool { return parts == "" || strings.Contains(parts, p) }
		rD, rA, rB, rC := rnd.Fork(4), rnd.Fork(1), rnd.Fork(2), rnd.Fork(3)
		if run("D") {
			partD(ctx, rD)
		}
		if run("A") {
			partA(ctx, rA)
		}
		if run("B") {
			partB(ctx, rB)
		}
		if run("C") {
			partC(ctx, rC)
		}
	}
	pprof.StopCPUProfile()
	ctx.Finish(
		"distinct = distinct canonical cases (chain pair descriptor / batch script / message bytes); non-trivial = chain pair that forks or is remote-shorter-but-heavier or a prefix needing >1 block, a batch script with an offending block, a message that reaches a handler branch beyond the envelope",
		[]string{
			"head < 2^31 (the uint32 midpoint wraps above; the model shows the search then fails — Example ancestor_wrap_example)",
			"overlap predicate monotone: ids bind parent ids (hash collision freeness, not modelled)",
			"sync_converges assumes: the node's select is a strict weak order, the peer is honest and its chain valid, best is maximal in the store",
			"devp2p transport, RPC time-outs and goroutine scheduling of the three-stage pipeline are not modelled",
			"real chains in the correspondence have at most ~100 blocks (quick 24..40); larger heads are covered by the theorem only",
		})
}
