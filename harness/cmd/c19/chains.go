package main

import (
	"context"
	"fmt"
	"math"
	"math/big"
	"os"
	"sync"
	"time"

	"github.com/ethereum/go-ethereum/event"

	"github.com/vechain/thor/v2/bft"
	"github.com/vechain/thor/v2/block"
	"github.com/vechain/thor/v2/chain"
	"github.com/vechain/thor/v2/cmd/thor/node"
	"github.com/vechain/thor/v2/comm"
	"github.com/vechain/thor/v2/consensus"
	"github.com/vechain/thor/v2/genesis"
	"github.com/vechain/thor/v2/packer"
	"github.com/vechain/thor/v2/test/testchain"
	"github.com/vechain/thor/v2/thor"
	"github.com/vechain/thor/v2/tx"
	"github.com/vechain/thor/v2/txpool"
)

// fork config: every fork active from genesis except HAYABUSA (the chains stay on PoA; VRF headers and the
// finality engine are on).
var forkCfg = thor.ForkConfig{HAYABUSA: math.MaxUint32}

const epochLen = 180

var (
	geneOnce sync.Once
	gene     *genesis.Genesis
)

func sharedGenesis() *genesis.Genesis {
	geneOnce.Do(func() {
		// fixed launch time in the past: chains are identical across runs and processes (replays are exact)
		launch := uint64(1_700_000_000)
		g, err := testchain.CreateGenesis(genesis.DevConfig{ForkConfig: &forkCfg, LaunchTime: launch}, 10, epochLen, epochLen)
		if err != nil {
			panic(err)
		}
		gene = g
	})
	return gene
}

// closeChain releases the in-memory databases of a chain built for one case (muxdb keeps a leveldb session and its
// goroutines alive until closed)
func closeChain(c *testchain.Chain) {
	if c == nil {
		return
	}
	_ = c.LogDB().Close()
	_ = c.Database().Close()
}

func newChain() *testchain.Chain {
	c, err := testchain.NewIntegrationTestChainWithGenesis(sharedGenesis(), &forkCfg, epochLen)
	if err != nil {
		panic(err)
	}
	return c
}

// transfer builds a signed VET transfer (salt makes blocks on different forks differ).
func transfer(c *testchain.Chain, from int, salt uint64, pad int) *tx.Transaction {
	to := genesis.DevAccounts()[(from+1)%10].Address
	cl := tx.NewClause(&to).WithValue(big.NewInt(int64(1 + salt%1000)))
	if pad > 0 {
		cl = cl.WithData(make([]byte, pad))
	}
	t := tx.NewBuilder(tx.TypeLegacy).
		ChainTag(c.Repo().ChainTag()).
		BlockRef(tx.NewBlockRef(0)).
		Expiration(math.MaxUint32 - 1).
		GasPriceCoef(0).
		Gas(21000 + 5*uint64(pad) + 30000).
		Nonce(salt).
		Clause(cl).
		Build()
	return tx.MustSign(t, genesis.DevAccounts()[from].PrivateKey)
}

// mintBy mints the next block with the earliest-scheduled validator among `vals` (indices into the dev accounts):
// what testchain.MintBlock does, restricted to a subset of the authorities (the others miss their slots).
func mintBy(c *testchain.Chain, vals []int, txs ...*tx.Transaction) error {
	best := c.Repo().BestBlockSummary()
	now := best.Header.Timestamp() + thor.BlockInterval()
	var (
		flow *packer.Flow
		who  genesis.DevAccount
	)
	for _, i := range vals {
		acc := genesis.DevAccounts()[i]
		f, err := packer.New(c.Repo(), c.Stater(), acc.Address, nil, &forkCfg, 0).Schedule(best, now)
		if err != nil {
			continue
		}
		if flow == nil || f.When() < flow.When() {
			flow, who = f, acc
		}
	}
	if flow == nil {
		return fmt.Errorf("no validator can be scheduled")
	}
	for _, t := range txs {
		if err := flow.Adopt(t); err != nil {
			return err
		}
	}
	blk, stage, receipts, err := flow.Pack(who.PrivateKey, 0, false)
	if err != nil {
		return err
	}
	if _, _, err := consensus.New(c.Repo(), c.Stater(), &forkCfg).Process(best, blk, flow.When(), 0); err != nil {
		return err
	}
	return c.CommitBlock(blk, stage, receipts)
}

// importBlock runs a block of another chain through consensus and commits it (what testchain.MintBlock does
// for its own blocks).
func importBlock(c *testchain.Chain, b *block.Block) error {
	parent, err := c.Repo().GetBlockSummary(b.Header().ParentID())
	if err != nil {
		return err
	}
	stage, receipts, err := consensus.New(c.Repo(), c.Stater(), &forkCfg).Process(parent, b, b.Header().Timestamp(), 0)
	if err != nil {
		return err
	}
	return c.CommitBlock(b, stage, receipts)
}

// bestChainBlocks returns the blocks of the best chain by height.
func bestChainBlocks(repo *chain.Repository) []*block.Block {
	best := repo.BestBlockSummary().Header
	ch := repo.NewBestChain()
	out := make([]*block.Block, 0, best.Number()+1)
	for n := uint32(0); n <= best.Number(); n++ {
		b, err := ch.GetBlock(n)
		if err != nil {
			panic(err)
		}
		out = append(out, b)
	}
	return out
}

func bestChainIDs(repo *chain.Repository) []thor.Bytes32 {
	best := repo.BestBlockSummary().Header
	ch := repo.NewBestChain()
	out := make([]thor.Bytes32, 0, best.Number()+1)
	for n := uint32(0); n <= best.Number(); n++ {
		id, err := ch.GetBlockID(n)
		if err != nil {
			panic(err)
		}
		out = append(out, id)
	}
	return out
}

// ---------------------------------------------------------------- a real node around a chain (import path)

// captureComm implements node.Communicator; its Sync hands the node's own block-stream handler to the harness.
type captureComm struct {
	handler chan comm.HandleBlockStream
	synced  chan struct{}
	feed    event.Feed
	real    *comm.Communicator // if set, the node's housekeeping consumes this communicator's block feed
}

func (c *captureComm) Sync(ctx context.Context, h comm.HandleBlockStream) {
	c.handler <- h
	<-ctx.Done()
}
func (c *captureComm) SubscribeBlock(ch chan *comm.NewBlockEvent) event.Subscription {
	if c.real != nil {
		return c.real.SubscribeBlock(ch)
	}
	return c.feed.Subscribe(ch)
}
func (c *captureComm) BroadcastBlock(*block.Block) {}
func (c *captureComm) PeerCount() int               { return 1 }
func (c *captureComm) Synced() <-chan struct{}      { return c.synced }

type realNode struct {
	chain   *testchain.Chain
	handler comm.HandleBlockStream
	cancel  context.CancelFunc
	done    chan struct{}
	pool    *txpool.TxPool
	dir     string
}

// startNode builds a real node.Node over the chain's repo/stater/db (real consensus, real bft engine, real
// commit path) and obtains its handleBlockStream through the Communicator interface.
func startNode(c *testchain.Chain) *realNode { return startNodeWithFeed(c, nil) }

func startNodeWithFeed(c *testchain.Chain, real *comm.Communicator) *realNode {
	master := genesis.DevAccounts()[9]
	engine, err := bft.NewEngine(c.Repo(), c.Database(), &forkCfg, master.Address)
	if err != nil {
		panic(err)
	}
	pool := txpool.New(c.Repo(), c.Stater(), txpool.Options{Limit: 100, LimitPerAccount: 16, MaxLifetime: time.Hour}, &forkCfg)
	dir, err := os.MkdirTemp("", "c19-stash-")
	if err != nil {
		panic(err)
	}
	cc := &captureComm{handler: make(chan comm.HandleBlockStream, 1), synced: make(chan struct{}), real: real}
	n := node.New(
		&node.Master{PrivateKey: master.PrivateKey},
		c.Repo(), engine, c.Stater(), c.LogDB(), pool, dir, cc, &forkCfg,
		node.Options{SkipLogs: true},
		consensus.New(c.Repo(), c.Stater(), &forkCfg),
		packer.New(c.Repo(), c.Stater(), master.Address, &master.Address, &forkCfg, 0),
	)
	ctx, cancel := context.WithCancel(context.Background())
	rn := &realNode{chain: c, cancel: cancel, done: make(chan struct{}), pool: pool, dir: dir}
	go func() {
		defer close(rn.done)
		if err := n.Run(ctx); err != nil {
			fmt.Fprintln(os.Stderr, "node.Run:", err)
		}
	}()
	select {
	case rn.handler = <-cc.handler:
	case <-time.After(10 * time.Second):
		panic("node did not start")
	}
	return rn
}

func (n *realNode) stop() {
	n.cancel()
	<-n.done
	n.pool.Close()
	os.RemoveAll(n.dir)
}
