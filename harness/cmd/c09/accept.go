package main

// The acceptance side of C09: blocks re-including / depending on transactions are offered to the REAL
// consensus.Consensus.Process on small real chains (genesis with the dev accounts as authorities, blocks minted by the
// real packer and committed to a real repository + state).  Every candidate block is otherwise valid (header fields
// copied from a block packed for the same slot, gas used / receipts root / state root recomputed by replaying its
// txs on the real runtime), so the verdict depends on the relation between its txs and the parent's chain only.
// The verdict class is compared with the model's `validate`, and an accepted block is checked directly against the
// first sentence of C09 using the harness's own bookkeeping.

import (
	"crypto/ecdsa"
	"fmt"
	"math/big"
	"strings"

	"github.com/ethereum/go-ethereum/crypto"

	"github.com/vechain/thor/v2/block"
	"github.com/vechain/thor/v2/builtin"
	"github.com/vechain/thor/v2/chain"
	"github.com/vechain/thor/v2/consensus"
	"github.com/vechain/thor/v2/genesis"
	"github.com/vechain/thor/v2/muxdb"
	"github.com/vechain/thor/v2/packer"
	"github.com/vechain/thor/v2/state"
	"github.com/vechain/thor/v2/thor"
	"github.com/vechain/thor/v2/trie"
	"github.com/vechain/thor/v2/tx"

	"verif/harness/internal/chainsim"
	"verif/harness/internal/hx"
)

type accBlock struct {
	b      *block.Block
	rcs    tx.Receipts
	conf   uint32
	parent int
	best   bool
}

type accEnv struct {
	db     *muxdb.MuxDB
	stater *state.Stater
	repo   *chain.Repository
	con    *consensus.Consensus
	fc     *thor.ForkConfig
	blocks []accBlock // 0 = genesis
	lines  []string
	wants  []string
}

func newAccEnv() (*accEnv, error) {
	db := muxdb.NewMem()
	launch := uint64(1526400000)
	fc := thor.NoFork
	gen := new(genesis.Builder).GasLimit(thor.InitialGasLimit).Timestamp(launch).ForkConfig(&fc).
		State(func(st *state.State) error {
			bal, _ := new(big.Int).SetString("1000000000000000000000000000", 10)
			st.SetCode(builtin.Authority.Address, builtin.Authority.RuntimeBytecodes())
			builtin.Params.Native(st).Set(thor.KeyExecutorAddress, new(big.Int).SetBytes(genesis.DevAccounts()[0].Address[:]))
			for _, acc := range genesis.DevAccounts() {
				st.SetBalance(acc.Address, bal)
				st.SetEnergy(acc.Address, bal, launch)
				builtin.Authority.Native(st).Add(acc.Address, acc.Address, thor.Bytes32{})
			}
			return nil
		})
	stater := state.NewStater(db)
	g, _, _, err := gen.Build(stater)
	if err != nil {
		return nil, err
	}
	repo, err := chain.NewRepository(db, g)
	if err != nil {
		return nil, err
	}
	e := &accEnv{db: db, stater: stater, repo: repo, fc: &fc, con: consensus.New(repo, stater, &fc)}
	e.blocks = append(e.blocks, accBlock{b: g, parent: -1, best: true})
	e.lines = append(e.lines, "INIT "+chainsim.N32(g.Header().ID())+" "+chainsim.N32(g.Header().ParentID())+" "+hx.U(uint64(repo.ChainTag())))
	e.wants = append(e.wants, "ok")
	return e, nil
}

// mint packs a block on parent with the real packer (proposer = dev account pi), checks it with the real consensus,
// commits state and stores it.
func (e *accEnv) mint(parent int, pi int, txs []*tx.Transaction, best bool) (int, []*tx.Transaction, error) {
	acc := genesis.DevAccounts()[pi]
	ps, err := e.repo.GetBlockSummary(e.blocks[parent].b.Header().ID())
	if err != nil {
		return 0, nil, err
	}
	p := packer.New(e.repo, e.stater, acc.Address, &acc.Address, e.fc, 0)
	flow, err := p.Schedule(ps, ps.Header.Timestamp()+thor.BlockInterval())
	if err != nil {
		return 0, nil, err
	}
	var adopted []*tx.Transaction
	for _, t := range txs {
		if err := flow.Adopt(t); err == nil {
			adopted = append(adopted, t)
		}
	}
	conf, err := e.repo.ScanConflicts(ps.Header.Number() + 1)
	if err != nil {
		return 0, nil, err
	}
	b, stage, rcs, err := flow.Pack(acc.PrivateKey, conf, false)
	if err != nil {
		return 0, nil, err
	}
	if _, _, err := e.con.Process(ps, b, flow.When(), conf); err != nil {
		return 0, nil, fmt.Errorf("a packed block is rejected by consensus: %v", err)
	}
	if _, err := stage.Commit(); err != nil {
		return 0, nil, err
	}
	if err := e.repo.AddBlock(b, rcs, conf, best); err != nil {
		return 0, nil, err
	}
	e.blocks = append(e.blocks, accBlock{b: b, rcs: rcs, conf: conf, parent: parent, best: best})
	e.lines = append(e.lines, chainsim.AddLine(b, rcs, conf, best))
	e.wants = append(e.wants, "ok")
	return len(e.blocks) - 1, adopted, nil
}

func sign(b *block.Block, pk *ecdsa.PrivateKey) *block.Block {
	sig, err := crypto.Sign(b.Header().SigningHash().Bytes(), pk)
	if err != nil {
		panic(err)
	}
	return b.WithSignature(sig)
}

// candidate builds an otherwise valid block on parent holding txs; returns it with the receipts of the replay.
func (e *accEnv) candidate(parent int, pi int, txs []*tx.Transaction) (*block.Block, tx.Receipts, uint64, uint32, error) {
	acc := genesis.DevAccounts()[pi]
	ps, err := e.repo.GetBlockSummary(e.blocks[parent].b.Header().ID())
	if err != nil {
		return nil, nil, 0, 0, err
	}
	p := packer.New(e.repo, e.stater, acc.Address, &acc.Address, e.fc, 0)
	flow, err := p.Schedule(ps, ps.Header.Timestamp()+thor.BlockInterval())
	if err != nil {
		return nil, nil, 0, 0, err
	}
	conf, err := e.repo.ScanConflicts(ps.Header.Number() + 1)
	if err != nil {
		return nil, nil, 0, 0, err
	}
	orig, _, _, err := flow.Pack(acc.PrivateKey, conf, false)
	if err != nil {
		return nil, nil, 0, 0, err
	}
	h := orig.Header()
	mk := func() *block.Builder {
		bb := new(block.Builder).ParentID(h.ParentID()).Timestamp(h.Timestamp()).TotalScore(h.TotalScore()).GasLimit(h.GasLimit()).
			GasUsed(h.GasUsed()).Beneficiary(h.Beneficiary()).StateRoot(h.StateRoot()).ReceiptsRoot(h.ReceiptsRoot()).
			TransactionFeatures(h.TxsFeatures())
		for _, t := range txs {
			bb.Transaction(t)
		}
		return bb
	}
	prov := sign(mk().Build(), acc.PrivateKey)
	rt, err := e.con.NewRuntimeForReplay(prov.Header(), false)
	if err != nil {
		return nil, nil, 0, 0, err
	}
	var rcs tx.Receipts
	gas := uint64(0)
	execOK := true
	for _, t := range txs {
		rc, err := rt.ExecuteTransaction(t)
		if err != nil {
			execOK = false
			break
		}
		gas += rc.GasUsed
		rcs = append(rcs, rc)
	}
	if !execOK {
		// not executable at all (e.g. foreign chain tag): the verdict is a body rule, roots do not matter
		rcs = nil
		for range txs {
			rcs = append(rcs, &tx.Receipt{Paid: new(big.Int), Reward: new(big.Int)})
		}
		return prov, rcs, flow.When(), conf, nil
	}
	stage, err := rt.State().Stage(trie.Version{Major: prov.Header().Number(), Minor: conf})
	if err != nil {
		return nil, nil, 0, 0, err
	}
	final := sign(mk().GasUsed(gas).ReceiptsRoot(rcs.RootHash()).StateRoot(stage.Hash()).Build(), acc.PrivateKey)
	return final, rcs, flow.When(), conf, nil
}

func verdictClass(err error) string {
	if err == nil {
		return "ok"
	}
	m := err.Error()
	switch {
	case strings.Contains(m, "tx already exists"):
		return "exists"
	case strings.Contains(m, "tx dep broken"):
		return "depbroken"
	case strings.Contains(m, "tx dep reverted"):
		return "deprev"
	case strings.Contains(m, "tx expired"):
		return "expired"
	case strings.Contains(m, "tx ref future block"):
		return "future"
	case strings.Contains(m, "chain tag mismatch"):
		return "tag"
	}
	return "other:" + m
}

type accTx struct {
	t        *tx.Transaction
	kind     string
	reverted bool // expected to revert when executed
}

func runAcceptance(ctx *hx.Ctx, r *hx.Rand, cases int) {
	to := thor.BytesToAddress([]byte("to"))
	tooMuch, _ := new(big.Int).SetString("1000000000000000000000000000000000", 10)
	for c := 0; c < cases; c++ {
		e, err := newAccEnv()
		if err != nil {
			hx.Fatal("acceptance env: %v", err)
		}
		tag := e.repo.ChainTag()
		nonce := uint64(1000 * (c + 1))
		mkTx := func(ref, exp uint32, dep *thor.Bytes32, revert bool, badTag bool) *tx.Transaction {
			nonce++
			val := big.NewInt(10)
			if revert {
				val = tooMuch
			}
			tg := tag
			if badTag {
				tg ^= 0x33
			}
			b := tx.NewBuilder(tx.TypeLegacy).ChainTag(tg).GasPriceCoef(1).Gas(100000).BlockRef(tx.NewBlockRef(ref)).Expiration(exp).
				Nonce(nonce).Clause(tx.NewClause(&to).WithValue(val))
			if dep != nil {
				b = b.DependsOn(dep)
			}
			return tx.MustSign(b.Build(), genesis.DevAccounts()[2+r.Intn(6)].PrivateKey)
		}
		// a short real chain: some ok txs, one reverting, one depending on an earlier one
		tip := 0
		var onChain, revertedOnChain []*tx.Transaction
		depth := r.Range(3, 6)
		for i := 0; i < depth; i++ {
			var txs []*tx.Transaction
			for k := r.Intn(3); k > 0; k-- {
				txs = append(txs, mkTx(0, 100, nil, false, false))
			}
			if r.Chance(1, 2) {
				txs = append(txs, mkTx(0, 100, nil, true, false))
			}
			if len(onChain) > 0 && r.Chance(1, 2) {
				id := onChain[r.Intn(len(onChain))].ID()
				txs = append(txs, mkTx(0, 100, &id, false, false))
			}
			ni, adopted, err := e.mint(tip, 0, txs, true)
			if err != nil {
				hx.Fatal("acceptance chain: %v", err)
			}
			for k, t := range adopted {
				if e.blocks[ni].rcs[k].Reverted {
					revertedOnChain = append(revertedOnChain, t)
				} else {
					onChain = append(onChain, t)
				}
			}
			tip = ni
		}
		// a sibling of the tip carrying one tx of the tip again (allowed: different chain) plus its own
		var sibOnly []*tx.Transaction
		sib := -1
		if tipTxs := e.blocks[tip].b.Transactions(); true {
			var txs []*tx.Transaction
			if len(tipTxs) > 0 {
				txs = append(txs, tipTxs[0])
			}
			own := mkTx(0, 100, nil, false, false)
			txs = append(txs, own)
			if ni, adopted, err := e.mint(e.blocks[tip].parent, 1, txs, false); err == nil {
				sib = ni
				for _, t := range adopted {
					if t.ID() == own.ID() {
						sibOnly = append(sibOnly, t)
					}
				}
			} else {
				hx.Fatal("acceptance sibling: %v", err)
			}
		}
		H := e.blocks[tip].b.Header().Number() + 1
		// candidates
		type cand struct {
			name   string
			parent int
			txs    []*tx.Transaction
		}
		var cands []cand
		fresh := func() *tx.Transaction { return mkTx(0, 100, nil, false, false) }
		pick := func(l []*tx.Transaction) *tx.Transaction { return l[r.Intn(len(l))] }
		cands = append(cands, cand{"fresh", tip, []*tx.Transaction{fresh(), fresh()}})
		if len(onChain) > 0 {
			cands = append(cands, cand{"dup-on-chain", tip, []*tx.Transaction{fresh(), pick(onChain)}})
			id := pick(onChain).ID()
			cands = append(cands, cand{"dep-on-chain", tip, []*tx.Transaction{mkTx(0, 100, &id, false, false)}})
		}
		if len(revertedOnChain) > 0 {
			id := pick(revertedOnChain).ID()
			cands = append(cands, cand{"dep-reverted-on-chain", tip, []*tx.Transaction{mkTx(0, 100, &id, false, false)}})
			cands = append(cands, cand{"dup-reverted-on-chain", tip, []*tx.Transaction{pick(revertedOnChain)}})
		}
		if len(sibOnly) > 0 {
			cands = append(cands, cand{"reinclude-sibling-tx", tip, []*tx.Transaction{sibOnly[0]}})
			id := sibOnly[0].ID()
			cands = append(cands, cand{"dep-on-sibling-only", tip, []*tx.Transaction{mkTx(0, 100, &id, false, false)}})
			if sib >= 0 {
				cands = append(cands, cand{"dup-on-sibling-chain", sib, []*tx.Transaction{sibOnly[0]}})
			}
		}
		{
			a := fresh()
			cands = append(cands, cand{"dup-in-block", tip, []*tx.Transaction{a, fresh(), a}})
			id := a.ID()
			cands = append(cands, cand{"dep-same-block-ok", tip, []*tx.Transaction{a, mkTx(0, 100, &id, false, false)}})
			cands = append(cands, cand{"dep-same-block-after", tip, []*tx.Transaction{mkTx(0, 100, &id, false, false), a}})
			ra := mkTx(0, 100, nil, true, false)
			rid := ra.ID()
			cands = append(cands, cand{"dep-same-block-reverted", tip, []*tx.Transaction{ra, mkTx(0, 100, &rid, false, false)}})
			var unknown thor.Bytes32
			copy(unknown[:], r.Bytes(32))
			cands = append(cands, cand{"dep-unknown", tip, []*tx.Transaction{mkTx(0, 100, &unknown, false, false)}})
			cands = append(cands, cand{"expired", tip, []*tx.Transaction{mkTx(0, H-1, nil, false, false)}})
			cands = append(cands, cand{"expires-now", tip, []*tx.Transaction{mkTx(0, H, nil, false, false)}})
			cands = append(cands, cand{"ref-future", tip, []*tx.Transaction{mkTx(H+1, 100, nil, false, false)}})
			cands = append(cands, cand{"ref-now", tip, []*tx.Transaction{mkTx(H, 0, nil, false, false)}})
			cands = append(cands, cand{"bad-tag", tip, []*tx.Transaction{mkTx(0, 100, nil, false, true)}})
		}
		for _, cd := range cands {
			blk, rcs, now, conf, err := e.candidate(cd.parent, 0, cd.txs)
			if err != nil {
				hx.Fatal("acceptance candidate %s: %v", cd.name, err)
			}
			ps, _ := e.repo.GetBlockSummary(blk.Header().ParentID())
			_, _, perr := e.con.Process(ps, blk, now, conf)
			real := verdictClass(perr)
			e.lines = append(e.lines, "VAL "+chainsim.BlockTokens(blk, rcs))
			e.wants = append(e.wants, real)
			ctx.Cov.Count("accept:" + cd.name + "=" + strings.SplitN(real, ":", 2)[0])
			ctx.Cov.Case("accept|"+cd.name+"|"+chainsim.BlockTokens(blk, rcs), true, nil)
			// property: an accepted block must not break the first sentence of C09 on its chain
			if perr == nil {
				if why := e.breaksC09(cd.parent, blk, rcs, tag); why != "" {
					ctx.Violation("property:accepted-block-breaks-C09:"+cd.name,
						fmt.Sprintf("consensus.Process accepted block #%d (%s) although %s", blk.Header().Number(), cd.name, why),
						map[string]any{"candidate": cd.name, "chain": e.lines, "block": chainsim.BlockTokens(blk, rcs)}, true)
				}
			}
		}
		ans, err := hx.AskAll(ctx.Oracle, e.lines)
		if err != nil {
			hx.Fatal("oracle: %v", err)
		}
		for i := range ans {
			if ans[i] != e.wants[i] {
				ctx.Violation("correspondence:VAL",
					fmt.Sprintf("correspondence Chain.Model.validate ~ consensus.Process no longer checks (accepted_chain_inv is about the model's rules): candidate %q impl=%s model=%s",
						cands[max(0, i-(len(e.lines)-len(cands)))].name, e.wants[i], ans[i]),
					map[string]any{"lines": e.lines, "at": i}, false)
				break
			}
		}
		e.db.Close()
	}
}

// breaksC09 evaluates the first sentence of C09 for an accepted block directly, from the harness's own records.
func (e *accEnv) breaksC09(parent int, blk *block.Block, rcs tx.Receipts, tag byte) string {
	type where struct{ reverted bool }
	chainTx := map[thor.Bytes32]where{}
	for x := parent; x > 0; x = e.blocks[x].parent {
		for k, t := range e.blocks[x].b.Transactions() {
			chainTx[t.ID()] = where{e.blocks[x].rcs[k].Reverted}
		}
	}
	num := blk.Header().Number()
	inBlock := map[thor.Bytes32]where{}
	for k, t := range blk.Transactions() {
		id := t.ID()
		if _, dup := chainTx[id]; dup {
			return fmt.Sprintf("tx %v is already on the parent's chain", id)
		}
		if _, dup := inBlock[id]; dup {
			return fmt.Sprintf("tx %v occurs twice in the block", id)
		}
		if t.ChainTag() != tag {
			return "a tx carries a foreign chain tag"
		}
		if num < t.BlockRef().Number() || uint64(num) > uint64(t.BlockRef().Number())+uint64(t.Expiration()) {
			return fmt.Sprintf("tx %v is outside its window [%d, %d+%d] at height %d", id, t.BlockRef().Number(), t.BlockRef().Number(), t.Expiration(), num)
		}
		if d := t.DependsOn(); d != nil {
			w, ok := inBlock[*d]
			if !ok {
				w, ok = chainTx[*d]
			}
			if !ok {
				return fmt.Sprintf("tx %v depends on %v which is not earlier on this chain", id, *d)
			}
			if w.reverted {
				return fmt.Sprintf("tx %v depends on %v which reverted", id, *d)
			}
		}
		inBlock[id] = where{rcs[k].Reverted}
	}
	return ""
}
