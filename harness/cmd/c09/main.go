// Command c09: correspondence and property search for C09 (a transaction is included at most once per chain,
// only in its validity window; lookup by id finds it exactly when it is on that head's chain).
package main

import (
	"fmt"
	"os"

	"verif/harness/internal/chainsim"
	"verif/harness/internal/hx"
)

var mode = chainsim.Mode{Lookups: true}

const theorems = "has_tx_paths_agree, get_tx_meta_on_chain, accepted_chain_inv of Properties/C09.v"

func runOne(ctx *hx.Ctx, scn *chainsim.Scenario) {
	out := chainsim.Execute(scn, mode, ctx.Oracle, ctx.Cov)
	depth, forks, reincl := chainsim.Stats(scn)
	ctx.Cov.Case(chainsim.Canonical(scn), forks >= 1 && reincl >= 1, map[string]any{"shape": scn.Shape, "blocks": len(scn.Blocks), "txs": len(scn.Txs), "depth": depth, "reincluded_txs": reincl})
	ctx.Cov.Count("shape=" + scn.Shape)
	ctx.Cov.Bucket("blocks", len(scn.Blocks))
	ctx.Cov.Bucket("depth", depth)
	ctx.Cov.Bucket("reincluded_txs", reincl)
	ctx.Cov.Add("requests", out.Queries)
	chainsim.Report(ctx, scn, mode, out, theorems)
}

func main() {
	ctx := hx.Init("C09")
	if ctx.Replay != "" {
		scn, err := chainsim.LoadReplay(ctx.Replay)
		if err != nil {
			hx.Fatal("bad replay file: %v", err)
		}
		runOne(ctx, scn)
		ctx.Finish("replay", nil)
	}
	for _, f := range chainsim.Corpus(os.Getenv("VERIF_CORPUS")) {
		if scn, err := chainsim.LoadReplay(f); err == nil {
			runOne(ctx, scn)
			ctx.Cov.Count("corpus")
		}
	}
	r := hx.NewRand(ctx.Seed)
	nBushy, nLong := ctx.Scale(260, 3000), ctx.Scale(45, 500)
	for i := 0; i < nBushy; i++ {
		runOne(ctx, chainsim.GenBushy(r.Fork(uint64(i)), chainsim.GenOpts{}))
	}
	for i := 0; i < nLong; i++ {
		rr := r.Fork(uint64(1000000 + i))
		runOne(ctx, chainsim.GenLong(rr, chainsim.GenOpts{}, rr.Range(104, 240)))
	}
	nAcc := ctx.Scale(30, 600)
	runAcceptance(ctx, r.Fork(3000000), nAcc)
	ctx.Cov.Add("acceptance-chains", nAcc)
	nDeep := ctx.Scale(9, 80)
	for i := 0; i < nDeep; i++ {
		runOne(ctx, chainsim.GenDeep(r.Fork(uint64(2000000+i)), chainsim.GenOpts{}))
	}
	ctx.Finish(fmt.Sprintf("fork trees on a real chain.Repository: %d deep (two branches beyond height 255 where uvarint key bytes stop sorting numerically, long-lived txs on both) + %d bushy (4-22 txs re-included across siblings at equal and different heights, "+
		"expiry/dependency/bad-tag mixes, 0/60/95/100%% rule-respecting inclusion) + %d long (trunk 104-240 deep so head-ref crosses the 100-block "+
		"shortcut, branches forking at tip-100±3); HasTransaction (own ref and boundary refs), GetTransactionMeta, GetTransaction, "+
		"GetTransactionReceipt for tx x head samples after every AddBlock and a full tx x head sweep at the end; non-trivial = a fork and a tx included more than once",
		nDeep, nBushy, nLong),
		[]string{"tx ids / origins (Blake2b, secp256k1) are computed by the real library and passed to the model as data; a tx id determines the tx body (collision freedom is a named premise of accepted_chain_inv)",
			"8-byte filter-key collisions between different tx ids cannot be produced by the harness (2^32 work); the theorems cover them",
			"block numbers stay below 2^32-1"})
}
