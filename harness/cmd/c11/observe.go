// observe.go — runs the REAL decoders/encoders/accessors of /repo on one byte string and renders the
// public-API observables in the same one-token format as oracle/c11/driver.ml.
package main

import (
	"bytes"
	"encoding/binary"
	"fmt"
	"math/big"
	"strings"

	"github.com/ethereum/go-ethereum/rlp"

	"github.com/vechain/thor/v2/block"
	"github.com/vechain/thor/v2/thor"
	"github.com/vechain/thor/v2/trie"
	"github.com/vechain/thor/v2/tx"

	"verif/harness/internal/hx"
)

func hb(b []byte) string { return hx.Hex(b) }
func hn(x uint64) string { return hx.U(x) }
func hbig(x *big.Int) string {
	if x == nil {
		return "0"
	}
	return hx.HexN(x.Bytes())
}
func hexTok(b []byte) string {
	if len(b) == 0 {
		return "-"
	}
	return hx.Hex(b)
}

// Obs is what the implementation did with one input.
type Obs struct {
	OK     bool
	Dump   string
	Reenc  []byte
	Size   string // hex or "-"
	SignH  *thor.Bytes32
	IG     string // IntrinsicGas(): hex, "err", or "-" (blocks: comma-joined per tx)
	Fails  []string // property failures observed directly on the implementation (class:detail)
	ErrTxt string
}

func safely(name string, fails *[]string, f func()) {
	defer func() {
		if r := recover(); r != nil {
			*fails = append(*fails, fmt.Sprintf("panic:%s: %v", name, r))
		}
	}()
	f()
}

// two fixed, different typed transactions that are marshalled between taking an encoding and using it: an encoding
// handed out by MarshalBinary / EncodeRLP must stay what it was whatever is encoded afterwards
var interleaved = []*tx.Transaction{
	tx.NewBuilder(tx.TypeDynamicFee).ChainTag(0xa5).Nonce(0x1111111111111111).Gas(77777).MaxFeePerGas(big.NewInt(0x5a5a5a5a)).Build(),
	tx.NewBuilder(tx.TypeLegacy).ChainTag(0x5a).Nonce(0x2222222222222222).Gas(88888).GasPriceCoef(200).Build(),
}

func disturb() {
	for _, x := range interleaved {
		_, _ = x.MarshalBinary()
		_, _ = rlp.EncodeToBytes(x)
		_ = x.Hash()
	}
}

// stableMarshal: MarshalBinary, a copy taken at once, other transactions encoded, then the comparison
func stableMarshal(t *tx.Transaction, fails *[]string) []byte {
	mb, err := t.MarshalBinary()
	if err != nil {
		*fails = append(*fails, "encode-error:decoded tx does not marshal")
		return nil
	}
	cp := bytes.Clone(mb)
	disturb()
	if !bytes.Equal(mb, cp) {
		*fails = append(*fails, "encoding-aliased:the bytes returned by MarshalBinary changed after another transaction was encoded")
	}
	return mb
}

type encList [][]byte

func (l encList) Len() int                 { return len(l) }
func (l encList) EncodeIndex(i int) []byte { return l[i] }

// refTxsRoot: trie.DeriveRoot over private copies of the canonical encodings, taken one at a time
func refTxsRoot(txs tx.Transactions) thor.Bytes32 {
	var l encList
	for _, t := range txs {
		mb, _ := t.MarshalBinary()
		l = append(l, bytes.Clone(mb))
	}
	return trie.DeriveRoot(l)
}

func checkTxsRoot(txs tx.Transactions, fails *[]string) {
	if got, want := txs.RootHash(), refTxsRoot(txs); got != want {
		*fails = append(*fails, fmt.Sprintf("root-mismatch:Transactions.RootHash() of %d txs differs from DeriveRoot over copies of their encodings", len(txs)))
	}
}

func igOf(t *tx.Transaction) (s string) {
	defer func() {
		if recover() != nil {
			s = "panic"
		}
	}()
	g, err := t.IntrinsicGas()
	if err != nil {
		return "err"
	}
	return hn(g)
}

func dumpTx(t *tx.Transaction) string {
	var cl []string
	for _, c := range t.Clauses() {
		to := "nil"
		if a := c.To(); a != nil {
			to = hb(a[:])
		}
		cl = append(cl, strings.Join([]string{to, hbig(c.Value()), hb(c.Data())}, ":"))
	}
	ty := "0"
	if t.Type() == tx.TypeDynamicFee {
		ty = "51"
	} else if t.Type() != tx.TypeLegacy {
		ty = fmt.Sprintf("?%x", t.Type())
	}
	dep := "nil"
	if d := t.DependsOn(); d != nil {
		dep = hb(d[:])
	}
	br := t.BlockRef()
	return "T" + strings.Join([]string{ty, hn(uint64(t.ChainTag())), hn(binary.BigEndian.Uint64(br[:])), hn(uint64(t.Expiration())),
		"[" + strings.Join(cl, ";") + "]", hn(uint64(t.GasPriceCoef())), hbig(t.MaxPriorityFeePerGas()), hbig(t.MaxFeePerGas()),
		hn(t.Gas()), dep, hn(t.Nonce()), hn(uint64(t.Features())), hb(t.Signature())}, ",")
}

func dumpHeader(h *block.Header) string {
	bf := "nil"
	if f := h.BaseFee(); f != nil {
		bf = hbig(f)
	}
	p, bn, tr, sr, rr := h.ParentID(), h.Beneficiary(), h.TxsRoot(), h.StateRoot(), h.ReceiptsRoot()
	return "H" + strings.Join([]string{hb(p[:]), hn(h.Timestamp()), hn(h.GasLimit()), hb(bn[:]), hn(h.GasUsed()), hn(h.TotalScore()),
		hb(tr[:]), hn(uint64(h.TxsFeatures())), hb(sr[:]), hb(rr[:]), hb(h.Signature()), hb(h.Alpha()), hx.B(h.COM()), bf}, ",")
}

func dumpReceipt(r *tx.Receipt) string {
	ty := "0"
	if r.Type == tx.TypeDynamicFee {
		ty = "51"
	} else if r.Type != tx.TypeLegacy {
		ty = fmt.Sprintf("?%x", r.Type)
	}
	var outs strings.Builder
	for _, o := range r.Outputs {
		var evs, trs []string
		for _, e := range o.Events {
			var tp []string
			for _, t := range e.Topics {
				tp = append(tp, hb(t[:]))
			}
			evs = append(evs, strings.Join([]string{hb(e.Address[:]), strings.Join(tp, "/"), hb(e.Data)}, ":"))
		}
		for _, t := range o.Transfers {
			trs = append(trs, strings.Join([]string{hb(t.Sender[:]), hb(t.Recipient[:]), hbig(t.Amount)}, ":"))
		}
		outs.WriteString("{[" + strings.Join(evs, ";") + "]|[" + strings.Join(trs, ";") + "]}")
	}
	return "R" + strings.Join([]string{ty, hn(r.GasUsed), hb(r.GasPayer[:]), hbig(r.Paid), hbig(r.Reward), hx.B(r.Reverted), "[" + outs.String() + "]"}, ",")
}

func dumpBlock(b *block.Block) string {
	var ts []string
	for _, t := range b.Transactions() {
		ts = append(ts, dumpTx(t))
	}
	return "B{" + dumpHeader(b.Header()) + "}{" + strings.Join(ts, "|") + "}"
}

// every accessor of a decoded transaction, under recover; returns direct property failures
func exerciseTx(t *tx.Transaction, marshal []byte, fails *[]string) {
	safely("tx-accessors", fails, func() {
		id, h, sz := t.ID(), t.Hash(), t.Size()
		_, _ = t.Origin()
		_, _ = t.Delegator()
		_, _ = t.IntrinsicGas()
		_ = t.UnprovedWork()
		_ = t.SigningHash()
		_ = t.String()
		_ = t.IsExpired(10)
		_ = t.TestFeatures(tx.DelegationFeature)
		_ = t.EnforceSignatureLowS()
		_ = t.EvaluateWork(thor.Address{})(1)
		_ = t.OverallGasPrice(big.NewInt(1e13), big.NewInt(5))
		_ = t.EffectiveGasPrice(big.NewInt(1e13), big.NewInt(1e13))
		_, _ = t.ProvedWork(100, func(uint32) (thor.Bytes32, error) { return thor.Bytes32{}, nil })
		if t.ID() != id || t.Hash() != h || t.Size() != sz {
			*fails = append(*fails, "unstable:tx id/hash/size differ between two calls")
		}
		if marshal != nil {
			if uint64(sz) != uint64(len(marshal)) {
				*fails = append(*fails, fmt.Sprintf("size-mismatch:tx Size()=%d but the canonical encoding has %d bytes", sz, len(marshal)))
			}
			if thor.Blake2b(marshal) != h {
				*fails = append(*fails, "hash-mismatch:tx Hash() is not the hash of its canonical encoding")
			}
		}
	})
}

func exerciseHeader(h *block.Header, fails *[]string) {
	safely("header-accessors", fails, func() {
		id := h.ID()
		_ = h.SigningHash()
		_, _ = h.Signer()
		_, _ = h.Beta()
		_ = h.String()
		_ = h.Number()
		_ = h.BetterThan(h)
		if h.ID() != id {
			*fails = append(*fails, "unstable:header id differs between two calls")
		}
		if block.Number(id) != h.Number() {
			*fails = append(*fails, "id-number:header id does not carry the block number")
		}
	})
}

// observe decodes `in` the way `kind` says, re-encodes, calls every accessor.
func observe(kind string, in []byte) (o Obs) {
	defer func() {
		if r := recover(); r != nil {
			o.OK = false
			o.Fails = append(o.Fails, fmt.Sprintf("panic:decode-%s: %v", kind, r))
		}
	}()
	switch kind {
	case "TX", "TXB":
		var t tx.Transaction
		var err error
		if kind == "TX" {
			err = rlp.DecodeBytes(in, &t)
		} else {
			err = t.UnmarshalBinary(in)
		}
		if err != nil {
			o.ErrTxt = err.Error()
			return
		}
		o.OK = true
		o.Dump = dumpTx(&t)
		mb := stableMarshal(&t, &o.Fails)
		re, err2 := rlp.EncodeToBytes(&t)
		if err2 != nil {
			o.Fails = append(o.Fails, "encode-error:decoded tx does not encode")
		}
		reCopy := bytes.Clone(re)
		disturb()
		if !bytes.Equal(re, reCopy) {
			o.Fails = append(o.Fails, "encoding-aliased:the bytes returned by rlp.EncodeToBytes(tx) changed after another transaction was encoded")
		}
		if kind == "TX" {
			o.Reenc = re
		} else {
			o.Reenc = mb
		}
		o.Size = hn(uint64(t.Size()))
		o.IG = igOf(&t)
		sh := t.SigningHash()
		o.SignH = &sh
		exerciseTx(&t, mb, &o.Fails)
		// a second decode of the re-encoding must give the same object (idempotence of the canonical form)
		var t2 tx.Transaction
		if err := rlp.DecodeBytes(re, &t2); err != nil || dumpTx(&t2) != o.Dump || t2.ID() != t.ID() || t2.Hash() != t.Hash() {
			o.Fails = append(o.Fails, "reencode-unstable:tx re-encoding does not decode to the same object/id/hash")
		}
	case "HDR":
		var h block.Header
		if err := rlp.DecodeBytes(in, &h); err != nil {
			o.ErrTxt = err.Error()
			return
		}
		o.OK = true
		o.Dump = dumpHeader(&h)
		re, err := rlp.EncodeToBytes(&h)
		if err != nil {
			o.Fails = append(o.Fails, "encode-error:decoded header does not encode")
		}
		o.Reenc, o.Size, o.IG = re, "-", "-"
		sh := h.SigningHash()
		o.SignH = &sh
		exerciseHeader(&h, &o.Fails)
		var h2 block.Header
		if err := rlp.DecodeBytes(re, &h2); err != nil || dumpHeader(&h2) != o.Dump || h2.ID() != h.ID() {
			o.Fails = append(o.Fails, "reencode-unstable:header re-encoding does not decode to the same object/id")
		}
	case "RCP", "RCPB":
		var r tx.Receipt
		var err error
		if kind == "RCP" {
			err = rlp.DecodeBytes(in, &r)
		} else {
			err = r.UnmarshalBinary(in)
		}
		if err != nil {
			o.ErrTxt = err.Error()
			return
		}
		o.OK = true
		o.Dump = dumpReceipt(&r)
		var re []byte
		if kind == "RCP" {
			re, err = rlp.EncodeToBytes(&r)
		} else {
			re, err = r.MarshalBinary()
		}
		if err != nil {
			o.Fails = append(o.Fails, "encode-error:decoded receipt does not encode")
		}
		o.Reenc, o.Size, o.IG = re, "-", "-"
		safely("receipt-root", &o.Fails, func() { _ = tx.Receipts{&r}.RootHash() })
	case "BLK", "RBLK":
		var b *block.Block
		if kind == "BLK" {
			var blk block.Block
			if err := rlp.DecodeBytes(in, &blk); err != nil {
				o.ErrTxt = err.Error()
				return
			}
			b = &blk
		} else {
			rb, err := block.DecodeRawBlock(in)
			if err != nil {
				o.ErrTxt = err.Error()
				return
			}
			b, err = rb.Decode()
			if err != nil {
				o.ErrTxt = err.Error()
				return
			}
			if rb.Header() != b.Header() {
				o.Fails = append(o.Fails, "rawblock:header object differs between the two phases")
			}
		}
		o.OK = true
		o.Dump = dumpBlock(b)
		re, err := rlp.EncodeToBytes(b)
		if err != nil {
			o.Fails = append(o.Fails, "encode-error:decoded block does not encode")
		}
		o.Reenc = re
		safely("block-accessors", &o.Fails, func() {
			sz := b.Size()
			o.Size = hn(uint64(sz))
			if uint64(sz) != uint64(len(re)) {
				o.Fails = append(o.Fails, fmt.Sprintf("size-mismatch:block Size()=%d but the canonical encoding has %d bytes", sz, len(re)))
			}
			_ = b.String()
			checkTxsRoot(b.Transactions(), &o.Fails)
			_ = b.Body()
		})
		exerciseHeader(b.Header(), &o.Fails)
		var igs []string
		for _, t := range b.Transactions() {
			mb := stableMarshal(t, &o.Fails)
			exerciseTx(t, mb, &o.Fails)
			igs = append(igs, igOf(t))
		}
		if o.IG = strings.Join(igs, ","); o.IG == "" {
			o.IG = "-"
		}
	default:
		hx.Fatal("unknown kind %q", kind)
	}
	if o.OK && !bytes.Equal(o.Reenc, in) {
		o.Fails = append(o.Fails, "reencode-differs:"+classifyNonCanonical(kind, in, o.Reenc))
	}
	return
}

// ---------------------------------------------------------------- which non-canonical class is it (implementation side, model not consulted)

// elems splits the content of an RLP list into the raw encodings of its elements (nil if malformed).
func elems(list []byte) [][]byte {
	content, _, err := rlp.SplitList(list)
	if err != nil {
		return nil
	}
	var out [][]byte
	for len(content) > 0 {
		_, _, rest, err := rlp.Split(content)
		if err != nil {
			return nil
		}
		out = append(out, content[:len(content)-len(rest)])
		content = rest
	}
	return out
}

// txNilListOffsets returns the offsets (relative to `raw`) of 0xc0 bytes sitting in an rlp:"nil" position
// (Clause.To, DependsOn) of one transaction encoding (stream form: legacy list or typed string envelope).
func txNilListOffsets(raw []byte, base int) []int {
	if len(raw) == 0 {
		return nil
	}
	body, bodyOff, depIdx := raw, 0, 6
	if raw[0] < 0xc0 { // typed: string envelope or bare binary form
		if raw[0] >= 0x80 {
			content, _, err := rlp.SplitString(raw)
			if err != nil {
				return nil
			}
			bodyOff = len(raw) - len(content)
			body = content
		}
		if len(body) < 2 || body[0] != tx.TypeDynamicFee {
			return nil
		}
		body, bodyOff, depIdx = body[1:], bodyOff+1, 7
	}
	fs := elems(body)
	if fs == nil || len(fs) <= depIdx {
		return nil
	}
	off := func(sub []byte, parent []byte, parentOff int) int { // offset of subslice sub within parent
		return parentOff + (cap(parent) - cap(sub))
	}
	var out []int
	if len(fs[depIdx]) == 1 && fs[depIdx][0] == 0xc0 {
		out = append(out, base+off(fs[depIdx], body, bodyOff))
	}
	for _, c := range elems(fs[3]) {
		cf := elems(c)
		if len(cf) > 0 && len(cf[0]) == 1 && cf[0][0] == 0xc0 {
			out = append(out, base+off(cf[0], body, bodyOff))
		}
	}
	return out
}

func nilListOffsets(kind string, in []byte) []int {
	switch kind {
	case "TX", "TXB":
		return txNilListOffsets(in, 0)
	case "BLK", "RBLK":
		top := elems(in)
		if len(top) != 2 {
			return nil
		}
		var out []int
		for _, t := range elems(top[1]) {
			out = append(out, txNilListOffsets(t, cap(in)-cap(t))...)
		}
		return out
	}
	return nil
}

// classifyNonCanonical names the input class of a decodable byte string whose re-encoding differs.
func classifyNonCanonical(kind string, in, re []byte) string {
	if offs := nilListOffsets(kind, in); len(offs) > 0 && len(in) == len(re) {
		fixed := bytes.Clone(in)
		for _, o := range offs {
			if o >= 0 && o < len(fixed) && fixed[o] == 0xc0 {
				fixed[o] = 0x80
			}
		}
		if bytes.Equal(fixed, re) {
			return "empty-list-in-rlp-nil-position"
		}
	}
	if kind == "HDR" || kind == "BLK" || kind == "RBLK" {
		hdr := in
		if kind != "HDR" {
			if top := elems(in); len(top) == 2 {
				hdr = top[0]
			}
		}
		if fs := elems(hdr); len(fs) >= 7 && len(fs[6]) > 0 && fs[6][0] >= 0xc0 {
			if tf := elems(fs[6]); len(tf) == 2 && len(tf[1]) == 1 && tf[1][0] == 0x80 {
				return "txsroot-list-with-zero-features"
			}
		}
	}
	return "other-" + kind
}
