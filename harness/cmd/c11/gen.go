// gen.go — structure-aware generation: valid objects from the real builders -> real encoding -> item tree ->
// tree mutations (0x80<->0xc0, list/string swaps, reserved / extension tails, envelope nesting, oversized counts)
// -> bytes -> byte mutations (length prefixes, trailing bytes, truncation, flips); plus raw random bytes.
package main

import (
	"crypto/ecdsa"
	"math/big"

	"github.com/ethereum/go-ethereum/crypto"
	"github.com/ethereum/go-ethereum/rlp"

	"github.com/vechain/thor/v2/block"
	"github.com/vechain/thor/v2/thor"
	"github.com/vechain/thor/v2/tx"

	"verif/harness/internal/hx"
)

// ---------------------------------------------------------------- item trees

type item struct {
	list bool
	str  []byte
	kids []*item
	raw  []byte // if non-nil: emitted verbatim (used for deliberately malformed / non-canonical sub-encodings)
	long int    // >0: force the long length form with this many length bytes (non-canonical if not needed)
}

func S(b []byte) *item      { return &item{str: b} }
func L(k ...*item) *item    { return &item{list: true, kids: k} }
func RawItem(b []byte) *item { return &item{raw: b} }

func lenBytes(n int, width int) []byte {
	var b []byte
	for x := n; x > 0; x >>= 8 {
		b = append([]byte{byte(x)}, b...)
	}
	for len(b) < width {
		b = append([]byte{0}, b...)
	}
	return b
}

func head(base byte, n int, long int) []byte {
	if long > 0 {
		lb := lenBytes(n, long)
		if len(lb) > 8 {
			lb = lb[len(lb)-8:]
		}
		return append([]byte{base + 55 + byte(len(lb))}, lb...)
	}
	if n < 56 {
		return []byte{base + byte(n)}
	}
	lb := lenBytes(n, 0)
	return append([]byte{base + 55 + byte(len(lb))}, lb...)
}

func (it *item) enc() []byte {
	if it.raw != nil {
		return it.raw
	}
	if !it.list {
		if len(it.str) == 1 && it.str[0] < 0x80 && it.long == 0 {
			return []byte{it.str[0]}
		}
		return append(head(0x80, len(it.str), it.long), it.str...)
	}
	var p []byte
	for _, k := range it.kids {
		p = append(p, k.enc()...)
	}
	return append(head(0xc0, len(p), it.long), p...)
}

// splitLoose reads one value with a canonical length header but without the "single byte below 0x80 must be bare"
// rule (rlp.Stream.Raw accepts such strings inside reserved / extension lists, rlp.Split does not).
func splitLoose(b []byte) (list bool, content, rest []byte, ok bool) {
	if len(b) == 0 {
		return
	}
	x := b[0]
	var base byte
	switch {
	case x < 0x80:
		return false, b[:1], b[1:], true
	case x < 0xc0:
		base = 0x80
	default:
		base, list = 0xc0, true
	}
	n, hl := int(x-base), 1
	if n > 55 {
		ll := n - 55
		if len(b) < 1+ll || b[1] == 0 {
			return
		}
		n = 0
		for _, y := range b[1 : 1+ll] {
			if n > 1<<40 {
				return
			}
			n = n<<8 | int(y)
		}
		if n < 56 {
			return
		}
		hl = 1 + ll
	}
	if len(b) < hl+n {
		return
	}
	return list, b[hl : hl+n], b[hl+n:], true
}

// parse an encoding into a tree (nil on anything unexpected); non-canonical one-byte strings are kept verbatim
func parseItem(b []byte) (*item, []byte) {
	list, content, rest, ok := splitLoose(b)
	if !ok {
		return nil, nil
	}
	if !list {
		it := S(append([]byte{}, content...))
		if len(content) == 1 && content[0] < 0x80 && b[0] == 0x81 {
			it.raw = []byte{0x81, content[0]}
		}
		return it, rest
	}
	it := L()
	for len(content) > 0 {
		var kid *item
		kid, content = parseItem(content)
		if kid == nil {
			// a list whose content is not a sequence of values (possible inside raw values): keep it verbatim
			return RawItem(append([]byte{}, b[:len(b)-len(rest)]...)), rest
		}
		it.kids = append(it.kids, kid)
	}
	return it, rest
}

func (it *item) clone() *item {
	c := *it
	c.str = append([]byte{}, it.str...)
	c.kids = nil
	for _, k := range it.kids {
		c.kids = append(c.kids, k.clone())
	}
	return &c
}

func (it *item) nodes(out *[]*item) {
	*out = append(*out, it)
	for _, k := range it.kids {
		k.nodes(out)
	}
}

// ---------------------------------------------------------------- valid objects from the real builders

func key(r *hx.Rand) *ecdsa.PrivateKey {
	for {
		k, err := crypto.ToECDSA(r.Bytes(32))
		if err == nil {
			return k
		}
	}
}

func randBig(r *hx.Rand) *big.Int {
	switch r.Intn(6) {
	case 0:
		return new(big.Int)
	case 1:
		return big.NewInt(int64(r.Intn(128)))
	case 2:
		return big.NewInt(int64(128 + r.Intn(128)))
	case 3:
		return new(big.Int).SetBytes(r.Bytes(32))
	default:
		return new(big.Int).SetBytes(r.Bytes(1 + r.Intn(12)))
	}
}

func randU64(r *hx.Rand) uint64 {
	switch r.Intn(6) {
	case 0:
		return 0
	case 1:
		return uint64(r.Intn(128))
	case 2:
		return 127 + uint64(r.Intn(3))
	case 3:
		return ^uint64(0) - uint64(r.Intn(2))
	default:
		return r.Uint64() >> uint(r.Intn(64))
	}
}

func randData(r *hx.Rand) []byte {
	switch r.Intn(7) {
	case 0:
		return nil
	case 1:
		return []byte{byte(r.Intn(128))}
	case 2:
		return []byte{byte(128 + r.Intn(128))}
	case 3:
		return r.Bytes(55 + r.Intn(3))
	case 4:
		return make([]byte, r.Intn(40))
	default:
		return r.Bytes(r.Intn(70))
	}
}

type txSpec struct {
	Type     byte
	ChainTag byte
	BlockRef uint64
	Exp      uint32
	Clauses  []*tx.Clause
	GPC      uint8
	Prio     *big.Int
	Fee      *big.Int
	Gas      uint64
	Dep      *thor.Bytes32
	Nonce    uint64
	Feat     tx.Features
}

func randClause(r *hx.Rand) *tx.Clause {
	var to *thor.Address
	if !r.Chance(1, 3) {
		a := thor.BytesToAddress(r.Bytes(20))
		to = &a
	}
	return tx.NewClause(to).WithValue(randBig(r)).WithData(randData(r))
}

func randTxSpec(r *hx.Rand) *txSpec {
	s := &txSpec{ChainTag: byte(r.Uint64()), BlockRef: randU64(r), Exp: uint32(randU64(r)), GPC: uint8(randU64(r)),
		Prio: randBig(r), Fee: randBig(r), Gas: randU64(r), Nonce: randU64(r)}
	if r.Bool() {
		s.Type = tx.TypeDynamicFee
	}
	for i, n := 0, []int{0, 1, 1, 2, 3, 6}[r.Intn(6)]; i < n; i++ {
		s.Clauses = append(s.Clauses, randClause(r))
	}
	if r.Chance(1, 3) {
		d := thor.BytesToBytes32(r.Bytes(32))
		s.Dep = &d
	}
	switch r.Intn(5) {
	case 0:
		s.Feat = 1
	case 1:
		s.Feat = tx.Features(r.Uint64())
	}
	return s
}

func (s *txSpec) build() *tx.Transaction {
	b := tx.NewBuilder(s.Type).ChainTag(s.ChainTag).BlockRef(blockRefOf(s.BlockRef)).Expiration(s.Exp).Clauses(s.Clauses).
		GasPriceCoef(s.GPC).MaxPriorityFeePerGas(s.Prio).MaxFeePerGas(s.Fee).Gas(s.Gas).DependsOn(s.Dep).Nonce(s.Nonce).Features(s.Feat)
	return b.Build()
}

func blockRefOf(x uint64) (br tx.BlockRef) {
	for i := 7; i >= 0; i-- {
		br[i] = byte(x)
		x >>= 8
	}
	return
}

func signTx(r *hx.Rand, t *tx.Transaction, k, dk *ecdsa.PrivateKey) *tx.Transaction {
	switch {
	case t.Features().IsDelegated() && !r.Chance(1, 8):
		return tx.MustSignDelegated(t, k, dk)
	case r.Chance(1, 12):
		return t.WithSignature(r.Bytes([]int{0, 1, 64, 65, 66, 130}[r.Intn(6)])) // junk signature
	case r.Chance(1, 20):
		return t // unsigned
	default:
		return tx.MustSign(t, k)
	}
}

func randTx(r *hx.Rand) *tx.Transaction {
	return signTx(r, randTxSpec(r).build(), key(r), key(r))
}

type hdrSpec struct {
	Parent   thor.Bytes32
	Ts       uint64
	GasLimit uint64
	Benef    thor.Address
	GasUsed  uint64
	Score    uint64
	Feat     tx.Features
	State    thor.Bytes32
	Receipts thor.Bytes32
	Alpha    []byte
	COM      bool
	BaseFee  *big.Int
}

func randHdrSpec(r *hx.Rand) *hdrSpec {
	s := &hdrSpec{Parent: thor.BytesToBytes32(r.Bytes(32)), Ts: randU64(r), GasLimit: randU64(r), Benef: thor.BytesToAddress(r.Bytes(20)),
		GasUsed: randU64(r), Score: randU64(r), State: thor.BytesToBytes32(r.Bytes(32)), Receipts: thor.BytesToBytes32(r.Bytes(32))}
	if r.Chance(1, 10) {
		copy(s.Parent[:4], []byte{0xff, 0xff, 0xff, 0xff}) // genesis-like number 0 after +1 wrap
	}
	if r.Chance(1, 3) {
		s.Feat = tx.Features(1 + r.Intn(3))
	}
	switch r.Intn(4) { // extension shapes: none / alpha / alpha+COM / full
	case 1:
		s.Alpha = r.Bytes(1 + r.Intn(40))
	case 2:
		s.Alpha, s.COM = randData(r), true
	case 3:
		s.Alpha, s.COM, s.BaseFee = randData(r), r.Bool(), randBig(r)
	}
	return s
}

func (s *hdrSpec) build(r *hx.Rand, txs []*tx.Transaction, k *ecdsa.PrivateKey) *block.Block {
	b := new(block.Builder).ParentID(s.Parent).Timestamp(s.Ts).GasLimit(s.GasLimit).Beneficiary(s.Benef).GasUsed(s.GasUsed).
		TotalScore(s.Score).StateRoot(s.State).ReceiptsRoot(s.Receipts).TransactionFeatures(s.Feat)
	if len(s.Alpha) > 0 || s.COM || s.BaseFee != nil {
		b.Alpha(s.Alpha)
	}
	if s.COM {
		b.COM()
	}
	if s.BaseFee != nil {
		b.BaseFee(s.BaseFee)
	}
	for _, t := range txs {
		b.Transaction(t)
	}
	blk := b.Build()
	if k == nil {
		return blk
	}
	sig, _ := crypto.Sign(blk.Header().SigningHash().Bytes(), k)
	switch r.Intn(6) {
	case 0:
		sig = append(sig, r.Bytes(81)...) // complex signature with a junk VRF proof
	case 1:
		sig = r.Bytes([]int{0, 1, 64, 66, 146}[r.Intn(5)])
	}
	return blk.WithSignature(sig)
}

func randBlock(r *hx.Rand) *block.Block {
	var txs []*tx.Transaction
	for i, n := 0, []int{0, 0, 1, 2, 4}[r.Intn(5)]; i < n; i++ {
		txs = append(txs, randTx(r))
	}
	return randHdrSpec(r).build(r, txs, key(r))
}

func randReceipt(r *hx.Rand) *tx.Receipt {
	rc := &tx.Receipt{GasUsed: randU64(r), GasPayer: thor.BytesToAddress(r.Bytes(20)), Paid: randBig(r), Reward: randBig(r), Reverted: r.Bool()}
	if r.Bool() {
		rc.Type = tx.TypeDynamicFee
	}
	for i, n := 0, r.Intn(4); i < n; i++ {
		o := &tx.Output{}
		for j, m := 0, r.Intn(3); j < m; j++ {
			e := &tx.Event{Address: thor.BytesToAddress(r.Bytes(20)), Data: randData(r)}
			for q, nt := 0, r.Intn(5); q < nt; q++ {
				e.Topics = append(e.Topics, thor.BytesToBytes32(r.Bytes(32)))
			}
			o.Events = append(o.Events, e)
		}
		for j, m := 0, r.Intn(3); j < m; j++ {
			o.Transfers = append(o.Transfers, &tx.Transfer{Sender: thor.BytesToAddress(r.Bytes(20)), Recipient: thor.BytesToAddress(r.Bytes(20)), Amount: randBig(r)})
		}
		rc.Outputs = append(rc.Outputs, o)
	}
	return rc
}

// ---------------------------------------------------------------- mutations

func mustEnc(v any) []byte {
	b, err := rlp.EncodeToBytes(v)
	if err != nil {
		hx.Fatal("encode: %v", err)
	}
	return b
}

var interesting = [][]byte{{0x80}, {0xc0}, {0x00}, {0x01}, {0x02}, {0x7f}, {0x81, 0x00}, {0x81, 0x05}, {0x81, 0x80}, {0x82, 0x00, 0x01},
	{0xb8, 0x01, 0x80}, {0xf8, 0x00}, {0xc1, 0x80}, {0xc1, 0xc0}, {0xc3, 0xff, 0xff, 0xff}, {0xc2, 0x81, 0x05}, {0x83, 0x01, 0x02, 0x03}}

// the body list of a tx tree (legacy: the tree itself; typed: not a tree — handled by the caller)
func mutateTree(r *hx.Rand, root *item, ctx *hx.Ctx) {
	var ns []*item
	root.nodes(&ns)
	n := ns[r.Intn(len(ns))]
	switch m := r.Intn(14); m {
	case 0: // empty string <-> empty list anywhere (rlp:"nil" positions among them)
		var cands []*item
		for _, x := range ns {
			if (x.list && len(x.kids) == 0) || (!x.list && len(x.str) == 0) {
				cands = append(cands, x)
			}
		}
		if len(cands) > 0 {
			x := cands[r.Intn(len(cands))]
			x.list = !x.list
			ctx.Cov.Count("mut=empty-str<->empty-list")
		}
	case 1: // a 20/32-byte string -> empty list / empty string (pointer positions)
		var cands []*item
		for _, x := range ns {
			if !x.list && (len(x.str) == 20 || len(x.str) == 32) {
				cands = append(cands, x)
			}
		}
		if len(cands) > 0 {
			x := cands[r.Intn(len(cands))]
			x.str = nil
			x.list = r.Bool()
			ctx.Cov.Count("mut=array->empty")
		}
	case 2: // string <-> list swap
		if n.list {
			p := []byte{}
			for _, k := range n.kids {
				p = append(p, k.enc()...)
			}
			n.list, n.kids, n.str = false, nil, p
		} else {
			n.list, n.kids = true, []*item{S(n.str)}
		}
		ctx.Cov.Count("mut=list<->string")
	case 3: // drop a child
		if n.list && len(n.kids) > 0 {
			i := r.Intn(len(n.kids))
			n.kids = append(n.kids[:i:i], n.kids[i+1:]...)
			ctx.Cov.Count("mut=drop-child")
		}
	case 4: // append / insert a child (reserved tails, extension tails, extra struct fields)
		if n.list {
			k := RawItem(interesting[r.Intn(len(interesting))])
			i := len(n.kids)
			if r.Chance(1, 3) {
				i = r.Intn(len(n.kids) + 1)
			}
			n.kids = append(n.kids[:i:i], append([]*item{k}, n.kids[i:]...)...)
			ctx.Cov.Count("mut=add-child")
		}
	case 5: // duplicate a child
		if n.list && len(n.kids) > 0 {
			i := r.Intn(len(n.kids))
			n.kids = append(n.kids[:i+1:i+1], n.kids[i:]...)
			ctx.Cov.Count("mut=dup-child")
		}
	case 6: // integer / byte content edits: leading zero, +-1 length, single bytes around 0x80
		if !n.list {
			switch r.Intn(6) {
			case 0:
				n.str = append([]byte{0}, n.str...)
			case 1:
				n.str = append(n.str, byte(r.Uint64()))
			case 2:
				if len(n.str) > 0 {
					n.str = n.str[1:]
				}
			case 3:
				n.str = []byte{byte(r.Intn(256))}
			case 4:
				n.str = r.Bytes(r.Intn(10))
			case 5:
				n.str = nil
			}
			ctx.Cov.Count("mut=string-content")
		}
	case 7: // non-canonical length form
		n.long = 1 + r.Intn(3)
		if r.Chance(1, 8) {
			n.long = 8
		}
		ctx.Cov.Count("mut=long-length-form")
	case 8: // single byte below 0x80 written with a 0x81 prefix
		if !n.list && len(n.str) == 1 && n.str[0] < 0x80 {
			n.raw = []byte{0x81, n.str[0]}
			ctx.Cov.Count("mut=0x81-prefix")
		}
	case 9: // replace by an interesting raw value
		n.raw = interesting[r.Intn(len(interesting))]
		ctx.Cov.Count("mut=raw-replace")
	case 10: // trailing list tails: [x, 0x80], [x, 0xc0], [x, y, 0x80 ...]
		var lists []*item
		for _, x := range ns {
			if x.list {
				lists = append(lists, x)
			}
		}
		if len(lists) == 0 {
			return
		}
		x := lists[r.Intn(len(lists))]
		for i, k := 0, 1+r.Intn(3); i < k; i++ {
			x.kids = append(x.kids, RawItem(interesting[r.Intn(4)]))
		}
		ctx.Cov.Count("mut=tail")
	case 11: // wrap a node in a list / a string
		c := n.clone()
		if r.Bool() {
			*n = *L(c)
		} else {
			*n = *S(c.enc())
		}
		ctx.Cov.Count("mut=wrap")
	case 12: // a small list -> [root, features]-like pair or back
		if !n.list && len(n.str) == 32 {
			f := interesting[r.Intn(6)]
			*n = *L(S(n.str), RawItem(f))
			ctx.Cov.Count("mut=root->pair")
		}
	default:
		ctx.Cov.Count("mut=none")
	}
}

func mutateBytes(r *hx.Rand, b []byte, ctx *hx.Ctx) []byte {
	b = append([]byte{}, b...)
	switch r.Intn(9) {
	case 0:
		if len(b) > 0 {
			b[r.Intn(len(b))] ^= 1 << uint(r.Intn(8))
			ctx.Cov.Count("bmut=bitflip")
		}
	case 1:
		b = append(b, interesting[r.Intn(len(interesting))]...)
		ctx.Cov.Count("bmut=trailing")
	case 2:
		if len(b) > 1 {
			b = b[:r.Intn(len(b))]
			ctx.Cov.Count("bmut=truncate")
		}
	case 3: // first-byte length +-1
		if len(b) > 0 {
			if r.Bool() {
				b[0]++
			} else {
				b[0]--
			}
			ctx.Cov.Count("bmut=head+-1")
		}
	case 4:
		if len(b) > 0 {
			i := r.Intn(len(b))
			b = append(b[:i:i], b[i+1:]...)
			ctx.Cov.Count("bmut=delete-byte")
		}
	case 5:
		i := r.Intn(len(b) + 1)
		b = append(b[:i:i], append([]byte{byte(r.Uint64())}, b[i:]...)...)
		ctx.Cov.Count("bmut=insert-byte")
	case 6:
		if len(b) > 0 {
			b[r.Intn(len(b))] = []byte{0x80, 0xc0, 0x00, 0x81, 0xb8, 0xf8, 0x51}[r.Intn(7)]
			ctx.Cov.Count("bmut=set-marker")
		}
	default:
		ctx.Cov.Count("bmut=none")
	}
	return b
}

// envelope games for typed transactions / receipts: payload is ty || rlp(body)
func typedVariants(r *hx.Rand, payload []byte, ctx *hx.Ctx) []byte {
	switch r.Intn(8) {
	case 0: // wrong type byte
		p := append([]byte{}, payload...)
		p[0] = []byte{0x00, 0x01, 0x02, 0x50, 0x52, 0x7f, 0x80, 0xc0}[r.Intn(8)]
		ctx.Cov.Count("env=wrong-type")
		return S(p).enc()
	case 1: // double envelope
		ctx.Cov.Count("env=double")
		return S(S(payload).enc()).enc()
	case 2: // type byte only / empty
		ctx.Cov.Count("env=short")
		return S(payload[:r.Intn(2)]).enc()
	case 3: // typed body inside a list instead of a string
		ctx.Cov.Count("env=list")
		return RawItem(append(head(0xc0, len(payload), 0), payload...)).enc()
	case 4: // trailing bytes inside the envelope
		ctx.Cov.Count("env=inner-trailing")
		return S(append(append([]byte{}, payload...), interesting[r.Intn(len(interesting))]...)).enc()
	case 5: // legacy body with a type prefix
		ctx.Cov.Count("env=bare")
		return payload
	default:
		return S(payload).enc()
	}
}

func randomBytes(r *hx.Rand) []byte {
	n := r.Intn(24)
	b := make([]byte, n)
	marks := []byte{0x80, 0xc0, 0x81, 0xb8, 0xc1, 0xc2, 0xf8, 0x51, 0x00, 0x01, 0xa0, 0x94, 0xd0}
	for i := range b {
		if r.Bool() {
			b[i] = marks[r.Intn(len(marks))]
		} else {
			b[i] = byte(r.Uint64())
		}
	}
	return b
}
