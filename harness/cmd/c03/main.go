// c03 — correspondence driver for property C03 (finality is safe; single-node monotonicity; liveness when honest).
// n real bft.Engine + chain.Repository nodes (bftsim) run seeded histories of Propose / Deliver / Byzantine block /
// Restart events; the extracted Coq model (oracle/c03) runs the same event list; after every event (result, best,
// finalized, justified, ShouldVote, block state) are diffed; the property's own predicates (pairwise conflict of honest
// finalized checkpoints, non-monotone finalized, CommitBlock error on an accepted block, liveness of honest runs) are
// evaluated on the implementation's answers.
package main

import (
	"encoding/json"
	"fmt"
	"os"
	"path/filepath"
	"sort"

	"verif/harness/internal/bftsim"
	"verif/harness/internal/hx"
)

func nontrivial(r *bftsim.Run, sc *bftsim.Script) bool {
	// at least two nodes reached finality beyond genesis and some block was delivered late or refused
	fin := 0
	for _, n := range r.Nodes {
		if n.Engine.Finalized() != r.Sim.Genesis.Header().ID() {
			fin++
		}
	}
	return fin >= 2 && len(r.Sim.Blocks) >= int(2*sc.Cfg.L)
}

func runReplay(ctx *hx.Ctx, path string) {
	b, err := os.ReadFile(path)
	if err != nil {
		hx.Fatal("%v", err)
	}
	var doc struct {
		Replay *bftsim.Case `json:"replay"`
	}
	if err := json.Unmarshal(b, &doc); err != nil || doc.Replay == nil || doc.Replay.Script == nil {
		hx.Fatal("bad replay file %s: %v", path, err)
	}
	bftsim.RunCases(ctx, []*bftsim.Case{doc.Replay}, nontrivial)
}

func main() {
	if os.Getenv("VERIF_F4REAL_ONLY") != "" {
		res, err := bftsim.F4Real()
		if os.Getenv("VERIF_F4REAL_ONLY") == "own" {
			res, err = bftsim.F4RealOwnProposal()
		}
		if res != nil {
			for _, l := range res.Log {
				fmt.Println(l)
			}
			fmt.Printf("conflict=%v %s(%s) vs %s(%s) nonmonotone=%v %s: %s -> %s\n", res.Conflict, res.A, res.NodeA, res.B, res.NodeB, res.NonMonotone, res.MonoNode, res.MonoFrom, res.MonoTo)
		}
		if err != nil {
			fmt.Println("F4Real:", err)
			os.Exit(1)
		}
		os.Exit(0)
	}
	ctx := hx.Init("C03")
	r := hx.NewRand(ctx.Seed)
	if ctx.Replay != "" {
		runReplay(ctx, ctx.Replay)
		ctx.Finish("replay", nil)
	}
	if dir := os.Getenv("VERIF_CORPUS"); dir != "" {
		files, _ := filepath.Glob(filepath.Join(dir, "*.json"))
		sort.Strings(files)
		for _, f := range files {
			runReplay(ctx, f)
			ctx.Cov.Count("corpus-files")
		}
	}
	// F4 at node level: real packer / PoA scheduler (slots, activity, scores), real consensus validation at every
	// delivery, real engines; honest validators only ever propose on their own best block (checked, never forced)
	if res, err := bftsim.F4Real(); err != nil {
		ctx.Cov.Count("f4-node-level:not-reproduced")
		fmt.Fprintf(os.Stderr, "F4 node-level replay did not run to its end: %v\n", err)
	} else {
		ctx.Cov.Count("f4-node-level:run")
		if res.Conflict && res.HonestOnBest {
			ctx.Violation(bftsim.F4Class, "two honest nodes finalize conflicting checkpoints ("+res.A+" at "+res.NodeA+", "+res.B+" at "+res.NodeB+
				") with one Byzantine validator of four; all blocks from the real packer/scheduler, all deliveries through consensus.Process, "+
				"honest proposals on the proposer's own best block with its own ShouldVote", map[string]any{"kind": "f4-node-level", "log": res.Log}, true)
		}
	}
	// the single-node consequence of F4: the same history until 18Y, then v1 imports 10X, 11X (finalizes 4X, best stays 18Y) and
	// packs 19Y itself (finalizes 12Y): finalized moves to a conflicting checkpoint on ONE honest node
	if res, err := bftsim.F4RealOwnProposal(); err != nil {
		ctx.Cov.Count("f17-node-level:not-reproduced")
		fmt.Fprintf(os.Stderr, "F17 node-level replay did not run to its end: %v\n", err)
	} else {
		ctx.Cov.Count("f17-node-level:run")
		if res.NonMonotone && res.HonestOnBest {
			ctx.Violation("property:"+bftsim.F17Class, "honest node "+res.MonoNode+" moves its finalized checkpoint from "+res.MonoFrom+" to "+res.MonoTo+
				", which does not descend from it (own proposal on a best block off the finalized branch; one Byzantine validator of four; real packer, scheduler, consensus, engine)",
				map[string]any{"kind": "f17-node-level", "log": res.Log}, true)
		}
	}
	var cases []*bftsim.Case
	// the engine-level history of DESIGN §5-F4 (scores are data of the script): correspondence only, see f4.go
	cases = append(cases, &bftsim.Case{Kind: "script", Label: "f4-engine-level", Script: bftsim.F4Script()})
	nNet := ctx.Scale(900, 20000)
	for i := 0; i < nNet; i++ {
		cases = append(cases, &bftsim.Case{Kind: "script", Safety: true, Label: "net", Script: bftsim.GenNet(r.Fork(uint64(i)), ctx.Thorough())})
	}
	nHonest := ctx.Scale(200, 4000)
	for i := 0; i < nHonest; i++ {
		cases = append(cases, &bftsim.Case{Kind: "script", Safety: true, Honest: true, Label: "honest", Script: bftsim.GenHonest(r.Fork(uint64(2_000_000+i)), ctx.Thorough())})
	}
	for lo := 0; lo < len(cases); lo += 400 {
		bftsim.RunCases(ctx, cases[lo:min(lo+400, len(cases))], nontrivial)
	}
	ctx.Finish("seeded multi-node histories: 4-7 validators of which f=(n-1)/3 Byzantine (any parent, any COM bit, equivocation), epoch length 3-8, "+
		"honest nodes proposing on their own best block with their engine's COM bit, random immediate/delayed/duplicated/withheld delivery, restarts; "+
		"all-honest timely histories with quiet epochs (liveness); the engine-level F4 history; every event's (result, best, finalized, justified, "+
		"ShouldVote, block state) on every node diffed against the extracted model; non-trivial = at least two nodes reached finality; distinct = hash of the script",
		[]string{"engine-level simulation: real bft.Engine + chain.Repository per node, really signed blocks, no consensus validation / transactions; block scores are data of the script",
			"PoA vote counting (forkConfig.FINALITY = 0, max-block-proposers = n); validator set fixed per run"})
}
