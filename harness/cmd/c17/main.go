// c17 — correspondence driver for property C17 (the validator set evolves only at epoch boundaries and stays well-formed).
// Shares internal/stakersim and the extracted model with C16; evaluates the C17 predicates (list well-formedness, total
// weight, changes only at epoch blocks, one exit per epoch, activation bounds, eviction threshold, 2/3 transition rule).
package main

import "verif/harness/internal/stakersim"

func main() { stakersim.Main("C17") }
