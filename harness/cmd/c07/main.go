// c07 — correspondence driver for property C07 (transactions are atomic; gas accounting stays within its bounds).
// Runs generated transactions through the real runtime.Runtime (tracer attached, full account-trie walks before/after),
// asks the extracted Coq model (oracle/c07) for the same case, diffs, and evaluates C07's own predicates on the
// implementation's receipts, clause-boundary gas and walks.
package main

import (
	"os"

	"verif/harness/internal/hx"
	"verif/harness/internal/txsim"
)

func main() {
	ctx := hx.Init("C07")
	if ctx.Replay != "" {
		if raw, err := os.ReadFile(ctx.Replay); err == nil {
			if cc := txsim.LoadChainReplay(raw); cc != nil {
				txsim.RunChains(ctx, "C07", []*txsim.ChainCase{cc})
				ctx.Finish("replay", nil)
			}
		}
		c := txsim.LoadReplay(ctx.Replay)
		if c == nil {
			hx.Fatal("bad replay file %s", ctx.Replay)
		}
		txsim.RunCases(ctx, "C07", []*txsim.Case{c})
		ctx.Finish("replay", nil)
	}
	if dir := os.Getenv("VERIF_CORPUS"); dir != "" {
		txs, chains := txsim.LoadCorpusAll(dir)
		txsim.RunCases(ctx, "C07", txs)
		txsim.RunChains(ctx, "C07", chains)
	}
	r := hx.NewRand(ctx.Seed)
	n := ctx.Scale(2500, 30000)
	batch := 100
	for done := 0; done < n; done += batch {
		var cases []*txsim.Case
		for i := 0; i < batch && done+i < n; i++ {
			cases = append(cases, txsim.GenCase(r))
		}
		txsim.RunCases(ctx, "C07", cases)
	}
	rc := r.Fork(77)
	var chains []*txsim.ChainCase
	for i := 0; i < ctx.Scale(150, 3500); i++ {
		chains = append(chains, txsim.GenChain(rc))
	}
	for i := 0; i < ctx.Scale(60, 1500); i++ {
		chains = append(chains, txsim.GenChainPoS(rc))
	}
	txsim.RunChains(ctx, "C07", chains)
	ctx.Finish(txsim.Rule+txsim.ChainRule, txsim.Assumptions)
}
