// gencheck — cross-check of the go2v translation (T): the generated Gallina definitions (extracted, oracle/gen) are run
// against the real Go functions they were translated from, on boundary-biased and random arguments.
// usage: gencheck -oracle <oracle/gen/oracle.exe> -seed N -names GasLimit,Sequence,Epoch,PoolSync
// prints "GENCHECK-MISMATCH <name> <input> impl=<..> gen=<..>" lines and exits 1 on any disagreement.
package main

import (
	"flag"
	"fmt"
	"os"
	"strings"

	"github.com/vechain/thor/v2/bft"
	"github.com/vechain/thor/v2/block"
	"github.com/vechain/thor/v2/logdb"
	"github.com/vechain/thor/v2/thor"
	"github.com/vechain/thor/v2/txpool"

	"verif/harness/internal/hx"
)

func b2s(b bool) string {
	if b {
		return "1"
	}
	return "0"
}

func zhex(x int64) string {
	if x < 0 {
		return fmt.Sprintf("-%x", uint64(-x))
	}
	return fmt.Sprintf("%x", x)
}

func main() {
	oracle := flag.String("oracle", "", "")
	seed := flag.Uint64("seed", 1, "")
	names := flag.String("names", "GasLimit,Sequence,Epoch,PoolSync", "")
	n := flag.Int("n", 20000, "cases per function")
	flag.Parse()
	r := hx.NewRand(*seed)
	var lines, want []string
	add := func(l, w string) { lines = append(lines, l); want = append(want, w) }
	u64 := func() uint64 {
		switch r.Intn(8) {
		case 0:
			return []uint64{0, 1, 1023, 1024, 999_999, 1_000_000, 1_000_001, ^uint64(0), ^uint64(0) - 1, 1 << 63, 1<<63 - 1}[r.Intn(11)]
		case 1:
			return 1_000_000 + r.Uint64()%100_000
		case 2:
			return ^uint64(0) - r.Uint64()%(1<<54)
		case 3:
			return r.Uint64()
		default:
			return 1_000_000 + r.Uint64()%200_000_000
		}
	}
	for _, name := range strings.Split(*names, ",") {
		switch name {
		case "GasLimit":
			for i := 0; i < *n; i++ {
				p := u64()
				g := u64()
				if r.Chance(1, 2) { // near the parent: the interesting band
					d := r.Uint64() % (p/1024 + 3)
					if r.Bool() {
						g = p + d
					} else if p >= d {
						g = p - d
					}
				}
				add(fmt.Sprintf("GasLimit.IsValid %x %x", g, p), b2s(block.GasLimit(g).IsValid(p)))
				add(fmt.Sprintf("GasLimit.Qualify %x %x", g, p), fmt.Sprintf("%x", block.GasLimit(g).Qualify(p)))
				d := int64(r.Uint64())
				if r.Chance(1, 2) {
					d = int64(r.Uint64()%(g/1024+5)) * int64(1-2*r.Intn(2))
				}
				if r.Chance(1, 50) {
					d = -1 << 63
				}
				add(fmt.Sprintf("GasLimit.Adjust %x %s", g, zhex(d)), fmt.Sprintf("%x", block.GasLimit(g).Adjust(d)))
			}
		case "Sequence":
			for i := 0; i < *n; i++ {
				pick := func(max uint32) uint32 {
					switch r.Intn(5) {
					case 0:
						return []uint32{0, 1, max, max - 1, max + 1, ^uint32(0)}[r.Intn(6)]
					case 1:
						return uint32(r.Uint64())
					default:
						return uint32(r.Uint64()) % (max + 1)
					}
				}
				b, t, l := pick(1<<28-1), pick(1<<15-1), pick(1<<20-1)
				s, ok := logdb.VerifNewSequence(b, t, l)
				w := "none"
				if ok {
					w = zhex(s)
					bb, tt, ll := logdb.VerifSequenceFields(s)
					add(fmt.Sprintf("sequence.fields %s", zhex(s)), fmt.Sprintf("%x %x %x", bb, tt, ll))
				}
				add(fmt.Sprintf("newSequence %x %x %x", b, t, l), w)
				// accessors on arbitrary non-negative int64 values as well
				x := int64(r.Uint64() >> 1)
				bb, tt, ll := logdb.VerifSequenceFields(x)
				add(fmt.Sprintf("sequence.fields %s", zhex(x)), fmt.Sprintf("%x %x %x", bb, tt, ll))
			}
		case "Epoch":
			for i := 0; i < *n; i++ {
				L := uint32(1 + r.Intn(400))
				if r.Chance(1, 10) {
					L = []uint32{1, 2, 180, 8640, 1 << 16, 1 << 31}[r.Intn(6)]
				}
				thor.SetConfig(thor.Config{EpochLength: L})
				num := uint32(r.Uint64())
				if r.Chance(1, 2) {
					num = uint32(r.Intn(5000))
				}
				if r.Chance(1, 20) {
					num = ^uint32(0) - uint32(r.Intn(int(L)+3))
				}
				add(fmt.Sprintf("epoch %x %x", L, num),
					fmt.Sprintf("%x %s %x", bft.VerifGetCheckPoint(num), b2s(bft.VerifIsCheckPoint(num)), bft.VerifGetStorePoint(num)))
			}
		case "PoolSync":
			for i := 0; i < *n; i++ {
				T := []uint64{10, 10, 1, 3, 60, 1 << 62}[r.Intn(6)]
				thor.SetConfig(thor.Config{BlockInterval: T})
				now := r.Uint64()
				blk := now + uint64(int64(r.Intn(200))-100)*T/3
				if r.Chance(1, 5) {
					blk = r.Uint64()
				}
				add(fmt.Sprintf("isChainSynced %x %x %x", T, now, blk), b2s(txpool.VerifIsChainSynced(now, blk)))
			}
		}
	}
	got, err := hx.AskAll(*oracle, lines)
	if err != nil {
		fmt.Fprintln(os.Stderr, "gencheck: oracle:", err)
		os.Exit(2)
	}
	bad := 0
	for i := range lines {
		if strings.TrimSpace(got[i]) != want[i] {
			if bad < 10 {
				fmt.Printf("GENCHECK-MISMATCH %s impl=%s gen=%s\n", lines[i], want[i], got[i])
			}
			bad++
		}
	}
	fmt.Printf("gencheck: %d evaluations, %d mismatches\n", len(lines), bad)
	if bad > 0 {
		os.Exit(1)
	}
}
